import AquaVerif.Proofs.PrepareGddOrder
/-
Totality, error classification and round trip of the `SwitchGDD == 1` branch of
`compute_crop_calendar` (`calendarInitCDSwitch` of `Model/PrepareGdd.lean`).

A. `calendarInitCD_noSwitch_ok`: the mode-1 calendar with `switchGDD := false` always returns; its
   value is `noSwitchOut F c`.  `switchStagesIn F toInt c`: the `GddStagesIn` the branch hands to
   `prepare_gdd`.
B. `calendarInitCDSwitch_ok_iff`: the whole entry point returns iff `GDDmethod ∈ {1,2,3}`, the
   `season` column exists, no row of the window is unlabelled, and every calendar-day index is a
   valid position in every season present (lengths counted on the ORIGINAL rows: `seasonLenT`).
C. `calendarInitCDSwitch_error` (+ `_unbound_iff`, `_key_iff`, `_index_iff`): the three errors and
   the condition of each.
D. `firstAbove_cumsum_succ`, `firstAbove_cumsum_getElem`, `converted_threshold_round_trip`:
   `firstAbove cum x` is the first position whose value is STRICTLY greater than `x` (0 when none);
   hence the cumulative sum read at position `i` is first exceeded at position `i + 1` as soon as
   the daily degrees are non-negative and the one of position `i + 1` is positive.

No law of `F` is assumed; `toInt` is arbitrary.
-/

set_option linter.unusedSectionVars false
set_option linter.unusedVariables false
set_option linter.unusedSimpArgs false
namespace Aqua
variable {α : Type} [Field α] [LinearOrder α] [IsStrictOrderedRing α]

/-! ## A. the mode-1 calendar without the switch always returns -/

/-- the record `calendarInitCD` returns when `switchGDD = false` -/
def noSwitchOut (F : Fn α) (c : CalCDIn α) : CalCDOut α :=
  let canopyDevEndCD :=
    if c.determinant then F.round0 (c.hiStartCD + c.floweringCD / 2) else c.senescenceCD
  let canopy10PctCD := F.round0 (c.emergenceCD + F.log (0.1 / c.cc0) / c.cgcCD)
  let maxCanopyCD := F.round0 (c.emergenceCD +
    F.log ((0.25 * c.ccx * c.ccx / c.cc0) / (c.ccx - 0.98 * c.ccx)) / c.cgcCD)
  let hiEndCD := c.hiStartCD + c.yldFormCD
  let fl : α × α × α :=
    if c.cropType = 3 then (c.hiStartCD + c.floweringCD, c.floweringEnd, c.floweringCD)
    else (-999, -999, c.floweringCD)
  { canopyDevEndCD := canopyDevEndCD, canopy10PctCD := canopy10PctCD,
    maxCanopyCD := maxCanopyCD, hiEndCD := hiEndCD,
    emergence := c.emergenceCD, canopy10Pct := canopy10PctCD, maxRooting := c.maxRootingCD,
    senescence := c.senescenceCD, maturity := c.maturityCD, maxCanopy := maxCanopyCD,
    canopyDevEnd := canopyDevEndCD, hiStart := c.hiStartCD, hiEnd := hiEndCD,
    yldForm := c.yldFormCD, floweringEndCD := fl.1, floweringEnd := fl.2.1,
    floweringCD := fl.2.2, cdc := c.cdcCD, cgc := c.cgcCD }

/-- `calendarInitCD` with the switch off never fails -/
theorem calendarInitCD_noSwitch_ok (F : Fn α) (c : CalCDIn α) :
    calendarInitCD F { c with switchGDD := false } = .ok (noSwitchOut F c) := by
  simp [calendarInitCD, noSwitchOut]

/-- the calendar-day indexes the `SwitchGDD` branch hands to `prepare_gdd` -/
def switchStagesIn (F : Fn α) (c : CalCDIn α) : GddStagesIn α :=
  let o := noSwitchOut F c
  { emergenceCD := c.emergenceCD, canopy10PctCD := o.canopy10PctCD,
    maxRootingCD := c.maxRootingCD, maxCanopyCD := o.maxCanopyCD,
    canopyDevEndCD := o.canopyDevEndCD, senescenceCD := c.senescenceCD,
    maturityCD := c.maturityCD, hiStartCD := c.hiStartCD, hiEndCD := o.hiEndCD,
    floweringEndCD := o.floweringEndCD, hiStart := o.hiStart, hiEnd := o.hiEnd }

/-- the previous attribute values the branch hands to `prepare_gdd` -/
def switchOld (F : Fn α) (c : CalCDIn α) (oldYF oldFD : α) : GddStages α :=
  let o := noSwitchOut F c
  { emergence := o.emergence, canopy10Pct := o.canopy10Pct, maxRooting := o.maxRooting,
    maxCanopy := o.maxCanopy, canopyDevEnd := o.canopyDevEnd, senescence := o.senescence,
    maturity := o.maturity, hiStart := o.hiStart, hiEnd := o.hiEnd,
    yieldFormation := oldYF, floweringEnd := o.floweringEnd, floweringDuration := oldFD }

/-- the rows the branch hands to `prepare_gdd` -/
def switchRows (m : GddMethod) (tbase tupp : α) (rows : List (Option Nat × α × α)) :
    List (Option Nat × α) :=
  rows.map (fun r => (r.1, gddDayInit m tbase tupp r.2.1 r.2.2))

/-- number of rows of season `k` in the ORIGINAL window (label, MinTemp, MaxTemp) -/
def seasonLenT (rows : List (Option Nat × α × α)) (k : Nat) : Nat :=
  (rows.filter (fun r => decide (r.1 = some k))).length

theorem seasonLen_switchRows (m : GddMethod) (tbase tupp : α) (rows : List (Option Nat × α × α))
    (k : Nat) : seasonLen (switchRows m tbase tupp rows) k = seasonLenT rows k := by
  simp [seasonLen, seasonGdd, switchRows, seasonLenT, List.filter_map, Function.comp_def]

theorem switchRows_labels (m : GddMethod) (tbase tupp : α) (rows : List (Option Nat × α × α)) :
    (switchRows m tbase tupp rows).map (·.1) = rows.map (·.1) := by
  simp [switchRows, List.map_map, Function.comp_def]

/-- the entry point, once the method is known, is `prepare_gdd` followed by a total computation -/
theorem calendarInitCDSwitch_eq_of_method {F : Fn α} {toInt : α → Int} {c : CalCDIn α}
    {gddMethod : Nat} {tbase tupp : α} {hasCol : Bool} {sumFun : Nat} {oldYF oldFD : α}
    {rows : List (Option Nat × α × α)} {m : GddMethod} (hm : GddMethod.ofNat? gddMethod = some m) :
    (∀ e, calendarInitCDSwitch F toInt c gddMethod tbase tupp hasCol sumFun oldYF oldFD rows
        = .error e ↔
      prepareGdd toInt c.cropType hasCol sumFun (switchStagesIn F c) (switchOld F c oldYF oldFD)
        (switchRows m tbase tupp rows) = .error e) ∧
    ((∃ r, calendarInitCDSwitch F toInt c gddMethod tbase tupp hasCol sumFun oldYF oldFD rows
        = .ok r) ↔
      ∃ g, prepareGdd toInt c.cropType hasCol sumFun (switchStagesIn F c)
        (switchOld F c oldYF oldFD) (switchRows m tbase tupp rows) = .ok g) := by
  unfold calendarInitCDSwitch
  simp only [calendarInitCD_noSwitch_ok, hm]
  simp only [switchStagesIn, switchOld, switchRows]
  constructor
  · intro e
    split <;> simp_all
  · split <;> simp_all

/-! ## B. totality of the entry point -/

/-- **totality of the `SwitchGDD == 1` branch of `compute_crop_calendar`** -/
theorem calendarInitCDSwitch_ok_iff (F : Fn α) (toInt : α → Int) (c : CalCDIn α) (gddMethod : Nat)
    (tbase tupp : α) (hasCol : Bool) (sumFun : Nat) (oldYF oldFD : α)
    (rows : List (Option Nat × α × α)) :
    (∃ r, calendarInitCDSwitch F toInt c gddMethod tbase tupp hasCol sumFun oldYF oldFD rows
        = .ok r) ↔
      (gddMethod = 1 ∨ gddMethod = 2 ∨ gddMethod = 3) ∧ hasCol = true ∧
      (∀ r ∈ rows, r.1 ≠ none) ∧
      (∀ k, some k ∈ rows.map (·.1) →
        StagesInRange toInt c.cropType (switchStagesIn F c) (seasonLenT rows k)) := by
  cases hm : GddMethod.ofNat? gddMethod with
  | none =>
    have hno : ¬ (gddMethod = 1 ∨ gddMethod = 2 ∨ gddMethod = 3) := by
      rw [← GddMethod.ofNat?_isSome_iff, hm]; simp
    constructor
    · rintro ⟨r, h⟩
      unfold calendarInitCDSwitch at h
      simp [calendarInitCD_noSwitch_ok, hm] at h
    · rintro ⟨h, _⟩; exact absurd h hno
  | some m =>
    have hyes : gddMethod = 1 ∨ gddMethod = 2 ∨ gddMethod = 3 := by
      rw [← GddMethod.ofNat?_isSome_iff, hm]; simp
    rw [(calendarInitCDSwitch_eq_of_method hm).2, prepareGdd_ok_iff]
    simp only [switchRows_labels, seasonLen_switchRows]
    constructor
    · rintro ⟨h1, h2, h3⟩
      refine ⟨hyes, h1, ?_, h3⟩
      intro r hr
      exact h2 _ (List.mem_map_of_mem (f := fun r => (r.1, gddDayInit m tbase tupp r.2.1 r.2.2)) hr)
    · rintro ⟨_, h1, h2, h3⟩
      refine ⟨h1, ?_, h3⟩
      intro q hq
      obtain ⟨r, hr, rfl⟩ := List.mem_map.mp hq
      exact h2 r hr

/-! ## C. errors -/

theorem prepareGdd_error {toInt : α → Int} {cropType : Nat} {hasCol : Bool} {sumFun : Nat}
    {s : GddStagesIn α} {old : GddStages α} {rows : List (Option Nat × α)} {e : String}
    (h : prepareGdd toInt cropType hasCol sumFun s old rows = .error e) :
    (e = "E:key" ∧ hasCol = false) ∨ (e = "E:index" ∧ hasCol = true) := by
  unfold prepareGdd at h
  cases hasCol with
  | false => simp at h; exact Or.inl ⟨h.symm, rfl⟩
  | true =>
    simp only [Bool.not_true, Bool.false_eq_true, if_false] at h
    split at h
    · simp at h; exact Or.inr ⟨h.symm, rfl⟩
    · simp at h

/-- **error classification**: `E:unbound` exactly when `GDDmethod ∉ {1,2,3}`; otherwise `E:key`
exactly when the `season` column is missing; otherwise `E:index` -/
theorem calendarInitCDSwitch_error {F : Fn α} {toInt : α → Int} {c : CalCDIn α}
    {gddMethod : Nat} {tbase tupp : α} {hasCol : Bool} {sumFun : Nat} {oldYF oldFD : α}
    {rows : List (Option Nat × α × α)} {e : String}
    (h : calendarInitCDSwitch F toInt c gddMethod tbase tupp hasCol sumFun oldYF oldFD rows
      = .error e) :
    (e = "E:unbound" ∧ ¬ (gddMethod = 1 ∨ gddMethod = 2 ∨ gddMethod = 3)) ∨
    (e = "E:key" ∧ (gddMethod = 1 ∨ gddMethod = 2 ∨ gddMethod = 3) ∧ hasCol = false) ∨
    (e = "E:index" ∧ (gddMethod = 1 ∨ gddMethod = 2 ∨ gddMethod = 3) ∧ hasCol = true) := by
  cases hm : GddMethod.ofNat? gddMethod with
  | none =>
    have hno : ¬ (gddMethod = 1 ∨ gddMethod = 2 ∨ gddMethod = 3) := by
      rw [← GddMethod.ofNat?_isSome_iff, hm]; simp
    unfold calendarInitCDSwitch at h
    simp [calendarInitCD_noSwitch_ok, hm] at h
    exact Or.inl ⟨h.symm, hno⟩
  | some m =>
    have hyes : gddMethod = 1 ∨ gddMethod = 2 ∨ gddMethod = 3 := by
      rw [← GddMethod.ofNat?_isSome_iff, hm]; simp
    rcases prepareGdd_error (((calendarInitCDSwitch_eq_of_method hm).1 e).mp h) with ⟨h1, h2⟩ | ⟨h1, h2⟩
    · exact Or.inr (Or.inl ⟨h1, hyes, h2⟩)
    · exact Or.inr (Or.inr ⟨h1, hyes, h2⟩)

/-- the three error strings -/
theorem calendarInitCDSwitch_error' {F : Fn α} {toInt : α → Int} {c : CalCDIn α}
    {gddMethod : Nat} {tbase tupp : α} {hasCol : Bool} {sumFun : Nat} {oldYF oldFD : α}
    {rows : List (Option Nat × α × α)} {e : String}
    (h : calendarInitCDSwitch F toInt c gddMethod tbase tupp hasCol sumFun oldYF oldFD rows
      = .error e) : e = "E:unbound" ∨ e = "E:key" ∨ e = "E:index" := by
  rcases calendarInitCDSwitch_error h with h | h | h
  · exact Or.inl h.1
  · exact Or.inr (Or.inl h.1)
  · exact Or.inr (Or.inr h.1)

/-- `UnboundLocalError` exactly when `GDDmethod` is none of 1, 2, 3 -/
theorem calendarInitCDSwitch_unbound_iff (F : Fn α) (toInt : α → Int) (c : CalCDIn α)
    (gddMethod : Nat) (tbase tupp : α) (hasCol : Bool) (sumFun : Nat) (oldYF oldFD : α)
    (rows : List (Option Nat × α × α)) :
    calendarInitCDSwitch F toInt c gddMethod tbase tupp hasCol sumFun oldYF oldFD rows
        = .error "E:unbound" ↔ ¬ (gddMethod = 1 ∨ gddMethod = 2 ∨ gddMethod = 3) := by
  constructor
  · intro h
    rcases calendarInitCDSwitch_error h with ⟨_, h2⟩ | ⟨h1, _⟩ | ⟨h1, _⟩
    · exact h2
    · exact absurd h1 (by decide)
    · exact absurd h1 (by decide)
  · intro hno
    cases hm : GddMethod.ofNat? gddMethod with
    | none =>
      unfold calendarInitCDSwitch
      simp [calendarInitCD_noSwitch_ok, hm]
    | some m =>
      exact absurd ((GddMethod.ofNat?_isSome_iff gddMethod).mp (by simp [hm])) hno

/-- `KeyError` exactly when the method is known and the `season` column is missing -/
theorem calendarInitCDSwitch_key_iff (F : Fn α) (toInt : α → Int) (c : CalCDIn α)
    (gddMethod : Nat) (tbase tupp : α) (hasCol : Bool) (sumFun : Nat) (oldYF oldFD : α)
    (rows : List (Option Nat × α × α)) :
    calendarInitCDSwitch F toInt c gddMethod tbase tupp hasCol sumFun oldYF oldFD rows
        = .error "E:key" ↔ (gddMethod = 1 ∨ gddMethod = 2 ∨ gddMethod = 3) ∧ hasCol = false := by
  constructor
  · intro h
    rcases calendarInitCDSwitch_error h with ⟨h1, _⟩ | ⟨_, h2⟩ | ⟨h1, _⟩
    · exact absurd h1 (by decide)
    · exact h2
    · exact absurd h1 (by decide)
  · rintro ⟨hyes, hc⟩
    cases hm : GddMethod.ofNat? gddMethod with
    | none =>
      exact absurd ((GddMethod.ofNat?_isSome_iff gddMethod).mpr hyes) (by simp [hm])
    | some m =>
      rw [(calendarInitCDSwitch_eq_of_method hm).1]
      simp [prepareGdd, hc]

/-- `IndexError` exactly when the method is known, the column exists, and an unlabelled row or an
out-of-range calendar-day index is present -/
theorem calendarInitCDSwitch_index_iff (F : Fn α) (toInt : α → Int) (c : CalCDIn α)
    (gddMethod : Nat) (tbase tupp : α) (hasCol : Bool) (sumFun : Nat) (oldYF oldFD : α)
    (rows : List (Option Nat × α × α)) :
    calendarInitCDSwitch F toInt c gddMethod tbase tupp hasCol sumFun oldYF oldFD rows
        = .error "E:index" ↔
      (gddMethod = 1 ∨ gddMethod = 2 ∨ gddMethod = 3) ∧ hasCol = true ∧
      ¬ ((∀ r ∈ rows, r.1 ≠ none) ∧
        (∀ k, some k ∈ rows.map (·.1) →
          StagesInRange toInt c.cropType (switchStagesIn F c) (seasonLenT rows k))) := by
  have hok := calendarInitCDSwitch_ok_iff F toInt c gddMethod tbase tupp hasCol sumFun oldYF oldFD
    rows
  constructor
  · intro h
    rcases calendarInitCDSwitch_error h with ⟨h1, _⟩ | ⟨h1, _⟩ | ⟨_, h2, h3⟩
    · exact absurd h1 (by decide)
    · exact absurd h1 (by decide)
    · refine ⟨h2, h3, fun hc => ?_⟩
      obtain ⟨r, hr⟩ := hok.mpr ⟨h2, h3, hc⟩
      rw [h] at hr; cases hr
  · rintro ⟨h1, h2, h3⟩
    cases hr : calendarInitCDSwitch F toInt c gddMethod tbase tupp hasCol sumFun oldYF oldFD
      rows with
    | ok r => exact absurd (hok.mp ⟨r, hr⟩).2.2 h3
    | error e =>
      rcases calendarInitCDSwitch_error hr with ⟨_, h4⟩ | ⟨_, _, h4⟩ | ⟨h4, _⟩
      · exact absurd h1 h4
      · rw [h2] at h4; cases h4
      · rw [h4]

/-! ## D. round trip -/

/-- consecutive running sums differ by exactly the term of the later position -/
theorem cumsumFrom_getElem?_succ (acc : α) (xs : List α) (i : Nat) (h : i + 1 < xs.length) :
    ∃ t, (cumsumFrom acc xs)[i]? = some t ∧ (cumsumFrom acc xs)[i + 1]? = some (t + xs[i + 1]) := by
  induction xs generalizing acc i with
  | nil => simp at h
  | cons x xs ih =>
    cases i with
    | zero =>
      cases xs with
      | nil => simp at h
      | cons y ys => exact ⟨acc + x, by simp [cumsumFrom], by simp [cumsumFrom]⟩
    | succ i =>
      have h' : i + 1 < xs.length := by simpa using h
      obtain ⟨t, h0, h1⟩ := ih (acc + x) i h'
      exact ⟨t, by simpa [cumsumFrom] using h0, by simpa [cumsumFrom] using h1⟩

/-- **round trip, core**: `firstAbove cum x` = first position whose value is STRICTLY greater than
`x`.  With non-negative daily degrees `g` and a positive one at position `i + 1`, the cumulative
sum read at position `i` is first exceeded at position `i + 1`. -/
theorem firstAbove_cumsum_succ {g : List α} {i : Nat} (hi : i + 1 < g.length)
    (hnn : ∀ x ∈ g, 0 ≤ x) (hpos : 0 < g[i + 1]) :
    ∃ t, (cumsum g)[i]? = some t ∧ firstAbove (cumsum g) t = i + 1 := by
  have hpw := cumsum_pairwise hnn
  rw [cumsum_eq_cumsumFrom_zero] at hpw ⊢
  obtain ⟨t, h0, h1⟩ := cumsumFrom_getElem?_succ 0 g i hi
  refine ⟨t, h0, ?_⟩
  have hf : findAbove t (cumsumFrom 0 g) = some (i + 1) := by
    apply findAbove_eq_of_spec
    · exact ⟨t + g[i + 1], h1, lt_add_of_pos_right t hpos⟩
    · intro j hj d hd
      obtain ⟨hi', rfl⟩ := List.getElem?_eq_some_iff.mp h0
      obtain ⟨hj', rfl⟩ := List.getElem?_eq_some_iff.mp hd
      rcases Nat.lt_or_eq_of_le (Nat.lt_succ_iff.mp hj) with hlt | heq
      · exact not_lt.mpr ((List.pairwise_iff_getElem.mp hpw) _ _ hj' hi' hlt)
      · subst heq; exact lt_irrefl _
  simp [firstAbove, hf]

/-- the same with `getElem` -/
theorem firstAbove_cumsum_getElem {g : List α} {i : Nat} (hi : i + 1 < g.length)
    (hnn : ∀ x ∈ g, 0 ≤ x) (hpos : 0 < g[i + 1]) :
    firstAbove (cumsum g) ((cumsum g)[i]'(by rw [cumsum_length]; omega)) = i + 1 := by
  obtain ⟨t, h0, h1⟩ := firstAbove_cumsum_succ hi hnn hpos
  obtain ⟨_, rfl⟩ := List.getElem?_eq_some_iff.mp h0
  exact h1

/-- **round trip of a converted threshold (single season)**: the thermal value `prepare_gdd`
stores for a stage read at the non-negative calendar-day position `i = int(stageCD)` is, on that
season's cumulative growing degrees, first exceeded at position `i + 1` — the Mode-2 search
(`firstAbove`, strict `>`) returns the calendar-day position it came from plus one — provided the
daily degrees are non-negative and the one of position `i + 1` is positive. -/
theorem converted_threshold_round_trip {toInt : α → Int} {cropType : Nat} {hasCol : Bool}
    {sumFun : Nat} {s : GddStagesIn α} {old g : GddStages α} {rows : List (Option Nat × α)}
    {k : Option Nat}
    (h : prepareGdd toInt cropType hasCol sumFun s old rows = .ok g)
    (hk : uniqLabels (rows.map (·.1)) = [k]) (hsf : sumFun = 0 ∨ sumFun = 1) (a : Stage)
    (hg : ∀ r ∈ rows, 0 ≤ r.2) (ha : 0 ≤ toInt (a.cd s))
    (hi : (toInt (a.cd s)).toNat + 1 < (seasonGdd rows k).length)
    (hpos : 0 < (seasonGdd rows k)[(toInt (a.cd s)).toNat + 1]) :
    firstAbove (cumsum (seasonGdd rows k)) (a.val g) = (toInt (a.cd s)).toNat + 1 := by
  have h1 := prepareGdd_single_season h hk hsf a
  rw [iloc_of_nonneg ha] at h1
  obtain ⟨t, h0, h2⟩ := firstAbove_cumsum_succ hi (seasonGdd_nonneg hg k) hpos
  rw [h0] at h1
  cases h1
  exact h2

/-- non-vacuity: degrees `1, 0, 2, 3`; cumulative `1, 1, 3, 6`; the value read at position 1 (`1`)
is first exceeded at position 2 -/
example : firstAbove (cumsum ([1, 0, 2, 3] : List ℚ)) 1 = 2 := by
  simp [firstAbove, findAbove, cumsum, cumsumFrom]

example : firstAbove (cumsum ([1, 0, 2, 3] : List ℚ))
    ((cumsum ([1, 0, 2, 3] : List ℚ))[1]'(by simp [cumsum, cumsumFrom])) = 1 + 1 :=
  firstAbove_cumsum_getElem (by simp) (by simp) (by simp)

#print axioms calendarInitCD_noSwitch_ok
#print axioms calendarInitCDSwitch_ok_iff
#print axioms calendarInitCDSwitch_error
#print axioms calendarInitCDSwitch_error'
#print axioms calendarInitCDSwitch_unbound_iff
#print axioms calendarInitCDSwitch_key_iff
#print axioms calendarInitCDSwitch_index_iff
#print axioms firstAbove_cumsum_succ
#print axioms firstAbove_cumsum_getElem
#print axioms converted_threshold_round_trip

end Aqua
