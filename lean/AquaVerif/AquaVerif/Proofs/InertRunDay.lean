import AquaVerif.Proofs.InertRunProc
/-
Work package X, part 2 — **one simulated day under two management records**.

`fullDay` (`Model/Day.lean`) reads the irrigation record (`IrrMngt`: method, thresholds, …,
`NetIrrSMT`, `WetSurf`, the day's `Schedule` entry) and the field-management record in exactly
seven places: `pre_irrigation`, `rainfall_partition`, `irrigation`, `infiltration`,
`soil_evaporation`, `transpiration` and the irrigation report of the output block (`IrrMethod = 4`
only).  `DaySim` lists, call site by call site, what two management records have to agree on
*at the level of the process calls*; `fullDay_sim` then shows that the two days coincide: every
row, the new state, the summary row, the ghost records `crop` / `water`, the error outcome, and
every intermediate process output of the trace — except the three ghost branch ids
(`IrrOut.branch`, `InfOut.branch`, `EvapOut.branch`), which are erased on both sides
(`DayResult.noBranch`).

Everything else in this work package (`DayInert`, the neutral-value theorems, the run level) is an
instance of `fullDay_sim`.
-/

set_option linter.unusedSectionVars false
set_option linter.unusedVariables false
namespace Aqua
variable {α : Type} [Field α] [LinearOrder α] [IsStrictOrderedRing α]

/-! ## 0. erasing the ghost branch ids -/

/-- the trace without the three ghost branch ids -/
def FullTrace.noBranch (X : FullTrace α) : FullTrace α :=
  { X with i := X.i.noBranch, f := X.f.noBranch, e := X.e.noBranch }

/-- the day's result without the three ghost branch ids of its trace -/
def DayResult.noBranch (r : DayResult α) : DayResult α := { r with trace := r.trace.noBranch }

/-- the management records replaced (`IrrMngt` with `NetIrrSMT`, `WetSurf`; `FieldMngt`) -/
@[reducible] def DayParams.withMgmt (P : DayParams α) (irr' : IrrParams α) (smt' wet' : α)
    (fm' : FieldMngt α) : DayParams α :=
  { P with W := { P.W with irr := irr', netIrrSMT := smt', wetSurf := wet' }, fm := fm' }

/-! ## 1. congruence of `bind` in `Except` with an observation on the result -/

section binds
variable {ε β β' γ δ : Type}

theorem sim_bind_eq (x : Except ε β) {f f' : β → Except ε γ} (g : γ → δ)
    (hf : ∀ b, x = .ok b → (f' b).map g = (f b).map g) :
    (x >>= f').map g = (x >>= f).map g := by
  cases x with
  | error e => rfl
  | ok b => exact hf b rfl

theorem sim_bind_er {x x' : Except ε β} {f f' : β → Except ε γ} (g : γ → δ) (eb : β → β')
    (hx : x'.map eb = x.map eb)
    (hf : ∀ b b', x = .ok b → x' = .ok b' → eb b' = eb b → (f' b').map g = (f b).map g) :
    (x' >>= f').map g = (x >>= f).map g := by
  cases x with
  | error e =>
    cases x' with
    | error e' =>
      have : e' = e := by simpa [Except.map] using hx
      subst this; rfl
    | ok b' => simp [Except.map] at hx
  | ok b =>
    cases x' with
    | error e' => simp [Except.map] at hx
    | ok b' => exact hf b b' rfl rfl (by simpa [Except.map] using hx)

theorem mapErr_map_congr {ε' : Type} (h : ε' → String) {x x' : Except ε' β} (eb : β → β')
    (hx : x'.map eb = x.map eb) : (mapErr h x').map eb = (mapErr h x).map eb := by
  cases x with
  | error e =>
    cases x' with
    | error e' =>
      have : e' = e := by simpa [Except.map] using hx
      subst this; rfl
    | ok b' => simp [Except.map] at hx
  | ok b =>
    cases x' with
    | error e' => simp [Except.map] at hx
    | ok b' =>
      have : eb b' = eb b := by simpa [Except.map] using hx
      simp [mapErr, Except.map, this]

theorem mapErr_ok' {ε' : Type} {h : ε' → String} {x : Except ε' β} {b : β}
    (hx : mapErr h x = .ok b) : x = .ok b := by
  cases x with
  | error e => simp [mapErr] at hx
  | ok a => simpa [mapErr] using hx

end binds

/-! ## 2. the call-site conditions -/

/-- What the management records `(irr', smt', wet', fm')` with schedule entry `s'` have to share
with those of `P` (schedule entry `D.sched`) on a day that starts in state `st` with forcing `D`.
Each field is one call site of `fullDayTrace`; the arguments that the management records do not
determine are universally quantified.  `inf` and `evap` may use that the irrigation call of the
day returned `i`. -/
structure DaySim (F : Fn α) (P : DayParams α) (st : DayState' α) (D : DayIn' α)
    (irr' : IrrParams α) (smt' wet' : α) (fm' : FieldMngt α) (s' : Option α) : Prop where
  /-- the output block and the water-flux row test `IrrMethod == 4` only -/
  net : D.gs = true → (irr'.method = 4 ↔ P.W.irr.method = 4)
  pre : ∀ np cells dap zRoot,
    preIrrigationT F np cells D.gs irr'.method dap zRoot P.W.crop.tr.zMin smt' =
      preIrrigationT F np cells D.gs P.W.irr.method dap zRoot P.W.crop.tr.zMin P.W.netIrrSMT
  rain : ∀ cells,
    rainPartition F D.rain cells st.daySubmerged fm'.srInhb fm'.bunds fm'.zBund
        (if fm'.cnAdj then fm'.cnAdjPct else 0) P.W.soil.cn P.W.soil.adjCN P.W.soil.zCN =
      rainPartition F D.rain cells st.daySubmerged P.fm.srInhb P.fm.bunds P.fm.zBund
        (if P.fm.cnAdj then P.fm.cnAdjPct else 0) P.W.soil.cn P.W.soil.adjCN P.W.soil.zCN
  irr : ∀ cells zRoot dap runoff,
    (irrigation F irr' cells st.growthStage st.irrCum st.ePot st.tPot zRoot dap s'
        P.W.crop.tr.zMin P.W.crop.tr.aer P.W.soil.zTop D.gs D.rain runoff).map IrrOut.noBranch =
      (irrigation F P.W.irr cells st.growthStage st.irrCum st.ePot st.tPot zRoot dap D.sched
        P.W.crop.tr.zMin P.W.crop.tr.aer P.W.soil.zTop D.gs D.rain runoff).map IrrOut.noBranch
  inf : ∀ cells0 zRoot dap runoff0 i,
    irrigation F P.W.irr cells0 st.growthStage st.irrCum st.ePot st.tPot zRoot dap D.sched
        P.W.crop.tr.zMin P.W.crop.tr.aer P.W.soil.zTop D.gs D.rain runoff0 = .ok i →
    ∀ cells infl dp ro,
      (infiltration F cells st.pond infl i.irr irr'.appEff fm'.bunds fm'.zBund dp ro D.gs).map
          InfOut.noBranch =
        (infiltration F cells st.pond infl i.irr P.W.irr.appEff P.fm.bunds P.fm.zBund dp ro D.gs).map
          InfOut.noBranch
  evap : ∀ cells0 zRoot dap runoff0 i,
    irrigation F P.W.irr cells0 st.growthStage st.irrCum st.ePot st.tPot zRoot dap D.sched
        P.W.crop.tr.zMin P.W.crop.tr.aer P.W.soil.zTop D.gs D.rain runoff0 = .ok i →
    ∀ S cells infl,
      (soilEvaporation F (dayEvapParams (P.withMgmt irr' smt' wet' fm').W fm') S cells
          (dayEvapDay D.water infl i.irr)).map EvapOut.noBranch =
        (soilEvaporation F (dayEvapParams P.W P.fm) S cells
          (dayEvapDay D.water infl i.irr)).map EvapOut.noBranch
  tr : ∀ cells S gdd,
    transpiration F cells P.W.soil.nComp P.W.soil.zTop P.W.crop.tr irr'.method smt' S D.et0
        P.W.co2Cur P.W.co2Ref D.gs gdd =
      transpiration F cells P.W.soil.nComp P.W.soil.zTop P.W.crop.tr P.W.irr.method
        P.W.netIrrSMT S D.et0 P.W.co2Cur P.W.co2Ref D.gs gdd

/-! ## 3. the day -/

section day
variable {F : Fn α} {T : TrigFn α} {P : DayParams α} {st : DayState' α} {D : DayIn' α}
  {irr' : IrrParams α} {smt' wet' : α} {fm' : FieldMngt α} {s' : Option α}

theorem IrrOut.noBranch_eq {a b : IrrOut α} (h : a.noBranch = b.noBranch) :
    a.depletion = b.depletion ∧ a.taw = b.taw ∧ a.irrCum = b.irrCum ∧ a.irr = b.irr := by
  cases a; cases b
  simp only [IrrOut.noBranch, IrrOut.mk.injEq] at h
  exact ⟨h.1, h.2.1, h.2.2.1, h.2.2.2.1⟩

/-- **the process outputs of the two days coincide** up to the ghost branch ids -/
theorem fullDayTrace_sim (h : DaySim F P st D irr' smt' wet' fm' s') :
    (fullDayTrace F T (P.withMgmt irr' smt' wet' fm') st { D with sched := s' }).map
        FullTrace.noBranch =
      (fullDayTrace F T P st D).map FullTrace.noBranch := by
  have hC : ∀ tc rd ge cc, cropDayOf (P.withMgmt irr' smt' wet' fm') st tc rd ge cc =
      cropDayOf P st tc rd ge cc := fun _ _ _ _ => rfl
  have hE : ∀ infl irr, dayEvapDay ({ D with sched := s' } : DayIn' α).water infl irr =
      dayEvapDay D.water infl irr := fun _ _ => rfl
  unfold fullDayTrace
  dsimp only [DayState'.water]
  simp only [hC, hE]
  refine sim_bind_eq _ _ (fun tc htc => ?_)
  refine sim_bind_eq _ _ (fun g hg => ?_)
  refine sim_bind_eq _ _ (fun rd hrd => ?_)
  rw [h.pre]
  refine sim_bind_eq _ _ (fun p hp => ?_)
  rw [h.rain]
  refine sim_bind_eq _ _ (fun r hr => ?_)
  refine sim_bind_er _ IrrOut.noBranch (mapErr_map_congr _ _ (h.irr _ _ _ _))
    (fun i i' hi hi' hii => ?_)
  obtain ⟨e1, e2, e3, e4⟩ := IrrOut.noBranch_eq hii
  have hi0 := mapErr_ok' hi
  rw [e4]
  refine sim_bind_er _ InfOut.noBranch (h.inf _ _ _ _ _ hi0 _ _ _ _) (fun f f' hf hf' hff => ?_)
  have ef : f'.cells = f.cells ∧ f'.pond = f.pond ∧ f'.infl = f.infl := by
    have := hff
    cases f; cases f'
    simp only [InfOut.noBranch, InfOut.mk.injEq] at this
    exact ⟨this.1, this.2.1, this.2.2.2.2.1⟩
  rw [ef.1, ef.2.1, ef.2.2, e1, e2]
  refine sim_bind_eq _ _ (fun c hc => ?_)
  refine sim_bind_eq _ _ (fun ge hge => ?_)
  refine sim_bind_eq _ _ (fun gst hgst => ?_)
  refine sim_bind_eq _ _ (fun cc hcc => ?_)
  refine sim_bind_er _ EvapOut.noBranch (h.evap _ _ _ _ _ hi0 _ _ _) (fun e e' he he' hee => ?_)
  have ee : e'.cells = e.cells ∧ e'.pond = e.pond := by
    have := hee
    cases e; cases e'
    simp only [EvapOut.noBranch, EvapOut.mk.injEq] at this
    exact ⟨this.1, this.2.2.2.2.2.1⟩
  rw [ee.1, ee.2, h.tr]
  refine sim_bind_eq _ _ (fun t ht => ?_)
  refine sim_bind_eq _ _ (fun w hw => ?_)
  refine sim_bind_eq _ _ (fun hi hhi => ?_)
  refine sim_bind_eq _ _ (fun rz hrz => ?_)
  show Except.ok _ = Except.ok _
  congr 1
  simp only [FullTrace.noBranch, hii, hff, hee]

theorem dayResultOf_noBranch (P : DayParams α) (st : DayState' α) (D : DayIn' α) (X : FullTrace α) :
    (dayResultOf P st D X).noBranch = dayResultOf P st D X.noBranch := rfl

theorem dayResultOf_withMgmt (hnet : D.gs = true → (irr'.method = 4 ↔ P.W.irr.method = 4))
    (X : FullTrace α) :
    dayResultOf (P.withMgmt irr' smt' wet' fm') st { D with sched := s' } X =
      dayResultOf P st D X := by
  have e1 : irrReportOf (P.withMgmt irr' smt' wet' fm') { D with sched := s' } X =
      irrReportOf P D X := by
    unfold irrReportOf irrReport
    cases hg : D.gs with
    | false => simp
    | true =>
      have hnet := hnet hg
      by_cases h4 : P.W.irr.method = 4
      · simp [h4, hnet.mpr h4]
      · simp [h4, mt hnet.mp h4]
  have e2 : stateAfter (P.withMgmt irr' smt' wet' fm') st { D with sched := s' } X =
      stateAfter P st D X := by
    unfold stateAfter
    rw [e1]
    rfl
  have e3 : dayOutOf (P.withMgmt irr' smt' wet' fm').W ({ D with sched := s' } : DayIn' α).water
      X.water = dayOutOf P.W D.water X.water := by
    unfold dayOutOf
    cases hg : D.gs with
    | false => simp [DayIn'.water, hg]
    | true =>
      have hnet := hnet hg
      by_cases h4 : P.W.irr.method = 4
      · simp [h4, hnet.mpr h4, DayIn'.water, hg]
      · simp [h4, mt hnet.mp h4, DayIn'.water, hg]
  unfold dayResultOf
  rw [e1, e2, e3]
  rfl

/-- **the two days coincide**: rows, new state, summary row, ghost records, error outcome and all
process outputs except the ghost branch ids -/
theorem fullDay_sim (h : DaySim F P st D irr' smt' wet' fm' s') :
    (fullDay F T (P.withMgmt irr' smt' wet' fm') st { D with sched := s' }).map
        DayResult.noBranch =
      (fullDay F T P st D).map DayResult.noBranch := by
  have hs := fullDayTrace_sim (T := T) h
  unfold fullDay
  cases hX : fullDayTrace F T P st D with
  | error e =>
    rw [hX] at hs
    cases hX' : fullDayTrace F T (P.withMgmt irr' smt' wet' fm') st { D with sched := s' } with
    | error e' =>
      rw [hX'] at hs
      have : e' = e := by simpa [Except.map] using hs
      subst this; rfl
    | ok X' => rw [hX'] at hs; simp [Except.map] at hs
  | ok X =>
    rw [hX] at hs
    cases hX' : fullDayTrace F T (P.withMgmt irr' smt' wet' fm') st { D with sched := s' } with
    | error e' => rw [hX'] at hs; simp [Except.map] at hs
    | ok X' =>
      rw [hX'] at hs
      have hXX : X'.noBranch = X.noBranch := by simpa [Except.map] using hs
      show Except.ok _ = Except.ok _
      congr 1
      rw [dayResultOf_noBranch, dayResultOf_noBranch, dayResultOf_withMgmt h.net, hXX]

end day
end Aqua
