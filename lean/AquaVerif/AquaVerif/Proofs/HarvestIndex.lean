import AquaVerif.Model.HIref
import AquaVerif.Model.HarvestIndex
import AquaVerif.Model.HIinit
import AquaVerif.Proofs.Basic
import AquaVerif.Proofs.Response
/-
Lemmas about the harvest-index chain (property C05): `HIref_current_day`, `harvest_index` with
its `HIadj_*` helpers, and the initialisation loops `calculate_HIGC` / `calculate_HI_linear`.

All statements are for an arbitrary linearly ordered field `α`.  Laws assumed about the
non-algebraic functions, always as explicit hypotheses:
* `ExpOrdLaws F` (from `Proofs/Response.lean`: `exp > 0`, `exp 0 = 1`, strictly monotone) — for
  the logistic build-up curve;
* `SinLaw T` (`-1 ≤ sin x ≤ 1`) — for the pre-anthesis adjustment;
* `PowNonneg F` (`0 ≤ x → 0 ≤ x ** y`) — for the post-anthesis adjustment;
* `ExpAddLaw F` and `ExpLinLaw F` (`1 + x ≤ exp x`) — only for the termination of the
  `calculate_HIGC` loop.
-/

set_option linter.unusedSectionVars false
set_option linter.unusedVariables false
namespace Aqua
variable {α : Type} [Field α] [LinearOrder α] [IsStrictOrderedRing α]

/-! ## 1. Off season -/

/-- off season the reference harvest index is zero, the flag and the lag percentage are kept -/
theorem hiref_offseason (F : Fn α) (c : HiCrop α) (s : HiRefIn α) :
    hiRefCurrentDay F c s false =
      { hiRef := 0, yieldForm := s.yieldForm, pctLagPhase := s.pctLagPhase, hiFinal := s.hiFinal } := by
  simp [hiRefCurrentDay]

/-- off season `harvest_index` only zeroes the two indices (no other field is touched, nothing
can raise) -/
theorem hi_offseason (F : Fn α) (T : TrigFn α) (cells : List (Cell α)) (zTop : α) (c : HiCrop α)
    (k : HiStressCrop α) (s : HiState α) (et0 tmax tmin : α) :
    harvestIndex F T cells zTop c k s et0 tmax tmin false = .ok { s with hi := 0, hiAdj := 0 } := by
  simp [harvestIndex]

/-! ## 2. The reference harvest index: caps -/

/-- the limiter never returns more than `HI0` -/
theorem hiRefLimit_le_hi0 (c : HiCrop α) (h : α) (h0 : 0 ≤ c.hi0) : hiRefLimit c h ≤ c.hi0 := by
  unfold hiRefLimit
  split_ifs with h1 h2 h3
  · exact le_rfl
  · exact h0
  · exact le_rfl
  · exact not_lt.mp h1

theorem hiRefLimit_nonneg (c : HiCrop α) (h : α) (h0 : 0 ≤ c.hi0) (hini : -0.004 ≤ c.hiIni) :
    0 ≤ hiRefLimit c h := by
  unfold hiRefLimit
  split_ifs with h1 h2 h3
  · exact h0
  · exact le_rfl
  · exact h0
  · have := not_le.mp h2; linarith

/-- the limiter is monotone -/
theorem hiRefLimit_mono (c : HiCrop α) {x y : α} (hxy : x ≤ y) (h0 : 0 ≤ c.hi0)
    (hini : -0.004 ≤ c.hiIni) : hiRefLimit c x ≤ hiRefLimit c y := by
  have hy := hiRefLimit_nonneg c y h0 hini
  have hy' := hiRefLimit_le_hi0 c y h0
  unfold hiRefLimit at hy hy' ⊢
  split_ifs at hy hy' ⊢ <;> linarith

/-- in season, once the build-up has started, the returned value is the limited curve value
capped by `HIfinal`: the "inadequate photosynthesis" block (which assigns only the local copy
of `HIfinal`) has **no effect** on the result — the canopy arguments are irrelevant. -/
theorem hiref_eq (F : Fn α) (c : HiCrop α) (s : HiRefIn α) (h0 : 0 ≤ c.hi0)
    (ht : 0 < hiTime c s.dap s.delayedCDs) :
    (hiRefCurrentDay F c s true).hiRef =
      min (hiRefLimit c (hiRefRaw F c (hiTime c s.dap s.delayedCDs) (s.hiRef, s.pctLagPhase)).1)
        s.hiFinal := by
  have hle := hiRefLimit_le_hi0 c
    (hiRefRaw F c (hiTime c s.dap s.delayedCDs) (s.hiRef, s.pctLagPhase)).1 h0
  simp only [hiRefCurrentDay, if_true, not_le.mpr ht, if_false]
  by_cases hc : hiFinalAdjCond c s.hiFinal (hiTime c s.dap s.delayedCDs) s.cc s.ccxW
  · have heq : s.hiFinal = c.hi0 := le_antisymm hc.1.1 hc.1.2
    simp only [hc, if_true, lt_irrefl, if_false]
    rw [heq]; exact (min_eq_left hle).symm
  · simp only [hc, if_false]
    split_ifs with h1
    · exact (min_eq_right h1.le).symm
    · exact (min_eq_left (not_lt.mp h1)).symm

/-- before the build-up starts the reference index is zero -/
theorem hiref_eq_zero (F : Fn α) (c : HiCrop α) (s : HiRefIn α)
    (ht : hiTime c s.dap s.delayedCDs ≤ 0) : (hiRefCurrentDay F c s true).hiRef = 0 := by
  simp [hiRefCurrentDay, ht]

/-- **cap by `HIfinal`** (the code's last statement) -/
theorem hiref_le_hifinal (F : Fn α) (c : HiCrop α) (s : HiRefIn α) (gs : Bool) (h0 : 0 ≤ c.hi0)
    (hf : 0 ≤ s.hiFinal) : (hiRefCurrentDay F c s gs).hiRef ≤ s.hiFinal := by
  cases gs
  · rw [hiref_offseason]; exact hf
  · by_cases ht : 0 < hiTime c s.dap s.delayedCDs
    · rw [hiref_eq F c s h0 ht]; exact min_le_right _ _
    · rw [hiref_eq_zero F c s (not_lt.mp ht)]; exact hf

/-- **cap by `HI0`** (the limiter) — no assumption on `HIfinal` -/
theorem hiref_le_hi0 (F : Fn α) (c : HiCrop α) (s : HiRefIn α) (gs : Bool) (h0 : 0 ≤ c.hi0) :
    (hiRefCurrentDay F c s gs).hiRef ≤ c.hi0 := by
  cases gs
  · rw [hiref_offseason]; exact h0
  · by_cases ht : 0 < hiTime c s.dap s.delayedCDs
    · rw [hiref_eq F c s h0 ht]
      exact le_trans (min_le_left _ _) (hiRefLimit_le_hi0 c _ h0)
    · rw [hiref_eq_zero F c s (not_lt.mp ht)]; exact h0

theorem hiref_nonneg (F : Fn α) (c : HiCrop α) (s : HiRefIn α) (gs : Bool) (h0 : 0 ≤ c.hi0)
    (hini : -0.004 ≤ c.hiIni) (hf : 0 ≤ s.hiFinal) : 0 ≤ (hiRefCurrentDay F c s gs).hiRef := by
  cases gs
  · rw [hiref_offseason]
  · by_cases ht : 0 < hiTime c s.dap s.delayedCDs
    · rw [hiref_eq F c s h0 ht]
      exact le_min (hiRefLimit_nonneg c _ h0 hini) hf
    · rw [hiref_eq_zero F c s (not_lt.mp ht)]

/-! ### the logistic build-up curve -/

theorem hiLogistic_den_pos {F : Fn α} (hF : ExpOrdLaws F) {hiIni hi0 : α} (g t : α)
    (h1 : 0 < hiIni) (h2 : hiIni < hi0) :
    hiIni < hiIni + (hi0 - hiIni) * F.exp ((-g) * t) := by
  have := mul_pos (sub_pos.mpr h2) (hF.exp_pos ((-g) * t)); linarith

/-- the logistic curve stays strictly below `HI0` -/
theorem hiLogistic_lt_hi0 {F : Fn α} (hF : ExpOrdLaws F) {hiIni hi0 : α} (g t : α)
    (h1 : 0 < hiIni) (h2 : hiIni < hi0) : hiLogistic F hiIni hi0 g t < hi0 := by
  have hd := hiLogistic_den_pos hF g t h1 h2
  unfold hiLogistic
  rw [div_lt_iff₀ (lt_trans h1 hd)]
  have h0 : 0 < hi0 := lt_trans h1 h2
  nlinarith

theorem hiLogistic_pos {F : Fn α} (hF : ExpOrdLaws F) {hiIni hi0 : α} (g t : α)
    (h1 : 0 < hiIni) (h2 : hiIni < hi0) : 0 < hiLogistic F hiIni hi0 g t := by
  have hd := hiLogistic_den_pos hF g t h1 h2
  unfold hiLogistic
  exact div_pos (mul_pos h1 (lt_trans h1 h2)) (lt_trans h1 hd)

/-- … starts at `HIini` … -/
theorem hiLogistic_at_zero {F : Fn α} (hF : ExpOrdLaws F) {hiIni hi0 : α} (g : α)
    (h1 : 0 < hiIni) (h2 : hiIni < hi0) : hiLogistic F hiIni hi0 g 0 = hiIni := by
  have h0 : hi0 ≠ 0 := (lt_trans h1 h2).ne'
  unfold hiLogistic
  rw [mul_zero, hF.exp_zero]
  field_simp
  ring

/-- … and is monotone in time for a non-negative growth coefficient. -/
theorem hiLogistic_mono {F : Fn α} (hF : ExpOrdLaws F) {hiIni hi0 g t t' : α}
    (h1 : 0 < hiIni) (h2 : hiIni < hi0) (hg : 0 ≤ g) (htt : t ≤ t') :
    hiLogistic F hiIni hi0 g t ≤ hiLogistic F hiIni hi0 g t' := by
  have hd := hiLogistic_den_pos hF g t h1 h2
  have hd' := hiLogistic_den_pos hF g t' h1 h2
  have he : F.exp ((-g) * t') ≤ F.exp ((-g) * t) := by
    apply hF.exp_le; nlinarith
  unfold hiLogistic
  apply div_le_div_of_nonneg_left (mul_pos h1 (lt_trans h1 h2)).le (lt_trans h1 hd')
  have := mul_le_mul_of_nonneg_left he (sub_pos.mpr h2).le
  linarith

/-- monotone in the growth coefficient too (used for `calculate_HIGC`) -/
theorem hiLogistic_mono_g {F : Fn α} (hF : ExpOrdLaws F) {hiIni hi0 g g' t : α}
    (h1 : 0 < hiIni) (h2 : hiIni < hi0) (ht : 0 ≤ t) (hgg : g ≤ g') :
    hiLogistic F hiIni hi0 g t ≤ hiLogistic F hiIni hi0 g' t := by
  have hd := hiLogistic_den_pos hF g t h1 h2
  have hd' := hiLogistic_den_pos hF g' t h1 h2
  have he : F.exp ((-g') * t) ≤ F.exp ((-g) * t) := by
    apply hF.exp_le; nlinarith
  unfold hiLogistic
  apply div_le_div_of_nonneg_left (mul_pos h1 (lt_trans h1 h2)).le (lt_trans h1 hd')
  have := mul_le_mul_of_nonneg_left he (sub_pos.mpr h2).le
  linarith

/-- well-formed harvest-index build-up parameters (hold for all built-in crops after
initialisation, see `corr_harvest_index.py`) -/
structure HiCrop.BuildUp (c : HiCrop α) : Prop where
  type123 : c.cropType = 1 ∨ c.cropType = 2 ∨ c.cropType = 3
  ini_pos : 0 < c.hiIni
  ini_lt : c.hiIni < c.hi0
  gc_nn : 0 ≤ c.hiGC
  lin_nn : 0 ≤ c.dHILinear

/-- for leafy and root/tuber crops the curve value never exceeds `HI0`: the limiter's first
test (`> HI0`) is dead for them -/
theorem hiRefRaw_le_hi0_of_type12 {F : Fn α} (hF : ExpOrdLaws F) (c : HiCrop α) (hb : c.BuildUp)
    (h12 : c.cropType = 1 ∨ c.cropType = 2) (hit : α) (old : α × α) :
    (hiRefRaw F c hit old).1 ≤ c.hi0 := by
  simp only [hiRefRaw, h12, if_true]
  split_ifs
  · exact le_rfl
  · exact (hiLogistic_lt_hi0 hF _ _ hb.ini_pos hb.ini_lt).le

/-- the curve value before limiting is monotone in the time since the start of yield formation -/
theorem hiRefRaw_mono {F : Fn α} (hF : ExpOrdLaws F) (c : HiCrop α) (hb : c.BuildUp)
    {hit hit' : α} (old old' : α × α) (h : hit ≤ hit') :
    (hiRefRaw F c hit old).1 ≤ (hiRefRaw F c hit' old').1 := by
  have hm := fun {a b : α} (hab : a ≤ b) => hiLogistic_mono hF hb.ini_pos hb.ini_lt hb.gc_nn hab
  have hlt := fun t => hiLogistic_lt_hi0 hF c.hiGC t hb.ini_pos hb.ini_lt
  by_cases h12 : c.cropType = 1 ∨ c.cropType = 2
  · simp only [hiRefRaw, h12, if_true]
    have := hm h
    have := hlt hit
    have := hlt hit'
    split_ifs <;> linarith
  · have h3 : c.cropType = 3 := by
      rcases hb.type123 with h | h | h
      · exact absurd (Or.inl h) h12
      · exact absurd (Or.inr h) h12
      · exact h
    have e12 : ¬ ((3 : ℕ) = 1 ∨ (3 : ℕ) = 2) := by decide
    simp only [hiRefRaw, h3, e12, if_false, if_true]
    by_cases ha : hit < c.tLinSwitch <;> by_cases hb' : hit' < c.tLinSwitch
    · simp only [ha, hb', if_true]; exact hm h
    · simp only [ha, hb', if_true, if_false]
      have h1 := hm ha.le
      have h2 := mul_nonneg hb.lin_nn (sub_nonneg.mpr (not_lt.mp hb'))
      linarith
    · exact absurd (lt_of_le_of_lt h hb') ha
    · simp only [ha, hb', if_false]
      have := mul_le_mul_of_nonneg_left (sub_le_sub_right h c.tLinSwitch) hb.lin_nn
      linarith

/-! ## 4. The reference harvest index never decreases within a season

Within a season `HIt = dap − delayed_cds − HIstartCD − 1` never decreases (`dap` advances by one
per day, `delayed_cds` by at most one) and `HIfinal` is constant: it is initialised to `HI0` and
`HIref_current_day` cannot change it (its fourth return value is commented out). -/

theorem hiref_mono {F : Fn α} (hF : ExpOrdLaws F) (c : HiCrop α) (hb : c.BuildUp)
    (s s' : HiRefIn α) (ht : s.dap - s.delayedCDs ≤ s'.dap - s'.delayedCDs)
    (hfin : s.hiFinal ≤ s'.hiFinal) (hf0 : 0 ≤ s.hiFinal) :
    (hiRefCurrentDay F c s true).hiRef ≤ (hiRefCurrentDay F c s' true).hiRef := by
  have h0 : 0 ≤ c.hi0 := (lt_trans hb.ini_pos hb.ini_lt).le
  have hini : -0.004 ≤ c.hiIni := by have := hb.ini_pos; linarith
  have hT : hiTime c s.dap s.delayedCDs ≤ hiTime c s'.dap s'.delayedCDs := by
    unfold hiTime; linarith
  by_cases h1 : 0 < hiTime c s.dap s.delayedCDs
  · have h2 : 0 < hiTime c s'.dap s'.delayedCDs := lt_of_lt_of_le h1 hT
    rw [hiref_eq F c s h0 h1, hiref_eq F c s' h0 h2]
    exact min_le_min (hiRefLimit_mono c (hiRefRaw_mono hF c hb _ _ hT) h0 hini) hfin
  · rw [hiref_eq_zero F c s (not_lt.mp h1)]
    exact hiref_nonneg F c s' true h0 hini (le_trans hf0 hfin)

/-- monotonicity *can* fail between two calls whose `HIfinal` differ the wrong way (it cannot
in the running system, where `HIfinal ≡ HI0`): the premise `hfin` of `hiref_mono` is needed. -/
theorem hiref_le_of_hifinal_small (F : Fn α) (c : HiCrop α) (s' : HiRefIn α) (h0 : 0 ≤ c.hi0)
    (hf : 0 ≤ s'.hiFinal) : (hiRefCurrentDay F c s' true).hiRef ≤ s'.hiFinal :=
  hiref_le_hifinal F c s' true h0 hf

/-! ## 3. `harvest_index`: what is stored, the cap on the stress multiplier -/

/-- the multiplier is capped: `HImult ≤ 1 + dHI0/100` -/
theorem hiMult_le (c : HiCrop α) (a b : α) : hiMult c a b ≤ 1 + c.dHI0 / 100 := by
  unfold hiMult; simp only; split_ifs with h
  · exact le_rfl
  · exact not_lt.mp h

theorem hiMult_nonneg (c : HiCrop α) {a b : α} (hab : 0 ≤ a * b) (hcap : 0 ≤ 1 + c.dHI0 / 100) :
    0 ≤ hiMult c a b := by
  unfold hiMult; simp only; split_ifs with h
  · exact hcap
  · exact hab

/-- what the yield-formation block stores: `harvest_index = hi_ref` and
`harvest_index_adj = HImult · min(hi_ref, HImax)` for some `HImax`; the fields `hi_ref`, … that
are only read are unchanged. -/
theorem hiYieldFormation_spec {F : Fn α} {T : TrigFn α} {c : HiCrop α} {s o : HiState α} {hit : α}
    {kw : Ksw α} {polH polC : α} (h : hiYieldFormation F T c s hit kw polH polC = .ok o) :
    o.hi = s.hiRef ∧ ∃ hiMax, o.hiAdj = hiMult c o.fPre o.fPost * min s.hiRef hiMax := by
  unfold hiYieldFormation at h
  simp only at h
  split at h
  · exact absurd h (by simp)
  · rename_i s1 hiMax heq
    simp only [Except.ok.injEq] at h
    subst h
    refine ⟨rfl, hiMax, ?_⟩
    by_cases hh : s.hiRef ≤ hiMax
    · simp only [hh, if_true, min_eq_left hh]
    · simp only [hh, if_false, min_eq_right (not_le.mp hh).le]

/-- the value stored in `harvest_index` by the in-season part -/
theorem hiCore_hi {F : Fn α} {T : TrigFn α} {c : HiCrop α} {s o : HiState α} {kw : Ksw α}
    {polH polC : α} (h : hiCore F T c s kw polH polC = .ok o) :
    o.hi = if s.yieldForm ∧ 0 ≤ hiTime c s.dap s.delayedCDs then s.hiRef else s.hi := by
  unfold hiCore at h
  simp only at h
  split_ifs at h ⊢ with h1 h2 h3
  · exact (hiYieldFormation_spec h).1
  · simp only [Except.ok.injEq] at h; subst h; rfl
  · simp only [Except.ok.injEq] at h; subst h; rfl

/-- **cap of the adjusted index**, exactly as the code guarantees it: if the invariant
`harvest_index_adj ≤ (1 + dHI0/100) · harvest_index` held before the call it holds after it,
provided the reference index and the product `f_pre · f_post` are non-negative. -/
theorem hiCore_hiadj_le_cap {F : Fn α} {T : TrigFn α} {c : HiCrop α} {s o : HiState α} {kw : Ksw α}
    {polH polC : α} (h : hiCore F T c s kw polH polC = .ok o)
    (inv : s.hiAdj ≤ (1 + c.dHI0 / 100) * s.hi) (href : 0 ≤ s.hiRef)
    (hcap : 0 ≤ 1 + c.dHI0 / 100) (hleafy : c.cropType = 1 → 0 ≤ c.dHI0)
    (hm : 0 ≤ o.fPre * o.fPost) : o.hiAdj ≤ (1 + c.dHI0 / 100) * o.hi := by
  unfold hiCore at h
  simp only at h
  split_ifs at h with h1 h2 h3
  · obtain ⟨e1, hiMax, e2⟩ := hiYieldFormation_spec h
    rw [e1, e2]
    have hm1 := hiMult_le c o.fPre o.fPost
    have hm0 := hiMult_nonneg c hm hcap
    calc hiMult c o.fPre o.fPost * min s.hiRef hiMax
        ≤ hiMult c o.fPre o.fPost * s.hiRef := mul_le_mul_of_nonneg_left (min_le_left _ _) hm0
      _ ≤ (1 + c.dHI0 / 100) * s.hiRef := mul_le_mul_of_nonneg_right hm1 href
  · simp only [Except.ok.injEq] at h; subst h
    simp only
    have := hleafy h3
    have : 0 ≤ c.dHI0 / 100 * s.hiRef := mul_nonneg (div_nonneg this (by norm_num)) href
    linarith
  · simp only [Except.ok.injEq] at h; subst h; exact inv

/-! ### the same statements for `harvest_index` itself -/

/-- in season, a successful call went through `hiCore` with the day's stress coefficients -/
theorem harvestIndex_ok_inseason {F : Fn α} {T : TrigFn α} {cells : List (Cell α)} {zTop : α}
    {c : HiCrop α} {k : HiStressCrop α} {s o : HiState α} {et0 tmax tmin : α}
    (h : harvestIndex F T cells zTop c k s et0 tmax tmin true = .ok o) :
    ∃ r polH polC, rootZoneWater F cells s.zRoot zTop k.zMin k.aer = some r ∧
      hiCore F T c s (hiWaterStress F k r s.tEarlySen et0) polH polC = .ok o := by
  unfold harvestIndex at h
  simp only [if_true] at h
  split at h
  · exact absurd h (by simp)
  · rename_i r hr
    split at h
    · exact absurd h (by simp)
    · rename_i polH polC _
      exact ⟨r, polH, polC, hr, h⟩

/-- what `harvest_index` stores in `NewCond.harvest_index` -/
theorem hi_stored {F : Fn α} {T : TrigFn α} {cells : List (Cell α)} {zTop : α}
    {c : HiCrop α} {k : HiStressCrop α} {s o : HiState α} {et0 tmax tmin : α} {gs : Bool}
    (h : harvestIndex F T cells zTop c k s et0 tmax tmin gs = .ok o) :
    o.hi = if gs then (if s.yieldForm ∧ 0 ≤ hiTime c s.dap s.delayedCDs then s.hiRef else s.hi)
           else 0 := by
  cases gs
  · rw [hi_offseason] at h; simp only [Except.ok.injEq] at h; subst h; simp
  · obtain ⟨r, polH, polC, _, hc⟩ := harvestIndex_ok_inseason h
    simpa using hiCore_hi hc

/-- **the harvest index never decreases within a season** (one in-season day): if the stored
index is not above the day's reference index — which is what yesterday's call left, the reference
index being monotone (`hiref_mono`) — the new index lies between the old one and the reference. -/
theorem hi_mono_of {F : Fn α} {T : TrigFn α} {cells : List (Cell α)} {zTop : α}
    {c : HiCrop α} {k : HiStressCrop α} {s o : HiState α} {et0 tmax tmin : α}
    (h : harvestIndex F T cells zTop c k s et0 tmax tmin true = .ok o) (hle : s.hi ≤ s.hiRef) :
    s.hi ≤ o.hi ∧ o.hi ≤ s.hiRef := by
  rw [hi_stored h]
  simp only [if_true]
  split_ifs
  · exact ⟨hle, le_rfl⟩
  · exact ⟨le_rfl, hle⟩

/-- **the harvest index never exceeds the reference harvest index `HI0`** -/
theorem hi_le_hi0 {F : Fn α} {T : TrigFn α} {cells : List (Cell α)} {zTop : α}
    {c : HiCrop α} {k : HiStressCrop α} {s o : HiState α} {et0 tmax tmin : α} {gs : Bool}
    (h : harvestIndex F T cells zTop c k s et0 tmax tmin gs = .ok o) (h0 : 0 ≤ c.hi0)
    (hprev : s.hi ≤ c.hi0) (href : s.hiRef ≤ c.hi0) : o.hi ≤ c.hi0 := by
  rw [hi_stored h]
  split_ifs <;> assumption

/-- **cap of the stress-adjusted index** for `harvest_index` (all branches, also off season) -/
theorem hiadj_le_cap {F : Fn α} {T : TrigFn α} {cells : List (Cell α)} {zTop : α}
    {c : HiCrop α} {k : HiStressCrop α} {s o : HiState α} {et0 tmax tmin : α} {gs : Bool}
    (h : harvestIndex F T cells zTop c k s et0 tmax tmin gs = .ok o)
    (inv : s.hiAdj ≤ (1 + c.dHI0 / 100) * s.hi) (href : 0 ≤ s.hiRef)
    (hcap : 0 ≤ 1 + c.dHI0 / 100) (hleafy : c.cropType = 1 → 0 ≤ c.dHI0)
    (hm : 0 ≤ o.fPre * o.fPost) : o.hiAdj ≤ (1 + c.dHI0 / 100) * o.hi := by
  cases gs
  · rw [hi_offseason] at h; simp only [Except.ok.injEq] at h; subst h; simp
  · obtain ⟨r, polH, polC, _, hc⟩ := harvestIndex_ok_inseason h
    exact hiCore_hiadj_le_cap hc inv href hcap hleafy hm

/-- … hence **the adjusted index never exceeds `HI0 · (1 + dHI0/100)`** -/
theorem hiadj_le_hi0_cap {F : Fn α} {T : TrigFn α} {cells : List (Cell α)} {zTop : α}
    {c : HiCrop α} {k : HiStressCrop α} {s o : HiState α} {et0 tmax tmin : α} {gs : Bool}
    (h : harvestIndex F T cells zTop c k s et0 tmax tmin gs = .ok o)
    (inv : s.hiAdj ≤ (1 + c.dHI0 / 100) * s.hi) (href : 0 ≤ s.hiRef) (href' : s.hiRef ≤ c.hi0)
    (hprev : s.hi ≤ c.hi0) (h0 : 0 ≤ c.hi0)
    (hcap : 0 ≤ 1 + c.dHI0 / 100) (hleafy : c.cropType = 1 → 0 ≤ c.dHI0)
    (hm : 0 ≤ o.fPre * o.fPost) : o.hiAdj ≤ (1 + c.dHI0 / 100) * c.hi0 :=
  le_trans (hiadj_le_cap h inv href hcap hleafy hm)
    (mul_le_mul_of_nonneg_left (hi_le_hi0 h h0 hprev href') hcap)

/-! ### the premise `0 ≤ f_pre · f_post` from the helpers -/

/-- range of the sine -/
structure SinLaw (T : TrigFn α) : Prop where
  sin_ge : ∀ x, -1 ≤ T.sin x
  sin_le : ∀ x, T.sin x ≤ 1

/-- `x ** y ≥ 0` for `x ≥ 0` -/
structure PowNonneg (F : Fn α) : Prop where
  pow_nonneg : ∀ x y, 0 ≤ x → 0 ≤ F.pow x y

theorem hiPre_weight {w d : α} (hw0 : 0 ≤ w) (hw1 : w ≤ 1) (hd : 0 < d) :
    1 ≤ 1 + w * (d / 100) ∧ 1 + w * (d / 100) ≤ 1 + max d 0 / 100 := by
  have hd' : 0 ≤ d / 100 := div_nonneg hd.le (by norm_num)
  have h1 : 0 ≤ w * (d / 100) := mul_nonneg hw0 hd'
  have h2 : w * (d / 100) ≤ 1 * (d / 100) := mul_le_mul_of_nonneg_right hw1 hd'
  rw [max_eq_left hd.le]
  constructor <;> linarith

/-- the pre-anthesis factor is `0` (no canopy left) or lies in `[1, 1 + dHI_pre/100]` -/
theorem hiAdjPreAnthesis_range {T : TrigFn α} (hT : SinLaw T) (F : Fn α) (b bNS cc d : α) :
    (hiAdjPreAnthesis F T b bNS cc d = 0 ∨ 1 ≤ hiAdjPreAnthesis F T b bNS cc d) ∧
      hiAdjPreAnthesis F T b bNS cc d ≤ 1 + max d 0 / 100 := by
  have hmax : (0 : α) ≤ max d 0 / 100 := div_nonneg (le_max_right _ _) (by norm_num)
  have hw := fun x : α => (show 0 ≤ (1 + T.sin x) / 2 ∧ (1 + T.sin x) / 2 ≤ 1 from by
    have := hT.sin_ge x; have := hT.sin_le x
    constructor
    · apply div_nonneg <;> linarith
    · rw [div_le_iff₀ (by norm_num)]; linarith)
  unfold hiAdjPreAnthesis
  simp only
  split_ifs with h1 h2 h3 h4
  · exact ⟨Or.inl rfl, by linarith⟩
  · obtain ⟨a, b'⟩ := hiPre_weight (hw _).1 (hw _).2 h2
    exact ⟨Or.inr a, b'⟩
  · obtain ⟨a, b'⟩ := hiPre_weight (hw _).1 (hw _).2 h2
    exact ⟨Or.inr a, b'⟩
  · exact ⟨Or.inr le_rfl, by linarith⟩
  · exact ⟨Or.inr le_rfl, by linarith⟩

theorem hiAdjPreAnthesis_nonneg {T : TrigFn α} (hT : SinLaw T) (F : Fn α) (b bNS cc d : α) :
    0 ≤ hiAdjPreAnthesis F T b bNS cc d := by
  rcases (hiAdjPreAnthesis_range hT F b bNS cc d).1 with h | h
  · rw [h]
  · linarith

theorem postUpp_nonneg (c : HiCrop α) {d dayCor sCor1 fPre cc up kswExp : α} (hday : 0 < dayCor)
    (hexp : kswExp ≤ 1) (h1 : 0 ≤ sCor1) (h3 : 0 ≤ up) :
    0 ≤ (postUpp c d dayCor sCor1 fPre cc up kswExp).1 ∧
      0 ≤ (postUpp c d dayCor sCor1 fPre cc up kswExp).2 := by
  unfold postUpp
  simp only
  split_ifs with h
  · obtain ⟨_, ht, _, _, ha⟩ := h
    have e1 : 0 ≤ (1 - kswExp) / c.aHI := div_nonneg (sub_nonneg.mpr hexp) ha.le
    have e2 : 0 ≤ sCor1 + (1 + (1 - kswExp) / c.aHI) / (c.canopyDevEndCD - c.hiStartCD) :=
      add_nonneg h1 (div_nonneg (by linarith) ht.le)
    exact ⟨e2, mul_nonneg (div_nonneg ht.le hday.le) e2⟩
  · exact ⟨h1, h3⟩

theorem postDwn_nonneg {F : Fn α} (hP : PowNonneg F) (c : HiCrop α) (hb : 0 < c.bHI → 1 ≤ c.bHI)
    {d dayCor sCor2 fPre cc dwn kswSto : α} (hday : 0 < dayCor) (hs0 : 0 ≤ kswSto)
    (hs1 : kswSto ≤ 1) (h2 : 0 ≤ sCor2) (h4 : 0 ≤ dwn) :
    0 ≤ (postDwn F c d dayCor sCor2 fPre cc dwn kswSto).1 ∧
      0 ≤ (postDwn F c d dayCor sCor2 fPre cc dwn kswSto).2 := by
  unfold postDwn
  simp only
  split_ifs with h
  · obtain ⟨_, ht, _, _, hbp⟩ := h
    have hb1 := hb hbp
    have e0 : (1 - kswSto) / c.bHI ≤ 1 := by rw [div_le_one hbp]; linarith
    have e1 : 0 ≤ F.pow kswSto 0.1 * (1 - (1 - kswSto) / c.bHI) :=
      mul_nonneg (hP.pow_nonneg _ _ hs0) (by linarith)
    have e2 : 0 ≤ sCor2 + F.pow kswSto 0.1 * (1 - (1 - kswSto) / c.bHI) / c.yldFormCD :=
      add_nonneg h2 (div_nonneg e1 ht.le)
    exact ⟨e2, mul_nonneg (div_nonneg ht.le hday.le) e2⟩
  · exact ⟨h2, h4⟩

theorem postTotal_nonneg {tmax1 tmax2 up dwn : α} (ht1 : 0 ≤ tmax1) (ht2 : 0 ≤ tmax2)
    (hu : 0 ≤ up) (hd : 0 ≤ dwn) : 0 ≤ postTotal tmax1 tmax2 up dwn := by
  unfold postTotal
  split_ifs with h1 h2 h3 h4
  · exact zero_le_one
  · exact hu
  · exact hd
  · exact mul_nonneg hd (div_nonneg (add_nonneg (mul_nonneg ht1 hu) (sub_nonneg.mpr h4)) ht2)
  · exact mul_nonneg hu
      (div_nonneg (add_nonneg (mul_nonneg ht2 hd) (sub_nonneg.mpr (le_of_not_ge h4))) ht1)

/-- the adjustment state is non-negative -/
structure HiState.NN (s : HiState α) : Prop where
  fPre : 0 ≤ s.fPre
  fPost : 0 ≤ s.fPost
  sCor1 : 0 ≤ s.sCor1
  sCor2 : 0 ≤ s.sCor2
  upp : 0 ≤ s.fpostUpp
  dwn : 0 ≤ s.fpostDwn

/-- crop premises of the post-anthesis adjustment (hold for all built-in crops: `b_HI` is either
switched off, `-9`, or `≥ 1`) -/
structure HiCrop.PostOK (c : HiCrop α) : Prop where
  tmax1 : c.hiStartCD ≤ c.canopyDevEndCD
  tmax2 : 0 ≤ c.yldFormCD
  bHI : 0 < c.bHI → 1 ≤ c.bHI

theorem hiPreStep_nn {T : TrigFn α} (hT : SinLaw T) (F : Fn α) (c : HiCrop α) {s : HiState α}
    (hs : s.NN) : (hiPreStep F T c s).NN := by
  unfold hiPreStep
  split_ifs
  · exact hs
  · exact ⟨hiAdjPreAnthesis_nonneg hT F _ _ _ _, hs.fPost, hs.sCor1, hs.sCor2, hs.upp, hs.dwn⟩

theorem hiPolStep_nn {F : Fn α} {c : HiCrop α} {s s' : HiState α} {hit kswPol polH polC hiMax : α}
    (h : hiPolStep F c s hit kswPol polH polC = .ok (s', hiMax)) (hs : s.NN) :
    s'.NN ∧ s'.dap = s.dap ∧ s'.delayedCDs = s.delayedCDs := by
  unfold hiPolStep at h
  split_ifs at h
  · split at h
    · exact absurd h (by simp)
    · simp only [Except.ok.injEq, Prod.mk.injEq] at h
      obtain ⟨rfl, _⟩ := h
      exact ⟨⟨hs.fPre, hs.fPost, hs.sCor1, hs.sCor2, hs.upp, hs.dwn⟩, rfl, rfl⟩
  all_goals
    simp only [Except.ok.injEq, Prod.mk.injEq] at h
    obtain ⟨rfl, _⟩ := h
    exact ⟨hs, rfl, rfl⟩

theorem hiPostStep_nn {F : Fn α} (hP : PowNonneg F) {c : HiCrop α} (hc : c.PostOK) {s : HiState α}
    {hit kswExp kswSto : α} (hhit : hit = hiTime c s.dap s.delayedCDs) (hexp : kswExp ≤ 1)
    (hs0 : 0 ≤ kswSto) (hs1 : kswSto ≤ 1) (hs : s.NN) : (hiPostStep F c s hit kswExp kswSto).NN := by
  unfold hiPostStep
  split_ifs with hpos
  · have hday : 0 < s.dap - s.delayedCDs - 1 - c.hiStartCD := by
      rw [hhit] at hpos; unfold hiTime at hpos; linarith
    have hu := postUpp_nonneg c (d := s.dap - s.delayedCDs) (fPre := s.fPre) (cc := s.cc) hday hexp
      hs.sCor1 hs.upp
    have hd := postDwn_nonneg hP c hc.bHI (d := s.dap - s.delayedCDs) (fPre := s.fPre) (cc := s.cc)
      hday hs0 hs1 hs.sCor2 hs.dwn
    have ht := postTotal_nonneg (sub_nonneg.mpr hc.tmax1) hc.tmax2 hu.2 hd.2
    exact ⟨hs.fPre, ht, hu.1, hd.1, hu.2, hd.2⟩
  · exact hs

/-- the yield-formation block keeps the adjustment state non-negative -/
theorem hiYieldFormation_nn {F : Fn α} {T : TrigFn α} (hT : SinLaw T) (hP : PowNonneg F)
    {c : HiCrop α} (hc : c.PostOK) {s o : HiState α} {kw : Ksw α} {polH polC : α}
    (h : hiYieldFormation F T c s (hiTime c s.dap s.delayedCDs) kw polH polC = .ok o)
    (hexp : kw.exp ≤ 1) (hs0 : 0 ≤ kw.sto) (hs1 : kw.sto ≤ 1) (hs : s.NN) : o.NN := by
  unfold hiYieldFormation at h
  simp only at h
  split at h
  · exact absurd h (by simp)
  · rename_i s2 hiMax heq
    have h1 := hiPreStep_nn hT F c hs
    obtain ⟨h2, e1, e2⟩ := hiPolStep_nn heq h1
    have e3 : (hiPreStep F T c s).dap = s.dap ∧ (hiPreStep F T c s).delayedCDs = s.delayedCDs := by
      unfold hiPreStep; split_ifs <;> exact ⟨rfl, rfl⟩
    have h3 := hiPostStep_nn hP hc (s := s2) (hit := hiTime c s.dap s.delayedCDs)
      (by rw [e1, e2, e3.1, e3.2]) hexp hs0 hs1 h2
    simp only [Except.ok.injEq] at h
    subst h
    exact ⟨h3.fPre, h3.fPost, h3.sCor1, h3.sCor2, h3.upp, h3.dwn⟩

theorem hiCore_nn {F : Fn α} {T : TrigFn α} (hT : SinLaw T) (hP : PowNonneg F)
    {c : HiCrop α} (hc : c.PostOK) {s o : HiState α} {kw : Ksw α} {polH polC : α}
    (h : hiCore F T c s kw polH polC = .ok o)
    (hexp : kw.exp ≤ 1) (hs0 : 0 ≤ kw.sto) (hs1 : kw.sto ≤ 1) (hs : s.NN) : o.NN := by
  unfold hiCore at h
  simp only at h
  split_ifs at h with h1 h2 h3
  · exact hiYieldFormation_nn hT hP hc h hexp hs0 hs1 hs
  · simp only [Except.ok.injEq] at h; subst h
    exact ⟨hs.fPre, hs.fPost, hs.sCor1, hs.sCor2, hs.upp, hs.dwn⟩
  · simp only [Except.ok.injEq] at h; subst h; exact hs

/-- `harvest_index` keeps the adjustment state (`f_pre`, `f_post`, the running sums and the two
post-anthesis factors) non-negative, provided the water-stress thresholds as used are ordered
and the shape factors non-zero (the premises of `waterStress_range`). -/
theorem harvestIndex_nn {F : Fn α} {T : TrigFn α} (hF : ExpOrdLaws F) (hT : SinLaw T)
    (hP : PowNonneg F) {cells : List (Cell α)} {zTop : α} {c : HiCrop α} (hc : c.PostOK)
    {k : HiStressCrop α} {s o : HiState α} {et0 tmax tmin : α} {gs : Bool}
    (h : harvestIndex F T cells zTop c k s et0 tmax tmin gs = .ok o)
    (hord : ∀ i, wsUp F k.pUp k.etAdj k.beta s.tEarlySen et0 true i ≤ wsLo F k.pLo k.etAdj et0 i)
    (hf : ∀ i : Fin 4, i.val < 3 → k.fshapeW i ≠ 0) (hs : s.NN) : o.NN := by
  cases gs
  · rw [hi_offseason] at h; simp only [Except.ok.injEq] at h; subst h
    exact ⟨hs.fPre, hs.fPost, hs.sCor1, hs.sCor2, hs.upp, hs.dwn⟩
  · obtain ⟨r, polH, polC, _, hcore⟩ := harvestIndex_ok_inseason h
    have hw : ∀ dr taw,
        (waterStress F k.pUp k.pLo k.fshapeW k.etAdj k.beta s.tEarlySen dr taw et0 true).exp ≤ 1 ∧
        0 ≤ (waterStress F k.pUp k.pLo k.fshapeW k.etAdj k.beta s.tEarlySen dr taw et0 true).sto ∧
        (waterStress F k.pUp k.pLo k.fshapeW k.etAdj k.beta s.tEarlySen dr taw et0 true).sto ≤ 1 := by
      intro dr taw
      have := waterStress_range hF k.pUp k.pLo k.fshapeW k.etAdj k.beta s.tEarlySen dr taw et0 true
        hord hf
      exact ⟨this.1.2, this.2.1.1, this.2.1.2⟩
    have hkw : (hiWaterStress F k r s.tEarlySen et0).exp ≤ 1 ∧
        0 ≤ (hiWaterStress F k r s.tEarlySen et0).sto ∧
        (hiWaterStress F k r s.tEarlySen et0).sto ≤ 1 := by
      unfold hiWaterStress
      split_ifs
      · exact hw _ _
      · exact hw _ _
    exact hiCore_nn hT hP hc hcore hkw.1 hkw.2.1 hkw.2.2 hs

/-- **C05, adjusted index, with the multiplier premise discharged**: one call of `harvest_index`
preserves  `harvest_index_adj ≤ (1 + dHI0/100)·harvest_index`, `harvest_index ≤ HI0` and the
non-negativity of the adjustment state; in particular
`harvest_index_adj ≤ (1 + dHI0/100)·HI0`. -/
theorem harvestIndex_c05 {F : Fn α} {T : TrigFn α} (hF : ExpOrdLaws F) (hT : SinLaw T)
    (hP : PowNonneg F) {cells : List (Cell α)} {zTop : α} {c : HiCrop α} (hc : c.PostOK)
    {k : HiStressCrop α} {s o : HiState α} {et0 tmax tmin : α} {gs : Bool}
    (h : harvestIndex F T cells zTop c k s et0 tmax tmin gs = .ok o)
    (hord : ∀ i, wsUp F k.pUp k.etAdj k.beta s.tEarlySen et0 true i ≤ wsLo F k.pLo k.etAdj et0 i)
    (hf : ∀ i : Fin 4, i.val < 3 → k.fshapeW i ≠ 0)
    (h0 : 0 ≤ c.hi0) (hcap : 0 ≤ 1 + c.dHI0 / 100) (hleafy : c.cropType = 1 → 0 ≤ c.dHI0)
    (href : 0 ≤ s.hiRef) (href' : s.hiRef ≤ c.hi0)
    (hs : s.NN) (hprev : s.hi ≤ c.hi0) (inv : s.hiAdj ≤ (1 + c.dHI0 / 100) * s.hi) :
    o.NN ∧ o.hi ≤ c.hi0 ∧ o.hiAdj ≤ (1 + c.dHI0 / 100) * o.hi ∧
      o.hiAdj ≤ (1 + c.dHI0 / 100) * c.hi0 := by
  have hn := harvestIndex_nn hF hT hP hc h hord hf hs
  have hm : 0 ≤ o.fPre * o.fPost := mul_nonneg hn.fPre hn.fPost
  exact ⟨hn, hi_le_hi0 h h0 hprev href', hiadj_le_cap h inv href hcap hleafy hm,
    hiadj_le_hi0_cap h inv href href' hprev h0 hcap hleafy hm⟩

/-! ## 5. The initialisation loops

### generic facts about `whileFuel` -/

/-- what a terminated `while` loop computed: the first iterate at which the condition fails -/
theorem whileFuel_spec {σ : Type} (cond : σ → Bool) (step : σ → σ) :
    ∀ (fuel : ℕ) (s s' : σ), whileFuel cond step fuel s = some s' →
      ∃ n, n ≤ fuel ∧ s' = step^[n] s ∧ cond s' = false ∧ ∀ m, m < n → cond (step^[m] s) = true := by
  intro fuel
  induction fuel with
  | zero =>
    intro s s' h
    unfold whileFuel at h
    split_ifs at h with hc
    simp only [Option.some.injEq] at h; subst h
    exact ⟨0, le_rfl, rfl, by simpa using hc, fun m hm => absurd hm (Nat.not_lt_zero m)⟩
  | succ k ih =>
    intro s s' h
    unfold whileFuel at h
    split_ifs at h with hc
    · obtain ⟨n, hn, e, hex, hall⟩ := ih (step s) s' h
      refine ⟨n + 1, Nat.succ_le_succ hn, by rw [Function.iterate_succ_apply]; exact e, hex, ?_⟩
      intro m hm
      cases m with
      | zero => exact hc
      | succ m => rw [Function.iterate_succ_apply]; exact hall m (Nat.lt_of_succ_lt_succ hm)
    · simp only [Option.some.injEq] at h; subst h
      exact ⟨0, Nat.zero_le _, rfl, by simpa using hc, fun m hm => absurd hm (Nat.not_lt_zero m)⟩

/-- the fuel suffices as soon as the condition fails at some iterate within it -/
theorem whileFuel_isSome {σ : Type} (cond : σ → Bool) (step : σ → σ) :
    ∀ (fuel : ℕ) (s : σ), (∃ n, n ≤ fuel ∧ cond (step^[n] s) = false) →
      (whileFuel cond step fuel s).isSome = true := by
  intro fuel
  induction fuel with
  | zero =>
    intro s ⟨n, hn, hc⟩
    have : n = 0 := Nat.le_zero.mp hn
    subst this
    unfold whileFuel
    simp only [Function.iterate_zero, id_eq] at hc
    simp [hc]
  | succ k ih =>
    intro s ⟨n, hn, hc⟩
    unfold whileFuel
    by_cases hs : cond s = true
    · simp only [hs, if_true]
      cases n with
      | zero => simp only [Function.iterate_zero, id_eq] at hc; rw [hs] at hc; exact absurd hc (by simp)
      | succ n =>
        exact ih (step s) ⟨n, Nat.le_of_succ_le_succ hn, by rwa [Function.iterate_succ_apply] at hc⟩
    · simp [hs]

/-! ### `calculate_HI_linear` -/

/-- the loop state after `n` iterations -/
def hiLinIter (F : Fn α) (tmax hiIni hi0 hiGC : α) (n : ℕ) : HiLinSt α :=
  (hiLinStep F tmax hiIni hi0 hiGC)^[n] { ti := 0, hiEst := 0, hiPrev := hiIni }

theorem hiLinIter_succ (F : Fn α) (tmax hiIni hi0 hiGC : α) (n : ℕ) :
    hiLinIter F tmax hiIni hi0 hiGC (n + 1) =
      hiLinStep F tmax hiIni hi0 hiGC (hiLinIter F tmax hiIni hi0 hiGC n) := by
  unfold hiLinIter; rw [Function.iterate_succ_apply']

/-- `ti` counts the iterations -/
theorem hiLinIter_ti (F : Fn α) (tmax hiIni hi0 hiGC : α) (n : ℕ) :
    (hiLinIter F tmax hiIni hi0 hiGC n).ti = (n : α) := by
  induction n with
  | zero => simp [hiLinIter]
  | succ n ih => rw [hiLinIter_succ]; simp only [hiLinStep, ih]; push_cast; ring

/-- explicit loop state after `n + 1` iterations: `HIprev` is the logistic curve at day `n + 1`,
`HIest` its linear extrapolation to the end of yield formation with the last daily increment -/
theorem hiLinIter_explicit (F : Fn α) (tmax hiIni hi0 hiGC : α) (n : ℕ) :
    (hiLinIter F tmax hiIni hi0 hiGC (n + 1)).hiPrev = hiLogistic F hiIni hi0 hiGC ((n : α) + 1) ∧
    (hiLinIter F tmax hiIni hi0 hiGC (n + 1)).hiEst =
      hiLogistic F hiIni hi0 hiGC ((n : α) + 1) + (tmax - ((n : α) + 1)) *
        (hiLogistic F hiIni hi0 hiGC ((n : α) + 1) - (hiLinIter F tmax hiIni hi0 hiGC n).hiPrev) := by
  rw [hiLinIter_succ]
  simp only [hiLinStep, hiLinIter_ti]
  exact ⟨trivial, trivial⟩

/-- **termination**: `⌈YldFormCD⌉` iterations always suffice (`ti` reaches `tmax`) -/
theorem calculateHILinear_isSome (F : Fn α) (fuel : ℕ) (yldFormCD hiIni hi0 hiGC : α)
    (hfuel : yldFormCD ≤ (fuel : α)) :
    (calculateHILinear F fuel yldFormCD hiIni hi0 hiGC).isSome = true := by
  have h := whileFuel_isSome (hiLinCond yldFormCD hi0) (hiLinStep F yldFormCD hiIni hi0 hiGC) fuel
    { ti := 0, hiEst := 0, hiPrev := hiIni } ⟨fuel, le_rfl, by
      have := hiLinIter_ti F yldFormCD hiIni hi0 hiGC fuel
      unfold hiLinIter at this
      simp only [hiLinCond, this, decide_eq_false_iff_not, not_and, not_lt]
      intro _; exact hfuel⟩
  unfold calculateHILinear
  cases hw : whileFuel (hiLinCond yldFormCD hi0) (hiLinStep F yldFormCD hiIni hi0 hiGC) fuel
      { ti := 0, hiEst := 0, hiPrev := hiIni } with
  | none => rw [hw] at h; exact absurd h (by simp)
  | some st => simp

/-- **what `calculate_HI_linear` computes**: with `n` the first iteration count at which the
loop condition fails — i.e. the first day `n` such that the extrapolated final index exceeds
`HI0`, or `n ≥ YldFormCD` —  `tLinSwitch = n − 1` and
`dHILinear = (HI0 − logistic(tLinSwitch)) / (YldFormCD − tLinSwitch)` (logistic := 0 for
`tLinSwitch ≤ 0`). -/
theorem calculateHILinear_spec (F : Fn α) (fuel : ℕ) (yldFormCD hiIni hi0 hiGC ts d : α)
    (h : calculateHILinear F fuel yldFormCD hiIni hi0 hiGC = some (ts, d)) :
    ∃ n : ℕ, n ≤ fuel ∧ ts = (n : α) - 1 ∧
      ¬ ((hiLinIter F yldFormCD hiIni hi0 hiGC n).hiEst ≤ hi0 ∧ (n : α) < yldFormCD) ∧
      (∀ m, m < n → (hiLinIter F yldFormCD hiIni hi0 hiGC m).hiEst ≤ hi0 ∧ (m : α) < yldFormCD) ∧
      d = (hi0 - (if 0 < ts then hiLogistic F hiIni hi0 hiGC ts else 0)) / (yldFormCD - ts) := by
  unfold calculateHILinear at h
  split at h
  · exact absurd h (by simp)
  · rename_i st hst
    obtain ⟨n, hn, e, hex, hall⟩ := whileFuel_spec _ _ _ _ _ hst
    have e' : st = hiLinIter F yldFormCD hiIni hi0 hiGC n := e
    simp only [Option.some.injEq, Prod.mk.injEq] at h
    obtain ⟨h1, h2⟩ := h
    have hti : st.ti = (n : α) := by rw [e', hiLinIter_ti]
    refine ⟨n, hn, by rw [← h1, hti], ?_, ?_, ?_⟩
    · have := hex
      simp only [hiLinCond, decide_eq_false_iff_not] at this
      rwa [e', hiLinIter_ti] at this
    · intro m hm
      have := hall m hm
      simp only [hiLinCond, decide_eq_true_eq] at this
      have e2 : (hiLinStep F yldFormCD hiIni hi0 hiGC)^[m] { ti := 0, hiEst := 0, hiPrev := hiIni } =
        hiLinIter F yldFormCD hiIni hi0 hiGC m := rfl
      rwa [e2, hiLinIter_ti] at this
    · rw [← h2, ← h1]

/-! ### `calculate_HIGC` -/

/-- the loop state after `n` iterations -/
def higcIter (F : Fn α) (tHI hi0 hiIni : α) (n : ℕ) : α × α :=
  (higcStep F tHI hi0 hiIni)^[n] (0.001, 0)

theorem higcIter_succ (F : Fn α) (tHI hi0 hiIni : α) (n : ℕ) :
    higcIter F tHI hi0 hiIni (n + 1) = higcStep F tHI hi0 hiIni (higcIter F tHI hi0 hiIni n) := by
  unfold higcIter; rw [Function.iterate_succ_apply']

/-- the coefficient advances in steps of `0.001` from `0.001` -/
theorem higcIter_fst (F : Fn α) (tHI hi0 hiIni : α) (n : ℕ) :
    (higcIter F tHI hi0 hiIni n).1 = 0.001 + (n : α) * 0.001 := by
  induction n with
  | zero => simp [higcIter]
  | succ n ih => rw [higcIter_succ]; simp only [higcStep, ih]; push_cast; ring

/-- … and (after at least one iteration) `HIest` is the logistic curve at `YldFormCD` for it -/
theorem higcIter_snd (F : Fn α) (tHI hi0 hiIni : α) (n : ℕ) :
    (higcIter F tHI hi0 hiIni (n + 1)).2 =
      hiLogistic F hiIni hi0 (0.001 + ((n : α) + 1) * 0.001) tHI := by
  rw [higcIter_succ]; simp only [higcStep, higcIter_fst]
  congr 1; ring

/-- **what `calculate_HIGC` computes**: `HIGC = 0.001·(n+1)` where `n ≥ 1` is the first iteration
count such that the logistic curve with that coefficient exceeds `0.98·HI0` at the end of yield
formation.  (The final `if HIest >= HI0: HIGC -= 0.001` is dead for `0 < HIini < HI0`.) -/
theorem calculateHIGC_spec {F : Fn α} (hF : ExpOrdLaws F) (fuel : ℕ) (tHI hi0 hiIni g : α)
    (h1 : 0 < hiIni) (h2 : hiIni < hi0)
    (h : calculateHIGC F fuel tHI hi0 hiIni = some g) :
    ∃ n : ℕ, n + 1 ≤ fuel ∧ g = 0.001 + ((n : α) + 1) * 0.001 ∧
      0.98 * hi0 < hiLogistic F hiIni hi0 g tHI ∧
      ∀ m : ℕ, m < n →
        hiLogistic F hiIni hi0 (0.001 + ((m : α) + 1) * 0.001) tHI ≤ 0.98 * hi0 := by
  unfold calculateHIGC at h
  split at h
  · exact absurd h (by simp)
  · rename_i higc hiest hst
    obtain ⟨n, hn, e, hex, hall⟩ := whileFuel_spec _ _ _ _ _ hst
    have e' : (higc, hiest) = higcIter F tHI hi0 hiIni n := e
    have hpos : 0 < hi0 := lt_trans h1 h2
    cases n with
    | zero =>
      -- the loop body runs at least once: initially `HIest = 0 ≤ 0.98·HI0`
      simp only [higcIter, Function.iterate_zero, id_eq, Prod.mk.injEq] at e'
      simp only [higcCond, decide_eq_false_iff_not, not_le] at hex
      rw [e'.2] at hex
      have : (0 : α) ≤ 0.98 * hi0 := by positivity
      exact absurd hex (not_lt.mpr this)
    | succ n =>
      have e1 : higc = 0.001 + ((n : α) + 1) * 0.001 := by
        have := congrArg Prod.fst e'; simp only at this
        rw [this, higcIter_fst]; push_cast; ring
      have e2 : hiest = hiLogistic F hiIni hi0 (0.001 + ((n : α) + 1) * 0.001) tHI := by
        have := congrArg Prod.snd e'; simp only at this
        rw [this, higcIter_snd]
      have hlt : hiest < hi0 := by rw [e2]; exact hiLogistic_lt_hi0 hF _ _ h1 h2
      simp only [not_le.mpr hlt, if_false, Option.some.injEq] at h
      subst h
      refine ⟨n, hn, e1, ?_, ?_⟩
      · simp only [higcCond, decide_eq_false_iff_not, not_le] at hex
        rw [e1, ← e2]; exact hex
      · intro m hm
        have := hall (m + 1) (Nat.succ_lt_succ hm)
        have e3 : (higcStep F tHI hi0 hiIni)^[m + 1] (0.001, 0) = higcIter F tHI hi0 hiIni (m + 1) := rfl
        simp only [higcCond, decide_eq_true_eq] at this
        rwa [e3, higcIter_snd] at this

/-- `1 + x ≤ exp x` -/
structure ExpLinLaw (F : Fn α) : Prop where
  add_one_le : ∀ x, 1 + x ≤ F.exp x

/-- the curve exceeds `0.98·HI0` once `HIGC·tHI` is large enough -/
theorem hiLogistic_gt_of_large {F : Fn α} (hF : ExpOrdLaws F) (hA : ExpAddLaw F) (hL : ExpLinLaw F)
    {hiIni hi0 g t : α} (h1 : 0 < hiIni) (h2 : hiIni < hi0)
    (hbig : 49 * (hi0 - hiIni) < hiIni * (1 + g * t)) :
    0.98 * hi0 < hiLogistic F hiIni hi0 g t := by
  have hd := hiLogistic_den_pos hF g t h1 h2
  have hpos : 0 < hi0 := lt_trans h1 h2
  have hy : 0 < 1 + g * t := by
    have : 0 < hiIni * (1 + g * t) := lt_trans (by nlinarith) hbig
    exact (mul_pos_iff_of_pos_left h1).mp this
  have he : F.exp ((-g) * t) * (1 + g * t) ≤ 1 := by
    have e1 : F.exp ((-g) * t) = (F.exp (g * t))⁻¹ := by
      rw [show (-g) * t = -(g * t) by ring]; exact hA.exp_neg hF _
    have e2 := hL.add_one_le (g * t)
    have e3 := hF.exp_pos (g * t)
    rw [e1, inv_mul_le_iff₀ e3]; linarith
  have hepos := hF.exp_pos ((-g) * t)
  unfold hiLogistic
  rw [lt_div_iff₀ (lt_trans h1 hd)]
  -- 0.98·hi0·(hiIni + (hi0-hiIni)·e) < hiIni·hi0  ⇐  49·(hi0-hiIni)·e < hiIni
  have key : 49 * (hi0 - hiIni) * F.exp ((-g) * t) < hiIni := by
    have a1 : 49 * (hi0 - hiIni) * F.exp ((-g) * t) <
        hiIni * (1 + g * t) * F.exp ((-g) * t) := mul_lt_mul_of_pos_right hbig hepos
    have a2 : hiIni * (1 + g * t) * F.exp ((-g) * t) ≤ hiIni * 1 := by
      have := mul_le_mul_of_nonneg_left he h1.le
      linarith [this]
    linarith
  nlinarith

/-- **termination of `calculate_HIGC`**: the fuel suffices as soon as
`49·(HI0 − HIini) < HIini·(1 + 0.001·(fuel+1)·YldFormCD)`; in particular some fuel suffices for
every `YldFormCD > 0` in an Archimedean field.  For `YldFormCD ≤ 0` the curve value stays
`≤ HIini` (`hiLogistic_le_ini_of_nonpos`) and the Python loop never ends. -/
theorem calculateHIGC_isSome {F : Fn α} (hF : ExpOrdLaws F) (hA : ExpAddLaw F) (hL : ExpLinLaw F)
    (fuel : ℕ) (tHI hi0 hiIni : α) (h1 : 0 < hiIni) (h2 : hiIni < hi0) (hfuel : 0 < fuel)
    (hbig : 49 * (hi0 - hiIni) < hiIni * (1 + (0.001 + (fuel : α) * 0.001) * tHI)) :
    (calculateHIGC F fuel tHI hi0 hiIni).isSome = true := by
  obtain ⟨k, rfl⟩ : ∃ k, fuel = k + 1 := ⟨fuel - 1, by omega⟩
  have h := whileFuel_isSome (higcCond hi0) (higcStep F tHI hi0 hiIni) (k + 1) (0.001, 0)
    ⟨k + 1, le_rfl, by
      have e3 : (higcStep F tHI hi0 hiIni)^[k + 1] (0.001, 0) = higcIter F tHI hi0 hiIni (k + 1) := rfl
      rw [e3]
      simp only [higcCond, higcIter_snd, decide_eq_false_iff_not, not_le]
      apply hiLogistic_gt_of_large hF hA hL h1 h2
      push_cast at hbig
      exact hbig⟩
  unfold calculateHIGC
  cases hw : whileFuel (higcCond hi0) (higcStep F tHI hi0 hiIni) (k + 1) (0.001, 0) with
  | none => rw [hw] at h; exact absurd h (by simp)
  | some st => simp

/-- for a non-positive length of the yield-formation period the curve never gets above `HIini`,
whatever the coefficient `≥ 0`: the `while` loop of `calculate_HIGC` cannot terminate
(`HIini ≤ 0.98·HI0`). -/
theorem hiLogistic_le_ini_of_nonpos {F : Fn α} (hF : ExpOrdLaws F) {hiIni hi0 g t : α}
    (h1 : 0 < hiIni) (h2 : hiIni < hi0) (hg : 0 ≤ g) (ht : t ≤ 0) :
    hiLogistic F hiIni hi0 g t ≤ hiIni := by
  have hd := hiLogistic_den_pos hF g t h1 h2
  have he : 1 ≤ F.exp ((-g) * t) := hF.one_le_exp (by nlinarith)
  unfold hiLogistic
  rw [div_le_iff₀ (lt_trans h1 hd)]
  have := mul_le_mul_of_nonneg_left he (sub_pos.mpr h2).le
  nlinarith

/-- hence the model's loop runs out of any fuel (the driver answers `E:fuel`) whenever
`YldFormCD ≤ 0` and `HIini ≤ 0.98·HI0` -/
theorem calculateHIGC_none_of_nonpos {F : Fn α} (hF : ExpOrdLaws F) (fuel : ℕ) (tHI hi0 hiIni : α)
    (h1 : 0 < hiIni) (h2 : hiIni ≤ 0.98 * hi0) (ht : tHI ≤ 0) :
    calculateHIGC F fuel tHI hi0 hiIni = none := by
  have hlt : hiIni < hi0 := by nlinarith
  cases hc : calculateHIGC F fuel tHI hi0 hiIni with
  | none => rfl
  | some g =>
    obtain ⟨n, _, e, hgt, _⟩ := calculateHIGC_spec hF fuel tHI hi0 hiIni g h1 hlt hc
    have hg : 0 ≤ g := by rw [e]; positivity
    have := hiLogistic_le_ini_of_nonpos hF h1 hlt hg ht
    linarith

/-! ## C05 for one simulated day (steps 15 and 17 of `solution_single_time_step`)

`r` are yesterday's arguments of `HIref_current_day`, `r'` today's (`HIt` did not decrease,
`HIfinal` unchanged or larger); `s` is the state `harvest_index` receives today: its `hi_ref` is
today's reference index and its `harvest_index` is not above yesterday's reference index. -/
theorem c05_day {F : Fn α} {T : TrigFn α} (hF : ExpOrdLaws F) (c : HiCrop α) (hb : c.BuildUp)
    (r r' : HiRefIn α) (ht : r.dap - r.delayedCDs ≤ r'.dap - r'.delayedCDs)
    (hfin : r.hiFinal ≤ r'.hiFinal) (hf0 : 0 ≤ r.hiFinal)
    {cells : List (Cell α)} {zTop : α} {k : HiStressCrop α} {s o : HiState α} {et0 tmax tmin : α}
    (hs : s.hiRef = (hiRefCurrentDay F c r' true).hiRef)
    (hprev : s.hi ≤ (hiRefCurrentDay F c r true).hiRef)
    (h : harvestIndex F T cells zTop c k s et0 tmax tmin true = .ok o) :
    s.hi ≤ o.hi ∧ o.hi ≤ (hiRefCurrentDay F c r' true).hiRef ∧ o.hi ≤ c.hi0 ∧ o.hi ≤ r'.hiFinal := by
  have h0 : 0 ≤ c.hi0 := (lt_trans hb.ini_pos hb.ini_lt).le
  have hm := hiref_mono hF c hb r r' ht hfin hf0
  have hle : s.hi ≤ s.hiRef := by rw [hs]; exact le_trans hprev hm
  obtain ⟨a, b⟩ := hi_mono_of h hle
  rw [hs] at b
  exact ⟨a, b, le_trans b (hiref_le_hi0 F c r' true h0),
    le_trans b (hiref_le_hifinal F c r' true h0 (le_trans hf0 hfin))⟩

end Aqua
