import AquaVerif.Proofs.RunClosedTr

/-
Work package L, third part: **the rewatering cap `ccx_act ≤ CCx` on every simulated day of every
run**, from premises on the configuration only — which removes the `rw` field from the residual:
`run_crop_closed` (C05 envelope + C04 transpiration) is left with the capillary-rise overshoot
(`ResidualW`, trivially true without a water table) as the **only** hypothesis about computed
values.

The late-season rewatering branch of `canopy_cover` assigns
`ccx_act := cc_prev / D(t − dt)`, `D(τ) = 1 − 0.05·(exp((τ − Senescence)·3.33·CDC/(CCx+2.29)) − 1)`
(`update_CCx_CDC`).  `cc_prev ≤ CCx` alone does not bound it.  The invariant that does:

  `CcCurve`:  `cc ≤ 0  ∨  cc ≤ CCx · D(t)`        (`t` = the adjusted time the cover was computed at)

— the actual canopy lies below the no-stress decline curve started from `CCx`.  It holds trivially
up to `Senescence` (`D ≥ 1`, `cc ≤ CCx`), and is preserved by every late-season path: the decline
from `ccx_act ≤ CCx` (`ccLate`) is `ccx_act·D(t)`; early senescence only lowers the cover;
rewatering gives `CCXadj·D(t)` with `CCXadj ≤ CCx` *by the invariant of the previous day* (`D` is
antitone and `t − dt` is not after the previous day's time, since the delay counters only grow);
death and the transpiration feedback (`cc := cc_prev` only when `cc > cc_prev + 0.005`) lower it.
Premise on the crop: `CanopyDevEnd ≤ Senescence`.
-/

set_option linter.unusedSectionVars false
set_option linter.unusedVariables false
set_option linter.unusedSimpArgs false
namespace Aqua
open Aqua.Clock
variable {α : Type} [Field α] [LinearOrder α] [IsStrictOrderedRing α]

/-! ## 1. the decline curve -/

/-- exponent rate of the canopy decline from `CCx` -/
def ccK (crop : CcCrop α) : α := (crop.cdc * 3.33) / (crop.ccx + 2.29)

/-- relative canopy cover of the no-stress decline at adjusted time `τ` -/
def ccD (F : Fn α) (crop : CcCrop α) (τ : α) : α :=
  1 - 0.05 * (F.exp ((τ - crop.senescence) * ccK crop) - 1)

/-- the cover lies below the decline curve from `CCx` (or is zero) -/
def CcCurve (F : Fn α) (crop : CcCrop α) (cc τ : α) : Prop :=
  cc ≤ 0 ∨ cc ≤ crop.ccx * ccD F crop τ

section curve
variable {F : Fn α} {crop : CcCrop α}

theorem ccK_nonneg (h1 : 0 ≤ crop.cdc) (h2 : 0 ≤ crop.ccx) : 0 ≤ ccK crop := by
  unfold ccK
  have : (0 : α) < crop.ccx + 2.29 := by linarith [show (0:α) < 2.29 by norm_num]
  positivity

theorem ccD_anti (hF : ExpOrdLaws F) (hk : 0 ≤ ccK crop) {a b : α} (h : a ≤ b) :
    ccD F crop b ≤ ccD F crop a := by
  unfold ccD
  have : (a - crop.senescence) * ccK crop ≤ (b - crop.senescence) * ccK crop :=
    mul_le_mul_of_nonneg_right (by linarith) hk
  have := hF.exp_le this
  linarith

theorem one_le_ccD (hF : ExpOrdLaws F) (hk : 0 ≤ ccK crop) {τ : α} (h : τ ≤ crop.senescence) :
    1 ≤ ccD F crop τ := by
  unfold ccD
  have : (τ - crop.senescence) * ccK crop ≤ 0 :=
    mul_nonpos_of_nonpos_of_nonneg (by linarith) hk
  have := hF.exp_le_one this
  linarith

theorem CcCurve.mono {cc cc' τ : α} (h : CcCurve F crop cc τ) (hle : cc' ≤ cc) :
    CcCurve F crop cc' τ := by
  rcases h with h | h
  · exact Or.inl (le_trans hle h)
  · exact Or.inr (le_trans hle h)

theorem ccCurve_of_le_ccx (hF : ExpOrdLaws F) (hk : 0 ≤ ccK crop) (hx0 : 0 ≤ crop.ccx)
    {cc τ : α} (h : cc ≤ crop.ccx) (hτ : τ ≤ crop.senescence) : CcCurve F crop cc τ := by
  right
  have := mul_le_mul_of_nonneg_left (one_le_ccD hF hk hτ) hx0
  linarith

theorem updateCCx_eq (F : Fn α) (crop : CcCrop α) (p t dt : α) :
    (updateCCxCDC F p crop.cdc crop.ccx (t - dt - crop.senescence)).1 = p / ccD F crop (t - dt) :=
  rfl

/-- **the `CCXadj` of the rewatering branch is at most `CCx`** when the previous cover is below the
decline curve at a time not before `t − dt` -/
theorem rewater_ccx_le (hF : ExpOrdLaws F) (hk : 0 ≤ ccK crop) (hx0 : 0 ≤ crop.ccx)
    {p t dt τ : α} (hp0 : 0 ≤ p) (hJ : CcCurve F crop p τ) (hτ : t - dt ≤ τ) :
    (updateCCxCDC F p crop.cdc crop.ccx (t - dt - crop.senescence)).1 ≤ crop.ccx := by
  rw [updateCCx_eq]
  rcases lt_trichotomy (ccD F crop (t - dt)) 0 with hD | hD | hD
  · exact le_trans (div_nonpos_of_nonneg_of_nonpos hp0 hD.le) hx0
  · rw [hD, div_zero]; exact hx0
  · rw [div_le_iff₀ hD]
    rcases hJ with h | h
    · exact le_trans h (mul_nonneg hx0 hD.le)
    · exact le_trans h (mul_le_mul_of_nonneg_left (ccD_anti hF hk hτ) hx0)

/-- a decline from a maximum `X ≤ CCx` with the `CDC` adjusted for `X` stays below the curve -/
theorem decline_curve (hx0 : 0 ≤ crop.ccx) (cco cgc : α) {X t : α} (hX : X ≤ crop.ccx) :
    CcCurve F crop
      (ccDevelopment F cco X cgc (crop.cdc * ((X + 2.29) / (crop.ccx + 2.29)))
        (t - crop.senescence) .decline X) t := by
  show CcCurve F crop (clipCC (ccDecline F X _ (t - crop.senescence) X)) t
  unfold ccDecline
  by_cases h : X < 0.001
  · rw [if_pos h]
    left
    unfold clipCC
    split_ifs <;> linarith
  · rw [if_neg h]
    rw [not_lt] at h
    have hX229 : 0 < X + 2.29 := by linarith [show (0:α) < 2.29 by norm_num, show (0:α) < 0.001 by norm_num]
    have hc229 : 0 < crop.ccx + 2.29 := by linarith [show (0:α) < 2.29 by norm_num]
    have harg : (t - crop.senescence) * (crop.cdc * ((X + 2.29) / (crop.ccx + 2.29))) * 3.33 *
        ((X + 2.29) / (X + 2.29)) / (X + 2.29) = (t - crop.senescence) * ccK crop := by
      unfold ccK; field_simp
    rw [harg]
    have hv : X * (1 - 0.05 * (F.exp ((t - crop.senescence) * ccK crop) - 1)) = X * ccD F crop t := rfl
    rw [hv]
    have hXpos : 0 < X := lt_of_lt_of_le (by norm_num) h
    by_cases hD : ccD F crop t < 0
    · left
      have : X * ccD F crop t < 0 := mul_neg_of_pos_of_neg hXpos hD
      unfold clipCC
      split_ifs <;> linarith
    · rw [not_lt] at hD
      right
      have h1 : X * ccD F crop t ≤ crop.ccx * ccD F crop t := mul_le_mul_of_nonneg_right hX hD
      exact clipCC_le h1 (mul_nonneg hx0 hD)

theorem ccDie_curve {s0 s : CcState α} {t : α} (h : CcCurve F crop s.cc t) :
    CcCurve F crop (ccDie s0 s).cc t := by
  unfold ccDie
  split_ifs
  · exact Or.inl (le_refl _)
  · exact h

end curve

/-! ## 2. through `canopy_cover` in the late season -/

section blocks
variable {F : Fn α} {crop : CcCrop α}

/-- after `Senescence` the "actual canopy" block is the decline from `ccx_act` -/
theorem ccActualB_curve (hx0 : 0 ≤ crop.ccx) (hdev : crop.canopyDevEnd ≤ crop.senescence)
    {t : α} (hsen : crop.senescence < t) (s0 s : CcState α) (k dt : α)
    (hact : s.ccxAct ≤ crop.ccx) : CcCurve F crop (ccActualB F crop s0 s k dt t).1.cc t := by
  unfold ccActualB
  by_cases o1 : ccOutside F crop t
  · rw [if_pos o1]; exact Or.inl (le_refl _)
  · rw [if_neg o1]
    have d1 : ¬ t < crop.canopyDevEnd := by rw [not_lt]; linarith
    have d2 : crop.canopyDevEnd < t := by linarith
    have m1 : ¬ t < crop.senescence := by rw [not_lt]; linarith
    rw [if_neg d1, if_pos d2]
    dsimp only
    rw [if_neg m1]
    apply ccDie_curve
    unfold ccLate
    exact decline_curve hx0 s.cc0Adj crop.cgc hact

theorem ccActualB_ccxAct_late {t : α} (hdev : crop.canopyDevEnd ≤ crop.senescence)
    (hsen : crop.senescence < t) (s0 s : CcState α) (k dt : α) :
    (ccActualB F crop s0 s k dt t).1.ccxAct = s.ccxAct := by
  unfold ccActualB
  by_cases o1 : ccOutside F crop t
  · rw [if_pos o1]
  · rw [if_neg o1]
    have d1 : ¬ t < crop.canopyDevEnd := by rw [not_lt]; linarith
    have d2 : crop.canopyDevEnd < t := by linarith
    have m1 : ¬ t < crop.senescence := by rw [not_lt]; linarith
    rw [if_neg d1, if_pos d2]
    dsimp only
    rw [if_neg m1]
    rw [(ccDie_frame _ _).2.1]
    rfl

/-- the senescence block in the late season keeps the cover below the curve, given that the
`CCXadj` a rewatering would assign is at most `CCx` -/
theorem ccSenescence_curve (hx0 : 0 ≤ crop.ccx) {t dt : α} (hsen : crop.senescence < t)
    (s0 s : CcState α) (kswSen : α) (sen2 : α → α) (hs : CcCurve F crop s.cc t)
    (hrw : (updateCCxCDC F s0.cc crop.cdc crop.ccx (t - dt - crop.senescence)).1 ≤ crop.ccx) :
    CcCurve F crop (ccSenescence F crop s0 s kswSen sen2 dt t).cc t := by
  have m1 : ¬ t < crop.senescence := by rw [not_lt]; linarith
  unfold ccSenescence
  by_cases e1 : crop.emergence ≤ t
  · rw [if_pos e1]
    by_cases e2 : t < crop.senescence ∨ 0 < s0.tEarlySen
    · rw [if_pos e2]
      rw [(ccRaiseW_frame _ _).1]
      by_cases e3 : kswSen < 1 ∧ s0.protectedSeed = false
      · rw [if_pos e3]
        unfold ccSenStress
        dsimp only
        unfold ccEarlySen
        dsimp only
        apply ccDie_curve
        rw [if_neg m1]
        split_ifs with c1 c2 c2
        · exact hs.mono c2.le
        · exact hs
        · exact hs.mono c2.le
        · exact hs
      · rw [if_neg e3]
        unfold ccSenNoStress
        dsimp only
        by_cases c : crop.senescence < t ∧ 0 < s0.tEarlySen
        · rw [if_pos c]
          show CcCurve F crop (ccRewater F crop s0 { s with prematSenes := false } dt t).cc t
          unfold ccRewater
          dsimp only
          apply ccDie_curve
          exact decline_curve hx0 s.cc0Adj crop.cgc hrw
        · rw [if_neg c]
          exact hs
    · rw [if_neg e2]; exact hs
  · rw [if_neg e1]; exact hs

/-- `ccx_act` after the senescence block, with the rewatering value bounded -/
theorem ccSenescence_actB' (hF : ExpOrdLaws F) {dt : α} (hp : CcParams F crop dt)
    (s0 : CcState α) (kswSen : α) (sen2 : α → α) (t : α) {s : CcState α}
    (h0 : 0 ≤ s0.cc) (h1 : s0.cc ≤ crop.ccx) (h : CcRng crop crop.ccx s)
    (hrw : (updateCCxCDC F s0.cc crop.cdc crop.ccx (t - dt - crop.senescence)).1 ≤ crop.ccx) :
    (ccSenescence F crop s0 s kswSen sen2 dt t).ccxAct ≤ crop.ccx := by
  by_cases hre : crop.senescence < t ∧ 0 < s0.tEarlySen
  · unfold ccSenescence
    by_cases e1 : crop.emergence ≤ t
    · rw [if_pos e1]
      rw [if_pos (Or.inr hre.2)]
      rw [(ccRaiseW_frame _ _).2.2.1]
      by_cases e3 : kswSen < 1 ∧ s0.protectedSeed = false
      · rw [if_pos e3]
        exact (ccSenStress_rng F s0 sen2 dt t hp.cc0_nonneg (le_refl _) h0 h1 h).actB
      · rw [if_neg e3]
        unfold ccSenNoStress
        dsimp only
        rw [if_pos hre]
        show (ccRewater F crop s0 { s with prematSenes := false } dt t).ccxAct ≤ crop.ccx
        unfold ccRewater
        dsimp only
        rw [(ccDie_frame _ _).2.1]
        exact hrw
    · rw [if_neg e1]; exact h.actB
  · exact (ccSenescence_rng hF hp s0 kswSen sen2 t (le_refl _) h0 h1 h).2 hre

/-- **one in-season call of `canopy_cover` keeps `ccx_act ≤ CCx` and the cover below the curve** -/
theorem ccSeason_curve (hF : ExpOrdLaws F) {dt : α} (hp : CcParams F crop dt)
    (hdev : crop.canopyDevEnd ≤ crop.senescence) {s0 : CcState α} (dr taw et0 t : α) {τ : α}
    (h : CcPre crop s0) (hx : s0.ccxAct ≤ crop.ccx) (hJ : CcCurve F crop s0.cc τ)
    (hτ : t - dt ≤ τ) :
    (ccSeason F crop s0 dr taw et0 dt t).ccxAct ≤ crop.ccx ∧
      CcCurve F crop (ccSeason F crop s0 dr taw et0 dt t).cc t := by
  have hx0 := hp.ccx_nonneg hF
  have hk := ccK_nonneg hp.cdc_nonneg hx0
  have hrw := rewater_ccx_le hF hk hx0 h.cc0 hJ hτ
  have r0 : CcRng crop crop.ccx { s0 with ccPrev := s0.cc } :=
    ⟨h.cc0, h.cc1, h.adj0, h.adj1, hx⟩
  have r1 := ccPotential_rng F s0 dt t r0
  have r2 := ccActual_rng hF hp s0
    (waterStress F crop.pUp crop.pLo crop.fshW crop.etAdj crop.beta s0.tEarlySen dr taw et0 true).exp
    t (le_refl _) h.cc0 h.cc1 r1
  obtain ⟨e1, e2⟩ := ccSeason_frame F crop s0 dr taw et0 dt t
  constructor
  · rw [e2]
    unfold ccBeforeFixup
    dsimp only
    exact ccSenescence_actB' hF hp s0 _ _ t h.cc0 h.cc1 r2 hrw
  · rw [ccSeason_cc]
    by_cases hsen : crop.senescence < t
    · unfold ccBeforeFixup
      dsimp only
      apply ccSenescence_curve hx0 hsen s0 _ _ _ _ hrw
      unfold ccActual
      apply ccActualB_curve hx0 hdev hsen
      exact r1.actB
    · have hcc := (ccBeforeFixup_rng hF hp dr taw et0 t (le_refl crop.ccx) hx h).1
      exact ccCurve_of_le_ccx hF hk hx0 hcc.ccB (not_lt.mp hsen)

end blocks

/-! ## 3. the day -/

/-- the adjusted time of the canopy routine, from the state after the day -/
def ccTAdjOf (crop : CcCrop α) (st : DayState' α) : α :=
  if crop.calendarType = 1 then natNum st.dap - st.delayedCds else st.gddCum - st.delayedGdds

/-- in season the delay counters never decrease -/
theorem germination_delay_mono {F : Fn α} {s : GermState α} {zGerm : α} {cells : List (Cell α)}
    {germThr : α} {sown : Bool} {gdd : α} {out : GermOut α} (hg : 0 ≤ gdd)
    (h : germination F s zGerm cells germThr sown gdd true = .ok out) :
    s.delayedCds ≤ out.s.delayedCds ∧ s.delayedGdds ≤ out.s.delayedGdds := by
  cases hsg : s.germination with
  | true =>
    obtain ⟨o, ho, hso⟩ := germination_already F zGerm cells germThr sown gdd hsg
    rw [ho] at h
    rw [← Except.ok.inj h, hso]; exact ⟨le_refl _, le_refl _⟩
  | false =>
    rcases germination_step hsg h with ⟨_, _, c, d, _⟩ | ⟨_, _, c, d, _⟩
    · rw [c, d]; exact ⟨le_refl _, le_refl _⟩
    · rw [c, d]; constructor <;> linarith

section day
variable {F : Fn α} {T : TrigFn α} {P : DayParams α} {st : DayState' α} {D : DayIn' α}
  {r : DayResult α}

/-- **one day keeps `ccx_act ≤ CCx` (on every path, rewatering included) and the cover below the
decline curve** -/
theorem fullDay_curve (h : fullDay F T P st D = .ok r) (hc : CcCropPre F P)
    (hdev : P.cx.cc.canopyDevEnd ≤ P.cx.cc.senescence) (hi : CcInv P.cx.cc st)
    (hJ : CcCurve F P.cx.cc st.cc (ccTAdjOf P.cx.cc st)) :
    r.state.ccxAct ≤ P.cx.cc.ccx ∧ CcCurve F P.cx.cc r.state.cc (ccTAdjOf P.cx.cc r.state) := by
  obtain ⟨c1, c2, _, _, c5, c6⟩ := fullDay_counters h
  have hoff := fullDay_offseason_zero h
  obtain ⟨X, hs, rfl⟩ := fullDay_ok' h
  cases hg : D.gs with
  | false =>
    obtain ⟨_, ⟨_, _, _, _, e5, _⟩, ⟨_, _, _, _, _, _, e7, _⟩⟩ := hoff hg
    have e5' : (dayResultOf P st D X).state.cc = 0 := e5
    exact ⟨by rw [e7]; exact hc.ccx0, Or.inl (le_of_eq e5')⟩
  | true =>
    have hcc := hs.hcc
    have hge := hs.hge
    have ht := hs.water.ht
    simp only [FullTrace.water_t, FullTrace.water_e, FullTrace.water_r, FullTrace.water_i] at ht
    obtain ⟨tcc, _, _⟩ := transp_cc_trRatio ht
    have hprev : X.cc.ccPrev = st.cc := canopyCover_ccPrev hcc
    have e1 : (dayTrState (X.cropDay P st) st.water X.e.pond X.r.daySub X.i.depletion X.i.taw).cc
        = X.cc.cc := rfl
    have e2 : (dayTrState (X.cropDay P st) st.water X.e.pond X.r.daySub X.i.depletion
        X.i.taw).ccPrev = X.cc.ccPrev := rfl
    rw [e1, e2, hprev] at tcc
    rw [hg] at hcc hge
    obtain ⟨d1, hgd, d3⟩ := c5 hg
    have d1' : X.tc.dap = st.dap + 1 := d1
    have d3' : X.tc.gddCum = st.gddCum + X.tc.gdd := d3
    have hgd' : growingDegreeDay P.cx.gddMethod P.cx.tupp P.cx.tbase D.tmax D.tmin
        = some X.tc.gdd := hgd
    obtain ⟨g0, g1⟩ := gdd_range hc.temp hgd'
    have hp : CcParamsFor F P.cx.cc (ccStateOf st X.tc X.rd X.ge) X.tc.gdd :=
      ccParamsFor_of _
        (fun h1 => hc.step 1 (fun _ => rfl) (fun h2 => by rw [h1] at h2; cases h2))
        (fun h2 => hc.step _ (fun h1 => by rw [h2] at h1; cases h1) (fun _ => ⟨g0, g1⟩))
    have hpre : CcPre P.cx.cc (ccStateOf st X.tc X.rd X.ge) :=
      ⟨hi.cc0, le_trans hi.cc_ns hi.ns_le, hi.adj0, hi.adj1⟩
    have hx : (ccStateOf st X.tc X.rd X.ge).ccxAct ≤ P.cx.cc.ccx := hi.act
    obtain ⟨m1, m2⟩ := germination_delay_mono g0 hge
    have m1' : st.delayedCds ≤ X.ge.s.delayedCds := m1
    have m2' : st.delayedGdds ≤ X.ge.s.delayedGdds := m2
    obtain ⟨dr, taw, dt, t, htt, e⟩ := canopyCover_season hcc
    -- today's time pair and its relation to yesterday's time
    have htime : t = ccTAdjOf P.cx.cc (stateAfter P st D X) ∧
        t - dt ≤ ccTAdjOf P.cx.cc st := by
      unfold ccTime at htt
      unfold ccTAdjOf
      by_cases k1 : P.cx.cc.calendarType = 1
      · rw [if_pos k1] at htt
        rw [if_pos k1, if_pos k1]
        injection htt with htt; injection htt with q1 q2
        rw [← q1, ← q2]
        refine ⟨rfl, ?_⟩
        show natNum X.tc.dap - X.ge.s.delayedCds - 1 ≤ natNum st.dap - st.delayedCds
        rw [d1', natNum_succ]; linarith
      · rw [if_neg k1] at htt
        rw [if_neg k1, if_neg k1]
        by_cases k2 : P.cx.cc.calendarType = 2
        · rw [if_pos k2] at htt
          injection htt with htt; injection htt with q1 q2
          rw [← q1, ← q2]
          refine ⟨rfl, ?_⟩
          show X.tc.gddCum - X.ge.s.delayedGdds - X.tc.gdd ≤ st.gddCum - st.delayedGdds
          rw [d3']; linarith
        · rw [if_neg k2] at htt; cases htt
    obtain ⟨a1, a2⟩ := ccSeason_curve hc.exp (hp dt t htt) hdev dr taw D.et0 t hpre hx
      (τ := ccTAdjOf P.cx.cc st) hJ htime.2
    rw [← e] at a1 a2
    refine ⟨a1, ?_⟩
    show CcCurve F P.cx.cc X.t.st.cc (ccTAdjOf P.cx.cc (stateAfter P st D X))
    rw [← htime.1]
    rcases tcc with q | ⟨q, hlt⟩
    · rw [q]; exact a2
    · rw [q]; exact a2.mono (by linarith)

end day

/-! ## 4. along a run -/

/-- premises on the configuration for the rewatering cap -/
structure CfgRwOK (F : Fn α) (cfg : RunCfg α) : Prop where
  devEnd : ∀ season : Int,
    (cropOf cfg season).cx.cc.canopyDevEnd ≤ (cropOf cfg season).cx.cc.senescence
  /-- the initial canopy cover is below the decline curve (e.g. zero) -/
  init : CcCurve F (cropOf cfg cfg.clock.season0).cx.cc cfg.init.cc
    (ccTAdjOf (cropOf cfg cfg.clock.season0).cx.cc cfg.init)

section runRw
variable {F : Fn α} {T : TrigFn α} {cfg : RunCfg α} {s s' : RunState α} {A : α}

/-- the decline-curve invariant of a run state -/
def RunInvJ (F : Fn α) (cfg : RunCfg α) (s : RunState α) : Prop :=
  CcCurve F (cropOf cfg s.season).cx.cc s.day.cc (ccTAdjOf (cropOf cfg s.season).cx.cc s.day)

/-- **the crop side closed**: `CropEnv` (C05), `RunInvT`, `RunInvJ`, `0 ≤ TrPot`,
`0 ≤ Tr ≤ TrPot` (C04), `ccx_act ≤ CCx` along every run — from `CfgOK`, `CfgTrOK`, `CfgRwOK`,
`WeatherOK` and the capillary-rise residual `ResidualW` only -/
theorem run_crop_closed (hC : CfgOK F T cfg) (hT : CfgTrOK F cfg A) (hJ0 : CfgRwOK F cfg)
    (hW : WeatherOK F cfg) (hr : RunReach F T cfg s) (hR : ∀ d ∈ s.daysRev, ResidualW d) :
    (-1 ≤ s.season ∧ CropEnv F (paramsOf cfg s.season false) s.day ∧ RunInvT cfg A s ∧
        RunInvJ F cfg s) ∧
      ∀ d ∈ s.daysRev, CropEnv F d.P d.st ∧ CropEnv F d.P d.r.state ∧
        d.r.state.ccxAct ≤ d.P.cx.cc.ccx ∧ 0 ≤ d.r.flux.trPot ∧
        (d.D.gs = true → d.st.hi ≤ d.r.state.hi ∧ d.st.biomass ≤ d.r.state.biomass ∧
          0 ≤ d.r.flux.tr ∧ d.r.flux.tr ≤ d.r.flux.trPot) ∧
        (0 ≤ d.st.ccxW ∧ d.st.ccxW ≤ d.P.cx.cc.ccx) := by
  obtain ⟨wp, fc, hL⟩ := hC.layerFns
  induction hr with
  | init hi =>
    unfold runInit at hi
    split at hi
    · cases hi
    · rename_i c hc
      cases hi
      unfold Clock.init at hc
      split_ifs at hc
      cases hc
      exact ⟨⟨hC.season0, hC.init.toEnv, ⟨hT.ageDays0, hT.delayed0, hT.ccxW0, hT.ccxW1⟩,
        hJ0.init⟩, fun d hd => by cases hd⟩
  | @step s s' hr hp ih =>
    obtain ⟨d, hdl, hd, hcase⟩ := performR_step hp
    have hRs : ∀ d ∈ s.daysRev, ResidualW d :=
      fun d hd => hR d (by rw [hdl]; exact List.mem_cons_of_mem _ hd)
    obtain ⟨⟨hlo, hinv, hN, hJ⟩, hdays⟩ := ih hRs
    obtain ⟨hI, _⟩ := run_invW hC wp fc hL hr hRs
    have hRd : ResidualW d := hR d (by rw [hdl]; exact List.mem_cons_self)
    have hPcx : d.P.cx = (cropOf cfg s.season).cx := by rw [hd.P]; rfl
    obtain ⟨j1, j2⟩ := fullDay_curve hd.day (dayCropOK_cc hC hd)
      (by rw [hPcx]; exact hJ0.devEnd s.season)
      (by rw [hd.st, hPcx]; exact hinv.cc) (by rw [hd.st, hPcx]; exact hJ)
    obtain ⟨p0, n1, n2, n3, n4⟩ := dayOf_trPot_nonneg hC hT hW hI hinv.cc hN hd
      (fun hg => run_dap_bound hT.wf hT.initOK hr hp hdl hg)
    obtain ⟨h1, h2, h3, h4⟩ := performR_cropEnv hC hW wp fc hL hI hinv hd hcase
      ⟨hRd, fun _ => j1, fun _ => p0⟩
    refine ⟨⟨?_, h1, ?_, ?_⟩, ?_⟩
    · rcases hcase with ⟨e, _⟩ | ⟨e, _⟩ <;> rw [e] <;> omega
    · rcases hcase with ⟨e1, e2⟩ | ⟨e1, e2⟩
      · exact ⟨by rw [e2]; exact n1, by rw [e2]; exact n2, by rw [e2]; exact n3,
          by rw [e2, e1]; exact n4⟩
      · refine ⟨?_, ?_, ?_, ?_⟩
        all_goals rw [e2]
        all_goals simp only [resetState, resetStateCore]
        · exact hT.A0
        · exact le_refl _
        · exact le_refl _
        · exact (hC.crop s'.season).ccx0
    · unfold RunInvJ
      rcases hcase with ⟨e1, e2⟩ | ⟨e1, e2⟩
      · rw [e2, e1, ← hPcx]; exact j2
      · rw [e2]
        left
        simp only [resetState, resetStateCore]
        exact le_refl _
    · intro d' hd'
      rw [hdl] at hd'
      rcases List.mem_cons.mp hd' with rfl | hd'
      · exact ⟨h2, h3, j1, p0, h4, by rw [hd.st]; exact hN.ccxW0,
          by rw [hd.st, hPcx]; exact hN.ccxW1⟩
      · exact hdays d' hd'

/-- without a water table nothing about computed values is assumed at all -/
theorem run_crop_closed_no_table (hC : CfgOK F T cfg) (hT : CfgTrOK F cfg A)
    (hJ0 : CfgRwOK F cfg) (hW : WeatherOK F cfg) (hwt : cfg.W0.waterTable ≠ 1)
    (hr : RunReach F T cfg s) :
    CropEnv F (paramsOf cfg s.season false) s.day ∧
      ∀ d ∈ s.daysRev, CropEnv F d.P d.st ∧ CropEnv F d.P d.r.state ∧
        d.r.state.ccxAct ≤ d.P.cx.cc.ccx ∧ 0 ≤ d.r.flux.trPot ∧
        (d.D.gs = true → d.st.hi ≤ d.r.state.hi ∧ d.st.biomass ≤ d.r.state.biomass ∧
          0 ≤ d.r.flux.tr ∧ d.r.flux.tr ≤ d.r.flux.trPot) := by
  have key : ∀ d ∈ s.daysRev, ResidualW d := by
    intro d hd
    obtain ⟨season, hP⟩ := run_days_params hr d hd
    exact residualW_of_no_table (by rw [hP]; exact hwt)
  obtain ⟨⟨_, h, _⟩, hdays⟩ := run_crop_closed hC hT hJ0 hW hr key
  exact ⟨h, fun d hd => by
    obtain ⟨a, b, c, e, f, _⟩ := hdays d hd
    exact ⟨a, b, c, e, f⟩⟩

/-- what is left of `Residual` for the full `CropInv` (which contains `biomass ≤ biomass_ns`):
the capillary-rise overshoot and `TrPot ≤ TrPot_NS` — the latter is false for states inside the
envelope (`RunClosedExample.trPot_gt_trPotNS`), so it cannot be discharged -/
structure ResidualNS (d : DayRec α) : Prop where
  cr : ResidualW d
  trNS : d.D.gs = true → d.r.flux.trPot ≤ d.r.water.trPotNS

/-- **`run_cropInv_closed` with the rewatering cap and `0 ≤ TrPot` discharged**: the conclusion of
`run_cropInv` from the configuration premises and `ResidualNS` -/
theorem run_cropInv_closed_rw (hC : CfgOK F T cfg) (hT : CfgTrOK F cfg A) (hJ0 : CfgRwOK F cfg)
    (hW : WeatherOK F cfg) (hr : RunReach F T cfg s) (hR : ∀ d ∈ s.daysRev, ResidualNS d) :
    -1 ≤ s.season ∧ CropInv F (paramsOf cfg s.season false) s.day ∧
      ∀ d ∈ s.daysRev, CropInv F d.P d.st ∧ CropInv F d.P d.r.state := by
  obtain ⟨_, hdays⟩ := run_crop_closed hC hT hJ0 hW hr (fun d hd => (hR d hd).cr)
  apply run_cropInv_closed hC hW hr
  intro d hd
  obtain ⟨_, _, j1, p0, _⟩ := hdays d hd
  exact ⟨(hR d hd).cr, fun _ => j1, fun hg => ⟨p0, (hR d hd).trNS hg⟩⟩

end runRw

end Aqua

#print axioms Aqua.rewater_ccx_le
#print axioms Aqua.ccSeason_curve
#print axioms Aqua.fullDay_curve
#print axioms Aqua.run_crop_closed
#print axioms Aqua.run_crop_closed_no_table
#print axioms Aqua.run_cropInv_closed_rw
