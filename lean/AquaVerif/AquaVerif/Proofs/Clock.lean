import AquaVerif.Proofs.ClockRun
/-
Invariants and theorems of the clock / season state machine (C07, summary part of C06).
Core Lean only (`omega`, `simp`, `grind`).
-/

namespace Aqua.Clock

/-! ### Valid configurations -/

/-- planting index of season `k` (0 outside the list) -/
def Cfg.pl (c : Cfg) (k : Nat) : Nat := c.planting.getD k 0
/-- latest-harvest day number of season `k` (0 outside the list) -/
def Cfg.hv (c : Cfg) (k : Nat) : Int := c.harvest.getD k 0

/-- Well-formed *window and planting dates*: what theorems 1–6 need.
`n ≥ 2`, at least one season, as many harvest as planting dates, planting indices strictly
increasing and all `< n − 1`, `season0` consistent with the first planting date. -/
def WF (c : Cfg) : Prop :=
  2 ≤ c.n ∧ c.planting ≠ [] ∧ c.harvest.length = c.planting.length ∧
  c.planting.Pairwise (· < ·) ∧ (∀ p ∈ c.planting, p + 2 ≤ c.n) ∧
  c.season0 = (if c.planting.head? = some 0 then 0 else -1)

instance (c : Cfg) : Decidable (WF c) := by unfold WF; infer_instance

/-- `Valid`: `WF` plus the harvest dates in their places: `planting[k] < harvest[k]` and
`harvest[k] ≤ planting[k+1]`.  (This is what the date set-up guarantees,
`Proofs/ClockCalendar.lean`; equality `harvest[k] = planting[k+1]` occurs when the crop's
planting and harvest month/day coincide.  Only `season_harvested` and
`harvest_by_latest_date` need more than `WF`.) -/
def Valid (c : Cfg) : Prop :=
  WF c ∧ (∀ k, k < c.planting.length → (c.pl k : Int) < c.hv k) ∧
  (∀ k, k < c.planting.length - 1 → c.hv k ≤ (c.pl (k + 1) : Int))

instance (c : Cfg) : Decidable (Valid c) := by unfold Valid; infer_instance

theorem Valid.wf {c : Cfg} (h : Valid c) : WF c := h.1

/-- non-vacuity: a three-season configuration with an unfinished last season -/
example : Valid { n := 40, planting := [3, 15, 30], harvest := [9, 29, 55], offSeason := false,
                  season0 := -1 } := by decide

variable {c : Cfg}

theorem nSeasons_eq (c : Cfg) : c.nSeasons = (c.planting.length : Int) := rfl

theorem WF.pl_lt (h : WF c) {i j : Nat} (hij : i < j) (hj : j < c.planting.length) :
    c.pl i < c.pl j := by
  obtain ⟨_, _, _, hs, _, _⟩ := h
  have := List.pairwise_iff_getElem.mp hs i j (by omega) hj hij
  simpa [Cfg.pl, List.getD_eq_getElem?_getD, List.getElem?_eq_getElem, hj,
    show i < c.planting.length by omega] using this

theorem WF.pl_in (h : WF c) {k : Nat} (hk : k < c.planting.length) : c.pl k + 2 ≤ c.n := by
  obtain ⟨_, _, _, _, hi, _⟩ := h
  have : c.planting[k] ∈ c.planting := List.getElem_mem hk
  have := hi _ this
  simpa [Cfg.pl, List.getD_eq_getElem?_getD, List.getElem?_eq_getElem, hk] using this

theorem WF.len_pos (h : WF c) : 0 < c.planting.length := by
  obtain ⟨_, hne, _⟩ := h
  cases hp : c.planting with
  | nil => exact absurd hp hne
  | cons a l => simp

theorem WF.season0_cases (h : WF c) :
    (c.season0 = 0 ∧ c.pl 0 = 0) ∨ (c.season0 = -1 ∧ 0 < c.pl 0) := by
  have hl := h.len_pos
  obtain ⟨_, _, _, _, _, h0⟩ := h
  cases hp : c.planting with
  | nil => simp [hp] at hl
  | cons a l =>
    simp only [hp, List.head?_cons, Option.some.injEq] at h0
    by_cases ha : a = 0
    · left; simp [h0, ha, Cfg.pl, hp]
    · right; simp [h0, ha, Cfg.pl, hp]; omega

theorem pyGet_nat {α : Type} (l : List α) (k : Nat) (d : α) (hk : k < l.length) :
    pyGet l (k : Int) = .ok (l.getD k d) := by
  have h0 : ¬ ((k : Int) < 0) := by omega
  simp [pyGet, h0, List.getD_eq_getElem?_getD, hk]

/-! ### Total step function (what `perform` computes when nothing raises) -/

/-- dates of the current season -/
def phOf (c : Cfg) (season : Int) : Option (Nat × Int) :=
  if season ≥ 0 then some (c.pl season.toNat, c.hv season.toNat) else none

theorem seasonInfo_eq (hl : c.harvest.length = c.planting.length) {season : Int}
    (hhi : season < c.nSeasons) : seasonInfo c season = .ok (phOf c season) := by
  unfold seasonInfo phOf
  by_cases h0 : season ≥ 0
  · obtain ⟨k, rfl⟩ : ∃ k : Nat, season = k := ⟨season.toNat, by omega⟩
    have hk : k < c.planting.length := by rw [nSeasons_eq] at hhi; omega
    simp only [h0, if_true]
    rw [pyGet_nat c.planting _ 0 hk, pyGet_nat c.harvest _ 0 (by omega)]
    simp [Cfg.pl, Cfg.hv, bind, Except.bind, pure, Except.pure]
  · simp [h0, pure, Except.pure]

/-- `update_time` without its error checks -/
def updT (c : Cfg) (s : St) : St :=
  if s.finished then s else
  if s.harvestFlag && !c.offSeason then
    if s.season < c.nSeasons - 1 then
      resetSeason { s with season := s.season + 1, t := c.pl (s.season + 1).toNat }
    else s
  else
    if s.season < c.nSeasons - 1 then
      if s.t + 1 = c.pl (s.season + 1).toNat then
        resetSeason { s with t := s.t + 1, season := s.season + 1 }
      else { s with t := s.t + 1 }
    else { s with t := s.t + 1 }

theorem updateTime_eq (h : WF c) {s : St} (hlo : -1 ≤ s.season)
    (ht : s.finished = false → s.t + 3 ≤ c.n) : updateTime c s = .ok (updT c s) := by
  unfold updateTime updT
  cases hf : s.finished with
  | true => simp
  | false =>
    have ht := ht hf
    simp only [Bool.false_eq_true, if_false]
    by_cases hn : s.season < c.nSeasons - 1
    · obtain ⟨k, hk⟩ : ∃ k : Nat, s.season + 1 = k := ⟨(s.season + 1).toNat, by omega⟩
      have hkl : k < c.planting.length := by rw [nSeasons_eq] at hn; omega
      have hin := h.pl_in hkl
      simp only [hn, if_true, hk, Int.toNat_natCast]
      rw [pyGet_nat c.planting _ 0 hkl]
      simp only [Cfg.pl] at hin ⊢
      have e1 : ¬ (c.planting.getD k 0 ≥ c.n) := by omega
      have e2 : ¬ (c.planting.getD k 0 + 1 ≥ c.n) := by omega
      have e3 : ¬ (s.t + 1 ≥ c.n) := by omega
      have e4 : ¬ (s.t + 1 + 1 ≥ c.n) := by omega
      simp only [bind, Except.bind, pure, Except.pure, e1, e2, e3, e4, if_false]
      split
      · rfl
      · split <;> simp_all
    · have e3 : ¬ (s.t + 1 ≥ c.n) := by omega
      have e4 : ¬ (s.t + 1 + 1 ≥ c.n) := by omega
      simp only [hn, if_false, e3, e4, pure, Except.pure]
      split <;> rfl

/-- one `_perform_timestep` when nothing raises -/
def stepT (c : Cfg) (ev : Ev) (s : St) : St :=
  updT c (checkFinished c (solCore ev s (phOf c s.season)))


/-! ### The solution step in closed form -/

section
variable (c : Cfg) (ev : Ev) (s : St)

/-- growing-season flag of the day about to be simulated -/
def gsOf : Bool :=
  decide (0 ≤ s.season) && decide ((c.pl s.season.toNat : Int) ≤ s.t) &&
    decide ((s.t : Int) < c.hv s.season.toNat) && !s.mature && !s.dead
def matOf : Bool := s.mature || (gsOf c s && (ev s.t).1)
def deadOf : Bool := s.dead || (gsOf c s && (ev s.t).2)
/-- end-of-season condition of the "Final output" block -/
def endcOf : Bool :=
  decide (0 ≤ s.season) &&
    (matOf c ev s || deadOf c ev s || decide (c.hv s.season.toNat = (s.t : Int) + 1))
def dapOf : Nat := if gsOf c s then s.dap + 1 else 0
def rowOf : Row :=
  { t := s.t, season := s.season, dap := dapOf c s, gs := gsOf c s, mature := matOf c ev s,
    dead := deadOf c ev s, endc := endcOf c ev s }
def sol : St :=
  { s with dap := dapOf c s, mature := matOf c ev s, dead := deadOf c ev s,
           rowsRev := rowOf c ev s :: s.rowsRev,
           summaryRev := if endcOf c ev s && !s.harvestFlag then (s.season, s.t) :: s.summaryRev
                         else s.summaryRev,
           harvestFlag := s.harvestFlag || endcOf c ev s }
/-- finish test after the solution step -/
def finOf : Bool :=
  (if (s.t : Int) + 1 < (c.n : Int) - 1 then false else true) ||
    ((s.harvestFlag || endcOf c ev s) && decide (s.season = c.nSeasons - 1))
end

theorem solCore_phOf (c : Cfg) (ev : Ev) (s : St) :
    solCore ev s (phOf c s.season) = sol c ev s := by
  unfold solCore phOf sol rowOf dapOf endcOf deadOf matOf gsOf
  by_cases h0 : 0 ≤ s.season
  · have h0' : s.season ≥ 0 := h0
    simp only [h0', if_true, decide_true, Bool.true_and]
    cases s.harvestFlag <;>
      cases (decide ((c.pl s.season.toNat : Int) ≤ s.t) && decide ((s.t : Int) < c.hv s.season.toNat)
        && !s.mature && !s.dead) <;> simp
  · have h0' : ¬ s.season ≥ 0 := h0
    simp [h0']

theorem checkFinished_sol (c : Cfg) (ev : Ev) (s : St) :
    checkFinished c (sol c ev s) = { sol c ev s with finished := finOf c ev s } := by
  unfold checkFinished finOf
  have e1 : (sol c ev s).t = s.t := rfl
  have e2 : (sol c ev s).season = s.season := rfl
  have e3 : (sol c ev s).harvestFlag = (s.harvestFlag || endcOf c ev s) := rfl
  simp only [e1, e2, e3]
  congr 1
  cases (s.harvestFlag || endcOf c ev s) <;> cases (decide (s.season = c.nSeasons - 1)) <;> simp

theorem stepT_eq (c : Cfg) (ev : Ev) (s : St) :
    stepT c ev s = updT c { sol c ev s with finished := finOf c ev s } := by
  unfold stepT; rw [solCore_phOf, checkFinished_sol]


/-! ### The four ways a step can go -/

section
variable (c : Cfg) (ev : Ev) (s : St)

theorem stepT_fin (h : finOf c ev s = true) :
    stepT c ev s = { sol c ev s with finished := true } := by
  rw [stepT_eq, h]; simp [updT]

theorem stepT_jump (h : finOf c ev s = false)
    (hj : ((s.harvestFlag || endcOf c ev s) && !c.offSeason) = true)
    (hn : s.season < c.nSeasons - 1) :
    stepT c ev s = resetSeason { sol c ev s with finished := false, season := s.season + 1,
                                                  t := c.pl (s.season + 1).toNat } := by
  rw [stepT_eq, h]
  have e3 : (sol c ev s).harvestFlag = (s.harvestFlag || endcOf c ev s) := rfl
  have e2 : (sol c ev s).season = s.season := rfl
  simp only [updT, Bool.false_eq_true, if_false, e3, e2, hj, hn, if_true]

theorem stepT_new (h : finOf c ev s = false)
    (hj : ((s.harvestFlag || endcOf c ev s) && !c.offSeason) = false)
    (hn : s.season < c.nSeasons - 1) (hp : s.t + 1 = c.pl (s.season + 1).toNat) :
    stepT c ev s = resetSeason { sol c ev s with finished := false, season := s.season + 1,
                                                  t := s.t + 1 } := by
  rw [stepT_eq, h]
  have e3 : (sol c ev s).harvestFlag = (s.harvestFlag || endcOf c ev s) := rfl
  have e2 : (sol c ev s).season = s.season := rfl
  have e1 : (sol c ev s).t = s.t := rfl
  simp only [updT, Bool.false_eq_true, if_false, e3, e2, e1, hj, hn, hp, if_true]

theorem stepT_same (h : finOf c ev s = false)
    (hj : ((s.harvestFlag || endcOf c ev s) && !c.offSeason) = false)
    (hnp : ¬ (s.season < c.nSeasons - 1 ∧ s.t + 1 = c.pl (s.season + 1).toNat)) :
    stepT c ev s = { sol c ev s with finished := false, t := s.t + 1 } := by
  rw [stepT_eq, h]
  have e3 : (sol c ev s).harvestFlag = (s.harvestFlag || endcOf c ev s) := rfl
  have e2 : (sol c ev s).season = s.season := rfl
  have e1 : (sol c ev s).t = s.t := rfl
  simp only [updT, Bool.false_eq_true, if_false, e3, e2, e1, hj]
  by_cases hn : s.season < c.nSeasons - 1
  · have hp : ¬ (s.t + 1 = c.pl (s.season + 1).toNat) := fun hp => hnp ⟨hn, hp⟩
    simp only [hn, if_true, hp, if_false]
  · simp only [hn, if_false]

end

/-! ### Invariant of unfinished reachable states -/

/-- how the day about to be simulated (`t`, in season `season`) follows the last simulated one -/
def LinkTo (c : Cfg) (sm : List (Int × Nat)) (rows : List Row) (t : Nat) (season : Int) : Prop :=
  match rows with
  | [] => t = 0
  | a :: _ => t = a.t + 1 ∨
      (c.offSeason = false ∧ (a.season, a.t) ∈ sm ∧ season = a.season + 1 ∧ 0 ≤ season ∧
        t = c.pl season.toNat)

structure Live (c : Cfg) (s : St) : Prop where
  notFin : s.finished = false
  tn : s.t + 2 ≤ c.n
  slo : -1 ≤ s.season
  shi : s.season < c.nSeasons
  pre : s.season = -1 → s.harvestFlag = false
  cur : 0 ≤ s.season → c.pl s.season.toNat ≤ s.t
  nxt : s.season + 1 < c.nSeasons → s.t < c.pl (s.season + 1).toNat
  dapI : 0 ≤ s.season → s.mature = false → s.dead = false →
    (s.t : Int) ≤ c.hv s.season.toNat → s.dap + c.pl s.season.toNat = s.t
  lastS : s.season = c.nSeasons - 1 → s.harvestFlag = false
  offJ : c.offSeason = false → s.harvestFlag = false
  rowsB : ∀ r ∈ s.rowsRev, r.t < s.t ∧ r.season ≤ s.season
  sumB : ∀ e ∈ s.summaryRev, e.1 ≤ s.season
  flagI : s.harvestFlag = true ↔ ∃ r ∈ s.rowsRev, r.season = s.season ∧ r.endc = true
  link : LinkTo c s.summaryRev s.rowsRev s.t s.season

theorem live_init (h : WF c) {s : St} (hi : init c = .ok s) : Live c s := by
  obtain ⟨hn, hne, _⟩ := id h
  have hlen := h.len_pos
  unfold init at hi
  have e1 : ¬ c.n < 2 := by omega
  have e2 : c.planting.isEmpty = false := by
    cases hp : c.planting with
    | nil => exact absurd hp hne
    | cons a l => rfl
  simp only [e1, if_false, e2, Bool.false_eq_true] at hi
  cases hi
  rcases h.season0_cases with ⟨h0, hp0⟩ | ⟨h0, hp0⟩
  · refine ⟨rfl, by simpa using hn, by simp [h0], by simp [h0, nSeasons_eq]; omega, by simp [h0],
      by simp [h0, hp0], ?_, by simp [h0, hp0], by simp, by simp, by simp, by simp, by simp,
      by simp [LinkTo]⟩
    intro hlt
    simp only [h0, nSeasons_eq] at hlt ⊢
    have := h.pl_lt (i := 0) (j := 1) (by omega) (by omega)
    simpa [hp0] using this
  · refine ⟨rfl, by simpa using hn, by simp [h0], by simp [h0, nSeasons_eq]; omega, by simp [h0],
      by simp [h0], by simp [h0, hp0], by simp [h0], by simp, by simp, by simp, by simp, by simp,
      by simp [LinkTo]⟩


section
variable (c : Cfg) (ev : Ev) (s : St)
@[simp] theorem sol_t : (sol c ev s).t = s.t := rfl
@[simp] theorem sol_season : (sol c ev s).season = s.season := rfl
@[simp] theorem sol_finished : (sol c ev s).finished = s.finished := rfl
@[simp] theorem sol_flag : (sol c ev s).harvestFlag = (s.harvestFlag || endcOf c ev s) := rfl
@[simp] theorem sol_dap : (sol c ev s).dap = dapOf c s := rfl
@[simp] theorem sol_mature : (sol c ev s).mature = matOf c ev s := rfl
@[simp] theorem sol_dead : (sol c ev s).dead = deadOf c ev s := rfl
@[simp] theorem sol_rows : (sol c ev s).rowsRev = rowOf c ev s :: s.rowsRev := rfl
@[simp] theorem sol_summary : (sol c ev s).summaryRev =
    if endcOf c ev s && !s.harvestFlag then (s.season, s.t) :: s.summaryRev else s.summaryRev := rfl
@[simp] theorem rowOf_t : (rowOf c ev s).t = s.t := rfl
@[simp] theorem rowOf_season : (rowOf c ev s).season = s.season := rfl
@[simp] theorem rowOf_endc : (rowOf c ev s).endc = endcOf c ev s := rfl
@[simp] theorem rowOf_gs : (rowOf c ev s).gs = gsOf c s := rfl
@[simp] theorem rowOf_dap : (rowOf c ev s).dap = dapOf c s := rfl
end

theorem endcOf_neg {c : Cfg} {ev : Ev} {s : St} (h : s.season = -1) : endcOf c ev s = false := by
  simp [endcOf, h]

theorem mem_sol_summary {c : Cfg} {ev : Ev} {s : St} {e : Int × Nat}
    (he : e ∈ (sol c ev s).summaryRev) : e = (s.season, s.t) ∨ e ∈ s.summaryRev := by
  rw [sol_summary] at he
  split at he
  · simpa using he
  · exact Or.inr he

theorem mem_summary_sol {c : Cfg} {ev : Ev} {s : St} {e : Int × Nat}
    (he : e ∈ s.summaryRev) : e ∈ (sol c ev s).summaryRev := by
  rw [sol_summary]; split <;> simp [he]

/-- facts that `finOf = false` provides -/
theorem finOf_false {c : Cfg} {ev : Ev} {s : St} (h : finOf c ev s = false) :
    s.t + 3 ≤ c.n ∧ (s.season = c.nSeasons - 1 → (s.harvestFlag || endcOf c ev s) = false) := by
  unfold finOf at h
  simp only [Bool.or_eq_false_iff, Bool.and_eq_false_iff, decide_eq_false_iff_not] at h
  obtain ⟨h1, h2⟩ := h
  constructor
  · split at h1
    · omega
    · cases h1
  · intro hs
    rcases h2 with h2 | h2
    · simpa using h2
    · exact absurd hs h2

theorem live_same {ev : Ev} {s : St} (hL : Live c s) (hfin : finOf c ev s = false)
    (hj : ((s.harvestFlag || endcOf c ev s) && !c.offSeason) = false)
    (hnp : ¬ (s.season < c.nSeasons - 1 ∧ s.t + 1 = c.pl (s.season + 1).toNat)) :
    Live c { sol c ev s with finished := false, t := s.t + 1 } := by
  obtain ⟨ht3, hlast⟩ := finOf_false hfin
  constructor <;> dsimp only [sol_t, sol_season, sol_flag, sol_dap, sol_mature, sol_dead, sol_rows,
    sol_summary]
  · omega
  · exact hL.slo
  · exact hL.shi
  · intro h; simp only [Bool.or_eq_false_iff]
    exact ⟨hL.pre h, endcOf_neg h⟩
  · intro h; have := hL.cur h; omega
  · intro h
    have h1 := hL.nxt h
    have : ¬ (s.t + 1 = c.pl (s.season + 1).toNat) := fun e => hnp ⟨by omega, e⟩
    omega
  · intro h0 hm hd hh
    have hm' : s.mature = false := by unfold matOf at hm; simp at hm; exact hm.1
    have hd' : s.dead = false := by unfold deadOf at hd; simp at hd; exact hd.1
    have hc := hL.cur h0
    have hh' : (s.t : Int) ≤ c.hv s.season.toNat := by omega
    have hlt : (s.t : Int) < c.hv s.season.toNat := by omega
    have hpl : (c.pl s.season.toNat : Int) ≤ s.t := by omega
    have hg : gsOf c s = true := by
      unfold gsOf; simp only [hm', hd', hlt, hpl, h0, decide_true, Bool.not_false, Bool.and_true]
    have := hL.dapI h0 hm' hd' hh'
    simp only [dapOf, hg, if_true]; omega
  · intro h; exact hlast h
  · intro h
    rw [h] at hj
    simpa using hj
  · intro r hr
    simp only [List.mem_cons] at hr
    rcases hr with rfl | hr
    · simp
    · have := hL.rowsB r hr; omega
  · intro e he
    rcases mem_sol_summary he with rfl | he
    · simp
    · exact hL.sumB e he
  · simp only [List.mem_cons, Bool.or_eq_true]
    constructor
    · rintro (h | h)
      · obtain ⟨r, hr, h1, h2⟩ := hL.flagI.mp h
        exact ⟨r, Or.inr hr, h1, h2⟩
      · exact ⟨rowOf c ev s, Or.inl rfl, rfl, h⟩
    · rintro ⟨r, rfl | hr, h1, h2⟩
      · exact Or.inr h2
      · exact Or.inl (hL.flagI.mpr ⟨r, hr, h1, h2⟩)
  · simp [LinkTo]


theorem resetSeason_eq (s : St) : resetSeason s =
    { s with dap := 0, mature := false, dead := false, harvestFlag := false } := rfl

/-- common part of the two ways a new season starts -/
theorem live_newSeason (hw : WF c) {ev : Ev} {s : St} (hL : Live c s) (t' : Nat)
    (hn : s.season < c.nSeasons - 1) (hp : t' = c.pl (s.season + 1).toNat) (ht : s.t < t')
    (hlink : LinkTo c (sol c ev s).summaryRev (rowOf c ev s :: s.rowsRev) t' (s.season + 1)) :
    Live c (resetSeason { sol c ev s with finished := false, season := s.season + 1, t := t' }) := by
  have hslo := hL.slo
  have hk : (s.season + 1).toNat < c.planting.length := by rw [nSeasons_eq] at hn; omega
  rw [resetSeason_eq]
  constructor <;> dsimp only [sol_t, sol_season, sol_flag, sol_dap, sol_mature, sol_dead, sol_rows,
    sol_summary]
  · have := hw.pl_in hk; omega
  · omega
  · omega
  · intro _; trivial
  · intro _; omega
  · intro h
    have hk2 : (s.season + 1 + 1).toNat < c.planting.length := by rw [nSeasons_eq] at h; omega
    have := hw.pl_lt (i := (s.season + 1).toNat) (j := (s.season + 1 + 1).toNat) (by omega) hk2
    omega
  · intro _ _ _ _; omega
  · intro _; trivial
  · intro _; trivial
  · intro r hr
    simp only [List.mem_cons] at hr
    rcases hr with rfl | hr
    · simp; omega
    · have := hL.rowsB r hr; omega
  · intro e he
    rcases mem_sol_summary he with rfl | he
    · show s.season ≤ s.season + 1; omega
    · have := hL.sumB e he; omega
  · simp only [List.mem_cons, Bool.false_eq_true, false_iff, not_exists, not_and]
    rintro r (rfl | hr) h1
    · simp only [rowOf_season] at h1; omega
    · have := hL.rowsB r hr; omega
  · exact hlink

theorem live_new (hw : WF c) {ev : Ev} {s : St} (hL : Live c s)
    (hn : s.season < c.nSeasons - 1) (hp : s.t + 1 = c.pl (s.season + 1).toNat) :
    Live c (resetSeason { sol c ev s with finished := false, season := s.season + 1,
                                          t := s.t + 1 }) :=
  live_newSeason hw hL (s.t + 1) hn hp (by omega) (by simp [LinkTo])

theorem live_jump (hw : WF c) {ev : Ev} {s : St} (hL : Live c s)
    (hj : ((s.harvestFlag || endcOf c ev s) && !c.offSeason) = true)
    (hn : s.season < c.nSeasons - 1) :
    Live c (resetSeason { sol c ev s with finished := false, season := s.season + 1,
                                          t := c.pl (s.season + 1).toNat }) := by
  have hoff : c.offSeason = false := by
    cases h : c.offSeason with
    | false => rfl
    | true => simp [h] at hj
  have hflag := hL.offJ hoff
  have hend : endcOf c ev s = true := by simpa [hflag, hoff] using hj
  have hslo := hL.slo
  refine live_newSeason hw hL _ hn rfl (hL.nxt (by omega)) ?_
  right
  refine ⟨hoff, ?_, by simp, by omega, rfl⟩
  simp [hend, hflag]

/-- **Preservation**: a step from a live state that does not finish the run leads to a live
state, strictly later in time. -/
theorem live_step (hw : WF c) (ev : Ev) {s : St} (hL : Live c s)
    (hf : (stepT c ev s).finished = false) :
    Live c (stepT c ev s) ∧ s.t < (stepT c ev s).t := by
  cases hfin : finOf c ev s with
  | true => rw [stepT_fin c ev s hfin] at hf; cases hf
  | false =>
    obtain ⟨_, hlast⟩ := finOf_false hfin
    have hshi := hL.shi
    cases hj : ((s.harvestFlag || endcOf c ev s) && !c.offSeason) with
    | true =>
      by_cases hn : s.season < c.nSeasons - 1
      · rw [stepT_jump c ev s hfin hj hn]
        exact ⟨live_jump hw hL hj hn, hL.nxt (by omega)⟩
      · have hs : s.season = c.nSeasons - 1 := by omega
        have := hlast hs
        rw [this] at hj; simp at hj
    | false =>
      by_cases hnp : s.season < c.nSeasons - 1 ∧ s.t + 1 = c.pl (s.season + 1).toNat
      · rw [stepT_new c ev s hfin hj hnp.1 hnp.2]
        exact ⟨live_new hw hL hnp.1 hnp.2, by show s.t < s.t + 1; omega⟩
      · rw [stepT_same c ev s hfin hj hnp]
        exact ⟨live_same hL hfin hj hnp, by show s.t < s.t + 1; omega⟩

/-- **No Python exception**: from a live state `_perform_timestep` computes `stepT`. -/
theorem perform_eq (hw : WF c) (ev : Ev) {s : St} (hL : Live c s) :
    perform c ev s = .ok (stepT c ev s) := by
  unfold perform solution
  simp only [hL.notFin, Bool.false_eq_true, if_false]
  rw [seasonInfo_eq hw.2.2.1 hL.shi]
  simp only [bind, Except.bind, pure, Except.pure]
  rw [solCore_phOf, checkFinished_sol]
  rw [updateTime_eq hw (by exact hL.slo)]
  · rw [stepT_eq]
  · intro hf
    have hf : finOf c ev s = false := hf
    exact (finOf_false hf).1


/-! ### History invariant: what the theorems say about the tables written so far -/

/-- `t` is the first step of season `k` (among `rows`) at which the end-of-season condition
`crop_mature ∨ crop_dead ∨ harvest_dates[k] = step_end_time` holds -/
def FirstEnd (rows : List Row) (k : Int) (t : Nat) : Prop :=
  ∃ r ∈ rows, r.season = k ∧ r.t = t ∧ r.endc = true ∧
    ∀ r' ∈ rows, r'.season = k → r'.endc = true → t ≤ r'.t

/-- admissible succession of two simulated days `a`, `b`: the next calendar day, or — only
without off-season simulation, and only if `a` wrote the summary row of its season — the
planting day of the next season -/
def Adj (c : Cfg) (sm : List (Int × Nat)) (a b : Row) : Prop :=
  b.t = a.t + 1 ∨
    (c.offSeason = false ∧ (a.season, a.t) ∈ sm ∧ b.season = a.season + 1 ∧ 0 ≤ b.season ∧
      b.t = c.pl b.season.toNat)

/-- `R older newer` holds for every two neighbours of a newest-first list -/
def ConsecRev (R : Row → Row → Prop) : List Row → Prop
  | [] => True
  | [_] => True
  | b :: a :: rest => R a b ∧ ConsecRev R (a :: rest)

theorem ConsecRev.mono {R R' : Row → Row → Prop} (h : ∀ a b, R a b → R' a b) :
    ∀ l, ConsecRev R l → ConsecRev R' l
  | [], _ => trivial
  | [_], _ => trivial
  | _ :: a :: rest, ⟨h1, h2⟩ => ⟨h _ _ h1, ConsecRev.mono h (a :: rest) h2⟩

/-- days after planting of a row: `t − planting[season] + 1` in season, `0` outside -/
def DapOK (c : Cfg) (r : Row) : Prop :=
  (r.gs = true → 0 ≤ r.season ∧ c.pl r.season.toNat ≤ r.t ∧
      r.dap + c.pl r.season.toNat = r.t + 1) ∧
  (r.gs = false → r.dap = 0)

structure Hist (c : Cfg) (rows : List Row) (sm : List (Int × Nat)) : Prop where
  incr : rows.Pairwise (fun a b => b.t < a.t)
  dapOK : ∀ r ∈ rows, DapOK c r
  consec : ConsecRev (Adj c sm) rows
  first : ∀ r, rows.getLast? = some r → r.t = 0
  sumSound : ∀ e ∈ sm, FirstEnd rows e.1 e.2
  sumComplete : ∀ k t, FirstEnd rows k t → (k, t) ∈ sm
  sumSorted : sm.Pairwise (fun a b => b.1 < a.1)

theorem hist_nil (c : Cfg) : Hist c [] [] :=
  ⟨List.Pairwise.nil, by simp, trivial, by simp, by simp,
   by rintro k t ⟨r, hr, _⟩; simp at hr, List.Pairwise.nil⟩

theorem hist_sol {ev : Ev} {s : St} (hL : Live c s) (hH : Hist c s.rowsRev s.summaryRev) :
    Hist c (sol c ev s).rowsRev (sol c ev s).summaryRev := by
  have hsub : ∀ e, e ∈ s.summaryRev → e ∈ (sol c ev s).summaryRev := fun e => mem_summary_sol
  -- no earlier end-of-season row in this season iff the flag is still down
  have hnoflag : s.harvestFlag = false →
      ∀ r ∈ s.rowsRev, r.season = s.season → r.endc = true → False := by
    intro hf r hr h1 h2
    have := hL.flagI.mpr ⟨r, hr, h1, h2⟩
    rw [hf] at this; cases this
  constructor
  · -- rows strictly increasing in time
    rw [sol_rows, List.pairwise_cons]
    exact ⟨fun r hr => (hL.rowsB r hr).1, hH.incr⟩
  · -- dap
    intro r hr
    rw [sol_rows, List.mem_cons] at hr
    rcases hr with rfl | hr
    · constructor
      · intro hg
        simp only [rowOf_gs] at hg
        have hg' := hg
        unfold gsOf at hg'
        simp only [Bool.and_eq_true, decide_eq_true_eq, Bool.not_eq_eq_eq_not, Bool.not_true] at hg'
        obtain ⟨⟨⟨⟨h0, hp⟩, hh⟩, hm⟩, hd⟩ := hg'
        have := hL.dapI h0 hm hd (by omega)
        simp only [rowOf_season, rowOf_t, rowOf_dap, dapOf, hg, if_true]
        omega
      · intro hg
        simp only [rowOf_gs] at hg
        simp [dapOf, hg]
    · exact hH.dapOK r hr
  · -- neighbours
    rw [sol_rows]
    have hmono := ConsecRev.mono (R := Adj c s.summaryRev) (R' := Adj c (sol c ev s).summaryRev)
      (fun a b hab => by
        rcases hab with h | ⟨h1, h2, h3⟩
        · exact Or.inl h
        · exact Or.inr ⟨h1, hsub _ h2, h3⟩) _ hH.consec
    cases hrows : s.rowsRev with
    | nil => trivial
    | cons a rest =>
      rw [hrows] at hmono
      refine ⟨?_, hmono⟩
      have hl := hL.link
      rw [hrows] at hl
      rcases hl with h | ⟨h1, h2, h3, h4, h5⟩
      · exact Or.inl h
      · exact Or.inr ⟨h1, hsub _ h2, h3, h4, h5⟩
  · -- the first simulated day is day 0
    intro r hr
    rw [sol_rows] at hr
    cases hrows : s.rowsRev with
    | nil =>
      rw [hrows] at hr
      simp at hr; subst hr
      have hl := hL.link
      rw [hrows] at hl
      exact hl
    | cons a rest =>
      rw [hrows, List.getLast?_cons_cons] at hr
      exact hH.first r (by rw [hrows]; exact hr)
  · -- every summary row sits on the first end-of-season day of its season
    intro e he
    rcases mem_sol_summary he with rfl | he'
    · -- the row written now
      have hw : (endcOf c ev s && !s.harvestFlag) = true := by
        rw [sol_summary] at he
        by_cases hw : (endcOf c ev s && !s.harvestFlag) = true
        · exact hw
        · exfalso
          simp only [hw] at he
          obtain ⟨r, hr, h1, _, h3, _⟩ := hH.sumSound _ he
          have := (hL.rowsB r hr).1
          simp at hw
          have hfl := hL.flagI.mpr ⟨r, hr, h1, h3⟩
          -- the entry (season, t) would need a row with time t among the old rows
          obtain ⟨r2, hr2, _, h22, _⟩ := hH.sumSound _ he
          have := (hL.rowsB r2 hr2).1
          simp at h22; omega
      simp only [Bool.and_eq_true, Bool.not_eq_eq_eq_not, Bool.not_true] at hw
      refine ⟨rowOf c ev s, by simp, rfl, rfl, hw.1, ?_⟩
      intro r' hr' h1 h2
      rw [sol_rows, List.mem_cons] at hr'
      rcases hr' with rfl | hr'
      · simp
      · exact (hnoflag hw.2 r' hr' h1 h2).elim
    · obtain ⟨r, hr, h1, h2, h3, h4⟩ := hH.sumSound e he'
      refine ⟨r, by simp [hr], h1, h2, h3, ?_⟩
      intro r' hr' h1' h2'
      rw [sol_rows, List.mem_cons] at hr'
      rcases hr' with rfl | hr'
      · have := (hL.rowsB r hr).1
        simp only [rowOf_t]; omega
      · exact h4 r' hr' h1' h2'
  · -- every first end-of-season day has its summary row
    rintro k t ⟨r, hr, h1, h2, h3, h4⟩
    rw [sol_rows, List.mem_cons] at hr
    rcases hr with rfl | hr
    · simp only [rowOf_season, rowOf_t, rowOf_endc] at h1 h2 h3
      subst h1 h2
      have hfl : s.harvestFlag = false := by
        cases hf : s.harvestFlag with
        | false => rfl
        | true =>
          obtain ⟨r', hr', h1', h2'⟩ := hL.flagI.mp hf
          have := h4 r' (by simp [hr']) h1' h2'
          have := (hL.rowsB r' hr').1
          omega
      simp [h3, hfl]
    · apply hsub
      apply hH.sumComplete
      exact ⟨r, hr, h1, h2, h3, fun r' hr' => h4 r' (by simp [hr'])⟩
  · -- one row per season, in season order
    rw [sol_summary]
    split
    · rename_i hw
      simp only [Bool.and_eq_true, Bool.not_eq_eq_eq_not, Bool.not_true] at hw
      rw [List.pairwise_cons]
      refine ⟨?_, hH.sumSorted⟩
      intro e he
      have h1 := hL.sumB e he
      obtain ⟨r, hr, hr1, _, hr3, _⟩ := hH.sumSound e he
      have : e.1 ≠ s.season := fun heq => hnoflag hw.2 r hr (hr1.trans heq) hr3
      show e.1 < s.season
      omega
    · exact hH.sumSorted


/-! ### Reachable states -/

theorem stepT_finished (c : Cfg) (ev : Ev) (s : St) :
    (stepT c ev s).finished = finOf c ev s := by
  rw [stepT_eq]; unfold updT
  cases h : finOf c ev s
  · simp only [Bool.false_eq_true, if_false]
    repeat' split
    all_goals rfl
  · rfl

theorem stepT_rows (c : Cfg) (ev : Ev) (s : St) :
    (stepT c ev s).rowsRev = (sol c ev s).rowsRev := by
  rw [stepT_eq]; unfold updT
  repeat' split
  all_goals rfl

theorem stepT_summary (c : Cfg) (ev : Ev) (s : St) :
    (stepT c ev s).summaryRev = (sol c ev s).summaryRev := by
  rw [stepT_eq]; unfold updT
  repeat' split
  all_goals rfl

/-- what holds of the final state -/
structure Final (c : Cfg) (s : St) : Prop where
  tn : s.t + 2 ≤ c.n
  why : s.t + 2 = c.n ∨ (c.nSeasons - 1, s.t) ∈ s.summaryRev
  lastRow : ∃ r, s.rowsRev.head? = some r ∧ r.t = s.t
  lastOnly : ∀ th, (c.nSeasons - 1, th) ∈ s.summaryRev → th = s.t

/-- a live state has no summary row of the last season yet -/
theorem live_no_last {s : St} (hL : Live c s) (hH : Hist c s.rowsRev s.summaryRev) (th : Nat) :
    (c.nSeasons - 1, th) ∉ s.summaryRev := by
  intro he
  have h1 := hL.sumB _ he
  have h2 := hL.shi
  have hs : s.season = c.nSeasons - 1 := by simp only at h1; omega
  obtain ⟨r, hr, hr1, _, hr3, _⟩ := hH.sumSound _ he
  have := hL.flagI.mpr ⟨r, hr, by rw [hs]; exact hr1, hr3⟩
  rw [hL.lastS hs] at this; cases this

theorem final_step {ev : Ev} {s : St} (hL : Live c s) (hH : Hist c s.rowsRev s.summaryRev)
    (hfin : finOf c ev s = true) : Final c (stepT c ev s) := by
  rw [stepT_fin c ev s hfin]
  have htn := hL.tn
  constructor <;> dsimp only [sol_t, sol_rows, sol_summary]
  · exact htn
  · unfold finOf at hfin
    simp only [Bool.or_eq_true, Bool.and_eq_true, decide_eq_true_eq] at hfin
    rcases hfin with h | ⟨h1, h2⟩
    · left
      split at h
      · cases h
      · omega
    · right
      have hfl := hL.lastS h2
      have hend : endcOf c ev s = true := by simpa [hfl] using h1
      simp [hend, hfl, h2]
  · exact ⟨rowOf c ev s, rfl, rfl⟩
  · intro th he
    have he : (c.nSeasons - 1, th) ∈ (sol c ev s).summaryRev := he
    rcases mem_sol_summary he with h | h
    · exact (Prod.mk.inj h).2
    · exact (live_no_last hL hH th h).elim

/-- everything we know about a reachable state -/
structure Good (c : Cfg) (s : St) : Prop where
  hist : Hist c s.rowsRev s.summaryRev
  live : s.finished = false → Live c s
  final : s.finished = true → Final c s

/-- states reachable from the initial clock by successful `_perform_timestep`s -/
inductive Reach (c : Cfg) (ev : Ev) : St → Prop
  | init {s : St} : init c = .ok s → Reach c ev s
  | step {s s' : St} : Reach c ev s → perform c ev s = .ok s' → Reach c ev s'

theorem good_init (hw : WF c) {s : St} (hi : init c = .ok s) : Good c s := by
  have hL := live_init hw hi
  refine ⟨?_, fun _ => hL, fun h => by rw [hL.notFin] at h; cases h⟩
  unfold init at hi
  split at hi
  · cases hi
  · split at hi
    · cases hi
    · cases hi; exact hist_nil c

theorem good_stepT (hw : WF c) (ev : Ev) {s : St} (hL : Live c s)
    (hH : Hist c s.rowsRev s.summaryRev) : Good c (stepT c ev s) := by
  refine ⟨?_, fun h => (live_step hw ev hL h).1, fun h => ?_⟩
  · rw [stepT_rows, stepT_summary]; exact hist_sol hL hH
  · rw [stepT_finished] at h; exact final_step hL hH h

theorem good_perform (hw : WF c) {ev : Ev} {s s' : St} (hG : Good c s)
    (hp : perform c ev s = .ok s') : Good c s' := by
  have hL := hG.live (unfinished_of_perform_ok hp)
  rw [perform_eq hw ev hL] at hp
  cases hp
  exact good_stepT hw ev hL hG.hist

theorem good_of_reach (hw : WF c) {ev : Ev} {s : St} (hr : Reach c ev s) : Good c s := by
  induction hr with
  | init hi => exact good_init hw hi
  | step _ hp ih => exact good_perform hw ih hp


theorem reach_runSteps {ev : Ev} : ∀ (k : Nat) {s s' : St}, Reach c ev s →
    runSteps c ev k s = .ok s' → Reach c ev s' := by
  intro k
  induction k with
  | zero => intro s s' hr h; simp at h; subst h; exact hr
  | succ k ih =>
    intro s s' hr h
    rw [runSteps_succ] at h
    cases hp : perform c ev s with
    | error e => rw [hp] at h; cases h
    | ok s1 =>
      rw [hp] at h; simp only [Except.bind] at h
      split at h
      · cases h; exact Reach.step hr hp
      · exact ih (Reach.step hr hp) h

theorem reach_runCalls {ev : Ev} : ∀ (ks : List Nat) {s s' : St}, Reach c ev s →
    runCalls c ev ks s = .ok s' → Reach c ev s' := by
  intro ks
  induction ks with
  | nil => intro s s' hr h; simp [runCalls] at h; subst h; exact hr
  | cons k ks ih =>
    intro s s' hr h
    simp only [runCalls] at h
    cases h1 : runModel c ev k s with
    | error e => rw [h1] at h; cases h
    | ok s1 =>
      rw [h1] at h
      exact ih (reach_runSteps k hr (runModel_ok h1).2) h

theorem reach_runTillF {ev : Ev} : ∀ (f : Nat) {s s' : St}, Reach c ev s →
    runTillF c ev f s = .ok s' → Reach c ev s' := by
  intro f
  induction f with
  | zero =>
    intro s s' hr h
    unfold runTillF at h
    split at h
    · cases h; exact hr
    · cases h
  | succ f ih =>
    intro s s' hr h
    rw [runTillF_succ] at h
    split at h
    · cases h; exact hr
    · cases hp : perform c ev s with
      | error e => rw [hp] at h; cases h
      | ok s1 => rw [hp] at h; exact ih (Reach.step hr hp) h

/-! ### Termination (theorem 5) -/

theorem runTillF_ok (hw : WF c) (ev : Ev) : ∀ (f : Nat) (s : St), Good c s →
    (s.finished = false → c.n ≤ f + s.t + 1) →
    ∃ s', runTillF c ev f s = .ok s' ∧ s'.finished = true := by
  intro f
  induction f with
  | zero =>
    intro s hG hb
    cases hf : s.finished with
    | true => exact ⟨s, by simp [runTillF, hf], hf⟩
    | false => have := (hG.live hf).tn; have := hb hf; omega
  | succ f ih =>
    intro s hG hb
    cases hf : s.finished with
    | true => exact ⟨s, by simp [runTillF, hf], hf⟩
    | false =>
      have hL := hG.live hf
      rw [runTillF_succ]
      simp only [hf, Bool.false_eq_true, if_false, perform_eq hw ev hL, Except.bind]
      apply ih _ (good_stepT hw ev hL hG.hist)
      intro hf'
      have := (live_step hw ev hL hf').2
      have := hb hf
      omega

/-- **Termination.** For a well-formed configuration and every oracle, the run to termination
succeeds with fuel `n` (no Python exception, at most `n` daily steps) and ends finished. -/
theorem runTill_ok (hw : WF c) (ev : Ev) {s₀ : St} (hi : init c = .ok s₀) :
    ∃ s, runTill c ev s₀ = .ok s ∧ s.finished = true ∧ Reach c ev s := by
  have hG := good_init hw hi
  have ht : s₀.t = 0 := by
    unfold init at hi
    split at hi
    · cases hi
    · split at hi
      · cases hi
      · cases hi; rfl
  obtain ⟨s, h1, h2⟩ := runTillF_ok hw ev c.n s₀ hG (fun _ => by omega)
  exact ⟨s, h1, h2, reach_runTillF c.n (Reach.init hi) h1⟩

/-- the initial clock exists -/
theorem init_ok (hw : WF c) : ∃ s₀, init c = .ok s₀ := by
  obtain ⟨hn, hne, _⟩ := id hw
  unfold init
  have e1 : ¬ c.n < 2 := by omega
  have e2 : c.planting.isEmpty = false := by
    cases hp : c.planting with
    | nil => exact absurd hp hne
    | cons a l => rfl
  simp [e1, e2]

/-- a `while` loop that succeeds from an unfinished state is also what a single
`run_model(num_steps = fuel)` call computes -/
theorem runSteps_of_tillF {ev : Ev} : ∀ (f : Nat) (s s' : St), s.finished = false →
    runTillF c ev f s = .ok s' → runSteps c ev f s = .ok s' := by
  intro f
  induction f with
  | zero => intro s s' hs h; simp [runTillF, hs] at h
  | succ f ih =>
    intro s s' hs h
    rw [runTillF_succ] at h
    simp only [hs, Bool.false_eq_true, if_false] at h
    rw [runSteps_succ]
    cases hp : perform c ev s with
    | error e => rw [hp] at h; cases h
    | ok s1 =>
      rw [hp] at h; simp only [Except.bind] at h ⊢
      cases hf1 : s1.finished with
      | true =>
        simp only [if_true]
        have : runTillF c ev f s1 = .ok s1 := by cases f <;> simp [runTillF, hf1]
        rw [this] at h; exact h
      | false => simpa using ih s1 s' hf1 h

/-- **Theorem 5 (terminates)**: at most `n` `_perform_timestep`s finish the run:
`run_model(num_steps = n)` ends finished, in the same state as `run_model(till_termination)`. -/
theorem terminates (hw : WF c) (ev : Ev) {s₀ : St} (hi : init c = .ok s₀) :
    ∃ s, runSteps c ev c.n s₀ = .ok s ∧ runTill c ev s₀ = .ok s ∧ s.finished = true := by
  obtain ⟨s, h1, h2, _⟩ := runTill_ok hw ev hi
  have h0 := (live_init hw hi).notFin
  exact ⟨s, runSteps_of_tillF c.n s₀ s h0 h1, h1, h2⟩

/-! ### The theorems, for every reachable state -/

section main
variable {ev : Ev} {s : St}

/-- **Theorem 1 (`rows_increasing`)**: each day is simulated at most once, in chronological
order. -/
theorem rows_increasing (hw : WF c) (hr : Reach c ev s) :
    s.rows.Pairwise (fun a b => a.t < b.t) := by
  unfold St.rows; rw [List.pairwise_reverse]
  exact (good_of_reach hw hr).hist.incr

/-- **Theorem 2 (`dap_counts`)**: days after planting count 1, 2, 3, … from the planting date of
the row's season while the growing season lasts, and are 0 outside. -/
theorem dap_counts (hw : WF c) (hr : Reach c ev s) :
    ∀ r ∈ s.rows, r.dap = if r.gs then r.t + 1 - c.pl r.season.toNat else 0 := by
  intro r hmem
  have := (good_of_reach hw hr).hist.dapOK r (by simpa [St.rows] using hmem)
  obtain ⟨h1, h2⟩ := this
  cases hg : r.gs with
  | true => have := h1 hg; simp; omega
  | false => simpa using h2 hg

/-- a growing-season row lies in a season, on or after its planting date -/
theorem gs_in_season (hw : WF c) (hr : Reach c ev s) :
    ∀ r ∈ s.rows, r.gs = true → 0 ≤ r.season ∧ c.pl r.season.toNat ≤ r.t := by
  intro r hmem hg
  have := ((good_of_reach hw hr).hist.dapOK r (by simpa [St.rows] using hmem)).1 hg
  exact ⟨this.1, this.2.1⟩

theorem consecRev_getElem {R : Row → Row → Prop} : ∀ (l : List Row), ConsecRev R l →
    ∀ i (h : i + 1 < l.length), R l[i + 1] l[i]
  | [], _, i, h => by simp at h
  | [_], _, i, h => by simp at h
  | b :: a :: rest, ⟨h1, h2⟩, i, h => by
    cases i with
    | zero => exact h1
    | succ i => exact consecRev_getElem (a :: rest) h2 i (by simpa using h)

/-- **Theorem 3 (`offseason_no_skip`)**: two consecutive rows are consecutive days, except —
only without off-season simulation — that the row following the one that wrote its season's
summary row is the planting day of the next season. -/
theorem offseason_no_skip (hw : WF c) (hr : Reach c ev s) :
    ∀ i (h : i + 1 < s.rows.length), Adj c s.summary s.rows[i] s.rows[i + 1] := by
  intro i h
  have hc := (good_of_reach hw hr).hist.consec
  have hlen : s.rows.length = s.rowsRev.length := by simp [St.rows]
  have h' : (s.rowsRev.length - 1 - (i + 1)) + 1 < s.rowsRev.length := by omega
  have := consecRev_getElem s.rowsRev hc (s.rowsRev.length - 1 - (i + 1)) h'
  have e1 : s.rows[i + 1] = s.rowsRev[s.rowsRev.length - 1 - (i + 1)] := by
    simp only [St.rows]; rw [List.getElem_reverse]
  have e2 : s.rows[i] = s.rowsRev[s.rowsRev.length - 1 - (i + 1) + 1] := by
    simp only [St.rows]; rw [List.getElem_reverse]; congr 1; omega
  rw [e1, e2]
  rcases this with h1 | ⟨h1, h2, h3⟩
  · exact Or.inl h1
  · exact Or.inr ⟨h1, by simpa [St.summary] using h2, h3⟩

/-- the first simulated day is the start date -/
theorem first_day (hw : WF c) (hr : Reach c ev s) : ∀ r, s.rows.head? = some r → r.t = 0 := by
  intro r h
  apply (good_of_reach hw hr).hist.first r
  simpa [St.rows, List.head?_reverse] using h

/-- **Theorem 3, off-season simulated**: no day between the start date and the last simulated
day is skipped — the `i`-th row is day `i`. -/
theorem offseason_all_days (hw : WF c) (hr : Reach c ev s) (hoff : c.offSeason = true) :
    ∀ i (h : i < s.rows.length), s.rows[i].t = i := by
  intro i
  induction i with
  | zero =>
    intro h
    apply first_day hw hr
    rw [List.head?_eq_getElem?, List.getElem?_eq_getElem h]
  | succ i ih =>
    intro h
    have h0 := ih (by omega)
    rcases offseason_no_skip hw hr i h with h1 | ⟨h1, _⟩
    · omega
    · rw [hoff] at h1; cases h1

theorem firstEnd_reverse (l : List Row) (k : Int) (t : Nat) :
    FirstEnd l.reverse k t ↔ FirstEnd l k t := by
  simp [FirstEnd, List.mem_reverse]

/-- **Theorem 4 (`season_ends_first`)**: the summary has a row `(k, t)` iff `t` is the first
simulated step of season `k` at which the crop is mature or dead or the next day is the latest
harvest date. -/
theorem season_ends_first (hw : WF c) (hr : Reach c ev s) (k : Int) (t : Nat) :
    (k, t) ∈ s.summary ↔ FirstEnd s.rows k t := by
  have hH := (good_of_reach hw hr).hist
  unfold St.summary St.rows
  rw [firstEnd_reverse, List.mem_reverse]
  exact ⟨fun h => hH.sumSound _ h, hH.sumComplete k t⟩

/-- **Theorem 4 (`summary_sorted`)**: summary rows are in strictly increasing season order … -/
theorem summary_sorted (hw : WF c) (hr : Reach c ev s) :
    s.summary.Pairwise (fun a b => a.1 < b.1) := by
  unfold St.summary; rw [List.pairwise_reverse]
  exact (good_of_reach hw hr).hist.sumSorted

/-- … hence at most one per season. -/
theorem summary_unique (hw : WF c) (hr : Reach c ev s) {k : Int} {t1 t2 : Nat}
    (h1 : (k, t1) ∈ s.summary) (h2 : (k, t2) ∈ s.summary) : t1 = t2 := by
  obtain ⟨r1, hr1, a1, b1, c1, d1⟩ := (season_ends_first hw hr k t1).mp h1
  obtain ⟨r2, hr2, a2, b2, c2, d2⟩ := (season_ends_first hw hr k t2).mp h2
  have := d1 r2 hr2 a2 c2
  have := d2 r1 hr1 a1 c1
  omega

theorem upsert_fresh : ∀ (tbl : List (Int × Nat)) (e : Int × Nat), (∀ x ∈ tbl, x.1 ≠ e.1) →
    upsert tbl e = tbl ++ [e]
  | [], _, _ => rfl
  | x :: xs, e, h => by
    have hx : x.1 ≠ e.1 := h x (by simp)
    simp only [upsert, hx, if_false, List.cons_append]
    rw [upsert_fresh xs e (fun y hy => h y (by simp [hy]))]

theorem foldl_upsert_sorted : ∀ (l acc : List (Int × Nat)),
    (acc ++ l).Pairwise (fun a b => a.1 < b.1) → l.foldl upsert acc = acc ++ l
  | [], acc, _ => by simp
  | e :: l, acc, h => by
    have hfresh : ∀ x ∈ acc, x.1 ≠ e.1 := by
      intro x hx
      have := (List.pairwise_append.mp h).2.2 x hx e (by simp)
      omega
    simp only [List.foldl_cons]
    rw [upsert_fresh acc e hfresh, foldl_upsert_sorted l (acc ++ [e]) (by simpa using h)]
    simp

/-- The `final_stats.loc[season] = …` writes never overwrite a row: the table is the list of
writes (C06: exactly one row per season that reached harvest, in season order). -/
theorem finalStats_eq (hw : WF c) (hr : Reach c ev s) : finalStats s.summary = s.summary := by
  unfold finalStats
  simpa using foldl_upsert_sorted s.summary [] (by simpa using summary_sorted hw hr)

/-- **Theorem 5 (where the run ends)**: the last simulated day `t` of a finished run satisfies
`t ≤ n − 2`; it is the day before the end date (`t = n − 2`) unless it is the day the last
season's summary row was written; it is the `t` of the last row. -/
theorem finished_state (hw : WF c) (hr : Reach c ev s) (hf : s.finished = true) :
    s.t + 2 ≤ c.n ∧ (s.t + 2 = c.n ∨ (c.nSeasons - 1, s.t) ∈ s.summary) ∧
    (∃ r, s.rows.getLast? = some r ∧ r.t = s.t) := by
  have hF := (good_of_reach hw hr).final hf
  refine ⟨hF.tn, ?_, ?_⟩
  · rcases hF.why with h | h
    · exact Or.inl h
    · exact Or.inr (by simpa [St.summary] using h)
  · simpa [St.rows, List.getLast?_reverse] using hF.lastRow

/-- the summary row of the last season, once written, ends the run on that very day -/
theorem last_season_ends_run (hw : WF c) (hr : Reach c ev s) {th : Nat}
    (h : (c.nSeasons - 1, th) ∈ s.summary) : s.finished = true ∧ th = s.t := by
  have hG := good_of_reach hw hr
  have h' : (c.nSeasons - 1, th) ∈ s.summaryRev := by simpa [St.summary] using h
  cases hf : s.finished with
  | false => exact (live_no_last (hG.live hf) hG.hist th h').elim
  | true => exact ⟨rfl, (hG.final hf).lastOnly th h'⟩

/-- an unfinished model is at a day `t ≤ n − 2` strictly after all rows written so far -/
theorem unfinished_state (hw : WF c) (hr : Reach c ev s) (hf : s.finished = false) :
    s.t + 2 ≤ c.n ∧ ∀ r ∈ s.rows, r.t < s.t ∧ r.season ≤ s.season := by
  have hL := (good_of_reach hw hr).live hf
  exact ⟨hL.tn, fun r hmem => hL.rowsB r (by simpa [St.rows] using hmem)⟩

/-- no Python exception on the way: from every unfinished reachable state the next
`_perform_timestep` succeeds -/
theorem perform_ok (hw : WF c) (hr : Reach c ev s) (hf : s.finished = false) :
    ∃ s', perform c ev s = .ok s' :=
  ⟨_, perform_eq hw ev ((good_of_reach hw hr).live hf)⟩

end main

/-- **C09 (`calls_eq_till`)**: for a well-formed configuration and every oracle, any sequence of
`run_model(num_steps=kᵢ)` calls that succeeds and leaves the model finished produces exactly the
state (clock, flags, daily rows, summary) of one `run_model(till_termination=True)`. -/
theorem calls_eq_till (hw : WF c) (ev : Ev) {s₀ s : St} (hi : init c = .ok s₀) {ks : List Nat}
    (h : runCalls c ev ks s₀ = .ok s) (hf : s.finished = true) :
    runTill c ev s₀ = .ok s := by
  obtain ⟨sT, hT, _, _⟩ := runTill_ok hw ev hi
  rw [calls_eq_till_of_ok hT h hf]; exact hT

/-- … and such sequences exist for every way of cutting the run: calls with positive step
counts never raise before the model is finished. -/
theorem runModel_ok_of_unfinished (hw : WF c) (ev : Ev) {s : St} (hr : Reach c ev s)
    (hf : s.finished = false) (k : Nat) (hk : 1 ≤ k) :
    ∃ s', runModel c ev k s = .ok s' ∧ Reach c ev s' := by
  have : ∀ (k : Nat) (s : St), Reach c ev s → s.finished = false →
      ∃ s', runSteps c ev k s = .ok s' := by
    intro k
    induction k with
    | zero => intro s _ _; exact ⟨s, rfl⟩
    | succ k ih =>
      intro s hr hf
      obtain ⟨s1, hp⟩ := perform_ok hw hr hf
      rw [runSteps_succ, hp]
      simp only [Except.bind]
      cases hf1 : s1.finished with
      | true => exact ⟨s1, by simp⟩
      | false => simpa using ih s1 (Reach.step hr hp) hf1
  obtain ⟨s', h⟩ := this k s hr hf
  have e : ¬ k < 1 := by omega
  exact ⟨s', by simp [runModel, e, h], reach_runSteps k hr h⟩


/-- a season that has some end-of-season day has a first one -/
theorem exists_firstEnd (k : Int) : ∀ (rows : List Row),
    (∃ r ∈ rows, r.season = k ∧ r.endc = true) → ∃ t, FirstEnd rows k t
  | [], h => by obtain ⟨r, hr, _⟩ := h; simp at hr
  | r :: l, _ => by
    by_cases hl : ∃ r' ∈ l, r'.season = k ∧ r'.endc = true
    · obtain ⟨t0, r0, hr0, a0, b0, c0, d0⟩ := exists_firstEnd k l hl
      by_cases hr : r.season = k ∧ r.endc = true ∧ r.t < t0
      · refine ⟨r.t, r, by simp, hr.1, rfl, hr.2.1, ?_⟩
        intro r' hr' h1 h2
        rcases List.mem_cons.mp hr' with rfl | hr'
        · omega
        · have := d0 r' hr' h1 h2; omega
      · refine ⟨t0, r0, by simp [hr0], a0, b0, c0, ?_⟩
        intro r' hr' h1 h2
        rcases List.mem_cons.mp hr' with rfl | hr'
        · have : ¬ r'.t < t0 := fun h => hr ⟨h1, h2, h⟩
          omega
        · exact d0 r' hr' h1 h2
    · rename_i h
      obtain ⟨r0, hr0, a0, c0⟩ := h
      rcases List.mem_cons.mp hr0 with rfl | hr0
      · refine ⟨r0.t, r0, by simp, a0, rfl, c0, ?_⟩
        intro r' hr' h1 h2
        rcases List.mem_cons.mp hr' with rfl | hr'
        · omega
        · exact (hl ⟨r', hr', h1, h2⟩).elim
      · exact (hl ⟨r0, hr0, a0, c0⟩).elim

/-- **C06, summary part**: the summary has a row for season `k` iff some simulated day of
season `k` met the end-of-season condition (the season "reached harvest"); by `summary_sorted`
/ `summary_unique` there is exactly one such row and the rows are in season order, and by
`season_ends_first` its step is the first such day. -/
theorem summary_iff_reached_harvest (hw : WF c) {ev : Ev} {s : St} (hr : Reach c ev s) (k : Int) :
    (∃ t, (k, t) ∈ s.summary) ↔ ∃ r ∈ s.rows, r.season = k ∧ r.endc = true := by
  constructor
  · rintro ⟨t, h⟩
    obtain ⟨r, hr1, a, _, c1, _⟩ := (season_ends_first hw hr k t).mp h
    exact ⟨r, hr1, a, c1⟩
  · intro h
    obtain ⟨t, ht⟩ := exists_firstEnd k s.rows h
    exact ⟨t, (season_ends_first hw hr k t).mpr ht⟩

/-- what the ghost column `endc` of a row means -/
theorem endc_meaning (hw : WF c) {ev : Ev} {s : St} (hr : Reach c ev s) :
    ∀ r ∈ s.rows, r.endc = (decide (0 ≤ r.season) &&
      (r.mature || r.dead || decide (c.hv r.season.toNat = (r.t : Int) + 1))) := by
  induction hr with
  | init hi =>
    unfold init at hi
    split at hi
    · cases hi
    · split at hi
      · cases hi
      · cases hi; simp [St.rows]
  | @step s s' hr' hp ih =>
    have hL := (good_of_reach hw hr').live (unfinished_of_perform_ok hp)
    rw [perform_eq hw ev hL] at hp
    cases hp
    intro r hmem
    simp only [St.rows, List.mem_reverse, stepT_rows, sol_rows, List.mem_cons] at hmem
    rcases hmem with rfl | hmem
    · rfl
    · exact ih r (by simpa [St.rows] using hmem)


/-! ### Harvest dates (needs `Valid`) -/

/-- extra invariant of unfinished states under `Valid` -/
structure LiveH (c : Cfg) (s : St) : Prop where
  flagSum : s.harvestFlag = true → ∃ t, (s.season, t) ∈ s.summaryRev
  dateFlag : 0 ≤ s.season → c.hv s.season.toNat ≤ s.t → s.harvestFlag = true

/-- holds of every reachable state under `Valid` -/
structure HistH (c : Cfg) (s : St) : Prop where
  seen : ∀ k : Nat, (k : Int) < s.season → ∃ t, ((k : Int), t) ∈ s.summaryRev
  sumDate : ∀ e ∈ s.summaryRev, (e.2 : Int) + 1 ≤ c.hv e.1.toNat

theorem sol_flagSum {ev : Ev} {s : St} (hH : LiveH c s)
    (h : (s.harvestFlag || endcOf c ev s) = true) :
    ∃ t, (s.season, t) ∈ (sol c ev s).summaryRev := by
  cases hf : s.harvestFlag with
  | true =>
    obtain ⟨t, ht⟩ := hH.flagSum hf
    exact ⟨t, mem_summary_sol ht⟩
  | false =>
    rw [hf] at h
    simp only [Bool.false_or] at h
    exact ⟨s.t, by simp [h, hf]⟩

theorem sol_dateFlag {ev : Ev} {s : St} (hH : LiveH c s) (h0 : 0 ≤ s.season)
    (h : c.hv s.season.toNat ≤ (s.t : Int) + 1) : (s.harvestFlag || endcOf c ev s) = true := by
  by_cases h1 : c.hv s.season.toNat ≤ s.t
  · simp [hH.dateFlag h0 h1]
  · have : c.hv s.season.toNat = (s.t : Int) + 1 := by omega
    simp [endcOf, h0, this]

theorem sol_sumDate {ev : Ev} {s : St} (hH : LiveH c s) (hS : HistH c s) :
    ∀ e ∈ (sol c ev s).summaryRev, (e.2 : Int) + 1 ≤ c.hv e.1.toNat := by
  intro e he
  rw [sol_summary] at he
  split at he
  · rename_i hw
    simp only [Bool.and_eq_true, Bool.not_eq_eq_eq_not, Bool.not_true] at hw
    rcases List.mem_cons.mp he with rfl | he
    · have h0 : 0 ≤ s.season := by
        have := hw.1; unfold endcOf at this; simp at this; exact this.1
      by_cases h1 : c.hv s.season.toNat ≤ s.t
      · have := hH.dateFlag h0 h1; rw [hw.2] at this; cases this
      · show (s.t : Int) + 1 ≤ c.hv s.season.toNat; omega
    · exact hS.sumDate e he
  · exact hS.sumDate e he

theorem histH_stepT (hv : Valid c) (ev : Ev) {s : St} (hL : Live c s) (hH : LiveH c s)
    (hS : HistH c s) :
    HistH c (stepT c ev s) ∧ ((stepT c ev s).finished = false → LiveH c (stepT c ev s)) := by
  have hw := hv.1
  have hsum : ∀ e ∈ (stepT c ev s).summaryRev, (e.2 : Int) + 1 ≤ c.hv e.1.toNat := by
    rw [stepT_summary]; exact sol_sumDate hH hS
  have hseenOld : ∀ k : Nat, (k : Int) < s.season → ∃ t, ((k : Int), t) ∈ (sol c ev s).summaryRev :=
    fun k hk => by obtain ⟨t, ht⟩ := hS.seen k hk; exact ⟨t, mem_summary_sol ht⟩
  -- the season just left has its summary row
  have hseenNew : (s.harvestFlag || endcOf c ev s) = true → ∀ k : Nat, (k : Int) < s.season + 1 →
      ∃ t, ((k : Int), t) ∈ (sol c ev s).summaryRev := by
    intro hfl k hk
    by_cases hk' : (k : Int) < s.season
    · exact hseenOld k hk'
    · have : s.season = k := by omega
      rw [← this]; exact sol_flagSum hH hfl
  have hshi := hL.shi
  have hslo := hL.slo
  cases hfin : finOf c ev s with
  | true =>
    rw [stepT_fin c ev s hfin]
    exact ⟨⟨hseenOld, by simpa [stepT_fin c ev s hfin] using hsum⟩, fun h => by cases h⟩
  | false =>
    obtain ⟨_, hlast⟩ := finOf_false hfin
    cases hj : ((s.harvestFlag || endcOf c ev s) && !c.offSeason) with
    | true =>
      by_cases hn : s.season < c.nSeasons - 1
      · have hfl : (s.harvestFlag || endcOf c ev s) = true := by
          simp only [Bool.and_eq_true] at hj; exact hj.1
        have hk1 : (s.season + 1).toNat < c.planting.length := by rw [nSeasons_eq] at hn; omega
        have hlt := hv.2.1 _ hk1
        have hsum' := hsum
        rw [stepT_jump c ev s hfin hj hn] at hsum' ⊢
        refine ⟨⟨hseenNew hfl, hsum'⟩, fun _ => ⟨fun h => (by cases h), ?_⟩⟩
        intro _ hle
        have hle : c.hv (s.season + 1).toNat ≤ (c.pl (s.season + 1).toNat : Int) := hle
        omega
      · have hs : s.season = c.nSeasons - 1 := by omega
        have := hlast hs
        rw [this] at hj; simp at hj
    | false =>
      by_cases hnp : s.season < c.nSeasons - 1 ∧ s.t + 1 = c.pl (s.season + 1).toNat
      · have hk1 : (s.season + 1).toNat < c.planting.length := by
          have := hnp.1; rw [nSeasons_eq] at this; omega
        have hlt := hv.2.1 _ hk1
        have hsum' := hsum
        rw [stepT_new c ev s hfin hj hnp.1 hnp.2] at hsum' ⊢
        refine ⟨⟨?_, hsum'⟩, fun _ => ⟨fun h => (by cases h), ?_⟩⟩
        · intro k hk
          have hk : (k : Int) < s.season + 1 := hk
          by_cases hk' : (k : Int) < s.season
          · exact hseenOld k hk'
          · have h0 : 0 ≤ s.season := by omega
            have hkl : s.season.toNat < c.planting.length - 1 := by omega
            have hle := hv.2.2 _ hkl
            have e : s.season.toNat + 1 = (s.season + 1).toNat := by omega
            rw [e] at hle
            have hfl := sol_dateFlag (ev := ev) hH h0 (by have := hnp.2; omega)
            exact hseenNew hfl k hk
        · intro _ hle
          have hle : c.hv (s.season + 1).toNat ≤ ((s.t + 1 : Nat) : Int) := hle
          have := hnp.2
          omega
      · have hsum' := hsum
        rw [stepT_same c ev s hfin hj hnp] at hsum' ⊢
        refine ⟨⟨hseenOld, hsum'⟩, fun _ => ⟨fun h => sol_flagSum hH h, ?_⟩⟩
        intro h0 hle
        have hle : c.hv s.season.toNat ≤ ((s.t + 1 : Nat) : Int) := hle
        exact sol_dateFlag hH h0 (by omega)

theorem histH_of_reach (hv : Valid c) {ev : Ev} {s : St} (hr : Reach c ev s) :
    HistH c s ∧ (s.finished = false → LiveH c s) := by
  induction hr with
  | init hi =>
    have hL := live_init hv.1 hi
    unfold init at hi
    split at hi
    · cases hi
    · split at hi
      · cases hi
      · cases hi
        rcases hv.1.season0_cases with ⟨h0, hp0⟩ | ⟨h0, _⟩
        · have hl := hv.2.1 0 hv.1.len_pos
          refine ⟨⟨by simp [h0], by simp⟩, fun _ => ⟨by simp, ?_⟩⟩
          intro _ hle
          simp only [h0] at hle
          simp at hle
          omega
        · exact ⟨⟨by simp [h0], by simp⟩, fun _ => ⟨by simp, by simp [h0]⟩⟩
  | @step s s' hr' hp ih =>
    have hf := unfinished_of_perform_ok hp
    have hL := (good_of_reach hv.1 hr').live hf
    rw [perform_eq hv.1 ev hL] at hp
    cases hp
    exact histH_stepT hv ev hL (ih.2 hf) ih.1

/-- **Every season that has been left has its summary row** (with `Valid`: each season's latest
harvest date lies after its planting date and not after the next planting date). -/
theorem season_harvested (hv : Valid c) {ev : Ev} {s : St} (hr : Reach c ev s) (k : Nat)
    (hk : (k : Int) < s.season) : ∃ t, ((k : Int), t) ∈ s.summary := by
  obtain ⟨t, ht⟩ := (histH_of_reach hv hr).1.seen k hk
  exact ⟨t, by simpa [St.summary] using ht⟩

/-- **A season ends at the latest on the day before its latest harvest date.** -/
theorem harvest_by_latest_date (hv : Valid c) {ev : Ev} {s : St} (hr : Reach c ev s)
    {k : Int} {t : Nat} (h : (k, t) ∈ s.summary) : (t : Int) + 1 ≤ c.hv k.toNat := by
  exact (histH_of_reach hv hr).1.sumDate (k, t) (by simpa [St.summary] using h)


/-! ### The latest harvest date is not a growing day (needs only `WF`)

`solution_single_time_step` tests `harvest_date > step_start_time` (repository commit d260679;
before it the test was `>=`, and with the off-season simulated the harvest date itself was still
a growing day of a season whose summary row had already been written). -/

/-- what the ghost column `gs` of a row means: the growing-season test of the day, in closed form
(in a season, on or after its planting date, **strictly before its latest harvest date**, crop
neither mature nor dead at the start of the day — the last two are what `mature`/`dead` of the
*previous* row of the season say, so they are not repeated here) -/
theorem gs_meaning (hw : WF c) {ev : Ev} {s : St} (hr : Reach c ev s) :
    ∀ r ∈ s.rows, r.gs = true →
      0 ≤ r.season ∧ c.pl r.season.toNat ≤ r.t ∧ (r.t : Int) + 1 ≤ c.hv r.season.toNat := by
  induction hr with
  | init hi =>
    unfold init at hi
    split at hi
    · cases hi
    · split at hi
      · cases hi
      · cases hi; simp [St.rows]
  | @step s s' hr' hp ih =>
    have hL := (good_of_reach hw hr').live (unfinished_of_perform_ok hp)
    rw [perform_eq hw ev hL] at hp
    cases hp
    intro r hmem hg
    simp only [St.rows, List.mem_reverse, stepT_rows, sol_rows, List.mem_cons] at hmem
    rcases hmem with rfl | hmem
    · simp only [rowOf_gs] at hg
      unfold gsOf at hg
      simp only [Bool.and_eq_true, decide_eq_true_eq, Bool.not_eq_eq_eq_not, Bool.not_true] at hg
      obtain ⟨⟨⟨⟨h0, hp⟩, hh⟩, _⟩, _⟩ := hg
      simp only [rowOf_season, rowOf_t]
      exact ⟨h0, by omega, by omega⟩
    · exact ih r (by simpa [St.rows] using hmem) hg

/-- **A growing day lies strictly before the season's latest harvest date**: a row with
`growing_season = True` has `t + 1 ≤ harvest[season]`. -/
theorem gs_before_harvest (hw : WF c) {ev : Ev} {s : St} (hr : Reach c ev s) :
    ∀ r ∈ s.rows, r.gs = true → (r.t : Int) + 1 ≤ c.hv r.season.toNat :=
  fun r hmem hg => (gs_meaning hw hr r hmem hg).2.2

/-- **No growing day on or after the latest harvest date**: a simulated day of season `k ≥ 0` on or
after `harvest[k]` has `growing_season = False` and `dap = 0`. -/
theorem no_growing_day_from_harvest_date (hw : WF c) {ev : Ev} {s : St} (hr : Reach c ev s) :
    ∀ r ∈ s.rows, c.hv r.season.toNat ≤ (r.t : Int) → r.gs = false ∧ r.dap = 0 := by
  intro r hmem hle
  have hg : r.gs = false := by
    cases hg : r.gs with
    | false => rfl
    | true => have := gs_before_harvest hw hr r hmem hg; omega
  refine ⟨hg, ?_⟩
  have := dap_counts hw hr r hmem
  simpa [hg] using this

/-- why the harvest flag of the current season is up: the crop is mature or dead, or the day about
to be simulated is on or after the latest harvest date — in each case that day is not a growing
day -/
structure LiveG (c : Cfg) (s : St) : Prop where
  flagWhy : s.harvestFlag = true →
    s.mature = true ∨ s.dead = true ∨ c.hv s.season.toNat ≤ (s.t : Int)

/-- in a newest-first list of rows: after a row of a season that met the end-of-season condition
no later row of that season is a growing day -/
def NoGsAfterEnd (rows : List Row) : Prop :=
  ∀ r ∈ rows, ∀ r' ∈ rows, r.season = r'.season → r.endc = true → r.t < r'.t → r'.gs = false

theorem gsOf_false_of_flag {s : St} (hG : LiveG c s) (hf : s.harvestFlag = true) :
    gsOf c s = false := by
  unfold gsOf
  rcases hG.flagWhy hf with h | h | h
  · simp [h]
  · simp [h]
  · have : ¬ ((s.t : Int) < c.hv s.season.toNat) := by omega
    simp [this]

theorem sol_flagWhy {ev : Ev} {s : St} (hG : LiveG c s)
    (h : (s.harvestFlag || endcOf c ev s) = true) :
    matOf c ev s = true ∨ deadOf c ev s = true ∨ c.hv s.season.toNat ≤ (s.t : Int) + 1 := by
  cases hf : s.harvestFlag with
  | true =>
    rcases hG.flagWhy hf with h1 | h1 | h1
    · left; simp [matOf, h1]
    · right; left; simp [deadOf, h1]
    · right; right; omega
  | false =>
    rw [hf] at h
    simp only [Bool.false_or] at h
    unfold endcOf at h
    simp only [Bool.and_eq_true, Bool.or_eq_true, decide_eq_true_eq] at h
    rcases h.2 with (h1 | h1) | h1
    · exact Or.inl h1
    · exact Or.inr (Or.inl h1)
    · right; right; omega

theorem noGs_sol {ev : Ev} {s : St} (hL : Live c s) (hG : LiveG c s)
    (hN : NoGsAfterEnd s.rowsRev) : NoGsAfterEnd (sol c ev s).rowsRev := by
  intro r hr r' hr' hs he ht
  rw [sol_rows, List.mem_cons] at hr hr'
  rcases hr' with rfl | hr'
  · rcases hr with rfl | hr
    · exact absurd ht (Nat.lt_irrefl _)
    · -- an earlier row of the current season met the end condition: the flag is up
      have hf := hL.flagI.mpr ⟨r, hr, hs, he⟩
      simpa using gsOf_false_of_flag hG hf
  · rcases hr with rfl | hr
    · have := (hL.rowsB r' hr').1
      simp only [rowOf_t] at ht; omega
    · exact hN r hr r' hr' hs he ht

theorem histG_stepT (_hw : WF c) (ev : Ev) {s : St} (hL : Live c s) (hG : LiveG c s)
    (hN : NoGsAfterEnd s.rowsRev) :
    NoGsAfterEnd (stepT c ev s).rowsRev ∧
      ((stepT c ev s).finished = false → LiveG c (stepT c ev s)) := by
  refine ⟨by rw [stepT_rows]; exact noGs_sol hL hG hN, fun hf => ?_⟩
  cases hfin : finOf c ev s with
  | true => rw [stepT_fin c ev s hfin] at hf; cases hf
  | false =>
    obtain ⟨_, hlast⟩ := finOf_false hfin
    have hshi := hL.shi
    cases hj : ((s.harvestFlag || endcOf c ev s) && !c.offSeason) with
    | true =>
      by_cases hn : s.season < c.nSeasons - 1
      · rw [stepT_jump c ev s hfin hj hn]
        exact ⟨fun h => by cases h⟩
      · have hs : s.season = c.nSeasons - 1 := by omega
        have := hlast hs
        rw [this] at hj; simp at hj
    | false =>
      by_cases hnp : s.season < c.nSeasons - 1 ∧ s.t + 1 = c.pl (s.season + 1).toNat
      · rw [stepT_new c ev s hfin hj hnp.1 hnp.2]
        exact ⟨fun h => by cases h⟩
      · rw [stepT_same c ev s hfin hj hnp]
        refine ⟨fun h => ?_⟩
        have h : (s.harvestFlag || endcOf c ev s) = true := h
        rcases sol_flagWhy hG h with h1 | h1 | h1
        · exact Or.inl h1
        · exact Or.inr (Or.inl h1)
        · right; right
          show c.hv s.season.toNat ≤ ((s.t + 1 : Nat) : Int)
          omega

theorem histG_of_reach (hw : WF c) {ev : Ev} {s : St} (hr : Reach c ev s) :
    NoGsAfterEnd s.rowsRev ∧ (s.finished = false → LiveG c s) := by
  induction hr with
  | init hi =>
    unfold init at hi
    split at hi
    · cases hi
    · split at hi
      · cases hi
      · cases hi
        exact ⟨fun r hr => (by cases hr), fun _ => ⟨fun h => (by cases h)⟩⟩
  | @step s s' hr' hp ih =>
    have hf := unfinished_of_perform_ok hp
    have hL := (good_of_reach hw hr').live hf
    rw [perform_eq hw ev hL] at hp
    cases hp
    exact histG_stepT hw ev hL (ih.2 hf) ih.1

/-- **While the harvest flag is up the day about to be simulated is not a growing day** (every
unfinished reachable state). -/
theorem no_growing_day_while_flag (hw : WF c) {ev : Ev} {s : St} (hr : Reach c ev s)
    (hf : s.finished = false) (hfl : s.harvestFlag = true) : gsOf c s = false :=
  gsOf_false_of_flag ((histG_of_reach hw hr).2 hf) hfl

/-- **After a day of a season met the end-of-season condition, no later simulated day of that
season is a growing day** (so `dap = 0` on it). -/
theorem no_growing_day_after_end (hw : WF c) {ev : Ev} {s : St} (hr : Reach c ev s) :
    ∀ r ∈ s.rows, ∀ r' ∈ s.rows, r.season = r'.season → r.endc = true → r.t < r'.t →
      r'.gs = false ∧ r'.dap = 0 := by
  intro r hm r' hm' hs he ht
  have hg : r'.gs = false :=
    (histG_of_reach hw hr).1 r (by simpa [St.rows] using hm) r' (by simpa [St.rows] using hm') hs he ht
  refine ⟨hg, ?_⟩
  have := dap_counts hw hr r' hm'
  simpa [hg] using this

/-- **After a season's summary row has been written, no later simulated day of that season is a
growing day**: if the summary has the row `(k, t)` then every row of season `k` with step `> t`
has `growing_season = False` and `dap = 0`.  (With the off-season simulated these are the fallow
days from the harvest date to the day before the next planting date.) -/
theorem no_growing_day_after_summary (hw : WF c) {ev : Ev} {s : St} (hr : Reach c ev s)
    {k : Int} {t : Nat} (h : (k, t) ∈ s.summary) :
    ∀ r ∈ s.rows, r.season = k → t < r.t → r.gs = false ∧ r.dap = 0 := by
  obtain ⟨r0, hr0, a, b, e, _⟩ := (season_ends_first hw hr k t).mp h
  intro r hm hs ht
  exact no_growing_day_after_end hw hr r0 hr0 r hm (by rw [a, hs]) e (by omega)

/-- the growing days of season `k` all lie in `[planting k, harvest k)` and, once the summary row
`(k, t)` exists, at or before `t` -/
theorem growing_days_within_season (hw : WF c) {ev : Ev} {s : St} (hr : Reach c ev s)
    {k : Int} {t : Nat} (h : (k, t) ∈ s.summary) :
    ∀ r ∈ s.rows, r.season = k → r.gs = true →
      c.pl k.toNat ≤ r.t ∧ r.t ≤ t ∧ (r.t : Int) + 1 ≤ c.hv k.toNat := by
  intro r hm hs hg
  obtain ⟨_, h2, h3⟩ := gs_meaning hw hr r hm hg
  rw [hs] at h2 h3
  refine ⟨h2, ?_, h3⟩
  by_cases hlt : t < r.t
  · have := (no_growing_day_after_summary hw hr h r hm hs hlt).1
    rw [hg] at this; cases this
  · omega

/-! ### Non-vacuity and the error classes of ill-formed configurations -/

def resultOf (r : Except Err St) : Except Err (Nat × Int × Bool × List (Int × Nat)) :=
  r.map (fun s => (s.t, s.season, s.finished, s.summary))

def exCfg : Cfg :=
  { n := 40, planting := [3, 15, 30], harvest := [9, 29, 55], offSeason := false, season0 := -1 }
def exEv : Ev := fun t => (t == 5, t == 17)
def noEv : Ev := fun _ => (false, false)

/-- a run of a valid configuration (the crop matures on day 5 in the first season, dies on day
17 in the second, the third season is cut by the end of the window) -/
example : resultOf (init exCfg >>= runTill exCfg exEv) = .ok (38, 2, true, [(0, 5), (1, 17)]) := by
  rfl
example : Valid exCfg := by decide

def badLastDay : Cfg :=
  { n := 10, planting := [0, 9], harvest := [3, 12], offSeason := false, season0 := 0 }
/-- planting date on the last day of the window, off-season skipped: `time_span[t+1]` raises
`IndexError` when the run jumps there -/
example : resultOf (init badLastDay >>= runTill badLastDay noEv) = .error .index := by rfl

def badOutside : Cfg :=
  { n := 10, planting := [0, 12], harvest := [3, 15], offSeason := false, season0 := 0 }
/-- planting date outside the window, off-season skipped: `time_span.get_loc` raises `KeyError` -/
example : resultOf (init badOutside >>= runTill badOutside noEv) = .error .key := by rfl

/-- a one-day window: `time_span[1]` raises `IndexError` in `read_clock_parameters` -/
def oneDay : Cfg := { n := 1, planting := [0], harvest := [3], offSeason := false, season0 := 0 }
example : resultOf (init oneDay) = .error .index := by rfl

def small : Cfg := { n := 6, planting := [0], harvest := [3], offSeason := false, season0 := 0 }
/-- the second call finishes the run (harvest on day 2), a further call raises -/
example : resultOf (init small >>= runCalls small noEv [2, 5]) = .ok (2, 0, true, [(0, 2)]) := by rfl
example : resultOf (init small >>= runCalls small noEv [2, 5, 1]) = .error .finished := by rfl

def offCfg : Cfg :=
  { n := 12, planting := [0, 6], harvest := [3, 9], offSeason := true, season0 := 0 }
/-- off-season simulated, the crop never matures: the summary row of season 0 is written on step 2
(the day before the latest harvest date 3); steps 3, 4, 5 — still season 0 — are not growing days
(`gs = false`, `dap = 0`); season 1 starts on step 6 -/
example : (init offCfg >>= runSteps offCfg noEv 7).map
      (fun s => (s.summary, s.rows.map (fun r => (r.t, r.season, r.gs, r.dap)))) =
    .ok ([(0, 2)], [(0, 0, true, 1), (1, 0, true, 2), (2, 0, true, 3), (3, 0, false, 0),
      (4, 0, false, 0), (5, 0, false, 0), (6, 1, true, 1)]) := by rfl
example : Valid offCfg := by decide


end Aqua.Clock
