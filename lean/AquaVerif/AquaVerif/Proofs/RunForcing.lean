import AquaVerif.Proofs.SeasonIndep
/-
Work package V, part 1 — **what one `_perform_timestep` of the run model reads of the
configuration**, and the two relational theorems that follow from it:

* `performR_agree` / `performR_agree_error`: a step from state `s` reads, of the day-indexed
  inputs, exactly the forcing of day `s.t` (`DayEq`: the weather row, the water-table depth —
  only with a water table —, the two schedule entries) and, of the season-indexed inputs, the
  crop of the current season and — only when the step starts a new season — the crop of that
  season.
* `run_weather_outside_window` (no premise on the clock): the run reads `cfg.weather t`,
  `cfg.zgw t`, `Schedule[t]` only for `t + 2 ≤ cfg.clock.n`, i.e. for `t < n − 1`: the last row of
  the window is never read.
* the clock invariant `t + 2 ≤ n` of all states reachable from `runInit` (no `WF` needed).

The no-look-ahead theorem proper is in `Proofs/RunForcingPrefix.lean`.
-/

set_option linter.unusedSectionVars false
set_option linter.unusedVariables false
namespace Aqua
open Aqua.Clock
variable {α : Type} [Field α] [LinearOrder α] [IsStrictOrderedRing α]

/-! ## 1. the parts of a configuration -/

/-- **the static part**: everything of a configuration that is indexed neither by the day nor by
the season, except the clock configuration (of which only `sim_off_season` is listed here; the two
relational theorems constrain the rest of the clock differently). -/
structure StaticEq (cfg cfg' : RunCfg α) : Prop where
  offSeason : cfg'.clock.offSeason = cfg.clock.offSeason
  W0 : cfg'.W0 = cfg.W0
  zGerm : cfg'.zGerm = cfg.zGerm
  irr : cfg'.irr.irr = cfg.irr.irr
  netIrrSMT : cfg'.irr.netIrrSMT = cfg.irr.netIrrSMT
  wetSurf : cfg'.irr.wetSurf = cfg.irr.wetSurf
  fallowIrr : cfg'.fallowIrr.irr = cfg.fallowIrr.irr
  fallowNetIrrSMT : cfg'.fallowIrr.netIrrSMT = cfg.fallowIrr.netIrrSMT
  fallowWetSurf : cfg'.fallowIrr.wetSurf = cfg.fallowIrr.wetSurf
  fm : cfg'.fm = cfg.fm
  fallowFm : cfg'.fallowFm = cfg.fallowFm
  bundWater : cfg'.bundWater = cfg.bundWater
  fallowCrop : cfg'.fallowCrop = cfg.fallowCrop
  co2Cur : cfg'.co2Cur = cfg.co2Cur
  thini : cfg'.thini = cfg.thini
  init : cfg'.init = cfg.init

/-- **the forcing of day `t`**: the weather row, the water-table depth (read only with a water
table) and the irrigation-schedule entries of the day -/
structure DayEq (cfg cfg' : RunCfg α) (t : Nat) : Prop where
  weather : cfg'.weather t = cfg.weather t
  zgw : cfg.W0.waterTable = 1 → cfg'.zgw t = cfg.zgw t
  sched : cfg'.irr.sched t = cfg.irr.sched t
  fallowSched : cfg'.fallowIrr.sched t = cfg.fallowIrr.sched t

/-- the crop of season `k` (nothing for `k < 0`: the fallow filler crop is static) -/
def CropEq (cfg cfg' : RunCfg α) (k : Int) : Prop :=
  0 ≤ k → cfg'.seasonCrop k.toNat = cfg.seasonCrop k.toNat

theorem StaticEq.refl (cfg : RunCfg α) : StaticEq cfg cfg :=
  ⟨rfl, rfl, rfl, rfl, rfl, rfl, rfl, rfl, rfl, rfl, rfl, rfl, rfl, rfl, rfl, rfl⟩

theorem StaticEq.symm {cfg cfg' : RunCfg α} (h : StaticEq cfg cfg') : StaticEq cfg' cfg :=
  ⟨h.offSeason.symm, h.W0.symm, h.zGerm.symm, h.irr.symm, h.netIrrSMT.symm, h.wetSurf.symm,
   h.fallowIrr.symm, h.fallowNetIrrSMT.symm, h.fallowWetSurf.symm, h.fm.symm, h.fallowFm.symm,
   h.bundWater.symm, h.fallowCrop.symm, h.co2Cur.symm, h.thini.symm, h.init.symm⟩

theorem DayEq.symm {cfg cfg' : RunCfg α} (hs : StaticEq cfg cfg') {t : Nat} (h : DayEq cfg cfg' t) :
    DayEq cfg' cfg t :=
  ⟨h.weather.symm, fun hw => (h.zgw (by rw [← hs.W0]; exact hw)).symm, h.sched.symm,
   h.fallowSched.symm⟩

theorem CropEq.symm {cfg cfg' : RunCfg α} {k : Int} (h : CropEq cfg cfg' k) : CropEq cfg' cfg k :=
  fun hk => (h hk).symm

/-! ## 2. one step, decomposed -/

/-- `solution_single_time_step` with the two guards of `_perform_timestep` in front of it -/
def solStep (F : Fn α) (T : TrigFn α) (cfg : RunCfg α) (s : RunState α) :
    Except String (RunState α) :=
  if s.finished then .error "E:finished" else
  match Clock.seasonInfo cfg.clock s.season with
  | .error e => .error e.toString
  | .ok ph => solution F T cfg s ph

section step
variable {F : Fn α} {T : TrigFn α} {cfg cfg' : RunCfg α} {s : RunState α}

theorem performR_eq_solStep (F : Fn α) (T : TrigFn α) (cfg : RunCfg α) (s : RunState α) :
    performR F T cfg s =
      match solStep F T cfg s with
      | .error e => .error e
      | .ok s1 => updateTimeR cfg (checkFinishedR cfg s1) := by
  unfold performR solStep
  by_cases hf : s.finished = true
  · rw [if_pos hf, if_pos hf]
  · rw [if_neg hf, if_neg hf]
    cases seasonInfo cfg.clock s.season with
    | error e => rfl
    | ok ph => rfl

/-- what the solution step leaves alone -/
theorem solStep_ok {s1 : RunState α} (h : solStep F T cfg s = .ok s1) :
    s.finished = false ∧ s1.t = s.t ∧ s1.season = s.season ∧ s1.finished = s.finished ∧
      ∃ d, s1.daysRev = d :: s.daysRev ∧ d.D.tsc = s.t ∧ d.D.season = s.season := by
  unfold solStep at h
  by_cases hf : s.finished = true
  · rw [if_pos hf] at h; cases h
  · rw [if_neg hf] at h
    split at h
    · cases h
    · unfold solution at h
      simp only at h
      split at h
      · cases h
      · cases h
        exact ⟨by simpa using hf, rfl, rfl, rfl, _, rfl, rfl, rfl⟩

theorem cropOf_agree (h : StaticEq cfg cfg') {season : Int} (hc : CropEq cfg cfg' season) :
    cropOf cfg' season = cropOf cfg season := by
  unfold cropOf
  by_cases h0 : 0 ≤ season
  · rw [if_pos h0, if_pos h0, hc h0]
  · rw [if_neg h0, if_neg h0, h.fallowCrop]

theorem paramsOf_agree (h : StaticEq cfg cfg') {season : Int} (hc : CropEq cfg cfg' season)
    (gs : Bool) : paramsOf cfg' season gs = paramsOf cfg season gs := by
  unfold paramsOf
  by_cases h0 : 0 ≤ season
  · simp only [if_pos h0, cropOf_agree h hc, h.W0, h.irr, h.netIrrSMT, h.wetSurf, h.fm, h.fallowFm,
      h.zGerm, h.co2Cur]
  · simp only [if_neg h0, cropOf_agree h hc, h.W0, h.fallowIrr, h.fallowNetIrrSMT, h.fallowWetSurf,
      h.fm, h.fallowFm, h.zGerm, h.co2Cur]

theorem dayInOf_agree (h : StaticEq cfg cfg') (hd : DayEq cfg cfg' s.t) (ph : Option (Nat × Int)) :
    dayInOf cfg' s ph = dayInOf cfg s ph := by
  have hz : (if cfg'.W0.waterTable = 1 then cfg'.zgw s.t else 0) =
      (if cfg.W0.waterTable = 1 then cfg.zgw s.t else 0) := by
    rw [h.W0]
    by_cases hw : cfg.W0.waterTable = 1
    · rw [if_pos hw, if_pos hw, hd.zgw hw]
    · rw [if_neg hw, if_neg hw]
  unfold dayInOf
  by_cases h0 : 0 ≤ s.season
  · simp only [if_pos h0, hd.weather, hd.sched, hz]
  · simp only [if_neg h0, hd.weather, hd.fallowSched, hz]

/-- **the solution step reads the forcing of day `s.t` and the crop of the current season** -/
theorem solution_agree (h : StaticEq cfg cfg') (hd : DayEq cfg cfg' s.t)
    (hc : CropEq cfg cfg' s.season) (ph : Option (Nat × Int)) :
    solution F T cfg' s ph = solution F T cfg s ph := by
  unfold solution
  simp only [dayInOf_agree h hd ph, paramsOf_agree h hc]

theorem solStep_agree (h : StaticEq cfg cfg') (hd : DayEq cfg cfg' s.t)
    (hc : CropEq cfg cfg' s.season)
    (hinfo : seasonInfo cfg'.clock s.season = seasonInfo cfg.clock s.season) :
    solStep F T cfg' s = solStep F T cfg s := by
  unfold solStep
  rw [hinfo]
  by_cases hf : s.finished = true
  · rw [if_pos hf, if_pos hf]
  · rw [if_neg hf, if_neg hf]
    cases seasonInfo cfg.clock s.season with
    | error e => rfl
    | ok ph => exact solution_agree h hd hc ph

theorem resetState_agree (h : StaticEq cfg cfg') (crop : CropParams α) (st : DayState' α) :
    resetState cfg' crop st = resetState cfg crop st := by
  unfold resetState resetPond
  rw [h.offSeason, h.thini, h.fm, h.bundWater]

/-- the result of `update_time` under a configuration that gives the new season another crop -/
def reCrop (cfg cfg' : RunCfg α) (u a : RunState α) : RunState α :=
  if a.season = u.season then a
  else { a with day := resetState cfg (cfg'.seasonCrop a.season.toNat) u.day }

/-- **`update_time` reads the clock configuration and — at a season start — `thini`, the bund
water and the crop of the season that starts** -/
theorem updateTimeR_agree (h : StaticEq cfg cfg') (hclk : cfg'.clock = cfg.clock)
    (u : RunState α) :
    updateTimeR cfg' u = (updateTimeR cfg u).map (reCrop cfg cfg' u) := by
  unfold updateTimeR
  rw [hclk]
  cases updateTime cfg.clock u.clockOf with
  | error e => rfl
  | ok c' =>
    simp only
    by_cases hs : c'.season = u.season
    · rw [if_pos hs, if_pos hs]
      simp only [Except.map, reCrop, if_true]
    · rw [if_neg hs, if_neg hs]
      simp only [Except.map, reCrop, if_neg hs, resetState_agree h]

theorem reCrop_fields (u a : RunState α) :
    (reCrop cfg cfg' u a).t = a.t ∧ (reCrop cfg cfg' u a).season = a.season ∧
      (reCrop cfg cfg' u a).finished = a.finished ∧ (reCrop cfg cfg' u a).daysRev = a.daysRev := by
  unfold reCrop
  by_cases hs : a.season = u.season
  · rw [if_pos hs]; exact ⟨rfl, rfl, rfl, rfl⟩
  · rw [if_neg hs]; exact ⟨rfl, rfl, rfl, rfl⟩

theorem checkFinishedR_agree (hclk : cfg'.clock = cfg.clock) (s1 : RunState α) :
    checkFinishedR cfg' s1 = checkFinishedR cfg s1 := by
  unfold checkFinishedR
  rw [hclk]

/-- **one `_perform_timestep` under two configurations that share the static part, the clock, the
forcing of the day and the crop of the current season**: the second run succeeds when the first
does; the two new states have the same clock, completion flag and day records (the record of the
day just simulated included), and are *equal* unless the step started a season to which the two
configurations give different crops. -/
theorem performR_agree (h : StaticEq cfg cfg') (hclk : cfg'.clock = cfg.clock)
    (hd : DayEq cfg cfg' s.t) (hc : CropEq cfg cfg' s.season) {a : RunState α}
    (ha : performR F T cfg s = .ok a) :
    ∃ a', performR F T cfg' s = .ok a' ∧ a'.t = a.t ∧ a'.season = a.season ∧
      a'.finished = a.finished ∧ a'.daysRev = a.daysRev ∧
      ((a.season = s.season ∨ cfg'.seasonCrop a.season.toNat = cfg.seasonCrop a.season.toNat) →
        a' = a) := by
  rw [performR_eq_solStep] at ha
  rw [performR_eq_solStep, solStep_agree h hd hc (by rw [hclk])]
  cases h1 : solStep F T cfg s with
  | error e => rw [h1] at ha; cases ha
  | ok s1 =>
    rw [h1] at ha
    simp only at ha ⊢
    rw [checkFinishedR_agree hclk, updateTimeR_agree h hclk, ha]
    obtain ⟨_, _, hs1, _⟩ := solStep_ok h1
    have hu : (checkFinishedR cfg s1).season = s.season := hs1
    obtain ⟨f1, f2, f3, f4⟩ := reCrop_fields (cfg := cfg) (cfg' := cfg') (checkFinishedR cfg s1) a
    refine ⟨_, rfl, f1, f2, f3, f4, ?_⟩
    intro hcase
    unfold reCrop
    by_cases hs : a.season = (checkFinishedR cfg s1).season
    · rw [if_pos hs]
    · rw [if_neg hs]
      have hne : ¬ a.season = s.season := by rw [← hu]; exact hs
      have hce : cfg'.seasonCrop a.season.toNat = cfg.seasonCrop a.season.toNat := by
        rcases hcase with h' | h'
        · exact absurd h' hne
        · exact h'
      obtain ⟨c', _, _, _, _, hcs⟩ := updateTimeR_ok ha
      rcases hcs with ⟨e1, _⟩ | ⟨e1, e2⟩
      · exact absurd e1 hs
      · rw [hce, ← e2]

/-- … and the second run fails when the first does, with the same error -/
theorem performR_agree_error (h : StaticEq cfg cfg') (hclk : cfg'.clock = cfg.clock)
    (hd : DayEq cfg cfg' s.t) (hc : CropEq cfg cfg' s.season) {e : String}
    (ha : performR F T cfg s = .error e) : performR F T cfg' s = .error e := by
  rw [performR_eq_solStep] at ha
  rw [performR_eq_solStep, solStep_agree h hd hc (by rw [hclk])]
  cases h1 : solStep F T cfg s with
  | error e' => rw [h1] at ha; exact ha
  | ok s1 =>
    rw [h1] at ha
    simp only at ha ⊢
    rw [checkFinishedR_agree hclk, updateTimeR_agree h hclk, ha]
    rfl

/-- with the crops of all seasons shared, the step is the same function -/
theorem performR_eq_of_agree (h : StaticEq cfg cfg') (hclk : cfg'.clock = cfg.clock)
    (hd : DayEq cfg cfg' s.t) (hcrop : cfg'.seasonCrop = cfg.seasonCrop) :
    performR F T cfg' s = performR F T cfg s := by
  have hc : ∀ k, CropEq cfg cfg' k := fun k _ => by rw [hcrop]
  cases ha : performR F T cfg s with
  | error e => exact performR_agree_error h hclk hd (hc _) ha
  | ok a =>
    obtain ⟨a', ha', _, _, _, _, heq⟩ := performR_agree h hclk hd (hc _) ha
    rw [ha', heq (Or.inr (by rw [hcrop]))]

end step

/-! ## 3. the clock never leaves the window (no well-formedness needed) -/

/-- `update_time` keeps `time_step_counter + 2 ≤ n_steps`: it evaluates `time_span[t + 1]` for the
new counter -/
theorem updateTime_tn {c : Cfg} {s c' : St} (h : updateTime c s = .ok c') (ht : s.t + 2 ≤ c.n) :
    c'.t + 2 ≤ c.n := by
  unfold updateTime at h
  by_cases hf : s.finished = true
  · rw [if_pos hf] at h; cases h; exact ht
  · rw [if_neg hf] at h
    by_cases hj : (s.harvestFlag && !c.offSeason) = true
    · rw [if_pos hj] at h
      by_cases hn : s.season < c.nSeasons - 1
      · rw [if_pos hn] at h
        simp only [bind, Except.bind] at h
        split at h
        · cases h
        · rename_i p hp
          split_ifs at h with h1 h2
          cases h
          show p + 2 ≤ c.n
          omega
      · rw [if_neg hn] at h; cases h; exact ht
    · rw [if_neg hj] at h
      simp only at h
      split_ifs at h with h1 h2 hn
      · simp only [bind, Except.bind] at h
        split at h
        · cases h
        · rename_i p hp
          split_ifs at h with hp'
          · cases h
            show s.t + 1 + 2 ≤ c.n
            omega
          · cases h
            show s.t + 1 + 2 ≤ c.n
            omega
      · cases h
        show s.t + 1 + 2 ≤ c.n
        omega

section window
variable {F : Fn α} {T : TrigFn α} {cfg cfg' : RunCfg α} {s : RunState α}

theorem runInit_tn {s0 : RunState α} (h : runInit cfg = .ok s0) : s0.t + 2 ≤ cfg.clock.n := by
  unfold runInit at h
  split at h
  · cases h
  · rename_i c hc
    cases h
    unfold Clock.init at hc
    split_ifs at hc with h1 h2
    cases hc
    show 0 + 2 ≤ cfg.clock.n
    omega

theorem performR_tn {a : RunState α} (h : performR F T cfg s = .ok a) (ht : s.t + 2 ≤ cfg.clock.n) :
    a.t + 2 ≤ cfg.clock.n := by
  obtain ⟨ph, r, s1, _, _, _, hs1, hu⟩ := performR_ok h
  obtain ⟨c', hc', hcl, _⟩ := updateTimeR_ok hu
  have h1 : (checkFinishedR cfg s1).clockOf.t = s.t := by rw [hs1]; rfl
  have := updateTime_tn hc' (by rw [h1]; exact ht)
  rw [← hcl] at this
  exact this

/-- **every state reachable from the initialised model has `t + 2 ≤ n`**: the day a step
simulates is never the last day of the window -/
theorem run_tn (hr : RunReach F T cfg s) : s.t + 2 ≤ cfg.clock.n := by
  induction hr with
  | init h0 => exact runInit_tn h0
  | step _ hp ih => exact performR_tn hp ih

/-- two configurations that agree on everything the run can read: the static part, the clock, the
season crops, and the forcing of the days `t < n − 1` -/
structure AgreeInWindow (cfg cfg' : RunCfg α) : Prop where
  static : StaticEq cfg cfg'
  clock : cfg'.clock = cfg.clock
  crop : cfg'.seasonCrop = cfg.seasonCrop
  day : ∀ t, t + 2 ≤ cfg.clock.n → DayEq cfg cfg' t

theorem runInit_agree (h : StaticEq cfg cfg') (hclk : cfg'.clock = cfg.clock) :
    runInit cfg' = runInit cfg := by
  unfold runInit
  rw [hclk, h.init]

theorem runSteps_weather_outside_window (h : AgreeInWindow cfg cfg') :
    ∀ (k : Nat) (s : RunState α), s.t + 2 ≤ cfg.clock.n →
      runStepsR F T cfg' k s = runStepsR F T cfg k s := by
  intro k
  induction k with
  | zero => intro s _; rfl
  | succ k ih =>
    intro s ht
    simp only [runStepsR]
    rw [performR_eq_of_agree h.static h.clock (h.day _ ht) h.crop]
    cases hp : performR F T cfg s with
    | error e => rfl
    | ok a =>
      simp only
      by_cases hf : a.finished = true
      · rw [if_pos hf, if_pos hf]
      · rw [if_neg hf, if_neg hf]
        exact ih a (performR_tn hp ht)

/-- **Weather (water-table depths, schedule entries) outside the window is irrelevant**:
`run_model(num_steps = k)` from any state whose clock is inside the window gives the same outcome
— the same error or the same final state, all day records included — under two configurations
that agree on the forcing of the days `t < n − 1`.  No premise on the clock configuration. -/
theorem run_weather_outside_window (h : AgreeInWindow cfg cfg') (k : Nat) (s : RunState α)
    (ht : s.t + 2 ≤ cfg.clock.n) : runModel F T cfg' k s = runModel F T cfg k s := by
  unfold runModel
  by_cases hk : k < 1
  · rw [if_pos hk, if_pos hk]
  · rw [if_neg hk, if_neg hk]
    exact runSteps_weather_outside_window h k s ht

/-- … from the initialised model -/
theorem run_weather_outside_window_init (h : AgreeInWindow cfg cfg') (k : Nat) :
    (runInit cfg').bind (runModel F T cfg' k) = (runInit cfg).bind (runModel F T cfg k) := by
  rw [runInit_agree h.static h.clock]
  cases h0 : runInit cfg with
  | error e => rfl
  | ok s0 => exact run_weather_outside_window h k s0 (runInit_tn h0)

/-- the same for reachable states: the two configurations have the same reachable states -/
theorem reach_weather_outside_window (h : AgreeInWindow cfg cfg') (hr : RunReach F T cfg s) :
    RunReach F T cfg' s := by
  induction hr with
  | init h0 => exact RunReach.init (by rw [runInit_agree h.static h.clock]; exact h0)
  | step hr hp ih =>
    exact RunReach.step ih
      (by rw [performR_eq_of_agree h.static h.clock (h.day _ (run_tn hr)) h.crop]; exact hp)

end window
end Aqua

#print axioms Aqua.performR_agree
#print axioms Aqua.performR_agree_error
#print axioms Aqua.run_tn
#print axioms Aqua.run_weather_outside_window
#print axioms Aqua.run_weather_outside_window_init
#print axioms Aqua.reach_weather_outside_window
