import AquaVerif.Model.CropCalendar
import AquaVerif.Proofs.Basic
import AquaVerif.Proofs.Response
import AquaVerif.Proofs.HarvestIndex

/-
Lemmas about the crop calendar (`Model/CropCalendar.lean`).

A. daily growing degrees: the reset's clipping is the daily `growing_degree_day`
   (`gddDayReset_eq_daily`); pandas' `clip` = numpy's in-place clipping when `Tbase ≤ Tupp`
   (`gddDayInit_eq_reset`, counterexample for `Tupp < Tbase`); range `[0, Tupp − Tbase]`.
B. `cumsum`: length, non-decreasing for non-negative terms, consecutive elements.
C. `findAbove` / `firstAbove`: characterisation (first position exceeding the threshold, `0` when
   none), monotone in the threshold.
D. `calendarDays`: success iff the two asserts hold on a non-empty list (totality), the day fields,
   their order (`HIstartCD ≤ HIendCD`, `… ≤ MaturityCD`, `1 ≤ …`, `MaturityCD < 365`), a
   sufficient condition for `0 < YldFormCD`.
E. **`reset_eq_init`**: the reset block returns what the initialisation (mode 2 + harvest-index
   block of `compute_variables`) returns on the same temperature list (C08, "crop calendar").
F. totality of `calendarInit`, `calendarResetDays`, `calendarReset`; `E:fuel` for `YldFormCD ≤ 0`.
G. mode 1.
-/

set_option linter.unusedSectionVars false
set_option linter.unusedVariables false
set_option linter.unusedSimpArgs false
namespace Aqua
variable {α : Type} [Field α] [LinearOrder α] [IsStrictOrderedRing α]

/-! ## A. daily growing degrees -/

theorem GddMethod.ofNat?_toNat (m : GddMethod) : GddMethod.ofNat? m.toNat = some m := by
  cases m <;> rfl

theorem GddMethod.toNat_of_ofNat? {n : Nat} {m : GddMethod} (h : GddMethod.ofNat? n = some m) :
    n = m.toNat := by
  unfold GddMethod.ofNat? at h
  split_ifs at h with h1 h2 h3 <;> cases h <;> simp [GddMethod.toNat, *]

theorem GddMethod.ofNat?_isSome_iff (n : Nat) :
    (GddMethod.ofNat? n).isSome ↔ (n = 1 ∨ n = 2 ∨ n = 3) := by
  unfold GddMethod.ofNat?
  split_ifs with h1 h2 h3 <;> simp [*]

/-- the reset's clipping **is** the daily `growing_degree_day` (`Model/Response.lean`), method by
method (note the argument order of the daily function: `Tupp Tbase temp_max temp_min`) -/
theorem gddDayReset_eq_daily (m : GddMethod) (tbase tupp tmin tmax : α) :
    growingDegreeDay m.toNat tupp tbase tmax tmin = some (gddDayReset m tbase tupp tmin tmax) := by
  cases m <;> simp [growingDegreeDay, gddDayReset, GddMethod.toNat]

theorem pdClip_eq (x lo hi : α) : pdClip x lo hi = min (max x (min lo hi)) (max lo hi) := by
  simp only [pdClip, clipUpper, clipLower, pmin_eq, pmax_eq]

/-- pandas `clip(lower, upper)` = "upper bound first, then lower bound" when `lower ≤ upper` -/
theorem pdClip_of_le {lo hi : α} (h : lo ≤ hi) (x : α) : pdClip x lo hi = pmax (pmin x hi) lo := by
  rw [pdClip_eq, pmax_eq, pmin_eq, min_eq_left h, max_eq_right h, max_min_distrib_right,
    max_eq_left h]

/-- **the two sites compute the same daily growing degrees when `Tbase ≤ Tupp`** -/
theorem gddDayInit_eq_reset (m : GddMethod) {tbase tupp : α} (h : tbase ≤ tupp) (tmin tmax : α) :
    gddDayInit m tbase tupp tmin tmax = gddDayReset m tbase tupp tmin tmax := by
  cases m <;> simp only [gddDayInit, gddDayReset, pdClip_of_le h, clipUpper, clipLower]

theorem gddSeriesInit_eq_reset (m : GddMethod) {tbase tupp : α} (h : tbase ≤ tupp)
    (temps : List (α × α)) :
    gddSeriesInit m tbase tupp temps = gddSeriesReset m tbase tupp temps := by
  unfold gddSeriesInit gddSeriesReset
  exact List.map_congr_left (fun t _ => gddDayInit_eq_reset m h t.1 t.2)

/-- hence the init series is the daily model's series as well -/
theorem gddDayInit_eq_daily (m : GddMethod) {tbase tupp : α} (h : tbase ≤ tupp) (tmin tmax : α) :
    growingDegreeDay m.toNat tupp tbase tmax tmin = some (gddDayInit m tbase tupp tmin tmax) := by
  rw [gddDayInit_eq_reset m h]; exact gddDayReset_eq_daily m tbase tupp tmin tmax

/-- the premise `Tbase ≤ Tupp` is needed: with `Tbase = 10`, `Tupp = 5` and a day at 7 °C the
initialisation (pandas swaps the bounds) counts `-3` growing degrees, the reset `0`
(for each of the three methods) -/
example : gddDayInit .m1 (10 : ℚ) 5 7 7 = -3 ∧ gddDayReset .m1 (10 : ℚ) 5 7 7 = 0 ∧
    gddDayInit .m2 (10 : ℚ) 5 7 7 = -3 ∧ gddDayReset .m2 (10 : ℚ) 5 7 7 = 0 ∧
    gddDayInit .m3 (10 : ℚ) 5 7 7 = 0 ∧ gddDayReset .m3 (10 : ℚ) 5 7 7 = 0 ∧
    gddDayInit .m3 (10 : ℚ) 5 20 20 = 0 ∧ gddDayReset .m3 (10 : ℚ) 5 20 20 = 0 := by
  decide +kernel

/-- each daily value lies in `[0, Tupp − Tbase]` (reset site) -/
theorem gddDayReset_range (m : GddMethod) {tbase tupp : α} (h : tbase ≤ tupp) (tmin tmax : α) :
    0 ≤ gddDayReset m tbase tupp tmin tmax ∧ gddDayReset m tbase tupp tmin tmax ≤ tupp - tbase :=
  gdd_range h (gddDayReset_eq_daily m tbase tupp tmin tmax)

theorem gddDayInit_range (m : GddMethod) {tbase tupp : α} (h : tbase ≤ tupp) (tmin tmax : α) :
    0 ≤ gddDayInit m tbase tupp tmin tmax ∧ gddDayInit m tbase tupp tmin tmax ≤ tupp - tbase := by
  rw [gddDayInit_eq_reset m h]; exact gddDayReset_range m h tmin tmax

theorem gddSeriesReset_range (m : GddMethod) {tbase tupp : α} (h : tbase ≤ tupp)
    (temps : List (α × α)) :
    ∀ g ∈ gddSeriesReset m tbase tupp temps, 0 ≤ g ∧ g ≤ tupp - tbase := by
  intro g hg
  unfold gddSeriesReset at hg
  obtain ⟨t, _, rfl⟩ := List.mem_map.mp hg
  exact gddDayReset_range m h t.1 t.2

theorem gddSeriesInit_range (m : GddMethod) {tbase tupp : α} (h : tbase ≤ tupp)
    (temps : List (α × α)) :
    ∀ g ∈ gddSeriesInit m tbase tupp temps, 0 ≤ g ∧ g ≤ tupp - tbase := by
  rw [gddSeriesInit_eq_reset m h]; exact gddSeriesReset_range m h temps

/-! ## B. cumulative sum -/

theorem cumsum_eq_cumsumFrom_zero (xs : List α) : cumsum xs = cumsumFrom 0 xs := by
  cases xs with
  | nil => rfl
  | cons x xs => simp [cumsum, cumsumFrom, zero_add]

theorem cumsumFrom_length (acc : α) (xs : List α) : (cumsumFrom acc xs).length = xs.length := by
  induction xs generalizing acc with
  | nil => rfl
  | cons x xs ih => simp [cumsumFrom, ih]

theorem cumsum_length (xs : List α) : (cumsum xs).length = xs.length := by
  rw [cumsum_eq_cumsumFrom_zero, cumsumFrom_length]

theorem cumsum_eq_nil_iff (xs : List α) : cumsum xs = [] ↔ xs = [] := by
  cases xs <;> simp [cumsum]

theorem cumsumFrom_ge {acc : α} {xs : List α} (h : ∀ x ∈ xs, 0 ≤ x) :
    ∀ y ∈ cumsumFrom acc xs, acc ≤ y := by
  induction xs generalizing acc with
  | nil => intro y hy; simp [cumsumFrom] at hy
  | cons x xs ih =>
    intro y hy
    have hx : 0 ≤ x := h x (List.mem_cons_self ..)
    simp only [cumsumFrom, List.mem_cons] at hy
    rcases hy with rfl | hy
    · linarith
    · have := ih (fun z hz => h z (List.mem_cons_of_mem _ hz)) y hy
      linarith

/-- the cumulative sum of non-negative terms is non-decreasing -/
theorem cumsumFrom_pairwise {acc : α} {xs : List α} (h : ∀ x ∈ xs, 0 ≤ x) :
    (cumsumFrom acc xs).Pairwise (· ≤ ·) := by
  induction xs generalizing acc with
  | nil => simp [cumsumFrom]
  | cons x xs ih =>
    have h' : ∀ z ∈ xs, 0 ≤ z := fun z hz => h z (List.mem_cons_of_mem _ hz)
    simp only [cumsumFrom, List.pairwise_cons]
    exact ⟨cumsumFrom_ge h', ih h'⟩

theorem cumsum_pairwise {xs : List α} (h : ∀ x ∈ xs, 0 ≤ x) : (cumsum xs).Pairwise (· ≤ ·) := by
  rw [cumsum_eq_cumsumFrom_zero]; exact cumsumFrom_pairwise h

/-- consecutive cumulative values differ by one term of the series -/
theorem cumsumFrom_succ {acc : α} {xs : List α} {i : Nat} {c c' : α}
    (h0 : (cumsumFrom acc xs)[i]? = some c) (h1 : (cumsumFrom acc xs)[i+1]? = some c') :
    ∃ g ∈ xs, c' = c + g := by
  induction xs generalizing acc i with
  | nil => simp [cumsumFrom] at h0
  | cons x xs ih =>
    cases xs with
    | nil => simp [cumsumFrom] at h1
    | cons y ys =>
      cases i with
      | zero =>
        simp only [cumsumFrom, List.getElem?_cons_zero, List.getElem?_cons_succ,
          Option.some.injEq] at h0 h1
        exact ⟨y, by simp, by rw [← h1, ← h0]⟩
      | succ i =>
        simp only [cumsumFrom, List.getElem?_cons_succ] at h0 h1
        obtain ⟨g, hg, e⟩ := ih (acc := acc + x) (i := i)
          (by simpa [cumsumFrom] using h0) (by simpa [cumsumFrom] using h1)
        exact ⟨g, List.mem_cons_of_mem _ hg, e⟩

/-- the first cumulative value is the first term -/
theorem cumsumFrom_zero_head {xs : List α} {c : α} (h0 : (cumsumFrom 0 xs)[0]? = some c) :
    c ∈ xs := by
  cases xs with
  | nil => simp [cumsumFrom] at h0
  | cons x xs =>
    simp only [cumsumFrom, List.getElem?_cons_zero, Option.some.injEq, zero_add] at h0
    subst h0; simp

/-! ## C. first position above a threshold -/

theorem findAbove_eq_none_iff (x : α) (cum : List α) :
    findAbove x cum = none ↔ ∀ c ∈ cum, ¬ x < c := by
  induction cum with
  | nil => simp [findAbove]
  | cons c cs ih =>
    unfold findAbove
    by_cases h : x < c
    · simp [h]
    · simp only [h, if_false, Option.map_eq_none_iff, ih, List.mem_cons, forall_eq_or_imp,
        not_false_eq_true, true_and]

/-- `findAbove` returns the first position whose element exceeds the threshold -/
theorem findAbove_spec {x : α} {cum : List α} {i : Nat} (h : findAbove x cum = some i) :
    (∃ c, cum[i]? = some c ∧ x < c) ∧ ∀ j, j < i → ∀ c, cum[j]? = some c → ¬ x < c := by
  induction cum generalizing i with
  | nil => simp [findAbove] at h
  | cons c cs ih =>
    unfold findAbove at h
    by_cases hc : x < c
    · simp only [hc, if_true, Option.some.injEq] at h
      subst h
      exact ⟨⟨c, by simp, hc⟩, fun j hj => absurd hj (Nat.not_lt_zero j)⟩
    · simp only [hc, if_false, Option.map_eq_some_iff] at h
      obtain ⟨k, hk, rfl⟩ := h
      obtain ⟨⟨c', hc', hx⟩, hall⟩ := ih hk
      refine ⟨⟨c', by simpa using hc', hx⟩, ?_⟩
      intro j hj d hd
      cases j with
      | zero => simp at hd; subst hd; exact hc
      | succ j => exact hall j (by omega) d (by simpa using hd)

/-- and conversely: a position with these two properties is the one `findAbove` returns -/
theorem findAbove_eq_of_spec {x : α} {cum : List α} {i : Nat}
    (h1 : ∃ c, cum[i]? = some c ∧ x < c) (h2 : ∀ j, j < i → ∀ c, cum[j]? = some c → ¬ x < c) :
    findAbove x cum = some i := by
  obtain ⟨c, hc, hx⟩ := h1
  have hmem : c ∈ cum := List.mem_of_getElem? hc
  cases hf : findAbove x cum with
  | none => exact absurd hx ((findAbove_eq_none_iff x cum).mp hf c hmem)
  | some k =>
    obtain ⟨⟨c', hc', hx'⟩, hall⟩ := findAbove_spec hf
    rcases Nat.lt_trichotomy k i with hlt | heq | hgt
    · exact absurd hx' (h2 k hlt c' hc')
    · rw [heq]
    · exact absurd hx (hall i hgt c hc)

/-- a lower threshold is exceeded no later -/
theorem findAbove_mono {x y : α} (hxy : x ≤ y) {cum : List α} {j : Nat}
    (h : findAbove y cum = some j) : ∃ i, findAbove x cum = some i ∧ i ≤ j := by
  obtain ⟨⟨c, hc, hy⟩, _⟩ := findAbove_spec h
  have hx : x < c := lt_of_le_of_lt hxy hy
  cases hf : findAbove x cum with
  | none => exact absurd hx ((findAbove_eq_none_iff x cum).mp hf c (List.mem_of_getElem? hc))
  | some i =>
    refine ⟨i, rfl, ?_⟩
    obtain ⟨_, hall⟩ := findAbove_spec hf
    by_contra hlt
    exact hall j (by omega) c hc hx

theorem findAbove_isSome_of_mem {x c : α} {cum : List α} (hc : c ∈ cum) (hx : x < c) :
    ∃ i, findAbove x cum = some i := by
  cases hf : findAbove x cum with
  | none => exact absurd hx ((findAbove_eq_none_iff x cum).mp hf c hc)
  | some i => exact ⟨i, rfl⟩

/-- **characterisation of `firstAbove`** (the `idxmax`/`argmax` look-up): if some element exceeds
`x`, the result is the first such position … -/
theorem firstAbove_spec {x : α} {cum : List α} (h : ∃ c ∈ cum, x < c) :
    (∃ c, cum[firstAbove cum x]? = some c ∧ x < c) ∧
    ∀ j, j < firstAbove cum x → ∀ c, cum[j]? = some c → ¬ x < c := by
  obtain ⟨c, hc, hx⟩ := h
  obtain ⟨i, hi⟩ := findAbove_isSome_of_mem hc hx
  have : firstAbove cum x = i := by simp [firstAbove, hi]
  rw [this]; exact findAbove_spec hi

/-- … and `0` when no element exceeds `x` (indistinguishable from "the first element does") -/
theorem firstAbove_of_none {x : α} {cum : List α} (h : ∀ c ∈ cum, ¬ x < c) :
    firstAbove cum x = 0 := by
  simp [firstAbove, (findAbove_eq_none_iff x cum).mpr h]

theorem firstAbove_lt_length {x : α} {cum : List α} (h : ∃ c ∈ cum, x < c) :
    firstAbove cum x < cum.length := by
  obtain ⟨⟨c, hc, _⟩, _⟩ := firstAbove_spec h
  exact (List.getElem?_eq_some_iff.mp hc).1

theorem firstAbove_le_length (x : α) (cum : List α) : firstAbove cum x ≤ cum.length := by
  by_cases h : ∃ c ∈ cum, x < c
  · exact (firstAbove_lt_length h).le
  · rw [firstAbove_of_none (fun c hc hx => h ⟨c, hc, hx⟩)]; exact Nat.zero_le _

/-- **`firstAbove` is monotone in the threshold** (as long as the larger one is exceeded) -/
theorem firstAbove_mono {x y : α} (hxy : x ≤ y) {cum : List α} (h : ∃ c ∈ cum, y < c) :
    firstAbove cum x ≤ firstAbove cum y := by
  obtain ⟨c, hc, hy⟩ := h
  obtain ⟨j, hj⟩ := findAbove_isSome_of_mem hc hy
  obtain ⟨i, hi, hij⟩ := findAbove_mono hxy hj
  simp [firstAbove, hi, hj, hij]

/-! ## D. the look-ups (`calendarDays`) -/

/-- what a successful `calendarDays` returns -/
theorem calendarDays_ok {ct : Nat} {th : CalThresh α} {cum : List α} {d : CalDays}
    (h : calendarDays ct th cum = .ok d) :
    ∃ last, cum.getLast? = some last ∧ th.maturity < last ∧
      firstAbove cum th.maturity + 1 < 365 ∧
      d.maturityCD = firstAbove cum th.maturity + 1 ∧
      d.maxCanopyCD = firstAbove cum th.maxCanopy + 1 ∧
      d.canopyDevEndCD = firstAbove cum th.canopyDevEnd + 1 ∧
      d.hiStartCD = firstAbove cum th.hiStart + 1 ∧
      d.hiEndCD = firstAbove cum th.hiEnd + 1 ∧
      d.yldFormCD = (d.hiEndCD : Int) - (d.hiStartCD : Int) ∧
      d.floweringCD = (if ct = 3 then
        ((firstAbove cum th.floweringEnd + 1 : Nat) : Int) - (d.hiStartCD : Int) else noValue) := by
  unfold calendarDays at h
  cases hl : cum.getLast? with
  | none => rw [hl] at h; simp at h
  | some last =>
    rw [hl] at h
    by_cases h1 : th.maturity < last
    · by_cases h2 : firstAbove cum th.maturity + 1 < 365
      · simp only [h1, h2, if_true] at h
        cases h
        exact ⟨last, rfl, h1, h2, rfl, rfl, rfl, rfl, rfl, rfl, rfl⟩
      · simp [h1, h2] at h
    · simp [h1] at h

/-- **totality of the look-ups**: success iff the list is non-empty and the two asserts hold -/
theorem calendarDays_ok_iff (ct : Nat) (th : CalThresh α) (cum : List α) :
    (∃ d, calendarDays ct th cum = .ok d) ↔
      ∃ last, cum.getLast? = some last ∧ th.maturity < last ∧
        firstAbove cum th.maturity + 1 < 365 := by
  constructor
  · rintro ⟨d, h⟩
    obtain ⟨last, hl, h1, h2, _⟩ := calendarDays_ok h
    exact ⟨last, hl, h1, h2⟩
  · rintro ⟨last, hl, h1, h2⟩
    unfold calendarDays
    rw [hl]
    simp only [h1, h2, if_true]
    exact ⟨_, rfl⟩

/-- … and the only errors are `E:index` (empty list) and the two asserts -/
theorem calendarDays_error {ct : Nat} {th : CalThresh α} {cum : List α} {e : String}
    (h : calendarDays ct th cum = .error e) :
    (e = "E:index" ∧ cum = []) ∨
    (e = "E:assert:maturity" ∧ ∃ last, cum.getLast? = some last ∧ ¬ th.maturity < last) ∨
    (e = "E:assert:year" ∧ ∃ last, cum.getLast? = some last ∧ th.maturity < last ∧
      ¬ firstAbove cum th.maturity + 1 < 365) := by
  unfold calendarDays at h
  cases hl : cum.getLast? with
  | none =>
    rw [hl] at h
    simp only [Except.error.injEq] at h
    exact Or.inl ⟨h.symm, List.getLast?_eq_none_iff.mp hl⟩
  | some last =>
    rw [hl] at h
    by_cases h1 : th.maturity < last
    · by_cases h2 : firstAbove cum th.maturity + 1 < 365
      · simp [h1, h2] at h
      · simp only [h1, h2, if_true, if_false, Except.error.injEq] at h
        exact Or.inr (Or.inr ⟨h.symm, last, rfl, h1, h2⟩)
    · simp only [h1, if_false, Except.error.injEq] at h
      exact Or.inr (Or.inl ⟨h.symm, last, rfl, h1⟩)

section order
variable {ct : Nat} {th : CalThresh α} {cum : List α} {d : CalDays}

/-- every day number is at least 1 and maturity is reached within the first 364 days -/
theorem calendarDays_pos (h : calendarDays ct th cum = .ok d) :
    1 ≤ d.maturityCD ∧ 1 ≤ d.maxCanopyCD ∧ 1 ≤ d.canopyDevEndCD ∧ 1 ≤ d.hiStartCD ∧
    1 ≤ d.hiEndCD ∧ d.maturityCD < 365 := by
  obtain ⟨last, _, _, h2, e1, e2, e3, e4, e5, _⟩ := calendarDays_ok h
  omega

/-- a threshold below `Maturity` is exceeded by the last cumulative value (maturity assert) -/
theorem calendarDays_exceeded (h : calendarDays ct th cum = .ok d) {x : α}
    (hx : x ≤ th.maturity) : ∃ c ∈ cum, x < c := by
  obtain ⟨last, hl, h1, _⟩ := calendarDays_ok h
  exact ⟨last, List.mem_of_getLast? hl, lt_of_le_of_lt hx h1⟩

/-- maturity is reached within the list -/
theorem calendarDays_maturity_le_length (h : calendarDays ct th cum = .ok d) :
    d.maturityCD ≤ cum.length := by
  obtain ⟨last, _, _, _, e1, _⟩ := calendarDays_ok h
  have := firstAbove_lt_length (calendarDays_exceeded h (le_refl th.maturity))
  omega

/-- `HIstart ≤ HIend ≤ Maturity` ⟹ `HIstartCD ≤ HIendCD`, i.e. `0 ≤ YldFormCD` -/
theorem calendarDays_hiStart_le_hiEnd (h : calendarDays ct th cum = .ok d)
    (h1 : th.hiStart ≤ th.hiEnd) (h2 : th.hiEnd ≤ th.maturity) :
    d.hiStartCD ≤ d.hiEndCD ∧ 0 ≤ d.yldFormCD := by
  obtain ⟨last, _, _, _, _, _, _, e4, e5, e6, _⟩ := calendarDays_ok h
  have := firstAbove_mono h1 (calendarDays_exceeded h h2)
  omega

theorem calendarDays_hiEnd_le_maturity (h : calendarDays ct th cum = .ok d)
    (h2 : th.hiEnd ≤ th.maturity) : d.hiEndCD ≤ d.maturityCD := by
  obtain ⟨last, _, _, _, e1, _, _, _, e5, _⟩ := calendarDays_ok h
  have := firstAbove_mono h2 (calendarDays_exceeded h (le_refl _))
  omega

theorem calendarDays_maxCanopy_le_maturity (h : calendarDays ct th cum = .ok d)
    (h2 : th.maxCanopy ≤ th.maturity) : d.maxCanopyCD ≤ d.maturityCD := by
  obtain ⟨last, _, _, _, e1, e2, _⟩ := calendarDays_ok h
  have := firstAbove_mono h2 (calendarDays_exceeded h (le_refl _))
  omega

theorem calendarDays_canopyDevEnd_le_maturity (h : calendarDays ct th cum = .ok d)
    (h2 : th.canopyDevEnd ≤ th.maturity) : d.canopyDevEndCD ≤ d.maturityCD := by
  obtain ⟨last, _, _, _, e1, _, e3, _⟩ := calendarDays_ok h
  have := firstAbove_mono h2 (calendarDays_exceeded h (le_refl _))
  omega

theorem calendarDays_hiStart_le_maturity (h : calendarDays ct th cum = .ok d)
    (h2 : th.hiStart ≤ th.maturity) : d.hiStartCD ≤ d.maturityCD := by
  obtain ⟨last, _, _, _, e1, _, _, e4, _⟩ := calendarDays_ok h
  have := firstAbove_mono h2 (calendarDays_exceeded h (le_refl _))
  omega

/-- fruit/grain crops: `HIstart ≤ FloweringEnd ≤ Maturity` ⟹ `0 ≤ FloweringCD` -/
theorem calendarDays_flowering_nonneg (h : calendarDays ct th cum = .ok d) (h3 : ct = 3)
    (h1 : th.hiStart ≤ th.floweringEnd) (h2 : th.floweringEnd ≤ th.maturity) :
    0 ≤ d.floweringCD := by
  obtain ⟨last, _, _, _, _, _, _, e4, _, _, e7⟩ := calendarDays_ok h
  have := firstAbove_mono h1 (calendarDays_exceeded h h2)
  rw [if_pos h3] at e7
  omega

/-- other crops: `FloweringCD = NO_VALUE` -/
theorem calendarDays_flowering_noValue (h : calendarDays ct th cum = .ok d) (h3 : ct ≠ 3) :
    d.floweringCD = -999 := by
  obtain ⟨last, _, _, _, _, _, _, _, _, _, e7⟩ := calendarDays_ok h
  rw [if_neg h3] at e7; exact e7

/-- every day number lies within the list, whatever the thresholds (a threshold that is never
exceeded yields day 1) -/
theorem calendarDays_le_length (h : calendarDays ct th cum = .ok d) :
    d.maxCanopyCD ≤ cum.length ∧ d.canopyDevEndCD ≤ cum.length ∧ d.hiStartCD ≤ cum.length ∧
    d.hiEndCD ≤ cum.length ∧ d.yldFormCD ≤ (cum.length : Int) := by
  obtain ⟨last, hl, _, _, _, e2, e3, e4, e5, e6, _⟩ := calendarDays_ok h
  have hne : 0 < cum.length := List.length_pos_of_mem (List.mem_of_getLast? hl)
  have aux : ∀ x : α, firstAbove cum x + 1 ≤ cum.length := by
    intro x
    by_cases hx : ∃ c ∈ cum, x < c
    · exact firstAbove_lt_length hx
    · rw [firstAbove_of_none (fun c hc hlt => hx ⟨c, hc, hlt⟩)]; omega
  have a2 := aux th.maxCanopy
  have a3 := aux th.canopyDevEnd
  have a4 := aux th.hiStart
  have a5 := aux th.hiEnd
  omega

end order

/-- terms `≤ Δ < 0`: every cumulative value is at most `acc + Δ` -/
theorem cumsumFrom_le_add {xs : List α} {Δ : α} (hz : ∀ z ∈ xs, z ≤ Δ) (hΔ : Δ < 0) (acc : α) :
    ∀ y ∈ cumsumFrom acc xs, y ≤ acc + Δ := by
  induction xs generalizing acc with
  | nil => intro y hy; simp [cumsumFrom] at hy
  | cons z zs ih =>
    intro y hy
    have h1 := hz z (List.mem_cons_self ..)
    simp only [cumsumFrom, List.mem_cons] at hy
    rcases hy with rfl | hy
    · linarith
    · have := ih (fun w hw => hz w (List.mem_cons_of_mem _ hw)) (acc + z) y hy
      linarith

/-- **when is `YldFormCD` positive?**  If no day contributes more than `Δ` growing degrees
(`Δ = Tupp − Tbase`), `0 ≤ HIstart` and the yield-formation period is at least `Δ` long in thermal
time, the start and the end of yield formation fall on different days.  (Otherwise
`YldFormCD` can be `0` — or negative when `HIend` is never reached — and `calculate_HIGC` does not
terminate.) -/
theorem firstAbove_lt_of_gap {gdd : List α} {Δ lo hi : α} (hg : ∀ g ∈ gdd, g ≤ Δ)
    (h0 : 0 ≤ lo) (hgap : lo + Δ ≤ hi) (hex : ∃ c ∈ cumsum gdd, hi < c) :
    firstAbove (cumsum gdd) lo < firstAbove (cumsum gdd) hi := by
  have hlohi : lo ≤ hi := by
    -- `Δ < 0` is impossible: all cumulative values would be `≤ Δ`, none above `hi ≥ lo + Δ ≥ Δ`
    by_contra hcon
    obtain ⟨c, hc, hlt⟩ := hex
    rw [cumsum_eq_cumsumFrom_zero] at hc
    have := cumsumFrom_le_add hg (by linarith [not_le.mp hcon]) 0 c hc
    linarith [not_le.mp hcon]
  have hexlo : ∃ c ∈ cumsum gdd, lo < c := by
    obtain ⟨c, hc, hlt⟩ := hex; exact ⟨c, hc, lt_of_le_of_lt hlohi hlt⟩
  obtain ⟨⟨ci, hci, hloci⟩, hbefore⟩ := firstAbove_spec hexlo
  obtain ⟨⟨cj, hcj, hhicj⟩, _⟩ := firstAbove_spec hex
  have hle := firstAbove_mono hlohi hex
  rw [cumsum_eq_cumsumFrom_zero] at hci hcj hbefore hle ⊢
  -- the value at the first position above `lo` is at most `lo + Δ`
  have hci_le : ci ≤ lo + Δ := by
    cases hi0 : firstAbove (cumsumFrom 0 gdd) lo with
    | zero =>
      rw [hi0] at hci
      have := hg ci (cumsumFrom_zero_head hci)
      linarith
    | succ k =>
      rw [hi0] at hci hbefore
      have hk : k < (cumsumFrom 0 gdd).length := by
        have := (List.getElem?_eq_some_iff.mp hci).1; omega
      obtain ⟨g, hgm, e⟩ := cumsumFrom_succ (List.getElem?_eq_getElem hk) hci
      have h1 := hbefore k (Nat.lt_succ_self k) _ (List.getElem?_eq_getElem hk)
      have h2 := hg g hgm
      rw [e]; linarith [not_lt.mp h1]
  rcases Nat.lt_or_ge (firstAbove (cumsumFrom 0 gdd) lo) (firstAbove (cumsumFrom 0 gdd) hi) with
    hlt | hge
  · exact hlt
  · have heq : firstAbove (cumsumFrom 0 gdd) lo = firstAbove (cumsumFrom 0 gdd) hi :=
      le_antisymm hle hge
    rw [heq, hcj, Option.some.injEq] at hci
    subst hci
    linarith

/-! ## E. the reset block returns what the initialisation returns (C08, crop calendar) -/

/-- what the reset block reads from a crop object that the initialisation has prepared: the raw
parameters and the thresholds `compute_crop_calendar` wrote (`initThresh`) -/
def CalGDDIn.toReset (F : Fn α) (c : CalGDDIn α) (hi0 hiIni : α) : CalResetIn α :=
  { cropType := c.cropType, gddMethod := c.gddMethod, tbase := c.tbase, tupp := c.tupp,
    th := (initThresh F c).1, hi0 := hi0, hiIni := hiIni }

/-- the thresholds in `toReset` are the fields `calendarInit` returns (and the unchanged raw
`Maturity`, `HIstart`) -/
theorem calendarInit_thresholds {F : Fn α} {c : CalGDDIn α} {temps : List (α × α)}
    {o : CalGDDOut α} (h : calendarInit F c temps = .ok o) :
    (initThresh F c).1 =
      ({ maturity := c.maturity, maxCanopy := o.maxCanopy, canopyDevEnd := o.canopyDevEnd,
         hiStart := c.hiStart, hiEnd := o.hiEnd, floweringEnd := o.floweringEnd } : CalThresh α) ∧
    o.canopy10Pct = (initThresh F c).2 := by
  unfold calendarInit at h
  cases hm : GddMethod.ofNat? c.gddMethod with
  | none => simp [hm] at h
  | some m =>
    simp only [hm] at h
    cases hd : calendarDays c.cropType (initThresh F c).1
        (cumsum (gddSeriesInit m c.tbase c.tupp temps)) with
    | error e => simp [hd] at h
    | ok d =>
      simp only [hd, Except.ok.injEq] at h
      subst h
      exact ⟨rfl, rfl⟩

/-- calendar-day part, `Tbase ≤ Tupp` -/
theorem reset_eq_init_days_of_le (F : Fn α) (c : CalGDDIn α) (h : c.tbase ≤ c.tupp) (hi0 hiIni : α)
    (temps : List (α × α)) :
    calendarResetDays (c.toReset F hi0 hiIni) temps
      = (calendarInit F c temps).map (·.days) := by
  unfold calendarResetDays calendarInit CalGDDIn.toReset
  cases hm : GddMethod.ofNat? c.gddMethod with
  | none => simp [Except.map]
  | some m =>
    simp only [gddSeriesInit_eq_reset m h]
    cases hd : calendarDays c.cropType (initThresh F c).1
        (cumsum (gddSeriesReset m c.tbase c.tupp temps)) with
    | error e => simp [Except.map]
    | ok d => simp [Except.map]

/-! With `Tupp < Tbase` the daily values differ (init: `≤ 0`, reset: `= 0`), but for a crop with
`0 ≤ Maturity` both sites then fail the maturity assert — the calendars still agree. -/

theorem gddDayInit_nonpos_of_lt (m : GddMethod) {tbase tupp : α} (h : tupp < tbase) (tmin tmax : α) :
    gddDayInit m tbase tupp tmin tmax ≤ 0 := by
  have hc : ∀ x : α, pdClip x tbase tupp ≤ tbase := by
    intro x
    rw [pdClip_eq, max_eq_left h.le]
    exact min_le_right _ _
  cases m
  · simp only [gddDayInit]; linarith [hc ((tmax + tmin) / 2)]
  · simp only [gddDayInit]; linarith [hc tmax, hc tmin]
  · simp only [gddDayInit, clipLower, clipUpper, pmax_eq, pmin_eq]
    have h1 := hc tmax
    have h2 : min tmin tupp ≤ tupp := min_le_right _ _
    have : max ((pdClip tmax tbase tupp + min tmin tupp) / 2) tbase = tbase :=
      max_eq_right (by linarith)
    rw [this]; linarith

theorem gddDayReset_eq_zero_of_lt (m : GddMethod) {tbase tupp : α} (h : tupp < tbase)
    (tmin tmax : α) : gddDayReset m tbase tupp tmin tmax = 0 := by
  have hc : ∀ x : α, max (min x tupp) tbase = tbase := fun x =>
    max_eq_right (le_trans (min_le_right _ _) h.le)
  cases m
  · simp only [gddDayReset, pmax_eq, pmin_eq, hc]; ring
  · simp only [gddDayReset, pmax_eq, pmin_eq, hc]; ring
  · simp only [gddDayReset, pmax_eq, pmin_eq, hc]
    have h2 : min tmin tupp ≤ tupp := min_le_right _ _
    have : max ((tbase + min tmin tupp) / 2) tbase = tbase := max_eq_right (by linarith)
    rw [this]; ring

theorem cumsumFrom_nonpos {acc : α} {xs : List α} (ha : acc ≤ 0) (h : ∀ x ∈ xs, x ≤ 0) :
    ∀ y ∈ cumsumFrom acc xs, y ≤ 0 := by
  induction xs generalizing acc with
  | nil => intro y hy; simp [cumsumFrom] at hy
  | cons x xs ih =>
    intro y hy
    have hx : x ≤ 0 := h x (List.mem_cons_self ..)
    simp only [cumsumFrom, List.mem_cons] at hy
    rcases hy with rfl | hy
    · linarith
    · exact ih (by linarith) (fun z hz => h z (List.mem_cons_of_mem _ hz)) y hy

theorem cumsum_nonpos {xs : List α} (h : ∀ x ∈ xs, x ≤ 0) : ∀ y ∈ cumsum xs, y ≤ 0 := by
  rw [cumsum_eq_cumsumFrom_zero]; exact cumsumFrom_nonpos le_rfl h

/-- no growing degrees at all: the maturity assert fires for every crop with `0 ≤ Maturity` -/
theorem calendarDays_of_nonpos {ct : Nat} {th : CalThresh α} {cum : List α} (hne : cum ≠ [])
    (hc : ∀ y ∈ cum, y ≤ 0) (hm : 0 ≤ th.maturity) :
    calendarDays ct th cum = .error "E:assert:maturity" := by
  unfold calendarDays
  cases hl : cum.getLast? with
  | none => exact absurd (List.getLast?_eq_none_iff.mp hl) hne
  | some last =>
    have : ¬ th.maturity < last :=
      not_lt.mpr (le_trans (hc last (List.mem_of_getLast? hl)) hm)
    simp [this]

/-- calendar-day part, `Tupp < Tbase` and `0 ≤ Maturity`: both sites raise the same error -/
theorem reset_eq_init_days_of_lt (F : Fn α) (c : CalGDDIn α) (h : c.tupp < c.tbase)
    (hmat : 0 ≤ c.maturity) (hi0 hiIni : α) (temps : List (α × α)) :
    calendarResetDays (c.toReset F hi0 hiIni) temps
      = (calendarInit F c temps).map (·.days) := by
  unfold calendarResetDays calendarInit CalGDDIn.toReset
  cases hm : GddMethod.ofNat? c.gddMethod with
  | none => simp [Except.map]
  | some m =>
    cases temps with
    | nil => simp [gddSeriesInit, gddSeriesReset, cumsum, calendarDays, Except.map]
    | cons t ts =>
      have e1 : calendarDays c.cropType (initThresh F c).1
          (cumsum (gddSeriesReset m c.tbase c.tupp (t :: ts))) = .error "E:assert:maturity" := by
        apply calendarDays_of_nonpos
        · simp [gddSeriesReset, cumsum]
        · apply cumsum_nonpos
          intro g hg
          obtain ⟨u, _, rfl⟩ := List.mem_map.mp hg
          exact (gddDayReset_eq_zero_of_lt m h u.1 u.2).le
        · exact hmat
      have e2 : calendarDays c.cropType (initThresh F c).1
          (cumsum (gddSeriesInit m c.tbase c.tupp (t :: ts))) = .error "E:assert:maturity" := by
        apply calendarDays_of_nonpos
        · simp [gddSeriesInit, cumsum]
        · apply cumsum_nonpos
          intro g hg
          obtain ⟨u, _, rfl⟩ := List.mem_map.mp hg
          exact gddDayInit_nonpos_of_lt m h u.1 u.2
        · exact hmat
      simp only [e1, e2, Except.map]

/-- calendar-day part under the exact premise -/
theorem reset_eq_init_days (F : Fn α) (c : CalGDDIn α) (h : c.tbase ≤ c.tupp ∨ 0 ≤ c.maturity)
    (hi0 hiIni : α) (temps : List (α × α)) :
    calendarResetDays (c.toReset F hi0 hiIni) temps
      = (calendarInit F c temps).map (·.days) := by
  rcases le_or_gt c.tbase c.tupp with h1 | h1
  · exact reset_eq_init_days_of_le F c h1 hi0 hiIni temps
  · rcases h with h2 | h2
    · exact absurd h2 (not_le.mpr h1)
    · exact reset_eq_init_days_of_lt F c h1 h2 hi0 hiIni temps

/-- the reset's result assembled from the initialisation's -/
def CalResetOut.ofInit (r : CalGDDOut α × α × α × α) : CalResetOut α :=
  { days := r.1.days, higc := r.2.1, tLinSwitch := r.2.2.1, dHILinear := r.2.2.2 }

/-- **`reset_eq_init`** (C08, "crop calendar").  For the same temperature list (the records from
the season's planting date to the end of the simulation), the same raw crop parameters and
`Tbase ≤ Tupp`, the thermal-calendar block of `reset_initial_conditions` returns exactly the
values — `MaturityCD, MaxCanopyCD, CanopyDevEndCD, HIstartCD, HIendCD, YldFormCD, FloweringCD, HIGC,
tLinSwitch, dHILinear` — or raises exactly the error that a fresh initialisation
(`compute_crop_calendar` mode 2, then the harvest-index block of `compute_variables`) produces.
The premise is `Tbase ≤ Tupp` **or** `0 ≤ Maturity`: pandas' `clip` reorders its bounds, numpy's
in-place clipping does not, so for `Tupp < Tbase` the daily growing degrees differ (counterexample
in part A) — but then neither site accumulates a positive sum and both raise the maturity assert
unless `Maturity < 0` (`CalExample.reset_ne_init` shows that the calendars do differ in that
corner). -/
theorem reset_eq_init (F : Fn α) (fuel : Nat) (c : CalGDDIn α)
    (h : c.tbase ≤ c.tupp ∨ 0 ≤ c.maturity)
    (hi0 hiIni : α) (temps : List (α × α)) :
    calendarReset F fuel (c.toReset F hi0 hiIni) temps
      = (calendarInitHI F fuel c hi0 hiIni temps).map CalResetOut.ofInit := by
  unfold calendarReset calendarInitHI
  rw [reset_eq_init_days F c h hi0 hiIni temps]
  cases hi : calendarInit F c temps with
  | error e => simp [Except.map]
  | ok o =>
    simp only [Except.map, CalGDDIn.toReset]
    cases hb : hiBlock F fuel c.cropType o.days.yldFormCD hi0 hiIni with
    | error e => simp
    | ok r =>
      obtain ⟨g, t, d⟩ := r
      simp [CalResetOut.ofInit]

/-- the same, read as an implication -/
theorem reset_eq_init_ok {F : Fn α} {fuel : Nat} {c : CalGDDIn α}
    (h : c.tbase ≤ c.tupp ∨ 0 ≤ c.maturity)
    {hi0 hiIni : α} {temps : List (α × α)} {o : CalGDDOut α} {g t d : α}
    (hinit : calendarInitHI F fuel c hi0 hiIni temps = .ok (o, g, t, d)) :
    calendarReset F fuel (c.toReset F hi0 hiIni) temps
      = .ok { days := o.days, higc := g, tLinSwitch := t, dHILinear := d } := by
  rw [reset_eq_init F fuel c h, hinit]; rfl

/-! ## F. totality -/

theorem calendarResetDays_ok_iff {c : CalResetIn α} {m : GddMethod}
    (hm : GddMethod.ofNat? c.gddMethod = some m) (temps : List (α × α)) :
    (∃ d, calendarResetDays c temps = .ok d) ↔
      ∃ last, (cumsum (gddSeriesReset m c.tbase c.tupp temps)).getLast? = some last ∧
        c.th.maturity < last ∧
        firstAbove (cumsum (gddSeriesReset m c.tbase c.tupp temps)) c.th.maturity + 1 < 365 := by
  unfold calendarResetDays
  simp only [hm]
  exact calendarDays_ok_iff _ _ _

/-- the calendar-day part of the reset fails only with `E:unbound` (method not 1, 2, 3),
`E:index` (no record from the planting date on) or one of the two asserts -/
theorem calendarResetDays_error {c : CalResetIn α} {temps : List (α × α)} {e : String}
    (h : calendarResetDays c temps = .error e) :
    (e = "E:unbound" ∧ ¬ (c.gddMethod = 1 ∨ c.gddMethod = 2 ∨ c.gddMethod = 3)) ∨
    (e = "E:index" ∧ temps = []) ∨ e = "E:assert:maturity" ∨ e = "E:assert:year" := by
  unfold calendarResetDays at h
  cases hm : GddMethod.ofNat? c.gddMethod with
  | none =>
    simp only [hm, Except.error.injEq] at h
    refine Or.inl ⟨h.symm, ?_⟩
    rw [← GddMethod.ofNat?_isSome_iff, hm]; simp
  | some m =>
    simp only [hm] at h
    rcases calendarDays_error h with ⟨e1, e2⟩ | ⟨e1, _⟩ | ⟨e1, _⟩
    · refine Or.inr (Or.inl ⟨e1, ?_⟩)
      have := (cumsum_eq_nil_iff _).mp e2
      simpa [gddSeriesReset] using this
    · exact Or.inr (Or.inr (Or.inl e1))
    · exact Or.inr (Or.inr (Or.inr e1))

theorem calendarInit_ok_iff (F : Fn α) {c : CalGDDIn α} {m : GddMethod}
    (hm : GddMethod.ofNat? c.gddMethod = some m) (temps : List (α × α)) :
    (∃ o, calendarInit F c temps = .ok o) ↔
      ∃ last, (cumsum (gddSeriesInit m c.tbase c.tupp temps)).getLast? = some last ∧
        c.maturity < last ∧
        firstAbove (cumsum (gddSeriesInit m c.tbase c.tupp temps)) c.maturity + 1 < 365 := by
  refine Iff.trans ?_ (calendarDays_ok_iff c.cropType (initThresh F c).1
    (cumsum (gddSeriesInit m c.tbase c.tupp temps)))
  unfold calendarInit
  simp only [hm]
  cases hd : calendarDays c.cropType (initThresh F c).1
      (cumsum (gddSeriesInit m c.tbase c.tupp temps)) with
  | error e => simp
  | ok d => simp

theorem calendarInit_error {F : Fn α} {c : CalGDDIn α} {temps : List (α × α)} {e : String}
    (h : calendarInit F c temps = .error e) :
    (e = "E:unbound" ∧ ¬ (c.gddMethod = 1 ∨ c.gddMethod = 2 ∨ c.gddMethod = 3)) ∨
    (e = "E:index" ∧ temps = []) ∨ e = "E:assert:maturity" ∨ e = "E:assert:year" := by
  unfold calendarInit at h
  cases hm : GddMethod.ofNat? c.gddMethod with
  | none =>
    simp only [hm, Except.error.injEq] at h
    refine Or.inl ⟨h.symm, ?_⟩
    rw [← GddMethod.ofNat?_isSome_iff, hm]; simp
  | some m =>
    simp only [hm] at h
    cases hd : calendarDays c.cropType (initThresh F c).1
        (cumsum (gddSeriesInit m c.tbase c.tupp temps)) with
    | ok d => simp [hd] at h
    | error e' =>
      simp only [hd, Except.error.injEq] at h
      subst h
      rcases calendarDays_error hd with ⟨e1, e2⟩ | ⟨e1, _⟩ | ⟨e1, _⟩
      · refine Or.inr (Or.inl ⟨e1, ?_⟩)
        have := (cumsum_eq_nil_iff _).mp e2
        simpa [gddSeriesInit] using this
      · exact Or.inr (Or.inr (Or.inl e1))
      · exact Or.inr (Or.inr (Or.inr e1))

/-- the harvest-index block fails only with `E:fuel` -/
theorem hiBlock_error {F : Fn α} {fuel ct : Nat} {y : Int} {hi0 hiIni : α} {e : String}
    (h : hiBlock F fuel ct y hi0 hiIni = .error e) : e = "E:fuel" := by
  unfold hiBlock at h
  cases hg : calculateHIGC F fuel (y : α) hi0 hiIni with
  | none => simp [hg] at h; exact h.symm
  | some g =>
    simp only [hg] at h
    by_cases h3 : ct = 3
    · simp only [h3, if_true] at h
      cases hl : calculateHILinear F fuel (y : α) hiIni hi0 g with
      | none => simp [hl] at h; exact h.symm
      | some r => simp [hl] at h
    · simp [h3] at h

/-- with enough fuel for the (always terminating) linear-switch loop, the harvest-index block
succeeds iff the `calculate_HIGC` loop ends within the fuel -/
theorem hiBlock_ok_iff (F : Fn α) {fuel ct : Nat} {y : Int} (hy : y ≤ (fuel : Int)) (hi0 hiIni : α) :
    (∃ r, hiBlock F fuel ct y hi0 hiIni = .ok r) ↔
      (calculateHIGC F fuel (y : α) hi0 hiIni).isSome = true := by
  have hy' : (y : α) ≤ (fuel : α) := by
    have : ((y : Int) : α) ≤ (((fuel : Nat) : Int) : α) := Int.cast_le.mpr hy
    simpa using this
  unfold hiBlock
  cases hg : calculateHIGC F fuel (y : α) hi0 hiIni with
  | none => simp
  | some g =>
    simp only [Option.isSome_some, iff_true]
    by_cases h3 : ct = 3
    · simp only [h3, if_true]
      have hs := calculateHILinear_isSome F fuel (y : α) hiIni hi0 g hy'
      cases hl : calculateHILinear F fuel (y : α) hiIni hi0 g with
      | none => rw [hl] at hs; simp at hs
      | some r => exact ⟨_, rfl⟩
    · simp only [h3, if_false]; exact ⟨_, rfl⟩

/-- **totality of the reset block**: it never fails with anything but `E:unbound`, `E:index`,
the two asserts and `E:fuel` -/
theorem calendarReset_error {F : Fn α} {fuel : Nat} {c : CalResetIn α} {temps : List (α × α)}
    {e : String} (h : calendarReset F fuel c temps = .error e) :
    (e = "E:unbound" ∧ ¬ (c.gddMethod = 1 ∨ c.gddMethod = 2 ∨ c.gddMethod = 3)) ∨
    (e = "E:index" ∧ temps = []) ∨ e = "E:assert:maturity" ∨ e = "E:assert:year" ∨
    e = "E:fuel" := by
  unfold calendarReset at h
  cases hd : calendarResetDays c temps with
  | error e' =>
    simp only [hd, Except.error.injEq] at h
    subst h
    rcases calendarResetDays_error hd with h1 | h1 | h1 | h1
    · exact Or.inl h1
    · exact Or.inr (Or.inl h1)
    · exact Or.inr (Or.inr (Or.inl h1))
    · exact Or.inr (Or.inr (Or.inr (Or.inl h1)))
  | ok d =>
    simp only [hd] at h
    cases hb : hiBlock F fuel c.cropType d.yldFormCD c.hi0 c.hiIni with
    | error e' =>
      simp only [hb, Except.error.injEq] at h
      subst h
      exact Or.inr (Or.inr (Or.inr (Or.inr (hiBlock_error hb))))
    | ok r => obtain ⟨g, t, dl⟩ := r; simp [hb] at h

/-- … and succeeds iff the calendar-day part does (non-empty list, method 1–3, two asserts) and
the `calculate_HIGC` loop for the resulting `YldFormCD` ends within the fuel
(`temps.length ≤ fuel` is enough fuel for the linear-switch loop) -/
theorem calendarReset_ok_iff (F : Fn α) {fuel : Nat} (c : CalResetIn α) (temps : List (α × α))
    (hfuel : temps.length ≤ fuel) :
    (∃ o, calendarReset F fuel c temps = .ok o) ↔
      ∃ d, calendarResetDays c temps = .ok d ∧
        (calculateHIGC F fuel (d.yldFormCD : α) c.hi0 c.hiIni).isSome = true := by
  unfold calendarReset
  cases hd : calendarResetDays c temps with
  | error e => simp
  | ok d =>
    have hy : d.yldFormCD ≤ (fuel : Int) := by
      unfold calendarResetDays at hd
      cases hm : GddMethod.ofNat? c.gddMethod with
      | none => simp [hm] at hd
      | some m =>
        simp only [hm] at hd
        have := (calendarDays_le_length hd).2.2.2.2
        rw [cumsum_length] at this
        simp only [gddSeriesReset, List.length_map] at this
        omega
    have hb := hiBlock_ok_iff F (ct := c.cropType) hy c.hi0 c.hiIni
    simp only [Except.ok.injEq, exists_eq_left']
    rw [← hb]
    cases hbb : hiBlock F fuel c.cropType d.yldFormCD c.hi0 c.hiIni with
    | error e => simp
    | ok r => obtain ⟨g, t, dl⟩ := r; simp

/-- **a non-positive `YldFormCD` makes the reset hang**: the model runs out of any fuel
(the Python `while` loop of `calculate_HIGC` does not terminate) -/
theorem calendarReset_fuel_of_yldForm_nonpos {F : Fn α} (hF : ExpOrdLaws F) {fuel : Nat}
    {c : CalResetIn α} {temps : List (α × α)} {d : CalDays}
    (hd : calendarResetDays c temps = .ok d) (hy : d.yldFormCD ≤ 0)
    (h1 : 0 < c.hiIni) (h2 : c.hiIni ≤ 0.98 * c.hi0) :
    calendarReset F fuel c temps = .error "E:fuel" := by
  have hy' : ((d.yldFormCD : Int) : α) ≤ 0 := by exact_mod_cast hy
  have := calculateHIGC_none_of_nonpos hF fuel (d.yldFormCD : α) c.hi0 c.hiIni h1 h2 hy'
  unfold calendarReset
  simp only [hd, hiBlock, this]

/-! ### the order lemmas at the entry points -/

theorem calendarInit_days {F : Fn α} {c : CalGDDIn α} {temps : List (α × α)} {o : CalGDDOut α}
    (h : calendarInit F c temps = .ok o) :
    ∃ m, GddMethod.ofNat? c.gddMethod = some m ∧
      calendarDays c.cropType (initThresh F c).1
        (cumsum (gddSeriesInit m c.tbase c.tupp temps)) = .ok o.days := by
  unfold calendarInit at h
  cases hm : GddMethod.ofNat? c.gddMethod with
  | none => simp [hm] at h
  | some m =>
    simp only [hm] at h
    cases hd : calendarDays c.cropType (initThresh F c).1
        (cumsum (gddSeriesInit m c.tbase c.tupp temps)) with
    | error e => simp [hd] at h
    | ok d =>
      simp only [hd, Except.ok.injEq] at h
      subst h
      exact ⟨m, rfl, hd⟩

theorem calendarResetDays_days {c : CalResetIn α} {temps : List (α × α)} {d : CalDays}
    (h : calendarResetDays c temps = .ok d) :
    ∃ m, GddMethod.ofNat? c.gddMethod = some m ∧
      calendarDays c.cropType c.th (cumsum (gddSeriesReset m c.tbase c.tupp temps)) = .ok d := by
  unfold calendarResetDays at h
  cases hm : GddMethod.ofNat? c.gddMethod with
  | none => simp [hm] at h
  | some m => simp only [hm] at h; exact ⟨m, rfl, h⟩

/-- **initialisation**: for `0 ≤ YldForm` and `HIstart + YldForm ≤ Maturity` the calendar is
ordered: `1 ≤ HIstartCD ≤ HIendCD ≤ MaturityCD < 365`, `0 ≤ YldFormCD` -/
theorem calendarInit_order {F : Fn α} {c : CalGDDIn α} {temps : List (α × α)} {o : CalGDDOut α}
    (h : calendarInit F c temps = .ok o) (hy : 0 ≤ c.yldForm)
    (hm : c.hiStart + c.yldForm ≤ c.maturity) :
    1 ≤ o.days.hiStartCD ∧ o.days.hiStartCD ≤ o.days.hiEndCD ∧
    o.days.hiEndCD ≤ o.days.maturityCD ∧ o.days.maturityCD < 365 ∧ 0 ≤ o.days.yldFormCD := by
  obtain ⟨m, _, hd⟩ := calendarInit_days h
  have h1 : (initThresh F c).1.hiStart ≤ (initThresh F c).1.hiEnd := by
    show c.hiStart ≤ c.hiStart + c.yldForm
    linarith
  have h2 : (initThresh F c).1.hiEnd ≤ (initThresh F c).1.maturity := hm
  have a := calendarDays_hiStart_le_hiEnd hd h1 h2
  have b := calendarDays_hiEnd_le_maturity hd h2
  have p := calendarDays_pos hd
  exact ⟨p.2.2.2.1, a.1, b, p.2.2.2.2.2, a.2⟩

/-- **reset**: the same for the thresholds stored in the crop object -/
theorem calendarResetDays_order {c : CalResetIn α} {temps : List (α × α)} {d : CalDays}
    (h : calendarResetDays c temps = .ok d) (h1 : c.th.hiStart ≤ c.th.hiEnd)
    (h2 : c.th.hiEnd ≤ c.th.maturity) :
    1 ≤ d.hiStartCD ∧ d.hiStartCD ≤ d.hiEndCD ∧ d.hiEndCD ≤ d.maturityCD ∧
    d.maturityCD < 365 ∧ 0 ≤ d.yldFormCD := by
  obtain ⟨m, _, hd⟩ := calendarResetDays_days h
  have a := calendarDays_hiStart_le_hiEnd hd h1 h2
  have b := calendarDays_hiEnd_le_maturity hd h2
  have p := calendarDays_pos hd
  exact ⟨p.2.2.2.1, a.1, b, p.2.2.2.2.2, a.2⟩

/-- **`0 < YldFormCD` at initialisation** (so that `calculate_HIGC` terminates) as soon as the
yield-formation period is at least one day's maximal thermal time long:
`Tbase ≤ Tupp`, `0 ≤ HIstart`, `Tupp − Tbase ≤ YldForm`, `HIstart + YldForm ≤ Maturity`
(true of every thermal-calendar crop of the catalogue). -/
theorem calendarInit_yldFormCD_pos {F : Fn α} {c : CalGDDIn α} {temps : List (α × α)}
    {o : CalGDDOut α} (h : calendarInit F c temps = .ok o) (hb : c.tbase ≤ c.tupp)
    (h0 : 0 ≤ c.hiStart) (hy : c.tupp - c.tbase ≤ c.yldForm)
    (hm : c.hiStart + c.yldForm ≤ c.maturity) : 0 < o.days.yldFormCD := by
  obtain ⟨m, _, hd⟩ := calendarInit_days h
  obtain ⟨last, _, _, _, _, _, _, e4, e5, e6, _⟩ := calendarDays_ok hd
  have hex : ∃ x ∈ cumsum (gddSeriesInit m c.tbase c.tupp temps), (initThresh F c).1.hiEnd < x :=
    calendarDays_exceeded hd hm
  have := firstAbove_lt_of_gap (Δ := c.tupp - c.tbase) (lo := c.hiStart)
    (hi := (initThresh F c).1.hiEnd)
    (fun g hg => (gddSeriesInit_range m hb temps g hg).2) h0
    (by show c.hiStart + (c.tupp - c.tbase) ≤ c.hiStart + c.yldForm; linarith) hex
  have e4' : o.days.hiStartCD =
      firstAbove (cumsum (gddSeriesInit m c.tbase c.tupp temps)) c.hiStart + 1 := e4
  omega

/-- the same at the reset -/
theorem calendarResetDays_yldFormCD_pos {c : CalResetIn α} {temps : List (α × α)} {d : CalDays}
    (h : calendarResetDays c temps = .ok d) (hb : c.tbase ≤ c.tupp) (h0 : 0 ≤ c.th.hiStart)
    (hy : c.th.hiStart + (c.tupp - c.tbase) ≤ c.th.hiEnd) (hm : c.th.hiEnd ≤ c.th.maturity) :
    0 < d.yldFormCD := by
  obtain ⟨m, _, hd⟩ := calendarResetDays_days h
  obtain ⟨last, _, _, _, _, _, _, e4, e5, e6, _⟩ := calendarDays_ok hd
  have hex := calendarDays_exceeded hd hm
  have := firstAbove_lt_of_gap (Δ := c.tupp - c.tbase)
    (fun g hg => (gddSeriesReset_range m hb temps g hg).2) h0 hy hex
  omega

/-! ## G. mode 1 (calendar days) -/

/-- the laws of `np.log` used below (weak monotonicity suffices) -/
structure CalLogLaws (F : Fn α) : Prop where
  log_one : F.log 1 = 0
  log_mono : ∀ x y, 0 < x → x ≤ y → F.log x ≤ F.log y

/-- the laws of Python's `round` used below -/
structure CalRound0Laws (F : Fn α) : Prop where
  round0_mono : ∀ x y, x ≤ y → F.round0 x ≤ F.round0 y
  round0_int : ∀ n : ℤ, F.round0 (n : α) = n

theorem calendarInitCD_ok_iff (F : Fn α) (c : CalCDIn α) :
    (∃ o, calendarInitCD F c = .ok o) ↔ c.switchGDD = false := by
  unfold calendarInitCD
  cases c.switchGDD <;> simp

section mode1
variable {F : Fn α} {c : CalCDIn α} {o : CalCDOut α}

/-- `HIendCD = HIstartCD + YldFormCD`; the duplicated thermal-time fields; `CGC`, `CDC` -/
theorem calendarInitCD_fields (h : calendarInitCD F c = .ok o) :
    o.hiEndCD = c.hiStartCD + c.yldFormCD ∧ o.hiEnd = o.hiEndCD ∧ o.hiStart = c.hiStartCD ∧
    o.yldForm = c.yldFormCD ∧ o.emergence = c.emergenceCD ∧ o.maxRooting = c.maxRootingCD ∧
    o.senescence = c.senescenceCD ∧ o.maturity = c.maturityCD ∧ o.maxCanopy = o.maxCanopyCD ∧
    o.canopy10Pct = o.canopy10PctCD ∧ o.canopyDevEnd = o.canopyDevEndCD ∧
    o.cgc = c.cgcCD ∧ o.cdc = c.cdcCD := by
  unfold calendarInitCD at h
  cases hs : c.switchGDD with
  | true => simp [hs] at h
  | false =>
    simp only [hs, Bool.false_eq_true, if_false, Except.ok.injEq] at h
    subst h
    exact ⟨rfl, rfl, rfl, rfl, rfl, rfl, rfl, rfl, rfl, rfl, rfl, rfl, rfl⟩

/-- `CanopyDevEndCD`: `round(HIstartCD + FloweringCD/2)` for determinant crops, else
`SenescenceCD` -/
theorem calendarInitCD_canopyDevEnd (h : calendarInitCD F c = .ok o) :
    o.canopyDevEndCD = (if c.determinant then F.round0 (c.hiStartCD + c.floweringCD / 2)
      else c.senescenceCD) := by
  unfold calendarInitCD at h
  cases hs : c.switchGDD with
  | true => simp [hs] at h
  | false =>
    simp only [hs, Bool.false_eq_true, if_false, Except.ok.injEq] at h
    subst h; rfl

/-- flowering fields: fruit/grain crops get `FloweringEndCD = HIstartCD + FloweringCD`, all others
`NO_VALUE` in `FloweringEnd` and `FloweringEndCD`; `FloweringCD` — an input, read for determinant
crops — is kept as given for every crop type (before the repair recorded in `known_findings.txt`,
property C20/C11, it was overwritten with `NO_VALUE`, which a second call of the function then
read) -/
theorem calendarInitCD_flowering (h : calendarInitCD F c = .ok o) :
    (c.cropType = 3 → o.floweringEndCD = c.hiStartCD + c.floweringCD ∧
      o.floweringEnd = c.floweringEnd ∧ o.floweringCD = c.floweringCD) ∧
    (c.cropType ≠ 3 → o.floweringEndCD = -999 ∧ o.floweringEnd = -999 ∧
      o.floweringCD = c.floweringCD) := by
  unfold calendarInitCD at h
  cases hs : c.switchGDD with
  | true => simp [hs] at h
  | false =>
    simp only [hs, Bool.false_eq_true, if_false, Except.ok.injEq] at h
    subst h
    constructor
    · intro h3; simp [h3]
    · intro h3; simp [h3]

/-- the flowering length is never changed by the calendar-day derivation -/
theorem calendarInitCD_floweringCD_kept (h : calendarInitCD F c = .ok o) :
    o.floweringCD = c.floweringCD := by
  unfold calendarInitCD at h
  cases hs : c.switchGDD with
  | true => simp [hs] at h
  | false =>
    simp only [hs, Bool.false_eq_true, if_false, Except.ok.injEq] at h
    subst h
    by_cases h3 : c.cropType = 3 <;> simp [h3]

/-- **deriving the calendar again gives the same calendar**: the inputs the function reads
(`HIstartCD`, `FloweringCD`, `SenescenceCD`, `EmergenceCD`, `CC0`, `CGC_CD`, `CCx`, `YldFormCD`, …)
are not among the fields it rewrites, so a second derivation from the crop as the first one left it
(`FloweringCD := o.floweringCD`) returns the same result — whether the model derives the calendar
once (latest harvest date given) or twice (harvest date derived) is immaterial. -/
theorem calendarInitCD_idempotent (h : calendarInitCD F c = .ok o) :
    calendarInitCD F { c with floweringCD := o.floweringCD } = .ok o := by
  rw [calendarInitCD_floweringCD_kept h]
  exact h

/-- `0 ≤ log(0.1/CC0)/CGC` when `0 < CC0 ≤ 0.1` and `0 < CGC` -/
theorem cal_log_term_nonneg (hL : CalLogLaws F) {cc0 cgc : α} (h0 : 0 < cc0) (h1 : cc0 ≤ 0.1)
    (hg : 0 < cgc) : 0 ≤ F.log (0.1 / cc0) / cgc := by
  have : (1 : α) ≤ 0.1 / cc0 := by rw [le_div_iff₀ h0]; linarith
  have := hL.log_mono 1 (0.1 / cc0) one_pos this
  rw [hL.log_one] at this
  exact div_nonneg this hg.le

/-- the argument of the second logarithm dominates the first when `0.008 ≤ CCx` -/
theorem cal_log_args_le {cc0 ccx : α} (h0 : 0 < cc0) (hx : 0.008 ≤ ccx) :
    0 < 0.1 / cc0 ∧ 0.1 / cc0 ≤ (0.25 * ccx * ccx / cc0) / (ccx - 0.98 * ccx) := by
  have hxp : 0 < ccx := lt_of_lt_of_le (by norm_num) hx
  have hden : 0 < ccx - 0.98 * ccx := by nlinarith
  refine ⟨div_pos (by norm_num) h0, ?_⟩
  rw [le_div_iff₀ hden, div_mul_eq_mul_div, div_le_div_iff_of_pos_right h0]
  nlinarith

/-- **`EmergenceCD ≤ Canopy10PctCD`** (up to rounding: for an integral `EmergenceCD`) -/
theorem calendarInitCD_emergence_le_canopy10Pct (hL : CalLogLaws F) (hR : CalRound0Laws F)
    (h : calendarInitCD F c = .ok o) (h0 : 0 < c.cc0) (h1 : c.cc0 ≤ 0.1) (hg : 0 < c.cgcCD)
    {n : ℤ} (hn : c.emergenceCD = n) : c.emergenceCD ≤ o.canopy10PctCD := by
  unfold calendarInitCD at h
  cases hs : c.switchGDD with
  | true => simp [hs] at h
  | false =>
    simp only [hs, Bool.false_eq_true, if_false, Except.ok.injEq] at h
    subst h
    simp only
    have hq := cal_log_term_nonneg hL h0 h1 hg
    have := hR.round0_mono c.emergenceCD (c.emergenceCD + F.log (0.1 / c.cc0) / c.cgcCD)
      (by linarith)
    rw [hn, hR.round0_int n] at this
    rw [hn]; exact this

/-- **`Canopy10PctCD ≤ MaxCanopyCD`** when `0.008 ≤ CCx` -/
theorem calendarInitCD_canopy10Pct_le_maxCanopy (hL : CalLogLaws F) (hR : CalRound0Laws F)
    (h : calendarInitCD F c = .ok o) (h0 : 0 < c.cc0) (hx : 0.008 ≤ c.ccx) (hg : 0 < c.cgcCD) :
    o.canopy10PctCD ≤ o.maxCanopyCD := by
  unfold calendarInitCD at h
  cases hs : c.switchGDD with
  | true => simp [hs] at h
  | false =>
    simp only [hs, Bool.false_eq_true, if_false, Except.ok.injEq] at h
    subst h
    simp only
    obtain ⟨hp, hle⟩ := cal_log_args_le h0 hx
    have hlog := hL.log_mono _ _ hp hle
    apply hR.round0_mono
    have := div_le_div_of_nonneg_right hlog hg.le
    linarith

end mode1

/-- the thermal-time analogue (mode 2): `Emergence ≤ Canopy10Pct ≤ MaxCanopy` -/
theorem initThresh_order {F : Fn α} (hL : CalLogLaws F) (hR : CalRound0Laws F) (c : CalGDDIn α)
    (h0 : 0 < c.cc0) (h1 : c.cc0 ≤ 0.1) (hx : 0.008 ≤ c.ccx) (hg : 0 < c.cgc)
    {n : ℤ} (hn : c.emergence = n) :
    c.emergence ≤ (initThresh F c).2 ∧ (initThresh F c).2 ≤ (initThresh F c).1.maxCanopy := by
  unfold initThresh
  simp only
  constructor
  · have hq := cal_log_term_nonneg hL h0 h1 hg
    have := hR.round0_mono c.emergence (c.emergence + F.log (0.1 / c.cc0) / c.cgc) (by linarith)
    rw [hn, hR.round0_int n] at this
    rw [hn]; exact this
  · obtain ⟨hp, hle⟩ := cal_log_args_le h0 hx
    have hlog := hL.log_mono _ _ hp hle
    apply hR.round0_mono
    have := div_le_div_of_nonneg_right hlog hg.le
    linarith

/-! ## Non-vacuity: concrete instances over `ℚ` -/

namespace CalExample

def Fq : Fn ℚ :=
  { exp := fun x => 1 + x, log := fun x => (x - 1) / 10, log10 := id,
    pow := fun x y => if y = 2 then x * x else x, round0 := id, round2 := id, round3 := id,
    round4 := id, pyRound2 := id }

/-- a fruit/grain crop, method 3, `Tbase = 0 ≤ Tupp = 30` -/
def cq : CalGDDIn ℚ :=
  { determinant := true, cropType := 3, gddMethod := 3, tbase := 0, tupp := 30, emergence := 1,
    maturity := 40, hiStart := 12, flowering := 10, yldForm := 20, senescence := 35,
    cc0 := 0.1, ccx := 0.8, cgc := 1, floweringEnd := 0 }

/-- three days with 10 … 20 °C: 15 growing degrees each, cumulated 15, 30, 45 -/
def tq : List (ℚ × ℚ) := [(10, 20), (10, 20), (10, 20)]

/-- the initialisation succeeds: maturity on day 3, yield formation from day 1 to day 3 -/
theorem initq :
    (match calendarInitHI Fq 10 cq 1 0.99 tq with
     | .ok (o, g, t, d) =>
       decide (o.days = { maturityCD := 3, maxCanopyCD := 1, canopyDevEndCD := 2, hiStartCD := 1,
                          hiEndCD := 3, yldFormCD := 2, floweringCD := 1 } ∧
               o.maxCanopy = 10.9 ∧ o.canopyDevEnd = 17 ∧ o.hiEnd = 32 ∧ o.floweringEnd = 22 ∧
               g = 0.002)
     | .error _ => false) = true := by decide +kernel

/-- `reset_eq_init` applies (`Tbase ≤ Tupp`) and both sides are a successful calendar -/
example : (cq.tbase ≤ cq.tupp ∨ 0 ≤ cq.maturity) ∧
    (match calendarReset Fq 10 (cq.toReset Fq 1 0.99) tq with
     | .ok o => decide (o.days.maturityCD = 3 ∧ o.days.yldFormCD = 2 ∧ o.higc = 0.002)
     | .error _ => false) = true := by
  refine ⟨Or.inl (by decide +kernel), by decide +kernel⟩

/-- `Tupp < Tbase` with a sensible crop (`0 ≤ Maturity`): both sites raise the maturity assert -/
example : (match calendarReset Fq 10 ({ cq with tbase := 30, tupp := 0 }.toReset Fq 1 0.99) tq,
      calendarInitHI Fq 10 { cq with tbase := 30, tupp := 0 } 1 0.99 tq with
     | .error e, .error e' => decide (e = "E:assert:maturity" ∧ e' = "E:assert:maturity")
     | _, _ => false) = true := by decide +kernel

/-- the premise of `reset_eq_init` cannot be dropped: `Tbase = 10 > Tupp = 5`, `Maturity = -6`,
two days at 7 °C and 3 °C.  Initialisation: growing degrees −3, −5, cumulated −3, −8, the maturity
assert fires; reset: growing degrees 0, 0, maturity "reached" on day 1. -/
def cneg : CalGDDIn ℚ :=
  { cq with gddMethod := 1, tbase := 10, tupp := 5, maturity := -6, hiStart := -20, yldForm := 5,
            flowering := 2, emergence := -30, senescence := -8 }

theorem reset_ne_init :
    ¬ (cneg.tbase ≤ cneg.tupp ∨ 0 ≤ cneg.maturity) ∧
    (match calendarResetDays (cneg.toReset Fq 1 0.99) [(7, 7), (3, 3)],
           calendarInit Fq cneg [(7, 7), (3, 3)] with
     | .ok d, .error e => decide (d.maturityCD = 1 ∧ e = "E:assert:maturity")
     | _, _ => false) = true := by
  refine ⟨by decide +kernel, by decide +kernel⟩

/-- order lemmas of part D: their hypotheses hold for the example calendar -/
example : ∃ d, calendarDays 3 (initThresh Fq cq).1 (cumsum (gddSeriesInit .m3 0 30 tq)) = .ok d ∧
    (initThresh Fq cq).1.hiStart ≤ (initThresh Fq cq).1.hiEnd ∧
    (initThresh Fq cq).1.hiEnd ≤ (initThresh Fq cq).1.maturity ∧
    d.hiStartCD ≤ d.hiEndCD ∧ d.hiEndCD ≤ d.maturityCD := by
  refine ⟨{ maturityCD := 3, maxCanopyCD := 1, canopyDevEndCD := 2, hiStartCD := 1,
            hiEndCD := 3, yldFormCD := 2, floweringCD := 1 }, by decide +kernel,
          by decide +kernel, by decide +kernel, by decide, by decide⟩

/-- `firstAbove_lt_of_gap`: daily terms `≤ 15`, `HIstart = 12`, `HIend = 32 ≥ 12 + 15` -/
example : firstAbove (cumsum [(15 : ℚ), 15, 15]) 12 < firstAbove (cumsum [(15 : ℚ), 15, 15]) 32 :=
  firstAbove_lt_of_gap (Δ := 15) (by decide +kernel) (by norm_num) (by norm_num)
    ⟨45, by decide +kernel, by norm_num⟩

/-- `calendarReset_fuel_of_yldForm_nonpos`: `HIend` beyond the last cumulative value is "reached"
on day 1 (the `argmax` convention), `YldFormCD = 1 − 2 < 0`, and the harvest-index loop cannot end -/
example : (match calendarResetDays
      ({ cropType := 3, gddMethod := 3, tbase := 0, tupp := 30,
         th := { maturity := 40, maxCanopy := 10, canopyDevEnd := 17, hiStart := 20, hiEnd := 60,
                 floweringEnd := 30 }, hi0 := 0.5, hiIni := 0.01 } : CalResetIn ℚ) tq with
     | .ok d => decide (d.hiStartCD = 2 ∧ d.hiEndCD = 1 ∧ d.yldFormCD = -1)
     | .error _ => false) = true := by decide +kernel

/-- mode 1 -/
def ccd : CalCDIn ℚ :=
  { determinant := true, cropType := 3, switchGDD := false, hiStartCD := 66, floweringCD := 13,
    senescenceCD := 107, emergenceCD := 6, maxRootingCD := 108, maturityCD := 132, yldFormCD := 61,
    cc0 := 0.05, ccx := 0.96, cgcCD := 0.16, cdcCD := 0.1, floweringEnd := 0 }

example : (match calendarInitCD Fq ccd with
     | .ok o => decide (o.hiEndCD = 127 ∧ o.canopyDevEndCD = 72.5 ∧ o.floweringEndCD = 79 ∧
                        ccd.emergenceCD ≤ o.canopy10PctCD ∧ o.canopy10PctCD ≤ o.maxCanopyCD)
     | .error _ => false) = true := by decide +kernel

end CalExample

end Aqua

#print axioms Aqua.gddDayReset_eq_daily
#print axioms Aqua.gddDayInit_eq_reset
#print axioms Aqua.gddSeriesInit_range
#print axioms Aqua.cumsum_pairwise
#print axioms Aqua.firstAbove_spec
#print axioms Aqua.firstAbove_of_none
#print axioms Aqua.firstAbove_mono
#print axioms Aqua.findAbove_eq_of_spec
#print axioms Aqua.calendarDays_ok_iff
#print axioms Aqua.calendarDays_error
#print axioms Aqua.calendarDays_pos
#print axioms Aqua.calendarDays_hiStart_le_hiEnd
#print axioms Aqua.calendarDays_hiEnd_le_maturity
#print axioms Aqua.calendarDays_maxCanopy_le_maturity
#print axioms Aqua.calendarDays_flowering_nonneg
#print axioms Aqua.calendarDays_le_length
#print axioms Aqua.firstAbove_lt_of_gap
#print axioms Aqua.reset_eq_init_days
#print axioms Aqua.reset_eq_init
#print axioms Aqua.reset_eq_init_ok
#print axioms Aqua.calendarInit_ok_iff
#print axioms Aqua.calendarInit_error
#print axioms Aqua.calendarResetDays_ok_iff
#print axioms Aqua.calendarReset_error
#print axioms Aqua.calendarReset_ok_iff
#print axioms Aqua.calendarReset_fuel_of_yldForm_nonpos
#print axioms Aqua.calendarInit_order
#print axioms Aqua.calendarResetDays_order
#print axioms Aqua.calendarInit_yldFormCD_pos
#print axioms Aqua.calendarResetDays_yldFormCD_pos
#print axioms Aqua.calendarInitCD_fields
#print axioms Aqua.calendarInitCD_emergence_le_canopy10Pct
#print axioms Aqua.calendarInitCD_canopy10Pct_le_maxCanopy
#print axioms Aqua.initThresh_order
#print axioms Aqua.CalExample.initq
#print axioms Aqua.CalExample.reset_ne_init
