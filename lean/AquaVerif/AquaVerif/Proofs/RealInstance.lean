import AquaVerif.Proofs.Response
import AquaVerif.Proofs.PowSq
import Mathlib.Analysis.SpecialFunctions.Log.Basic
import Mathlib.Analysis.SpecialFunctions.Pow.Real
import Mathlib.Analysis.Complex.ExponentialBounds
/-
Non-vacuity of the law structures of `Proofs/Response.lean`: the real exponential and logarithm
satisfy `ExpOrdLaws`, `ExpAddLaw`, `LogExpLaws`.  In addition, for the real `log10` the ET0 adjustment of
the water-stress thresholds is monotone on `[0,1]` for `et0 ≥ 0`, which turns the ordering
premise of `waterStress_range` / `waterStress_antitone_in_dr` into a premise on raw parameters.

(`Mathlib.Analysis.Complex.ExponentialBounds` is imported only for `exp 1 < 3`, i.e.
`2 < log 10`.)
-/

namespace Aqua.Response
open Real Aqua

/-- the real-number instance of the non-algebraic functions.  `round*` are placeholders
(no law of this work package mentions them); `pow` is the real power `Real.rpow`, which is
`exp (y · log x)` for `x > 0` (`realFn_pow_of_pos`), `0 ** y = 0` for `y ≠ 0`, and `x ** 2 = x · x`
for every `x` (`powSqLaw_real`; the former definition `exp (y · log x)` gave `0 ** 2 = 1`). -/
noncomputable def realFn : Fn ℝ where
  exp := Real.exp
  log := Real.log
  log10 := fun x => Real.log x / Real.log 10
  pow := fun x y => Real.rpow x y
  round0 := fun x => x
  round2 := fun x => x
  round3 := fun x => x
  round4 := fun x => x
  pyRound2 := fun x => x

theorem expOrdLaws_real : ExpOrdLaws realFn :=
  ⟨Real.exp_pos, Real.exp_zero, fun _ _ h => Real.exp_lt_exp.mpr h⟩

theorem expAddLaw_real : ExpAddLaw realFn := ⟨Real.exp_add⟩

/-- for a positive base the real power is `exp (y · log x)` -/
theorem realFn_pow_of_pos {x : ℝ} (hx : 0 < x) (y : ℝ) :
    realFn.pow x y = Real.exp (y * Real.log x) := by
  show x ^ y = _
  rw [Real.rpow_def_of_pos hx, mul_comm]

theorem realFn_pow_pos {x : ℝ} (hx : 0 < x) (y : ℝ) : 0 < realFn.pow x y :=
  Real.rpow_pos_of_pos hx y

theorem realFn_pow_nonneg {x : ℝ} (hx : 0 ≤ x) (y : ℝ) : 0 ≤ realFn.pow x y :=
  Real.rpow_nonneg hx y

/-- **`x ** 2 = x · x` for every real `x`** (also `x ≤ 0`) -/
theorem powSqLaw_real : PowSqLaw realFn :=
  ⟨fun x => by show x ^ (2 : ℝ) = x * x; rw [Real.rpow_two, sq]⟩

theorem logExpLaws_real : LogExpLaws realFn :=
  ⟨fun _ hx => Real.exp_log hx, Real.log_exp⟩

/-! ### the main lemmas instantiated at the reals (no law hypotheses left) -/

theorem ksShape_range_real {d f : ℝ} (hf : f ≠ 0) (hd0 : 0 ≤ d) (hd1 : d ≤ 1) :
    0 ≤ ksShape realFn d f ∧ ksShape realFn d f ≤ 1 :=
  ksShape_range expOrdLaws_real hf hd0 hd1

theorem requiredTime_inverts_growth_real {cco ccx cgc : ℝ} (cdc dt ccx0 : ℝ) (hcco : 0 < cco)
    (hccx : 0 < ccx) (hccx1 : ccx ≤ 1) (hcgc : cgc ≠ 0) :
    ccRequiredTime realFn (ccDevelopment realFn cco ccx cgc cdc dt .growth ccx0) cco ccx cgc cdc
      .cgc = dt :=
  requiredTime_inverts_growth expOrdLaws_real expAddLaw_real logExpLaws_real cdc dt ccx0 hcco hccx
    hccx1 hcgc

theorem fco2Init_mono_real {c c' ref bsted bface fsink : ℝ} (wp : ℝ)
    (hp : CO2Params ref bsted bface fsink) (hc : 0 ≤ c) (h : c ≤ c') :
    ∃ v v', fco2Init realFn c ref bsted bface fsink wp = some v ∧
      fco2Init realFn c' ref bsted bface fsink wp = some v' ∧ v ≤ v' :=
  fco2Init_mono expOrdLaws_real wp hp hc h

/-! ### ET0 adjustment of the water-stress thresholds over the reals -/

theorem two_lt_log_ten : (2 : ℝ) < Real.log 10 := by
  rw [Real.lt_log_iff_exp_lt (by norm_num)]
  have h3 := Real.exp_one_lt_three
  have h0 := Real.exp_pos 1
  have : Real.exp 2 = Real.exp 1 * Real.exp 1 := by
    rw [← Real.exp_add]; norm_num
  rw [this]
  nlinarith

/-- over the reals, `p ↦ p + 0.04·(5 − et0)·log10(10 − 9p)` is monotone on `(-∞, 1]` for every
`et0 ≥ 0`. -/
theorem etAdjust_mono_real {p q et0 : ℝ} (hpq : p ≤ q) (hq : q ≤ 1) (het0 : 0 ≤ et0) :
    etAdjust realFn p et0 ≤ etAdjust realFn q et0 := by
  have hl := two_lt_log_ten
  have hb : (1 : ℝ) ≤ 10 - 9 * q := by linarith
  have ha : 10 - 9 * q ≤ 10 - 9 * p := by linarith
  have hbpos : (0 : ℝ) < 10 - 9 * q := by linarith
  have hapos : (0 : ℝ) < 10 - 9 * p := by linarith
  apply etAdjust_mono_of realFn (c := 1 / 2) hpq
  · show Real.log (10 - 9 * q) / Real.log 10 ≤ Real.log (10 - 9 * p) / Real.log 10
    exact div_le_div_of_nonneg_right (Real.log_le_log hbpos ha) (by linarith)
  · show Real.log (10 - 9 * p) / Real.log 10 - Real.log (10 - 9 * q) / Real.log 10 ≤
      1 / 2 * (9 * (q - p))
    rw [← sub_div, ← Real.log_div hapos.ne' hbpos.ne']
    have h1 : Real.log ((10 - 9 * p) / (10 - 9 * q)) ≤ (10 - 9 * p) / (10 - 9 * q) - 1 :=
      Real.log_le_sub_one_of_pos (div_pos hapos hbpos)
    have h2 : (10 - 9 * p) / (10 - 9 * q) - 1 = 9 * (q - p) / (10 - 9 * q) := by
      field_simp; ring
    have h3 : 9 * (q - p) / (10 - 9 * q) ≤ 9 * (q - p) := by
      apply div_le_self _ hb; linarith
    have h4 : 0 ≤ Real.log ((10 - 9 * p) / (10 - 9 * q)) :=
      Real.log_nonneg (by rw [le_div_iff₀ hbpos]; linarith)
    rw [div_le_iff₀ (by linarith)]
    nlinarith
  · norm_num
  · nlinarith

/-- **premise of `waterStress_range` / `waterStress_antitone_in_dr` on raw parameters (reals)**:
thresholds ordered `p_up i ≤ p_lo i ≤ 1`, `0 ≤ et0`, `0 ≤ beta ≤ 100` — with or without the
ET0 adjustment, with or without the early-senescence reduction. -/
theorem wsOrdered_real (pUp pLo : Fin 4 → ℝ) (etAdj : Bool) (betaPct tEarlySen et0 : ℝ)
    (betaFlag : Bool) (h : ∀ i, pUp i ≤ pLo i) (h1 : ∀ i, pLo i ≤ 1) (het0 : 0 ≤ et0)
    (hb0 : 0 ≤ betaPct) (hb1 : betaPct ≤ 100) :
    ∀ i, wsUp realFn pUp etAdj betaPct tEarlySen et0 betaFlag i ≤ wsLo realFn pLo etAdj et0 i := by
  intro i
  -- thresholds after the (optional) ET0 adjustment stay ordered
  have hadj : ∀ j : Fin 4,
      (if etAdj ∧ j.val < 3 then etAdjust realFn (pUp j) et0 else pUp j) ≤
      (if etAdj ∧ j.val < 3 then etAdjust realFn (pLo j) et0 else pLo j) := by
    intro j
    split_ifs
    · exact etAdjust_mono_real (h j) (h1 j) het0
    · exact h j
  unfold wsUp wsLo
  simp only []
  by_cases hi : i.val = 2
  · have hi' : i = 2 := Fin.ext hi
    subst hi'
    rw [if_pos (by rfl)]
    by_cases hbf : betaFlag ∧ 0 < tEarlySen
    · rw [if_pos hbf]
      set u := (if etAdj ∧ (2 : Fin 4).val < 3 then etAdjust realFn (pUp 2) et0 else pUp 2)
      have hu := hadj 2
      have hfac0 : 0 ≤ 1 - betaPct / 100 := by
        rw [sub_nonneg, div_le_one (by norm_num)]; exact hb1
      have hfac1 : 1 - betaPct / 100 ≤ 1 := by
        have : 0 ≤ betaPct / 100 := div_nonneg hb0 (by norm_num)
        linarith
      by_cases hun : 0 ≤ u
      · apply clip01_mono
        have : u * (1 - betaPct / 100) ≤ u * 1 := mul_le_mul_of_nonneg_left hfac1 hun
        linarith
      · rw [not_le] at hun
        have hneg : u * (1 - betaPct / 100) ≤ 0 :=
          mul_nonpos_of_nonpos_of_nonneg hun.le hfac0
        have : clip01 (u * (1 - betaPct / 100)) ≤ clip01 0 := clip01_mono hneg
        have h0 : clip01 (0 : ℝ) = 0 := clip01_of_mem (le_refl _) zero_le_one
        rw [h0] at this
        exact le_trans this (clip01_range _).1
    · rw [if_neg hbf]
      exact clip01_mono (hadj 2)
  · rw [if_neg hi]
    exact clip01_mono (hadj i)

/-- all five water-stress coefficients lie in `[0,1]` and are antitone in the depletion, for
real parameters satisfying the raw premises (the C17 statement for `water_stress`). -/
theorem waterStress_real (pUp pLo fsh : Fin 4 → ℝ) (etAdj : Bool)
    (betaPct tEarlySen taw et0 : ℝ) (betaFlag : Bool) {dr dr' : ℝ}
    (h : ∀ i, pUp i ≤ pLo i) (h1 : ∀ i, pLo i ≤ 1) (het0 : 0 ≤ et0)
    (hb0 : 0 ≤ betaPct) (hb1 : betaPct ≤ 100)
    (hf : ∀ i : Fin 4, i.val < 3 → fsh i ≠ 0) (hdr : dr ≤ dr') :
    let k := waterStress realFn pUp pLo fsh etAdj betaPct tEarlySen dr taw et0 betaFlag
    let k' := waterStress realFn pUp pLo fsh etAdj betaPct tEarlySen dr' taw et0 betaFlag
    ((0 ≤ k.exp ∧ k.exp ≤ 1) ∧ (0 ≤ k.sto ∧ k.sto ≤ 1) ∧ (0 ≤ k.sen ∧ k.sen ≤ 1) ∧
      (0 ≤ k.pol ∧ k.pol ≤ 1) ∧ (0 ≤ k.stoLin ∧ k.stoLin ≤ 1)) ∧
    (k'.exp ≤ k.exp ∧ k'.sto ≤ k.sto ∧ k'.sen ≤ k.sen ∧ k'.pol ≤ k.pol ∧ k'.stoLin ≤ k.stoLin) :=
  have hord := wsOrdered_real pUp pLo etAdj betaPct tEarlySen et0 betaFlag h h1 het0 hb0 hb1
  ⟨waterStress_range expOrdLaws_real pUp pLo fsh etAdj betaPct tEarlySen dr taw et0 betaFlag hord hf,
   waterStress_antitone_in_dr expOrdLaws_real pUp pLo fsh etAdj betaPct tEarlySen taw et0 betaFlag
     hord hf hdr⟩

/-! ### non-vacuity: concrete catalogue values satisfy the premises -/

/-- Maize (`CC0 = 75000·6.5·1e-8`, `CCx = 0.96`, `CGC = 0.012494`): the inverse property holds
for every `dt`. -/
example (dt : ℝ) :
    ccRequiredTime realFn (ccDevelopment realFn 0.004875 0.96 0.012494 0.01 dt .growth 0.96)
      0.004875 0.96 0.012494 0.01 .cgc = dt :=
  requiredTime_inverts_growth_real _ _ _ (by norm_num) (by norm_num) (by norm_num) (by norm_num)

/-- Maize water-stress thresholds and shape factors satisfy the raw premises of
`waterStress_real` (ET0 adjustment on, early-senescence reduction `beta = 12`). -/
example (dr dr' taw tes : ℝ) (hdr : dr ≤ dr') :=
  waterStress_real
    (fun i : Fin 4 => if i = 0 then 0.14 else if i = 1 then 0.72 else if i = 2 then 0.69 else 0.8)
    (fun i : Fin 4 => if i = 0 then 0.72 else 1)
    (fun i : Fin 4 => if i = 0 then 2.9 else if i = 1 then 6 else if i = 2 then 2.7 else 1)
    true 12 tes taw 7.5 true (dr := dr) (dr' := dr')
    (by intro i; fin_cases i <;> simp <;> norm_num)
    (by intro i; fin_cases i <;> simp; norm_num)
    (by norm_num) (by norm_num) (by norm_num)
    (by intro i _; fin_cases i <;> simp <;> norm_num)
    hdr

/-- GDD: wheat thresholds `Tbase = 0 ≤ Tupp = 26`, method 3. -/
example (tmax tmin g : ℝ) (h : growingDegreeDay 3 (26 : ℝ) 0 tmax tmin = some g) :
    0 ≤ g ∧ g ≤ 26 - 0 := gdd_range (by norm_num) h

/-- heat stress with the catalogue's `Tmax_up = 40`, `Tmax_lo = 45`: a step at 45 °C. -/
example (tmax : ℝ) : polHeat realFn 40 45 13.8135 tmax = if tmax ≤ 45 then 1 else 0 :=
  polH_step_of_up_le_lo realFn 13.8135 tmax (by norm_num)

end Aqua.Response

section AxiomAudit
open Aqua Aqua.Response
#print axioms expOrdLaws_real
#print axioms expAddLaw_real
#print axioms powSqLaw_real
#print axioms logExpLaws_real
#print axioms drel_range
#print axioms drel_mono
#print axioms clip01_range
#print axioms clip01_mono
#print axioms ksShape_range
#print axioms ksShape_antitone
#print axioms waterStress_range
#print axioms waterStress_antitone_in_dr
#print axioms wsOrdered_of_raw_noEtAdj
#print axioms etAdjust_mono_of
#print axioms gdd_range
#print axioms gdd_mono
#print axioms polH_range
#print axioms polH_antitone_in_tmax
#print axioms polC_range
#print axioms polC_monotone_in_tmin
#print axioms polH_step_of_up_le_lo
#print axioms temperatureStress_range
#print axioms ccGrowth_range
#print axioms ccGrowth_mono_in_dt
#print axioms ccDecline_antitone
#print axioms ccDecline_le_ccx
#print axioms ccDevelopment_range01
#print axioms ccDevelopment_growth_range
#print axioms ccDevelopment_growth_mono
#print axioms ccDevelopment_decline_range
#print axioms ccDevelopment_decline_antitone
#print axioms requiredTime_inverts_growth
#print axioms requiredTime_cdc_of_decline
#print axioms fco2Init_at_ref
#print axioms fco2Reset_at_ref
#print axioms fco2Reset_eq_none_iff
#print axioms fco2Init_eq_fco2Reset
#print axioms fco2Reset_some_imp
#print axioms fco2Sel_mono
#print axioms fco2Init_mono
#print axioms fco2Reset_mono
#print axioms etAdjust_mono_real
#print axioms wsOrdered_real
#print axioms waterStress_real
end AxiomAudit
