import AquaVerif.Proofs.Irrigation
import AquaVerif.Proofs.RootZone
/-
Totality lemmas for property C16 that were not yet available in the per-process proof files:

* `rootZoneWater_isSome_iff` – `root_zone_water` succeeds exactly when the (rounded) rooting depth
  lies within the profile and, if the top-soil depth is shallower than the rooting depth, at least
  one compartment bottom lies within the top soil (`assert comp_sto > 0`);
* `irrDemand_error_iff` / `irrigation_error_iff` – which `IrrErr` can occur under which condition;
* `irrigation_ok_of` – sufficient conditions for the in-season call to succeed.
-/

set_option linter.unusedSectionVars false
set_option linter.unusedSimpArgs false
namespace Aqua
variable {α : Type} [Field α] [LinearOrder α] [IsStrictOrderedRing α]

/-! ### `root_zone_water` -/

theorem firstGE_eq_none_iff (z : α) (cells : List (Cell α)) :
    firstGE z cells = none ↔ ∀ x ∈ cells, x.c.dzsum < z := by
  induction cells with
  | nil => simp [firstGE]
  | cons x xs ih =>
    by_cases h : z ≤ x.c.dzsum
    · simp only [firstGE, h, if_true, List.mem_cons, forall_eq_or_imp]
      constructor
      · intro h'; cases h'
      · rintro ⟨h1, _⟩; exact absurd h (not_le.mpr h1)
    · simp only [firstGE, h, if_false, Option.map_eq_none_iff, ih, List.mem_cons, forall_eq_or_imp]
      exact ⟨fun h' => ⟨not_le.mp h, h'⟩, fun h' => h'.2⟩

theorem firstGE_lt_length (z : α) (cells : List (Cell α)) (k : Nat) (h : firstGE z cells = some k) :
    k < cells.length := by
  induction cells generalizing k with
  | nil => simp [firstGE] at h
  | cons x xs ih =>
    by_cases hz : z ≤ x.c.dzsum
    · simp only [firstGE, hz, if_true, Option.some.injEq] at h
      subst h; simp
    · simp only [firstGE, hz, if_false, Option.map_eq_some_iff] at h
      obtain ⟨j, hj, rfl⟩ := h
      have := ih j hj
      simp only [List.length_cons]; omega

theorem rzLoop_isSome (F : Fn α) (rd aer : α) (n : Nat) (cells : List (Cell α)) (a : RZAcc α)
    (h : n ≤ cells.length) : ∃ a', rzLoop F rd aer n cells a = some a' := by
  induction n generalizing cells a with
  | zero => exact ⟨a, by simp [rzLoop]⟩
  | succ n ih =>
    cases cells with
    | nil => simp at h
    | cons x xs =>
      simp only [rzLoop]
      exact ih xs _ (by simpa using h)

theorem ztLoop_isSome (zt : α) (n : Nat) (cells : List (Cell α)) (a : α × α × α)
    (h : n ≤ cells.length) : ∃ a', ztLoop zt n cells a = some a' := by
  induction n generalizing cells a with
  | zero => exact ⟨a, by simp [ztLoop]⟩
  | succ n ih =>
    cases cells with
    | nil => simp at h
    | cons x xs =>
      obtain ⟨a1, a2, a3⟩ := a
      simp only [ztLoop]
      exact ih xs _ (by simpa using h)

theorem countLE_le_length (z : α) (cells : List (Cell α)) : countLE z cells ≤ cells.length := by
  induction cells with
  | nil => simp [countLE]
  | cons x xs ih =>
    simp only [countLE, List.length_cons]
    split_ifs <;> omega

theorem countLE_eq_zero_iff (z : α) (cells : List (Cell α)) :
    countLE z cells = 0 ↔ ∀ x ∈ cells, ¬ x.c.dzsum ≤ z := by
  induction cells with
  | nil => simp [countLE]
  | cons x xs ih =>
    simp only [countLE, List.mem_cons, forall_eq_or_imp]
    by_cases h : x.c.dzsum ≤ z
    · simp only [h, if_true, not_true_eq_false, false_and, iff_false]; omega
    · simp only [h, if_false, Nat.zero_add, ih, not_false_eq_true, true_and]

/-- **`root_zone_water` succeeds iff** the rounded rooting depth does not exceed the bottom of the
profile and — when the top-soil depth is shallower than the rooting depth — some compartment ends
within the (rounded) top soil. -/
theorem rootZoneWater_isSome_iff (F : Fn α) (cells : List (Cell α)) (zRoot zTop zMin aer : α) :
    (rootZoneWater F cells zRoot zTop zMin aer).isSome = true ↔
      (∃ x ∈ cells, F.round2 (pmax zRoot zMin) ≤ x.c.dzsum) ∧
      (zTop < F.round2 (pmax zRoot zMin) → ∃ x ∈ cells, x.c.dzsum ≤ F.pyRound2 zTop) := by
  unfold rootZoneWater
  simp only []
  cases hf : firstGE (F.round2 (pmax zRoot zMin)) cells with
  | none =>
    have := (firstGE_eq_none_iff _ _).mp hf
    simp only [Option.isSome_none, Bool.false_eq_true, false_iff, not_and]
    rintro ⟨x, hx, hle⟩
    exact absurd hle (not_le.mpr (this x hx))
  | some k =>
    have hk := firstGE_lt_length _ _ _ hf
    have hex : ∃ x ∈ cells, F.round2 (pmax zRoot zMin) ≤ x.c.dzsum := by
      by_contra hne
      have : firstGE (F.round2 (pmax zRoot zMin)) cells = none :=
        (firstGE_eq_none_iff _ _).mpr (fun x hx => not_le.mp (fun hle => hne ⟨x, hx, hle⟩))
      rw [this] at hf; cases hf
    obtain ⟨a, ha⟩ := rzLoop_isSome F (F.round2 (pmax zRoot zMin)) aer (k + 1) cells
      ⟨0, 0, 0, 0, 0, 0⟩ (by omega)
    simp only [ha]
    by_cases hz : zTop < F.round2 (pmax zRoot zMin)
    · simp only [hz, if_true, hex, true_and, forall_true_left]
      by_cases hn : countLE (F.pyRound2 zTop) cells = 0
      · simp only [hn, if_true, Option.isSome_none, Bool.false_eq_true, false_iff, not_exists,
          not_and]
        exact (countLE_eq_zero_iff _ _).mp hn
      · obtain ⟨b, hb⟩ := ztLoop_isSome (F.pyRound2 zTop) (countLE (F.pyRound2 zTop) cells) cells
          (0, 0, 0) (countLE_le_length _ _)
        obtain ⟨b1, b2, b3⟩ := b
        simp only [hn, if_false, hb, Option.isSome_some, true_iff]
        by_contra hne
        exact hn ((countLE_eq_zero_iff _ _).mpr (fun x hx hle => hne ⟨x, hx, hle⟩))
    · simp only [hz, if_false, Option.isSome_some, hex, true_and, false_imp_iff]

/-! ### `irrigation` -/

theorem smtIndex_isSome_of_le (s : Nat) (h : s ≤ 4) : ∃ i, smtIndex s = some i := by
  rcases s with _ | _ | _ | _ | _ | s
  · exact ⟨3, rfl⟩
  · exact ⟨0, rfl⟩
  · exact ⟨1, rfl⟩
  · exact ⟨2, rfl⟩
  · exact ⟨3, rfl⟩
  · omega

theorem smtIndex_eq_none_iff (s : Nat) : smtIndex s = none ↔ 4 < s := by
  rcases s with _ | _ | _ | _ | _ | s <;> simp [smtIndex]

/-- which error the strategy chain can raise, and exactly when -/
theorem irrDemand_error_iff (P : IrrParams α) (stage : Nat) (dep taw : α) (dap : Nat)
    (sched : Option α) (e : IrrErr) :
    irrDemand P stage dep taw dap sched = .error e ↔
      (e = .index ∧ ((P.method = 1 ∧ 4 < stage) ∨ (P.method = 3 ∧ sched = none))) ∨
      (e = .zerodiv ∧ P.method = 2 ∧ P.interval = 0) ∨
      (e = .assert ∧ P.method = 3 ∧ ∃ s, sched = some s ∧ s < 0) ∨
      (e = .unbound ∧ 5 < P.method) := by
  by_cases h0 : P.method = 0
  · rw [irrDemand_rainfed P stage dep taw dap sched h0]; simp [h0]
  by_cases h1 : P.method = 1
  · rw [irrDemand_smt P stage dep taw dap sched h1]
    cases hs : smtIndex stage with
    | none =>
      have := (smtIndex_eq_none_iff stage).mp hs
      cases e <;> simp [this, h1]
    | some i =>
      have : ¬ 4 < stage := fun h => by rw [(smtIndex_eq_none_iff stage).mpr h] at hs; cases hs
      simp only []
      split_ifs <;> cases e <;> simp [this, h1]
  by_cases h2 : P.method = 2
  · rw [irrDemand_interval P stage dep taw dap sched h2]
    by_cases hi : P.interval = 0
    · cases e <;> simp [hi, h2]
    · simp only [hi, if_false]
      split_ifs <;> cases e <;> simp [h2, hi]
  by_cases h3 : P.method = 3
  · rw [irrDemand_schedule P stage dep taw dap sched h3]
    cases sched with
    | none => cases e <;> simp [h3]
    | some s =>
      simp only []
      by_cases hs : 0 ≤ s
      · have : ¬ s < 0 := not_lt.mpr hs
        cases e <;> simp [hs, this, h3]
      · have : s < 0 := not_le.mp hs
        cases e <;> simp [hs, this, h3]
  by_cases h4 : P.method = 4
  · rw [irrDemand_net P stage dep taw dap sched h4]; simp [h4]
  by_cases h5 : P.method = 5
  · rw [irrDemand_constant P stage dep taw dap sched h5]; simp [h5]
  have h6 : 5 < P.method := by omega
  unfold irrDemand
  simp only [h0, h1, h2, h3, h4, h5, if_false]
  cases e <;> simp [h6, h1, h2, h3]

/-- **errors of `irrigation` characterised**: never off season; in season exactly
`rootZone` when `root_zone_water` raises, else the errors of the strategy chain. -/
theorem irrigation_error_iff (F : Fn α) (P : IrrParams α) (cells : List (Cell α)) (st : Nat)
    (irrCum ePot tPot zRoot : α) (dap : Nat) (sched : Option α) (zMin aer zTop : α) (gs : Bool)
    (rain runoff : α) (e : IrrErr) :
    irrigation F P cells st irrCum ePot tPot zRoot dap sched zMin aer zTop gs rain runoff = .error e ↔
      gs = true ∧
      ((e = .rootZone ∧ rootZoneWater F cells zRoot zTop zMin aer = none) ∨
       (rootZoneWater F cells zRoot zTop zMin aer ≠ none ∧
        ((e = .index ∧ ((P.method = 1 ∧ 4 < (if dap = 1 then 1 else st)) ∨
            (P.method = 3 ∧ sched = none))) ∨
         (e = .zerodiv ∧ P.method = 2 ∧ P.interval = 0) ∨
         (e = .assert ∧ P.method = 3 ∧ ∃ s, sched = some s ∧ s < 0) ∨
         (e = .unbound ∧ 5 < P.method)))) := by
  unfold irrigation
  cases gs with
  | false => simp
  | true =>
    simp only [if_true, true_and]
    cases hrz : rootZoneWater F cells zRoot zTop zMin aer with
    | none =>
      simp only [Except.error.injEq, ne_eq, not_true_eq_false, false_and, or_false, and_true]
      exact eq_comm
    | some rz =>
      simp only [reduceCtorEq, and_false, false_or, ne_eq, not_false_eq_true, true_and]
      rw [← irrDemand_error_iff P (if dap = 1 then 1 else st)
        (irrDepletion rz ePot tPot zRoot zMin rain runoff) rz.tawRz dap sched e]
      cases hd : irrDemand P (if dap = 1 then 1 else st)
          (irrDepletion rz ePot tPot zRoot zMin rain runoff) rz.tawRz dap sched with
      | error e' => simp
      | ok r => simp

/-- **sufficient conditions for success**: `root_zone_water` succeeds, the method is one of the six
documented ones, the growth stage is at most 4 (threshold strategy), the interval is at least one
day (interval strategy), and the day has a non-negative scheduled depth (schedule strategy). -/
theorem irrigation_ok_of (F : Fn α) (P : IrrParams α) (cells : List (Cell α)) (st : Nat)
    (irrCum ePot tPot zRoot : α) (dap : Nat) (sched : Option α) (zMin aer zTop : α) (gs : Bool)
    (rain runoff : α)
    (hrz : gs = true → rootZoneWater F cells zRoot zTop zMin aer ≠ none)
    (hm : P.method ≤ 5)
    (h1 : P.method = 1 → (if dap = 1 then 1 else st) ≤ 4)
    (h2 : P.method = 2 → 1 ≤ P.interval)
    (h3 : P.method = 3 → ∃ s, sched = some s ∧ 0 ≤ s) :
    ∃ out, irrigation F P cells st irrCum ePot tPot zRoot dap sched zMin aer zTop gs rain runoff
      = .ok out := by
  cases hres : irrigation F P cells st irrCum ePot tPot zRoot dap sched zMin aer zTop gs rain runoff with
  | ok out => exact ⟨out, rfl⟩
  | error e =>
    exfalso
    obtain ⟨hg, hcase⟩ := (irrigation_error_iff F P cells st irrCum ePot tPot zRoot dap sched zMin
      aer zTop gs rain runoff e).mp hres
    rcases hcase with ⟨_, hn⟩ | ⟨_, hcase⟩
    · exact hrz hg hn
    · rcases hcase with ⟨_, ⟨hm1, hlt⟩ | ⟨hm3, hs⟩⟩ | ⟨_, hm2, hi⟩ | ⟨_, hm3, s, hs, hneg⟩ | ⟨_, h6⟩
      · have := h1 hm1; omega
      · obtain ⟨s, hs', _⟩ := h3 hm3; rw [hs] at hs'; cases hs'
      · have := h2 hm2; omega
      · obtain ⟨s', hs', h0⟩ := h3 hm3
        rw [hs] at hs'; cases hs'
        exact absurd hneg (not_lt.mpr h0)
      · omega

end Aqua
