import AquaVerif.Model.CropResp
import AquaVerif.Proofs.RealInstance
/-
From the decidable rational predicate `ResponseOK` (`Model/CropResp.lean`) to the premises of the
real-number theorems about the response functions (`Proofs/Response.lean`,
`Proofs/RealInstance.lean`): the cast `ℚ → ℝ` preserves every inequality of the predicate.
-/

namespace Aqua
open Aqua.Response

/-- the premises of the ℝ-level C17 theorems, for the parameters of the crop `c` cast to `ℝ` -/
structure RealPremises (c : CropResp) : Prop where
  thr_ord : ∀ i : Fin 4, ((c.pUp i : ℚ) : ℝ) ≤ ((c.pLo i : ℚ) : ℝ)
  thr_le_one : ∀ i : Fin 4, ((c.pLo i : ℚ) : ℝ) ≤ 1
  shape_ne : ∀ i : Fin 4, i.val < 3 → ((c.fshapeW i : ℚ) : ℝ) ≠ 0
  tbase_le : ((c.tbase : ℚ) : ℝ) ≤ ((c.tupp : ℚ) : ℝ)
  cc0_pos : (0 : ℝ) < ((c.cc0 : ℚ) : ℝ)
  ccx_pos : (0 : ℝ) < ((c.ccx : ℚ) : ℝ)
  ccx_le : ((c.ccx : ℚ) : ℝ) ≤ 1
  cgc_pos : (0 : ℝ) < ((c.cgc : ℚ) : ℝ)
  cdc_nn : (0 : ℝ) ≤ ((c.cdc : ℚ) : ℝ)
  beta_nn : (0 : ℝ) ≤ ((c.beta : ℚ) : ℝ)
  beta_le : ((c.beta : ℚ) : ℝ) ≤ 100
  fshapeB_nn : (0 : ℝ) ≤ ((c.fshapeB : ℚ) : ℝ)
  co2 : CO2Params (369.41 : ℝ) ((c.bsted : ℚ) : ℝ) ((c.bface : ℚ) : ℝ) ((c.fsink : ℚ) : ℝ)

theorem co2RefDefault_cast : ((co2RefDefault : ℚ) : ℝ) = 369.41 := by
  unfold co2RefDefault; norm_num

theorem realPremises_of_responseOK {c : CropResp} (h : ResponseOK c) : RealPremises c := by
  obtain ⟨h1, h2, h3, h4, h5, h6, h7, h8, h9, h10, h11, h12, g1, g2, g3, g4, g5⟩ := h
  refine ⟨fun i => by exact_mod_cast h1 i, fun i => by exact_mod_cast h2 i,
    fun i hi => by exact_mod_cast h3 i hi, by exact_mod_cast h4, by exact_mod_cast h5,
    by exact_mod_cast h6, by exact_mod_cast h7, by exact_mod_cast h8, by exact_mod_cast h9,
    by exact_mod_cast h10, by exact_mod_cast h11, by exact_mod_cast h12, ?_⟩
  have e := co2RefDefault_cast
  refine ⟨?_, ?_, by exact_mod_cast g3, by exact_mod_cast g4, ?_⟩
  · rw [← e]; exact_mod_cast g1
  · rw [← e]; exact_mod_cast g2
  · rw [← e]; exact_mod_cast g5

end Aqua
