import AquaVerif.Model.GroundwaterTable
import AquaVerif.Model.GroundwaterInflow
import AquaVerif.Proofs.GwCommon
import AquaVerif.Proofs.PowSq
/-
Lemmas about `checkGroundwaterTable` (`Model/GroundwaterTable.lean`) at an arbitrary ordered
field.  The only law of `F` needed is `PowSqLaw` (`x ** 2 = x · x`, for the range of the adjusted
field capacity): the parabola factor is in `[0,1]` because the branch conditions give
`0 < zGW − zMid < Xmax` (so `Xmax > 0` whatever `exp` is).  The frame (`th`, `flux`, `aer`,
parameters untouched), the early exit and the `wt_in_soil` flag need no law at all.
-/

set_option linter.unusedSectionVars false
set_option linter.unusedVariables false
namespace Aqua
variable {α : Type} [Field α] [LinearOrder α] [IsStrictOrderedRing α]

/-- adjusted field capacity of a compartment less than `xmax` above the table lies between field
capacity and saturation. -/
theorem gwFcAdj_range {F : Fn α} (hF : PowSqLaw F) (zGW xmax : α) (c : Comp α)
    (hfs : c.thFC ≤ c.thS) (hx : zGW - c.zMid < xmax) :
    c.thFC ≤ gwFcAdj F zGW xmax c ∧ gwFcAdj F zGW xmax c ≤ c.thS := by
  unfold gwFcAdj
  simp only [hF.pow_two]
  by_cases h1 : c.thS ≤ c.thFC
  · simp only [h1, if_true]; exact ⟨le_refl _, hfs⟩
  · by_cases h2 : zGW ≤ c.zMid
    · simp only [h1, h2, if_true, if_false]; exact ⟨hfs, le_refl _⟩
    · simp only [h1, h2, if_false]
      rw [not_le] at h1 h2
      have hxp : 0 < xmax := by linarith
      have ht0 : 0 < c.zMid - (zGW - xmax) := by linarith
      have htx : c.zMid - (zGW - xmax) < xmax := by linarith
      have hdv : 0 < c.thS - c.thFC := sub_pos.mpr h1
      have hxx : 0 < xmax * xmax := mul_pos hxp hxp
      set t := c.zMid - (zGW - xmax) with ht
      have htt : t * t ≤ xmax * xmax := by nlinarith
      have h0 : 0 ≤ (c.thS - c.thFC) / (xmax * xmax) * (t * t) := by positivity
      have h1' : (c.thS - c.thFC) / (xmax * xmax) * (t * t) ≤ c.thS - c.thFC := by
        rw [div_mul_eq_mul_div, div_le_iff₀ hxx]
        exact mul_le_mul_of_nonneg_left htt hdv.le
      constructor <;> linarith

/-- relation between an input cell and the corresponding output cell of the adjustment -/
def GwtRel (x y : Cell α) : Prop :=
  y.c = x.c ∧ y.th = x.th ∧ y.flux = x.flux ∧ y.aer = x.aer ∧
    (x.c.thFC ≤ x.c.thS → x.c.thFC ≤ y.fcAdj ∧ y.fcAdj ≤ x.c.thS)

theorem resetFC_rel (x : Cell α) : GwtRel x x.resetFC :=
  ⟨rfl, rfl, rfl, rfl, fun h => ⟨le_refl _, h⟩⟩

theorem gwtLoop_rel {F : Fn α} (hF : PowSqLaw F) (zGW : α) (rev : List (Cell α)) :
    List.Forall₂ GwtRel rev (gwtLoop F zGW rev) := by
  induction rev with
  | nil => simp [gwtLoop]
  | cons x xs ih =>
    by_cases h : zGW < 0 ∨ gwXmax F x.c.thFC ≤ zGW - x.c.zMid
    · simp only [gwtLoop, h, if_true]
      rw [List.forall₂_map_right_iff]
      exact List.forall₂_same.mpr (fun y _ => resetFC_rel y)
    · simp only [gwtLoop, h, if_false]
      rw [not_or, not_lt, not_le] at h
      exact List.Forall₂.cons
        ⟨rfl, rfl, rfl, rfl, fun hfs => gwFcAdj_range hF zGW _ x.c hfs h.2⟩ ih

/-- the frame of the loop: parameters, `th`, `flux`, `aer` untouched — for every `F`, no law -/
theorem gwtLoop_frame (F : Fn α) (zGW : α) (rev : List (Cell α)) :
    List.Forall₂ (fun x y : Cell α => y.c = x.c ∧ y.th = x.th ∧ y.flux = x.flux ∧ y.aer = x.aer)
      rev (gwtLoop F zGW rev) := by
  induction rev with
  | nil => simp [gwtLoop]
  | cons x xs ih =>
    by_cases h : zGW < 0 ∨ gwXmax F x.c.thFC ≤ zGW - x.c.zMid
    · simp only [gwtLoop, h, if_true]
      rw [List.forall₂_map_right_iff]
      exact List.forall₂_same.mpr (fun y _ => ⟨rfl, rfl, rfl, rfl⟩)
    · simp only [gwtLoop, h, if_false]
      exact List.Forall₂.cons ⟨rfl, rfl, rfl, rfl⟩ ih

/-- the early exit at the first (= bottom) compartment resets everything -/
theorem gwtLoop_far (F : Fn α) (zGW : α) (x : Cell α) (xs : List (Cell α))
    (h : zGW < 0 ∨ gwXmax F x.c.thFC ≤ zGW - x.c.zMid) :
    gwtLoop F zGW (x :: xs) = (x :: xs).map Cell.resetFC := by
  simp only [gwtLoop, h, if_true]

/-! ### the process -/

/-- **Frame + `fcAdj_range`** (pointwise, in profile order): `th`, `flux`, `aer` and the
parameters are untouched, and `thFC ≤ fcAdj' ≤ thS` wherever `thFC ≤ thS`. -/
theorem checkGroundwaterTable_rel {F : Fn α} (hF : PowSqLaw F) (cells : List (Cell α)) (zGW : α)
    (r : GwtOut α) (h : checkGroundwaterTable F cells 1 zGW = some r) :
    List.Forall₂ GwtRel cells r.cells := by
  unfold checkGroundwaterTable at h
  by_cases hz : 0 ≤ zGW
  · simp only [hz, if_true] at h
    rw [← Option.some.inj h]
    simp only
    rw [← List.forall₂_reverse_iff, List.reverse_reverse]
    exact gwtLoop_rel hF zGW cells.reverse
  · simp [hz] at h

/-- **Frame** alone (pointwise, in profile order), for every `F` — no law. -/
theorem checkGroundwaterTable_frame1 (F : Fn α) (cells : List (Cell α)) (zGW : α) (r : GwtOut α)
    (h : checkGroundwaterTable F cells 1 zGW = some r) :
    List.Forall₂ (fun x y : Cell α => y.c = x.c ∧ y.th = x.th ∧ y.flux = x.flux ∧ y.aer = x.aer)
      cells r.cells := by
  unfold checkGroundwaterTable at h
  by_cases hz : 0 ≤ zGW
  · simp only [hz, if_true] at h
    rw [← Option.some.inj h]
    simp only
    rw [← List.forall₂_reverse_iff, List.reverse_reverse]
    exact gwtLoop_frame F zGW cells.reverse
  · simp [hz] at h

theorem checkGroundwaterTable_length (F : Fn α) (cells : List (Cell α)) (zGW : α) (r : GwtOut α)
    (h : checkGroundwaterTable F cells 1 zGW = some r) : r.cells.length = cells.length :=
  (checkGroundwaterTable_frame1 F cells zGW r h).length_eq.symm

/-- **`fcAdj_range`**: after `checkGroundwaterTable` on well-formed compartments,
`thFC ≤ fcAdj' ≤ thS` for every cell. -/
theorem fcAdj_range {F : Fn α} (hF : PowSqLaw F) (cells : List (Cell α)) (zGW : α) (r : GwtOut α)
    (hwf : ∀ x ∈ cells, x.c.WF) (h : checkGroundwaterTable F cells 1 zGW = some r) :
    ∀ y ∈ r.cells, y.c.WF ∧ y.c.thFC ≤ y.fcAdj ∧ y.fcAdj ≤ y.c.thS := by
  intro y hy
  obtain ⟨x, hx, hc, -, -, -, hr⟩ :=
    gw_forall₂_mem_right (checkGroundwaterTable_rel hF cells zGW r h) hy
  have := hr (hwf x hx).fc_s
  exact ⟨hc ▸ hwf x hx, by rw [hc]; exact this.1, by rw [hc]; exact this.2⟩

/-- the cell invariant is re-established for `fcAdj` and kept for `th` -/
theorem checkGroundwaterTable_inv {F : Fn α} (hF : PowSqLaw F) (cells : List (Cell α)) (zGW : α)
    (r : GwtOut α)
    (hinv : ∀ x ∈ cells, x.Inv) (h : checkGroundwaterTable F cells 1 zGW = some r) :
    ∀ y ∈ r.cells, y.Inv := by
  intro y hy
  obtain ⟨x, hx, hc, hth, -, -, hr⟩ :=
    gw_forall₂_mem_right (checkGroundwaterTable_rel hF cells zGW r h) hy
  have ix := hinv x hx
  have := hr ix.wf.fc_s
  exact ⟨hc ▸ ix.wf, by rw [hc, hth]; exact ix.th_lo, by rw [hc, hth]; exact ix.th_hi,
    by rw [hc]; exact this.1, by rw [hc]; exact this.2⟩

/-- **`fcAdj_far`**: if the bottom compartment is at least its `Xmax` above the table
(`zGW − zMid_last ≥ Xmax_last`), the adjusted field capacity is `thFC` everywhere.
(The loop exits at its first iteration; compartments above are *not* examined, although a
compartment above could have a larger `Xmax` than the bottom one — see `gwXmax`.) -/
theorem fcAdj_far (F : Fn α) (front : List (Cell α)) (last : Cell α) (zGW : α) (hz : 0 ≤ zGW)
    (hfar : gwXmax F last.c.thFC ≤ zGW - last.c.zMid) :
    checkGroundwaterTable F (front ++ [last]) 1 zGW =
      some { cells := (front ++ [last]).map Cell.resetFC, table := true,
             wtInSoil := anyMidGE zGW (front ++ [last]), zGW := zGW } := by
  unfold checkGroundwaterTable
  simp only [hz, if_true, List.reverse_append, List.reverse_singleton, List.singleton_append]
  rw [gwtLoop_far F zGW last front.reverse (Or.inr hfar)]
  simp [List.map_reverse]

theorem fcAdj_far_mem (F : Fn α) (front : List (Cell α)) (last : Cell α) (zGW : α) (r : GwtOut α)
    (hfar : gwXmax F last.c.thFC ≤ zGW - last.c.zMid)
    (h : checkGroundwaterTable F (front ++ [last]) 1 zGW = some r) :
    ∀ y ∈ r.cells, y.fcAdj = y.c.thFC := by
  have hz : 0 ≤ zGW := by
    by_contra hz
    simp [checkGroundwaterTable, hz] at h
  rw [fcAdj_far F front last zGW hz hfar] at h
  rw [← Option.some.inj h]
  intro y hy
  simp only [List.mem_map] at hy
  obtain ⟨x, _, rfl⟩ := hy
  rfl

/-- `wtInSoil` is exactly "some mid-point is at or below the table". -/
theorem anyMidGE_iff (zGW : α) (cells : List (Cell α)) :
    anyMidGE zGW cells = true ↔ ∃ x ∈ cells, zGW ≤ x.c.zMid := by
  induction cells with
  | nil => simp [anyMidGE]
  | cons x xs ih =>
    by_cases hz : zGW ≤ x.c.zMid
    · simp only [anyMidGE, hz, if_true, true_iff]; exact ⟨x, by simp, hz⟩
    · simp only [anyMidGE, hz, if_false, ih]
      constructor
      · rintro ⟨y, hy, h⟩; exact ⟨y, by simp [hy], h⟩
      · rintro ⟨y, hy, h⟩
        rcases List.mem_cons.mp hy with rfl | hy'
        · exact absurd h hz
        · exact ⟨y, hy', h⟩

theorem checkGroundwaterTable_wt (F : Fn α) (cells : List (Cell α)) (zGW : α) (r : GwtOut α)
    (h : checkGroundwaterTable F cells 1 zGW = some r) :
    r.table = true ∧ r.zGW = zGW ∧ 0 ≤ zGW ∧ (r.wtInSoil = true ↔ ∃ x ∈ cells, zGW ≤ x.c.zMid) := by
  unfold checkGroundwaterTable at h
  by_cases hz : 0 ≤ zGW
  · simp only [hz, if_true] at h
    rw [← Option.some.inj h]
    exact ⟨rfl, rfl, hz, anyMidGE_iff zGW cells⟩
  · simp [hz] at h

/-- the `UnboundLocalError`: table present and negative depth. -/
theorem checkGroundwaterTable_error_iff (F : Fn α) (cells : List (Cell α)) (wt : Nat) (zGW : α) :
    checkGroundwaterTable F cells wt zGW = none ↔ wt = 1 ∧ zGW < 0 := by
  unfold checkGroundwaterTable
  by_cases h1 : wt = 1 <;> by_cases hz : 0 ≤ zGW <;> simp [h1, hz, not_lt.mpr, not_le.mp]

/-- **`no_table`** (field-capacity part): without a water table nothing changes. -/
theorem checkGroundwaterTable_no_table (F : Fn α) (cells : List (Cell α)) (wt : Nat) (zGW : α)
    (h : wt ≠ 1) :
    checkGroundwaterTable F cells wt zGW =
      some { cells := cells, table := false, wtInSoil := false, zGW := zGW } := by
  simp [checkGroundwaterTable, h]

/-- Consistency of step 1 and step 14 of the day: with the `wtInSoil`, `zGW` that
`checkGroundwaterTable` returns, `groundwaterInflow` does not raise (on any water contents, as long
as the compartment parameters are the same). -/
theorem groundwaterInflow_ok_of_check (F : Fn α) (cells cells' : List (Cell α)) (wt : Nat) (zGW : α)
    (r : GwtOut α) (h : checkGroundwaterTable F cells wt zGW = some r)
    (hc : List.Forall₂ (fun x y : Cell α => y.c = x.c) cells cells') :
    groundwaterInflow cells' r.wtInSoil r.zGW ≠ none := by
  intro hn
  by_cases h1 : wt = 1
  · subst h1
    obtain ⟨-, hz, -, hw⟩ := checkGroundwaterTable_wt F cells zGW r h
    cases hwt : r.wtInSoil with
    | false => rw [hwt] at hn; simp [groundwaterInflow] at hn
    | true =>
      rw [hwt, hz] at hn
      simp only [groundwaterInflow, if_true] at hn
      obtain ⟨x, hx, hzx⟩ := hw.mp hwt
      obtain ⟨y, hy, hcy⟩ := gw_forall₂_mem_left hc hx
      have hlt : ∀ x ∈ cells', x.c.zMid < zGW := by
        -- from `gwSeek = none`
        clear hw hwt hz h hc hx hy
        induction cells' with
        | nil => simp
        | cons a as ih =>
          by_cases ha : zGW ≤ a.c.zMid
          · simp [gwSeek, ha] at hn
          · simp only [gwSeek, ha, if_false] at hn
            cases hs : gwSeek zGW as with
            | none =>
              intro b hb
              rcases List.mem_cons.mp hb with rfl | hb'
              · exact not_le.mp ha
              · exact ih hs b hb'
            | some q => rw [hs] at hn; simp at hn
      have := hlt y hy
      rw [hcy] at this
      exact absurd hzx (not_le.mpr this)
  · rw [checkGroundwaterTable_no_table F cells wt zGW h1] at h
    rw [← Option.some.inj h] at hn
    simp [groundwaterInflow] at hn

/-! ### non-vacuity: table at 0.45 m under two 0.1 m compartments (Xmax = 2 as `thFC = 0.3`) -/

example :
    (checkGroundwaterTable ⟨id, id, id, fun x _ => x * x, id, id, id, id, id⟩
      [⟨gwExComp (1/10) (1/20), 1/10, 3/10, 0, 0⟩, ⟨gwExComp (1/5) (3/20), 1/5, 3/10, 0, 0⟩]
      1 (9/20 : ℚ)).map (fun r => r.cells.map (·.fcAdj)) = some [107/250, 889/2000] := by
  simp only [checkGroundwaterTable, gwtLoop, gwXmax, gwFcAdj, gwExComp, List.reverse_cons,
    List.reverse_nil, List.nil_append, List.singleton_append]
  norm_num

end Aqua

section
open Aqua
#print axioms fcAdj_range
#print axioms fcAdj_far
#print axioms fcAdj_far_mem
#print axioms checkGroundwaterTable_rel
#print axioms checkGroundwaterTable_inv
#print axioms checkGroundwaterTable_no_table
#print axioms checkGroundwaterTable_error_iff
#print axioms groundwaterInflow_ok_of_check
end
