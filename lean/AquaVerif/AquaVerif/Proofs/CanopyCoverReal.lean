import AquaVerif.Proofs.CanopyCover
import AquaVerif.Proofs.RealInstance
/-
Non-vacuity of the premises of `Proofs/CanopyCover.lean` at the reals (`Real.exp`, `Real.log`):
the built-in Wheat crop (calendar days) and MaizeGDD crop (degree days, any `0 ≤ gdd ≤ 80`) satisfy
`CcParams`; a mid-growth state satisfies `CcPre` / `NsRng`; `PowCubeNonneg` holds for the real
power.  Hence `cc_c05` applies to them with no law hypothesis left.
-/

namespace Aqua.CanopyCoverReal
open Real Aqua Aqua.Response

theorem powCubeNonneg_real : PowCubeNonneg realFn :=
  ⟨fun _ hx => realFn_pow_nonneg hx 3⟩

/-- the parameters `canopy_cover` reads, built-in Wheat (`CalendarType = 1`) -/
noncomputable def wheat : CcCrop ℝ :=
  { calendarType := 1, emergence := 13, maturity := 197, canopyDevEnd := 134, senescence := 158,
    cc0 := 0.0675, ccx := 0.96, cgc := 0.04901, cdc := 0.07179, zMin := 0.3, aer := 5,
    pUp := ![0.2, 0.65, 0.7, 0.85], pLo := ![0.65, 1, 1, 1], fshW := ![5, 2.5, 2.5, 1],
    etAdj := true, beta := 12 }

/-- built-in MaizeGDD (`CalendarType = 2`) -/
noncomputable def maizeGDD : CcCrop ℝ :=
  { calendarType := 2, emergence := 80, maturity := 1700, canopyDevEnd := 970, senescence := 1400,
    cc0 := 0.004875, ccx := 0.96, cgc := 0.012494, cdc := 0.01, zMin := 0.3, aer := 5,
    pUp := ![0.14, 0.69, 0.69, 0.8], pLo := ![0.72, 1, 1, 1], fshW := ![2.9, 6, 2.7, 1],
    etAdj := true, beta := 12 }

theorem exp_le_three {x : ℝ} (hx : x ≤ 1) : Real.exp x ≤ 3 :=
  le_trans (Real.exp_le_exp.mpr hx) Real.exp_one_lt_three.le

theorem wheat_params : CcParams realFn wheat 1 := by
  refine ⟨by norm_num [wheat], by norm_num [wheat], by norm_num, ?_⟩
  show (0.0675 : ℝ) * Real.exp (0.04901 * 1) ≤ 0.96
  have := exp_le_three (x := 0.04901 * 1) (by norm_num)
  nlinarith

theorem maizeGDD_params {gdd : ℝ} (h0 : 0 ≤ gdd) (h1 : gdd ≤ 80) : CcParams realFn maizeGDD gdd := by
  refine ⟨by norm_num [maizeGDD], by norm_num [maizeGDD], h0, ?_⟩
  show (0.004875 : ℝ) * Real.exp (0.012494 * gdd) ≤ 0.96
  have := exp_le_three (x := 0.012494 * gdd) (by nlinarith)
  nlinarith

/-- a Wheat state in the growth stage (day 60, moderate stress history) -/
noncomputable def wheatState : CcState ℝ :=
  { dap := 60, delayedCds := 0, gddCum := 700, delayedGdds := 0, zRoot := 0.8, cc := 0.52,
    ccNS := 0.61, cc0Adj := 0.0675, ccxAct := 0.52, ccxActNS := 0.61, ccxW := 0.52, ccxWNS := 0,
    ccxEarlySen := 0, ccPrev := 0.5, tEarlySen := 0, ccAdj := 0.66, ccAdjNS := 0.74,
    prematSenes := false, cropDead := false, protectedSeed := false }

example : CcPre wheat wheatState := by
  refine ⟨?_, ?_, ?_, ?_⟩ <;> norm_num [wheat, wheatState]

example : NsRng wheat wheatState := by
  refine ⟨?_, ?_, ?_⟩ <;> norm_num [wheat, wheatState]

example (gdd : ℝ) : CcParamsFor realFn wheat wheatState gdd :=
  ccParamsFor_of wheatState (fun _ => wheat_params) (fun h => by simp [wheat] at h)

/-- C05 for one Wheat day over the reals — no hypothesis about `exp` left -/
theorem wheat_day_c05 {cells : List (Cell ℝ)} {zTop gdd et0 : ℝ} {gs : Bool} {out : CcState ℝ}
    (h : canopyCover realFn wheat cells zTop wheatState gdd et0 gs = .ok out) :
    0 ≤ out.cc ∧ out.cc ≤ out.ccNS ∧ out.ccNS ≤ 0.96 ∧ out.ccAdj ≤ 1 ∧ out.ccAdjNS ≤ 1 ∧
      (gs = false → out.cc = 0 ∧ out.ccNS = 0 ∧ out.ccAdj = 0 ∧ out.ccAdjNS = 0) :=
  cc_c05 expOrdLaws_real (crop := wheat) (by norm_num [wheat])
    (ccParamsFor_of wheatState (fun _ => wheat_params) (fun h => by simp [wheat] at h))
    (by refine ⟨?_, ?_, ?_, ?_⟩ <;> norm_num [wheat, wheatState])
    (by norm_num [wheat, wheatState])
    (by refine ⟨?_, ?_, ?_⟩ <;> norm_num [wheat, wheatState]) h

end Aqua.CanopyCoverReal

#print axioms Aqua.cc_offseason
#print axioms Aqua.ccadj_le_one
#print axioms Aqua.ccadj_nonneg
#print axioms Aqua.cc_le_ns
#print axioms Aqua.cc_range
#print axioms Aqua.cc_le_max
#print axioms Aqua.ccns_range
#print axioms Aqua.ccxact_le_of_no_rewatering
#print axioms Aqua.cc_c05
#print axioms Aqua.rewater_le
#print axioms Aqua.CanopyCoverReal.wheat_day_c05
