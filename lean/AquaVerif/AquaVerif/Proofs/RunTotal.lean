import AquaVerif.Proofs.RunTotalDay
import AquaVerif.Proofs.RunClosed
import AquaVerif.Proofs.SeasonIndep
/-
Work package Z, part 3: **a run of a valid configuration never takes an error branch** (property
C16 as a theorem about `performR` / `runModel`, `Model/Run.lean`).

Premises — all on the configuration:
* `CfgOK F T cfg` (`Proofs/RunClosed.lean`; used here: the laws of `F`, the crop records `CropOK`,
  the initial root envelope);
* `CfgTotOK F cfg Zcap Zev` (new): well-formed clock and cleared initial flags; the geometry of the
  initial profile (`ProfOK`); the option switches of every crop record (`CropTotOK`); irrigation,
  groundwater, evaporation and CO2 parameters; `growth_stage ≤ 4` and `evap_z` in range initially;
* `TopOK F cfg.W0.soil.zTop cfg.init.cells` — the **named exception** (`assert comp_sto > 0` of
  `root_zone_water`).

No premise about the weather and none about computed values (in particular no `ResidualW`: the
error sites read the water contents nowhere).

Results: the invariant `RunInvZ` in every reachable state (`run_invZ`), **`performR_total`** (from
every reachable unfinished state `_perform_timestep` returns `.ok`), **`run_total`**
(`run_model(num_steps = k)` returns `.ok` for every `k ≥ 1`; `k = 0` is the documented rejection
`E:numsteps`), **`run_finishes`** (`num_steps = n` from the initial state ends with
`finished = true`).
-/

set_option linter.unusedSectionVars false
set_option linter.unusedVariables false
set_option linter.unusedSimpArgs false
namespace Aqua
open Aqua.Clock
variable {α : Type} [Field α] [LinearOrder α] [IsStrictOrderedRing α]

/-! ## 1. premises on the configuration -/

/-- option switches and depth parameters of one crop record -/
structure CropTotOK (c : CropParams α) (Zcap : α) : Prop where
  gdd : c.cx.gddMethod = 1 ∨ c.cx.gddMethod = 2 ∨ c.cx.gddMethod = 3
  calW : c.cw.calendarType = 1 ∨ c.cw.calendarType = 2
  calRd : c.cx.rd.calendarType = 1 ∨ c.cx.rd.calendarType = 2
  calCc : c.cx.cc.calendarType = 1 ∨ c.cx.cc.calendarType = 2
  cold : c.cw.tr.trColdStress = 0 ∨ c.cw.tr.trColdStress = 1
  ctype : c.cx.hi.cropType = 1 ∨ c.cx.hi.cropType = 2 ∨ c.cx.hi.cropType = 3
  pol : (c.cx.hik.polHeatStress = 0 ∨ c.cx.hik.polHeatStress = 1) ∧
    (c.cx.hik.polColdStress = 0 ∨ c.cx.hik.polColdStress = 1)
  /-- `SxBot ≠ 0` (Python-float division in the `rCor` update of `root_development`) -/
  sxBot : c.cx.rd.sxBot ≠ 0
  capZmax : c.cx.rd.zmax ≤ Zcap
  capTr : c.cw.tr.zMin ≤ Zcap
  capCc : c.cx.cc.zMin ≤ Zcap
  capHi : c.cx.hik.zMin ≤ Zcap

/-- what an irrigation-management record has to satisfy -/
structure IrrTotOK (i : IrrSet α) : Prop where
  method : i.irr.method ≤ 5
  interval : i.irr.method = 2 → 1 ≤ i.irr.interval
  appEff : 0 ≤ i.irr.appEff

/-- **the further configuration premises of totality** -/
structure CfgTotOK (F : Fn α) (cfg : RunCfg α) (Zcap Zev : α) : Prop where
  wf : WF cfg.clock
  initOK : InitOK cfg
  prof : ProfOK F cfg.W0.soil cfg.W0.waterTable cfg.zGerm Zcap Zev cfg.init.cells
  crop : ∀ season : Int, CropTotOK (cropOf cfg season) Zcap
  cap0 : 0 ≤ Zcap
  irr : IrrTotOK cfg.irr
  fallowIrr : IrrTotOK cfg.fallowIrr
  /-- schedule strategy: every day of the window has a non-negative scheduled depth -/
  sched : cfg.irr.irr.method = 3 → ∀ t, ∃ v, cfg.irr.sched t = some v ∧ 0 ≤ v
  wt : cfg.W0.waterTable = 0 ∨ cfg.W0.waterTable = 1
  /-- with a water table its depth is defined (not NaN) and non-negative on every day -/
  zgw : cfg.W0.waterTable = 1 → ∀ t, 0 ≤ cfg.zgw t
  steps : cfg.W0.evapTimeSteps ≠ 0
  evLo : cfg.W0.soil.evapZMin ≤ Zev
  evHi : cfg.W0.soil.evapZMax + 0.001 ≤ Zev
  evFuel : cfg.W0.soil.evapZMax - cfg.W0.soil.evapZMin ≤ 100
  co2 : cfg.W0.co2Ref ≠ 550
  stage0 : cfg.init.growthStage ≤ 4
  ev0 : cfg.W0.soil.evapZMax - 100 ≤ cfg.init.evapZ
  ev1 : cfg.init.evapZ ≤ Zev

/-! ## 2. the invariant -/

/-- what totality needs of a run state: unchanged compartments, the root envelope,
`growth_stage ≤ 4`, `evap_z ∈ [EvapZmax − 100, Zev]` -/
structure RunInvZ (F : Fn α) (cfg : RunCfg α) (Zev : α) (s : RunState α) : Prop where
  comps : s.day.cells.map (·.c) = cfg.init.cells.map (·.c)
  root : RootInv F (paramsOf cfg s.season false) s.day
  stage : s.day.growthStage ≤ 4
  evLo : cfg.W0.soil.evapZMax - 100 ≤ s.day.evapZ
  evHi : s.day.evapZ ≤ Zev
  season : -1 ≤ s.season

theorem resetState_comps (cfg : RunCfg α) (crop : CropParams α) (st : DayState' α) :
    (resetState cfg crop st).cells.map (·.c) = st.cells.map (·.c) := by
  have hc0 : (st.cells.map (fun x => { x with aer := 0 })).map (·.c) = st.cells.map (·.c) := by
    rw [List.map_map]; rfl
  unfold resetState resetStateCore
  simp only
  cases cfg.clock.offSeason with
  | true => simp only [if_true]; exact hc0
  | false =>
    simp only [Bool.false_eq_true, if_false]
    rw [setTh_comps, hc0]

section day
variable {F : Fn α} {T : TrigFn α} {cfg : RunCfg α} {Zcap Zev : α} {s : RunState α}

/-- `gs = true` only from the first season on -/
theorem gsOfDay_season {ph : Option (Nat × Int)} {season : Int} {t : Nat} {m d : Bool}
    (hph : seasonInfo cfg.clock season = .ok ph) (hg : gsOfDay ph t m d = true) : 0 ≤ season := by
  have hs := seasonInfo_isSome hph
  cases ph with
  | none => simp [gsOfDay] at hg
  | some q => simpa using hs.symm

/-- the day's parameter record and inputs satisfy `DayParOK` -/
theorem dayParOK_of (hC : CfgOK F T cfg) (hZ : CfgTotOK F cfg Zcap Zev) {ph : Option (Nat × Int)}
    (hph : seasonInfo cfg.clock s.season = .ok ph) :
    DayParOK F (paramsOf cfg s.season (dayInOf cfg s ph).gs) (dayInOf cfg s ph) Zcap Zev := by
  have hc := hZ.crop s.season
  have hirr : IrrTotOK (if 0 ≤ s.season then cfg.irr else cfg.fallowIrr) := by
    split_ifs
    · exact hZ.irr
    · exact hZ.fallowIrr
  exact
    { gdd := fun _ => hc.gdd
      wt := hZ.wt
      zgw := fun hw => by
        have hw' : cfg.W0.waterTable = 1 := hw
        show 0 ≤ (if cfg.W0.waterTable = 1 then cfg.zgw s.t else 0)
        rw [if_pos hw']; exact hZ.zgw hw' s.t
      calW := fun _ => hc.calW
      calRd := fun _ => hc.calRd
      calCc := fun _ => hc.calCc
      irrM := hirr.method
      irrInt := hirr.interval
      irrSched := fun hg hm => by
        have h0 : 0 ≤ s.season := gsOfDay_season hph hg
        have hm' : (if 0 ≤ s.season then cfg.irr else cfg.fallowIrr).irr.method = 3 := hm
        rw [if_pos h0] at hm'
        show ∃ v, (if 0 ≤ s.season then cfg.irr else cfg.fallowIrr).sched s.t = some v ∧ 0 ≤ v
        rw [if_pos h0]
        exact hZ.sched hm' s.t
      appEff := hirr.appEff
      steps := hZ.steps
      evLo := hZ.evLo
      evHi := hZ.evHi
      evFuel := hZ.evFuel
      co2 := hZ.co2
      cold := hc.cold
      ctype := hc.ctype
      pol := hc.pol
      zminPos := (hC.crop s.season).zminPos
      sxBot := hc.sxBot
      capZmax := hc.capZmax
      capTr := hc.capTr
      capCc := hc.capCc
      capHi := hc.capHi
      cap0 := hZ.cap0 }

/-- the premises of the root envelope for the day's parameter record, on the run state's profile -/
theorem rootPre_of (hC : CfgOK F T cfg) (hZ : CfgTotOK F cfg Zcap Zev) (hI : RunInvZ F cfg Zev s)
    (gs : Bool) : RootPre F (paramsOf cfg s.season gs) s.day.cells := by
  have hc := hC.crop s.season
  have hG := hZ.prof.congr hI.comps
  exact ⟨hC.fn.pow, hC.fn.expOrd, hc.rdWF, hc.temp, hc.pUp1, hc.fw1, hc.skip,
    fun x hx => ⟨hG.dz x hx, (hG.pen x hx).1, (hG.pen x hx).2.1, (hG.pen x hx).2.2⟩⟩

theorem dayStOK_of (hI : RunInvZ F cfg Zev s) (gs : Bool) :
    DayStOK F (paramsOf cfg s.season gs) s.day Zev :=
  ⟨rootInv_of_cx_eq (paramsOf_cx cfg s.season false gs) hI.root, hI.stage, hI.evLo, hI.evHi⟩

/-- **the day simulated from a run state satisfying the invariant succeeds** -/
theorem fullDay_total_of_inv (hC : CfgOK F T cfg) (hZ : CfgTotOK F cfg Zcap Zev)
    (hTop : TopOK F cfg.W0.soil.zTop cfg.init.cells) (hI : RunInvZ F cfg Zev s)
    {ph : Option (Nat × Int)} (hph : seasonInfo cfg.clock s.season = .ok ph) :
    ∃ r, fullDay F T (paramsOf cfg s.season (dayInOf cfg s ph).gs) s.day (dayInOf cfg s ph)
      = .ok r :=
  fullDay_total (Zcap := Zcap) (Zev := Zev) (hZ.prof.congr hI.comps) (hTop.congr hI.comps)
    (dayParOK_of hC hZ hph) (rootPre_of hC hZ hI _) (dayStOK_of hI _)

end day

/-! ## 3. the invariant along a run -/

section run
variable {F : Fn α} {T : TrigFn α} {cfg : RunCfg α} {Zcap Zev : α} {s s' : RunState α}

/-- one `_perform_timestep` preserves `RunInvZ` -/
theorem performR_invZ (hC : CfgOK F T cfg) (hZ : CfgTotOK F cfg Zcap Zev)
    (hI : RunInvZ F cfg Zev s) (h : performR F T cfg s = .ok s') : RunInvZ F cfg Zev s' := by
  obtain ⟨ph, r, s1, hf, hph, hr, hs1, hu⟩ := performR_ok h
  obtain ⟨c', _, _, _, _, hcase⟩ := updateTimeR_ok hu
  have hs1day : (checkFinishedR cfg s1).day = r.state := by rw [hs1]; rfl
  have hs1se : (checkFinishedR cfg s1).season = s.season := by rw [hs1]; rfl
  have hG := hZ.prof.congr hI.comps
  have hcomps : r.state.cells.map (·.c) = cfg.init.cells.map (·.c) :=
    (fullDay_comps hr hG.dz).trans hI.comps
  have hroot : RootInv F (paramsOf cfg s.season (dayInOf cfg s ph).gs) r.state :=
    fullDay_rootInv hr (rootPre_of hC hZ hI _) (dayStOK_of hI _).root
  obtain ⟨hst, hlo, hhi⟩ := fullDay_stOK hr hG (dayParOK_of hC hZ hph) (dayStOK_of hI _)
  rcases hcase with ⟨e1, e2⟩ | ⟨e1, e2⟩
  · rw [hs1day] at e2
    rw [hs1se] at e1
    exact ⟨by rw [e2]; exact hcomps, by rw [e2, e1]; exact rootInv_of_cx_eq (paramsOf_cx cfg s.season _ false) hroot,
      by rw [e2]; exact hst, by rw [e2]; exact hlo, by rw [e2]; exact hhi,
      by rw [e1]; exact hI.season⟩
  · rw [hs1day] at e2
    rw [hs1se] at e1
    refine ⟨by rw [e2, resetState_comps]; exact hcomps, by rw [e2]; exact resetState_rootInv cfg _ _ _,
      ?_, ?_, ?_, by rw [e1]; have := hI.season; omega⟩
    · rw [e2]; simp only [resetState, resetStateCore]; omega
    · rw [e2]; simp only [resetState, resetStateCore]; exact hlo
    · rw [e2]; simp only [resetState, resetStateCore]; exact hhi

/-- **`RunInvZ` holds in every reachable state** -/
theorem run_invZ (hC : CfgOK F T cfg) (hZ : CfgTotOK F cfg Zcap Zev) (hr : RunReach F T cfg s) :
    RunInvZ F cfg Zev s := by
  induction hr with
  | init h0 =>
    unfold runInit at h0
    split at h0
    · cases h0
    · rename_i c hc
      cases h0
      unfold Clock.init at hc
      split_ifs at hc
      cases hc
      exact ⟨rfl, hC.init.root, hZ.stage0, hZ.ev0, hZ.ev1, hC.season0⟩
  | step _ hp ih => exact performR_invZ hC hZ ih hp

/-- the clock projection of a reachable unfinished state is `Live` -/
theorem run_live (hZ : CfgTotOK F cfg Zcap Zev) (hr : RunReach F T cfg s)
    (hf : s.finished = false) : Live cfg.clock s.clockOf := by
  obtain ⟨ev, hre, _⟩ := run_refines_clock hZ.wf hZ.initOK hr
  exact (good_of_reach hZ.wf hre).live hf

/-- **`performR_total`: from every reachable unfinished state `_perform_timestep` returns `.ok`**;
the time-step counter advances unless the run is finished -/
theorem performR_total (hC : CfgOK F T cfg) (hZ : CfgTotOK F cfg Zcap Zev)
    (hTop : TopOK F cfg.W0.soil.zTop cfg.init.cells) (hr : RunReach F T cfg s)
    (hf : s.finished = false) :
    ∃ s', performR F T cfg s = .ok s' ∧ (s'.finished = false → s.t < s'.t) := by
  have hL := run_live hZ hr hf
  have hI := run_invZ hC hZ hr
  have hph : seasonInfo cfg.clock s.season = .ok (phOf cfg.clock s.season) :=
    seasonInfo_eq hZ.wf.2.2.1 hL.shi
  obtain ⟨r, hday⟩ := fullDay_total_of_inv hC hZ hTop hI hph
  let ev : Ev := fun _ =>
    (matureTest (paramsOf cfg s.season (dayInOf cfg s (phOf cfg.clock s.season)).gs) r.trace.tc,
      r.state.cropDead)
  have hc := perform_eq hZ.wf ev hL
  obtain ⟨s', hp, hcl, _, _⟩ := performR_of_clock hf hph hday (ev := ev) rfl hc
  refine ⟨s', hp, fun hf' => ?_⟩
  have hf'' : (stepT cfg.clock ev s.clockOf).finished = false := by rw [← hcl]; exact hf'
  have := (live_step hZ.wf ev hL hf'').2
  rw [← hcl] at this
  exact this

/-- `for i in range(k): _perform_timestep(); if finished: return` never raises from a reachable
unfinished state -/
theorem runStepsR_total (hC : CfgOK F T cfg) (hZ : CfgTotOK F cfg Zcap Zev)
    (hTop : TopOK F cfg.W0.soil.zTop cfg.init.cells) :
    ∀ (k : Nat) {s : RunState α}, RunReach F T cfg s → s.finished = false →
      ∃ s', runStepsR F T cfg k s = .ok s' ∧ RunReach F T cfg s' := by
  intro k
  induction k with
  | zero => intro s hr _; exact ⟨s, rfl, hr⟩
  | succ k ih =>
    intro s hr hf
    obtain ⟨s1, hp, _⟩ := performR_total hC hZ hTop hr hf
    have hr1 := RunReach.step hr hp
    simp only [runStepsR, hp]
    cases hf1 : s1.finished with
    | true => exact ⟨s1, by simp, hr1⟩
    | false => simpa using ih hr1 hf1

/-- **`run_total`: `run_model(num_steps = k)` from a reachable unfinished state of a valid
configuration returns `.ok`, for every `k ≥ 1`** (`k = 0` is the documented rejection
`E:numsteps`) -/
theorem run_total (hC : CfgOK F T cfg) (hZ : CfgTotOK F cfg Zcap Zev)
    (hTop : TopOK F cfg.W0.soil.zTop cfg.init.cells) (hr : RunReach F T cfg s)
    (hf : s.finished = false) (k : Nat) (hk : 1 ≤ k) :
    ∃ s', runModel F T cfg k s = .ok s' ∧ RunReach F T cfg s' := by
  unfold runModel
  rw [if_neg (by omega)]
  exact runStepsR_total hC hZ hTop k hr hf

/-- the initialised model exists, is reachable and unfinished -/
theorem runInit_total (hZ : CfgTotOK F cfg Zcap Zev) :
    ∃ s₀, runInit cfg = .ok s₀ ∧ RunReach F T cfg s₀ ∧ s₀.finished = false ∧ s₀.t = 0 := by
  obtain ⟨c, hc⟩ := init_ok hZ.wf
  have hs : runInit cfg = .ok ⟨c.t, c.season, c.finished, cfg.init, []⟩ := by
    unfold runInit; rw [hc]
  refine ⟨_, hs, RunReach.init hs, (live_init hZ.wf hc).notFin, ?_⟩
  unfold Clock.init at hc
  split_ifs at hc
  cases hc
  rfl

theorem runStepsR_finishes (hC : CfgOK F T cfg) (hZ : CfgTotOK F cfg Zcap Zev)
    (hTop : TopOK F cfg.W0.soil.zTop cfg.init.cells) :
    ∀ (f : Nat) {s : RunState α}, RunReach F T cfg s → s.finished = false →
      cfg.clock.n ≤ f + s.t + 1 →
      ∃ s', runStepsR F T cfg f s = .ok s' ∧ s'.finished = true ∧ RunReach F T cfg s' := by
  intro f
  induction f with
  | zero =>
    intro s hr hf hb
    have := (run_live hZ hr hf).tn
    have e : s.clockOf.t = s.t := rfl
    omega
  | succ f ih =>
    intro s hr hf hb
    obtain ⟨s1, hp, ht⟩ := performR_total hC hZ hTop hr hf
    have hr1 := RunReach.step hr hp
    simp only [runStepsR, hp]
    cases hf1 : s1.finished with
    | true => exact ⟨s1, by simp, hf1, hr1⟩
    | false =>
      have := ht hf1
      simpa using ih hr1 hf1 (by omega)

/-- **`run_finishes`: the run of a valid configuration terminates without raising** —
`run_model(num_steps = n)` (`n` = number of days of the window) from the initialised model returns
`.ok` with `finished = true` -/
theorem run_finishes (hC : CfgOK F T cfg) (hZ : CfgTotOK F cfg Zcap Zev)
    (hTop : TopOK F cfg.W0.soil.zTop cfg.init.cells) :
    ∃ s₀ s, runInit cfg = .ok s₀ ∧ runModel F T cfg cfg.clock.n s₀ = .ok s ∧
      s.finished = true ∧ RunReach F T cfg s := by
  obtain ⟨s₀, h0, hr0, hf0, ht0⟩ := runInit_total (F := F) (T := T) hZ
  obtain ⟨s, h1, h2, h3⟩ := runStepsR_finishes hC hZ hTop cfg.clock.n hr0 hf0 (by omega)
  refine ⟨s₀, s, h0, ?_, h2, h3⟩
  unfold runModel
  have := hZ.wf.1
  rw [if_neg (by omega)]
  exact h1

/-- every call sequence `run_model(num_steps = kᵢ)` with positive step counts succeeds until the
model is finished: a reachable state is either finished or the next call succeeds -/
theorem run_never_raises (hC : CfgOK F T cfg) (hZ : CfgTotOK F cfg Zcap Zev)
    (hTop : TopOK F cfg.W0.soil.zTop cfg.init.cells) (hr : RunReach F T cfg s) :
    s.finished = true ∨ ∀ k, 1 ≤ k → ∃ s', runModel F T cfg k s = .ok s' := by
  cases hf : s.finished with
  | true => exact Or.inl rfl
  | false =>
    right
    intro k hk
    obtain ⟨s', h, _⟩ := run_total hC hZ hTop hr hf k hk
    exact ⟨s', h⟩

end run
end Aqua

#print axioms Aqua.run_invZ
#print axioms Aqua.performR_total
#print axioms Aqua.run_total
#print axioms Aqua.run_finishes
#print axioms Aqua.run_never_raises
