import AquaVerif.Proofs.RunClosed
import AquaVerif.Proofs.RunClosedEs

/-
Work package Y, first part: **the per-day theorems of C02 (surface partition) and C19 (shallow
groundwater) on every simulated day of every run** of `runModel`, with premises on the
configuration and the weather only (plus the capillary-rise residual `ResidualW` where the day
theorem needs the water invariant).

0. Infrastructure shared with `Proofs/RunLiftIrr.lean` (C13, C06):
   * `DayFrom F T cfg s d`: `d` is the day `_perform_timestep` simulates from the run state `s`
     (`performR_from`), with the day's inputs as functions of the configuration
     (`DayFrom.tsc`, `.season`, `.rain`, `.zGW`, `.sched`, `.irr`, `.fm`, …);
   * `DayCfg cfg d` / `run_dayCfg`: every recorded day read its parameters and its forcing from the
     configuration at its own `(season, tsc)`;
   * `run_days_ind`: induction principle "for every recorded day, given the reachable state it was
     simulated from";
   * `run_linked`: every two consecutive recorded days are linked by `update_time` (same state, or
     the reset state of the next season).
1. C02: `CnOK` (range of the effective curve number, premise on `F`, the soil and the field
   management only), `RainOK` (`0 ≤ rain` on every day of the weather table),
   `run_partition`, `run_runoff_bounds`, `run_dry_day`; the bund invariant `run_pondInv`
   (ponded water never above the bunds *of the field management the next day will use*, under
   `BundOK`) and `run_negative_infiltration`.
2. C19: `run_gw_fcAdj`, `run_gw_saturated`, `run_gw_capillary_slack`, `run_gw_none`,
   `run_gw_depth`.
-/

set_option linter.unusedSectionVars false
set_option linter.unusedVariables false
set_option linter.unusedSimpArgs false
namespace Aqua
open Aqua.Clock
variable {α : Type} [Field α] [LinearOrder α] [IsStrictOrderedRing α]

/-! ## 0. infrastructure -/

/-- `IrrMngt` in a season, `FallowIrrMngt` before the first one -/
def irrSetOf (cfg : RunCfg α) (season : Int) : IrrSet α :=
  if 0 ≤ season then cfg.irr else cfg.fallowIrr

/-- `FieldMngt` on a growing-season day, `FallowFieldMngt` otherwise -/
def fmOf (cfg : RunCfg α) (gs : Bool) : FieldMngt α := if gs then cfg.fm else cfg.fallowFm

/-- `d` is the day `_perform_timestep` simulates from the run state `s` and appends to the tables -/
structure DayFrom (F : Fn α) (T : TrigFn α) (cfg : RunCfg α) (s : RunState α) (d : DayRec α) :
    Prop where
  notFin : s.finished = false
  ph : ∃ ph, seasonInfo cfg.clock s.season = .ok ph ∧ d.D = dayInOf cfg s ph
  st : d.st = s.day
  P : d.P = paramsOf cfg s.season d.D.gs
  day : fullDay F T d.P d.st d.D = .ok d.r

section dayFrom
variable {F : Fn α} {T : TrigFn α} {cfg : RunCfg α} {s s' : RunState α} {d : DayRec α}

theorem DayFrom.dayOf (h : DayFrom F T cfg s d) : DayOf F T cfg s d := by
  obtain ⟨ph, _, e⟩ := h.ph
  exact ⟨h.st, h.P, by rw [e]; rfl, h.day⟩

theorem DayFrom.tsc (h : DayFrom F T cfg s d) : d.D.tsc = s.t := by
  obtain ⟨ph, _, e⟩ := h.ph; rw [e]; rfl
theorem DayFrom.season (h : DayFrom F T cfg s d) : d.D.season = s.season := by
  obtain ⟨ph, _, e⟩ := h.ph; rw [e]; rfl
theorem DayFrom.rain (h : DayFrom F T cfg s d) : d.D.rain = (cfg.weather s.t).rain := by
  obtain ⟨ph, _, e⟩ := h.ph; rw [e]; rfl
theorem DayFrom.et0 (h : DayFrom F T cfg s d) : d.D.et0 = (cfg.weather s.t).et0 := by
  obtain ⟨ph, _, e⟩ := h.ph; rw [e]; rfl
theorem DayFrom.tmax (h : DayFrom F T cfg s d) : d.D.tmax = (cfg.weather s.t).tmax := by
  obtain ⟨ph, _, e⟩ := h.ph; rw [e]; rfl
theorem DayFrom.tmin (h : DayFrom F T cfg s d) : d.D.tmin = (cfg.weather s.t).tmin := by
  obtain ⟨ph, _, e⟩ := h.ph; rw [e]; rfl
theorem DayFrom.zGW (h : DayFrom F T cfg s d) :
    d.D.zGW = if cfg.W0.waterTable = 1 then cfg.zgw s.t else 0 := by
  obtain ⟨ph, _, e⟩ := h.ph; rw [e]; rfl
theorem DayFrom.sched (h : DayFrom F T cfg s d) : d.D.sched = (irrSetOf cfg s.season).sched s.t := by
  obtain ⟨ph, _, e⟩ := h.ph; rw [e]; rfl
theorem DayFrom.gs (h : DayFrom F T cfg s d) :
    ∃ ph, seasonInfo cfg.clock s.season = .ok ph ∧
      d.D.gs = gsOfDay ph s.t s.day.cropMature s.day.cropDead ∧ d.D.lastDay = lastDayOf ph s.t := by
  obtain ⟨ph, hph, e⟩ := h.ph
  exact ⟨ph, hph, by rw [e]; rfl, by rw [e]; rfl⟩

theorem paramsOf_irr (cfg : RunCfg α) (season : Int) (gs : Bool) :
    (paramsOf cfg season gs).W.irr = (irrSetOf cfg season).irr ∧
    (paramsOf cfg season gs).W.netIrrSMT = (irrSetOf cfg season).netIrrSMT ∧
    (paramsOf cfg season gs).W.wetSurf = (irrSetOf cfg season).wetSurf := ⟨rfl, rfl, rfl⟩

theorem paramsOf_fm (cfg : RunCfg α) (season : Int) (gs : Bool) :
    (paramsOf cfg season gs).fm = fmOf cfg gs := rfl

theorem paramsOf_soil (cfg : RunCfg α) (season : Int) (gs : Bool) :
    (paramsOf cfg season gs).W.soil = cfg.W0.soil := rfl

/-- one `_perform_timestep`: the day it records, and the state it leaves -/
theorem performR_from (h : performR F T cfg s = .ok s') :
    ∃ d, s'.daysRev = d :: s.daysRev ∧ DayFrom F T cfg s d ∧
      ((s'.season = s.season ∧ s'.day = d.r.state) ∨
       (s'.season = s.season + 1 ∧
          s'.day = resetState cfg (cfg.seasonCrop s'.season.toNat) d.r.state)) := by
  obtain ⟨ph, r, s1, hf, hph, hr, hs1, hu⟩ := performR_ok h
  obtain ⟨c', _, _, hdays, _, hcase⟩ := updateTimeR_ok hu
  refine ⟨{ P := paramsOf cfg s.season (dayInOf cfg s ph).gs, st := s.day, D := dayInOf cfg s ph,
            r := r }, ?_, ⟨hf, ⟨ph, hph, rfl⟩, rfl, rfl, hr⟩, ?_⟩
  · rw [hdays, hs1]; rfl
  · have hs1day : (checkFinishedR cfg s1).day = r.state := by rw [hs1]; rfl
    have hs1se : (checkFinishedR cfg s1).season = s.season := by rw [hs1]; rfl
    rcases hcase with ⟨e1, e2⟩ | ⟨e1, e2⟩
    · left; exact ⟨by rw [e1, hs1se], by rw [e2, hs1day]⟩
    · right; exact ⟨by rw [e1, hs1se], by rw [e2, hs1day]⟩

theorem runInit_days {s : RunState α} (h0 : runInit cfg = .ok s) :
    s.daysRev = [] ∧ s.day = cfg.init ∧ s.season = cfg.clock.season0 ∧ s.t = 0 := by
  unfold runInit at h0
  split at h0
  · cases h0
  · rename_i c hc
    cases h0
    unfold Clock.init at hc
    split_ifs at hc
    cases hc
    exact ⟨rfl, rfl, rfl, rfl⟩

/-- **induction over the recorded days**: to show `Q` of every recorded day it suffices to show it
of the day a `_perform_timestep` records from a reachable state `s`, given `R` (e.g. a residual)
of that day and of all days recorded before -/
theorem run_days_ind {R Q : DayRec α → Prop}
    (hstep : ∀ {s s' : RunState α} {d : DayRec α}, RunReach F T cfg s →
      performR F T cfg s = .ok s' → s'.daysRev = d :: s.daysRev → DayFrom F T cfg s d →
      (∀ d' ∈ s.daysRev, R d') → R d → Q d)
    (hr : RunReach F T cfg s) (hR : ∀ d ∈ s.daysRev, R d) : ∀ d ∈ s.daysRev, Q d := by
  induction hr with
  | init h0 =>
    rw [(runInit_days h0).1]
    intro d hd; cases hd
  | @step s s' hr hp ih =>
    obtain ⟨d, hdl, hd, _⟩ := performR_from hp
    have hRs : ∀ d' ∈ s.daysRev, R d' :=
      fun d' hd' => hR d' (by rw [hdl]; exact List.mem_cons_of_mem _ hd')
    intro d' hd'
    rw [hdl] at hd'
    rcases List.mem_cons.mp hd' with rfl | hd'
    · exact hstep hr hp hdl hd hRs (hR _ (by rw [hdl]; exact List.mem_cons_self))
    · exact ih hRs d' hd'

/-- every recorded day read its parameters and its forcing from the configuration, at its own
season counter and time step -/
structure DayCfg (cfg : RunCfg α) (d : DayRec α) : Prop where
  P : d.P = paramsOf cfg d.D.season d.D.gs
  rain : d.D.rain = (cfg.weather d.D.tsc).rain
  et0 : d.D.et0 = (cfg.weather d.D.tsc).et0
  tmax : d.D.tmax = (cfg.weather d.D.tsc).tmax
  tmin : d.D.tmin = (cfg.weather d.D.tsc).tmin
  zGW : d.D.zGW = if cfg.W0.waterTable = 1 then cfg.zgw d.D.tsc else 0
  sched : d.D.sched = (irrSetOf cfg d.D.season).sched d.D.tsc

theorem DayFrom.toCfg (h : DayFrom F T cfg s d) : DayCfg cfg d :=
  ⟨by rw [h.season]; exact h.P, by rw [h.tsc]; exact h.rain, by rw [h.tsc]; exact h.et0,
   by rw [h.tsc]; exact h.tmax, by rw [h.tsc]; exact h.tmin, by rw [h.tsc]; exact h.zGW,
   by rw [h.tsc, h.season]; exact h.sched⟩

theorem run_dayCfg (hr : RunReach F T cfg s) : ∀ d ∈ s.daysRev, DayCfg cfg d :=
  run_days_ind (R := fun _ => True) (fun _ _ _ hd _ _ => hd.toCfg) hr (fun _ _ => trivial)

theorem DayCfg.irr (h : DayCfg cfg d) : d.P.W.irr = (irrSetOf cfg d.D.season).irr := by
  rw [h.P]; rfl
theorem DayCfg.fm (h : DayCfg cfg d) : d.P.fm = fmOf cfg d.D.gs := by rw [h.P]; rfl
theorem DayCfg.soil (h : DayCfg cfg d) : d.P.W.soil = cfg.W0.soil := by rw [h.P]; rfl
theorem DayCfg.waterTable (h : DayCfg cfg d) : d.P.W.waterTable = cfg.W0.waterTable := by
  rw [h.P]; rfl

/-- how the state a day starts from follows from the state the previous simulated day left:
unchanged, or — exactly when the season counter advanced — reset for the crop of the new season -/
def Linked (cfg : RunCfg α) (d1 d2 : DayRec α) : Prop :=
  (d2.D.season = d1.D.season ∧ d2.st = d1.r.state) ∨
  (d2.D.season = d1.D.season + 1 ∧
    d2.st = resetState cfg (cfg.seasonCrop d2.D.season.toNat) d1.r.state)

/-- `Linked` between every two consecutive recorded days (newest first) -/
def LinkedAll (cfg : RunCfg α) : List (DayRec α) → Prop
  | d2 :: d1 :: rest => Linked cfg d1 d2 ∧ LinkedAll cfg (d1 :: rest)
  | _ => True

/-- the state of a reachable run state, relative to the last recorded day -/
def LinkHead (cfg : RunCfg α) (s : RunState α) : Prop :=
  match s.daysRev with
  | d :: _ => (s.season = d.D.season ∧ s.day = d.r.state) ∨
      (s.season = d.D.season + 1 ∧
        s.day = resetState cfg (cfg.seasonCrop s.season.toNat) d.r.state)
  | [] => s.day = cfg.init ∧ s.season = cfg.clock.season0

theorem run_linked_aux (hr : RunReach F T cfg s) : LinkHead cfg s ∧ LinkedAll cfg s.daysRev := by
  induction hr with
  | init h0 =>
    obtain ⟨e1, e2, e3, _⟩ := runInit_days h0
    unfold LinkHead
    rw [e1]
    exact ⟨⟨e2, e3⟩, trivial⟩
  | @step s s' hr hp ih =>
    obtain ⟨ih1, ih2⟩ := ih
    obtain ⟨d, hdl, hd, hcase⟩ := performR_from hp
    constructor
    · unfold LinkHead
      rw [hdl]
      simp only
      rw [hd.season]
      exact hcase
    · rw [hdl]
      cases hds : s.daysRev with
      | nil => trivial
      | cons d1 rest =>
        unfold LinkedAll
        refine ⟨?_, by rw [← hds]; exact ih2⟩
        unfold LinkHead at ih1
        rw [hds] at ih1
        simp only at ih1
        unfold Linked
        rw [hd.st, hd.season]
        exact ih1

/-- **consecutive recorded days are linked by `update_time`**: the later one starts from the state
the earlier one left, or from its reset when (and only when) the season counter advanced -/
theorem run_linked (hr : RunReach F T cfg s) : LinkedAll cfg s.daysRev := (run_linked_aux hr).2

theorem run_linkHead (hr : RunReach F T cfg s) : LinkHead cfg s := (run_linked_aux hr).1

/-- the season counter never falls below its initial value -/
theorem run_season_ge (hr : RunReach F T cfg s) :
    cfg.clock.season0 ≤ s.season ∧ ∀ d ∈ s.daysRev, cfg.clock.season0 ≤ d.D.season := by
  induction hr with
  | init h0 =>
    obtain ⟨e1, _, e3, _⟩ := runInit_days h0
    rw [e1, e3]
    exact ⟨le_refl _, fun d hd => by cases hd⟩
  | @step s s' hr hp ih =>
    obtain ⟨d, hdl, hd, hcase⟩ := performR_from hp
    obtain ⟨ih1, ih2⟩ := ih
    constructor
    · rcases hcase with ⟨e, _⟩ | ⟨e, _⟩ <;> rw [e] <;> omega
    · intro d' hd'
      rw [hdl] at hd'
      rcases List.mem_cons.mp hd' with rfl | hd'
      · rw [hd.season]; exact ih1
      · exact ih2 d' hd'

end dayFrom


/-! ## 1. C02 — rain and irrigation are fully partitioned at the surface, on every day of a run -/

/-- the curve number the SCS split starts from: `CN · (1 + curve_number_adj_pct/100)` (percentage
0 unless `curve_number_adj`) -/
def cn0Of (soil : SoilW α) (fm : FieldMngt α) : α :=
  soil.cn * (1 + (if fm.cnAdj then fm.cnAdjPct else 0) / 100)

/-- **the range of the effective curve number** — a premise on `F`, the soil and one field
management record only.  Without the antecedent-moisture adjustment the effective curve number is
`cn0Of` itself; with it, it is `round(CNbot + (CNtop − CNbot)·wrel)` for a relative wetness
`wrel` the code clamps to `[0, 1]` — whatever the profile holds. -/
structure CnOK (F : Fn α) (soil : SoilW α) (fm : FieldMngt α) : Prop where
  plain : soil.adjCN = false → 0 < cn0Of soil fm ∧ cn0Of soil fm ≤ 100
  adj : soil.adjCN = true → ∀ wt, 0 ≤ wt → wt ≤ 1 →
    0 < F.round0 ((cnBounds F (cn0Of soil fm)).1 +
        ((cnBounds F (cn0Of soil fm)).2 - (cnBounds F (cn0Of soil fm)).1) * wt) ∧
    F.round0 ((cnBounds F (cn0Of soil fm)).1 +
        ((cnBounds F (cn0Of soil fm)).2 - (cnBounds F (cn0Of soil fm)).1) * wt) ≤ 100

/-- **premises on the configuration for C02**: the curve-number range for both field-management
records, and the law of the `term ** 2` in the SCS runoff (`x ** 2 = x · x`: with it runoff and
infiltration are both non-negative, so the `max(Infl, 0)` of `infiltration` is the identity) -/
structure CfgSurfOK (F : Fn α) (cfg : RunCfg α) : Prop where
  cn : CnOK F cfg.W0.soil cfg.fm
  cnF : CnOK F cfg.W0.soil cfg.fallowFm
  sq : PowSqLaw F

/-- **premise on the weather table for C02**: no negative rain -/
structure RainOK (cfg : RunCfg α) : Prop where
  rain : ∀ t, 0 ≤ (cfg.weather t).rain

/-- where the SCS split runs, the curve number it uses lies in `(0, 100]` under `CnOK` -/
theorem rainPartition_cn_range {F : Fn α} {p : α} {cells : List (Cell α)} {daySub : Nat}
    {srInhb bunds : Bool} {zBund pct soilCN zCN : α} {adjCN : Bool} {r : RainOut α}
    (h : rainPartition F p cells daySub srInhb bunds zBund pct soilCN adjCN zCN = some r)
    (hb : srInhb = false ∧ (bunds = false ∨ zBund < 0.001))
    (hplain : adjCN = false → 0 < soilCN * (1 + pct / 100) ∧ soilCN * (1 + pct / 100) ≤ 100)
    (hadj : adjCN = true → ∀ wt, 0 ≤ wt → wt ≤ 1 →
      0 < F.round0 ((cnBounds F (soilCN * (1 + pct / 100))).1 +
          ((cnBounds F (soilCN * (1 + pct / 100))).2 - (cnBounds F (soilCN * (1 + pct / 100))).1) * wt) ∧
      F.round0 ((cnBounds F (soilCN * (1 + pct / 100))).1 +
          ((cnBounds F (soilCN * (1 + pct / 100))).2 - (cnBounds F (soilCN * (1 + pct / 100))).1) * wt)
        ≤ 100) :
    0 < r.cn ∧ r.cn ≤ 100 := by
  unfold rainPartition at h
  rw [if_pos hb] at h
  dsimp only at h
  cases ha : adjCN with
  | false =>
    rw [ha] at h
    simp only [Bool.false_eq_true, if_false] at h
    cases h
    exact hplain ha
  | true =>
    rw [ha] at h
    simp only [if_true] at h
    split at h
    · cases h
    · rename_i cn hcn
      split at hcn
      · cases hcn
      · rename_i wt0 hwt
        cases h
        simp only [Option.some.injEq] at hcn
        rw [← hcn]
        apply hadj ha
        · split_ifs <;> linarith
        · split_ifs <;> linarith

section c02day
variable {F : Fn α} {T : TrigFn α} {P : DayParams α} {st : DayState' α} {D : DayIn' α}
  {r : DayResult α}

/-- the curve-number premise of the day theorems of C02, from `CnOK` -/
theorem fullDay_cn_range (h : fullDay F T P st D = .ok r) (hcn : CnOK F P.W.soil P.fm) :
    ScsRuns P.fm → 0 < r.water.cn ∧ r.water.cn ≤ 100 := by
  intro hb
  obtain ⟨X, hs, rfl⟩ := fullDay_ok' h
  exact rainPartition_cn_range hs.water.hr hb hcn.plain hcn.adj

/-- **C02, negative infiltration, for the full day** -/
theorem fullDay_infl_neg (h : fullDay F T P st D = .ok r) (hP : DayPre F P.W st.cells st.water)
    (hpz : P.fm.bunds = true → 0.001 < P.fm.zBund → st.pond ≤ P.fm.zBund)
    (hneg : r.flux.infl < 0) :
    (P.fm.bunds = false ∨ P.fm.zBund ≤ 0.001) ∧ 0 < st.pond ∧ -r.flux.infl ≤ st.pond := by
  obtain ⟨_, _, _, _, _, _, _, e3, _⟩ := fullDay_rows h
  rw [e3] at hneg ⊢
  exact waterDay_infl_neg (fullDay_water h) hP hpz hneg

/-- **C02, dry day, for the full day** -/
theorem fullDay_dry (h : fullDay F T P st D = .ok r) (hdz : ∀ x ∈ st.cells, 0 < x.c.dz)
    (hk : ∀ x ∈ st.cells, 0 ≤ x.c.ksat)
    (hcn : ScsRuns P.fm → 0 < r.water.cn ∧ r.water.cn ≤ 100)
    (hrain : D.rain = 0) (hirr : r.water.irr = 0) (hpond : st.pond = 0) :
    r.flux.infl = 0 ∧ r.flux.runoff = 0 := by
  obtain ⟨_, _, _, _, _, _, _, e3, e4, _⟩ := fullDay_rows h
  rw [e3, e4]
  exact waterDay_dry (fullDay_water h) hdz hk hcn hrain hirr hpond

end c02day

section c02
variable {F : Fn α} {T : TrigFn α} {cfg : RunCfg α} {s s' : RunState α} {A : α}

theorem CfgSurfOK.day (hS : CfgSurfOK F cfg) {d : DayRec α} (hc : DayCfg cfg d) :
    CnOK F d.P.W.soil d.P.fm := by
  rw [hc.soil, hc.fm]
  unfold fmOf
  cases d.D.gs with
  | true => exact hS.cn
  | false => exact hS.cnF

/-- **`run_partition` (C02 on every simulated day of every run)**: reported infiltration plus
reported runoff equals the day's rain (the weather table's value for that day) plus the
efficiency-adjusted irrigation application `Irr · AppEff/100` (in season) — from the curve-number
range of the configuration and non-negative rain only. -/
theorem run_partition (hS : CfgSurfOK F cfg) (hW : RainOK cfg) (hr : RunReach F T cfg s) :
    ∀ d ∈ s.daysRev,
      d.r.flux.infl + d.r.flux.runoff =
        (cfg.weather d.D.tsc).rain + irrApplied d.P.W d.D.water d.r.water := by
  intro d hd
  have hc := run_dayCfg hr d hd
  have hday := run_days hr d hd
  rw [← hc.rain]
  exact fullDay_partition hS.sq hday (by rw [hc.rain]; exact hW.rain _)
    (fullDay_cn_range hday (hS.day hc))

/-- the efficiency-adjusted application is `Irr · AppEff/100` on a growing-season day and 0
otherwise, and `Irr` is the irrigation of step 6 -/
theorem irrApplied_eq (d : DayRec α) :
    irrApplied d.P.W d.D.water d.r.water =
      if d.D.gs then d.r.water.irr * (d.P.W.irr.appEff / 100) else 0 := rfl

/-- **`run_runoff_bounds`**: reported runoff is never negative and never exceeds the day's rain
plus applied irrigation plus the water ponded at the start of the day. -/
theorem run_runoff_bounds (hC : CfgOK F T cfg) (hS : CfgSurfOK F cfg) (hW : RainOK cfg)
    (hr : RunReach F T cfg s) (hR : ∀ d ∈ s.daysRev, ResidualW d) :
    ∀ d ∈ s.daysRev,
      0 ≤ d.r.flux.runoff ∧
      d.r.flux.runoff ≤
        (cfg.weather d.D.tsc).rain + irrApplied d.P.W d.D.water d.r.water + d.st.pond := by
  intro d hd
  have hc := run_dayCfg hr d hd
  have hday := run_days hr d hd
  obtain ⟨hpre, _, _⟩ := (run_inv_closed hC hr hR).2 d hd
  rw [← hc.rain]
  exact fullDay_runoff_bounds hday hpre (by rw [hc.rain]; exact hW.rain _)
    (fullDay_cn_range hday (hS.day hc))

/-- … in particular `runoff ≤ rain + Irr + ponded water` when the application efficiency of both
irrigation-management records lies in `[0, 100]` -/
theorem run_runoff_le_supply (hC : CfgOK F T cfg) (hS : CfgSurfOK F cfg) (hW : RainOK cfg)
    (he : ∀ season, 0 ≤ (irrSetOf cfg season).irr.appEff ∧ (irrSetOf cfg season).irr.appEff ≤ 100)
    (hr : RunReach F T cfg s) (hR : ∀ d ∈ s.daysRev, ResidualW d) :
    ∀ d ∈ s.daysRev,
      d.r.flux.runoff ≤ (cfg.weather d.D.tsc).rain + d.r.water.irr + d.st.pond := by
  intro d hd
  have hc := run_dayCfg hr d hd
  have hday := run_days hr d hd
  obtain ⟨_, h2⟩ := run_runoff_bounds hC hS hW hr hR d hd
  have hirr : 0 ≤ d.r.water.irr := (waterDay_irr_nonneg (fullDay_water hday)).1
  have hle : irrApplied d.P.W d.D.water d.r.water ≤ d.r.water.irr := by
    rw [irrApplied_eq]
    split_ifs
    · obtain ⟨e0, e1⟩ := he d.D.season
      rw [hc.irr]
      have q0 : 0 ≤ (irrSetOf cfg d.D.season).irr.appEff / 100 := div_nonneg e0 (by norm_num)
      have q1 : (irrSetOf cfg d.D.season).irr.appEff / 100 ≤ 1 := by
        rw [div_le_one (by norm_num)]; exact e1
      calc d.r.water.irr * ((irrSetOf cfg d.D.season).irr.appEff / 100)
          ≤ d.r.water.irr * 1 := mul_le_mul_of_nonneg_left q1 hirr
        _ = d.r.water.irr := mul_one _
    · exact hirr
  linarith

/-- **`run_dry_day`**: on a day without rain, without irrigation and with nothing ponded,
infiltration and runoff are both zero. -/
theorem run_dry_day (hC : CfgOK F T cfg) (hS : CfgSurfOK F cfg) (hr : RunReach F T cfg s)
    (hR : ∀ d ∈ s.daysRev, ResidualW d) :
    ∀ d ∈ s.daysRev, (cfg.weather d.D.tsc).rain = 0 → d.r.water.irr = 0 → d.st.pond = 0 →
      d.r.flux.infl = 0 ∧ d.r.flux.runoff = 0 := by
  intro d hd h1 h2 h3
  have hc := run_dayCfg hr d hd
  have hday := run_days hr d hd
  obtain ⟨hpre, _, _⟩ := (run_inv_closed hC hr hR).2 d hd
  exact fullDay_dry hday (fun x hx => (hpre.pre x hx).inv.wf.dz_pos)
    (fun x hx => (hpre.pre x hx).inv.wf.ksat_nn) (fullDay_cn_range hday (hS.day hc))
    (by rw [hc.rain]; exact h1) h2 h3

/-! ### the bund invariant, and negative infiltration -/

/-- bunds higher than 1 mm: the only ones the code honours -/
def EffBunds (fm : FieldMngt α) : Prop := fm.bunds = true ∧ 0.001 < fm.zBund

/-- **premises on the configuration for the bund invariant**: when `FieldMngt` and
`FallowFieldMngt` both have (effective) bunds the heights agree, and the initial ponding is not
above any of them.  (With different heights water ponded behind the higher bund meets the lower
one on the first day of the other management and overtops it: the day then reports a negative
infiltration *with* bunds.) -/
structure BundOK (cfg : RunCfg α) : Prop where
  same : EffBunds cfg.fm → EffBunds cfg.fallowFm → cfg.fm.zBund = cfg.fallowFm.zBund
  init : ∀ gs, EffBunds (fmOf cfg gs) → cfg.init.pond ≤ (fmOf cfg gs).zBund

/-- the ponded water is not above the bunds of whichever field management the next day uses -/
def PondInv (cfg : RunCfg α) (s : RunState α) : Prop :=
  ∀ gs, EffBunds (fmOf cfg gs) → s.day.pond ≤ (fmOf cfg gs).zBund

theorem BundOK.zBund_eq (hB : BundOK cfg) (g g' : Bool) (h : EffBunds (fmOf cfg g))
    (h' : EffBunds (fmOf cfg g')) : (fmOf cfg g).zBund = (fmOf cfg g').zBund := by
  cases g <;> cases g'
  · rfl
  · exact (hB.same h' h).symm
  · exact hB.same h h'
  · rfl

theorem resetPond_le (hB : BundOK cfg) (g : Bool) (h : EffBunds (fmOf cfg g)) :
    resetPond cfg ≤ (fmOf cfg g).zBund := by
  unfold resetPond resetPondOf
  by_cases he : cfg.fm.bunds = true ∧ 0.001 < cfg.fm.zBund
  · rw [if_pos he, pmin_eq]
    have e : (fmOf cfg true).zBund = (fmOf cfg g).zBund := hB.zBund_eq true g he h
    have e' : cfg.fm.zBund = (fmOf cfg g).zBund := e
    rw [← e']
    exact min_le_right _ _
  · rw [if_neg he]
    have h3 : (0 : α) < 0.001 := by norm_num
    exact (lt_trans h3 h.2).le

/-- **`run_pondInv`**: in every reachable state the ponded water is at most the height of the
(effective) bunds of the field management the next day will use — also across the switch between
`FieldMngt` and `FallowFieldMngt` and across the season-start reset. -/
theorem run_pondInv (hC : CfgOK F T cfg) (hT : CfgTrOK F cfg A) (hJ0 : CfgRwOK F cfg)
    (hE : CfgEsOK cfg) (hW : WeatherOK F cfg) (hB : BundOK cfg) (hr : RunReach F T cfg s)
    (hR : ∀ d ∈ s.daysRev, ResidualW d) : PondInv cfg s := by
  induction hr with
  | init h0 =>
    intro g hg
    rw [(runInit_days h0).2.1]
    exact hB.init g hg
  | @step s s' hr hp ih =>
    obtain ⟨d, hdl, hd, hcase⟩ := performR_from hp
    have hRs : ∀ d' ∈ s.daysRev, ResidualW d' :=
      fun d' hd' => hR d' (by rw [hdl]; exact List.mem_cons_of_mem _ hd')
    have ihs := ih hRs
    obtain ⟨_, _, _, p0, pz, ple⟩ := run_flux_closed hC hT hJ0 hE hW (RunReach.step hr hp) hR d
      (by rw [hdl]; exact List.mem_cons_self)
    have hfm : d.P.fm = fmOf cfg d.D.gs := by rw [hd.P]; rfl
    have hend : ∀ g, EffBunds (fmOf cfg g) → d.r.state.pond ≤ (fmOf cfg g).zBund := by
      intro g hg
      by_cases heff : EffBunds (fmOf cfg d.D.gs)
      · have h1 : d.r.state.pond ≤ d.P.fm.zBund := by
          apply ple (by rw [hfm]; exact heff.1)
          rw [hd.st, hfm]
          exact ihs _ heff
        rw [hfm, hB.zBund_eq _ g heff hg] at h1
        exact h1
      · have h0 : d.r.state.pond = 0 := by
          apply pz
          rw [hfm]
          unfold EffBunds at heff
          by_cases hb : (fmOf cfg d.D.gs).bunds = true
          · right
            exact not_lt.mp (fun hz => heff ⟨hb, hz⟩)
          · left
            simpa using hb
        rw [h0]
        have h3 : (0 : α) < 0.001 := by norm_num
        exact (lt_trans h3 hg.2).le
    rcases hcase with ⟨_, e2⟩ | ⟨_, e2⟩
    · intro g hg
      rw [e2]; exact hend g hg
    · intro g hg
      rw [e2]
      simp only [resetState, resetStateCore]
      cases cfg.clock.offSeason with
      | true => simpa using hend g hg
      | false => simpa using resetPond_le hB g hg

theorem dayFrom_dayPre {d : DayRec α} (hC : CfgOK F T cfg) (hI : WaterInv cfg s)
    (hd : DayFrom F T cfg s d) : DayPre F d.P.W d.st.cells d.st.water := by
  rw [hd.st]
  refine ⟨hC.fn.exp, hC.fn.powSq, hI.pre, hI.pond, ?_⟩
  rw [hd.P]; exact paramsOf_smt hC.runPre _ _

/-- **`run_negative_infiltration`**: on every simulated day of every run reported infiltration is
negative only on a day without (effective) bunds on which ponded water is released, and then by no
more than the water ponded at the start of the day. -/
theorem run_negative_infiltration (hC : CfgOK F T cfg) (hT : CfgTrOK F cfg A)
    (hJ0 : CfgRwOK F cfg) (hE : CfgEsOK cfg) (hW : WeatherOK F cfg) (hB : BundOK cfg)
    (hr : RunReach F T cfg s) (hR : ∀ d ∈ s.daysRev, ResidualW d) :
    ∀ d ∈ s.daysRev, d.r.flux.infl < 0 →
      (d.P.fm.bunds = false ∨ d.P.fm.zBund ≤ 0.001) ∧ 0 < d.st.pond ∧
        -d.r.flux.infl ≤ d.st.pond := by
  refine run_days_ind (R := ResidualW) (fun {s s' d} hr hp hdl hd hRs hRd => ?_) hr hR
  intro hneg
  have hI := (run_inv_closed hC hr hRs).1
  have hpond := run_pondInv hC hT hJ0 hE hW hB hr hRs
  have hfm : d.P.fm = fmOf cfg d.D.gs := by rw [hd.P]; rfl
  apply fullDay_infl_neg hd.day (dayFrom_dayPre hC hI hd) _ hneg
  intro hb hz
  rw [hd.st, hfm]
  exact hpond _ ⟨by rw [← hfm]; exact hb, by rw [← hfm]; exact hz⟩

/-- the same from an explicit bound on the ponded water at the start of the day instead of the
bund invariant (`CfgOK` and the capillary-rise residual only) -/
theorem run_negative_infiltration_of_pond_le (hC : CfgOK F T cfg) (hr : RunReach F T cfg s)
    (hR : ∀ d ∈ s.daysRev, ResidualW d) :
    ∀ d ∈ s.daysRev,
      (d.P.fm.bunds = true → 0.001 < d.P.fm.zBund → d.st.pond ≤ d.P.fm.zBund) →
      d.r.flux.infl < 0 →
      (d.P.fm.bunds = false ∨ d.P.fm.zBund ≤ 0.001) ∧ 0 < d.st.pond ∧
        -d.r.flux.infl ≤ d.st.pond := by
  intro d hd hpz hneg
  obtain ⟨hpre, _, _⟩ := (run_inv_closed hC hr hR).2 d hd
  exact fullDay_infl_neg (run_days hr d hd) hpre hpz hneg

end c02

/-! ## 2. C19 — shallow groundwater, on every day of a run -/

section c19
variable {F : Fn α} {T : TrigFn α} {cfg : RunCfg α} {s s' : RunState α}

/-- **`run_gw_depth`**: with a water table, the depth reported in the `water_flux` row (and kept in
the state) is the value of the configured daily series for that day, which is not negative; and
the table is reported "in the profile" exactly when some compartment centre lies at or below it.
Without a water table the reported depth is 0. -/
theorem run_gw_depth (hr : RunReach F T cfg s) :
    ∀ d ∈ s.daysRev,
      (cfg.W0.waterTable = 1 →
        d.r.flux.zGW = cfg.zgw d.D.tsc ∧ d.r.state.zGW = cfg.zgw d.D.tsc ∧
        0 ≤ cfg.zgw d.D.tsc ∧
        (d.r.water.wtInSoil = true ↔ ∃ x ∈ d.st.cells, cfg.zgw d.D.tsc ≤ x.c.zMid)) ∧
      (cfg.W0.waterTable ≠ 1 → d.r.flux.zGW = 0 ∧ d.r.state.zGW = 0) := by
  intro d hd
  have hc := run_dayCfg hr d hd
  have hday := run_days hr d hd
  have hw := fullDay_water hday
  have e5 : d.r.flux.zGW = d.r.water.zGW := (fullDay_rows hday).2.2.2.2.1
  have e6 : d.r.state.zGW = d.r.water.zGW := by
    obtain ⟨X, hs, e⟩ := fullDay_ok' hday
    rw [e]; rfl
  constructor
  · intro hwt
    have hz : d.D.water.zGW = cfg.zgw d.D.tsc := by
      show d.D.zGW = _
      rw [hc.zGW, if_pos hwt]
    obtain ⟨a, b, c⟩ := waterDay_table hw (by rw [hc.waterTable]; exact hwt)
    rw [hz] at a b c
    exact ⟨by rw [e5, a], by rw [e6, a], b, c⟩
  · intro hwt
    have hz : d.D.water.zGW = 0 := by
      show d.D.zGW = _
      rw [hc.zGW, if_neg hwt]
    obtain ⟨Tr, hs, e⟩ := waterDay_ok hw
    have hg := hs.hg
    rw [checkGroundwaterTable_no_table F _ _ _ (by rw [hc.waterTable]; exact hwt)] at hg
    have : d.r.water.zGW = 0 := by
      rw [e]
      show Tr.g.zGW = 0
      rw [← Option.some.inj hg]
      exact hz
    exact ⟨by rw [e5, this], by rw [e6, this]⟩

/-- **`run_gw_fcAdj`**: with a water table, at the end of every simulated day the adjusted field
capacity of every compartment lies within `[th_fc, th_s]`. -/
theorem run_gw_fcAdj (hC : CfgOK F T cfg) (hr : RunReach F T cfg s)
    (hR : ∀ d ∈ s.daysRev, ResidualW d) (hwt : cfg.W0.waterTable = 1) :
    ∀ d ∈ s.daysRev, ∀ y ∈ d.r.state.cells, y.c.thFC ≤ y.fcAdj ∧ y.fcAdj ≤ y.c.thS := by
  intro d hd
  have hc := run_dayCfg hr d hd
  have hday := run_days hr d hd
  obtain ⟨hpre, _, _⟩ := (run_inv_closed hC hr hR).2 d hd
  rw [(fullDay_rows hday).1]
  exact waterDay_fcAdj_range hC.fn.powSq (fullDay_water hday) (by rw [hc.waterTable]; exact hwt)
    (fun x hx => (hpre.pre x hx).inv.wf)

/-- **`run_gw_saturated`**: with a water table, at the end of every simulated day every
compartment whose centre lies at or below the table (the configured depth of that day) is exactly
saturated. -/
theorem run_gw_saturated (hC : CfgOK F T cfg) (hr : RunReach F T cfg s)
    (hR : ∀ d ∈ s.daysRev, ResidualW d) (hwt : cfg.W0.waterTable = 1) :
    ∀ d ∈ s.daysRev, ∀ y ∈ d.r.state.cells, cfg.zgw d.D.tsc ≤ y.c.zMid → y.th = y.c.thS := by
  obtain ⟨wp, fc, hL⟩ := hC.layerFns
  obtain ⟨_, hOK⟩ := run_invW hC wp fc hL hr hR
  intro d hd y hy hz
  have hc := run_dayCfg hr d hd
  have hday := run_days hr d hd
  have hw := fullDay_water hday
  obtain ⟨hpre, _, _⟩ := (run_inv_closed hC hr hR).2 d hd
  have hdz : ∀ x ∈ d.st.cells, 0 < x.c.dz := fun x hx => (hpre.pre x hx).inv.wf.dz_pos
  have hwt' : d.P.W.waterTable = 1 := by rw [hc.waterTable]; exact hwt
  obtain ⟨a1, a2, _, a4⟩ := (run_gw_depth hr d hd).1 hwt
  -- the table is in the profile
  have hin : d.r.water.wtInSoil = true := by
    apply a4.mpr
    have hcm := fullDay_comps hday hdz
    have : y.c ∈ d.r.state.cells.map (·.c) := List.mem_map_of_mem hy
    rw [hcm] at this
    obtain ⟨x, hx, hxe⟩ := List.mem_map.mp this
    exact ⟨x, hx, by rw [hxe]; exact hz⟩
  have ok := hOK d hd
  have hzw : d.r.water.zGW = cfg.zgw d.D.tsc := by
    rw [← (fullDay_rows hday).2.2.2.2.1]; exact a1
  have hy' : y ∈ d.r.water.cells := by rw [← (fullDay_rows hday).1]; exact hy
  exact waterDay_below_table_eq hw hpre wp fc ok.tr (fun h1 => (ok.gw h1).1) (ok.gw hwt').2 hin
    y hy' (by rw [hzw]; exact hz)

/-- **`run_gw_capillary_slack`**: with a water table, on every simulated day capillary rise never
lowers a water content and never lifts a compartment above its adjusted field capacity plus
1/20000 (or leaves it where it was); the reported total differs from the water really added by at
most `1/20000 · 1000 · (thickness of the compartments filled)`. -/
theorem run_gw_capillary_slack (hC : CfgOK F T cfg) (hr : RunReach F T cfg s)
    (hR : ∀ d ∈ s.daysRev, ResidualW d) (hwt : cfg.W0.waterTable = 1) :
    ∀ d ∈ s.daysRev,
      (∀ y ∈ d.r.water.crCells, ∃ x ∈ d.r.trace.f.cells, y.c = x.c ∧ y.fcAdj = x.fcAdj ∧
        x.th ≤ y.th ∧ y.th ≤ max x.th (x.fcAdj + 1 / 20000)) ∧
      0 ≤ d.r.flux.cr ∧ 0 ≤ d.r.water.dzFill ∧
      |d.r.flux.cr - d.r.water.crAdded| ≤ d.r.water.dzFill * 1000 * (1 / 20000) := by
  intro d hd
  have hday := run_days hr d hd
  obtain ⟨hpre, _, _⟩ := (run_inv_closed hC hr hR).2 d hd
  have hdz : ∀ x ∈ d.st.cells, 0 < x.c.dz := fun x hx => (hpre.pre x hx).inv.wf.dz_pos
  obtain ⟨hRL, hRS⟩ := hC.gw hwt
  obtain ⟨_, a2, _⟩ := fullDay_flux_signs hday hpre hC.fn.gwExp
  obtain ⟨b1, b2⟩ := fullDay_capillary_rise_reported hday hRL hdz
  refine ⟨?_, a2, b1, b2⟩
  obtain ⟨X, hs, e⟩ := fullDay_ok' hday
  have hf := ((day_comps hs.water hdz).all (fun c => 0 < c.dz) hdz).2.2.2.1
  have := capillaryRise_bounds F hC.fn.gwExp hRL hRS _ _ _ _ _ _ hf hs.water.hc
  rw [e]
  exact this

/-- **`run_gw_none`**: without a water table, on every simulated day of every run capillary rise
and groundwater inflow are zero, the table is never reported in the profile and the adjusted field
capacity is left alone — no hypothesis about computed values. -/
theorem run_gw_none (hC : CfgOK F T cfg) (hr : RunReach F T cfg s)
    (hwt : cfg.W0.waterTable ≠ 1) :
    ∀ d ∈ s.daysRev,
      d.r.flux.cr = 0 ∧ d.r.water.crAdded = 0 ∧ d.r.flux.gwIn = 0 ∧
      d.r.water.wtInSoil = false ∧
      d.r.state.cells.map (·.fcAdj) = d.st.cells.map (·.fcAdj) := by
  have hR : ∀ d ∈ s.daysRev, ResidualW d := fun d hd =>
    residualW_of_no_table (by rw [(run_dayCfg hr d hd).waterTable]; exact hwt)
  intro d hd
  have hc := run_dayCfg hr d hd
  have hday := run_days hr d hd
  obtain ⟨hpre, _, _⟩ := (run_inv_closed hC hr hR).2 d hd
  have hdz : ∀ x ∈ d.st.cells, 0 < x.c.dz := fun x hx => (hpre.pre x hx).inv.wf.dz_pos
  obtain ⟨e1, _, _, _, _, _, _, _, _, _, e11, e12, _⟩ := fullDay_rows hday
  obtain ⟨a, b, c, d', e⟩ := waterDay_no_table (fullDay_water hday)
    (by rw [hc.waterTable]; exact hwt) hdz
  exact ⟨by rw [e11]; exact a, b, by rw [e12]; exact c, d', by rw [e1]; exact e⟩

end c19

end Aqua

#print axioms Aqua.run_days_ind
#print axioms Aqua.run_dayCfg
#print axioms Aqua.run_linked
#print axioms Aqua.run_partition
#print axioms Aqua.run_runoff_bounds
#print axioms Aqua.run_runoff_le_supply
#print axioms Aqua.run_dry_day
#print axioms Aqua.run_pondInv
#print axioms Aqua.run_negative_infiltration
#print axioms Aqua.run_negative_infiltration_of_pond_le
#print axioms Aqua.run_gw_depth
#print axioms Aqua.run_gw_fcAdj
#print axioms Aqua.run_gw_saturated
#print axioms Aqua.run_gw_capillary_slack
#print axioms Aqua.run_gw_none
