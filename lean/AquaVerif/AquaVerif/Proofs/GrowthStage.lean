import AquaVerif.Model.GrowthStage
import AquaVerif.Model.Irrigation
import AquaVerif.Proofs.Basic
/-
Facts about `growthStage` (`aquacrop/solution/growth_stage.py`): in season the stage is one of
1…4 (so it always indexes the four soil-moisture thresholds of irrigation method 1 validly),
it never goes back as the adjusted time increases, off season it is the dummy 0.
-/

set_option linter.unusedSectionVars false
namespace Aqua
variable {α : Type} [Field α] [LinearOrder α] [IsStrictOrderedRing α]

/-- in a linear order the "keep the old value" fall-through of the Python `elif` chain is dead -/
theorem stageOf_range (t c10 mx sen : α) (old : Nat) :
    1 ≤ stageOf t c10 mx sen old ∧ stageOf t c10 mx sen old ≤ 4 := by
  unfold stageOf
  split_ifs with h1 h2 h3 h4
  · exact ⟨le_refl _, by norm_num⟩
  · exact ⟨by norm_num, by norm_num⟩
  · exact ⟨by norm_num, by norm_num⟩
  · exact ⟨by norm_num, le_refl _⟩
  · exact absurd (not_le.mp h3) h4

theorem stageOf_indep_old (t c10 mx sen : α) (old old' : Nat) :
    stageOf t c10 mx sen old = stageOf t c10 mx sen old' := by
  unfold stageOf
  split_ifs with h1 h2 h3 h4 <;> first | rfl | exact absurd (not_le.mp h3) h4

/-- the stage is monotone in the adjusted time (no ordering of the thresholds is needed) -/
theorem stageOf_mono (t t' c10 mx sen : α) (old old' : Nat) (h : t ≤ t') :
    stageOf t c10 mx sen old ≤ stageOf t' c10 mx sen old' := by
  have r := stageOf_range t' c10 mx sen old'
  unfold stageOf at r ⊢
  split_ifs at r ⊢ <;> first
    | omega
    | (exfalso; linarith)

/-- with ordered thresholds the four stages are the four time intervals -/
theorem stageOf_eq_iff (t c10 mx sen : α) (old : Nat) (h12 : c10 ≤ mx) (h23 : mx ≤ sen) :
    (stageOf t c10 mx sen old = 1 ↔ t ≤ c10) ∧
    (stageOf t c10 mx sen old = 2 ↔ c10 < t ∧ t ≤ mx) ∧
    (stageOf t c10 mx sen old = 3 ↔ mx < t ∧ t ≤ sen) ∧
    (stageOf t c10 mx sen old = 4 ↔ sen < t) := by
  unfold stageOf
  split_ifs with h1 h2 h3 h4
  · refine ⟨by simp [h1], ?_, ?_, ?_⟩ <;> constructor <;> intro hx <;> first
      | (exfalso; omega) | (exfalso; linarith [hx.1]) | (exfalso; linarith)
  · rw [not_le] at h1
    refine ⟨?_, by simp [h1, h2], ?_, ?_⟩ <;> constructor <;> intro hx <;> first
      | (exfalso; omega) | (exfalso; linarith [hx.1]) | (exfalso; linarith)
  · rw [not_le] at h1 h2
    refine ⟨?_, ?_, by simp [h2, h3], ?_⟩ <;> constructor <;> intro hx <;> first
      | (exfalso; omega) | (exfalso; linarith [hx.1, hx.2]) | (exfalso; linarith)
  · rw [not_le] at h1 h2 h3
    refine ⟨?_, ?_, ?_, by simp [h3]⟩ <;> constructor <;> intro hx <;> first
      | (exfalso; omega) | (exfalso; linarith [hx.1, hx.2]) | (exfalso; linarith)
  · exact absurd (not_le.mp h3) h4

theorem growthStage_offseason (cal : Nat) (dap dc g dg c10 mx sen : α) (old : Nat) :
    growthStage cal dap dc g dg c10 mx sen false old = some 0 := by
  unfold growthStage; simp

/-- in season a successful call yields a stage in 1…4, which is a valid `SMT` index -/
theorem growthStage_inseason (cal : Nat) (dap dc g dg c10 mx sen : α) (old s : Nat)
    (h : growthStage cal dap dc g dg c10 mx sen true old = some s) :
    1 ≤ s ∧ s ≤ 4 ∧ (cal = 1 ∨ cal = 2) ∧ ∃ i, smtIndex s = some i ∧ i.val = s - 1 := by
  unfold growthStage at h
  simp only [if_true] at h
  have key : ∀ t : α, stageOf t c10 mx sen old = s →
      1 ≤ s ∧ s ≤ 4 ∧ ∃ i, smtIndex s = some i ∧ i.val = s - 1 := by
    intro t ht
    have r := stageOf_range t c10 mx sen old
    rw [ht] at r
    exact ⟨r.1, r.2, ⟨s - 1, by omega⟩, smtIndex_valid' s r.1 r.2, rfl⟩
  split_ifs at h with h1 h2
  · simp only [Option.some.injEq] at h
    obtain ⟨a, b, c⟩ := key _ h
    exact ⟨a, b, Or.inl h1, c⟩
  · simp only [Option.some.injEq] at h
    obtain ⟨a, b, c⟩ := key _ h
    exact ⟨a, b, Or.inr h2, c⟩
where
  smtIndex_valid' (s : Nat) (h1 : 1 ≤ s) (h4 : s ≤ 4) : smtIndex s = some ⟨s - 1, by omega⟩ := by
    match s, h1, h4 with
    | 1, _, _ => rfl
    | 2, _, _ => rfl
    | 3, _, _ => rfl
    | 4, _, _ => rfl

/-- the call fails exactly for an unknown calendar type (in season) -/
theorem growthStage_isSome_iff (cal : Nat) (dap dc g dg c10 mx sen : α) (gs : Bool) (old : Nat) :
    (growthStage cal dap dc g dg c10 mx sen gs old).isSome = true ↔
      (gs = false ∨ cal = 1 ∨ cal = 2) := by
  unfold growthStage
  cases gs
  · simp
  · by_cases h1 : cal = 1
    · simp [h1]
    · by_cases h2 : cal = 2
      · simp [h2]
      · simp [h1, h2]

end Aqua
