import AquaVerif.Proofs.CatalogueCrop
import AquaVerif.Proofs.CatalogueDerived
import AquaVerif.Proofs.CatalogueSoil

/-
Work package R, parts 3 and 4 (**assembly and corollaries**): the closed run-level theorems of
`Proofs/RunClosed*.lean` apply to every *catalogue configuration*.

`CatCfg cfg` says of a `cfg : RunCfg ℝ`, and nothing else:
(i)   every season's crop and the fallow filler crop are records `c.cropParams K` of a crop `c` of
      the generated table `cropFullTable` other than SugarCane (`LeafyOK`), the initial profile
      and water content are what `soilProfile` / `initWC` return for layers satisfying `SpecOK`
      (in particular the layers of `builtinLayersGen`: `specOK_of_builtin`) (`SoilBuilt`);
(ii)  the initialisation outputs: `DerivedRunOK K` for every crop, and the scalar part of the
      state `_initialize` leaves is the one of `InitialCondition.__init__` /
      `read_model_initial_conditions` (`InitScalars`);
(iii) the clock is well-formed with seasons of at most `ageMax = 358` days, and the irrigation /
      field-management / soil-evaporation / CO2 parameters lie in the stated ranges.

`cfgOK_of_catalogue`, `cfgTrOK_of_catalogue`, `cfgRwOK_of_catalogue`, `cfgEsOK_of_catalogue`,
`weatherOK_of_catalogue` (the harvest-index threshold ordering of `WeatherOK` follows from the
catalogue for `ET0 > 0`), and the corollaries `catalogue_run_inv`, `catalogue_run_closes`,
`catalogue_run_flux`, `catalogue_run_crop_envelope` (+ `_no_table` variants with no hypothesis
about computed values at all).
-/

set_option linter.unusedSectionVars false
set_option linter.unusedVariables false
set_option linter.unusedSimpArgs false
namespace Aqua
open Aqua.Generated Aqua.Response Aqua.HarvestIndexReal Aqua.Clock

/-! ## 1. what a catalogue configuration is -/

/-- a crop record built from a catalogue crop other than SugarCane and derived values satisfying
`DerivedRunOK` -/
def CatCrop (p : CropParams ℝ) : Prop :=
  ∃ c ∈ cropFullTable, CropFull.LeafyOK c ∧ ∃ K : CropDerived ℝ, DerivedRunOK K ∧ p = c.cropParams K

/-- the initial profile and the initial water content are what the profile builder and `initWC`
(`Layer` method) return: positive compartment thicknesses, layers satisfying `SpecOK`, every layer
named by a data point satisfying `PointSpecOK`; exact comparisons on whole centimetres -/
def SoilBuilt (wt : Bool) (cells : List (Cell ℝ)) (thini : List ℝ) : Prop :=
  ∃ (more : Nat → Bool) (fuel : Nat) (dz : List Nat) (specs : List (LayerSpec ℝ Nat))
    (adjRew calcCN : Bool) (rew zSurf cn zTopArg : ℝ) (so : SoilOut ℝ) (zgw zSoil : ℝ) (ty : WcType)
    (pts : List (WcPoint ℝ)) (o : InitOut ℝ),
    (∀ d ∈ dz, 0 < d) ∧ (∀ sp ∈ specs, SpecOK sp) ∧
    soilProfile realFn natGe1 natGe2 more fuel dz specs wt adjRew calcCN rew zSurf cn zTopArg
      = .ok so ∧
    initWC realFn so.comps wt zgw zSoil ty .layer pts = .ok o ∧
    (∀ c ∈ so.comps, ∃ p ∈ pts, p.lay = c.layer) ∧
    (∀ wp fc s : Nat → ℝ, LayerFn so.comps wp fc s → ∀ p ∈ pts, PointSpecOK so.comps wp fc s ty p) ∧
    cells = initCells so.comps o.th o.fcAdjInit ∧ thini = o.th

/-- the layers are layers of the generated table of built-in soils (any thickness) -/
def TableSpecs (specs : List (LayerSpec ℝ Nat)) : Prop :=
  ∀ sp ∈ specs, ∃ l ∈ builtinLayersGen, ∃ thickCm : Nat, sp = l.toSpec thickCm

/-- membership in the generated soil table discharges the `SpecOK` premise of `SoilBuilt` -/
theorem TableSpecs.specOK {specs : List (LayerSpec ℝ Nat)} (h : TableSpecs specs) :
    ∀ sp ∈ specs, SpecOK sp := by
  intro sp hsp
  obtain ⟨l, hl, t, rfl⟩ := h sp hsp
  exact specOK_of_builtin hl t

/-- **the scalar part of the state `_initialize` leaves** (`InitialCondition.__init__`, then
`read_model_initial_conditions`: `cc0_adj = CC0` or `0`, `HIfinal = HI0`, the surface storage) -/
structure InitScalars (cfg : RunCfg ℝ) : Prop where
  dap : cfg.init.dap = 0
  mature : cfg.init.cropMature = false
  dead : cfg.init.cropDead = false
  flag : cfg.init.harvestFlag = false
  cc : cfg.init.cc = 0
  ccNS : cfg.init.ccNS = 0
  ccAdj : cfg.init.ccAdj = 0
  ccAdjNS : cfg.init.ccAdjNS = 0
  ccxAct : cfg.init.ccxAct = 0
  ccxActNS : cfg.init.ccxActNS = 0
  ccxW : cfg.init.ccxW = 0
  cc0Adj : cfg.init.cc0Adj = 0 ∨
    cfg.init.cc0Adj = (cropOf cfg cfg.clock.season0).cx.cc.cc0
  trRatio : cfg.init.trRatio = 1
  rCor : cfg.init.rCor = 1
  fPre : cfg.init.fPre = 1
  fPost : cfg.init.fPost = 1
  fpostUpp : cfg.init.fpostUpp = 1
  fpostDwn : cfg.init.fpostDwn = 1
  sCor1 : cfg.init.sCor1 = 0
  sCor2 : cfg.init.sCor2 = 0
  hi : cfg.init.hi = 0
  hiAdj : cfg.init.hiAdj = 0
  hiFinal : 0 ≤ cfg.init.hiFinal
  biomass : cfg.init.biomass = 0
  biomassNS : cfg.init.biomassNS = 0
  ageDays : cfg.init.ageDays = 0
  delayedCds : cfg.init.delayedCds = 0
  pond : 0 ≤ cfg.init.pond

/-- **the parameter ranges** of irrigation, field management, soil evaporation and CO2 (all hold
for the program defaults of the repository: `Proofs/CatalogueDefaults.lean`) -/
structure CfgRanges (cfg : RunCfg ℝ) : Prop where
  smt : cfg.irr.irr.method = 4 → 0 ≤ cfg.irr.netIrrSMT ∧ cfg.irr.netIrrSMT ≤ 100
  smtF : cfg.fallowIrr.irr.method = 4 →
    0 ≤ cfg.fallowIrr.netIrrSMT ∧ cfg.fallowIrr.netIrrSMT ≤ 100
  bundWater : 0 ≤ cfg.bundWater
  co2Ref : cfg.W0.co2Ref < 550
  /-- the CO2 factor of the crop coefficient stays non-negative:
  `(cur − ref)/(550 − ref) ≤ 20` (for `ref = 369.41`: `cur ≤ 3981.21` ppm) -/
  co2Cur : ∀ season : Int, cfg.co2Cur season ≤ cfg.W0.co2Ref + 20 * (550 - cfg.W0.co2Ref)
  kex : 0 ≤ cfg.W0.soil.kex
  fwcc0 : 0 ≤ cfg.W0.soil.fwcc
  fwcc1 : cfg.W0.soil.fwcc ≤ 100
  mulch : cfg.fm.mulches = true → cfg.fm.fMulch * (cfg.fm.mulchPct / 100) ≤ 1
  mulchF : cfg.fallowFm.mulches = true → cfg.fallowFm.fMulch * (cfg.fallowFm.mulchPct / 100) ≤ 1
  wet : cfg.irr.irr.method ≠ 4 → 0 ≤ cfg.irr.wetSurf
  wetF : cfg.fallowIrr.irr.method ≠ 4 → 0 ≤ cfg.fallowIrr.wetSurf

/-- **a catalogue configuration** -/
structure CatCfg (cfg : RunCfg ℝ) : Prop where
  -- (i) membership in the generated tables
  crops : ∀ k, CatCrop (cfg.seasonCrop k)
  fallow : CatCrop cfg.fallowCrop
  soil : SoilBuilt (decide (cfg.W0.waterTable = 1)) cfg.init.cells cfg.thini
  -- (ii) the initialisation outputs (beside `DerivedRunOK` inside `CatCrop`)
  init : InitScalars cfg
  -- (iii) clock and parameter ranges
  clock : WF cfg.clock
  /-- a season lasts at most `ageMax = 358` days -/
  seasonLen : ∀ k : Nat, cfg.clock.hv k - (cfg.clock.pl k : Int) + 1 ≤ 358
  ranges : CfgRanges cfg

/-! ## 2. the laws at `ℝ` -/

theorem fnOK_real : FnOK realFn realTrig :=
  ⟨expOrdLaws_real, powLaws_real, powNonneg_real, powSqLaw_real, sinLaw_real⟩

theorem gwRound_real : GwRoundLaws realFn ∧ GwRoundSign realFn := by
  refine ⟨⟨fun x => ?_⟩, ⟨fun x h => h⟩⟩
  show |x - x| ≤ 1 / 20000
  rw [sub_self, abs_zero]; norm_num

/-! ## 3. the crops of a catalogue configuration -/

section crops
variable {cfg : RunCfg ℝ}

theorem CatCrop.cropOK {p : CropParams ℝ} (h : CatCrop p) : CropOK realFn realTrig p := by
  obtain ⟨c, hc, hl, K, hK, rfl⟩ := h
  exact cropOK_of_mem hc hl hK.ok

theorem CatCrop.fallowOK {p : CropParams ℝ} (h : CatCrop p) :
    CropOK realFn realTrig (fallowAdjust p) := by
  obtain ⟨c, hc, hl, K, hK, rfl⟩ := h
  exact cropOK_fallow_of_catalogue (catalogue_ok c hc) (catalogue_runOK c hc) hl hK.ok

theorem CatCrop.trCropOK {p : CropParams ℝ} (h : CatCrop p) :
    TrCropOK realFn p ((ageMax : ℚ) : ℝ) := by
  obtain ⟨c, hc, hl, K, hK, rfl⟩ := h
  exact trCropOK_of_catalogue (catalogue_ok c hc) (catalogue_runOK c hc)

theorem CatCrop.devEnd {p : CropParams ℝ} (h : CatCrop p) :
    p.cx.cc.canopyDevEnd ≤ p.cx.cc.senescence := by
  obtain ⟨c, hc, hl, K, hK, rfl⟩ := h
  exact hK.devEnd_le_senescence

theorem CatCrop.maxCanopyCD {p : CropParams ℝ} (h : CatCrop p) : 0 ≤ p.cw.tr.maxCanopyCD := by
  obtain ⟨c, hc, hl, K, hK, rfl⟩ := h
  exact hK.maxCanopyCD_nonneg

/-- the water-stress thresholds of the harvest-index routine, as used, are ordered for `ET0 ≥ 0` -/
theorem CatCrop.hiOrd {p : CropParams ℝ} (h : CatCrop p) {et0 : ℝ} (het : 0 ≤ et0) (tes : ℝ)
    (i : Fin 4) :
    wsUp realFn p.cx.hik.pUp p.cx.hik.etAdj p.cx.hik.beta tes et0 true i ≤
      wsLo realFn p.cx.hik.pLo p.cx.hik.etAdj et0 i := by
  obtain ⟨c, hc, hl, K, hK, rfl⟩ := h
  exact hiPre_ord_real (catalogue_ok c hc) het tes i

/-- every crop record the run uses -/
theorem CatCfg.cropOf_cases (h : CatCfg cfg) (season : Int) :
    (CatCrop (cropOf cfg season)) ∨
      (∃ p, CatCrop p ∧ cropOf cfg season = fallowAdjust p) := by
  unfold cropOf
  split_ifs
  · exact Or.inl (h.crops _)
  · exact Or.inr ⟨_, h.fallow, rfl⟩

theorem CatCfg.cropOK (h : CatCfg cfg) (season : Int) :
    CropOK realFn realTrig (cropOf cfg season) := by
  rcases h.cropOf_cases season with hc | ⟨p, hp, e⟩
  · exact hc.cropOK
  · rw [e]; exact hp.fallowOK

theorem CatCfg.trCropOK (h : CatCfg cfg) (season : Int) :
    TrCropOK realFn (cropOf cfg season) ((ageMax : ℚ) : ℝ) := by
  rcases h.cropOf_cases season with hc | ⟨p, hp, e⟩
  · exact hc.trCropOK
  · rw [e]; exact trCropOK_fallowAdjust hp.trCropOK

theorem CatCfg.devEnd (h : CatCfg cfg) (season : Int) :
    (cropOf cfg season).cx.cc.canopyDevEnd ≤ (cropOf cfg season).cx.cc.senescence := by
  rcases h.cropOf_cases season with hc | ⟨p, hp, e⟩
  · exact hc.devEnd
  · rw [e]; exact hp.devEnd

theorem CatCfg.hiOrd (h : CatCfg cfg) (season : Int) {et0 : ℝ} (het : 0 ≤ et0) (tes : ℝ)
    (i : Fin 4) :
    wsUp realFn (cropOf cfg season).cx.hik.pUp (cropOf cfg season).cx.hik.etAdj
        (cropOf cfg season).cx.hik.beta tes et0 true i ≤
      wsLo realFn (cropOf cfg season).cx.hik.pLo (cropOf cfg season).cx.hik.etAdj et0 i := by
  rcases h.cropOf_cases season with hc | ⟨p, hp, e⟩
  · exact hc.hiOrd het tes i
  · rw [e]; exact hp.hiOrd het tes i

end crops

/-- **every calendar-day crop of the catalogue other than Barley, PaddyRice (`CanopyDevEnd >
Senescence`) and SugarCane (leafy with `dHI0 < 0`) yields a `CatCrop`** with the derived values the
modelled initialisation routines compute over `ℝ` (any CO2 concentration `cur ≥ 0`) -/
theorem catCrop_of_CD {c : CropFull} (hc : c ∈ cropFullTable) (hct : c.calendarType = 1)
    (hn : c.name ∉ ["Barley", "PaddyRice", "SugarCane"]) {cur : ℝ} (hcur : 0 ≤ cur) (fe : ℝ)
    (np : Bool) :
    ∃ (o : CalCDOut ℝ) (g t d f : ℝ),
      calendarInitCD realFn (c.calCDIn fe) = .ok o ∧
      hiBlock realFn higcFuel c.cropType c.yldFormCD.num (c.hi0 : ℝ) (c.hiIni : ℝ) = .ok (g, t, d) ∧
      fco2Init realFn cur 369.41 (c.bsted : ℝ) (c.bface : ℝ) (c.fsink : ℝ) (c.wp : ℝ) = some f ∧
      CatCrop (c.cropParams (c.derivedCD o g t d f np)) := by
  simp only [List.mem_cons, List.not_mem_nil, or_false, not_or] at hn
  obtain ⟨n1, n2, n3⟩ := hn
  have hde : CropFull.DevEndOK c := catalogue_CD_devEndOK c hc hct (by
    simp only [List.mem_cons, List.not_mem_nil, or_false, not_or]; exact ⟨n1, n2⟩)
  have hl : CropFull.LeafyOK c := (catalogue_exceptions c hc).1.mpr (by
    simp only [List.mem_cons, List.not_mem_nil, or_false]; exact n3)
  obtain ⟨o, g, t, d, f, ho, hb, hf, hK⟩ := exists_derivedRunOK_CD_real hc hde hct hcur fe np
  exact ⟨o, g, t, d, f, ho, hb, hf, c, hc, hl, _, hK, rfl⟩

/-! ## 4. the soil of a catalogue configuration -/

theorem SoilBuilt.ok {wt : Bool} {cells : List (Cell ℝ)} {thini : List ℝ}
    (h : SoilBuilt wt cells thini) : SoilInitOK cells thini := by
  obtain ⟨more, fuel, dz, specs, adjRew, calcCN, rew, zSurf, cn, zTopArg, so, zgw, zSoil, ty, pts, o,
    hdz, hsp, hs, hi, hnamed, hpts, rfl, rfl⟩ := h
  exact soilInit_ok realFn natGe1 natGe2 natGe1_anti natGe2_anti more fuel dz specs wt adjRew calcCN
    rew zSurf cn zTopArg so zgw zSoil ty pts o hdz hsp
    (fun _ => ⟨fun _ => rfl, Real.exp_pos, powSqLaw_real⟩) hs hi hnamed hpts

/-! ## 5. the initial state -/

/-- the state `_initialize` leaves is inside the crop envelope of the first crop record -/
theorem initScalars_cropInv {cfg : RunCfg ℝ} (hI : InitScalars cfg) (P : DayParams ℝ)
    (hP : P.cx = (cropOf cfg cfg.clock.season0).cx)
    (hc : ResetCropOK (cropOf cfg cfg.clock.season0)) : CropInv realFn P cfg.init := by
  obtain ⟨W, fm, z, cx⟩ := P
  simp only at hP
  subst hP
  refine ⟨⟨?_, ?_, ?_, ?_, ?_, ?_, ?_, ?_, ?_⟩, ⟨?_, ?_, ?_⟩, ⟨?_, ?_, ?_, ?_, ?_, ?_, ?_, ?_, ?_, ?_⟩,
    ⟨?_, ?_⟩⟩
  · rw [hI.cc]
  · rw [hI.cc, hI.ccNS]
  · rw [hI.ccNS]; exact hc.ccx
  · rcases hI.cc0Adj with e | e <;> rw [e]
    exact hc.cc0
  · rcases hI.cc0Adj with e | e <;> rw [e]
    exact hc.cc0
  · rw [hI.ccxAct]; exact hc.ccx
  · rw [hI.ccxActNS]; exact hc.ccx
  · rw [hI.ccAdj]; exact zero_le_one
  · rw [hI.ccAdjNS]; exact zero_le_one
  · rw [hI.trRatio]; exact zero_le_one
  · rw [hI.trRatio]
  · intro h; exact absurd hI.dap h
  · rw [hI.fPre]; exact zero_le_one
  · rw [hI.fPost]; exact zero_le_one
  · rw [hI.sCor1]
  · rw [hI.sCor2]
  · rw [hI.fpostUpp]; exact zero_le_one
  · rw [hI.fpostDwn]; exact zero_le_one
  · rw [hI.hi]; exact hc.hi0
  · rw [hI.hiAdj, hI.hi, mul_zero]
  · exact hI.hiFinal
  · intro q _ hq
    rw [hI.hi]
    exact hiref_nonneg realFn _ q true hc.hi0 hc.hiIni (le_trans hI.hiFinal hq)
  · rw [hI.biomass]
  · rw [hI.biomass, hI.biomassNS]

/-! ## 6. assembly -/

section assembly
variable {cfg : RunCfg ℝ}

theorem wf_season0 {c : Clock.Cfg} (h : WF c) : -1 ≤ c.season0 := by
  have := h.2.2.2.2.2
  rw [this]
  split_ifs <;> decide

/-- **`cfgOK_of_catalogue`**: a catalogue configuration satisfies `CfgOK` for the real functions -/
theorem cfgOK_of_catalogue (h : CatCfg cfg) : CfgOK realFn realTrig cfg := by
  have hS := h.soil.ok
  exact
    { fn := fnOK_real
      gw := fun _ => gwRound_real
      cells0 := hS.cells0
      geom := hS.geom
      aer0 := hS.aer0
      pen := hS.pen
      layers := fun _ => hS.layers
      pond0 := h.init.pond
      thini := hS.thini
      smt := h.ranges.smt
      smtF := h.ranges.smtF
      bundWater := h.ranges.bundWater
      crop := h.cropOK
      season0 := wf_season0 h.clock
      init := initScalars_cropInv h.init _ rfl (h.cropOK _).reset
      rCor0 := by rw [h.init.rCor]; exact zero_le_one }

/-- the weather premise for a catalogue configuration is `ET0 > 0` on every day: the ordering of
the water-stress thresholds as used by `harvest_index` follows from the catalogue -/
theorem weatherOK_of_catalogue (h : CatCfg cfg) (het : ∀ t, 0 < (cfg.weather t).et0) :
    WeatherOK realFn cfg :=
  { et0 := het
    hiOrd := fun t season tes i => h.hiOrd season (het t).le tes i }

theorem ageMax_real : ((ageMax : ℚ) : ℝ) = 358 := ageMax_cast

/-- **`CfgTrOK`** (premises of `0 ≤ TrPot`) for the age bound `ageMax = 358` -/
theorem cfgTrOK_of_catalogue (h : CatCfg cfg) : CfgTrOK realFn cfg ((ageMax : ℚ) : ℝ) := by
  have hI := h.init
  exact
    { wf := h.clock
      initOK := ⟨hI.dap, hI.mature, hI.dead, hI.flag⟩
      crop := h.trCropOK
      age := fun k dap hd => by
        have h1 := h.seasonLen k
        have h2 : (dap : Int) ≤ 358 := le_trans hd h1
        have h3 : ((natNum dap : ℝ)) ≤ 358 := by
          rw [natNum_eq_cast]; exact_mod_cast h2
        have h4 := (h.crops k).maxCanopyCD
        rw [ageMax_real]
        linarith
      co2 := fun season hlt => by
        have h1 := h.ranges.co2Cur season
        have hW : 0 < 550 - cfg.W0.co2Ref := by linarith [h.ranges.co2Ref]
        have : (cfg.co2Cur season - cfg.W0.co2Ref) / (550 - cfg.W0.co2Ref) ≤ 20 := by
          rw [div_le_iff₀ hW]; linarith
        linarith
      A0 := by rw [ageMax_real]; norm_num
      ageDays0 := by rw [hI.ageDays, ageMax_real]; norm_num
      delayed0 := by rw [hI.delayedCds]
      ccxW0 := by rw [hI.ccxW]
      ccxW1 := by rw [hI.ccxW]; exact (h.cropOK _).ccx0 }

/-- **`CfgRwOK`** (premises of the rewatering cap) -/
theorem cfgRwOK_of_catalogue (h : CatCfg cfg) : CfgRwOK realFn cfg :=
  { devEnd := h.devEnd
    init := Or.inl (by rw [h.init.cc]) }

/-- **`CfgEsOK`** (premises of `0 ≤ EsPot`) -/
theorem cfgEsOK_of_catalogue (h : CatCfg cfg) : CfgEsOK cfg :=
  ⟨h.ranges.kex, h.ranges.fwcc0, h.ranges.fwcc1, h.ranges.mulch, h.ranges.mulchF, h.ranges.wet, h.ranges.wetF⟩

end assembly

/-! ## 7. the corollaries -/

section corollaries
variable {cfg : RunCfg ℝ} {s : RunState ℝ}

/-- **C03 along every run of a catalogue configuration**: in every reachable state the
compartments are those of the initial profile, each within its limits with consistent adjusted
field capacity, the ponding depth non-negative; every simulated day started from and ended in such
a state.  Hypotheses: the configuration is a catalogue configuration; with a water table,
capillary rise did not overshoot saturation on the simulated days (`ResidualW`). -/
theorem catalogue_run_inv (h : CatCfg cfg) (hr : RunReach realFn realTrig cfg s)
    (hR : ∀ d ∈ s.daysRev, ResidualW d) :
    WaterInv cfg s ∧ ∀ d ∈ s.daysRev, DayPre realFn d.P.W d.st.cells d.st.water ∧
      (∀ y ∈ d.r.state.cells, y.Inv) ∧ 0 ≤ d.r.state.pond :=
  run_inv_closed (cfgOK_of_catalogue h) hr hR

/-- **C01 along every run of a catalogue configuration**: the daily soil-water balance closes on
every simulated day -/
theorem catalogue_run_closes (h : CatCfg cfg) (hr : RunReach realFn realTrig cfg s)
    (hR : ∀ d ∈ s.daysRev, ResidualW d) :
    ∀ d ∈ s.daysRev,
      storage d.r.state.cells + d.r.state.pond =
        storage d.st.cells + d.st.pond + d.r.flux.infl + d.r.water.preIrr + d.r.water.irrNet
          + d.r.water.crAdded + d.r.flux.gwIn - d.r.flux.deepPerc - d.r.flux.es - d.r.flux.tr :=
  run_closes_closed (cfgOK_of_catalogue h) hr hR

/-- **C04 and the bund part of C03 along every run of a catalogue configuration** with positive
reference evapotranspiration: `0 ≤ Es ≤ EsPot`, `0 ≤ Tr ≤ TrPot`, deep percolation, capillary
rise, groundwater inflow and irrigation non-negative, ponding between 0 and the bund height -/
theorem catalogue_run_flux (h : CatCfg cfg) (het : ∀ t, 0 < (cfg.weather t).et0)
    (hr : RunReach realFn realTrig cfg s) (hR : ∀ d ∈ s.daysRev, ResidualW d) :
    ∀ d ∈ s.daysRev,
      (0 ≤ d.r.flux.esPot ∧ 0 ≤ d.r.flux.es ∧ d.r.flux.es ≤ d.r.flux.esPot) ∧
      (0 ≤ d.r.flux.trPot ∧ 0 ≤ d.r.flux.tr ∧ d.r.flux.tr ≤ d.r.flux.trPot) ∧
      (0 ≤ d.r.flux.deepPerc ∧ 0 ≤ d.r.flux.cr ∧ 0 ≤ d.r.flux.gwIn ∧ 0 ≤ d.r.water.irr ∧
        (d.P.W.irr.method ≠ 4 → 0 ≤ d.r.flux.irrDay)) ∧
      (0 ≤ d.r.state.pond ∧
        (d.P.fm.bunds = false ∨ d.P.fm.zBund ≤ 0.001 → d.r.state.pond = 0) ∧
        (d.P.fm.bunds = true → d.st.pond ≤ d.P.fm.zBund → d.r.state.pond ≤ d.P.fm.zBund)) :=
  run_flux_closed (cfgOK_of_catalogue h) (cfgTrOK_of_catalogue h) (cfgRwOK_of_catalogue h)
    (cfgEsOK_of_catalogue h) (weatherOK_of_catalogue h het) hr hR

/-- **C05 along every run of a catalogue configuration**: the crop envelope (`CropEnv`: canopy
cover within `[0, CCx]`, rooting depth within `[Zmin, Zmax]`, harvest index below the reference
index and `HI0`, non-negative biomass) in every reachable state and at both ends of every
simulated day, `ccx_act ≤ CCx`, `0 ≤ TrPot`; within a season harvest index and biomass never
decrease and `0 ≤ Tr ≤ TrPot` -/
theorem catalogue_run_crop_envelope (h : CatCfg cfg) (het : ∀ t, 0 < (cfg.weather t).et0)
    (hr : RunReach realFn realTrig cfg s) (hR : ∀ d ∈ s.daysRev, ResidualW d) :
    (-1 ≤ s.season ∧ CropEnv realFn (paramsOf cfg s.season false) s.day ∧
        RunInvT cfg ((ageMax : ℚ) : ℝ) s ∧ RunInvJ realFn cfg s) ∧
      ∀ d ∈ s.daysRev, CropEnv realFn d.P d.st ∧ CropEnv realFn d.P d.r.state ∧
        d.r.state.ccxAct ≤ d.P.cx.cc.ccx ∧ 0 ≤ d.r.flux.trPot ∧
        (d.D.gs = true → d.st.hi ≤ d.r.state.hi ∧ d.st.biomass ≤ d.r.state.biomass ∧
          0 ≤ d.r.flux.tr ∧ d.r.flux.tr ≤ d.r.flux.trPot) ∧
        (0 ≤ d.st.ccxW ∧ d.st.ccxW ≤ d.P.cx.cc.ccx) :=
  run_crop_closed (cfgOK_of_catalogue h) (cfgTrOK_of_catalogue h) (cfgRwOK_of_catalogue h)
    (weatherOK_of_catalogue h het) hr hR

/-- without a water table the capillary-rise residual of every simulated day is trivially true -/
theorem residualW_of_run_no_table (hwt : cfg.W0.waterTable ≠ 1)
    (hr : RunReach realFn realTrig cfg s) : ∀ d ∈ s.daysRev, ResidualW d := by
  intro d hd
  obtain ⟨season, hP⟩ := run_days_params hr d hd
  exact residualW_of_no_table (by rw [hP]; exact hwt)

/-- **all four, without a water table: no hypothesis about computed values at all** -/
theorem catalogue_run_no_table (h : CatCfg cfg) (het : ∀ t, 0 < (cfg.weather t).et0)
    (hwt : cfg.W0.waterTable ≠ 1) (hr : RunReach realFn realTrig cfg s) :
    (WaterInv cfg s ∧ CropEnv realFn (paramsOf cfg s.season false) s.day) ∧
    ∀ d ∈ s.daysRev,
      ((∀ y ∈ d.r.state.cells, y.Inv) ∧ 0 ≤ d.r.state.pond) ∧
      storage d.r.state.cells + d.r.state.pond =
        storage d.st.cells + d.st.pond + d.r.flux.infl + d.r.water.preIrr + d.r.water.irrNet
          + d.r.water.crAdded + d.r.flux.gwIn - d.r.flux.deepPerc - d.r.flux.es - d.r.flux.tr ∧
      (0 ≤ d.r.flux.esPot ∧ 0 ≤ d.r.flux.es ∧ d.r.flux.es ≤ d.r.flux.esPot) ∧
      (0 ≤ d.r.flux.trPot ∧ 0 ≤ d.r.flux.tr ∧ d.r.flux.tr ≤ d.r.flux.trPot) ∧
      (0 ≤ d.r.flux.deepPerc ∧ 0 ≤ d.r.flux.cr ∧ 0 ≤ d.r.flux.gwIn ∧ 0 ≤ d.r.water.irr) ∧
      CropEnv realFn d.P d.st ∧ CropEnv realFn d.P d.r.state ∧ d.r.state.ccxAct ≤ d.P.cx.cc.ccx := by
  have hR := residualW_of_run_no_table hwt hr
  obtain ⟨hw, hdays⟩ := catalogue_run_inv h hr hR
  have hcl := catalogue_run_closes h hr hR
  have hfl := catalogue_run_flux h het hr hR
  obtain ⟨⟨_, henv, _⟩, hcr⟩ := catalogue_run_crop_envelope h het hr hR
  refine ⟨⟨hw, henv⟩, fun d hd => ?_⟩
  obtain ⟨_, a2, a3⟩ := hdays d hd
  obtain ⟨b1, b2, ⟨b3, b4, b5, b6, _⟩, _⟩ := hfl d hd
  obtain ⟨c1, c2, c3, _⟩ := hcr d hd
  exact ⟨⟨a2, a3⟩, hcl d hd, b1, b2, ⟨b3, b4, b5, b6⟩, c1, c2, c3⟩

end corollaries

end Aqua

section AxiomAudit
open Aqua
#print axioms catCrop_of_CD
#print axioms cfgOK_of_catalogue
#print axioms weatherOK_of_catalogue
#print axioms cfgTrOK_of_catalogue
#print axioms cfgRwOK_of_catalogue
#print axioms cfgEsOK_of_catalogue
#print axioms catalogue_run_inv
#print axioms catalogue_run_closes
#print axioms catalogue_run_flux
#print axioms catalogue_run_crop_envelope
#print axioms catalogue_run_no_table
end AxiomAudit
