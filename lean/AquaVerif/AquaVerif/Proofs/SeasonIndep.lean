import AquaVerif.Proofs.Run
import AquaVerif.Proofs.Seasons
import AquaVerif.Proofs.SeasonIndepDay

/-
Property C08 as a theorem about the run model (`Model/Run.lean`): **season `k` of a multi-season
run with the off-season skipped is the first season of the run started on that season's planting
date** (`season_independent`), and nothing of an earlier season leaks into it (`no_leak`).

Classification of the fields of `DayState'` at a season start (off-season skipped).
`resetState_stEq` is the machine-checked form of the table: the reset of *any* two states with the
same compartments (and, without a water table, the same `th_fc_Adj`) agree on every live field —
so every field is reset, invariant along the run, or dead; `fullDay_congr_dead` proves "dead".

| field(s) | class | why |
|---|---|---|
| `cells.c` (geometry, hydraulic properties) | live, equal by construction | never written (`run_cellsInv`, needs `0 < dz`) |
| `cells.th` | live, reset | `np.copy(thini)` (premise: `thini` covers the profile) |
| `cells.aer` (`aer_days_comp`) | live, reset | zeros |
| `cells.fcAdj` (`th_fc_Adj`), no water table | live, equal by construction | never written without a table (`fullDay_fcAdj`) |
| `cells.fcAdj`, water table | dead | step 1 reassigns every element (`checkGroundwaterTable_clr`) |
| `cells.flux` (`FluxOut`, a local of the Python day) | dead every day | `drainage` reassigns it before any read (`drainage_clr`) |
| `pond` | live, reset | `min(bund_water, z_bund)` / 0 |
| `daySubmerged irrCum ePot tPot ageDaysNS ageDays aerDays irrNetCum dap gddCum delayedCds delayedGdds pctLagPhase tEarlySen` | live, reset | 0 |
| `trRatio rCor fPre fPost fpostDwn fpostUpp` | live, reset | 1 |
| `growthStage germination protectedSeed prematSenes cropDead cropMature harvestFlag preAdj` | live, reset | 0 / false |
| `cc ccNS ccAdj ccAdjNS ccxAct ccxActNS ccxW ccxWNS ccxEarlySen ccPrev biomass biomassNS hi hiAdj fPol sCor1 sCor2 dryYield freshYield` | live, reset | 0 |
| `cc0Adj`, `hiFinal` | live, reset | `CC0`, `HI0` of the season's crop |
| `wSurf evapZ stage2 wStage2` | dead on the first day | `soil_evaporation` re-initialises on `dap == 1 and not sim_off_season` (`soilEvaporation_reinit`; premise `offW`) |
| `zRoot` | dead on the first day | `root_development` restarts from `Zmin` on `dap == 1` (`rootDevelopment_day1`) |
| `yieldForm` | dead in the growing season | recomputed by `HIref_current_day` |
| `hiRef` | dead in the growing season **for `CropType ∈ {1,2,3}`** | recomputed; an unknown crop type keeps the stored value (`hiRef_live_for_unknown_cropType`; premise `ct`) |
| `depletion taw zGW wtInSoil yieldPot` | dead | the day never reads them |

Day-level ingredients: `Proofs/SeasonIndepDay.lean` (`StEq`, `fullDay_congr_dead`,
`fullDay_relabel`); clock-level ingredients: `Proofs/Seasons.lean` (`Sim`, `step_shift`,
`sim_at_season_start`).
-/

set_option linter.unusedSectionVars false
set_option linter.unusedVariables false
set_option linter.unusedSimpArgs false
namespace Aqua
open Aqua.Clock
variable {α : Type} [Field α] [LinearOrder α] [IsStrictOrderedRing α]

/-! ## 1. the fresh configuration for season `k` -/

/-- the configuration of the run started on the planting date of season `k` of `cfg`, with the
state object `init'` that run's `_initialize` leaves.

* clock: `Clock.single` — the window starts on planting date `k` (same end date), one planting
  date (index 0), the latest harvest date of season `k`, `season_counter = 0`;
* weather, water-table depth and irrigation schedule: the rows from planting date `k` on (the
  Python tables are indexed by `time_step_counter`);
* season crops: those of the seasons `k, k+1, …`, *as the reset leaves them in the multi-season
  run* — for season `k` that is what `compute_variables` / `compute_crop_calendar` of the fresh run
  compute (`Properties/C08.lean` §2: `fco2_reset_eq_init`, `later_season_calendar_is_fresh_calendar`,
  under their premises); `CO2.current_concentration` of season `k`;
* soil, field management, irrigation management, fallow records, `bund_water`, `thini`: unchanged. -/
def freshCfgI (cfg : RunCfg α) (k : Nat) (init' : DayState' α) : RunCfg α :=
  { cfg with
    clock := single cfg.clock k
    irr := { cfg.irr with sched := fun t => cfg.irr.sched (t + cfg.clock.pl k) }
    fallowIrr := { cfg.fallowIrr with sched := fun t => cfg.fallowIrr.sched (t + cfg.clock.pl k) }
    seasonCrop := fun i => cfg.seasonCrop (k + i)
    co2Cur := fun i => cfg.co2Cur (i + (k : Int))
    weather := fun t => cfg.weather (t + cfg.clock.pl k)
    zgw := fun t => cfg.zgw (t + cfg.clock.pl k)
    init := init' }

/-- … with the same initial state object as the multi-season run (the case of a multi-season run
that itself starts on its first planting date, same `CC0`/`HI0` in season `k`) -/
def freshCfg (cfg : RunCfg α) (k : Nat) : RunCfg α := freshCfgI cfg k cfg.init

/-- **the premise on the initial state of the fresh run**: on the live fields it is what
`reset_initial_conditions` makes of the multi-season run's initial state for the crop of season
`k`.  Spelled out (`freshInit_iff`-style lemma `FreshInit.of_fields` below): `th = thini`,
`aer_days_comp = 0`, `surface_storage = min(bund_water, z_bund)` (bunds higher than 1 mm) or 0,
`cc0_adj = CC0`, `HIfinal = HI0` of that crop, every other reset field at its reset constant, same
compartments, and — without a water table — the same `th_fc_Adj`. -/
def FreshInit (cfg : RunCfg α) (k : Nat) (init' : DayState' α) : Prop :=
  StEq cfg.W0.waterTable (resetState cfg (cfg.seasonCrop k) cfg.init) init'

/-! ## 2. frame of the profile along a run: compartments and (without a table) `th_fc_Adj` -/

section frame
variable {F : Fn α} {T : TrigFn α} {P : DayParams α} {st : DayState' α} {D : DayIn' α}
  {r : DayResult α}

/-- without a water table the day never writes `th_fc_Adj` -/
theorem fullDay_fcAdj (h : fullDay F T P st D = .ok r) (hdz : ∀ x ∈ st.cells, 0 < x.c.dz)
    (hwt : P.W.waterTable ≠ 1) : r.state.cells.map (·.fcAdj) = st.cells.map (·.fcAdj) := by
  obtain ⟨hs, er⟩ := fullDay_ok h
  have h1 := (day_fcAdj hs.water hdz).2
  have hg := hs.water.hg
  unfold checkGroundwaterTable at hg
  rw [if_neg hwt] at hg
  have hg' := Option.some.inj hg
  have e : r.trace.g.cells = st.cells := by
    have := congrArg GwtOut.cells hg'
    exact this.symm
  rw [er]
  show r.trace.w.1.map (·.fcAdj) = st.cells.map (·.fcAdj)
  rw [← e]
  exact h1

end frame

theorem setTh_fcAdj : ∀ (cells : List (Cell α)) (vs : List α),
    (setTh cells vs).map (·.fcAdj) = cells.map (·.fcAdj)
  | [], _ => by simp [setTh]
  | x :: xs, [] => by simp [setTh]
  | x :: xs, v :: vs => by simp [setTh, setTh_fcAdj xs vs]

/-- compartments and (without a water table) `th_fc_Adj` of a run state are those of the initial
state -/
structure CellsInv (cfg : RunCfg α) (st : DayState' α) : Prop where
  comps : st.cells.map (·.c) = cfg.init.cells.map (·.c)
  fcAdj : cfg.W0.waterTable ≠ 1 → st.cells.map (·.fcAdj) = cfg.init.cells.map (·.fcAdj)

theorem resetState_cellsInv (cfg : RunCfg α) (crop : CropParams α) {st : DayState' α}
    (h : CellsInv cfg st) : CellsInv cfg (resetState cfg crop st) := by
  have hc0 : (st.cells.map (fun x => { x with aer := 0 })).map (·.c) = st.cells.map (·.c) := by
    rw [List.map_map]; rfl
  have hf0 : (st.cells.map (fun x => { x with aer := 0 })).map (·.fcAdj) = st.cells.map (·.fcAdj) := by
    rw [List.map_map]; rfl
  unfold resetState resetStateCore
  constructor
  · simp only
    split_ifs
    · rw [hc0]; exact h.comps
    · rw [setTh_comps, hc0]; exact h.comps
  · intro hwt
    simp only
    split_ifs
    · rw [hf0]; exact h.fcAdj hwt
    · rw [setTh_fcAdj, hf0]; exact h.fcAdj hwt

section frameRun
variable {F : Fn α} {T : TrigFn α} {cfg : RunCfg α} {s s' : RunState α}

theorem paramsOf_waterTable (cfg : RunCfg α) (season : Int) (gs : Bool) :
    (paramsOf cfg season gs).W.waterTable = cfg.W0.waterTable := rfl
theorem paramsOf_simOffSeason (cfg : RunCfg α) (season : Int) (gs : Bool) :
    (paramsOf cfg season gs).W.simOffSeason = cfg.W0.simOffSeason := rfl

/-- one `_perform_timestep`: the day's result keeps the frame, and so does the next state -/
theorem performR_cellsInv (hdz : ∀ x ∈ cfg.init.cells, 0 < x.c.dz) (hI : CellsInv cfg s.day)
    (h : performR F T cfg s = .ok s') :
    CellsInv cfg s'.day ∧ ∀ d, s'.daysRev = d :: s.daysRev → CellsInv cfg d.r.state := by
  obtain ⟨ph, r, s1, _, _, hr, hs1, hu⟩ := performR_ok h
  obtain ⟨c', _, _, hdays, _, hcase⟩ := updateTimeR_ok hu
  have hdz' : ∀ x ∈ s.day.cells, 0 < x.c.dz :=
    forall_of_map_eq (·.c) hI.comps (fun c => 0 < c.dz) hdz
  have hr1 : CellsInv cfg r.state := by
    constructor
    · rw [fullDay_comps hr hdz']; exact hI.comps
    · intro hwt
      rw [fullDay_fcAdj hr hdz' (by rw [paramsOf_waterTable]; exact hwt)]
      exact hI.fcAdj hwt
  have hs1day : (checkFinishedR cfg s1).day = r.state := by rw [hs1]; rfl
  constructor
  · rcases hcase with ⟨_, e⟩ | ⟨_, e⟩
    · rw [e, hs1day]; exact hr1
    · rw [e, hs1day]; exact resetState_cellsInv cfg _ hr1
  · intro d hd
    have : (checkFinishedR cfg s1).daysRev = s1.daysRev := rfl
    rw [hdays, this, hs1] at hd
    have := (List.cons.inj hd).1
    rw [← this]; exact hr1

theorem run_cellsInv (hdz : ∀ x ∈ cfg.init.cells, 0 < x.c.dz) (hr : RunReach F T cfg s) :
    CellsInv cfg s.day := by
  induction hr with
  | init h0 =>
    unfold runInit at h0
    split at h0
    · cases h0
    · cases h0; exact ⟨rfl, fun _ => rfl⟩
  | step hr hp ih => exact (performR_cellsInv hdz ih hp).1

end frameRun

/-! ## 3. the reset state depends on the state it resets only through dead fields -/

theorem setTh_clrA_congr (wt : Nat) : ∀ (xs ys : List (Cell α)) (vs : List α),
    xs.map (·.c) = ys.map (·.c) → (wt ≠ 1 → xs.map (·.fcAdj) = ys.map (·.fcAdj)) →
    xs.length ≤ vs.length →
    (setTh (xs.map (fun x => { x with aer := 0 })) vs).map (Cell.clrA wt) =
      (setTh (ys.map (fun x => { x with aer := 0 })) vs).map (Cell.clrA wt)
  | [], [], _, _, _, _ => rfl
  | [], _ :: _, _, h, _, _ => by simp at h
  | _ :: _, [], _, h, _, _ => by simp at h
  | x :: xs, y :: ys, [], _, _, hl => by simp at hl
  | x :: xs, y :: ys, v :: vs, hc, hf, hl => by
    simp only [List.map_cons, List.cons.injEq] at hc
    have hf' : wt ≠ 1 → x.fcAdj = y.fcAdj ∧ xs.map (·.fcAdj) = ys.map (·.fcAdj) := by
      intro h
      have := hf h
      simpa only [List.map_cons, List.cons.injEq] using this
    simp only [List.map_cons, setTh, List.cons.injEq]
    constructor
    · unfold Cell.clrA
      simp only [Cell.mk.injEq, and_true, true_and]
      refine ⟨hc.1, ?_⟩
      by_cases h : wt = 1
      · rw [if_pos h, if_pos h]
      · rw [if_neg h, if_neg h]; exact (hf' h).1
    · exact setTh_clrA_congr wt xs ys vs hc.2 (fun h => (hf' h).2) (by simpa using hl)

/-- **the reset erases the history**: when the off-season is skipped, the states
`reset_initial_conditions` makes of two states with the same compartments (and, without a water
table, the same `th_fc_Adj`) agree on every live field — provided `thini` has a value for every
compartment -/
theorem resetState_stEq {cfg : RunCfg α} (crop : CropParams α) {X Y : DayState' α}
    (hoff : cfg.clock.offSeason = false) (hX : CellsInv cfg X) (hY : CellsInv cfg Y)
    (hlen : cfg.init.cells.length ≤ cfg.thini.length) :
    StEq cfg.W0.waterTable (resetState cfg crop X) (resetState cfg crop Y) := by
  have hc : X.cells.map (·.c) = Y.cells.map (·.c) := hX.comps.trans hY.comps.symm
  have hf : cfg.W0.waterTable ≠ 1 → X.cells.map (·.fcAdj) = Y.cells.map (·.fcAdj) :=
    fun h => (hX.fcAdj h).trans (hY.fcAdj h).symm
  have hl : X.cells.length ≤ cfg.thini.length := by
    have := congrArg List.length hX.comps
    simp only [List.length_map] at this
    omega
  have := setTh_clrA_congr cfg.W0.waterTable X.cells Y.cells cfg.thini hc hf hl
  unfold StEq DayState'.live resetState resetStateCore
  simp only [hoff, Bool.false_eq_true, if_false]
  rw [this]

/-! ## 4. a clock step plus a successful day make a run step (converse of `performR_refines`) -/

/-- the run state after the solution step that produced the record `d` -/
def afterDay (s : RunState α) (d : DayRec α) : RunState α :=
  { s with day := d.r.state, daysRev := d :: s.daysRev }

section complete
variable {F : Fn α} {T : TrigFn α} {cfg : RunCfg α} {s : RunState α}

/-- the clock projection of the state after the solution step is `solCore` for an oracle that
reports what the day decided -/
theorem solution_clockOf {ph : Option (Nat × Int)} {r : DayResult α}
    (hph : seasonInfo cfg.clock s.season = .ok ph)
    (hr : fullDay F T (paramsOf cfg s.season (dayInOf cfg s ph).gs) s.day (dayInOf cfg s ph) = .ok r)
    (ev : Ev)
    (hev : ev s.t = (matureTest (paramsOf cfg s.season (dayInOf cfg s ph).gs) r.trace.tc,
      r.state.cropDead)) :
    solCore ev s.clockOf ph =
      (afterDay s { P := paramsOf cfg s.season (dayInOf cfg s ph).gs, st := s.day,
                    D := dayInOf cfg s ph, r := r }).clockOf := by
  set D := dayInOf cfg s ph with hD
  set P := paramsOf cfg s.season D.gs with hP
  obtain ⟨_, _, c3, _, c5, c6⟩ := fullDay_counters hr
  obtain ⟨f1, f2⟩ := fullDay_flags hr
  obtain ⟨m1, m2, m3, m4⟩ := fullDay_summary hr
  have hsome := seasonInfo_isSome hph
  have hgsD : D.gs = gsOfDay ph s.t s.day.cropMature s.day.cropDead := rfl
  have hevs : ev s.clockOf.t = (matureTest P r.trace.tc, r.state.cropDead) := hev
  have hgs : gsOfDay ph s.clockOf.t s.clockOf.mature s.clockOf.dead = D.gs := rfl
  have hdap : (if D.gs then s.day.dap + 1 else 0) = r.state.dap := by
    cases hg : D.gs with
    | true => simp only [if_true]; rw [c3]; exact ((c5 hg).1).symm
    | false => simp only [Bool.false_eq_true, if_false]; rw [c3]; exact ((c6 hg).1).symm
  have hmat : (s.day.cropMature || (D.gs && matureTest P r.trace.tc)) = r.state.cropMature :=
    f1.symm
  have hdead : (s.day.cropDead || (D.gs && r.state.cropDead)) = r.state.cropDead := by
    cases hg : D.gs with
    | false => rw [f2 hg]; simp
    | true =>
      have : s.day.cropDead = false := by
        rw [hgsD] at hg
        unfold gsOfDay at hg
        cases ph with
        | none => cases hg
        | some q => simp only [Bool.and_eq_true, Bool.not_eq_eq_eq_not, Bool.not_true] at hg
                    exact hg.2
      rw [this]; simp
  have hendc : (ph.isSome && (r.state.cropMature || r.state.cropDead ||
      lastDayOf ph s.clockOf.t)) = r.endc := by
    rw [m3, hsome]; rfl
  rw [solCore_eq_of ev s.clockOf ph D.gs r.state.cropMature r.state.cropDead r.endc r.state.dap
    hgs hdap (by rw [hevs]; exact hmat) (by rw [hevs]; exact hdead) hendc]
  unfold RunState.clockOf afterDay
  simp only [List.map_cons, List.filterMap_cons]
  have hsum : DayRec.clockSummary { P := P, st := s.day, D := D, r := r } =
      if (r.endc && !s.day.harvestFlag) = true then some (s.season, s.t) else none := by
    unfold DayRec.clockSummary
    by_cases hw : (r.endc && !s.day.harvestFlag) = true
    · rw [if_pos hw]
      have : r.summary.isSome = true := by rw [m1]; exact hw
      obtain ⟨x, hx⟩ := Option.isSome_iff_exists.mp this
      obtain ⟨x1, x2, _⟩ := m4 x hx
      simp only [hx, Option.map_some]
      rw [x1, x2]
      rfl
    · rw [if_neg hw]
      have : r.summary.isSome = false := by rw [m1]; simpa using hw
      rw [Option.isSome_eq_false_iff, Option.isNone_iff_eq_none] at this
      simp only [this, Option.map_none]
  rw [hsum, m2]
  have hDt : D.tsc = s.t := rfl
  have hDs : D.season = s.season := rfl
  cases he : r.endc <;> cases hh : s.day.harvestFlag <;>
    simp [DayRec.clockRow, he, hh, hDt, hDs]

theorem updateTimeR_of_clock {s2 : RunState α} {c' : St}
    (h : updateTime cfg.clock s2.clockOf = .ok c') : ∃ s', updateTimeR cfg s2 = .ok s' := by
  unfold updateTimeR
  rw [h]
  simp only
  split_ifs
  · exact ⟨_, rfl⟩
  · exact ⟨_, rfl⟩

/-- **a successful day and a successful clock step make a successful run step** whose clock
projection is the clock step's result -/
theorem performR_of_clock {ph : Option (Nat × Int)} {r : DayResult α} {ev : Ev} {c' : St}
    (hf : s.finished = false) (hph : seasonInfo cfg.clock s.season = .ok ph)
    (hr : fullDay F T (paramsOf cfg s.season (dayInOf cfg s ph).gs) s.day (dayInOf cfg s ph) = .ok r)
    (hev : ev s.t = (matureTest (paramsOf cfg s.season (dayInOf cfg s ph).gs) r.trace.tc,
      r.state.cropDead))
    (hc : perform cfg.clock ev s.clockOf = .ok c') :
    ∃ s', performR F T cfg s = .ok s' ∧ s'.clockOf = c' ∧
      s'.daysRev = { P := paramsOf cfg s.season (dayInOf cfg s ph).gs, st := s.day,
                     D := dayInOf cfg s ph, r := r } :: s.daysRev ∧
      ((s'.season = s.season ∧ s'.day = r.state) ∨
       (s'.season = s.season + 1 ∧
          s'.day = resetState cfg (cfg.seasonCrop s'.season.toNat) r.state)) := by
  have hsol := solution_clockOf hph hr ev hev
  obtain ⟨s1a, hs1a⟩ : ∃ s1a : RunState α, s1a = afterDay s
      ⟨paramsOf cfg s.season (dayInOf cfg s ph).gs, s.day, dayInOf cfg s ph, r⟩ := ⟨_, rfl⟩
  rw [← hs1a] at hsol
  -- the clock step, unfolded
  have hu0 : updateTime cfg.clock (checkFinishedR cfg s1a).clockOf = .ok c' := by
    unfold perform Clock.solution at hc
    have hf' : s.clockOf.finished = false := hf
    rw [hf'] at hc
    simp only [Bool.false_eq_true, if_false] at hc
    have hph' : seasonInfo cfg.clock s.clockOf.season = .ok ph := hph
    rw [hph'] at hc
    simp only [bind, Except.bind, pure, Except.pure] at hc
    rw [hsol] at hc
    exact hc
  obtain ⟨s', hs'⟩ := updateTimeR_of_clock hu0
  subst hs1a
  have hperf : performR F T cfg s = .ok s' := by
    unfold performR
    rw [hf]
    simp only [Bool.false_eq_true, if_false]
    rw [hph]
    simp only
    unfold solution
    simp only
    rw [hr]
    exact hs'
  obtain ⟨c'', hc'', hcl, hdays, _, hcase⟩ := updateTimeR_ok hs'
  rw [hu0] at hc''
  have ecc : c' = c'' := Except.ok.inj hc''
  refine ⟨s', hperf, by rw [hcl, ecc], by rw [hdays]; rfl, ?_⟩
  exact hcase

end complete

/-! ## 5. the day of the fresh run is the day of the multi-season run, relabelled -/

section align
variable {cfg : RunCfg α} {k : Nat} {init' : DayState' α}

theorem paramsOf_fresh (cfg : RunCfg α) (k : Nat) (init' : DayState' α) (gs : Bool) :
    paramsOf (freshCfgI cfg k init') 0 gs = paramsOf cfg (k : Int) gs := by
  unfold paramsOf cropOf freshCfgI
  have h0 : (0 : Int) ≤ (k : Int) := by omega
  simp only [le_refl, if_true, h0, Int.toNat_zero, Int.toNat_natCast, Nat.add_zero, zero_add]

theorem gsOfDay_shift (p : Nat) (h : Int) (t1 : Nat) (m d : Bool) :
    gsOfDay (some (0, h - (p : Int))) t1 m d = gsOfDay (some (p, h)) (t1 + p) m d := by
  unfold gsOfDay
  simp only
  congr 3
  · simp only [decide_eq_decide]; constructor <;> intro <;> omega
  · simp only [decide_eq_decide]; constructor <;> intro <;> push_cast at * <;> omega

theorem lastDayOf_shift (p : Nat) (h : Int) (t1 : Nat) :
    lastDayOf (some (0, h - (p : Int))) t1 = lastDayOf (some (p, h)) (t1 + p) := by
  unfold lastDayOf
  simp only [decide_eq_decide]
  constructor <;> intro <;> push_cast at * <;> omega

/-- the inputs of the day in the fresh run: those of the multi-season run with
`time_step_counter` and `season_counter` relabelled -/
theorem dayInOf_fresh (cfg : RunCfg α) (k : Nat) (init' : DayState' α) {s s1 : RunState α}
    (ht : s.t = s1.t + cfg.clock.pl k) (hs : s.season = (k : Int)) (hs1 : s1.season = 0)
    (hm : s.day.cropMature = s1.day.cropMature) (hd : s.day.cropDead = s1.day.cropDead) :
    dayInOf (freshCfgI cfg k init') s1 (some (0, cfg.clock.hv k - (cfg.clock.pl k : Int))) =
      (dayInOf cfg s (some (cfg.clock.pl k, cfg.clock.hv k))).relabel s1.t 0 := by
  have h0 : (0 : Int) ≤ (k : Int) := by omega
  unfold dayInOf DayIn'.relabel freshCfgI
  simp only [hs, hs1, ht, hm, hd, gsOfDay_shift, lastDayOf_shift, le_refl, if_true, h0]

end align

/-! ## 6. one day of season `k` in both runs -/

/-- two day records that agree up to the clock labels: same parameters, start states that agree on
the live fields, the same inputs and — up to `time_step_counter` / `season_counter` in the rows and
the stale `FluxOut` in the ghost trace — the same result (state after the day, `water_storage`,
`water_flux`, `crop_growth` rows, summary row, every ghost) -/
structure RecSh (wt p k : Nat) (d d1 : DayRec α) : Prop where
  P : d.P = d1.P
  st : StEq wt d.st d1.st
  D : d.D = d1.D.relabel (d1.D.tsc + p) (k : Int)
  r : d.r.noFlux = (d1.r.relabel (d1.D.tsc + p) (k : Int)).noFlux

/-- simulation relation between the multi-season run inside season `k` and the fresh run: the
clock relation `Clock.Sim`, and the same state object — on the first day of the season only up to
the dead fields -/
structure SimR (cfg : RunCfg α) (k : Nat) (s s1 : RunState α) : Prop where
  clk : Sim cfg.clock k s.clockOf s1.clockOf
  day : (s.day = s1.day ∧ 0 < s1.t) ∨
    (StEq cfg.W0.waterTable s.day s1.day ∧ s.day.dap = 0 ∧ s.day.cropMature = false ∧
      s.day.cropDead = false ∧ s1.t = 0)

/-- the harvest-index crop type of a season's crop is one of the three the package knows -/
def HiTypeOK (c : CropParams α) : Prop :=
  c.cx.hi.cropType = 1 ∨ c.cx.hi.cropType = 2 ∨ c.cx.hi.cropType = 3

section step
variable {F : Fn α} {T : TrigFn α} {cfg : RunCfg α} {k : Nat} {init' : DayState' α}
  {s s' s1 : RunState α}

theorem paramsOf_cropType (cfg : RunCfg α) (k : Nat) (gs : Bool) :
    (paramsOf cfg (k : Int) gs).cx.hi.cropType = (cfg.seasonCrop k).cx.hi.cropType := by
  have h0 : (0 : Int) ≤ (k : Int) := by omega
  unfold paramsOf cropOf
  simp only [h0, if_true, Int.toNat_natCast]

/-- **one day of season `k`**: from related states a successful `_perform_timestep` of the
multi-season run is matched by a successful one of the fresh run; the two new day records agree
(`RecSh`), and afterwards the states are related again or the season is over in both runs -/
theorem step_season (hv : Valid cfg.clock) (hoff : cfg.clock.offSeason = false)
    (hoffW : cfg.W0.simOffSeason = false) (hct : HiTypeOK (cfg.seasonCrop k))
    (hS : SimR cfg k s s1) (hp : performR F T cfg s = .ok s') :
    ∃ s1', performR F T (freshCfgI cfg k init') s1 = .ok s1' ∧
      (∃ d d1, s'.daysRev = d :: s.daysRev ∧ s1'.daysRev = d1 :: s1.daysRev ∧
        d.D.season = (k : Int) ∧ RecSh cfg.W0.waterTable (cfg.clock.pl k) k d d1) ∧
      ((s'.finished = false ∧ s'.season = (k : Int) ∧ SimR cfg k s' s1') ∨
        ((s'.finished = true ∨ s'.season = (k : Int) + 1) ∧
          (s'.season = (k : Int) ∨ s'.season = (k : Int) + 1) ∧ s1'.finished = true)) := by
  have hw := hv.wf
  have hC := hS.clk
  have hse : s.season = (k : Int) := hC.season
  have hse1 : s1.season = 0 := hC.season1
  have htt : s.t = s1.t + cfg.clock.pl k := hC.t
  have hk : k < cfg.clock.planting.length := by
    have := hC.live.shi
    rw [nSeasons_eq] at this
    have e : s.clockOf.season = (k : Int) := hC.season
    omega
  have hw1 := wf_single hw hk
  obtain ⟨ph, r, s1a, hf, hph, hr, hs1a, hu⟩ := performR_ok hp
  obtain ⟨c2, _, _, hdaysM, _, hcaseM⟩ := updateTimeR_ok hu
  -- the dates of the season in both runs
  have ephs : ph = some (cfg.clock.pl k, cfg.clock.hv k) := by
    have h1 := seasonInfo_eq hw.2.2.1 (season := s.season) hC.live.shi
    rw [h1] at hph
    have := Except.ok.inj hph
    rw [← this, hse]
    unfold phOf
    simp
  subst ephs
  have hph1 : seasonInfo (freshCfgI cfg k init').clock s1.season =
      .ok (some (0, cfg.clock.hv k - (cfg.clock.pl k : Int))) := by
    have h1 := seasonInfo_eq hw1.2.2.1 (season := s1.season) hC.live1.shi
    show seasonInfo (single cfg.clock k) s1.season = _
    rw [h1, hse1]
    rfl
  -- the inputs and parameters of the day
  have eD := dayInOf_fresh cfg k init' htt hse hse1 hC.mature hC.dead
  have eP : ∀ g, paramsOf (freshCfgI cfg k init') s1.season g = paramsOf cfg s.season g := by
    intro g; rw [hse1, hse]; exact paramsOf_fresh cfg k init' g
  obtain ⟨D, hD⟩ : ∃ D, D = dayInOf cfg s (some (cfg.clock.pl k, cfg.clock.hv k)) := ⟨_, rfl⟩
  rw [← hD] at hr eD hs1a
  have hDt : D.tsc = s.t := by rw [hD]; rfl
  have hDs : D.season = (k : Int) := by rw [hD]; exact hse
  -- the day of the fresh run
  have hday1 : ∃ r1, fullDay F T (paramsOf cfg s.season D.gs) s1.day (D.relabel s1.t 0) = .ok r1 ∧
      r.noFlux = (r1.relabel s.t (k : Int)).noFlux := by
    have hk0 : (0 ≤ D.season ↔ (0 : Int) ≤ 0) := by rw [hDs]; constructor <;> intro <;> omega
    rcases hS.day with ⟨e, hpos⟩ | ⟨he, hdap, hm, hd, ht0⟩
    · refine ⟨r.relabel s1.t 0, ?_, ?_⟩
      · rw [← e]
        exact fullDay_relabel hr s1.t 0 hk0
          (Or.inl (by rw [hDt]; constructor <;> intro <;> omega))
      · rw [relabel_relabel]
        have := fullDay_relabel_self hr
        rw [hDt, hDs] at this
        rw [this]
    · have hgs : D.gs = true := by
        have hlt := hv.2.1 k hk
        rw [hD]
        show gsOfDay (some (cfg.clock.pl k, cfg.clock.hv k)) s.t s.day.cropMature s.day.cropDead = true
        rw [hm, hd, htt, ht0]
        unfold gsOfDay
        simp only [Bool.not_false, Bool.and_true, Bool.and_eq_true, decide_eq_true_eq]
        constructor <;> push_cast <;> omega
      have hfd : FirstDay (paramsOf cfg s.season D.gs) s.day D :=
        ⟨hgs, hdap, hoffW, by rw [hse, paramsOf_cropType]; exact hct⟩
      obtain ⟨r', hr', en, es⟩ := fullDay_congr_dead hr he hfd
      have hdap1 : s1.day.dap = 0 := by
        have : s.clockOf.dap = s1.clockOf.dap := hC.dap
        have e2 : s.day.dap = s1.day.dap := this
        rw [← e2]; exact hdap
      have htc := fullDay_tc_dap hr' hgs
      rw [hdap1] at htc
      refine ⟨r'.relabel s1.t 0, fullDay_relabel hr' s1.t 0 hk0 (Or.inr ⟨?_, hoffW⟩), ?_⟩
      · rw [htc]; exact natNum_one_iff
      · rw [relabel_relabel]
        have := fullDay_relabel_self hr'
        rw [hDt, hDs] at this
        rw [this, en]
  obtain ⟨r1, hr1, hrel⟩ := hday1
  have hst1 : r1.state = r.state := by
    have := congrArg DayResult.state hrel
    exact this.symm
  have htc1 : r1.trace.tc = r.trace.tc := by
    have := congrArg (fun x => x.trace.tc) hrel
    exact this.symm
  have hr1' : fullDay F T
      (paramsOf (freshCfgI cfg k init') s1.season
        (dayInOf (freshCfgI cfg k init') s1 (some (0, cfg.clock.hv k - (cfg.clock.pl k : Int)))).gs)
      s1.day (dayInOf (freshCfgI cfg k init') s1 (some (0, cfg.clock.hv k - (cfg.clock.pl k : Int))))
      = .ok r1 := by
    rw [eD, eP]; exact hr1
  -- the clock step of the multi-season run and its image
  obtain ⟨d, hd, _, _, _, _, hstep⟩ := performR_refines hp
  have hdE : d = { P := paramsOf cfg s.season D.gs, st := s.day, D := D, r := r } := by
    have h1 : (checkFinishedR cfg s1a).daysRev = s1a.daysRev := rfl
    rw [hdaysM, h1, hs1a] at hd
    exact ((List.cons.inj hd).1).symm
  obtain ⟨ev, hevdef⟩ : ∃ ev : Ev, ev = fun t => if t = s.t then d.events else (false, false) :=
    ⟨_, rfl⟩
  have hev : ev s.t = d.events := by rw [hevdef]; simp
  have hclk := hstep ev hev
  have hnext : k + 1 < cfg.clock.planting.length →
      cfg.clock.hv k ≤ (cfg.clock.pl (k + 1) : Int) := fun h => hv.2.2 k (by omega)
  obtain ⟨c1', hq, _, _, hcase⟩ := step_shift hw hk hoff hnext hC hclk
  have hev1 : shiftEv ev (cfg.clock.pl k) s1.t =
      (matureTest (paramsOf (freshCfgI cfg k init') s1.season
        (dayInOf (freshCfgI cfg k init') s1 (some (0, cfg.clock.hv k - (cfg.clock.pl k : Int)))).gs)
        r1.trace.tc, r1.state.cropDead) := by
    unfold shiftEv
    rw [← htt, hev, hdE, eD, eP, htc1, hst1]
    rfl
  have hf1 : s1.finished = false := hC.live1.notFin
  obtain ⟨s1', hp1, hcl1, hdays1, hcase1⟩ :=
    performR_of_clock (cfg := freshCfgI cfg k init') hf1 hph1 hr1' hev1 hq
  refine ⟨s1', hp1, ⟨d, _, hd, hdays1, by rw [hdE]; exact hDs, ?_⟩, ?_⟩
  · -- the records
    rw [hdE]
    refine ⟨?_, ?_, ?_, ?_⟩
    · show paramsOf cfg s.season D.gs = paramsOf (freshCfgI cfg k init') s1.season _
      rw [eP, eD]; rfl
    · rcases hS.day with ⟨e, _⟩ | ⟨he, _⟩
      · show StEq _ s.day s1.day
        rw [e]; exact StEq.refl _ _
      · exact he
    · show D = (dayInOf (freshCfgI cfg k init') s1 _).relabel
        ((dayInOf (freshCfgI cfg k init') s1 _).tsc + cfg.clock.pl k) (k : Int)
      rw [eD]
      show D = D.relabel (s1.t + cfg.clock.pl k) (k : Int)
      rw [← htt, ← hDt, ← hDs]
      rfl
    · show r.noFlux = (r1.relabel ((dayInOf (freshCfgI cfg k init') s1 _).tsc + cfg.clock.pl k)
        (k : Int)).noFlux
      rw [eD]
      show r.noFlux = (r1.relabel (s1.t + cfg.clock.pl k) (k : Int)).noFlux
      rw [← htt]; exact hrel
  · -- the next states
    have hs2se : (checkFinishedR cfg s1a).season = s.season := by rw [hs1a]; rfl
    have hs2day : (checkFinishedR cfg s1a).day = r.state := by rw [hs1a]; rfl
    have hsek : s'.season = (k : Int) ∨ s'.season = (k : Int) + 1 := by
      rcases hcaseM with ⟨e, _⟩ | ⟨e, _⟩
      · left; rw [e, hs2se, hse]
      · right; rw [e, hs2se, hse]
    rcases hcase with ⟨hfin, hsk, hSim⟩ | ⟨hx, hfin1⟩
    · left
      have hsk' : s'.season = (k : Int) := hsk
      refine ⟨hfin, hsk', ⟨by rw [hcl1]; exact hSim, Or.inl ⟨?_, ?_⟩⟩⟩
      · have e1 : s'.day = r.state := by
          rcases hcaseM with ⟨_, e⟩ | ⟨e, _⟩
          · rw [e, hs2day]
          · rw [hs2se, hse] at e; omega
        have e2 : s1'.day = r1.state := by
          have h0 : s1'.season = 0 := by
            have : s1'.clockOf.season = 0 := by rw [hcl1]; exact hSim.season1
            exact this
          rcases hcase1 with ⟨_, e⟩ | ⟨e, _⟩
          · exact e
          · rw [hse1] at e; omega
        rw [e1, e2, hst1]
      · have hb := hSim.live1.rowsB
        have hmem : DayRec.clockRow
            { P := paramsOf (freshCfgI cfg k init') s1.season
                (dayInOf (freshCfgI cfg k init') s1
                  (some (0, cfg.clock.hv k - (cfg.clock.pl k : Int)))).gs,
              st := s1.day,
              D := dayInOf (freshCfgI cfg k init') s1
                (some (0, cfg.clock.hv k - (cfg.clock.pl k : Int))),
              r := r1 } ∈ c1'.rowsRev := by
          rw [← hcl1]
          show _ ∈ s1'.daysRev.map DayRec.clockRow
          rw [hdays1]
          exact List.mem_cons_self
        have := (hb _ hmem).1
        have e3 : c1'.t = s1'.t := by rw [← hcl1]; rfl
        rw [e3] at this
        exact Nat.lt_of_le_of_lt (Nat.zero_le _) this
    · right
      refine ⟨hx, hsek, ?_⟩
      have : s1'.clockOf.finished = true := by rw [hcl1]; exact hfin1
      exact this

end step

/-! ## 7. `season_independent` -/

/-- the day records of season `k` (newest first, like `daysRev`) -/
def seasonRecs (k : Int) (l : List (DayRec α)) : List (DayRec α) :=
  l.filter (fun d => decide (d.D.season = k))

/-- the premises of `season_independent`, all on the configuration -/
structure SeasonPre (cfg : RunCfg α) (k : Nat) (init' : DayState' α) : Prop where
  /-- the clock configuration is what the date set-up produces (`Proofs/ClockCalendar.lean`) -/
  valid : Valid cfg.clock
  /-- season `k` exists -/
  hk : k < cfg.clock.planting.length
  /-- the state object `_initialize` leaves has its season flags cleared -/
  initOK : InitOK cfg
  /-- the off-season is not simulated … -/
  off : cfg.clock.offSeason = false
  /-- … and the copy of `sim_off_season` that `soil_evaporation` reads says so too -/
  offW : cfg.W0.simOffSeason = false
  /-- compartments have positive thickness (needed by the frame lemmas of the water day) -/
  dz : ∀ x ∈ cfg.init.cells, 0 < x.c.dz
  /-- `thini` has a value for every compartment (`np.copy(thini)` replaces the whole array) -/
  thini : cfg.init.cells.length ≤ cfg.thini.length
  /-- the crop of season `k` has a known harvest-index crop type -/
  ct : HiTypeOK (cfg.seasonCrop k)
  /-- the fresh run's initial state is the reset state on the live fields -/
  fresh : FreshInit cfg k init'
  /-- season `k` starts with a `reset_initial_conditions` (it is not a first season that starts
  on the first simulated day — for that one `freshCfg cfg 0 = cfg` up to the clock) -/
  reset : 0 < k ∨ cfg.clock.season0 ≠ 0

theorem FreshInit.flags {cfg : RunCfg α} {k : Nat} {init' : DayState' α} (h : FreshInit cfg k init') :
    init'.dap = 0 ∧ init'.cropMature = false ∧ init'.cropDead = false ∧
      init'.harvestFlag = false := by
  have h1 := congrArg DayState'.dap h
  have h2 := congrArg DayState'.cropMature h
  have h3 := congrArg DayState'.cropDead h
  have h4 := congrArg DayState'.harvestFlag h
  exact ⟨h1.symm, h2.symm, h3.symm, h4.symm⟩

section main
variable {F : Fn α} {T : TrigFn α} {cfg : RunCfg α} {k : Nat} {init' : DayState' α}
  {s s' : RunState α}

/-- what a successful `_perform_timestep` does to the run state -/
theorem performR_info (h : performR F T cfg s = .ok s') :
    s.finished = false ∧ ∃ d, s'.daysRev = d :: s.daysRev ∧ d.D.season = s.season ∧
      d.D.tsc = s.t ∧
      ((s'.season = s.season ∧ s'.day = d.r.state) ∨
       (s'.season = s.season + 1 ∧
          s'.day = resetState cfg (cfg.seasonCrop s'.season.toNat) d.r.state)) := by
  obtain ⟨ph, r, s1, hf, _, _, hs1, hu⟩ := performR_ok h
  obtain ⟨_, _, _, hdays, _, hcase⟩ := updateTimeR_ok hu
  refine ⟨hf, _, by rw [hdays, hs1]; rfl, rfl, rfl, ?_⟩
  have e1 : (checkFinishedR cfg s1).season = s.season := by rw [hs1]; rfl
  have e2 : (checkFinishedR cfg s1).day = r.state := by rw [hs1]; rfl
  rw [e1, e2] at hcase
  exact hcase

/-- the initial run state of the fresh configuration -/
theorem runInit_fresh (hP : SeasonPre cfg k init') :
    runInit (freshCfgI cfg k init') =
      .ok { t := 0, season := 0, finished := false, day := init', daysRev := [] } := by
  unfold runInit
  show (match Clock.init (single cfg.clock k) with
    | .error e => Except.error e.toString
    | .ok c => Except.ok ({ t := c.t, season := c.season, finished := c.finished, day := init',
                            daysRev := [] } : RunState α)) = _
  rw [init_single hP.valid.wf hP.hk]
  rfl

theorem seasonRecs_cons_ne {k : Int} {d : DayRec α} {l : List (DayRec α)} (h : d.D.season ≠ k) :
    seasonRecs k (d :: l) = seasonRecs k l := by
  unfold seasonRecs
  rw [List.filter_cons_of_neg]
  simpa using h

theorem seasonRecs_cons_eq {k : Int} {d : DayRec α} {l : List (DayRec α)} (h : d.D.season = k) :
    seasonRecs k (d :: l) = d :: seasonRecs k l := by
  unfold seasonRecs
  rw [List.filter_cons_of_pos]
  simpa using h

/-- the phases of the multi-season run relative to season `k`, with the matching state of the
fresh run -/
def Phase (cfg : RunCfg α) (k : Nat) (init' : DayState' α) (s s1 : RunState α) : Prop :=
  (s.season < (k : Int) ∧
      s1 = { t := 0, season := 0, finished := false, day := init', daysRev := [] }) ∨
  (s.season = (k : Int) ∧ s.finished = false ∧ SimR cfg k s s1) ∨
  (((k : Int) < s.season ∨ (s.season = (k : Int) ∧ s.finished = true)) ∧ s1.finished = true)

/-- the simulation: every reachable state of the multi-season run has a matching reachable state
of the fresh run -/
theorem season_sim (hP : SeasonPre cfg k init') (hr : RunReach F T cfg s) :
    ∃ s1, RunReach F T (freshCfgI cfg k init') s1 ∧
      List.Forall₂ (RecSh cfg.W0.waterTable (cfg.clock.pl k) k)
        (seasonRecs (k : Int) s.daysRev) s1.daysRev ∧
      Phase cfg k init' s s1 := by
  have hv := hP.valid
  have hw := hv.wf
  induction hr with
  | init h0 =>
    refine ⟨_, RunReach.init (runInit_fresh hP), ?_, Or.inl ⟨?_, rfl⟩⟩
    · unfold runInit at h0
      split at h0
      · cases h0
      · cases h0; exact List.Forall₂.nil
    · unfold runInit at h0
      split at h0
      · cases h0
      · rename_i c hc
        cases h0
        unfold Clock.init at hc
        split_ifs at hc
        cases hc
        show cfg.clock.season0 < (k : Int)
        rcases hw.season0_cases with ⟨e, _⟩ | ⟨e, _⟩
        · rcases hP.reset with h | h
          · rw [e]; omega
          · exact absurd e h
        · rw [e]; omega
  | @step s s' hr hp ih =>
    obtain ⟨s1, hr1, hF, hph⟩ := ih
    obtain ⟨hfin, d, hd, hds, hdt, hcase⟩ := performR_info hp
    rcases hph with ⟨hlt, hs1⟩ | ⟨hsk, hsf, hS⟩ | ⟨hx, hf1⟩
    · -- before season `k`
      have hne : d.D.season ≠ (k : Int) := by rw [hds]; omega
      have hrec : seasonRecs (k : Int) s'.daysRev = seasonRecs (k : Int) s.daysRev := by
        rw [hd, seasonRecs_cons_ne hne]
      by_cases hlt' : s'.season < (k : Int)
      · exact ⟨s1, hr1, by rw [hrec]; exact hF, Or.inl ⟨hlt', hs1⟩⟩
      · -- the step enters season `k`
        have hsk : s'.season = (k : Int) := by
          rcases hcase with ⟨e, _⟩ | ⟨e, _⟩ <;> omega
        have hday : s'.day = resetState cfg (cfg.seasonCrop s'.season.toNat) d.r.state := by
          rcases hcase with ⟨e, _⟩ | ⟨_, e⟩
          · omega
          · exact e
        have hr' : RunReach F T cfg s' := RunReach.step hr hp
        obtain ⟨ev, hre', hev'⟩ := run_refines_clock hw hP.initOK hr'
        have hreS : Reach cfg.clock ev s.clockOf :=
          runReach_clock hP.initOK hr ev
            (fun d' hd' => hev' d' (by rw [hd]; exact List.mem_cons_of_mem _ hd'))
        obtain ⟨d0, hd0, _, ht0, _, _, hstep⟩ := performR_refines hp
        have hperf : perform cfg.clock ev s.clockOf = .ok s'.clockOf := by
          apply hstep ev
          have := hev' d0 (by rw [hd0]; exact List.mem_cons_self)
          rw [ht0] at this
          exact this
        have hne' : s'.clockOf.season ≠ s.clockOf.season := by
          show s'.season ≠ s.season
          omega
        obtain ⟨_, _, htpl, hf'⟩ := season_change_resets hw hreS hperf hne'
        have htpl' : s'.clockOf.t = cfg.clock.pl k := by
          rw [htpl]
          show cfg.clock.pl s'.season.toNat = _
          rw [hsk]; simp
        have hSim := sim_at_season_start hv hre' hf' hsk htpl'
        obtain ⟨f1, f2, f3, f4⟩ := hP.fresh.flags
        have hclk1 : s1.clockOf = freshSt := by
          rw [hs1]
          unfold RunState.clockOf freshSt
          simp only [f1, f2, f3, f4, List.map_nil, List.filterMap_nil]
        have hci : CellsInv cfg d.r.state :=
          (performR_cellsInv hP.dz (run_cellsInv hP.dz hr) hp).2 d hd
        have hst : StEq cfg.W0.waterTable s'.day s1.day := by
          rw [hday, hs1]
          have e : s'.season.toNat = k := by rw [hsk]; simp
          rw [e]
          exact (resetState_stEq _ hP.off hci ⟨rfl, fun _ => rfl⟩ hP.thini).trans hP.fresh
        refine ⟨s1, hr1, by rw [hrec]; exact hF, Or.inr (Or.inl ⟨hsk, hf', ?_⟩)⟩
        refine ⟨by rw [hclk1]; exact hSim, Or.inr ⟨hst, ?_, ?_, ?_, by rw [hs1]⟩⟩
        · rw [hday]; rfl
        · rw [hday]; rfl
        · rw [hday]; rfl
    · -- inside season `k`
      obtain ⟨s1', hp1, ⟨d', d1, hd', hd1, hdk, hrec⟩, hnext⟩ :=
        step_season (init' := init') hv hP.off hP.offW hP.ct hS hp
      refine ⟨s1', RunReach.step hr1 hp1, ?_, ?_⟩
      · rw [hd', hd1, seasonRecs_cons_eq hdk]
        exact List.Forall₂.cons hrec hF
      · rcases hnext with ⟨a, b, c⟩ | ⟨a, b, c⟩
        · exact Or.inr (Or.inl ⟨b, a, c⟩)
        · refine Or.inr (Or.inr ⟨?_, c⟩)
          rcases b with b | b
          · rcases a with a | a
            · exact Or.inr ⟨b, a⟩
            · omega
          · left; omega
    · -- after season `k`
      have hgt : (k : Int) < s.season := by
        rcases hx with h | ⟨_, h⟩
        · exact h
        · rw [hfin] at h; cases h
      have hne : d.D.season ≠ (k : Int) := by rw [hds]; omega
      refine ⟨s1, hr1, by rw [hd, seasonRecs_cons_ne hne]; exact hF, Or.inr (Or.inr ⟨Or.inl ?_, hf1⟩)⟩
      rcases hcase with ⟨e, _⟩ | ⟨e, _⟩ <;> omega

/-- **`season_independent` (property C08 on the run model).**  For every reachable state `s` of
a multi-season run with the off-season skipped, and every season `k` that starts with a reset:
there is a reachable state `s1` of the run of the fresh configuration for season `k`
(`freshCfgI cfg k init'`: started on that season's planting date, same inputs from that date on)
such that the day records of season `k` in `s` agree, index for index, with *all* day records of
`s1` (`RecSh`: same parameters, same inputs, start states equal on the live fields, same state
after the day, same `water_storage` / `water_flux` / `crop_growth` rows and summary row up to the
`time_step_counter` and `season_counter` labels, same ghost outputs up to the stale `FluxOut` of
steps 1 and 3).  When the multi-season run has left season `k` (a later season has started, or the
run finished inside season `k`), the fresh run is finished: the records are the whole season.
For every `F`, `T` — no law of `exp`, `log`, `pow`, rounding is used. -/
theorem season_independent (hP : SeasonPre cfg k init') (hr : RunReach F T cfg s) :
    ∃ s1, RunReach F T (freshCfgI cfg k init') s1 ∧
      List.Forall₂ (RecSh cfg.W0.waterTable (cfg.clock.pl k) k)
        (seasonRecs (k : Int) s.daysRev) s1.daysRev ∧
      (((k : Int) < s.season ∨ (s.season = (k : Int) ∧ s.finished = true)) →
        s1.finished = true) := by
  obtain ⟨s1, h1, h2, h3⟩ := season_sim hP hr
  refine ⟨s1, h1, h2, fun hx => ?_⟩
  rcases h3 with ⟨hlt, _⟩ | ⟨hsk, hsf, _⟩ | ⟨_, hf⟩
  · rcases hx with h | ⟨h, _⟩ <;> omega
  · rcases hx with h | ⟨_, h⟩
    · omega
    · rw [hsf] at h; cases h
  · exact hf

/-- `season_independent` for the fresh configuration that keeps the multi-season run's own initial
state object (`freshCfg`): the premise `FreshInit cfg k cfg.init` then says that resetting the
initial state for the crop of season `k` changes no live field. -/
theorem season_independent_same_init (hP : SeasonPre cfg k cfg.init) (hr : RunReach F T cfg s) :
    ∃ s1, RunReach F T (freshCfg cfg k) s1 ∧
      List.Forall₂ (RecSh cfg.W0.waterTable (cfg.clock.pl k) k)
        (seasonRecs (k : Int) s.daysRev) s1.daysRev ∧
      (((k : Int) < s.season ∨ (s.season = (k : Int) ∧ s.finished = true)) →
        s1.finished = true) :=
  season_independent hP hr

end main

/-! ## 8. the premise on the initial state, spelled out -/

/-- what `FreshInit` asks of the initial state object `i` of the fresh run, field by field (every
live field of `DayState'`): the profile is `thini` over the multi-season run's compartments with
cleared aeration counters (`FluxOut` free, `th_fc_Adj` free under a water table), the surface
storage is the reset value, the counters, flags and factors are the reset constants
(= the defaults of `InitialCondition.__init__`), `cc0_adj = CC0` and `HIfinal = HI0` of the crop -/
structure FreshFields (cfg : RunCfg α) (crop : CropParams α) (i : DayState' α) : Prop where
  cells : CellsEq cfg.W0.waterTable
    (setTh (cfg.init.cells.map (fun x => { x with aer := 0 })) cfg.thini) i.cells
  pond : i.pond = resetPond cfg
  zero : i.ageDays = 0 ∧ i.ageDaysNS = 0 ∧ i.aerDays = 0 ∧ i.irrCum = 0 ∧ i.delayedGdds = 0 ∧
    i.delayedCds = 0 ∧ i.pctLagPhase = 0 ∧ i.tEarlySen = 0 ∧ i.gddCum = 0 ∧ i.daySubmerged = 0 ∧
    i.irrNetCum = 0 ∧ i.dap = 0 ∧ i.ePot = 0 ∧ i.tPot = 0
  flags : i.preAdj = false ∧ i.cropMature = false ∧ i.cropDead = false ∧ i.germination = false ∧
    i.prematSenes = false ∧ i.harvestFlag = false ∧ i.protectedSeed = false
  ones : i.fPre = 1 ∧ i.fPost = 1 ∧ i.fpostDwn = 1 ∧ i.fpostUpp = 1 ∧ i.trRatio = 1 ∧ i.rCor = 1
  hi : i.fPol = 0 ∧ i.sCor1 = 0 ∧ i.sCor2 = 0 ∧ i.growthStage = 0 ∧ i.hi = 0 ∧ i.hiAdj = 0
  canopy : i.cc = 0 ∧ i.ccAdj = 0 ∧ i.ccNS = 0 ∧ i.ccAdjNS = 0 ∧ i.ccxAct = 0 ∧ i.ccxActNS = 0 ∧
    i.ccxW = 0 ∧ i.ccxWNS = 0 ∧ i.ccxEarlySen = 0 ∧ i.ccPrev = 0
  bio : i.biomass = 0 ∧ i.biomassNS = 0 ∧ i.dryYield = 0 ∧ i.freshYield = 0
  crop : i.cc0Adj = crop.cx.cc.cc0 ∧ i.hiFinal = crop.cx.hi.hi0

theorem FreshInit.of_fields {cfg : RunCfg α} {k : Nat} {i : DayState' α}
    (hoff : cfg.clock.offSeason = false) (h : FreshFields cfg (cfg.seasonCrop k) i) :
    FreshInit cfg k i := by
  obtain ⟨hc, hp, hz, hfl, ho, hh, hcan, hb, hcr⟩ := h
  cases i
  simp only at hc hp hz hfl ho hh hcan hb hcr
  obtain ⟨rfl, rfl, rfl, rfl, rfl, rfl, rfl, rfl, rfl, rfl, rfl, rfl, rfl, rfl⟩ := hz
  obtain ⟨rfl, rfl, rfl, rfl, rfl, rfl, rfl⟩ := hfl
  obtain ⟨rfl, rfl, rfl, rfl, rfl, rfl⟩ := ho
  obtain ⟨rfl, rfl, rfl, rfl, rfl, rfl⟩ := hh
  obtain ⟨rfl, rfl, rfl, rfl, rfl, rfl, rfl, rfl, rfl, rfl⟩ := hcan
  obtain ⟨rfl, rfl, rfl, rfl⟩ := hb
  obtain ⟨rfl, rfl⟩ := hcr
  subst hp
  unfold FreshInit StEq DayState'.live resetState resetStateCore
  unfold CellsEq at hc
  simp only [hoff, Bool.false_eq_true, if_false, hc]

/-- the canonical fresh initial state: the reset of the multi-season run's initial state for the
crop of season `k` -/
theorem freshInit_reset (cfg : RunCfg α) (k : Nat) :
    FreshInit cfg k (resetState cfg (cfg.seasonCrop k) cfg.init) := StEq.refl _ _

/-! ## 9. the rows -/

theorem RecSh.state {wt p k : Nat} {d d1 : DayRec α} (h : RecSh wt p k d d1) :
    d.r.state = d1.r.state := by
  have := congrArg DayResult.state h.r; exact this
theorem RecSh.flux {wt p k : Nat} {d d1 : DayRec α} (h : RecSh wt p k d d1) :
    d.r.flux = { d1.r.flux with tsc := d1.D.tsc + p, season := (k : Int) } := by
  have := congrArg DayResult.flux h.r; exact this
theorem RecSh.growth {wt p k : Nat} {d d1 : DayRec α} (h : RecSh wt p k d d1) :
    d.r.growth = { d1.r.growth with tsc := d1.D.tsc + p, season := (k : Int) } := by
  have := congrArg DayResult.growth h.r; exact this
theorem RecSh.storage {wt p k : Nat} {d d1 : DayRec α} (h : RecSh wt p k d d1) :
    d.r.storage = { d1.r.storage with tsc := d1.D.tsc + p } := by
  have := congrArg DayResult.storage h.r; exact this
theorem RecSh.summary {wt p k : Nat} {d d1 : DayRec α} (h : RecSh wt p k d d1) :
    d.r.summary = d1.r.summary.map (fun x => { x with season := (k : Int), tsc := d1.D.tsc + p }) := by
  have := congrArg DayResult.summary h.r; exact this
theorem RecSh.water {wt p k : Nat} {d d1 : DayRec α} (h : RecSh wt p k d d1) :
    d.r.water = d1.r.water ∧ d.r.crop = d1.r.crop ∧ d.r.irrTot = d1.r.irrTot ∧
      d.r.endc = d1.r.endc := by
  have h1 := congrArg DayResult.water h.r
  have h2 := congrArg DayResult.crop h.r
  have h3 := congrArg DayResult.irrTot h.r
  have h4 := congrArg DayResult.endc h.r
  exact ⟨h1, h2, h3, h4⟩

theorem forall₂_map_eq {β γ δ : Type} {R : β → γ → Prop} {f : β → δ} {g : γ → δ}
    (hfg : ∀ a b, R a b → f a = g b) : ∀ {l : List β} {l1 : List γ}, List.Forall₂ R l l1 →
    l.map f = l1.map g
  | _, _, .nil => rfl
  | _, _, .cons h t => by
    simp only [List.map_cons, hfg _ _ h, forall₂_map_eq hfg t]

theorem forall₂_filterMap_eq {β γ δ : Type} {R : β → γ → Prop} {f : β → Option δ}
    {g : γ → Option δ} (hfg : ∀ a b, R a b → f a = g b) : ∀ {l : List β} {l1 : List γ},
    List.Forall₂ R l l1 → l.filterMap f = l1.filterMap g
  | _, _, .nil => rfl
  | _, _, .cons h t => by
    simp only [List.filterMap_cons, hfg _ _ h, forall₂_filterMap_eq hfg t]

theorem forall₂_and_right {β γ : Type} {R : β → γ → Prop} {Q : γ → Prop} :
    ∀ {l : List β} {l1 : List γ}, List.Forall₂ R l l1 → (∀ b ∈ l1, Q b) →
    List.Forall₂ (fun a b => R a b ∧ Q b) l l1
  | _, _, .nil, _ => .nil
  | _, _, .cons h t, hq =>
    .cons ⟨h, hq _ List.mem_cons_self⟩
      (forall₂_and_right t (fun b hb => hq b (List.mem_cons_of_mem _ hb)))

section tables
variable {F : Fn α} {T : TrigFn α} {cfg : RunCfg α} {k : Nat} {init' : DayState' α}
  {s : RunState α}

/-- the rows carry the clock labels of the day's inputs -/
theorem fullDay_labels {P : DayParams α} {st : DayState' α} {D : DayIn' α} {r : DayResult α}
    (h : fullDay F T P st D = .ok r) :
    r.flux.season = D.season ∧ r.flux.tsc = D.tsc ∧ r.growth.season = D.season ∧
      r.growth.tsc = D.tsc ∧ r.storage.tsc = D.tsc ∧
      ∀ x, r.summary = some x → x.season = D.season := by
  obtain ⟨_, e⟩ := fullDay_ok h
  rw [e]
  refine ⟨rfl, rfl, rfl, rfl, rfl, ?_⟩
  intro x hx
  simp only [dayResultOf] at hx
  split_ifs at hx
  rw [← Option.some.inj hx]

/-- **season `k` in the output tables.**  The rows of the `water_flux` and `crop_growth` tables
of the multi-season run whose `season_counter` is `k`, and its summary rows of season `k`, are —
in order — the rows of the fresh run's tables with `time_step_counter` shifted by the planting
index and `season_counter` 0 replaced by `k`; every other column is identical. -/
theorem season_tables (hP : SeasonPre cfg k init') (hr : RunReach F T cfg s) :
    ∃ s1, RunReach F T (freshCfgI cfg k init') s1 ∧
      s.fluxTable.filter (fun x => decide (x.season = (k : Int))) =
        s1.fluxTable.map (fun x => { x with tsc := x.tsc + cfg.clock.pl k, season := (k : Int) }) ∧
      s.growthTable.filter (fun x => decide (x.season = (k : Int))) =
        s1.growthTable.map (fun x => { x with tsc := x.tsc + cfg.clock.pl k, season := (k : Int) }) ∧
      s.summaryTable.filter (fun x => decide (x.season = (k : Int))) =
        s1.summaryTable.map (fun x => { x with tsc := x.tsc + cfg.clock.pl k, season := (k : Int) }) ∧
      (((k : Int) < s.season ∨ (s.season = (k : Int) ∧ s.finished = true)) →
        s1.finished = true) := by
  obtain ⟨s1, hr1, hF0, hfin⟩ := season_independent hP hr
  have hdays := run_days hr
  have hdays1 := run_days hr1
  have hF := forall₂_and_right hF0 hdays1
  have hrev : (seasonRecs (k : Int) s.daysRev).reverse =
      s.daysRev.reverse.filter (fun d => decide (d.D.season = (k : Int))) := by
    unfold seasonRecs; rw [List.filter_reverse]
  refine ⟨s1, hr1, ?_, ?_, ?_, hfin⟩
  · unfold RunState.fluxTable
    rw [List.filter_map, List.map_map]
    have e1 : s.daysRev.reverse.filter ((fun x : FluxRow α => decide (x.season = (k : Int))) ∘
        fun d => d.r.flux) = (seasonRecs (k : Int) s.daysRev).reverse := by
      rw [hrev]
      apply List.filter_congr
      intro d hd
      have := (fullDay_labels (hdays d (List.mem_reverse.mp hd))).1
      simp only [Function.comp, this]
    rw [e1, List.map_reverse, List.map_reverse]
    congr 1
    apply forall₂_map_eq _ hF
    intro d d1 h
    rw [h.1.flux, Function.comp, (fullDay_labels h.2).2.1]
  · unfold RunState.growthTable
    rw [List.filter_map, List.map_map]
    have e1 : s.daysRev.reverse.filter ((fun x : GrowthRow α => decide (x.season = (k : Int))) ∘
        fun d => d.r.growth) = (seasonRecs (k : Int) s.daysRev).reverse := by
      rw [hrev]
      apply List.filter_congr
      intro d hd
      have := (fullDay_labels (hdays d (List.mem_reverse.mp hd))).2.2.1
      simp only [Function.comp, this]
    rw [e1, List.map_reverse, List.map_reverse]
    congr 1
    apply forall₂_map_eq _ hF
    intro d d1 h
    rw [h.1.growth, Function.comp, (fullDay_labels h.2).2.2.2.1]
  · unfold RunState.summaryTable
    have e0 : ∀ l : List (DayRec α), (∀ d ∈ l, fullDay F T d.P d.st d.D = .ok d.r) →
        (l.filterMap (·.r.summary)).filter (fun x => decide (x.season = (k : Int))) =
          (seasonRecs (k : Int) l).filterMap (·.r.summary) := by
      intro l
      induction l with
      | nil => intro _; rfl
      | cons d l ih =>
        intro hl
        have ih' := ih (fun d' hd' => hl d' (List.mem_cons_of_mem _ hd'))
        have hlab := (fullDay_labels (hl d List.mem_cons_self)).2.2.2.2.2
        by_cases hk : d.D.season = (k : Int)
        · rw [seasonRecs_cons_eq hk]
          cases hsum : d.r.summary with
          | none => simp only [List.filterMap_cons, hsum]; exact ih'
          | some x =>
            simp only [List.filterMap_cons, hsum]
            rw [List.filter_cons_of_pos (by simp [hlab x hsum, hk]), ih']
        · rw [seasonRecs_cons_ne hk]
          cases hsum : d.r.summary with
          | none => simp only [List.filterMap_cons, hsum]; exact ih'
          | some x =>
            simp only [List.filterMap_cons, hsum]
            rw [List.filter_cons_of_neg (by simp [hlab x hsum, hk]), ih']
    have e1 : ∀ l : List (DayRec α), l.reverse.filterMap (·.r.summary) =
        (l.filterMap (·.r.summary)).reverse := fun l => List.filterMap_reverse
    rw [e1, e1, List.filter_reverse, e0 _ hdays, List.map_reverse]
    congr 1
    rw [List.map_filterMap]
    apply forall₂_filterMap_eq _ hF
    intro d d1 h
    rw [h.1.summary]
    cases hsum : d1.r.summary with
    | none => rfl
    | some x =>
      have hx := fullDay_summary h.2
      have := (hx.2.2.2 x hsum).2.1
      simp only [Option.map_some, Option.some.injEq, this]

end tables

/-! ## 10. determinism of the run; `no_leak` -/

/-- `n` `_perform_timestep`s -/
def iterR (F : Fn α) (T : TrigFn α) (cfg : RunCfg α) : Nat → RunState α → Except String (RunState α)
  | 0, s => .ok s
  | n + 1, s =>
    match iterR F T cfg n s with
    | .error e => .error e
    | .ok s' => performR F T cfg s'

section determinism
variable {F : Fn α} {T : TrigFn α} {cfg : RunCfg α} {s a b : RunState α}

/-- a reachable state is the initial state after as many steps as it has day records -/
theorem reach_iter (hr : RunReach F T cfg s) :
    ∃ s0, runInit cfg = .ok s0 ∧ iterR F T cfg s.daysRev.length s0 = .ok s := by
  induction hr with
  | @init s h0 =>
    refine ⟨s, h0, ?_⟩
    have : s.daysRev = [] := by
      unfold runInit at h0
      split at h0
      · cases h0
      · cases h0; rfl
    rw [this]; rfl
  | @step s s' hr hp ih =>
    obtain ⟨s0, h0, hi⟩ := ih
    obtain ⟨_, d, hd, _⟩ := performR_info hp
    refine ⟨s0, h0, ?_⟩
    rw [hd]
    show iterR F T cfg (s.daysRev.length + 1) s0 = .ok s'
    simp only [iterR, hi]
    exact hp

theorem iterR_add (m n : Nat) (s0 : RunState α) :
    iterR F T cfg (m + n) s0 =
      match iterR F T cfg n s0 with
      | .error e => .error e
      | .ok a => iterR F T cfg m a := by
  induction m with
  | zero =>
    rw [Nat.zero_add]
    cases iterR F T cfg n s0 <;> rfl
  | succ m ih =>
    rw [Nat.succ_add]
    simp only [iterR, ih]
    cases iterR F T cfg n s0 <;> rfl

theorem iterR_finished : ∀ (m : Nat) {a b : RunState α}, a.finished = true →
    iterR F T cfg m a = .ok b → m = 0
  | 0, _, _, _, _ => rfl
  | m + 1, a, b, hf, h => by
    simp only [iterR] at h
    split at h
    · cases h
    · rename_i x hx
      have := iterR_finished m hf hx
      subst this
      simp only [iterR] at hx
      cases hx
      obtain ⟨hf', _⟩ := performR_info h
      rw [hf] at hf'; cases hf'

/-- **the run is deterministic**: two reachable states with the same number of simulated days are
the same state -/
theorem reach_unique_of_length (ha : RunReach F T cfg a) (hb : RunReach F T cfg b)
    (h : a.daysRev.length = b.daysRev.length) : a = b := by
  obtain ⟨s0, h0, hia⟩ := reach_iter ha
  obtain ⟨s0', h0', hib⟩ := reach_iter hb
  rw [h0] at h0'
  cases h0'
  rw [h, hib] at hia
  exact (Except.ok.inj hia).symm

/-- … and there is only one finished reachable state -/
theorem reach_unique_of_finished (ha : RunReach F T cfg a) (hb : RunReach F T cfg b)
    (hfa : a.finished = true) (hfb : b.finished = true) : a = b := by
  obtain ⟨s0, h0, hia⟩ := reach_iter ha
  obtain ⟨s0', h0', hib⟩ := reach_iter hb
  rw [h0] at h0'
  cases h0'
  rcases Nat.le_total a.daysRev.length b.daysRev.length with hle | hle
  · obtain ⟨m, hm⟩ := Nat.exists_eq_add_of_le' hle
    rw [hm, iterR_add, hia] at hib
    have := iterR_finished m hfa hib
    subst this
    exact Except.ok.inj hib
  · obtain ⟨m, hm⟩ := Nat.exists_eq_add_of_le' hle
    rw [hm, iterR_add, hib] at hia
    have := iterR_finished m hfb hia
    subst this
    exact (Except.ok.inj hia).symm

end determinism

/-- two day records with the same parameters, inputs, live start state and result -/
structure RecSame (wt : Nat) (d d2 : DayRec α) : Prop where
  P : d.P = d2.P
  st : StEq wt d.st d2.st
  D : d.D = d2.D
  r : d.r.noFlux = d2.r.noFlux

theorem RecSh.same {wt p k : Nat} {d d2 d1 : DayRec α} (h : RecSh wt p k d d1)
    (h2 : RecSh wt p k d2 d1) : RecSame wt d d2 :=
  ⟨h.P.trans h2.P.symm, h.st.trans h2.st.symm, h.D.trans h2.D.symm, h.r.trans h2.r.symm⟩

theorem forall₂_join {β γ : Type} {R : β → γ → Prop} {S : β → β → Prop}
    (hRS : ∀ a b c, R a c → R b c → S a b) : ∀ {l l2 : List β} {l1 : List γ},
    List.Forall₂ R l l1 → List.Forall₂ R l2 l1 → List.Forall₂ S l l2
  | _, _, _, .nil, .nil => .nil
  | _, _, _, .cons h t, .cons h' t' => .cons (hRS _ _ _ h h') (forall₂_join hRS t t')

section noleak
variable {F : Fn α} {T : TrigFn α} {cfg : RunCfg α} {k : Nat} {init' : DayState' α}
  {s s2 : RunState α}

/-- the configuration with other weather and water-table records -/
def withForcing (cfg : RunCfg α) (w2 : Nat → Weather α) (z2 : Nat → α) : RunCfg α :=
  { cfg with weather := w2, zgw := z2 }

theorem freshCfgI_withForcing {w2 : Nat → Weather α} {z2 : Nat → α}
    (hw2 : ∀ t, cfg.clock.pl k ≤ t → w2 t = cfg.weather t)
    (hz2 : ∀ t, cfg.clock.pl k ≤ t → z2 t = cfg.zgw t) :
    freshCfgI (withForcing cfg w2 z2) k init' = freshCfgI cfg k init' := by
  have e1 : (fun t => w2 (t + cfg.clock.pl k)) = fun t => cfg.weather (t + cfg.clock.pl k) :=
    funext (fun t => hw2 _ (by omega))
  have e2 : (fun t => z2 (t + cfg.clock.pl k)) = fun t => cfg.zgw (t + cfg.clock.pl k) :=
    funext (fun t => hz2 _ (by omega))
  unfold freshCfgI withForcing
  simp only [e1, e2]

theorem SeasonPre.withForcing (hP : SeasonPre cfg k init') (w2 : Nat → Weather α) (z2 : Nat → α) :
    SeasonPre (withForcing cfg w2 z2) k init' :=
  { valid := hP.valid, hk := hP.hk,
    initOK := ⟨hP.initOK.dap, hP.initOK.mature, hP.initOK.dead, hP.initOK.flag⟩,
    off := hP.off, offW := hP.offW, dz := hP.dz, thini := hP.thini, ct := hP.ct,
    fresh := hP.fresh, reset := hP.reset }

/-- **`no_leak`.**  Two multi-season runs whose configurations differ only in the weather and
water-table records *before* the planting date of season `k` give the same season-`k` day
records (`RecSame`: parameters, inputs, live start state, state after the day, rows, summary row,
ghosts) — for any two reachable states that have simulated equally many days of season `k`.
In particular the state the first day of season `k` starts from is the same on every live field:
nothing of the earlier seasons' weather leaks into season `k`. -/
theorem no_leak {w2 : Nat → Weather α} {z2 : Nat → α} (hP : SeasonPre cfg k init')
    (hw2 : ∀ t, cfg.clock.pl k ≤ t → w2 t = cfg.weather t)
    (hz2 : ∀ t, cfg.clock.pl k ≤ t → z2 t = cfg.zgw t)
    (hr : RunReach F T cfg s) (hr2 : RunReach F T (withForcing cfg w2 z2) s2)
    (hlen : (seasonRecs (k : Int) s.daysRev).length = (seasonRecs (k : Int) s2.daysRev).length) :
    List.Forall₂ (RecSame cfg.W0.waterTable) (seasonRecs (k : Int) s.daysRev)
      (seasonRecs (k : Int) s2.daysRev) := by
  obtain ⟨s1, hr1, hF, _⟩ := season_independent hP hr
  obtain ⟨s1', hr1', hF', _⟩ := season_independent (hP.withForcing w2 z2) hr2
  rw [freshCfgI_withForcing hw2 hz2] at hr1'
  have hl : s1.daysRev.length = s1'.daysRev.length := by
    rw [← hF.length_eq, ← hF'.length_eq]; exact hlen
  have e := reach_unique_of_length hr1 hr1' hl
  subst e
  exact forall₂_join (fun a b c h h' => h.same h') hF hF'

/-- `no_leak` for two runs that have both completed season `k` -/
theorem no_leak_completed {w2 : Nat → Weather α} {z2 : Nat → α} (hP : SeasonPre cfg k init')
    (hw2 : ∀ t, cfg.clock.pl k ≤ t → w2 t = cfg.weather t)
    (hz2 : ∀ t, cfg.clock.pl k ≤ t → z2 t = cfg.zgw t)
    (hr : RunReach F T cfg s) (hr2 : RunReach F T (withForcing cfg w2 z2) s2)
    (hdone : (k : Int) < s.season ∨ (s.season = (k : Int) ∧ s.finished = true))
    (hdone2 : (k : Int) < s2.season ∨ (s2.season = (k : Int) ∧ s2.finished = true)) :
    List.Forall₂ (RecSame cfg.W0.waterTable) (seasonRecs (k : Int) s.daysRev)
      (seasonRecs (k : Int) s2.daysRev) := by
  obtain ⟨s1, hr1, hF, hf⟩ := season_independent hP hr
  obtain ⟨s1', hr1', hF', hf'⟩ := season_independent (hP.withForcing w2 z2) hr2
  rw [freshCfgI_withForcing hw2 hz2] at hr1'
  have e := reach_unique_of_finished hr1 hr1' (hf hdone) (hf' hdone2)
  subst e
  exact forall₂_join (fun a b c h h' => h.same h') hF hF'

theorem forall₂_getLast? {β γ : Type} {R : β → γ → Prop} : ∀ {l : List β} {l1 : List γ},
    List.Forall₂ R l l1 → ∀ {d : β}, l.getLast? = some d → ∃ d1, l1.getLast? = some d1 ∧ R d d1
  | _, _, .nil, _, h => by cases h
  | _, _, .cons (a := a) (b := b) h .nil, d, hd => by
    simp only [List.getLast?_singleton, Option.some.injEq] at hd
    subst hd
    exact ⟨b, by simp, h⟩
  | _, _, .cons h (.cons h' t), d, hd => by
    rw [List.getLast?_cons_cons] at hd
    obtain ⟨d1, e, hR⟩ := forall₂_getLast? (.cons h' t) hd
    exact ⟨d1, by rw [List.getLast?_cons_cons]; exact e, hR⟩

/-- the oldest day record of a reachable state starts from the initial state object -/
theorem reach_first_rec {cfg : RunCfg α} {s : RunState α} (hr : RunReach F T cfg s) :
    (s.daysRev = [] ∧ s.day = cfg.init) ∨
      ∃ d, s.daysRev.getLast? = some d ∧ d.st = cfg.init := by
  induction hr with
  | init h0 =>
    left
    unfold runInit at h0
    split at h0
    · cases h0
    · cases h0; exact ⟨rfl, rfl⟩
  | @step s s' hr hp ih =>
    right
    obtain ⟨d, hd, hst, _⟩ := performR_refines hp
    rcases ih with ⟨e, hi⟩ | ⟨d0, hd0, hst0⟩
    · exact ⟨d, by rw [hd, e]; rfl, by rw [hst, hi]⟩
    · refine ⟨d0, ?_, hst0⟩
      rw [hd]
      cases hl : s.daysRev with
      | nil => rw [hl] at hd0; cases hd0
      | cons x xs => rw [List.getLast?_cons_cons, ← hl]; exact hd0

/-- the state the first day of season `k` starts from agrees, on every live field, with the
fresh initial state — whatever happened before -/
theorem season_start_state (hP : SeasonPre cfg k init') (hr : RunReach F T cfg s)
    (d : DayRec α) (hd : (seasonRecs (k : Int) s.daysRev).getLast? = some d) :
    StEq cfg.W0.waterTable d.st init' := by
  obtain ⟨s1, hr1, hF, _⟩ := season_independent hP hr
  obtain ⟨d1, hd1, hR⟩ := forall₂_getLast? hF hd
  rcases reach_first_rec hr1 with ⟨e, _⟩ | ⟨d1', hd1', hst⟩
  · rw [e] at hd1; cases hd1
  · rw [hd1] at hd1'
    cases hd1'
    have := hR.st
    rw [hst] at this
    exact this

end noleak

end Aqua

#print axioms Aqua.resetState_stEq
#print axioms Aqua.performR_of_clock
#print axioms Aqua.step_season
#print axioms Aqua.season_independent
#print axioms Aqua.season_independent_same_init
#print axioms Aqua.FreshInit.of_fields
#print axioms Aqua.season_tables
#print axioms Aqua.reach_unique_of_length
#print axioms Aqua.no_leak
#print axioms Aqua.no_leak_completed
#print axioms Aqua.season_start_state
