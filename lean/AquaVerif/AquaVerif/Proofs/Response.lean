import AquaVerif.Model.WaterStress
import AquaVerif.Model.Response
import AquaVerif.Proofs.Basic
/-
Lemmas about the response functions (property C17): water-stress coefficients, pollination
temperature stress, growing degree days, canopy growth / decline curves and their inverse,
CO2 factor of the water productivity (both copies).

All statements are for an arbitrary linearly ordered field `α`; the transcendental functions
are constrained only through the law structures below, which `Proofs/RealInstance.lean` shows
to be satisfied by `Real.exp` / `Real.log` (non-vacuity).
-/

set_option linter.unusedSectionVars false
set_option linter.unusedVariables false
namespace Aqua
variable {α : Type} [Field α] [LinearOrder α] [IsStrictOrderedRing α]

/-! ## Laws assumed about `F`

(named `ExpOrdLaws` / `ExpAddLaw` / `LogExpLaws` because `Proofs/Drainage.lean` already declares an
`Aqua.ExpLaws` with the single field `one_le`; that one follows from `ExpOrdLaws` through
`ExpOrdLaws.one_le_exp`.) -/

/-- order laws of the exponential -/
structure ExpOrdLaws (F : Fn α) : Prop where
  exp_pos : ∀ x, 0 < F.exp x
  exp_zero : F.exp 0 = 1
  exp_mono : ∀ x y, x < y → F.exp x < F.exp y

/-- functional equation of the exponential (only needed where the code uses `exp(-x)` and
`exp(x)` side by side: the two regimes of the canopy growth curve) -/
structure ExpAddLaw (F : Fn α) : Prop where
  exp_add : ∀ x y, F.exp (x + y) = F.exp x * F.exp y

/-- `log` inverts `exp` (needed only for `cc_required_time`) -/
structure LogExpLaws (F : Fn α) : Prop where
  exp_log : ∀ x, 0 < x → F.exp (F.log x) = x
  log_exp : ∀ x, F.log (F.exp x) = x

namespace ExpOrdLaws
variable {F : Fn α}

theorem exp_le (h : ExpOrdLaws F) {x y : α} (hxy : x ≤ y) : F.exp x ≤ F.exp y := by
  rcases lt_or_eq_of_le hxy with h1 | h1
  · exact (h.exp_mono x y h1).le
  · rw [h1]

theorem one_lt_exp (h : ExpOrdLaws F) {x : α} (hx : 0 < x) : 1 < F.exp x := by
  have := h.exp_mono 0 x hx; rwa [h.exp_zero] at this

theorem exp_lt_one (h : ExpOrdLaws F) {x : α} (hx : x < 0) : F.exp x < 1 := by
  have := h.exp_mono x 0 hx; rwa [h.exp_zero] at this

theorem one_le_exp (h : ExpOrdLaws F) {x : α} (hx : 0 ≤ x) : 1 ≤ F.exp x := by
  have := h.exp_le hx; rwa [h.exp_zero] at this

theorem exp_le_one (h : ExpOrdLaws F) {x : α} (hx : x ≤ 0) : F.exp x ≤ 1 := by
  have := h.exp_le hx; rwa [h.exp_zero] at this

end ExpOrdLaws

theorem ExpAddLaw.exp_neg {F : Fn α} (hA : ExpAddLaw F) (hF : ExpOrdLaws F) (x : α) :
    F.exp (-x) = (F.exp x)⁻¹ := by
  have h1 : F.exp x * F.exp (-x) = 1 := by
    rw [← hA.exp_add, add_neg_cancel, hF.exp_zero]
  exact eq_inv_of_mul_eq_one_right h1

/-! ## 1. `clip01`, `drel` -/

theorem clip01_range (p : α) : 0 ≤ clip01 p ∧ clip01 p ≤ 1 := by
  unfold clip01
  simp only []
  split_ifs with h1 h2 h2 <;> constructor <;> linarith

theorem clip01_mono {p q : α} (h : p ≤ q) : clip01 p ≤ clip01 q := by
  unfold clip01
  simp only []
  split_ifs <;> linarith

theorem clip01_of_mem {p : α} (h0 : 0 ≤ p) (h1 : p ≤ 1) : clip01 p = p := by
  unfold clip01
  simp only []
  rw [if_neg (not_lt.mpr h0), if_neg (not_lt.mpr h1)]

/-- in the "partial stress" branch the thresholds are strictly ordered and `taw` is positive -/
theorem drel_mid_facts {pUp pLo dr taw : α} (h : pUp ≤ pLo) (h1 : ¬ dr ≤ pUp * taw)
    (h2 : dr < pLo * taw) : 0 < taw ∧ pUp < pLo := by
  rw [not_le] at h1
  have h3 : 0 < (pLo - pUp) * taw := by nlinarith
  have h4 : 0 ≤ pLo - pUp := sub_nonneg.mpr h
  constructor
  · by_contra hc
    rw [not_lt] at hc
    have : (pLo - pUp) * taw ≤ 0 := mul_nonpos_of_nonneg_of_nonpos h4 hc
    linarith
  · by_contra hc
    rw [not_lt] at hc
    have : pLo - pUp = 0 := le_antisymm (by linarith) h4
    rw [this, zero_mul] at h3
    exact lt_irrefl _ h3

/-- relative depletion lies in `[0,1]` whenever the thresholds are ordered (any `taw`). -/
theorem drel_range (pUp pLo dr taw : α) (h : pUp ≤ pLo) :
    0 ≤ drel pUp pLo dr taw ∧ drel pUp pLo dr taw ≤ 1 := by
  unfold drel
  split_ifs with h1 h2
  · exact ⟨le_refl _, zero_le_one⟩
  · obtain ⟨ht, hlt⟩ := drel_mid_facts h h1 h2
    rw [not_le] at h1
    have hd : 0 < pLo - pUp := sub_pos.mpr hlt
    have e1 : dr / taw < pLo := by rw [div_lt_iff₀ ht]; exact h2
    have e2 : pUp < dr / taw := by rw [lt_div_iff₀ ht]; exact h1
    have f0 : 0 ≤ (pLo - dr / taw) / (pLo - pUp) := div_nonneg (by linarith) hd.le
    have f1 : (pLo - dr / taw) / (pLo - pUp) ≤ 1 := by
      rw [div_le_one hd]; linarith
    constructor <;> linarith
  · exact ⟨zero_le_one, le_refl _⟩

/-- relative depletion does not decrease when the root-zone depletion increases. -/
theorem drel_mono (pUp pLo taw : α) {dr dr' : α} (h : pUp ≤ pLo) (hdr : dr ≤ dr') :
    drel pUp pLo dr taw ≤ drel pUp pLo dr' taw := by
  have r := drel_range pUp pLo dr taw h
  have r' := drel_range pUp pLo dr' taw h
  unfold drel at r r' ⊢
  by_cases a1 : dr ≤ pUp * taw
  · rw [if_pos a1]
    exact r'.1
  · rw [if_neg a1] at r ⊢
    have b1 : ¬ dr' ≤ pUp * taw := fun hc => a1 (le_trans hdr hc)
    rw [if_neg b1] at r' ⊢
    by_cases b2 : dr' < pLo * taw
    · have a2 : dr < pLo * taw := lt_of_le_of_lt hdr b2
      rw [if_pos a2, if_pos b2]
      obtain ⟨ht, hlt⟩ := drel_mid_facts h a1 a2
      have hd : 0 < pLo - pUp := sub_pos.mpr hlt
      have e : dr / taw ≤ dr' / taw := div_le_div_of_nonneg_right hdr ht.le
      have : (pLo - dr' / taw) / (pLo - pUp) ≤ (pLo - dr / taw) / (pLo - pUp) :=
        div_le_div_of_nonneg_right (by linarith) hd.le
      linarith
    · rw [if_neg b2]
      exact r.2

/-! ## 2. `ksShape`, `waterStress` -/

/-- the curve `(exp(d·f) − 1)/(exp f − 1)` shared by the water-stress coefficients and the
CO2 factor -/
def expRatio (F : Fn α) (d f : α) : α := (F.exp (d * f) - 1) / (F.exp f - 1)

theorem ksShape_eq (F : Fn α) (d f : α) : ksShape F d f = 1 - expRatio F d f := rfl

theorem expRatio_mono {F : Fn α} (hF : ExpOrdLaws F) {f d d' : α} (hf : f ≠ 0) (h : d ≤ d') :
    expRatio F d f ≤ expRatio F d' f := by
  unfold expRatio
  rcases lt_or_gt_of_ne hf with hneg | hpos
  · -- f < 0: numerator and denominator negative
    have hden : F.exp f - 1 < 0 := by have := hF.exp_lt_one hneg; linarith
    have hnum : F.exp (d' * f) ≤ F.exp (d * f) :=
      hF.exp_le (mul_le_mul_of_nonpos_right h hneg.le)
    exact div_le_div_of_nonpos_of_le hden.le (by linarith)
  · have hden : 0 < F.exp f - 1 := by have := hF.one_lt_exp hpos; linarith
    have hnum : F.exp (d * f) ≤ F.exp (d' * f) :=
      hF.exp_le (mul_le_mul_of_nonneg_right h hpos.le)
    exact div_le_div_of_nonneg_right (by linarith) hden.le

theorem expRatio_zero {F : Fn α} (hF : ExpOrdLaws F) (f : α) : expRatio F 0 f = 0 := by
  unfold expRatio; rw [zero_mul, hF.exp_zero, sub_self, zero_div]

theorem expRatio_one {F : Fn α} (hF : ExpOrdLaws F) {f : α} (hf : f ≠ 0) : expRatio F 1 f = 1 := by
  unfold expRatio
  rw [one_mul]
  have : F.exp f - 1 ≠ 0 := by
    rcases lt_or_gt_of_ne hf with hneg | hpos
    · have := hF.exp_lt_one hneg; intro hc; linarith
    · have := hF.one_lt_exp hpos; intro hc; linarith
  exact div_self this

theorem expRatio_range {F : Fn α} (hF : ExpOrdLaws F) {f d : α} (hf : f ≠ 0) (h0 : 0 ≤ d)
    (h1 : d ≤ 1) : 0 ≤ expRatio F d f ∧ expRatio F d f ≤ 1 := by
  constructor
  · rw [← expRatio_zero hF f]; exact expRatio_mono hF hf h0
  · rw [← expRatio_one hF hf]; exact expRatio_mono hF hf h1

/-- `Ks = 1 − (exp(d·f) − 1)/(exp f − 1)` lies in `[0,1]` for relative depletion `d ∈ [0,1]`
and either sign of the shape factor `f ≠ 0`.
(`f = 0` makes the Python divide `0/0`; in a field `x/0 = 0`, so the premise is kept explicit
rather than exploiting that convention.) -/
theorem ksShape_range {F : Fn α} (hF : ExpOrdLaws F) {d f : α} (hf : f ≠ 0) (hd0 : 0 ≤ d)
    (hd1 : d ≤ 1) : 0 ≤ ksShape F d f ∧ ksShape F d f ≤ 1 := by
  obtain ⟨a, b⟩ := expRatio_range hF hf hd0 hd1
  rw [ksShape_eq]; constructor <;> linarith

/-- `Ks` does not increase with the relative depletion (either sign of `f`). -/
theorem ksShape_antitone {F : Fn α} (hF : ExpOrdLaws F) {d d' f : α} (hf : f ≠ 0) (h : d ≤ d') :
    ksShape F d' f ≤ ksShape F d f := by
  have := expRatio_mono hF hf h
  rw [ksShape_eq, ksShape_eq]; linarith

theorem ksShape_at_zero {F : Fn α} (hF : ExpOrdLaws F) (f : α) : ksShape F 0 f = 1 := by
  rw [ksShape_eq, expRatio_zero hF]; ring

theorem ksShape_at_one {F : Fn α} (hF : ExpOrdLaws F) {f : α} (hf : f ≠ 0) : ksShape F 1 f = 0 := by
  rw [ksShape_eq, expRatio_one hF hf]; ring

/-- upper thresholds of `water_stress` after ET0 adjustment, early-senescence reduction and
clipping (the model's local `upC`) -/
def wsUp (F : Fn α) (pUp : Fin 4 → α) (etAdj : Bool) (betaPct tEarlySen et0 : α)
    (betaFlag : Bool) (i : Fin 4) : α :=
  let up (i : Fin 4) : α := if etAdj ∧ i.val < 3 then etAdjust F (pUp i) et0 else pUp i
  let up2 : α := if betaFlag ∧ 0 < tEarlySen then up 2 * (1 - betaPct / 100) else up 2
  clip01 (if i.val = 2 then up2 else up i)

/-- lower thresholds after ET0 adjustment and clipping (the model's local `loC`) -/
def wsLo (F : Fn α) (pLo : Fin 4 → α) (etAdj : Bool) (et0 : α) (i : Fin 4) : α :=
  clip01 (if etAdj ∧ i.val < 3 then etAdjust F (pLo i) et0 else pLo i)

/-- the model written in terms of `wsUp`/`wsLo` (definitional). -/
theorem waterStress_eq (F : Fn α) (pUp pLo fsh : Fin 4 → α) (etAdj : Bool)
    (betaPct tEarlySen dr taw et0 : α) (betaFlag : Bool) :
    waterStress F pUp pLo fsh etAdj betaPct tEarlySen dr taw et0 betaFlag =
      let d (i : Fin 4) : α :=
        drel (wsUp F pUp etAdj betaPct tEarlySen et0 betaFlag i) (wsLo F pLo etAdj et0 i) dr taw
      { exp := ksShape F (d 0) (fsh 0)
        sto := ksShape F (d 1) (fsh 1)
        sen := ksShape F (d 2) (fsh 2)
        pol := 1 - d 3
        stoLin := 1 - d 1 } := rfl

/-- all five water-stress coefficients lie in `[0,1]`, provided the thresholds *as used*
(after ET0 adjustment, senescence reduction and clipping) are ordered and the three shape
factors are non-zero. -/
theorem waterStress_range {F : Fn α} (hF : ExpOrdLaws F) (pUp pLo fsh : Fin 4 → α) (etAdj : Bool)
    (betaPct tEarlySen dr taw et0 : α) (betaFlag : Bool)
    (hord : ∀ i, wsUp F pUp etAdj betaPct tEarlySen et0 betaFlag i ≤ wsLo F pLo etAdj et0 i)
    (hf : ∀ i : Fin 4, i.val < 3 → fsh i ≠ 0) :
    let k := waterStress F pUp pLo fsh etAdj betaPct tEarlySen dr taw et0 betaFlag
    (0 ≤ k.exp ∧ k.exp ≤ 1) ∧ (0 ≤ k.sto ∧ k.sto ≤ 1) ∧ (0 ≤ k.sen ∧ k.sen ≤ 1) ∧
      (0 ≤ k.pol ∧ k.pol ≤ 1) ∧ (0 ≤ k.stoLin ∧ k.stoLin ≤ 1) := by
  rw [waterStress_eq]
  simp only []
  have r := fun i => drel_range _ _ dr taw (hord i)
  refine ⟨ksShape_range hF (hf 0 (by decide)) (r 0).1 (r 0).2,
    ksShape_range hF (hf 1 (by decide)) (r 1).1 (r 1).2,
    ksShape_range hF (hf 2 (by decide)) (r 2).1 (r 2).2, ?_, ?_⟩
  · constructor <;> linarith [(r 3).1, (r 3).2]
  · constructor <;> linarith [(r 1).1, (r 1).2]

/-- none of the five water-stress coefficients increases when the root-zone depletion
increases (same premises). -/
theorem waterStress_antitone_in_dr {F : Fn α} (hF : ExpOrdLaws F) (pUp pLo fsh : Fin 4 → α)
    (etAdj : Bool) (betaPct tEarlySen taw et0 : α) (betaFlag : Bool) {dr dr' : α}
    (hord : ∀ i, wsUp F pUp etAdj betaPct tEarlySen et0 betaFlag i ≤ wsLo F pLo etAdj et0 i)
    (hf : ∀ i : Fin 4, i.val < 3 → fsh i ≠ 0) (hdr : dr ≤ dr') :
    let k := waterStress F pUp pLo fsh etAdj betaPct tEarlySen dr taw et0 betaFlag
    let k' := waterStress F pUp pLo fsh etAdj betaPct tEarlySen dr' taw et0 betaFlag
    k'.exp ≤ k.exp ∧ k'.sto ≤ k.sto ∧ k'.sen ≤ k.sen ∧ k'.pol ≤ k.pol ∧ k'.stoLin ≤ k.stoLin := by
  rw [waterStress_eq, waterStress_eq]
  simp only []
  have m := fun i => drel_mono _ _ taw (hord i) hdr
  refine ⟨ksShape_antitone hF (hf 0 (by decide)) (m 0),
    ksShape_antitone hF (hf 1 (by decide)) (m 1),
    ksShape_antitone hF (hf 2 (by decide)) (m 2), ?_, ?_⟩
  · linarith [m 3]
  · linarith [m 1]

/-- What the ordering premise amounts to on *raw* parameters when the ET0 adjustment is off:
`p_up i ≤ p_lo i`, and for the senescence threshold a reduction `0 ≤ beta ≤ 100` of a
non-negative `p_up 2`.  (With the ET0 adjustment on, one needs in addition that
`p ↦ p + 0.04·(5 − et0)·log10(10 − 9p)` is monotone on the relevant range — see
`etAdjust_mono_of` below.) -/
theorem wsOrdered_of_raw_noEtAdj (F : Fn α) (pUp pLo : Fin 4 → α) (betaPct tEarlySen et0 : α)
    (betaFlag : Bool) (h : ∀ i, pUp i ≤ pLo i) (hb0 : 0 ≤ betaPct) (hp2 : 0 ≤ pUp 2) :
    ∀ i, wsUp F pUp false betaPct tEarlySen et0 betaFlag i ≤ wsLo F pLo false et0 i := by
  intro i
  unfold wsUp wsLo
  simp only [Bool.false_eq_true, false_and, if_false]
  apply clip01_mono
  split_ifs with h1 h2
  · have hi : i = 2 := Fin.ext h1
    subst hi
    have : pUp 2 * (1 - betaPct / 100) ≤ pUp 2 := by
      have : 0 ≤ pUp 2 * (betaPct / 100) := mul_nonneg hp2 (by positivity)
      linarith
    exact le_trans this (h 2)
  · have hi : i = 2 := Fin.ext h1
    subst hi
    exact h 2
  · exact h i

/-- Sufficient condition for the ET0 adjustment to preserve the order of two thresholds:
`log10` monotone on the arguments used and `c`-Lipschitz there with `9·|k|·c ≤ 1`
for `k = 0.04·(5 − et0)` (over the reals `c = 1/ln 10 ≈ 0.434` on `[1, 10]`, so any
`et0 ≥ −1.4` qualifies). -/
theorem etAdjust_mono_of (F : Fn α) {p q et0 c : α} (hpq : p ≤ q)
    (hmono : F.log10 (10 - 9 * q) ≤ F.log10 (10 - 9 * p))
    (hlip : F.log10 (10 - 9 * p) - F.log10 (10 - 9 * q) ≤ c * (9 * (q - p)))
    (hc : 0 ≤ c) (hk : 0.04 * (5 - et0) * (9 * c) ≤ 1) :
    etAdjust F p et0 ≤ etAdjust F q et0 := by
  unfold etAdjust
  set k : α := 0.04 * (5 - et0) with hkdef
  set lp := F.log10 (10 - 9 * p)
  set lq := F.log10 (10 - 9 * q)
  -- goal: p + k*lp ≤ q + k*lq, i.e. k*(lp - lq) ≤ q - p
  have hd : 0 ≤ lp - lq := sub_nonneg.mpr hmono
  have hqp : 0 ≤ q - p := sub_nonneg.mpr hpq
  by_cases hkn : k ≤ 0
  · have : k * (lp - lq) ≤ 0 := mul_nonpos_of_nonpos_of_nonneg hkn hd
    nlinarith
  · rw [not_le] at hkn
    have h1 : k * (lp - lq) ≤ k * (c * (9 * (q - p))) := mul_le_mul_of_nonneg_left hlip hkn.le
    have h2 : k * (c * (9 * (q - p))) = (k * (9 * c)) * (q - p) := by ring
    have h3 : (k * (9 * c)) * (q - p) ≤ 1 * (q - p) := mul_le_mul_of_nonneg_right hk hqp
    nlinarith

/-- aeration-stress coefficient in `[0,1]` (saturation above the aeration threshold, water
content not above saturation, and a lag of at most the hard-coded 3 days by which the day
counter is divided; the built-in `LagAer` is 3). -/
theorem aerationStress_range_of_lag_le_three {aerDays lagAer thAct thS thAer : α}
    (h1 : thAer < thS) (h2 : thAct ≤ thS) (h0 : 0 ≤ aerDays) (hl : lagAer ≤ 3) :
    0 ≤ (aerationStress aerDays lagAer thAct thS thAer).1 ∧
      (aerationStress aerDays lagAer thAct thS thAer).1 ≤ 1 := by
  unfold aerationStress
  have hd : 0 < thS - thAer := sub_pos.mpr h1
  split_ifs with a b
  · simp only []
    have r0 : 0 ≤ (thS - thAct) / (thS - thAer) := div_nonneg (by linarith) hd.le
    have r1 : (thS - thAct) / (thS - thAer) ≤ 1 := by rw [div_le_one hd]; linarith
    have d0 : 0 ≤ aerDays / 3 := div_nonneg h0 (by norm_num)
    have d1 : aerDays / 3 ≤ 1 := by rw [div_le_one (by norm_num)]; linarith
    have p0 : 0 ≤ aerDays / 3 * (1 - (thS - thAct) / (thS - thAer)) :=
      mul_nonneg d0 (by linarith)
    have p1 : aerDays / 3 * (1 - (thS - thAct) / (thS - thAer)) ≤ 1 * 1 :=
      mul_le_mul d1 (by linarith) (by linarith) zero_le_one
    constructor <;> linarith
  · simp only []
    constructor
    · exact div_nonneg (by linarith) hd.le
    · rw [div_le_one hd]; linarith
  · exact ⟨zero_le_one, le_refl _⟩

/-! ## 3. growing degree days -/

/-- daily GDD lie in `[0, Tupp − Tbase]` for the three methods. -/
theorem gdd_range {m : Nat} {tupp tbase tmax tmin g : α} (h : tbase ≤ tupp)
    (hg : growingDegreeDay m tupp tbase tmax tmin = some g) : 0 ≤ g ∧ g ≤ tupp - tbase := by
  unfold growingDegreeDay at hg
  simp only [pmin_eq, pmax_eq] at hg
  split_ifs at hg with h1 h2 h3
  · simp only [Option.some.injEq] at hg; subst hg
    constructor
    · linarith [le_max_right (min ((tmax + tmin) / 2) tupp) tbase]
    · have : max (min ((tmax + tmin) / 2) tupp) tbase ≤ tupp :=
        max_le (min_le_right _ _) h
      linarith
  · simp only [Option.some.injEq] at hg; subst hg
    have a1 : tbase ≤ max (min tmax tupp) tbase := le_max_right _ _
    have a2 : max (min tmax tupp) tbase ≤ tupp := max_le (min_le_right _ _) h
    have b1 : tbase ≤ max (min tmin tupp) tbase := le_max_right _ _
    have b2 : max (min tmin tupp) tbase ≤ tupp := max_le (min_le_right _ _) h
    constructor <;> linarith
  · simp only [Option.some.injEq] at hg; subst hg
    have a2 : max (min tmax tupp) tbase ≤ tupp := max_le (min_le_right _ _) h
    have b2 : min tmin tupp ≤ tupp := min_le_right _ _
    constructor
    · linarith [le_max_right ((max (min tmax tupp) tbase + min tmin tupp) / 2) tbase]
    · have : max ((max (min tmax tupp) tbase + min tmin tupp) / 2) tbase ≤ tupp :=
        max_le (by linarith) h
      linarith

/-- GDD do not decrease when the day's maximum and/or minimum temperature rise
(no premise on the thresholds). -/
theorem gdd_mono {m : Nat} {tupp tbase tmax tmin tmax' tmin' g g' : α} (hx : tmax ≤ tmax')
    (hn : tmin ≤ tmin')
    (hg : growingDegreeDay m tupp tbase tmax tmin = some g)
    (hg' : growingDegreeDay m tupp tbase tmax' tmin' = some g') : g ≤ g' := by
  unfold growingDegreeDay at hg hg'
  simp only [pmin_eq, pmax_eq] at hg hg'
  split_ifs at hg hg' with h1 h2 h3
  · simp only [Option.some.injEq] at hg hg'; subst hg; subst hg'
    have : (tmax + tmin) / 2 ≤ (tmax' + tmin') / 2 := by linarith
    have := max_le_max_right tbase (min_le_min_right tupp this)
    linarith
  · simp only [Option.some.injEq] at hg hg'; subst hg; subst hg'
    have a := max_le_max_right tbase (min_le_min_right tupp hx)
    have b := max_le_max_right tbase (min_le_min_right tupp hn)
    linarith
  · simp only [Option.some.injEq] at hg hg'; subst hg; subst hg'
    have a := max_le_max_right tbase (min_le_min_right tupp hx)
    have b := min_le_min_right tupp hn
    have c : (max (min tmax tupp) tbase + min tmin tupp) / 2 ≤
        (max (min tmax' tupp) tbase + min tmin' tupp) / 2 := by linarith
    have := max_le_max_right tbase c
    linarith

theorem gdd_mono_tmax {m : Nat} {tupp tbase tmax tmin tmax' g g' : α} (hx : tmax ≤ tmax')
    (hg : growingDegreeDay m tupp tbase tmax tmin = some g)
    (hg' : growingDegreeDay m tupp tbase tmax' tmin = some g') : g ≤ g' :=
  gdd_mono hx (le_refl _) hg hg'

theorem gdd_mono_tmin {m : Nat} {tupp tbase tmax tmin tmin' g g' : α} (hn : tmin ≤ tmin')
    (hg : growingDegreeDay m tupp tbase tmax tmin = some g)
    (hg' : growingDegreeDay m tupp tbase tmax tmin' = some g') : g ≤ g' :=
  gdd_mono (le_refl _) hn hg hg'

/-- the function is defined exactly for the methods 1, 2, 3 -/
theorem gdd_isSome_iff (m : Nat) (tupp tbase tmax tmin : α) :
    (growingDegreeDay m tupp tbase tmax tmin).isSome ↔ (m = 1 ∨ m = 2 ∨ m = 3) := by
  unfold growingDegreeDay
  split_ifs with h1 h2 h3 <;> simp [*]

/-! ## 4. pollination temperature stress -/

/-- the logistic curve lies in `(0,1]` — for every shape factor and every argument. -/
theorem polLogistic_range {F : Fn α} (hF : ExpOrdLaws F) (b t : α) :
    0 < polLogistic F b t ∧ polLogistic F b t ≤ 1 := by
  unfold polLogistic
  have he := hF.exp_pos ((-b) * (1 - t))
  set e := F.exp ((-b) * (1 - t))
  have h1 : (0:α) < 1 - 0.001 := by norm_num
  have h2 : (0:α) < (1 - 0.001) * e := mul_pos h1 he
  have h3 : (0:α) < 0.001 := by norm_num
  have hD : (0:α) < 0.001 + (1 - 0.001) * e := by linarith
  constructor
  · exact div_pos (by norm_num) hD
  · rw [div_le_one hD]; linarith

/-- for a non-negative shape factor the logistic curve decreases with `Trel`. -/
theorem polLogistic_antitone {F : Fn α} (hF : ExpOrdLaws F) {b t t' : α} (hb : 0 ≤ b) (h : t ≤ t') :
    polLogistic F b t' ≤ polLogistic F b t := by
  unfold polLogistic
  have harg : (-b) * (1 - t) ≤ (-b) * (1 - t') := by nlinarith
  have he := hF.exp_le harg
  have hp := hF.exp_pos ((-b) * (1 - t))
  set e := F.exp ((-b) * (1 - t))
  set e' := F.exp ((-b) * (1 - t'))
  have h1 : (0:α) < 1 - 0.001 := by norm_num
  have h3 : (0:α) < 0.001 := by norm_num
  have hD : (0:α) < 0.001 + (1 - 0.001) * e := by nlinarith
  have hDD : 0.001 + (1 - 0.001) * e ≤ 0.001 + (1 - 0.001) * e' := by nlinarith
  exact div_le_div_of_nonneg_left (by norm_num) hD hDD

/-- heat-stress coefficient in `[0,1]` (no premise on the thresholds or the shape factor). -/
theorem polH_range {F : Fn α} (hF : ExpOrdLaws F) (tmaxUp tmaxLo b tmax : α) :
    0 ≤ polHeat F tmaxUp tmaxLo b tmax ∧ polHeat F tmaxUp tmaxLo b tmax ≤ 1 := by
  unfold polHeat
  split_ifs
  · exact ⟨zero_le_one, le_refl _⟩
  · exact ⟨le_refl _, zero_le_one⟩
  · exact ⟨(polLogistic_range hF _ _).1.le, (polLogistic_range hF _ _).2⟩

/-- the heat-stress coefficient does not increase with the maximum temperature — for *either*
ordering of `Tmax_up` and `Tmax_lo` (`0 ≤ fshape_b`). -/
theorem polH_antitone_in_tmax {F : Fn α} (hF : ExpOrdLaws F) (tmaxUp tmaxLo : α) {b tmax tmax' : α}
    (hb : 0 ≤ b) (h : tmax ≤ tmax') :
    polHeat F tmaxUp tmaxLo b tmax' ≤ polHeat F tmaxUp tmaxLo b tmax := by
  have r' := polH_range hF tmaxUp tmaxLo b tmax'
  unfold polHeat at r' ⊢
  by_cases a1 : tmax ≤ tmaxLo
  · rw [if_pos a1]; exact r'.2
  · rw [if_neg a1]
    have b1 : ¬ tmax' ≤ tmaxLo := fun hc => a1 (le_trans h hc)
    rw [if_neg b1] at r' ⊢
    by_cases a2 : tmaxUp ≤ tmax
    · rw [if_pos a2, if_pos (le_trans a2 h)]
    · rw [if_neg a2]
      by_cases b2 : tmaxUp ≤ tmax'
      · rw [if_pos b2]; exact (polLogistic_range hF _ _).1.le
      · rw [if_neg b2]
        rw [not_le] at a1 a2
        have hd : 0 < tmaxUp - tmaxLo := by linarith
        exact polLogistic_antitone hF hb
          (div_le_div_of_nonneg_right (by linarith) hd.le)

/-- cold-stress coefficient in `[0,1]`. -/
theorem polC_range {F : Fn α} (hF : ExpOrdLaws F) (tminUp tminLo b tmin : α) :
    0 ≤ polCold F tminUp tminLo b tmin ∧ polCold F tminUp tminLo b tmin ≤ 1 := by
  unfold polCold
  split_ifs
  · exact ⟨zero_le_one, le_refl _⟩
  · exact ⟨le_refl _, zero_le_one⟩
  · exact ⟨(polLogistic_range hF _ _).1.le, (polLogistic_range hF _ _).2⟩

/-- the cold-stress coefficient does not decrease with the minimum temperature — for either
ordering of `Tmin_up` and `Tmin_lo` (`0 ≤ fshape_b`). -/
theorem polC_monotone_in_tmin {F : Fn α} (hF : ExpOrdLaws F) (tminUp tminLo : α) {b tmin tmin' : α}
    (hb : 0 ≤ b) (h : tmin ≤ tmin') :
    polCold F tminUp tminLo b tmin ≤ polCold F tminUp tminLo b tmin' := by
  have r := polC_range hF tminUp tminLo b tmin
  unfold polCold at r ⊢
  by_cases b1 : tminUp ≤ tmin'
  · rw [if_pos b1]; exact r.2
  · rw [if_neg b1]
    have a1 : ¬ tminUp ≤ tmin := fun hc => b1 (le_trans hc h)
    rw [if_neg a1] at r ⊢
    by_cases a2 : tmin ≤ tminLo
    · rw [if_pos a2]
      split_ifs
      · exact le_refl _
      · exact (polLogistic_range hF _ _).1.le
    · rw [if_neg a2]
      have b2 : ¬ tmin' ≤ tminLo := fun hc => a2 (le_trans h hc)
      rw [if_neg b2]
      rw [not_le] at a1 a2
      have hd : 0 < tminUp - tminLo := by linarith
      exact polLogistic_antitone hF hb
        (div_le_div_of_nonneg_right (by linarith) hd.le)

/-- **The built-in crops have `Tmax_up < Tmax_lo`** (e.g. 40 < 45): the code tests
`temp_max <= Tmax_lo` first and `temp_max >= Tmax_up` second, so for that ordering the
logistic branch is unreachable and the coefficient is a step at `Tmax_lo`. -/
theorem polH_step_of_up_le_lo (F : Fn α) {tmaxUp tmaxLo : α} (b tmax : α) (h : tmaxUp ≤ tmaxLo) :
    polHeat F tmaxUp tmaxLo b tmax = if tmax ≤ tmaxLo then 1 else 0 := by
  unfold polHeat
  by_cases a1 : tmax ≤ tmaxLo
  · rw [if_pos a1, if_pos a1]
  · rw [if_neg a1, if_neg a1]
    rw [not_le] at a1
    rw [if_pos (by linarith)]

/-- same degenerate behaviour of the cold coefficient if `Tmin_up ≤ Tmin_lo` (not the case for
the built-in crops). -/
theorem polC_step_of_up_le_lo (F : Fn α) {tminUp tminLo : α} (b tmin : α) (h : tminUp ≤ tminLo) :
    polCold F tminUp tminLo b tmin = if tminUp ≤ tmin then 1 else 0 := by
  unfold polCold
  by_cases a1 : tminUp ≤ tmin
  · rw [if_pos a1, if_pos a1]
  · rw [if_neg a1, if_neg a1]
    rw [not_le] at a1
    rw [if_pos (by linarith)]

/-- `temperature_stress` is defined exactly when both flags are 0 or 1, and both coefficients
then lie in `[0,1]`. -/
theorem temperatureStress_range {F : Fn α} (hF : ExpOrdLaws F) {ph pc : Nat}
    {tmaxUp tmaxLo tminUp tminLo b tmax tmin h c : α}
    (hr : temperatureStress F ph pc tmaxUp tmaxLo tminUp tminLo b tmax tmin = some (h, c)) :
    (0 ≤ h ∧ h ≤ 1) ∧ (0 ≤ c ∧ c ≤ 1) := by
  unfold temperatureStress at hr
  simp only [] at hr
  split_ifs at hr with h1 h2 h3 h4 h5 h6 <;>
    simp only [Option.some.injEq, Prod.mk.injEq] at hr <;>
    obtain ⟨rfl, rfl⟩ := hr
  · exact ⟨⟨zero_le_one, le_refl _⟩, ⟨zero_le_one, le_refl _⟩⟩
  · exact ⟨⟨zero_le_one, le_refl _⟩, polC_range hF _ _ _ _⟩
  · exact ⟨polH_range hF _ _ _ _, ⟨zero_le_one, le_refl _⟩⟩
  · exact ⟨polH_range hF _ _ _ _, polC_range hF _ _ _ _⟩

theorem temperatureStress_isSome_iff (F : Fn α) (ph pc : Nat)
    (tmaxUp tmaxLo tminUp tminLo b tmax tmin : α) :
    (temperatureStress F ph pc tmaxUp tmaxLo tminUp tminLo b tmax tmin).isSome ↔
      (ph = 0 ∨ ph = 1) ∧ (pc = 0 ∨ pc = 1) := by
  unfold temperatureStress
  simp only []
  split_ifs <;> simp [*]

/-! ## 5. canopy growth and decline curves -/

/-- the growth curve before the cap at `CCx` (exponential stage, or decay stage once the
exponential stage exceeds `CCx/2`) -/
def ccStage (F : Fn α) (cco ccx cgc dt : α) : α :=
  if ccx / 2 < cco * F.exp (cgc * dt) then ccx - 0.25 * (ccx / cco) * ccx * F.exp ((-cgc) * dt)
  else cco * F.exp (cgc * dt)

theorem ccGrowth_eq (F : Fn α) (cco ccx cgc dt : α) :
    ccGrowth F cco ccx cgc dt =
      if ccx < ccStage F cco ccx cgc dt then ccx else ccStage F cco ccx cgc dt := rfl

/-- in the decay stage the value lies strictly between `CCx/2` and `CCx`. -/
theorem ccUpper_bounds {F : Fn α} (hF : ExpOrdLaws F) (hA : ExpAddLaw F) {cco ccx cgc dt : α}
    (hcco : 0 < cco) (hccx : 0 < ccx) (h : ccx / 2 < cco * F.exp (cgc * dt)) :
    ccx / 2 < ccx - 0.25 * (ccx / cco) * ccx * F.exp ((-cgc) * dt) ∧
      ccx - 0.25 * (ccx / cco) * ccx * F.exp ((-cgc) * dt) < ccx := by
  have hE := hF.exp_pos (cgc * dt)
  rw [neg_mul, hA.exp_neg hF]
  set E := F.exp (cgc * dt)
  have e1 : 0.25 * (ccx / cco) * ccx * E⁻¹ = 0.25 * ccx * ccx / (cco * E) := by
    field_simp
  rw [e1]
  have hden : 0 < cco * E := mul_pos hcco hE
  have hlt : 0.25 * ccx * ccx / (cco * E) < ccx / 2 := by
    rw [div_lt_iff₀ hden]
    nlinarith
  have hpos : 0 < 0.25 * ccx * ccx / (cco * E) := by positivity
  constructor <;> linarith

theorem ccStage_bounds {F : Fn α} (hF : ExpOrdLaws F) (hA : ExpAddLaw F) {cco ccx cgc : α} (dt : α)
    (hcco : 0 < cco) (hccx : 0 < ccx) :
    0 < ccStage F cco ccx cgc dt ∧ ccStage F cco ccx cgc dt < ccx := by
  unfold ccStage
  split_ifs with h
  · obtain ⟨a, b⟩ := ccUpper_bounds hF hA hcco hccx h
    exact ⟨by linarith, b⟩
  · rw [not_lt] at h
    exact ⟨mul_pos hcco (hF.exp_pos _), by linarith⟩

/-- over a field the cap `if canopy_cover > CCx` never fires (it only matters in floating
point, where `exp(-CGC·dt)` underflows). -/
theorem ccGrowth_eq_stage {F : Fn α} (hF : ExpOrdLaws F) (hA : ExpAddLaw F) {cco ccx cgc : α} (dt : α)
    (hcco : 0 < cco) (hccx : 0 < ccx) :
    ccGrowth F cco ccx cgc dt = ccStage F cco ccx cgc dt := by
  rw [ccGrowth_eq, if_neg (not_lt.mpr (ccStage_bounds hF hA dt hcco hccx).2.le)]

/-- the growth curve lies in `(0, CCx)`. -/
theorem ccGrowth_range {F : Fn α} (hF : ExpOrdLaws F) (hA : ExpAddLaw F) {cco ccx cgc : α} (dt : α)
    (hcco : 0 < cco) (hccx : 0 < ccx) :
    0 < ccGrowth F cco ccx cgc dt ∧ ccGrowth F cco ccx cgc dt < ccx := by
  rw [ccGrowth_eq_stage hF hA dt hcco hccx]; exact ccStage_bounds hF hA dt hcco hccx

/-- the growth curve is non-decreasing in time (across the switch of regime as well). -/
theorem ccGrowth_mono_in_dt {F : Fn α} (hF : ExpOrdLaws F) (hA : ExpAddLaw F) {cco ccx cgc dt dt' : α}
    (hcco : 0 < cco) (hccx : 0 < ccx) (hcgc : 0 ≤ cgc) (h : dt ≤ dt') :
    ccGrowth F cco ccx cgc dt ≤ ccGrowth F cco ccx cgc dt' := by
  rw [ccGrowth_eq_stage hF hA dt hcco hccx, ccGrowth_eq_stage hF hA dt' hcco hccx]
  have harg : cgc * dt ≤ cgc * dt' := mul_le_mul_of_nonneg_left h hcgc
  have hE : cco * F.exp (cgc * dt) ≤ cco * F.exp (cgc * dt') :=
    mul_le_mul_of_nonneg_left (hF.exp_le harg) hcco.le
  unfold ccStage
  by_cases a : ccx / 2 < cco * F.exp (cgc * dt)
  · have a' : ccx / 2 < cco * F.exp (cgc * dt') := lt_of_lt_of_le a hE
    rw [if_pos a, if_pos a']
    have hneg : (-cgc) * dt' ≤ (-cgc) * dt := by nlinarith
    have he := hF.exp_le hneg
    have hc : 0 ≤ 0.25 * (ccx / cco) * ccx := by positivity
    have := mul_le_mul_of_nonneg_left he hc
    linarith
  · rw [if_neg a]
    by_cases a' : ccx / 2 < cco * F.exp (cgc * dt')
    · rw [if_pos a']
      rw [not_lt] at a
      have := (ccUpper_bounds hF hA hcco hccx a').1
      linarith
    · rw [if_neg a']; exact hE

/-- the decline curve is non-increasing in time. -/
theorem ccDecline_antitone {F : Fn α} (hF : ExpOrdLaws F) {ccx cdc ccx0 dt dt' : α} (hcdc : 0 ≤ cdc)
    (hccx0 : 0 < ccx0 + 2.29) (h : dt ≤ dt') :
    ccDecline F ccx cdc dt' ccx0 ≤ ccDecline F ccx cdc dt ccx0 := by
  unfold ccDecline
  split_ifs with h1
  · exact le_refl _
  · rw [not_lt] at h1
    have hccx : (0:α) < ccx := lt_of_lt_of_le (by norm_num) h1
    have h2 : 0 < ccx + 2.29 := by linarith [show (0:α) < 2.29 by norm_num]
    have hr : 0 ≤ (ccx + 2.29) / (ccx0 + 2.29) := div_nonneg h2.le hccx0.le
    have harg : dt * cdc * 3.33 * ((ccx + 2.29) / (ccx0 + 2.29)) / (ccx + 2.29) ≤
        dt' * cdc * 3.33 * ((ccx + 2.29) / (ccx0 + 2.29)) / (ccx + 2.29) := by
      apply div_le_div_of_nonneg_right _ h2.le
      apply mul_le_mul_of_nonneg_right _ hr
      apply mul_le_mul_of_nonneg_right _ (by norm_num)
      exact mul_le_mul_of_nonneg_right h hcdc
    have he := hF.exp_le harg
    apply mul_le_mul_of_nonneg_left _ hccx.le
    linarith

/-- for non-negative elapsed time the decline curve stays below the `CCx` it starts from
(it may go negative: the final clipping takes care of that). -/
theorem ccDecline_le_ccx {F : Fn α} (hF : ExpOrdLaws F) {ccx cdc ccx0 dt : α} (hcdc : 0 ≤ cdc)
    (hccx0 : 0 < ccx0 + 2.29) (hccx : 0 ≤ ccx) (hdt : 0 ≤ dt) :
    ccDecline F ccx cdc dt ccx0 ≤ ccx := by
  unfold ccDecline
  split_ifs with h1
  · exact hccx
  · have h2 : 0 < ccx + 2.29 := by linarith [show (0:α) < 2.29 by norm_num]
    have harg : 0 ≤ dt * cdc * 3.33 * ((ccx + 2.29) / (ccx0 + 2.29)) / (ccx + 2.29) := by
      positivity
    have he := hF.one_le_exp harg
    have : ccx * (1 - 0.05 * (F.exp (dt * cdc * 3.33 * ((ccx + 2.29) / (ccx0 + 2.29)) /
        (ccx + 2.29)) - 1)) ≤ ccx * 1 := by
      apply mul_le_mul_of_nonneg_left _ hccx
      linarith
    linarith

/-- at `dt = 0` the decline curve starts at `CCx` (when `CCx ≥ 0.001`). -/
theorem ccDecline_at_zero {F : Fn α} (hF : ExpOrdLaws F) {ccx cdc ccx0 : α} (h : ¬ ccx < 0.001) :
    ccDecline F ccx cdc 0 ccx0 = ccx := by
  unfold ccDecline
  rw [if_neg h]
  simp only [zero_mul, zero_div, hF.exp_zero]
  ring

theorem clipCC_range (x : α) : 0 ≤ clipCC x ∧ clipCC x ≤ 1 := by
  unfold clipCC
  split_ifs with h1 h2 <;> constructor <;> linarith

theorem clipCC_mono {x y : α} (h : x ≤ y) : clipCC x ≤ clipCC y := by
  unfold clipCC
  split_ifs <;> linarith

theorem clipCC_of_mem {x : α} (h0 : 0 ≤ x) (h1 : x ≤ 1) : clipCC x = x := by
  unfold clipCC
  rw [if_neg (not_lt.mpr h1), if_neg (not_lt.mpr h0)]

theorem clipCC_le {x y : α} (h : x ≤ y) (hy : 0 ≤ y) : clipCC x ≤ y := by
  unfold clipCC
  split_ifs <;> linarith

/-- `cc_development` always returns a value in `[0,1]` (both modes, all arguments). -/
theorem ccDevelopment_range01 (F : Fn α) (cco ccx cgc cdc dt : α) (mode : CCMode) (ccx0 : α) :
    0 ≤ ccDevelopment F cco ccx cgc cdc dt mode ccx0 ∧
      ccDevelopment F cco ccx cgc cdc dt mode ccx0 ≤ 1 := clipCC_range _

/-- growth mode: within `(0, CCx)` when `0 < CCo`, `0 < CCx ≤ 1`. -/
theorem ccDevelopment_growth_range {F : Fn α} (hF : ExpOrdLaws F) (hA : ExpAddLaw F)
    {cco ccx cgc : α} (cdc dt ccx0 : α) (hcco : 0 < cco) (hccx : 0 < ccx) (hccx1 : ccx ≤ 1) :
    0 < ccDevelopment F cco ccx cgc cdc dt .growth ccx0 ∧
      ccDevelopment F cco ccx cgc cdc dt .growth ccx0 < ccx := by
  obtain ⟨a, b⟩ := ccGrowth_range hF hA (cgc := cgc) dt hcco hccx
  unfold ccDevelopment
  simp only []
  rw [clipCC_of_mem a.le (by linarith)]
  exact ⟨a, b⟩

/-- growth mode is non-decreasing in time. -/
theorem ccDevelopment_growth_mono {F : Fn α} (hF : ExpOrdLaws F) (hA : ExpAddLaw F)
    {cco ccx cgc dt dt' : α} (cdc ccx0 : α) (hcco : 0 < cco) (hccx : 0 < ccx) (hcgc : 0 ≤ cgc)
    (h : dt ≤ dt') :
    ccDevelopment F cco ccx cgc cdc dt .growth ccx0 ≤
      ccDevelopment F cco ccx cgc cdc dt' .growth ccx0 := by
  unfold ccDevelopment
  exact clipCC_mono (ccGrowth_mono_in_dt hF hA hcco hccx hcgc h)

/-- decline mode: within `[0, CCx]` for non-negative elapsed time. -/
theorem ccDevelopment_decline_range {F : Fn α} (hF : ExpOrdLaws F) {ccx cdc ccx0 dt : α}
    (cco cgc : α) (hcdc : 0 ≤ cdc) (hccx0 : 0 < ccx0 + 2.29) (hccx : 0 ≤ ccx) (hdt : 0 ≤ dt) :
    0 ≤ ccDevelopment F cco ccx cgc cdc dt .decline ccx0 ∧
      ccDevelopment F cco ccx cgc cdc dt .decline ccx0 ≤ ccx := by
  refine ⟨(clipCC_range _).1, ?_⟩
  unfold ccDevelopment
  exact clipCC_le (ccDecline_le_ccx hF hcdc hccx0 hccx hdt) hccx

/-- decline mode is non-increasing in time. -/
theorem ccDevelopment_decline_antitone {F : Fn α} (hF : ExpOrdLaws F) {ccx cdc ccx0 dt dt' : α}
    (cco cgc : α) (hcdc : 0 ≤ cdc) (hccx0 : 0 < ccx0 + 2.29) (h : dt ≤ dt') :
    ccDevelopment F cco ccx cgc cdc dt' .decline ccx0 ≤
      ccDevelopment F cco ccx cgc cdc dt .decline ccx0 := by
  unfold ccDevelopment
  exact clipCC_mono (ccDecline_antitone hF hcdc hccx0 h)

/-! ## 6. `cc_required_time` inverts the growth curve -/

/-- For `0 < CCo`, `0 < CCx ≤ 1`, `CGC ≠ 0` and **every** `dt`:
`cc_required_time(cc_development(…, dt, "Growth", …), …, "CGC") = dt`.
Both regimes are covered: the value is `≤ CCx/2` exactly in the exponential stage, and the
required-time function switches formula on the same test. -/
theorem requiredTime_inverts_growth {F : Fn α} (hF : ExpOrdLaws F) (hA : ExpAddLaw F) (hL : LogExpLaws F)
    {cco ccx cgc : α} (cdc dt ccx0 : α) (hcco : 0 < cco) (hccx : 0 < ccx) (hccx1 : ccx ≤ 1)
    (hcgc : cgc ≠ 0) :
    ccRequiredTime F (ccDevelopment F cco ccx cgc cdc dt .growth ccx0) cco ccx cgc cdc .cgc
      = dt := by
  obtain ⟨g0, g1⟩ := ccGrowth_range hF hA (cgc := cgc) dt hcco hccx
  have hdev : ccDevelopment F cco ccx cgc cdc dt .growth ccx0 = ccStage F cco ccx cgc dt := by
    unfold ccDevelopment
    simp only []
    rw [clipCC_of_mem g0.le (by linarith), ccGrowth_eq_stage hF hA dt hcco hccx]
  rw [hdev]
  have hE := hF.exp_pos (cgc * dt)
  unfold ccRequiredTime ccStage
  simp only []
  by_cases a : ccx / 2 < cco * F.exp (cgc * dt)
  · obtain ⟨u1, u2⟩ := ccUpper_bounds hF hA hcco hccx a
    rw [if_pos a, if_neg (not_le.mpr u1)]
    rw [neg_mul, hA.exp_neg hF]
    have e1 : 0.25 * ccx * ccx / cco /
        (ccx - (ccx - 0.25 * (ccx / cco) * ccx * (F.exp (cgc * dt))⁻¹)) = F.exp (cgc * dt) := by
      have hx : ccx ≠ 0 := hccx.ne'
      have hc : cco ≠ 0 := hcco.ne'
      have he : F.exp (cgc * dt) ≠ 0 := hE.ne'
      field_simp
      ring
    rw [e1, hL.log_exp]
    field_simp
  · rw [if_neg a, if_pos (not_lt.mp a)]
    have e1 : cco * F.exp (cgc * dt) / cco = F.exp (cgc * dt) := by
      field_simp
    rw [e1, hL.log_exp]
    field_simp

/-- The `"CDC"` mode of `cc_required_time` (never called in the repository) is **not** the
inverse of the `"Decline"` curve of `cc_development`: applied to a value of that curve it
returns `dt · 3.33·CCx/(CCx0 + 2.29)` instead of `dt` (shown for values still above 0). -/
theorem requiredTime_cdc_of_decline {F : Fn α} (hF : ExpOrdLaws F) (hL : LogExpLaws F)
    {ccx cdc ccx0 : α} (cco cgc dt : α) (hccx : ¬ ccx < 0.001) (hcdc : cdc ≠ 0)
    (hccx0 : 0 < ccx0 + 2.29) :
    ccRequiredTime F (ccDecline F ccx cdc dt ccx0) cco ccx cgc cdc .cdc
      = dt * (3.33 * ccx / (ccx0 + 2.29)) := by
  rw [not_lt] at hccx
  have hx : (0:α) < ccx := lt_of_lt_of_le (by norm_num) hccx
  have h2 : 0 < ccx + 2.29 := by linarith [show (0:α) < 2.29 by norm_num]
  unfold ccRequiredTime ccDecline
  simp only []
  rw [if_neg (not_lt.mpr hccx)]
  set A := dt * cdc * 3.33 * ((ccx + 2.29) / (ccx0 + 2.29)) / (ccx + 2.29) with hA
  have e1 : 1 + (1 - ccx * (1 - 0.05 * (F.exp A - 1)) / ccx) / 0.05 = F.exp A := by
    have : ccx ≠ 0 := hx.ne'
    field_simp
    ring
  rw [e1, hL.log_exp, hA]
  have : ccx ≠ 0 := hx.ne'
  have : ccx + 2.29 ≠ 0 := h2.ne'
  have : ccx0 + 2.29 ≠ 0 := hccx0.ne'
  field_simp

/-! ## 7. CO2 factor of the water productivity -/

/-- `fCO2old` as a function of the concentration (weighting factor substituted) -/
def fco2OldW (c ref bsted bface fsink : α) : α :=
  fco2Old c ref (fco2Weight c ref) bsted bface fsink

/-- the selected coefficient `fCO2` as a total function: what *both* copies compute wherever
they are defined. -/
def fco2Sel (F : Fn α) (c ref bsted bface fsink : α) : α :=
  if c ≤ ref then fco2OldW c ref bsted bface fsink
  else if c ≤ 550 ∧ fco2OldW c ref bsted bface fsink < fco2New F c ref fsink then
    fco2OldW c ref bsted bface fsink
  else fco2New F c ref fsink

/-- the copy in `compute_variables` is total (for ordered numbers). -/
theorem fco2InitSel_eq (F : Fn α) (c ref bsted bface fsink : α) :
    fco2InitSel F c ref bsted bface fsink = some (fco2Sel F c ref bsted bface fsink) := by
  unfold fco2InitSel fco2Sel fco2OldW
  simp only []
  by_cases h : c ≤ ref
  · rw [if_pos h, if_pos h]
  · rw [if_neg h, if_neg h, if_pos (not_le.mp h)]
    simp only []
    split_ifs <;> rfl

/-- the copy in `reset_initial_conditions` reads the unassigned `fCO2old` exactly when
`550 < CO2conc ≤ CO2ref`. -/
theorem fco2ResetSel_none {F : Fn α} {c ref : α} (bsted bface fsink : α) (h1 : 550 < c)
    (h2 : c ≤ ref) : fco2ResetSel F c ref bsted bface fsink = none := by
  unfold fco2ResetSel
  simp only []
  rw [if_pos h2, if_neg (not_le.mpr h1)]

theorem fco2ResetSel_eq (F : Fn α) {c ref : α} (bsted bface fsink : α)
    (h : ¬ (550 < c ∧ c ≤ ref)) :
    fco2ResetSel F c ref bsted bface fsink = some (fco2Sel F c ref bsted bface fsink) := by
  unfold fco2ResetSel fco2Sel fco2OldW
  simp only []
  by_cases h1 : c ≤ ref
  · have h2 : c ≤ 550 := by
      by_contra hc
      exact h ⟨not_le.mp hc, h1⟩
    rw [if_pos h1, if_pos h1, if_pos h2]
  · rw [if_neg h1, if_neg h1, if_pos (not_le.mp h1)]
    simp only []
    by_cases h2 : c ≤ 550
    · simp only [h2, if_true, true_and]
      by_cases h3 : fco2Old c ref (fco2Weight c ref) bsted bface fsink < fco2New F c ref fsink
      · simp only [h3, if_true]
      · simp only [h3, if_false]
    · rw [if_neg h2]
      simp only [h2, false_and, if_false]

theorem fco2Init_eq (F : Fn α) (c ref bsted bface fsink wp : α) :
    fco2Init F c ref bsted bface fsink wp =
      some (1 + fco2Type wp * (fco2Sel F c ref bsted bface fsink - 1)) := by
  unfold fco2Init
  rw [fco2InitSel_eq]
  rfl

/-- `fco2Init` never fails. -/
theorem fco2Init_isSome (F : Fn α) (c ref bsted bface fsink wp : α) :
    (fco2Init F c ref bsted bface fsink wp).isSome := by
  rw [fco2Init_eq]; rfl

/-- `fco2Reset` fails (`UnboundLocalError: fCO2old`) exactly when `550 < CO2conc ≤ CO2ref`. -/
theorem fco2Reset_eq_none_iff (F : Fn α) (c ref bsted bface fsink wp : α) :
    fco2Reset F c ref bsted bface fsink wp = none ↔ (550 < c ∧ c ≤ ref) := by
  unfold fco2Reset
  constructor
  · intro hn
    by_contra hc
    rw [fco2ResetSel_eq F bsted bface fsink hc] at hn
    simp at hn
  · rintro ⟨h1, h2⟩
    rw [fco2ResetSel_none bsted bface fsink h1 h2]
    rfl

/-- **the two copies agree** wherever the reset copy is defined
(i.e. unless `550 < CO2conc ≤ CO2ref`, which needs a reference concentration above 550). -/
theorem fco2Init_eq_fco2Reset (F : Fn α) {c ref : α} (bsted bface fsink wp : α)
    (h : ¬ (550 < c ∧ c ≤ ref)) :
    fco2Reset F c ref bsted bface fsink wp = fco2Init F c ref bsted bface fsink wp := by
  unfold fco2Reset fco2Init
  rw [fco2ResetSel_eq F bsted bface fsink h, fco2InitSel_eq]

/-- in particular they agree for every concentration when `CO2ref ≤ 550` (default 369.41). -/
theorem fco2Init_eq_fco2Reset_of_ref_le (F : Fn α) {ref : α} (c bsted bface fsink wp : α)
    (href : ref ≤ 550) :
    fco2Reset F c ref bsted bface fsink wp = fco2Init F c ref bsted bface fsink wp :=
  fco2Init_eq_fco2Reset F bsted bface fsink wp (fun ⟨h1, h2⟩ => by linarith)

theorem fco2Reset_some_imp {F : Fn α} {c ref bsted bface fsink wp v : α}
    (h : fco2Reset F c ref bsted bface fsink wp = some v) :
    fco2Init F c ref bsted bface fsink wp = some v := by
  by_cases hc : 550 < c ∧ c ≤ ref
  · rw [(fco2Reset_eq_none_iff F c ref bsted bface fsink wp).mpr hc] at h
    simp at h
  · rw [← fco2Init_eq_fco2Reset F bsted bface fsink wp hc]; exact h

theorem fco2OldW_at_ref {ref : α} (bsted bface fsink : α) (href : ref ≠ 0) :
    fco2OldW ref ref bsted bface fsink = 1 := by
  unfold fco2OldW fco2Old fco2Weight
  rw [if_pos (le_refl _), div_self href, sub_self, zero_mul, add_zero, div_one]

theorem fco2Sel_at_ref (F : Fn α) {ref : α} (bsted bface fsink : α) (href : ref ≠ 0) :
    fco2Sel F ref ref bsted bface fsink = 1 := by
  unfold fco2Sel
  rw [if_pos (le_refl _), fco2OldW_at_ref _ _ _ href]

/-- at the reference concentration the factor is exactly 1 (`compute_variables`). -/
theorem fco2Init_at_ref (F : Fn α) {ref : α} (bsted bface fsink wp : α) (href : ref ≠ 0) :
    fco2Init F ref ref bsted bface fsink wp = some 1 := by
  rw [fco2Init_eq, fco2Sel_at_ref F _ _ _ href]
  simp

/-- at the reference concentration the factor is exactly 1 (`reset_initial_conditions`);
needs `CO2ref ≤ 550`, otherwise this copy raises. -/
theorem fco2Reset_at_ref (F : Fn α) {ref : α} (bsted bface fsink wp : α) (href : ref ≠ 0)
    (h550 : ref ≤ 550) : fco2Reset F ref ref bsted bface fsink wp = some 1 := by
  rw [fco2Init_eq_fco2Reset_of_ref_le F ref bsted bface fsink wp h550]
  exact fco2Init_at_ref F bsted bface fsink wp href

theorem fco2Type_range (wp : α) : 0 ≤ fco2Type wp ∧ fco2Type wp ≤ 1 := by
  unfold fco2Type
  split_ifs with h1 h2
  · exact ⟨le_refl _, zero_le_one⟩
  · exact ⟨zero_le_one, le_refl _⟩
  · rw [not_le] at h1 h2
    have h20 : (40 - 20 : α) = 20 := by norm_num
    rw [h20]
    constructor
    · apply div_nonneg <;> linarith
    · rw [div_le_one (by norm_num)]; linarith

/-- the shape factor of the new CO2 curve is negative for every sink strength -/
theorem fco2Shape_neg (fsink : α) : fco2Shape fsink < 0 := by
  unfold fco2Shape
  nlinarith [sq_nonneg (fsink + 0.3228)]

/-- the weighting factor is a clamp of `(c − ref)/(550 − ref)` to `[0,1]` -/
theorem fco2Weight_range {ref : α} (c : α) (href : ref < 550) :
    0 ≤ fco2Weight c ref ∧ fco2Weight c ref ≤ 1 := by
  unfold fco2Weight
  split_ifs with h1 h2
  · exact ⟨le_refl _, zero_le_one⟩
  · exact ⟨zero_le_one, le_refl _⟩
  · rw [not_le] at h1 h2
    have hW : 0 < 550 - ref := by linarith
    have a : 0 ≤ (550 - c) / (550 - ref) := div_nonneg (by linarith) hW.le
    have b : (550 - c) / (550 - ref) ≤ 1 := by rw [div_le_one hW]; linarith
    constructor <;> linarith

theorem fco2Weight_mid {c ref : α} (href : ref < 550) :
    1 - (550 - c) / (550 - ref) = (c - ref) / (550 - ref) := by
  have hW : (550 - ref) ≠ 0 := by intro h; linarith
  field_simp
  ring

/-- the weighting factor is non-decreasing and `1/(550 − ref)`-Lipschitz in the concentration -/
theorem fco2Weight_lip {c c' ref : α} (href : ref < 550) (h : c ≤ c') :
    fco2Weight c ref ≤ fco2Weight c' ref ∧
      (fco2Weight c' ref - fco2Weight c ref) * (550 - ref) ≤ c' - c := by
  have hW : 0 < 550 - ref := by linarith
  have hWne : (550 - ref) ≠ 0 := hW.ne'
  unfold fco2Weight
  by_cases a1 : c ≤ ref
  · rw [if_pos a1]
    by_cases b1 : c' ≤ ref
    · rw [if_pos b1]; constructor <;> linarith
    · rw [if_neg b1]
      by_cases b2 : 550 ≤ c'
      · rw [if_pos b2]; constructor <;> linarith
      · rw [if_neg b2, fco2Weight_mid href]
        rw [not_le] at b1 b2
        constructor
        · exact div_nonneg (by linarith) hW.le
        · rw [sub_zero, div_mul_cancel₀ _ hWne]; linarith
  · rw [if_neg a1]
    have b1 : ¬ c' ≤ ref := fun hc => a1 (le_trans h hc)
    rw [if_neg b1]
    by_cases a2 : 550 ≤ c
    · rw [if_pos a2, if_pos (le_trans a2 h)]
      constructor <;> linarith
    · rw [if_neg a2, fco2Weight_mid href]
      rw [not_le] at a1 a2
      by_cases b2 : 550 ≤ c'
      · rw [if_pos b2]
        constructor
        · rw [div_le_one hW]; linarith
        · rw [sub_mul, div_mul_cancel₀ _ hWne]; linarith
      · rw [if_neg b2, fco2Weight_mid href]
        constructor
        · exact div_le_div_of_nonneg_right (by linarith) hW.le
        · rw [sub_mul, div_mul_cancel₀ _ hWne, div_mul_cancel₀ _ hWne]; linarith

/-- premises on the CO2 parameters under which `fCO2old` is increasing on `[0, 550]`:
`g = bsted·fsink + bface·(1 − fsink)` is the FACE-weighted coefficient. -/
structure CO2Params (ref bsted bface fsink : α) : Prop where
  ref_pos : 0 < ref
  ref_lt : ref < 550
  bsted_nn : 0 ≤ bsted
  g_ge : bsted ≤ bsted * fsink + bface * (1 - fsink)
  small : ref * (bsted * fsink + bface * (1 - fsink)) +
    550 * (bsted * fsink + bface * (1 - fsink) - bsted) < 1

/-- denominator of `fCO2old` -/
def fco2Den (c ref bsted bface fsink : α) : α :=
  1 + (c - ref) * ((1 - fco2Weight c ref) * bsted +
    fco2Weight c ref * ((bsted * fsink) + (bface * (1 - fsink))))

theorem fco2OldW_eq (c ref bsted bface fsink : α) :
    fco2OldW c ref bsted bface fsink = (c / ref) / fco2Den c ref bsted bface fsink := rfl

theorem fco2Den_pos {c ref bsted bface fsink : α} (hp : CO2Params ref bsted bface fsink)
    (hc : 0 ≤ c) : 0 < fco2Den c ref bsted bface fsink := by
  obtain ⟨hr0, hr, hb, hg, hs⟩ := hp
  obtain ⟨w0, w1⟩ := fco2Weight_range c hr
  unfold fco2Den
  set g := bsted * fsink + bface * (1 - fsink)
  set w := fco2Weight c ref with hw
  have hm0 : 0 ≤ (1 - w) * bsted + w * g := by
    have : 0 ≤ g := le_trans hb hg
    have := mul_nonneg (sub_nonneg.mpr w1) hb
    have := mul_nonneg w0 ‹0 ≤ g›
    linarith
  by_cases h : c ≤ ref
  · have : w = 0 := by rw [hw]; unfold fco2Weight; rw [if_pos h]
    rw [this]
    have h1 : ref * bsted ≤ ref * g := mul_le_mul_of_nonneg_left hg hr0.le
    have h2 : 0 ≤ 550 * (g - bsted) := by nlinarith
    have h3 : 0 ≤ c * bsted := mul_nonneg hc hb
    nlinarith
  · rw [not_le] at h
    have : 0 ≤ (c - ref) * ((1 - w) * bsted + w * g) := mul_nonneg (by linarith) hm0
    linarith

/-- `fCO2old` is non-decreasing in the concentration on `[0, 550]`. -/
theorem fco2OldW_mono {c c' ref bsted bface fsink : α} (hp : CO2Params ref bsted bface fsink)
    (hc : 0 ≤ c) (h : c ≤ c') (h550 : c' ≤ 550) :
    fco2OldW c ref bsted bface fsink ≤ fco2OldW c' ref bsted bface fsink := by
  have hD := fco2Den_pos hp hc
  have hD' := fco2Den_pos hp (le_trans hc h)
  obtain ⟨hr0, hr, hb, hg, hs⟩ := hp
  obtain ⟨w0, w1⟩ := fco2Weight_range c hr
  obtain ⟨w0', w1'⟩ := fco2Weight_range c' hr
  obtain ⟨wm, wl⟩ := fco2Weight_lip hr h
  rw [fco2OldW_eq, fco2OldW_eq, div_le_div_iff₀ hD hD']
  unfold fco2Den at hD hD' ⊢
  set g := bsted * fsink + bface * (1 - fsink)
  set w := fco2Weight c ref
  set w' := fco2Weight c' ref
  have hW : 0 < 550 - ref := by linarith
  -- (c' − ref)·(w' − w) ≤ c' − c
  have hdw : 0 ≤ w' - w := sub_nonneg.mpr wm
  have k1 : (c' - ref) * (w' - w) ≤ c' - c := by
    by_cases hcr : c' ≤ ref
    · have : (c' - ref) * (w' - w) ≤ 0 :=
        mul_nonpos_of_nonpos_of_nonneg (by linarith) hdw
      linarith
    · rw [not_le] at hcr
      have : (c' - ref) * (w' - w) ≤ (550 - ref) * (w' - w) :=
        mul_le_mul_of_nonneg_right (by linarith) hdw
      linarith [mul_comm (w' - w) (550 - ref)]
  have hgb : 0 ≤ g - bsted := sub_nonneg.mpr hg
  -- c·(g − b)·((c' − ref)(w' − w)) ≤ 550·(g − b)·(c' − c)
  have k2 : c * (g - bsted) * ((c' - ref) * (w' - w)) ≤ 550 * (g - bsted) * (c' - c) := by
    have hcle : c ≤ 550 := le_trans h h550
    by_cases hneg : (c' - ref) * (w' - w) ≤ 0
    · have : c * (g - bsted) * ((c' - ref) * (w' - w)) ≤ 0 :=
        mul_nonpos_of_nonneg_of_nonpos (mul_nonneg hc hgb) hneg
      have : 0 ≤ 550 * (g - bsted) * (c' - c) := by
        apply mul_nonneg (mul_nonneg (by norm_num) hgb); linarith
      linarith
    · rw [not_le] at hneg
      calc c * (g - bsted) * ((c' - ref) * (w' - w))
          ≤ 550 * (g - bsted) * ((c' - ref) * (w' - w)) :=
            mul_le_mul_of_nonneg_right (mul_le_mul_of_nonneg_right hcle hgb) hneg.le
        _ ≤ 550 * (g - bsted) * (c' - c) :=
            mul_le_mul_of_nonneg_left k1 (mul_nonneg (by norm_num) hgb)
  -- m = (1 − w)·b + w·g ≤ g
  have hm : (1 - w) * bsted + w * g ≤ g := by nlinarith
  have hrm : ref * ((1 - w) * bsted + w * g) ≤ ref * g := mul_le_mul_of_nonneg_left hm hr0.le
  have key : c' / ref * (1 + (c - ref) * ((1 - w) * bsted + w * g)) -
      c / ref * (1 + (c' - ref) * ((1 - w') * bsted + w' * g)) =
      ((c' - c) * (1 - ref * ((1 - w) * bsted + w * g)) -
        c * (g - bsted) * ((c' - ref) * (w' - w))) / ref := by
    have : ref ≠ 0 := hr0.ne'
    field_simp
    ring
  have hnum : 0 ≤ (c' - c) * (1 - ref * ((1 - w) * bsted + w * g)) -
      c * (g - bsted) * ((c' - ref) * (w' - w)) := by
    have hΔ : 0 ≤ c' - c := sub_nonneg.mpr h
    have : (c' - c) * (1 - ref * g) ≤ (c' - c) * (1 - ref * ((1 - w) * bsted + w * g)) :=
      mul_le_mul_of_nonneg_left (by linarith) hΔ
    have : 0 ≤ (c' - c) * (1 - ref * g - 550 * (g - bsted)) :=
      mul_nonneg hΔ (by linarith)
    nlinarith
  have := div_nonneg hnum hr0.le
  rw [← key] at this
  linarith

theorem fco2New_ge_one {F : Fn α} (hF : ExpOrdLaws F) {c ref : α} (fsink : α) (hcr : ref ≤ c)
    (href : ref < 2000) : 1 ≤ fco2New F c ref fsink := by
  unfold fco2New
  simp only []
  split_ifs with h1
  · norm_num
  · rw [not_le] at h1
    have hW : 0 < 2000 - ref := by linarith
    have hrel0 : 0 ≤ (c - ref) / (2000 - ref) := div_nonneg (by linarith) hW.le
    have hrel1 : (c - ref) / (2000 - ref) ≤ 1 := by rw [div_le_one hW]; linarith
    have := (expRatio_range hF (fco2Shape_neg fsink).ne hrel0 hrel1).1
    unfold expRatio at this
    nlinarith

/-- the version-7 curve `fCO2new` is non-decreasing in the concentration (it is the same
`expRatio` shape as the water-stress curves, with a negative shape factor, capped at 1.58). -/
theorem fco2New_mono {F : Fn α} (hF : ExpOrdLaws F) {c c' ref : α} (fsink : α) (hcr : ref ≤ c)
    (href : ref < 2000) (h : c ≤ c') : fco2New F c ref fsink ≤ fco2New F c' ref fsink := by
  unfold fco2New
  simp only []
  have hW : 0 < 2000 - ref := by linarith
  have hs := (fco2Shape_neg fsink).ne
  by_cases a : 2000 ≤ c
  · rw [if_pos a, if_pos (le_trans a h)]
  · rw [if_neg a]
    rw [not_le] at a
    have hrel0 : 0 ≤ (c - ref) / (2000 - ref) := div_nonneg (by linarith) hW.le
    have hrel1 : (c - ref) / (2000 - ref) ≤ 1 := by rw [div_le_one hW]; linarith
    by_cases a' : 2000 ≤ c'
    · rw [if_pos a']
      have := (expRatio_range hF hs hrel0 hrel1).2
      unfold expRatio at this
      have e : (1.58 : α) = 1 + 0.58 * 1 := by norm_num
      rw [e]
      nlinarith
    · rw [if_neg a']
      have hrel : (c - ref) / (2000 - ref) ≤ (c' - ref) / (2000 - ref) :=
        div_le_div_of_nonneg_right (by linarith) hW.le
      have := expRatio_mono hF hs hrel
      unfold expRatio at this
      nlinarith

/-- the selected coefficient never exceeds `fCO2new` above the reference, and never exceeds
`fCO2old` up to 550 ppm (it is their minimum there). -/
theorem fco2Sel_le {F : Fn α} {c ref : α} (bsted bface fsink : α) (h : ref < c) :
    fco2Sel F c ref bsted bface fsink ≤ fco2New F c ref fsink ∧
      (c ≤ 550 → fco2Sel F c ref bsted bface fsink ≤ fco2OldW c ref bsted bface fsink) := by
  unfold fco2Sel
  rw [if_neg (not_le.mpr h)]
  split_ifs with h2
  · exact ⟨h2.2.le, fun _ => le_refl _⟩
  · refine ⟨le_refl _, fun h5 => ?_⟩
    by_contra hc
    exact h2 ⟨h5, not_le.mp hc⟩

/-- **monotonicity of the selected CO2 coefficient** in the concentration, over the whole
range `0 ≤ c ≤ c'` (all regimes and their junctions). -/
theorem fco2Sel_mono {F : Fn α} (hF : ExpOrdLaws F) {c c' ref bsted bface fsink : α}
    (hp : CO2Params ref bsted bface fsink) (hc : 0 ≤ c) (h : c ≤ c') :
    fco2Sel F c ref bsted bface fsink ≤ fco2Sel F c' ref bsted bface fsink := by
  have hr0 := hp.ref_pos
  have hr := hp.ref_lt
  have hr2 : ref < 2000 := by linarith
  by_cases a : c ≤ ref
  · -- below the reference: fCO2old, which is ≤ 1 there
    have hle1 : fco2Sel F c ref bsted bface fsink ≤ 1 := by
      unfold fco2Sel
      rw [if_pos a, ← fco2OldW_at_ref bsted bface fsink hr0.ne']
      exact fco2OldW_mono hp hc a hr.le
    by_cases a' : c' ≤ ref
    · unfold fco2Sel
      rw [if_pos a, if_pos a']
      exact fco2OldW_mono hp hc h (le_trans a' hr.le)
    · rw [not_le] at a'
      have h1 : 1 ≤ fco2Sel F c' ref bsted bface fsink := by
        unfold fco2Sel
        rw [if_neg (not_le.mpr a')]
        split_ifs with h2
        · rw [← fco2OldW_at_ref bsted bface fsink hr0.ne']
          exact fco2OldW_mono hp hr0.le a'.le h2.1
        · exact fco2New_ge_one hF fsink a'.le hr2
      linarith
  · rw [not_le] at a
    have a' : ref < c' := lt_of_lt_of_le a h
    obtain ⟨s1, s2⟩ := fco2Sel_le (F := F) bsted bface fsink a
    have hnew := fco2New_mono hF fsink a.le hr2 h
    show fco2Sel F c ref bsted bface fsink ≤ fco2Sel F c' ref bsted bface fsink
    conv_rhs => unfold fco2Sel
    rw [if_neg (not_le.mpr a')]
    split_ifs with h2
    · have hc550 : c ≤ 550 := le_trans h h2.1
      exact le_trans (s2 hc550) (fco2OldW_mono hp hc h h2.1)
    · exact le_trans s1 hnew

/-- **`crop.fCO2` is non-decreasing in the CO2 concentration** (`compute_variables` copy;
by `fco2Init_eq_fco2Reset` also the reset copy wherever it is defined). -/
theorem fco2Init_mono {F : Fn α} (hF : ExpOrdLaws F) {c c' ref bsted bface fsink : α} (wp : α)
    (hp : CO2Params ref bsted bface fsink) (hc : 0 ≤ c) (h : c ≤ c') :
    ∃ v v', fco2Init F c ref bsted bface fsink wp = some v ∧
      fco2Init F c' ref bsted bface fsink wp = some v' ∧ v ≤ v' := by
  refine ⟨_, _, fco2Init_eq F c ref bsted bface fsink wp,
    fco2Init_eq F c' ref bsted bface fsink wp, ?_⟩
  have := fco2Sel_mono hF hp hc h
  have := mul_le_mul_of_nonneg_left (sub_le_sub_right this 1) (fco2Type_range wp).1
  linarith

theorem fco2Reset_mono {F : Fn α} (hF : ExpOrdLaws F) {c c' ref bsted bface fsink : α} (wp : α)
    (hp : CO2Params ref bsted bface fsink) (hc : 0 ≤ c) (h : c ≤ c') :
    ∃ v v', fco2Reset F c ref bsted bface fsink wp = some v ∧
      fco2Reset F c' ref bsted bface fsink wp = some v' ∧ v ≤ v' := by
  rw [fco2Init_eq_fco2Reset_of_ref_le F c bsted bface fsink wp hp.ref_lt.le,
    fco2Init_eq_fco2Reset_of_ref_le F c' bsted bface fsink wp hp.ref_lt.le]
  exact fco2Init_mono hF wp hp hc h

/-- non-vacuity: the repository's default parameters (`ref_concentration = 369.41`,
`bsted = 0.000138`, `bface = 0.001165`) satisfy `CO2Params` for the catalogue's `fsink = 0.5`
and even for the extreme `fsink = 0` (margin 0.005). -/
example : CO2Params (369.41 : α) 0.000138 0.001165 0.5 :=
  ⟨by norm_num, by norm_num, by norm_num, by norm_num, by norm_num⟩
example : CO2Params (369.41 : α) 0.000138 0.001165 0 :=
  ⟨by norm_num, by norm_num, by norm_num, by norm_num, by norm_num⟩

/-- the factor lies in `[1, 1.58]` above the reference … and the total adjustment too
(`ftype ∈ [0,1]`). -/
theorem fco2Sel_ge_one_of_ref_le {F : Fn α} (hF : ExpOrdLaws F) {c ref bsted bface fsink : α}
    (hp : CO2Params ref bsted bface fsink) (h : ref ≤ c) :
    1 ≤ fco2Sel F c ref bsted bface fsink := by
  rw [← fco2Sel_at_ref F bsted bface fsink hp.ref_pos.ne']
  exact fco2Sel_mono hF hp hp.ref_pos.le h

end Aqua
