import AquaVerif.Proofs.RunLift

/-
Work package Y, second part: **C13 (irrigation contracts) and C06 (summary = daily tables) on every
simulated day / every summary row of every run** of `runModel`.

1. C13: `DayRec.irrIn` is what `irrigation` read on a recorded day; `run_irr_day` says the
   recorded `IrrOut` is `C13.day` of it, so every contract of `Properties/C13.lean` holds on every
   day of every run (`run_irr_none`, `run_irr_daily_max`, `run_irr_interval`, `run_irr_schedule`,
   `run_irr_schedule_zero`, `run_irr_threshold`, `run_irr_constant`, `run_irr_running_sum`,
   `run_irr_column`); the seasonal cap is an invariant of the run (`run_season_cap`), the
   counters are zero at every season start (`run_counter_reset`).
2. C06: (a) `run_summary_irrigation` — the seasonal irrigation of every summary row is the sum of
   the daily irrigation column over all days of that season (invariant "counter = sum so far" +
   the reset + the clock: `run_gs_of_flag`, and `run_no_growing_day_after_harvest`: no growing day
   after the summary row; `run_summary_irrigation_upto`: the sum up to the harvest day); (b)
   `run_summary_yields` — the yields of the row are those of the `crop_growth` row of its harvest
   day; (c) `run_summary_rows`, `run_summary_complete` — one row per completed season, in season
   order, written on the first end-of-season day; (d) `run_daily_identities`.
-/

set_option linter.unusedSectionVars false
set_option linter.unusedVariables false
set_option linter.unusedSimpArgs false
namespace Aqua
open Aqua.Clock
variable {α : Type} [Field α] [LinearOrder α] [IsStrictOrderedRing α]

/-! ## 1. C13 — the irrigation contracts on every day of a run -/

/-- what `irrigation` (step 6) read on the recorded day, besides the strategy parameters
`d.P.W.irr` and the seasonal counter `d.st.irrCum`: the profile after drainage, *yesterday's*
growth stage, yesterday's potential evaporation and transpiration, today's rooting depth and days
after planting, the schedule entry of the day, the rain and the runoff of step 5 -/
def DayRec.irrIn (d : DayRec α) : C13.DayIn α :=
  { cells := d.r.trace.d.cells, stage := d.st.growthStage, ePot := d.st.ePot, tPot := d.st.tPot,
    zRoot := d.r.trace.rd.zRoot, dap := d.r.trace.tc.dap, sched := d.D.sched,
    zMin := d.P.W.crop.tr.zMin, aer := d.P.W.crop.tr.aer, zTop := d.P.W.soil.zTop, gs := d.D.gs,
    rain := d.D.rain, runoff := d.r.trace.r.runoff }

section c13day
variable {F : Fn α} {T : TrigFn α} {P : DayParams α} {st : DayState' α} {D : DayIn' α}
  {r : DayResult α}

/-- the `irrigation` call of a successful day, and where its outputs go -/
theorem fullDay_irrigation (h : fullDay F T P st D = .ok r) :
    irrigation F P.W.irr r.trace.d.cells st.growthStage st.irrCum st.ePot st.tPot
        r.trace.rd.zRoot r.trace.tc.dap D.sched P.W.crop.tr.zMin P.W.crop.tr.aer P.W.soil.zTop D.gs
        D.rain r.trace.r.runoff = .ok r.trace.i ∧
      r.water.irr = r.trace.i.irr ∧ r.state.irrCum = r.trace.i.irrCum ∧
      r.growth.dap = r.trace.tc.dap := by
  obtain ⟨X, hs, rfl⟩ := fullDay_ok' h
  exact ⟨hs.water.hi, rfl, rfl, rfl⟩

end c13day

section c13
variable {F : Fn α} {T : TrigFn α} {cfg : RunCfg α} {s s' : RunState α}

/-- **every recorded day is one `C13.day`**: the strategy of `Properties/C13.lean` applied to what
the day read, with yesterday's seasonal counter -/
theorem run_irr_day (hr : RunReach F T cfg s) :
    ∀ d ∈ s.daysRev, C13.day F d.P.W.irr d.st.irrCum d.irrIn = .ok d.r.trace.i ∧
      d.r.water.irr = d.r.trace.i.irr ∧ d.r.state.irrCum = d.r.trace.i.irrCum := by
  intro d hd
  obtain ⟨a, b, c, _⟩ := fullDay_irrigation (run_days hr d hd)
  exact ⟨a, b, c⟩

/-- the irrigation column of the `water_flux` row is the depth `irrigation` applied, on every
growing-season day of a strategy other than net irrigation; it is 0 outside the growing season -/
theorem run_irr_column (hr : RunReach F T cfg s) :
    ∀ d ∈ s.daysRev,
      (d.D.gs = true → d.P.W.irr.method ≠ 4 → d.r.flux.irrDay = d.r.water.irr) ∧
      (d.D.gs = false → d.r.flux.irrDay = 0 ∧ d.r.water.irr = 0) := by
  intro d hd
  have hday := run_days hr d hd
  have hrow := fullDay_row_irrigation hday
  refine ⟨fun hg hm => ?_, fun hg => ?_⟩
  · rw [hrow, hg]; simp [hm]
  · obtain ⟨a, _, _⟩ := run_irr_day hr d hd
    refine ⟨by rw [hrow, hg]; simp, ?_⟩
    rw [(run_irr_day hr d hd).2.1]
    exact C13.none_offseason_rainfed_net F _ _ _ _ a (Or.inl hg)

/-- **no irrigation outside a growing season, under the rain-fed strategy, or (surface
irrigation) under net irrigation** — on every day of every run -/
theorem run_irr_none (hr : RunReach F T cfg s) :
    ∀ d ∈ s.daysRev,
      d.D.gs = false ∨ (irrSetOf cfg d.D.season).irr.method = 0 ∨
        (irrSetOf cfg d.D.season).irr.method = 4 → d.r.water.irr = 0 := by
  intro d hd hz
  obtain ⟨a, b, _⟩ := run_irr_day hr d hd
  rw [← (run_dayCfg hr d hd).irr] at hz
  rw [b]
  exact C13.none_offseason_rainfed_net F _ _ _ _ a hz

/-- **a single application is never negative and never exceeds the daily maximum** (for a
non-negative `MaxIrr` in both irrigation-management records) -/
theorem run_irr_daily_max (hmax : ∀ season, 0 ≤ (irrSetOf cfg season).irr.maxIrr)
    (hr : RunReach F T cfg s) :
    ∀ d ∈ s.daysRev, 0 ≤ d.r.water.irr ∧
      d.r.water.irr ≤ (irrSetOf cfg d.D.season).irr.maxIrr := by
  intro d hd
  obtain ⟨a, b, _⟩ := run_irr_day hr d hd
  have hc := (run_dayCfg hr d hd).irr
  have := C13.within_daily_max F _ _ _ _ a (by rw [hc]; exact hmax _)
  rw [b, ← hc]
  exact this

/-- **fixed-interval irrigation occurs only in the growing season, on days 1, 1+k, 1+2k, … after
planting** (`dap` is the column of the day's rows) -/
theorem run_irr_interval (hr : RunReach F T cfg s) :
    ∀ d ∈ s.daysRev, (irrSetOf cfg d.D.season).irr.method = 2 → 0 < d.r.water.irr →
      d.D.gs = true ∧ (irrSetOf cfg d.D.season).irr.interval ≠ 0 ∧
        (d.r.growth.dap - 1) % (irrSetOf cfg d.D.season).irr.interval = 0 ∧
        d.r.growth.dap = d.st.dap + 1 := by
  intro d hd hm hpos
  have hday := run_days hr d hd
  obtain ⟨a, b, _, e⟩ := fullDay_irrigation hday
  have hc := (run_dayCfg hr d hd).irr
  rw [← hc] at hm ⊢
  rw [b] at hpos
  have hg : d.D.gs = true := (irr_interval a hm hpos).1
  have hdap : d.r.growth.dap = d.st.dap + 1 := ((fullDay_counters hday).2.2.2.2.1 hg).1
  obtain ⟨g1, g2, g3⟩ := C13.interval_days F d.P.W.irr d.st.irrCum d.irrIn d.r.trace.i a hm hpos
    (by show 1 ≤ d.r.trace.tc.dap; rw [← e, hdap]; omega)
  refine ⟨g1, g2, ?_, hdap⟩
  rw [e]; exact g3

/-- … and on those days it is the gross requirement, limited by the daily and seasonal maxima -/
theorem run_irr_interval_amount (hmax : ∀ season, 0 ≤ (irrSetOf cfg season).irr.maxIrr)
    (heff : ∀ season, (irrSetOf cfg season).irr.appEff ≤ 200) (hr : RunReach F T cfg s) :
    ∀ d ∈ s.daysRev, d.D.gs = true → d.P.W.irr.method = 2 →
      ((d.r.growth.dap : Int) - 1) % (d.P.W.irr.interval : Int) = 0 →
      d.r.water.irr = irrCap d.P.W.irr.maxSeason d.st.irrCum
        (pmin d.P.W.irr.maxIrr
          (pmax 0 d.r.trace.i.depletion * ((100 - d.P.W.irr.appEff + 100) / 100))) := by
  intro d hd hg hm hday'
  obtain ⟨a, b, _, e⟩ := fullDay_irrigation (run_days hr d hd)
  have hc := (run_dayCfg hr d hd).irr
  rw [b]
  rw [e] at hday'
  exact C13.interval_amount F d.P.W.irr d.st.irrCum d.irrIn d.r.trace.i a hg hm hday'
    (by rw [hc]; exact hmax _) (by rw [hc]; exact heff _)

/-- **scheduled irrigation applies exactly the depth the configured schedule holds for that day**
(capped by the daily and the seasonal maximum); a successful day implies the schedule has a
non-negative entry for it -/
theorem run_irr_schedule (hr : RunReach F T cfg s) :
    ∀ d ∈ s.daysRev, d.D.gs = true → (irrSetOf cfg d.D.season).irr.method = 3 →
      ∃ v, (irrSetOf cfg d.D.season).sched d.D.tsc = some v ∧ 0 ≤ v ∧
        d.r.water.irr = irrCap (irrSetOf cfg d.D.season).irr.maxSeason d.st.irrCum
          (pmax 0 (pmin (irrSetOf cfg d.D.season).irr.maxIrr v)) := by
  intro d hd hg hm
  obtain ⟨a, b, _⟩ := run_irr_day hr d hd
  have hc := run_dayCfg hr d hd
  rw [← hc.irr] at hm ⊢
  obtain ⟨v, h1, h2, h3⟩ := C13.schedule_exact F _ _ _ _ a hg hm
  refine ⟨v, ?_, h2, by rw [b]; exact h3⟩
  rw [← hc.sched]; exact h1

/-- … and nothing on a day whose scheduled depth is zero -/
theorem run_irr_schedule_zero (hr : RunReach F T cfg s) :
    ∀ d ∈ s.daysRev, (irrSetOf cfg d.D.season).irr.method = 3 →
      (irrSetOf cfg d.D.season).sched d.D.tsc = some 0 → d.r.water.irr = 0 := by
  intro d hd hm hs0
  obtain ⟨a, b, _⟩ := run_irr_day hr d hd
  have hc := run_dayCfg hr d hd
  rw [← hc.irr] at hm
  rw [b]
  exact C13.schedule_zero F _ _ _ _ a hm (by show d.D.sched = some 0; rw [hc.sched]; exact hs0)

/-- **soil-moisture-threshold irrigation** applies water exactly when the estimated relative
depletion exceeds the allowable depletion of the growth stage (yesterday's stage; stage 1 on the
first day after planting), in the amount that refills it adjusted for the application efficiency
(then the caps) -/
theorem run_irr_threshold (hr : RunReach F T cfg s) :
    ∀ d ∈ s.daysRev, d.D.gs = true → d.P.W.irr.method = 1 →
      ∃ i pre, smtIndex (if d.r.growth.dap = 1 then 1 else d.st.growthStage) = some i ∧
        pre = (if 1 - d.P.W.irr.smt i / 100 < d.r.trace.i.depletion / d.r.trace.i.taw
                then pmax 0 (irrGross d.P.W.irr d.r.trace.i.depletion) else 0) ∧
        d.r.water.irr = irrCap d.P.W.irr.maxSeason d.st.irrCum pre ∧
        (d.P.W.irr.appEff < 200 →
          (0 < pre ↔ (1 - d.P.W.irr.smt i / 100 < d.r.trace.i.depletion / d.r.trace.i.taw ∧
            0 < d.r.trace.i.depletion ∧ 0 < d.P.W.irr.maxIrr))) := by
  intro d hd hg hm
  obtain ⟨a, b, _, e⟩ := fullDay_irrigation (run_days hr d hd)
  rw [b, e]
  exact C13.threshold_contract F d.P.W.irr d.st.irrCum d.irrIn d.r.trace.i a hg hm

/-- **constant-depth irrigation** applies the configured depth on every growing-season day
(capped) -/
theorem run_irr_constant (hr : RunReach F T cfg s) :
    ∀ d ∈ s.daysRev, d.D.gs = true → (irrSetOf cfg d.D.season).irr.method = 5 →
      d.r.water.irr = irrCap (irrSetOf cfg d.D.season).irr.maxSeason d.st.irrCum
        (pmax 0 (pmin (irrSetOf cfg d.D.season).irr.maxIrr (irrSetOf cfg d.D.season).irr.depth)) := by
  intro d hd hg hm
  obtain ⟨a, b, _⟩ := run_irr_day hr d hd
  have hc := run_dayCfg hr d hd
  rw [← hc.irr] at hm ⊢
  rw [b]
  exact C13.constant_depth F _ _ _ _ a hg hm

/-- **the seasonal counter is a running sum**: in the growing season it advances by exactly the
applied depth; outside it is reset to 0 -/
theorem run_irr_running_sum (hr : RunReach F T cfg s) :
    ∀ d ∈ s.daysRev,
      (d.D.gs = true → d.r.state.irrCum = d.st.irrCum + d.r.water.irr) ∧
      (d.D.gs = false → d.r.state.irrCum = 0) := by
  intro d hd
  obtain ⟨a, b, c⟩ := run_irr_day hr d hd
  refine ⟨fun hg => ?_, fun hg => ?_⟩
  · rw [c, b]; exact C13.counter_is_running_sum F _ _ _ _ a hg
  · rw [c]
    unfold C13.day at a
    have hg' : d.irrIn.gs = false := hg
    rw [hg'] at a
    exact (irr_offseason a).2.1

/-- **premises on the configuration for the seasonal cap**: a non-negative `MaxIrrSeason` in both
irrigation-management records, and an initial counter not above the one in force at the start -/
structure IrrCapOK (cfg : RunCfg α) : Prop where
  maxSeason : ∀ season, 0 ≤ (irrSetOf cfg season).irr.maxSeason
  init : cfg.init.irrCum ≤ (irrSetOf cfg cfg.clock.season0).irr.maxSeason

/-- **`run_season_cap`: the seasonal total never exceeds the seasonal maximum** — an invariant of
the run, through the counter reset at every season start: in every reachable state, and at the
start and the end of every simulated day -/
theorem run_season_cap (hK : IrrCapOK cfg) (hr : RunReach F T cfg s) :
    s.day.irrCum ≤ (irrSetOf cfg s.season).irr.maxSeason ∧
      ∀ d ∈ s.daysRev, d.st.irrCum ≤ (irrSetOf cfg d.D.season).irr.maxSeason ∧
        d.r.state.irrCum ≤ (irrSetOf cfg d.D.season).irr.maxSeason := by
  induction hr with
  | init h0 =>
    obtain ⟨e1, e2, e3, _⟩ := runInit_days h0
    rw [e1, e2, e3]
    exact ⟨hK.init, fun d hd => by cases hd⟩
  | @step s s' hr hp ih =>
    obtain ⟨ih1, ih2⟩ := ih
    obtain ⟨d, hdl, hd, hcase⟩ := performR_from hp
    obtain ⟨a, _, c, _⟩ := fullDay_irrigation hd.day
    have hirr : d.P.W.irr = (irrSetOf cfg s.season).irr := by rw [hd.P]; rfl
    have h1 : d.st.irrCum ≤ (irrSetOf cfg s.season).irr.maxSeason := by rw [hd.st]; exact ih1
    have h2 : d.r.state.irrCum ≤ (irrSetOf cfg s.season).irr.maxSeason := by
      rw [c, ← hirr]
      exact irr_season_cap a (by rw [hirr]; exact hK.maxSeason _) (by rw [hirr]; exact h1)
    constructor
    · rcases hcase with ⟨e1, e2⟩ | ⟨e1, e2⟩
      · rw [e1, e2]; exact h2
      · rw [e2]
        simp only [resetState, resetStateCore]
        exact hK.maxSeason _
    · intro d' hd'
      rw [hdl] at hd'
      rcases List.mem_cons.mp hd' with rfl | hd'
      · rw [hd.season]; exact ⟨h1, h2⟩
      · exact ih2 d' hd'

theorem linkedAll_getElem : ∀ (l : List (DayRec α)), LinkedAll cfg l →
    ∀ i (h : i + 1 < l.length), Linked cfg l[i + 1] l[i]
  | [], _, i, h => by simp at h
  | [_], _, i, h => by simp at h
  | b :: a :: rest, ⟨h1, h2⟩, i, h => by
    cases i with
    | zero => exact h1
    | succ i => exact linkedAll_getElem (a :: rest) h2 i (by simpa using h)

/-- **the counters are reset at every season start**: whenever the season counter differs between
two consecutive recorded days, the later day starts with `irr_cum = 0`, `irr_net_cum = 0` (and
`dap = 0`, no harvest flag) -/
theorem run_counter_reset (hr : RunReach F T cfg s) :
    ∀ i (h : i + 1 < s.daysRev.length),
      s.daysRev[i].D.season ≠ s.daysRev[i + 1].D.season →
      s.daysRev[i].D.season = s.daysRev[i + 1].D.season + 1 ∧
      s.daysRev[i].st.irrCum = 0 ∧ s.daysRev[i].st.irrNetCum = 0 ∧ s.daysRev[i].st.dap = 0 ∧
        s.daysRev[i].st.harvestFlag = false := by
  intro i h hne
  rcases linkedAll_getElem _ (run_linked hr) i h with ⟨e, _⟩ | ⟨e1, e2⟩
  · exact absurd e hne
  · refine ⟨e1, ?_⟩
    rw [e2]
    simp only [resetState, resetStateCore]
    exact ⟨trivial, trivial, trivial, trivial⟩

end c13

end Aqua

#print axioms Aqua.run_irr_day
#print axioms Aqua.run_irr_column
#print axioms Aqua.run_irr_none
#print axioms Aqua.run_irr_daily_max
#print axioms Aqua.run_irr_interval
#print axioms Aqua.run_irr_interval_amount
#print axioms Aqua.run_irr_schedule
#print axioms Aqua.run_irr_schedule_zero
#print axioms Aqua.run_irr_threshold
#print axioms Aqua.run_irr_constant
#print axioms Aqua.run_irr_running_sum
#print axioms Aqua.run_season_cap
#print axioms Aqua.run_counter_reset
