import AquaVerif.Proofs.RunLiftIrr

/-
Work package Y, third part: **C06 — the summary agrees with the daily tables — on every run.**

(a) `run_summary_irrigation`: for every row of the summary table of a reachable run state, the
    seasonal irrigation `IrrTot` equals the sum of the irrigation column of the `water_flux` table
    over **all** rows of that season.  Proof: induction over the run with the invariant "seasonal
    counter = sum of the column over the days of the current season so far, as long as the harvest
    flag is down" (`run_irrSum`), using `fullDay_irrTot` for a day, the reset of both counters at
    a season start, and the clock (`run_gs_of_flag`: while the harvest flag of a season is down,
    the day is a growing-season day — needs `Clock.Valid`); this gives the sum up to the row's
    harvest step (the statement this file had before repository commit d260679, kept as the
    corollary `run_summary_irrigation_upto`).  `run_no_growing_day_after_harvest` (from the clock's
    `no_growing_day_after_summary`: the growing-season test now excludes the latest harvest date)
    says that no later recorded day of the season is a growing day, so the rest of the column is 0.
(b) `run_summary_yields`: the yields of the row are those of the `crop_growth` row of its harvest
    step (the only row with that step, `run_growth_row_unique`).
(c) `run_summary_rows`: the summary rows are in strictly increasing season order (at most one per
    season), each written on the first day of its season on which the end-of-season condition
    held; `run_summary_complete`: every season that has been left has its row.
(d) `run_daily_identities`: the yield identities on every recorded day.
-/

set_option linter.unusedSectionVars false
set_option linter.unusedVariables false
set_option linter.unusedSimpArgs false
namespace Aqua
open Aqua.Clock
variable {α : Type} [Field α] [LinearOrder α] [IsStrictOrderedRing α]

/-! ## the rows of a day -/

section rows
variable {F : Fn α} {T : TrigFn α} {P : DayParams α} {st : DayState' α} {D : DayIn' α}
  {r : DayResult α}

/-- the key columns (`time_step_counter`, `season_counter`, `growing_season`) of the three rows
are the day's -/
theorem fullDay_row_keys (h : fullDay F T P st D = .ok r) :
    r.flux.tsc = D.tsc ∧ r.flux.season = D.season ∧ r.growth.tsc = D.tsc ∧
      r.growth.season = D.season ∧ r.storage.tsc = D.tsc ∧ r.storage.gs = D.gs := by
  obtain ⟨X, hs, rfl⟩ := fullDay_ok' h
  exact ⟨rfl, rfl, rfl, rfl, rfl, rfl⟩

/-- the seasonal counter the summary reports: `irr_net_cum` under net irrigation, else `irr_cum` -/
def ctrOf (m : Nat) (st : DayState' α) : α := if m = 4 then st.irrNetCum else st.irrCum

/-- on a growing-season day the reported seasonal total is the counter after the day, and
yesterday's counter plus today's irrigation column -/
theorem fullDay_ctr (h : fullDay F T P st D = .ok r) (hg : D.gs = true) :
    r.irrTot = ctrOf P.W.irr.method r.state ∧
      r.irrTot = ctrOf P.W.irr.method st + r.flux.irrDay := by
  obtain ⟨a, b, _⟩ := fullDay_irrTot h
  unfold ctrOf
  by_cases hm : P.W.irr.method = 4
  · rw [if_pos hm, if_pos hm]; exact b hg hm
  · rw [if_neg hm, if_neg hm]; exact a hg hm

end rows

/-! ## sums of the irrigation column -/

/-- the sum of the irrigation column over the recorded days selected by `p` -/
def irrCol (days : List (DayRec α)) (p : DayRec α → Bool) : α :=
  ((days.filter p).map (·.r.flux.irrDay)).sum

theorem irrCol_cons (d : DayRec α) (l : List (DayRec α)) (p : DayRec α → Bool) :
    irrCol (d :: l) p = if p d then d.r.flux.irrDay + irrCol l p else irrCol l p := by
  unfold irrCol
  cases h : p d <;> simp [List.filter_cons, h]

theorem irrCol_congr {l : List (DayRec α)} {p q : DayRec α → Bool} (h : ∀ d ∈ l, p d = q d) :
    irrCol l p = irrCol l q := by
  unfold irrCol
  rw [List.filter_congr h]

theorem irrCol_zero {l : List (DayRec α)} {p : DayRec α → Bool} (h : ∀ d ∈ l, p d = false) :
    irrCol l p = 0 := by
  unfold irrCol
  have : l.filter p = [] := by
    rw [List.filter_eq_nil_iff]
    intro d hd; rw [h d hd]; simp
  rw [this]; rfl

/-! ## (a) seasonal irrigation = sum of the daily column -/

/-- both seasonal counters of the initial state are 0 (what `_initialize` leaves) -/
structure InitIrr0 (cfg : RunCfg α) : Prop where
  irrCum : cfg.init.irrCum = 0
  irrNetCum : cfg.init.irrNetCum = 0

section c06
variable {F : Fn α} {T : TrigFn α} {cfg : RunCfg α} {s s' : RunState α}

/-- in a season, a mature or dead crop means the harvest flag is up -/
theorem run_flag_of_mature (hi : InitOK cfg) (hr : RunReach F T cfg s) :
    0 ≤ s.season → (s.day.cropMature = true ∨ s.day.cropDead = true) →
      s.day.harvestFlag = true := by
  induction hr with
  | init h0 =>
    obtain ⟨_, e2, _, _⟩ := runInit_days h0
    intro _ h
    rw [e2, hi.mature, hi.dead] at h
    rcases h with h | h <;> cases h
  | @step s s' hr hp ih =>
    obtain ⟨d, hdl, hd, hcase⟩ := performR_from hp
    intro h0 h
    rcases hcase with ⟨e1, e2⟩ | ⟨e1, e2⟩
    · rw [e2] at h ⊢
      obtain ⟨_, m2, m3, _⟩ := fullDay_summary hd.day
      have h0' : 0 ≤ d.D.season := by rw [hd.season, ← e1]; exact h0
      rw [m2, m3]
      rcases h with h | h <;> simp [h0', h]
    · rw [e2] at h
      simp only [resetState, resetStateCore] at h
      rcases h with h | h <;> cases h

/-- the days recorded so far precede the day about to be simulated, and belong to the current or
an earlier season -/
theorem run_days_before (hw : WF cfg.clock) (hi : InitOK cfg) (hr : RunReach F T cfg s)
    (hf : s.finished = false) : ∀ d ∈ s.daysRev, d.D.tsc < s.t ∧ d.D.season ≤ s.season := by
  obtain ⟨ev, hre, _⟩ := run_refines_clock hw hi hr
  have hL := (good_of_reach hw hre).live hf
  intro d hd
  exact hL.rowsB (DayRec.clockRow d) (List.mem_map_of_mem hd)

/-- **while the harvest flag of a season is down, the day is a growing-season day** (`Valid`
clock: each season's latest harvest date lies after its planting date) -/
theorem run_gs_of_flag (hv : Valid cfg.clock) (hi : InitOK cfg) (hr : RunReach F T cfg s)
    {d : DayRec α} (hd : DayFrom F T cfg s d) (h0 : 0 ≤ s.season)
    (hf : s.day.harvestFlag = false) : d.D.gs = true := by
  have hw := hv.wf
  obtain ⟨ev, hre, _⟩ := run_refines_clock hw hi hr
  have hL := (good_of_reach hw hre).live hd.notFin
  have hH := (histH_of_reach hv hre).2 hd.notFin
  obtain ⟨ph, hph, hgs, _⟩ := hd.gs
  have hshi : s.season < cfg.clock.nSeasons := hL.shi
  have hph' := seasonInfo_eq hw.2.2.1 hshi
  rw [hph] at hph'
  have e : ph = phOf cfg.clock s.season := Except.ok.inj hph'
  have hm : s.day.cropMature = false ∧ s.day.cropDead = false := by
    constructor
    · cases hc : s.day.cropMature with
      | false => rfl
      | true => have := run_flag_of_mature hi hr h0 (Or.inl hc); rw [hf] at this; cases this
    · cases hc : s.day.cropDead with
      | false => rfl
      | true => have := run_flag_of_mature hi hr h0 (Or.inr hc); rw [hf] at this; cases this
  have hcur : cfg.clock.pl s.season.toNat ≤ s.t := hL.cur h0
  have hdate : ¬ (cfg.clock.hv s.season.toNat ≤ (s.t : Int)) := by
    intro hle
    have : s.day.harvestFlag = true := hH.dateFlag h0 hle
    rw [hf] at this; cases this
  rw [hgs, e]
  unfold phOf gsOfDay
  have h0' : s.season ≥ 0 := h0
  rw [if_pos h0']
  simp only [hm.1, hm.2, Bool.not_false, Bool.and_true, Bool.and_eq_true, decide_eq_true_eq]
  constructor
  · exact_mod_cast hcur
  · omega

/-- the seasonal counter of a run state (`IrrMngt`'s method: only used in a season) -/
def irrCtr (cfg : RunCfg α) (s : RunState α) : α := ctrOf cfg.irr.irr.method s.day

/-- **the invariant behind C06 (a)**: (A) in a season whose harvest flag is still down, the
seasonal counter equals the sum of the irrigation column over the days of that season recorded so
far; (B) the `IrrTot` of every summary row written so far equals the sum of the column over the
days of the row's season up to the row's step -/
theorem run_irrSum (hv : Valid cfg.clock) (hi : InitOK cfg) (h0 : InitIrr0 cfg)
    (hr : RunReach F T cfg s) :
    (0 ≤ s.season → s.day.harvestFlag = false →
      irrCtr cfg s = irrCol s.daysRev (fun d => decide (d.D.season = s.season))) ∧
    ∀ d ∈ s.daysRev, ∀ x, d.r.summary = some x →
      x.irrTot = irrCol s.daysRev
        (fun d' => decide (d'.D.season = x.season) && decide (d'.D.tsc ≤ x.tsc)) := by
  induction hr with
  | init hinit =>
    obtain ⟨e1, e2, _, _⟩ := runInit_days hinit
    rw [e1]
    refine ⟨fun _ _ => ?_, fun d hd => by cases hd⟩
    unfold irrCtr ctrOf
    rw [e2, h0.irrCum, h0.irrNetCum]
    simp [irrCol]
  | @step s s' hr hp ih =>
    obtain ⟨ihA, ihB⟩ := ih
    obtain ⟨d, hdl, hd, hcase⟩ := performR_from hp
    have hb := run_days_before hv.wf hi hr hd.notFin
    obtain ⟨m1, m2, m3, m4⟩ := fullDay_summary hd.day
    -- the day simulated from a season with the flag down
    have key : 0 ≤ s.season → s.day.harvestFlag = false →
        d.r.irrTot = ctrOf cfg.irr.irr.method d.r.state ∧
        d.r.irrTot = irrCol s.daysRev (fun d' => decide (d'.D.season = s.season))
          + d.r.flux.irrDay := by
      intro hs0 hfl
      have hg := run_gs_of_flag hv hi hr hd hs0 hfl
      have hmeth : d.P.W.irr.method = cfg.irr.irr.method := by
        rw [hd.P]
        show (if 0 ≤ s.season then cfg.irr else cfg.fallowIrr).irr.method = _
        rw [if_pos hs0]
      obtain ⟨c1, c2⟩ := fullDay_ctr hd.day hg
      rw [hmeth] at c1 c2
      refine ⟨c1, ?_⟩
      rw [c2, hd.st]
      have := ihA hs0 hfl
      unfold irrCtr at this
      rw [this]
    rw [hdl]
    constructor
    · -- (A)
      intro hs0' hfl'
      rcases hcase with ⟨e1, e2⟩ | ⟨e1, e2⟩
      · have hs0 : 0 ≤ s.season := by rw [← e1]; exact hs0'
        have hfl : s.day.harvestFlag = false := by
          rw [e2, m2, hd.st] at hfl'
          cases hh : s.day.harvestFlag with
          | false => rfl
          | true => rw [hh] at hfl'; simp at hfl'
        obtain ⟨k1, k2⟩ := key hs0 hfl
        unfold irrCtr
        rw [e2, ← k1, k2, irrCol_cons, e1]
        have : decide (d.D.season = s.season) = true := by rw [hd.season]; simp
        rw [if_pos this]
        exact add_comm _ _
      · have hz : irrCtr cfg s' = 0 := by
          unfold irrCtr ctrOf
          rw [e2]
          simp only [resetState, resetStateCore]
          split_ifs <;> rfl
        rw [hz]
        symm
        apply irrCol_zero
        intro d' hd'
        rcases List.mem_cons.mp hd' with rfl | hd'
        · rw [hd.season, e1]; simp
        · have := (hb d' hd').2
          rw [e1]
          simp only [decide_eq_false_iff_not]
          omega
    · -- (B)
      intro d' hd' x hx
      rcases List.mem_cons.mp hd' with rfl | hd'
      · obtain ⟨x1, x2, _, _, _, x6⟩ := m4 x hx
        have hsome : d'.r.summary.isSome = true := by rw [hx]; rfl
        rw [m1] at hsome
        simp only [Bool.and_eq_true, Bool.not_eq_eq_eq_not, Bool.not_true] at hsome
        obtain ⟨hend, hfl⟩ := hsome
        have hfl' : s.day.harvestFlag = false := by rw [← hd.st]; exact hfl
        have hs0 : 0 ≤ s.season := by
          rw [m3] at hend
          simp only [Bool.and_eq_true, decide_eq_true_eq] at hend
          rw [← hd.season]; exact hend.1
        obtain ⟨_, k2⟩ := key hs0 hfl'
        rw [x6, k2, irrCol_cons]
        have hp1 : (decide (d'.D.season = x.season) && decide (d'.D.tsc ≤ x.tsc)) = true := by
          rw [x1, x2]; simp
        rw [if_pos hp1, add_comm]
        congr 1
        apply irrCol_congr
        intro d'' hd''
        have := (hb d'' hd'').1
        rw [x1, x2, hd.season, hd.tsc]
        have h2 : decide (d''.D.tsc ≤ s.t) = true := by simp; omega
        rw [h2, Bool.and_true]
      · have := ihB d' hd' x hx
        rw [this, irrCol_cons]
        obtain ⟨_, x2, _⟩ := (fullDay_summary (run_days hr d' hd')).2.2.2 x hx
        have hlt := (hb d' hd').1
        have hp0 : (decide (d.D.season = x.season) && decide (d.D.tsc ≤ x.tsc)) = false := by
          rw [x2, hd.tsc]
          have : decide (s.t ≤ d'.D.tsc) = false := by simp; omega
          rw [this, Bool.and_false]
        rw [hp0]
        simp

/-- the rows of the three tables and the summary come from the recorded days -/
theorem mem_summaryTable {x : SummaryRow α} :
    x ∈ s.summaryTable ↔ ∃ d ∈ s.daysRev, d.r.summary = some x := by
  unfold RunState.summaryTable
  simp [List.mem_filterMap]

theorem mem_growthTable {g : GrowthRow α} :
    g ∈ s.growthTable ↔ ∃ d ∈ s.daysRev, d.r.growth = g := by
  unfold RunState.growthTable
  simp [List.mem_map]

theorem mem_fluxTable {f : FluxRow α} :
    f ∈ s.fluxTable ↔ ∃ d ∈ s.daysRev, d.r.flux = f := by
  unfold RunState.fluxTable
  simp [List.mem_map]

private theorem sum_map_reverse {β : Type} (f : β → α) (l : List β) :
    (l.reverse.map f).sum = (l.map f).sum := by
  induction l with
  | nil => rfl
  | cons a l ih =>
    simp only [List.reverse_cons, List.map_append, List.map_cons, List.map_nil, List.sum_append,
      List.sum_cons, List.sum_nil, ih]
    ring

/-- the sum of the irrigation column of the `water_flux` table over the rows selected by their
season and step columns is `irrCol` of the recorded days -/
theorem fluxTable_sum_of (hr : RunReach F T cfg s) (p : Int → Nat → Bool) :
    ((s.fluxTable.filter (fun f => p f.season f.tsc)).map (·.irrDay)).sum =
      irrCol s.daysRev (fun d => p d.D.season d.D.tsc) := by
  unfold RunState.fluxTable irrCol
  rw [List.filter_map, List.map_map, List.filter_reverse, sum_map_reverse]
  congr 2
  apply List.filter_congr
  intro d hd
  obtain ⟨e1, e2, _⟩ := fullDay_row_keys (run_days hr d hd)
  simp only [Function.comp]
  rw [e1, e2]

theorem fluxTable_sum (hr : RunReach F T cfg s) (k : Int) (t : Nat) :
    ((s.fluxTable.filter (fun f => decide (f.season = k) && decide (f.tsc ≤ t))).map
        (·.irrDay)).sum =
      irrCol s.daysRev (fun d => decide (d.D.season = k) && decide (d.D.tsc ≤ t)) :=
  fluxTable_sum_of hr (fun k' t' => decide (k' = k) && decide (t' ≤ t))

theorem fluxTable_sum_season (hr : RunReach F T cfg s) (k : Int) :
    ((s.fluxTable.filter (fun f => decide (f.season = k))).map (·.irrDay)).sum =
      irrCol s.daysRev (fun d => decide (d.D.season = k)) :=
  fluxTable_sum_of hr (fun k' _ => decide (k' = k))

/-! ## (b) the yields of a summary row are the daily values of its harvest day -/

private theorem pairwise_lt_inj {β : Type} (f : β → Nat) : ∀ (l : List β), (l.map f).Pairwise (· < ·) →
    ∀ a ∈ l, ∀ b ∈ l, f a = f b → a = b
  | [], _, a, ha, _, _, _ => by cases ha
  | c :: l, h, a, ha, b, hb, hab => by
    rw [List.map_cons, List.pairwise_cons] at h
    obtain ⟨h1, h2⟩ := h
    rcases List.mem_cons.mp ha with hac | ha'
    · rcases List.mem_cons.mp hb with hbc | hb'
      · rw [hac, hbc]
      · have := h1 (f b) (List.mem_map_of_mem hb')
        rw [hac] at hab
        omega
    · rcases List.mem_cons.mp hb with hbc | hb'
      · have := h1 (f a) (List.mem_map_of_mem ha')
        rw [hbc] at hab
        omega
      · exact pairwise_lt_inj f l h2 a ha' b hb' hab

/-- each time step is recorded at most once -/
theorem run_day_unique (hw : WF cfg.clock) (hi : InitOK cfg) (hr : RunReach F T cfg s) :
    ∀ d ∈ s.daysRev, ∀ d' ∈ s.daysRev, d.D.tsc = d'.D.tsc → d = d' := by
  have h := run_days_increasing hw hi hr
  intro d hd d' hd' e
  exact pairwise_lt_inj (·.D.tsc) s.daysRev.reverse h d (List.mem_reverse.mpr hd) d'
    (List.mem_reverse.mpr hd') e

/-- **`run_summary_yields` (C06 b)**: every summary row repeats the `crop_growth` row of its
harvest step — same season and step, and the row's dry, fresh and potential yield are that day's
values. -/
theorem run_summary_yields (hr : RunReach F T cfg s) :
    ∀ x ∈ s.summaryTable, ∃ g ∈ s.growthTable, g.season = x.season ∧ g.tsc = x.tsc ∧
      x.dryYield = g.dryYield ∧ x.freshYield = g.freshYield ∧ x.yieldPot = g.yieldPot := by
  intro x hx
  obtain ⟨d, hd, hdx⟩ := mem_summaryTable.mp hx
  have hday := run_days hr d hd
  obtain ⟨x1, x2, x3, x4, x5, _⟩ := (fullDay_summary hday).2.2.2 x hdx
  obtain ⟨_, _, k3, k4, _⟩ := fullDay_row_keys hday
  exact ⟨d.r.growth, mem_growthTable.mpr ⟨d, hd, rfl⟩, by rw [k4, x1], by rw [k3, x2], x3, x4, x5⟩

/-- … and that `crop_growth` row is the only one with the row's step: *whichever* row of the daily
table carries the harvest step carries the yields of the summary row -/
theorem run_summary_yields_unique (hw : WF cfg.clock) (hi : InitOK cfg) (hr : RunReach F T cfg s) :
    ∀ x ∈ s.summaryTable, ∀ g ∈ s.growthTable, g.tsc = x.tsc →
      g.season = x.season ∧ x.dryYield = g.dryYield ∧ x.freshYield = g.freshYield ∧
        x.yieldPot = g.yieldPot := by
  intro x hx g hg hgt
  obtain ⟨d, hd, hdx⟩ := mem_summaryTable.mp hx
  obtain ⟨d', hd', hdg⟩ := mem_growthTable.mp hg
  have hday := run_days hr d hd
  obtain ⟨x1, x2, x3, x4, x5, _⟩ := (fullDay_summary hday).2.2.2 x hdx
  obtain ⟨_, _, k3, k4, _⟩ := fullDay_row_keys hday
  obtain ⟨_, _, k3', _⟩ := fullDay_row_keys (run_days hr d' hd')
  have e : d' = d := by
    apply run_day_unique hw hi hr d' hd' d hd
    rw [← k3', hdg, hgt, x2]
  rw [← hdg, e]
  exact ⟨by rw [k4, x1], x3, x4, x5⟩

/-! ## (c) one row per completed season, in season order -/

/-- the summary writes of the clock projection are the `(season, step)` columns of the summary
table -/
theorem clockOf_summary (s : RunState α) :
    s.clockOf.summary = s.summaryTable.map (fun x => (x.season, x.tsc)) := by
  unfold St.summary RunState.clockOf RunState.summaryTable
  rw [List.filterMap_reverse, List.map_reverse, List.map_filterMap]
  rfl

theorem clockOf_rows_mem {r : Row} :
    r ∈ s.clockOf.rows ↔ ∃ d ∈ s.daysRev, DayRec.clockRow d = r := by
  unfold St.rows RunState.clockOf
  simp [List.mem_map]

/-- **`run_summary_rows` (C06 c)**: the summary rows are in strictly increasing season order — in
particular at most one row per season -/
theorem run_summary_rows (hw : WF cfg.clock) (hi : InitOK cfg) (hr : RunReach F T cfg s) :
    (s.summaryTable.map (·.season)).Pairwise (· < ·) := by
  obtain ⟨ev, hre, _⟩ := run_refines_clock hw hi hr
  have h := summary_sorted hw hre
  rw [clockOf_summary, List.pairwise_map] at h
  rw [List.pairwise_map]
  exact h

/-- the end-of-season condition of a recorded day: in a season, the crop is mature or dead at the
end of the day, or the next day is the season's latest harvest date -/
theorem run_endc (hr : RunReach F T cfg s) :
    ∀ d ∈ s.daysRev, d.r.endc =
      (decide (0 ≤ d.D.season) && (d.r.state.cropMature || d.r.state.cropDead || d.D.lastDay)) :=
  fun d hd => (fullDay_summary (run_days hr d hd)).2.2.1

/-- **a season has a summary row exactly when one of its recorded days met the end-of-season
condition**, and the row's step is the *first* such day -/
theorem run_summary_iff (hw : WF cfg.clock) (hi : InitOK cfg) (hr : RunReach F T cfg s) (k : Int)
    (t : Nat) :
    (∃ x ∈ s.summaryTable, x.season = k ∧ x.tsc = t) ↔
      ∃ d ∈ s.daysRev, d.D.season = k ∧ d.D.tsc = t ∧ d.r.endc = true ∧
        ∀ d' ∈ s.daysRev, d'.D.season = k → d'.r.endc = true → t ≤ d'.D.tsc := by
  obtain ⟨ev, hre, _⟩ := run_refines_clock hw hi hr
  have h := season_ends_first hw hre k t
  rw [clockOf_summary] at h
  have h1 : (k, t) ∈ s.summaryTable.map (fun x => (x.season, x.tsc)) ↔
      ∃ x ∈ s.summaryTable, x.season = k ∧ x.tsc = t := by
    simp [List.mem_map, Prod.ext_iff]
  rw [← h1, h]
  unfold FirstEnd
  constructor
  · rintro ⟨r, hr1, a, b, c, e⟩
    obtain ⟨d, hd, rfl⟩ := clockOf_rows_mem.mp hr1
    refine ⟨d, hd, a, b, c, fun d' hd' a' c' => ?_⟩
    exact e (DayRec.clockRow d') (clockOf_rows_mem.mpr ⟨d', hd', rfl⟩) a' c'
  · rintro ⟨d, hd, a, b, c, e⟩
    refine ⟨DayRec.clockRow d, clockOf_rows_mem.mpr ⟨d, hd, rfl⟩, a, b, c, fun r' hr' a' c' => ?_⟩
    obtain ⟨d', hd', rfl⟩ := clockOf_rows_mem.mp hr'
    exact e d' hd' a' c'

/-- **`run_summary_complete`**: under a `Valid` clock every season that has been left has its
summary row, and a row's step is at the latest the day before the season's latest harvest date -/
theorem run_summary_complete (hv : Valid cfg.clock) (hi : InitOK cfg) (hr : RunReach F T cfg s) :
    (∀ k : Nat, (k : Int) < s.season → ∃ x ∈ s.summaryTable, x.season = k) ∧
    (∀ x ∈ s.summaryTable, (x.tsc : Int) + 1 ≤ cfg.clock.hv x.season.toNat) := by
  obtain ⟨ev, hre, _⟩ := run_refines_clock hv.wf hi hr
  constructor
  · intro k hk
    obtain ⟨t, ht⟩ := season_harvested hv hre k hk
    rw [clockOf_summary] at ht
    obtain ⟨x, hx, e⟩ := List.mem_map.mp ht
    exact ⟨x, hx, (Prod.mk.inj e).1⟩
  · intro x hx
    have : (x.season, x.tsc) ∈ s.clockOf.summary := by
      rw [clockOf_summary]; exact List.mem_map_of_mem hx
    exact harvest_by_latest_date hv hre this

/-! ## (a, continued) the latest harvest date is not a growing day: the sum over the whole season -/

/-- the storage, flux and growth rows come from the recorded days -/
theorem mem_storageTable {g : StorageRow α} :
    g ∈ s.storageTable ↔ ∃ d ∈ s.daysRev, d.r.storage = g := by
  unfold RunState.storageTable
  simp [List.mem_map]

/-- **`run_gs_before_harvest`**: a recorded growing-season day lies in a season `k ≥ 0`, on or after
its planting date and **strictly before its latest harvest date** (`t + 1 ≤ harvest k`) -/
theorem run_gs_before_harvest (hw : WF cfg.clock) (hi : InitOK cfg) (hr : RunReach F T cfg s) :
    ∀ d ∈ s.daysRev, d.D.gs = true →
      0 ≤ d.D.season ∧ cfg.clock.pl d.D.season.toNat ≤ d.D.tsc ∧
        (d.D.tsc : Int) + 1 ≤ cfg.clock.hv d.D.season.toNat := by
  obtain ⟨ev, hre, _⟩ := run_refines_clock hw hi hr
  intro d hd hg
  exact gs_meaning hw hre (DayRec.clockRow d) (clockOf_rows_mem.mpr ⟨d, hd, rfl⟩) hg

/-- what a day that is not a growing-season day leaves in the tables -/
def FallowDay (d : DayRec α) : Prop :=
  d.D.gs = false ∧ d.r.flux.irrDay = 0 ∧ d.r.flux.dap = 0 ∧ d.r.growth.dap = 0 ∧
    d.r.flux.tr = 0 ∧ d.r.growth.cc = 0 ∧ d.r.growth.biomass = 0 ∧ d.r.growth.dryYield = 0 ∧
    d.r.growth.freshYield = 0 ∧ d.r.storage.gs = false

theorem run_fallowDay (hr : RunReach F T cfg s) {d : DayRec α} (hd : d ∈ s.daysRev)
    (hg : d.D.gs = false) : FallowDay d := by
  have hday := run_days hr d hd
  obtain ⟨⟨f1, _, f3, f4⟩, ⟨g1, _, _, _, g5, _, g7, _, _, _, g11, g12, _⟩, _⟩ :=
    fullDay_offseason_zero hday hg
  obtain ⟨_, _, _, _, _, k6⟩ := fullDay_row_keys hday
  exact ⟨hg, f3, f4, g1, f1, g5, g7, g11, g12, by rw [k6, hg]⟩

/-- **`run_no_growing_day_after_harvest`**: in every reachable state of every run, after a season's
summary row has been written no later recorded day of that season is a growing-season day:
`growing_season = False`, hence no irrigation (`IrrDay = 0`), `dap = 0`, no transpiration, canopy,
biomass or yield on those days.  (With the off-season simulated these are the fallow days from
the harvest date to the day before the next planting date; before repository commit d260679 the
harvest date itself was still a growing day.)  Premises: a well-formed clock, the initial flags
cleared. -/
theorem run_no_growing_day_after_harvest (hw : WF cfg.clock) (hi : InitOK cfg)
    (hr : RunReach F T cfg s) :
    ∀ x ∈ s.summaryTable, ∀ d ∈ s.daysRev, d.D.season = x.season → x.tsc < d.D.tsc →
      FallowDay d := by
  obtain ⟨ev, hre, _⟩ := run_refines_clock hw hi hr
  intro x hx d hd hs ht
  have hmem : (x.season, x.tsc) ∈ s.clockOf.summary := by
    rw [clockOf_summary]; exact List.mem_map_of_mem hx
  have hg : d.D.gs = false :=
    (no_growing_day_after_summary hw hre hmem (DayRec.clockRow d)
      (clockOf_rows_mem.mpr ⟨d, hd, rfl⟩) hs ht).1
  exact run_fallowDay hr hd hg

/-- … in terms of the rows of the `water_flux` table -/
theorem run_no_irrigation_after_harvest (hw : WF cfg.clock) (hi : InitOK cfg)
    (hr : RunReach F T cfg s) :
    ∀ x ∈ s.summaryTable, ∀ f ∈ s.fluxTable, f.season = x.season → x.tsc < f.tsc →
      f.irrDay = 0 ∧ f.dap = 0 ∧ f.tr = 0 := by
  intro x hx f hf hs ht
  obtain ⟨d, hd, rfl⟩ := mem_fluxTable.mp hf
  obtain ⟨e1, e2, _⟩ := fullDay_row_keys (run_days hr d hd)
  obtain ⟨_, a, b, _, c, _⟩ :=
    run_no_growing_day_after_harvest hw hi hr x hx d hd (by rw [← e2]; exact hs)
      (by rw [← e1]; exact ht)
  exact ⟨a, b, c⟩

/-- the growing-season days of a season with a summary row all lie at or before the row's step -/
theorem run_growing_days_upto_harvest (hw : WF cfg.clock) (hi : InitOK cfg)
    (hr : RunReach F T cfg s) :
    ∀ x ∈ s.summaryTable, ∀ d ∈ s.daysRev, d.D.season = x.season → d.D.gs = true →
      d.D.tsc ≤ x.tsc := by
  intro x hx d hd hs hg
  by_cases hlt : x.tsc < d.D.tsc
  · have := (run_no_growing_day_after_harvest hw hi hr x hx d hd hs hlt).1
    rw [hg] at this; cases this
  · omega

theorem irrCol_eq_of_zero {l : List (DayRec α)} {p q : DayRec α → Bool}
    (h : ∀ d ∈ l, p d = q d ∨ d.r.flux.irrDay = 0) : irrCol l p = irrCol l q := by
  induction l with
  | nil => rfl
  | cons d l ih =>
    rw [irrCol_cons, irrCol_cons, ih (fun d' hd' => h d' (List.mem_cons_of_mem _ hd'))]
    rcases h d List.mem_cons_self with e | e
    · rw [e]
    · rw [e, zero_add]; simp

/-- the column summed over the whole season of a summary row = summed up to the row's step -/
theorem irrCol_season_eq_upto (hw : WF cfg.clock) (hi : InitOK cfg) (hr : RunReach F T cfg s)
    {x : SummaryRow α} (hx : x ∈ s.summaryTable) :
    irrCol s.daysRev (fun d => decide (d.D.season = x.season)) =
      irrCol s.daysRev (fun d => decide (d.D.season = x.season) && decide (d.D.tsc ≤ x.tsc)) := by
  apply irrCol_eq_of_zero
  intro d hd
  by_cases hs : d.D.season = x.season
  · by_cases ht : d.D.tsc ≤ x.tsc
    · left; simp [hs, ht]
    · right
      exact (run_no_growing_day_after_harvest hw hi hr x hx d hd hs (by omega)).2.1
  · left; simp [hs]

/-- **`run_summary_irrigation` (C06 a)**: in every reachable state of every run, for every row of
the summary table, the seasonal irrigation `IrrTot` of the row equals the sum of the irrigation
column `IrrDay` of the `water_flux` table over **all** rows of the row's season — the days before
the harvest step, the harvest step, and (off-season simulated) the fallow days that follow under
the same season counter.  Premises: a `Valid` clock, the initial flags cleared, both initial
counters 0. -/
theorem run_summary_irrigation (hv : Valid cfg.clock) (hi : InitOK cfg) (h0 : InitIrr0 cfg)
    (hr : RunReach F T cfg s) :
    ∀ x ∈ s.summaryTable,
      x.irrTot = ((s.fluxTable.filter (fun f => decide (f.season = x.season))).map
        (·.irrDay)).sum := by
  intro x hx
  obtain ⟨d, hd, hdx⟩ := mem_summaryTable.mp hx
  rw [fluxTable_sum_season hr, irrCol_season_eq_upto hv.wf hi hr hx]
  exact (run_irrSum hv hi h0 hr).2 d hd x hdx

/-- **`run_summary_irrigation_upto` (corollary; the statement of `run_summary_irrigation` before
repository commit d260679)**: the seasonal irrigation of a summary row equals the sum of the daily
column over the rows of the row's season up to (and including) its harvest step — the later rows
of the season carry no irrigation. -/
theorem run_summary_irrigation_upto (hv : Valid cfg.clock) (hi : InitOK cfg) (h0 : InitIrr0 cfg)
    (hr : RunReach F T cfg s) :
    ∀ x ∈ s.summaryTable,
      x.irrTot = ((s.fluxTable.filter
        (fun f => decide (f.season = x.season) && decide (f.tsc ≤ x.tsc))).map (·.irrDay)).sum := by
  intro x hx
  rw [fluxTable_sum hr, ← irrCol_season_eq_upto hv.wf hi hr hx, ← fluxTable_sum_season hr]
  exact run_summary_irrigation hv hi h0 hr x hx

/-- … and equally the sum over the growing-season rows of the season only (what the C06 oracle of
the harness computes) -/
theorem run_summary_irrigation_growing (hv : Valid cfg.clock) (hi : InitOK cfg) (h0 : InitIrr0 cfg)
    (hr : RunReach F T cfg s) :
    ∀ x ∈ s.summaryTable,
      x.irrTot = irrCol s.daysRev (fun d => decide (d.D.season = x.season) && d.D.gs) := by
  intro x hx
  rw [run_summary_irrigation hv hi h0 hr x hx, fluxTable_sum_season hr]
  apply irrCol_eq_of_zero
  intro d hd
  cases hg : d.D.gs with
  | true => left; simp
  | false => right; exact (run_fallowDay hr hd hg).2.1

/-- **C13 ∧ C06: the seasonal irrigation of every summary row is at most the seasonal maximum**
(strategies other than net irrigation; `IrrCapOK`) — it is the counter `irr_cum` at the end of the
harvest day, hence by `run_summary_irrigation` so is the sum of the daily column over the whole
season -/
theorem run_summary_total_le_max (hv : Valid cfg.clock) (hi : InitOK cfg) (hK : IrrCapOK cfg)
    (hm : cfg.irr.irr.method ≠ 4) (hr : RunReach F T cfg s) :
    ∀ x ∈ s.summaryTable, x.irrTot ≤ cfg.irr.irr.maxSeason := by
  have key : ∀ d ∈ s.daysRev, ∀ x, d.r.summary = some x →
      0 ≤ d.D.season ∧ x.irrTot = d.r.state.irrCum := by
    refine run_days_ind (R := fun _ => True) (fun {s s' d} hr hp hdl hd _ _ => ?_) hr
      (fun _ _ => trivial)
    intro x hx
    obtain ⟨m1, m2, m3, m4⟩ := fullDay_summary hd.day
    obtain ⟨_, _, _, _, _, x6⟩ := m4 x hx
    have hsome : d.r.summary.isSome = true := by rw [hx]; rfl
    rw [m1] at hsome
    simp only [Bool.and_eq_true, Bool.not_eq_eq_eq_not, Bool.not_true] at hsome
    obtain ⟨hend, hfl⟩ := hsome
    have hs0 : 0 ≤ s.season := by
      rw [m3] at hend
      simp only [Bool.and_eq_true, decide_eq_true_eq] at hend
      rw [← hd.season]; exact hend.1
    have hg := run_gs_of_flag hv hi hr hd hs0 (by rw [← hd.st]; exact hfl)
    have hmeth : d.P.W.irr.method = cfg.irr.irr.method := by
      rw [hd.P]
      show (if 0 ≤ s.season then cfg.irr else cfg.fallowIrr).irr.method = _
      rw [if_pos hs0]
    obtain ⟨c1, _⟩ := fullDay_ctr hd.day hg
    rw [hmeth] at c1
    unfold ctrOf at c1
    rw [if_neg hm] at c1
    exact ⟨by rw [hd.season]; exact hs0, by rw [x6, c1]⟩
  intro x hx
  obtain ⟨d, hd, hdx⟩ := mem_summaryTable.mp hx
  obtain ⟨k0, k1⟩ := key d hd x hdx
  have := ((run_season_cap hK hr).2 d hd).2
  unfold irrSetOf at this
  rw [if_pos k0] at this
  rw [k1]; exact this

/-! ## (d) the daily identities on every recorded day -/

/-- **`run_daily_identities` (C06 d)**: on every recorded day of every run potential yield =
no-stress biomass/100 × harvest index; in the growing season dry yield = biomass/100 × adjusted
harvest index, fresh yield = dry yield / (YldWC/100), and the biomass gains are the adjusted water
productivity × (transpiration / ET0) resp. × (potential no-stress transpiration / ET0); the state
carries the reported values — no premise. -/
theorem run_daily_identities (hr : RunReach F T cfg s) :
    ∀ d ∈ s.daysRev,
      d.r.growth.yieldPot = (d.r.growth.biomassNS / 100) * d.r.growth.hi ∧
      (d.D.gs = true →
        d.r.growth.dryYield = (d.r.growth.biomass / 100) * d.r.growth.hiAdj ∧
        d.r.growth.freshYield = d.r.growth.dryYield / (d.P.cx.yldWC / 100) ∧
        d.r.growth.biomass = d.st.biomass +
          bioWPadj d.P.cx.bio (natNum d.r.growth.dap) d.r.state.delayedCds d.r.state.hiRef
            d.r.state.pctLagPhase * (d.r.flux.tr / d.D.et0) ∧
        d.r.growth.biomassNS = d.st.biomassNS +
          bioWPadj d.P.cx.bio (natNum d.r.growth.dap) d.r.state.delayedCds d.r.state.hiRef
            d.r.state.pctLagPhase * (d.r.water.trPotNS / d.D.et0)) ∧
      (d.D.gs = false → d.r.growth.dryYield = 0 ∧ d.r.growth.freshYield = 0 ∧
        d.r.growth.yieldPot = 0 ∧ d.r.growth.biomass = 0 ∧ d.r.flux.irrDay = 0) ∧
      (d.r.state.yieldPot = d.r.growth.yieldPot ∧ d.r.state.dryYield = d.r.growth.dryYield ∧
        d.r.state.freshYield = d.r.growth.freshYield ∧ d.r.state.biomass = d.r.growth.biomass ∧
        d.r.state.biomassNS = d.r.growth.biomassNS) := by
  intro d hd
  have hday := run_days hr d hd
  obtain ⟨a, b, c1, c2, c3, c4, c5, _⟩ := fullDay_yields hday
  refine ⟨a, b, fun hg => ?_, c1, c2, c3, c4, c5⟩
  obtain ⟨⟨_, _, f3, _⟩, ⟨_, _, _, _, _, _, g7, _, _, _, g11, g12, g13⟩, _⟩ :=
    fullDay_offseason_zero hday hg
  exact ⟨g11, g12, g13, g7, f3⟩

end c06

end Aqua

#print axioms Aqua.run_gs_of_flag
#print axioms Aqua.run_irrSum
#print axioms Aqua.run_gs_before_harvest
#print axioms Aqua.run_no_growing_day_after_harvest
#print axioms Aqua.run_no_irrigation_after_harvest
#print axioms Aqua.run_summary_irrigation
#print axioms Aqua.run_summary_irrigation_upto
#print axioms Aqua.run_summary_irrigation_growing
#print axioms Aqua.run_summary_yields
#print axioms Aqua.run_summary_yields_unique
#print axioms Aqua.run_summary_rows
#print axioms Aqua.run_summary_iff
#print axioms Aqua.run_summary_complete
#print axioms Aqua.run_daily_identities
#print axioms Aqua.run_summary_total_le_max
