import AquaVerif.Proofs.Clock
import AquaVerif.Proofs.Calendar
/-
Bridge: every clock configuration that the date set-up (`Aqua.Calendar.seasonDates`) produces is
`Valid`, so all clock theorems apply to every window / planting date / harvest date for which
`_initialize` does not raise.
-/

namespace Aqua
open Aqua.Calendar Aqua.Clock

/-- the `ClockStruct` that `_initialize` builds from the date set-up -/
def toCfg (r : Seasons) (off : Bool) : Cfg :=
  { n := r.n, planting := r.planting.map Int.toNat, harvest := r.harvest, offSeason := off,
    season0 := r.season0 }

theorem length_pyRange (a b : Int) : (pyRange a b).length = (b - a).toNat := by
  simp [pyRange]

theorem getD_map_pyRange {β : Type} (f : Int → β) (a b : Int) (k : Nat) (d : β)
    (hk : k < (b - a).toNat) : ((pyRange a b).map f).getD k d = f (a + k) := by
  simp [pyRange, List.getD_eq_getElem?_getD, List.getElem?_map, List.getElem?_range hk]

theorem seasonDates_valid {sy sm sd ey em ed pm pd hm hd : Int} {r : Seasons} (off : Bool)
    (h : seasonDates sy sm sd ey em ed pm pd hm hd = .ok r) : Valid (toCfg r off) := by
  obtain ⟨y0, a, δ, hya, _, _, hδ, hpl, hhl, hstart, _, hs0, hn, hn2, hlast, hvp, hvh, _, _⟩ :=
    seasonDates_spec h
  have hvp' := (validDate_iff _ _ _).mp hvp
  have hvh' := (validDate_iff _ _ _).mp hvh
  have bpm := daysInMonth_bounds 1990 pm
  have bhm := daysInMonth_bounds 1990 hm
  -- planting dates of later years are later
  have hmono : ∀ y y' : Int, y < y' → daysFromCivil y pm pd < daysFromCivil y' pm pd :=
    fun y y' hlt => dfc_year_lt y y' pm pm pd pd hlt (by omega) (by omega) (by omega) (by omega)
      (by omega) (by omega) (by omega) (by omega)
  have hnonneg : ∀ i : Nat, daysFromCivil sy sm sd ≤ daysFromCivil (y0 + i) pm pd := by
    intro i
    cases i with
    | zero => simpa using hstart
    | succ i => have := hmono y0 (y0 + ((i + 1 : Nat) : Int)) (by omega); omega
  have hlenP : (r.planting.map Int.toNat).length = (a - y0).toNat := by
    rw [hpl]; simp [length_pyRange]
  have hplk : ∀ k : Nat, k < (a - y0).toNat → (toCfg r off).pl k =
      (daysFromCivil (y0 + k) pm pd - daysFromCivil sy sm sd).toNat := by
    intro k hk
    simp only [toCfg, Cfg.pl, hpl, List.map_map]
    rw [getD_map_pyRange _ _ _ _ _ hk]; rfl
  have hhvk : ∀ k : Nat, k < (a - y0).toNat → (toCfg r off).hv k =
      daysFromCivil (y0 + δ + k) hm hd - daysFromCivil sy sm sd := by
    intro k hk
    simp only [toCfg, Cfg.hv, hhl]
    rw [getD_map_pyRange _ _ _ _ _ (by omega)]
  refine ⟨⟨by simpa [toCfg] using hn2, ?_, ?_, ?_, ?_, ?_⟩, ?_, ?_⟩
  · -- at least one season
    simp only [toCfg, hpl, ne_eq, List.map_eq_nil_iff]
    rw [pyRange_cons hya]; simp
  · simp only [toCfg, hpl, hhl, List.length_map, length_pyRange]; omega
  · -- strictly increasing
    simp only [toCfg, hpl, List.map_map, pyRange]
    rw [List.pairwise_map]
    refine List.Pairwise.imp ?_ List.pairwise_lt_range
    intro i j hij
    simp only [Function.comp_apply]
    have := hmono (y0 + i) (y0 + j) (by omega)
    have := hnonneg i
    omega
  · -- every planting date at least two days before the end of the window
    intro p hp
    simp only [toCfg, hpl, List.map_map, List.mem_map, Function.comp_apply] at hp
    obtain ⟨y, hy, rfl⟩ := hp
    have := hlast y hy
    have hmem := mem_pyRange.mp hy
    have := hnonneg (y - y0).toNat
    have e : y0 + ((y - y0).toNat : Int) = y := by omega
    rw [e] at this
    show (daysFromCivil y pm pd - daysFromCivil sy sm sd).toNat + 2 ≤ r.n
    omega
  · -- initial season counter
    simp only [toCfg, hpl, hs0, List.map_map]
    rw [pyRange_cons hya]
    simp only [List.map_cons, List.head?_cons, Function.comp_apply, Option.some.injEq]
    have := hnonneg 0
    simp only [Int.natCast_zero, Int.add_zero] at this
    by_cases he : daysFromCivil sy sm sd = daysFromCivil y0 pm pd
    · simp [he]
    · have : ¬ (daysFromCivil y0 pm pd - daysFromCivil sy sm sd).toNat = 0 := by omega
      simp [he, this]
  · -- planting before harvest
    intro k hk
    have hk' : k < (a - y0).toNat := by rw [← hlenP]; exact hk
    rw [hplk k hk', hhvk k hk']
    have := hnonneg k
    rcases hδ with ⟨rfl, hlt⟩ | ⟨rfl, _⟩
    · have := (md_order_transfer hvp hvh (validDate_of_1990 hvp (y0 + k))
        (validDate_of_1990 hvh (y0 + k))).mp hlt
      simp only [Int.add_zero]; omega
    · have := dfc_year_lt (y0 + k) (y0 + 1 + k) pm hm pd hd (by omega) (by omega) (by omega)
        (by omega) (by omega) (by omega) (by omega) (by omega) (by omega)
      omega
  · -- harvest not after the next planting
    intro k hk
    have hk1 : k + 1 < (a - y0).toNat := by
      have : k < (r.planting.map Int.toNat).length - 1 := hk
      rw [hlenP] at this; omega
    rw [hplk (k + 1) hk1, hhvk k (by omega)]
    have := hnonneg (k + 1)
    rcases hδ with ⟨rfl, _⟩ | ⟨rfl, hnlt⟩
    · have := dfc_year_lt (y0 + 0 + k) (y0 + ((k + 1 : Nat) : Int)) hm pm hd pd (by omega)
        (by omega) (by omega) (by omega) (by omega) (by omega) (by omega) (by omega) (by omega)
      omega
    · have hle : ¬ daysFromCivil (y0 + 1 + k) pm pd < daysFromCivil (y0 + 1 + k) hm hd := by
        intro hc
        exact hnlt ((md_order_transfer hvp hvh (validDate_of_1990 hvp (y0 + 1 + k))
          (validDate_of_1990 hvh (y0 + 1 + k))).mpr hc)
      have e : y0 + ((k + 1 : Nat) : Int) = y0 + 1 + k := by omega
      rw [e] at this ⊢
      omega

/-- All clock theorems hold for every run the real date set-up can start: e.g. termination. -/
theorem run_terminates_of_seasonDates {sy sm sd ey em ed pm pd hm hd : Int} {r : Seasons}
    (off : Bool) (ev : Ev) (h : seasonDates sy sm sd ey em ed pm pd hm hd = .ok r) :
    ∃ s₀ s, init (toCfg r off) = .ok s₀ ∧ runTill (toCfg r off) ev s₀ = .ok s ∧
      s.finished = true := by
  have hv := seasonDates_valid off h
  obtain ⟨s₀, h0⟩ := init_ok hv.1
  obtain ⟨s, h1, h2, _⟩ := runTill_ok hv.1 ev h0
  exact ⟨s₀, s, h0, h1, h2⟩

/-- non-vacuity: a two-season window with a crop spanning New Year -/
example : seasonDates 2001 3 1 2003 2 28 11 10 2 20 =
    .ok { n := 730, planting := [254, 619], harvest := [356, 721], season0 := -1 } := by rfl

/-- no planting date in the window: the Python raises `IndexError` -/
example : seasonDates 2001 6 1 2001 12 31 5 1 9 1 = .error .index := by rfl
/-- end date on 29 February with a within-year crop: `pd.to_datetime("1990/2/29")` raises -/
example : seasonDates 2003 3 1 2004 2 29 3 10 4 20 = .error .date := by rfl
/-- a crop spanning New Year in a window of one calendar year: `plant_years[0]` raises although
the planting date 2001-11-10 lies inside the window -/
example : seasonDates 2001 1 1 2001 12 31 11 10 2 20 = .error .index := by rfl

end Aqua
