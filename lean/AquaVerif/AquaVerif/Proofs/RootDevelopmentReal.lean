import AquaVerif.Proofs.RootDevelopment
import AquaVerif.Proofs.RealInstance
/-
Non-vacuity of the premises of `Proofs/RootDevelopment.lean`: the real power function
(`Real.rpow`, `= exp (y · log x)` for a positive base) satisfies `PowLaws`, the identity rounding satisfies `SkipOK`, and a
concrete crop / two-layer profile (with a restrictive second layer) satisfies `RdHyp`.
-/

namespace Aqua
open Aqua.Response

theorem powLaws_real : PowLaws realFn where
  pow_nonneg := fun x y hx => realFn_pow_nonneg hx.le y
  pow_le_one := fun x y hx hx1 hy => by
    rw [realFn_pow_of_pos hx]
    rw [← Real.exp_zero]
    apply Real.exp_le_exp.mpr
    exact mul_nonpos_of_nonneg_of_nonpos hy.le (Real.log_nonpos hx.le hx1)
  pow_mono := fun x x' y hx hxx hy => by
    rw [realFn_pow_of_pos hx, realFn_pow_of_pos (lt_of_lt_of_le hx hxx)]
    apply Real.exp_le_exp.mpr
    exact mul_le_mul_of_nonneg_left (Real.log_le_log hx hxx) hy.le

theorem skipOK_real (zmin : ℝ) : SkipOK realFn zmin := fun _ h => le_of_lt h

/-- wheat-like parameters -/
noncomputable def rdExCrop : RdCrop ℝ :=
  { calendarType := 1, zmin := 0.3, zmax := 1.5, pctZmin := 70, emergence := 13, maxRooting := 93,
    fshapeR := 1.5, fshapeEx := -6, pUp1 := 0.65, fshapeW1 := 2.5, sxTop := 0.054, sxBot := 0.006 }

noncomputable def rdExComp (dzsum pen : ℝ) (layer : Nat) : Comp ℝ :=
  { dz := 0.5, dzsum := dzsum, zMid := dzsum - 0.25, thS := 0.46, thFC := 0.31, thWP := 0.15,
    thDry := 0.075, tau := 0.76, ksat := 500, pen := pen, aCR := 0, bCR := 0, layer := layer }

/-- two layers of 0.5 m and 1.0 m, the lower one with 40 % penetrability -/
noncomputable def rdExCells : List (Cell ℝ) :=
  [ { c := rdExComp 0.5 100 1, th := 0.25, fcAdj := 0.31, flux := 0, aer := 0 },
    { c := rdExComp 1.0 40 2, th := 0.2, fcAdj := 0.31, flux := 0, aer := 0 },
    { c := rdExComp 1.5 40 2, th := 0.2, fcAdj := 0.31, flux := 0, aer := 0 } ]

/-- the premises of the C05 lemmas are satisfiable (real `exp`/`pow`, a restrictive layer,
partial stomatal closure) -/
example : RdHyp realFn rdExCrop rdExCells 0.5 10 ∧ LaysLe100 (layersOf rdExCells) ∧
    SkipOK realFn rdExCrop.zmin := by
  refine ⟨?_, ?_, skipOK_real _⟩
  · refine ⟨powLaws_real, expOrdLaws_real, ?_, ?_, by norm_num, by norm_num, by norm_num, ?_, ?_, ?_⟩
    · constructor <;> simp only [rdExCrop] <;> norm_num
    · apply laysNN_layersOf
      intro x hx
      simp only [rdExCells, List.mem_cons, List.not_mem_nil, or_false] at hx
      rcases hx with rfl | rfl | rfl <;> simp only [rdExComp] <;> norm_num
    · simp only [rdExCrop]; norm_num
    · simp only [rdExCrop]; norm_num
    · intro x hx
      simp only [rdExCells, List.mem_cons, List.not_mem_nil, or_false] at hx
      rcases hx with rfl | rfl | rfl <;> simp only [rdExComp] <;> norm_num
  · apply laysLe100_layersOf
    intro x hx
    simp only [rdExCells, List.mem_cons, List.not_mem_nil, or_false] at hx
    rcases hx with rfl | rfl | rfl <;> simp only [rdExComp] <;> norm_num

/-- the monotonicity of the layer limitation over the reals, no law premise left -/
theorem limit_mono_real {layers : List (Lay ℝ)} {zmin z1 z2 a b : ℝ} (hl : LaysNN layers)
    (hz : z1 ≤ z2) (h1 : limit realFn layers zmin z1 = .ok a)
    (h2 : limit realFn layers zmin z2 = .ok b) : a ≤ b :=
  limit_mono hl hz h1 h2

#print axioms powLaws_real

end Aqua
