import AquaVerif.Generated.RunDefaults
import AquaVerif.Proofs.CatalogueCfg

/-
Work package R, part 3b: **the parameter ranges of `CatCfg` hold for the repository's program
defaults.**

`Generated/RunDefaults.lean` (`runDefaults`, regenerated from `/repo` by
`harness/translate/rundefaults.py` on every run) holds the keyword defaults of `Soil`, `FieldMngt`,
`IrrigationManagement`, `CO2` and the range of the bundled Mauna Loa / A1B CO2 series as exact
rationals.  `runDefaults_ok` (kernel evaluation) checks the ranges the closed run theorems need;
`cfgRanges_of_defaults` turns "the configuration uses the defaults" (`UsesDefaults`: equalities with
the generated values, CO2 concentrations within the bundled series) into `CfgRanges`.
-/

set_option linter.unusedSectionVars false
set_option linter.unusedVariables false
namespace Aqua
open Aqua.Generated

/-- **what the closed run theorems ask of the program defaults**
1. `0 ≤ Kex`                              — `CfgEsOK.kex`
2. `0 ≤ fwcc ≤ 100`                       — `CfgEsOK.fwcc0/fwcc1`
3. `f_mulch · mulch_pct/100 ≤ 1`          — `CfgEsOK.mulch`
4. `0 ≤ WetSurf`                          — `CfgEsOK.wet`
5. `0 ≤ NetIrrSMT ≤ 100`                  — `CfgOK.smt`
6. `0 ≤ bund_water`                       — `CfgOK.bundWater`
7. `CO2ref = 369.41` (the value the CO2 premises `CropFull.CO2OK` are checked for), `< 550`
8. the bundled CO2 series lies within `[0, ref + 20·(550 − ref)]` — `CfgTrOK.co2` -/
def RunDefaultsOK (d : RunDefaults) : Prop :=
  0 ≤ d.kex ∧ 0 ≤ d.fwcc ∧ d.fwcc ≤ 100 ∧ d.fMulch * (d.mulchPct / 100) ≤ 1 ∧ 0 ≤ d.wetSurf ∧
  0 ≤ d.netIrrSMT ∧ d.netIrrSMT ≤ 100 ∧ 0 ≤ d.bundWater ∧ d.co2Ref = co2RefDefault ∧
  d.co2Ref < 550 ∧ 0 ≤ d.co2DataMin ∧ d.co2DataMax ≤ d.co2Ref + 20 * (550 - d.co2Ref)

instance (d : RunDefaults) : Decidable (RunDefaultsOK d) := by unfold RunDefaultsOK; infer_instance

/-- **the repository's program defaults, as they are now, satisfy the ranges** -/
theorem runDefaults_ok : RunDefaultsOK runDefaults := by decide +kernel

/-- the configuration uses the program defaults for the parameters the ranges are about, and CO2
concentrations of the bundled series -/
structure UsesDefaults (cfg : RunCfg ℝ) : Prop where
  kex : cfg.W0.soil.kex = (runDefaults.kex : ℝ)
  fwcc : cfg.W0.soil.fwcc = (runDefaults.fwcc : ℝ)
  fMulch : cfg.fm.fMulch = (runDefaults.fMulch : ℝ)
  mulchPct : cfg.fm.mulchPct = (runDefaults.mulchPct : ℝ)
  fMulchF : cfg.fallowFm.fMulch = (runDefaults.fMulch : ℝ)
  mulchPctF : cfg.fallowFm.mulchPct = (runDefaults.mulchPct : ℝ)
  wetSurf : cfg.irr.wetSurf = (runDefaults.wetSurf : ℝ)
  wetSurfF : cfg.fallowIrr.wetSurf = (runDefaults.wetSurf : ℝ)
  netIrrSMT : cfg.irr.netIrrSMT = (runDefaults.netIrrSMT : ℝ)
  netIrrSMTF : cfg.fallowIrr.netIrrSMT = (runDefaults.netIrrSMT : ℝ)
  bundWater : cfg.bundWater = (runDefaults.bundWater : ℝ)
  co2Ref : cfg.W0.co2Ref = (runDefaults.co2Ref : ℝ)
  co2Cur : ∀ season : Int, cfg.co2Cur season ≤ (runDefaults.co2DataMax : ℝ)

/-- **a configuration that uses the program defaults satisfies `CfgRanges`** -/
theorem cfgRanges_of_defaults {cfg : RunCfg ℝ} (h : UsesDefaults cfg) : CfgRanges cfg := by
  obtain ⟨d1, d2, d3, d4, d5, d6, d7, d8, d9, d10, d11, d12⟩ := runDefaults_ok
  have c1 : (0 : ℝ) ≤ (runDefaults.kex : ℝ) := by exact_mod_cast d1
  have c2 : (0 : ℝ) ≤ (runDefaults.fwcc : ℝ) := by exact_mod_cast d2
  have c3 : (runDefaults.fwcc : ℝ) ≤ 100 := by exact_mod_cast d3
  have c4 : (runDefaults.fMulch : ℝ) * ((runDefaults.mulchPct : ℝ) / 100) ≤ 1 := by
    have : ((runDefaults.fMulch * (runDefaults.mulchPct / 100) : ℚ) : ℝ) ≤ ((1 : ℚ) : ℝ) :=
      Rat.cast_le.mpr d4
    simpa only [Rat.cast_mul, Rat.cast_div, Rat.cast_ofNat, Rat.cast_one] using this
  have c5 : (0 : ℝ) ≤ (runDefaults.wetSurf : ℝ) := by exact_mod_cast d5
  have c6 : (0 : ℝ) ≤ (runDefaults.netIrrSMT : ℝ) := by exact_mod_cast d6
  have c7 : (runDefaults.netIrrSMT : ℝ) ≤ 100 := by exact_mod_cast d7
  have c8 : (0 : ℝ) ≤ (runDefaults.bundWater : ℝ) := by exact_mod_cast d8
  have c10 : (runDefaults.co2Ref : ℝ) < 550 := by exact_mod_cast d10
  have c12 : (runDefaults.co2DataMax : ℝ) ≤
      (runDefaults.co2Ref : ℝ) + 20 * (550 - (runDefaults.co2Ref : ℝ)) := by
    have : ((runDefaults.co2DataMax : ℚ) : ℝ) ≤
        ((runDefaults.co2Ref + 20 * (550 - runDefaults.co2Ref) : ℚ) : ℝ) := Rat.cast_le.mpr d12
    simpa only [Rat.cast_add, Rat.cast_mul, Rat.cast_sub, Rat.cast_ofNat] using this
  exact
    { smt := fun _ => by rw [h.netIrrSMT]; exact ⟨c6, c7⟩
      smtF := fun _ => by rw [h.netIrrSMTF]; exact ⟨c6, c7⟩
      bundWater := by rw [h.bundWater]; exact c8
      co2Ref := by rw [h.co2Ref]; exact c10
      co2Cur := fun season => by rw [h.co2Ref]; exact le_trans (h.co2Cur season) c12
      kex := by rw [h.kex]; exact c1
      fwcc0 := by rw [h.fwcc]; exact c2
      fwcc1 := by rw [h.fwcc]; exact c3
      mulch := fun _ => by rw [h.fMulch, h.mulchPct]; exact c4
      mulchF := fun _ => by rw [h.fMulchF, h.mulchPctF]; exact c4
      wet := fun _ => by rw [h.wetSurf]; exact c5
      wetF := fun _ => by rw [h.wetSurfF]; exact c5 }

/-- the reference concentration of the defaults is the one the crop catalogue's CO2 premises
(`CropFull.CO2OK`, `co2Params_of_ok`) are stated for -/
theorem runDefaults_co2Ref : (runDefaults.co2Ref : ℝ) = 369.41 := by
  have := runDefaults_ok.2.2.2.2.2.2.2.2.1
  rw [this]
  exact co2Ref_cast

end Aqua

section AxiomAudit
open Aqua
#print axioms runDefaults_ok
#print axioms cfgRanges_of_defaults
#print axioms runDefaults_co2Ref
end AxiomAudit
