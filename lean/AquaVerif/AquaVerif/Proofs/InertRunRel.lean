import AquaVerif.Proofs.InertRunDay
import AquaVerif.Proofs.Run
/-
Work package X, part 3 — **the relations between management records** and the day-level theorem
for each.

* `FmSim F m m'`  — two field-management records that the four readers (`rainfall_partition`,
  `infiltration`, the mulch adjustment of `soil_evaporation`, the season-start surface storage)
  cannot tell apart; instances: `FmInert` (parameters of features that are off:
  `fmSim_of_inert`), mulches at a neutral value ≡ no mulches (`fmSim_mulch_neutral`), bunds lower
  than 1 mm ≡ no bunds (`fmSim_low_bund`), a curve-number adjustment of 0 % ≡ none
  (`fmSim_cnAdj_zero`).
* `IrrSim F gs stg irrCum …` — two irrigation records (with `NetIrrSMT`, `WetSurf` and the day's
  schedule entry) that the readers cannot tell apart on a day with the given growing-season flag,
  growth stage and seasonal counter; instances: `IrrInert` (parameters of the strategies that are
  not selected, everything but the method under rain-fed / net irrigation: `irrSim_of_inert`), off
  season *every* record (`irrSim_offseason`), two records whose demand is capped to nothing
  (`irrSim_of_zero`: constant depth 0, a zero schedule entry, `MaxIrr = 0`, `MaxIrrSeason = 0`
  versus rain-fed).
* `daySim_of : IrrSim … → FmSim … → DaySim …`, hence `fullDay_of_sims` by `fullDay_sim`.
-/

set_option linter.unusedSectionVars false
set_option linter.unusedVariables false
namespace Aqua
variable {α : Type} [Field α] [LinearOrder α] [IsStrictOrderedRing α]

/-! ## 1. field management -/

/-- two field-management records the model cannot tell apart -/
structure FmSim (F : Fn α) (m m' : FieldMngt α) : Prop where
  rain : ∀ p cells daySub cn adjCN zCN,
    rainPartition F p cells daySub m'.srInhb m'.bunds m'.zBund
        (if m'.cnAdj then m'.cnAdjPct else 0) cn adjCN zCN =
      rainPartition F p cells daySub m.srInhb m.bunds m.zBund
        (if m.cnAdj then m.cnAdjPct else 0) cn adjCN zCN
  inf : ∀ cells pond infl irr appEff dp ro gs,
    (infiltration F cells pond infl irr appEff m'.bunds m'.zBund dp ro gs).map InfOut.noBranch =
      (infiltration F cells pond infl irr appEff m.bunds m.zBund dp ro gs).map InfOut.noBranch
  mulch : mulchFactor m'.mulches m'.fMulch m'.mulchPct = mulchFactor m.mulches m.fMulch m.mulchPct
  /-- `reset_initial_conditions`: the surface storage restored at a season start -/
  pond0 : ∀ bw, resetPondOf m'.bunds m'.zBund bw = resetPondOf m.bunds m.zBund bw

theorem FmSim.refl (F : Fn α) (m : FieldMngt α) : FmSim F m m :=
  ⟨fun _ _ _ _ _ _ => rfl, fun _ _ _ _ _ _ _ _ => rfl, rfl, fun _ => rfl⟩

theorem FmSim.trans {F : Fn α} {a b c : FieldMngt α} (h1 : FmSim F a b) (h2 : FmSim F b c) :
    FmSim F a c :=
  ⟨fun p cells ds cn adj z => (h2.rain p cells ds cn adj z).trans (h1.rain p cells ds cn adj z),
   fun cells pond infl irr ae dp ro gs =>
     (h2.inf cells pond infl irr ae dp ro gs).trans (h1.inf cells pond infl irr ae dp ro gs),
   h2.mulch.trans h1.mulch, fun bw => (h2.pond0 bw).trans (h1.pond0 bw)⟩

/-- **inert field-management parameters**: the two records share the four switches and runoff
inhibition; the parameters of a feature may differ when its switch is off (and the curve-number
percentage also when runoff is inhibited or held back by bunds of at least 1 mm) -/
structure FmInert (m m' : FieldMngt α) : Prop where
  srInhb : m'.srInhb = m.srInhb
  bunds : m'.bunds = m.bunds
  cnAdj : m'.cnAdj = m.cnAdj
  mulches : m'.mulches = m.mulches
  /-- `z_bund` is read only with `bunds` -/
  zBund : m.bunds = true → m'.zBund = m.zBund
  /-- `curve_number_adj_pct` is read only with `curve_number_adj`, without runoff inhibition and
  without bunds of at least 1 mm -/
  cnAdjPct : m.cnAdj = true → m.srInhb = false → (m.bunds = false ∨ m.zBund < 0.001) →
    m'.cnAdjPct = m.cnAdjPct
  /-- `f_mulch`, `mulch_pct` are read only with `mulches` -/
  fMulch : m.mulches = true → m'.fMulch = m.fMulch
  mulchPct : m.mulches = true → m'.mulchPct = m.mulchPct

theorem fmSim_of_inert (F : Fn α) {m m' : FieldMngt α} (h : FmInert m m') : FmSim F m m' := by
  obtain ⟨sr, bu, zB, cnA, cnP, mu, fM, mP⟩ := m
  obtain ⟨sr', bu', zB', cnA', cnP', mu', fM', mP'⟩ := m'
  obtain ⟨h1, h2, h3, h4, h5, h6, h7, h8⟩ := h
  simp only at h1 h2 h3 h4 h5 h6 h7 h8
  subst h1 h2 h3 h4
  refine ⟨fun p cells ds cn adj z => ?_, fun cells pond infl irr ae dp ro gs => ?_, ?_, fun bw => ?_⟩
  · simp only
    cases bu' with
    | true =>
      rw [h5 rfl]
      apply rainPartition_cn_inert
      intro hs hb
      cases cnA' with
      | false => rfl
      | true => simp only [if_true]; exact h6 rfl hs hb
    | false =>
      rw [rainPartition_bunds_off F p cells ds sr' zB' zB]
      apply rainPartition_cn_inert
      intro hs hb
      cases cnA' with
      | false => rfl
      | true => simp only [if_true]; exact h6 rfl hs (Or.inl rfl)
  · simp only
    cases bu' with
    | true => rw [h5 rfl]
    | false => rw [infiltration_bunds_off F cells pond infl irr ae zB' zB dp ro gs]
  · simp only
    cases mu' with
    | true => rw [h7 rfl, h8 rfl]
    | false => rfl
  · simp only
    cases bu' with
    | true => rw [h5 rfl]
    | false => simp [resetPondOf]

/-- **mulches at a neutral value behave as no mulches** (cover 0 % or factor 0) -/
theorem fmSim_mulch_neutral (F : Fn α) (m : FieldMngt α) (h0 : m.mulchPct = 0 ∨ m.fMulch = 0) :
    FmSim F m { m with mulches := false } := by
  refine ⟨fun _ _ _ _ _ _ => rfl, fun _ _ _ _ _ _ _ _ => rfl, ?_, fun _ => rfl⟩
  unfold mulchFactor
  cases m.mulches with
  | false => rfl
  | true => rcases h0 with h | h <;> simp [h]

/-- **bunds lower than 1 mm behave as no bunds** -/
theorem fmSim_low_bund (F : Fn α) (m : FieldMngt α) (hz : m.zBund < 0.001) :
    FmSim F m { m with bunds := false } := by
  refine ⟨fun p cells ds cn adj z => ?_, fun cells pond infl irr ae dp ro gs => ?_, rfl, fun bw => ?_⟩
  · cases hb : m.bunds with
    | false => rfl
    | true => exact (rainPartition_low_bund F p cells ds m.srInhb m.zBund _ cn adj z hz).symm
  · cases hb : m.bunds with
    | false => rfl
    | true => exact (infiltration_low_bund F cells pond infl irr ae m.zBund dp ro gs hz.le).symm
  · have : ¬ (0.001 : α) < m.zBund := not_lt.mpr hz.le
    simp [resetPondOf, this]

/-- **a curve-number adjustment of 0 % behaves as no adjustment** -/
theorem fmSim_cnAdj_zero (F : Fn α) (m : FieldMngt α) (h0 : m.cnAdjPct = 0) :
    FmSim F m { m with cnAdj := false } := by
  refine ⟨fun p cells ds cn adj z => ?_, fun _ _ _ _ _ _ _ _ => rfl, rfl, fun _ => rfl⟩
  have : (if m.cnAdj = true then m.cnAdjPct else 0) = 0 := by rw [h0]; split_ifs <;> rfl
  rw [this]
  rfl

/-! ## 2. irrigation management -/

/-- "the demand of the strategy is capped to nothing": the `if/elif` chain over the method succeeds
and what it asks for, cut at 0 and capped by the seasonal maximum, is 0 -/
def ZeroDemand (I : IrrParams α) (s : Option α) (stg : Nat) (irrCum : α) : Prop :=
  ∀ dap dep taw, ∃ x n, irrDemand I (if dap = 1 then 1 else stg) dep taw dap s = .ok (x, n) ∧
    irrCap I.maxSeason irrCum (pmax 0 x) = 0

/-- two irrigation records (with `NetIrrSMT`, `WetSurf`, the day's schedule entry) the model cannot
tell apart on a day with growing-season flag `gs`, growth stage `stg`, seasonal counter `irrCum` -/
structure IrrSim (F : Fn α) (gs : Bool) (stg : Nat) (irrCum : α)
    (I : IrrParams α) (smt wet : α) (s : Option α)
    (I' : IrrParams α) (smt' wet' : α) (s' : Option α) : Prop where
  net : gs = true → (I'.method = 4 ↔ I.method = 4)
  smt : gs = true → I.method = 4 → smt' = smt
  irr : ∀ cells ePot tPot zRoot dap zMin aer zTop rain runoff,
    (irrigation F I' cells stg irrCum ePot tPot zRoot dap s' zMin aer zTop gs rain runoff).map
        IrrOut.noBranch =
      (irrigation F I cells stg irrCum ePot tPot zRoot dap s zMin aer zTop gs rain runoff).map
        IrrOut.noBranch
  /-- after the irrigation call: nothing was applied, or efficiency and wetted fraction agree -/
  app : ∀ cells ePot tPot zRoot dap zMin aer zTop rain runoff i,
    irrigation F I cells stg irrCum ePot tPot zRoot dap s zMin aer zTop gs rain runoff = .ok i →
    i.irr = 0 ∨ (I'.appEff = I.appEff ∧ (I.method ≠ 4 → wet' = wet))

theorem IrrSim.refl (F : Fn α) (gs : Bool) (stg : Nat) (irrCum : α) (I : IrrParams α)
    (smt wet : α) (s : Option α) : IrrSim F gs stg irrCum I smt wet s I smt wet s :=
  ⟨fun _ => Iff.rfl, fun _ _ => rfl, fun _ _ _ _ _ _ _ _ _ _ => rfl,
   fun _ _ _ _ _ _ _ _ _ _ _ _ => Or.inr ⟨rfl, fun _ => rfl⟩⟩

/-- **off season nothing of the irrigation record is read** — method included -/
theorem irrSim_offseason (F : Fn α) (stg : Nat) (irrCum : α) (I I' : IrrParams α)
    (smt wet smt' wet' : α) (s s' : Option α) :
    IrrSim F false stg irrCum I smt wet s I' smt' wet' s' :=
  ⟨fun h => (by cases h), fun h => (by cases h),
   fun cells ePot tPot zRoot dap zMin aer zTop rain runoff =>
     irrigation_offseason_noBranch F cells stg irrCum ePot tPot zRoot dap zMin aer zTop rain runoff
       I I' s s',
   fun _ _ _ _ _ _ _ _ _ _ i hi => Or.inl (irr_offseason hi).1⟩

/-- **two records whose demand is capped to nothing** and that agree on "net irrigation or not"
(and on the threshold if so) -/
theorem irrSim_of_zero (F : Fn α) (gs : Bool) (stg : Nat) (irrCum : α) {I I' : IrrParams α}
    {smt wet smt' wet' : α} {s s' : Option α}
    (h4 : gs = true → (I'.method = 4 ↔ I.method = 4)) (hs : gs = true → I.method = 4 → smt' = smt)
    (hd : gs = true → ZeroDemand I s stg irrCum) (hd' : gs = true → ZeroDemand I' s' stg irrCum) :
    IrrSim F gs stg irrCum I smt wet s I' smt' wet' s' :=
  ⟨h4, hs,
   fun cells ePot tPot zRoot dap zMin aer zTop rain runoff =>
     irrigation_noBranch_of_zero F cells stg irrCum ePot tPot zRoot dap zMin aer zTop rain runoff gs
       (fun hg => hd hg dap) (fun hg => hd' hg dap),
   fun cells ePot tPot zRoot dap zMin aer zTop rain runoff i hi =>
     Or.inl (irr_zero_of_zero F cells stg irrCum ePot tPot zRoot dap zMin aer zTop rain runoff hi
       (fun hg => hd hg dap))⟩

theorem zeroDemand_rainfed_net (I : IrrParams α) (s : Option α) (stg : Nat) (irrCum : α)
    (h04 : I.method = 0 ∨ I.method = 4) : ZeroDemand I s stg irrCum :=
  fun dap dep taw => irrDemand_zero_rainfed_net irrCum dap I _ s h04 dep taw

/-- **inert irrigation parameters**: the two records share the method; a parameter may differ when
the selected strategy does not read it -/
structure IrrInert (I : IrrParams α) (smt wet : α) (s : Option α)
    (I' : IrrParams α) (smt' wet' : α) (s' : Option α) : Prop where
  method : I'.method = I.method
  /-- `SMT` — soil-moisture thresholds, method 1 only -/
  smtArr : I.method = 1 → I'.smt = I.smt
  /-- `IrrInterval` — method 2 only -/
  interval : I.method = 2 → I'.interval = I.interval
  /-- `Schedule[t]` — method 3 only -/
  sched : I.method = 3 → s' = s
  /-- `depth` — method 5 only -/
  depth : I.method = 5 → I'.depth = I.depth
  /-- `NetIrrSMT` — method 4 only -/
  netSMT : I.method = 4 → smt' = smt
  /-- `AppEff`, `MaxIrr`, `MaxIrrSeason`, `WetSurf` — not under rain-fed or net irrigation -/
  appEff : I.method ≠ 0 → I.method ≠ 4 → I'.appEff = I.appEff
  maxIrr : I.method ≠ 0 → I.method ≠ 4 → I'.maxIrr = I.maxIrr
  maxSeason : I.method ≠ 0 → I.method ≠ 4 → I'.maxSeason = I.maxSeason
  wetSurf : I.method ≠ 0 → I.method ≠ 4 → wet' = wet

theorem irrDemand_of_inert {I I' : IrrParams α} {smt wet smt' wet' : α} {s s' : Option α}
    (h : IrrInert I smt wet s I' smt' wet' s') (stage : Nat) (dep taw : α) (dap : Nat) :
    irrDemand I' stage dep taw dap s' = irrDemand I stage dep taw dap s := by
  have hm := h.method
  unfold irrDemand irrGross
  by_cases h0 : I.method = 0
  · simp [hm, h0]
  by_cases h4 : I.method = 4
  · simp [hm, h4]
  have hx := h.maxIrr h0 h4
  have he := h.appEff h0 h4
  by_cases h1 : I.method = 1
  · simp [hm, h1, h.smtArr h1, hx, he]
  by_cases h2 : I.method = 2
  · simp [hm, h2, h.interval h2, hx, he]
  by_cases h3 : I.method = 3
  · simp [hm, h3, h.sched h3, hx]
  by_cases h5 : I.method = 5
  · simp [hm, h5, h.depth h5, hx]
  simp [hm, h0, h1, h2, h3, h4, h5]

theorem irrSim_of_inert (F : Fn α) (gs : Bool) (stg : Nat) (irrCum : α) {I I' : IrrParams α}
    {smt wet smt' wet' : α} {s s' : Option α} (h : IrrInert I smt wet s I' smt' wet' s') :
    IrrSim F gs stg irrCum I smt wet s I' smt' wet' s' := by
  by_cases h04 : I.method = 0 ∨ I.method = 4
  · have h04' : I'.method = 0 ∨ I'.method = 4 := by rw [h.method]; exact h04
    exact irrSim_of_zero F gs stg irrCum (fun _ => by rw [h.method]) (fun _ => h.netSMT)
      (fun _ => zeroDemand_rainfed_net I s stg irrCum h04)
      (fun _ => zeroDemand_rainfed_net I' s' stg irrCum h04')
  · have h0 : I.method ≠ 0 := fun e => h04 (Or.inl e)
    have h4 : I.method ≠ 4 := fun e => h04 (Or.inr e)
    refine ⟨fun _ => by rw [h.method], fun _ => h.netSMT,
      fun cells ePot tPot zRoot dap zMin aer zTop rain runoff => ?_,
      fun _ _ _ _ _ _ _ _ _ _ _ _ => Or.inr ⟨h.appEff h0 h4, fun _ => h.wetSurf h0 h4⟩⟩
    rw [irrigation_congr F cells stg irrCum ePot tPot zRoot dap zMin aer zTop gs rain runoff s s'
      h.method (h.maxSeason h0 h4) (fun stage dep taw => irrDemand_of_inert h stage dep taw dap)]

/-! ## 3. from the relations to the day -/

section day
variable {F : Fn α} {T : TrigFn α} {P : DayParams α} {st : DayState' α} {D : DayIn' α}
  {irr' : IrrParams α} {smt' wet' : α} {fm' : FieldMngt α} {s' : Option α}

theorem daySim_of
    (hI : IrrSim F D.gs st.growthStage st.irrCum P.W.irr P.W.netIrrSMT P.W.wetSurf D.sched
      irr' smt' wet' s')
    (hF : FmSim F P.fm fm') : DaySim F P st D irr' smt' wet' fm' s' := by
  refine ⟨hI.net, fun np cells dap zRoot => ?_, fun cells => hF.rain _ _ _ _ _ _,
    fun cells zRoot dap runoff => hI.irr _ _ _ _ _ _ _ _ _ _,
    fun cells0 zRoot dap runoff0 i hi cells infl dp ro => ?_,
    fun cells0 zRoot dap runoff0 i hi S cells infl => ?_, fun cells S gdd => ?_⟩
  · exact preIrrigationT_method_congr F np cells D.gs _ _ dap zRoot _ _ _ hI.net hI.smt
  · rw [← hF.inf]
    congr 1
    apply infiltration_appEff_inert'
    cases hg : D.gs with
    | false => exact Or.inl rfl
    | true =>
      rcases hI.app _ _ _ _ _ _ _ _ _ _ i hi with h | h
      · exact Or.inr (Or.inl h)
      · exact Or.inr (Or.inr h.1)
  · have hP : dayEvapParams (P.withMgmt irr' smt' wet' fm').W fm' =
        (dayEvapParams P.W P.fm).withAdj fm'.mulches fm'.fMulch fm'.mulchPct wet' irr'.method := rfl
    rw [hP]
    have hz : (dayEvapDay D.water infl i.irr).irr ≤ 0 ∨
        ((irr'.method = 4 ↔ P.W.irr.method = 4) ∧ (P.W.irr.method ≠ 4 → wet' = P.W.wetSurf)) := by
      cases hg : D.gs with
      | false =>
        rw [hg] at hi
        exact Or.inl (le_of_eq (irr_offseason hi).1)
      | true =>
        rcases hI.app _ _ _ _ _ _ _ _ _ _ i hi with h | h
        · exact Or.inl (le_of_eq h)
        · exact Or.inr ⟨hI.net hg, h.2⟩
    apply soilEvaporation_withAdj
    · intro s
      apply evapRefresh_method
      rcases hz with h | h
      · exact Or.inl h
      · exact Or.inr h.1
    · intro e
      exact esPotAdjust_value _ _ _ _ _ _ _ _ e hF.mulch hz
  · exact transpiration_method_congr F cells _ _ _ _ _ _ _ S _ _ _ D.gs gdd hI.net hI.smt

/-- **one day under two management records the model cannot tell apart** -/
theorem fullDay_of_sims
    (hI : IrrSim F D.gs st.growthStage st.irrCum P.W.irr P.W.netIrrSMT P.W.wetSurf D.sched
      irr' smt' wet' s')
    (hF : FmSim F P.fm fm') :
    (fullDay F T (P.withMgmt irr' smt' wet' fm') st { D with sched := s' }).map
        DayResult.noBranch =
      (fullDay F T P st D).map DayResult.noBranch :=
  fullDay_sim (daySim_of hI hF)

end day
end Aqua
