import AquaVerif.Model.PreIrrigation
import AquaVerif.Proofs.GwCommon
/-
Lemmas about `preIrrigation` (`Model/PreIrrigation.lean`) at an arbitrary ordered field.
Everything is proved for `preIrrigationR rnd` with an *arbitrary* rounding function `rnd`, hence
for `preIrrigationT F b` and `preIrrigation F`; no law of `F` is used.
-/

set_option linter.unusedSectionVars false
set_option linter.unusedVariables false
namespace Aqua
variable {α : Type} [Field α] [LinearOrder α] [IsStrictOrderedRing α]

/-! ### the loop -/

theorem preIrrLoop_storage (smt : α) (n : Nat) (cells : List (Cell α)) (acc : α) :
    storage (preIrrLoop smt n cells acc).1 = storage cells + ((preIrrLoop smt n cells acc).2 - acc) := by
  induction n generalizing cells acc with
  | zero => simp [preIrrLoop]
  | succ n ih =>
    cases cells with
    | nil => simp [preIrrLoop]
    | cons x xs =>
      by_cases h : x.th < preIrrCrit smt x.c
      · simp only [preIrrLoop, h, if_true, storage_cons, Cell.water]
        rw [ih]; ring
      · simp only [preIrrLoop, h, if_false, storage_cons]
        rw [ih]; ring

theorem preIrrLoop_acc_le (smt : α) (n : Nat) (cells : List (Cell α)) (acc : α)
    (hdz : ∀ x ∈ cells, 0 ≤ x.c.dz) : acc ≤ (preIrrLoop smt n cells acc).2 := by
  induction n generalizing cells acc with
  | zero => simp [preIrrLoop]
  | succ n ih =>
    cases cells with
    | nil => simp [preIrrLoop]
    | cons x xs =>
      have hx := hdz x (by simp)
      have hxs : ∀ y ∈ xs, 0 ≤ y.c.dz := fun y hy => hdz y (by simp [hy])
      by_cases h : x.th < preIrrCrit smt x.c
      · simp only [preIrrLoop, h, if_true]
        have : 0 ≤ (preIrrCrit smt x.c - x.th) * 1000 * x.c.dz := by
          have := sub_pos.mpr h; positivity
        exact le_trans (by linarith) (ih xs _ hxs)
      · simp only [preIrrLoop, h, if_false]
        exact ih xs _ hxs

/-- pointwise relation between input and output cells of the loop -/
theorem preIrrLoop_rel (smt : α) (n : Nat) (cells : List (Cell α)) (acc : α) :
    List.Forall₂ (fun x y : Cell α => y.c = x.c ∧ y.fcAdj = x.fcAdj ∧ y.flux = x.flux ∧ y.aer = x.aer ∧
      x.th ≤ y.th ∧ (y.th = x.th ∨ y.th = preIrrCrit smt x.c))
      cells (preIrrLoop smt n cells acc).1 := by
  induction n generalizing cells acc with
  | zero =>
    simp only [preIrrLoop]
    exact List.forall₂_same.mpr (fun x _ => ⟨rfl, rfl, rfl, rfl, le_refl _, Or.inl rfl⟩)
  | succ n ih =>
    cases cells with
    | nil => simp [preIrrLoop]
    | cons x xs =>
      by_cases h : x.th < preIrrCrit smt x.c
      · simp only [preIrrLoop, h, if_true]
        exact List.Forall₂.cons ⟨rfl, rfl, rfl, rfl, le_of_lt h, Or.inr rfl⟩ (ih xs _)
      · simp only [preIrrLoop, h, if_false]
        exact List.Forall₂.cons ⟨rfl, rfl, rfl, rfl, le_refl _, Or.inl rfl⟩ (ih xs _)

/-- the loop is `range(compRz)`: compartment `compRz` (which contains the bottom of the root zone)
and everything below it is untouched. -/
theorem preIrrLoop_drop (smt : α) (n : Nat) (cells : List (Cell α)) (acc : α) :
    (preIrrLoop smt n cells acc).1.drop n = cells.drop n := by
  induction n generalizing cells acc with
  | zero => simp [preIrrLoop]
  | succ n ih =>
    cases cells with
    | nil => simp [preIrrLoop]
    | cons x xs =>
      by_cases h : x.th < preIrrCrit smt x.c
      · simp only [preIrrLoop, h, if_true, List.drop_succ_cons]; exact ih xs _
      · simp only [preIrrLoop, h, if_false, List.drop_succ_cons]; exact ih xs _

/-- the first `compRz` compartments end at or above their threshold. -/
theorem preIrrLoop_take (smt : α) (n : Nat) (cells : List (Cell α)) (acc : α) :
    ∀ y ∈ (preIrrLoop smt n cells acc).1.take n, preIrrCrit smt y.c ≤ y.th := by
  induction n generalizing cells acc with
  | zero => simp
  | succ n ih =>
    cases cells with
    | nil => simp [preIrrLoop]
    | cons x xs =>
      by_cases h : x.th < preIrrCrit smt x.c
      · simp only [preIrrLoop, h, if_true, List.take_succ_cons]
        intro y hy
        rcases List.mem_cons.mp hy with rfl | hy'
        · exact le_refl _
        · exact ih xs _ y hy'
      · simp only [preIrrLoop, h, if_false, List.take_succ_cons]
        intro y hy
        rcases List.mem_cons.mp hy with rfl | hy'
        · exact not_lt.mp h
        · exact ih xs _ y hy'

/-- `thCrit` lies between wilting point and field capacity when `0 ≤ NetIrrSMT ≤ 100`. -/
theorem preIrrCrit_le_fc (smt : α) (c : Comp α) (h0 : 0 ≤ smt) (h100 : smt ≤ 100)
    (hwf : c.thWP ≤ c.thFC) : c.thWP ≤ preIrrCrit smt c ∧ preIrrCrit smt c ≤ c.thFC := by
  unfold preIrrCrit
  have hd : 0 ≤ c.thFC - c.thWP := sub_nonneg.mpr hwf
  have h1 : 0 ≤ smt / 100 := by positivity
  have h2 : smt / 100 ≤ 1 := by rw [div_le_one (by norm_num)]; exact h100
  constructor
  · nlinarith [mul_nonneg h1 hd]
  · nlinarith [mul_nonneg (sub_nonneg.mpr h2) hd]

/-! ### the process -/

/-- shape of every successful call: unchanged, or the loop over the first `k` compartments. -/
theorem preIrrigationR_cases (rnd : α → α) (cells : List (Cell α)) (gs : Bool) (m : Nat)
    (dap : Int) (zRoot zMin smt : α) (r : List (Cell α) × α)
    (h : preIrrigationR rnd cells gs m dap zRoot zMin smt = some r) :
    r = (cells, 0) ∨ ∃ k, firstGE (rnd (pmax zRoot zMin)) cells = some k ∧
      gs = true ∧ m = 4 ∧ dap = 1 ∧ r = preIrrLoop smt k cells 0 := by
  unfold preIrrigationR at h
  by_cases hg : gs = true
  · by_cases hm : m ≠ 4 ∨ dap ≠ 1
    · simp only [hg, hm, if_true] at h
      exact Or.inl (Option.some.inj h).symm
    · simp only [hg, hm, if_true, if_false] at h
      rw [not_or, not_not, not_not] at hm
      cases hk : firstGE (rnd (pmax zRoot zMin)) cells with
      | none => rw [hk] at h; simp at h
      | some k =>
        rw [hk] at h
        exact Or.inr ⟨k, rfl, hg, hm.1, hm.2, (Option.some.inj h).symm⟩
  · simp only [hg] at h
    exact Or.inl (Option.some.inj h).symm

/-- **Water balance**: storage after = storage before + `PreIrr`. -/
theorem preIrrigationR_balance (rnd : α → α) (cells : List (Cell α)) (gs : Bool) (m : Nat)
    (dap : Int) (zRoot zMin smt : α) (r : List (Cell α) × α)
    (h : preIrrigationR rnd cells gs m dap zRoot zMin smt = some r) :
    storage r.1 = storage cells + r.2 := by
  rcases preIrrigationR_cases rnd cells gs m dap zRoot zMin smt r h with rfl | ⟨k, _, _, _, _, rfl⟩
  · simp
  · rw [preIrrLoop_storage]; ring

theorem preIrrigation_balance (F : Fn α) (cells : List (Cell α)) (gs : Bool) (m : Nat)
    (dap : Int) (zRoot zMin smt : α) (r : List (Cell α) × α)
    (h : preIrrigation F cells gs m dap zRoot zMin smt = some r) :
    storage r.1 = storage cells + r.2 :=
  preIrrigationR_balance _ cells gs m dap zRoot zMin smt r h

theorem preIrrigationT_balance (F : Fn α) (b : Bool) (cells : List (Cell α)) (gs : Bool) (m : Nat)
    (dap : Int) (zRoot zMin smt : α) (r : List (Cell α) × α)
    (h : preIrrigationT F b cells gs m dap zRoot zMin smt = some r) :
    storage r.1 = storage cells + r.2 :=
  preIrrigationR_balance _ cells gs m dap zRoot zMin smt r h

/-- **Frame + monotonicity**: compartment parameters, `fcAdj`, `flux`, `aer` are untouched, water
content never decreases, and a changed compartment sits exactly at `thCrit`. -/
theorem preIrrigationR_frame (rnd : α → α) (cells : List (Cell α)) (gs : Bool) (m : Nat)
    (dap : Int) (zRoot zMin smt : α) (r : List (Cell α) × α)
    (h : preIrrigationR rnd cells gs m dap zRoot zMin smt = some r) :
    List.Forall₂ (fun x y : Cell α => y.c = x.c ∧ y.fcAdj = x.fcAdj ∧ y.flux = x.flux ∧ y.aer = x.aer ∧
      x.th ≤ y.th ∧ (y.th = x.th ∨ y.th = preIrrCrit smt x.c)) cells r.1 := by
  rcases preIrrigationR_cases rnd cells gs m dap zRoot zMin smt r h with rfl | ⟨k, _, _, _, _, rfl⟩
  · exact List.forall₂_same.mpr (fun x _ => ⟨rfl, rfl, rfl, rfl, le_refl _, Or.inl rfl⟩)
  · exact preIrrLoop_rel smt k cells 0

theorem preIrrigationR_length (rnd : α → α) (cells : List (Cell α)) (gs : Bool) (m : Nat)
    (dap : Int) (zRoot zMin smt : α) (r : List (Cell α) × α)
    (h : preIrrigationR rnd cells gs m dap zRoot zMin smt = some r) :
    r.1.length = cells.length :=
  (preIrrigationR_frame rnd cells gs m dap zRoot zMin smt r h).length_eq.symm

/-- **Non-negativity** of the pre-irrigation depth (compartment thicknesses `≥ 0`). -/
theorem preIrrigationR_nonneg (rnd : α → α) (cells : List (Cell α)) (gs : Bool) (m : Nat)
    (dap : Int) (zRoot zMin smt : α) (r : List (Cell α) × α)
    (hdz : ∀ x ∈ cells, 0 ≤ x.c.dz)
    (h : preIrrigationR rnd cells gs m dap zRoot zMin smt = some r) : 0 ≤ r.2 := by
  rcases preIrrigationR_cases rnd cells gs m dap zRoot zMin smt r h with rfl | ⟨k, _, _, _, _, rfl⟩
  · simp
  · exact preIrrLoop_acc_le smt k cells 0 hdz

/-- **Bounds**: with `0 ≤ NetIrrSMT ≤ 100` the cell invariant is preserved and no compartment is
raised above field capacity: every output cell `y` stems from an input cell `x` with
`y.th ≤ max x.th x.c.thFC`. -/
theorem preIrrigationR_inv (rnd : α → α) (cells : List (Cell α)) (gs : Bool) (m : Nat)
    (dap : Int) (zRoot zMin smt : α) (r : List (Cell α) × α)
    (h0 : 0 ≤ smt) (h100 : smt ≤ 100) (hinv : ∀ x ∈ cells, x.Inv)
    (h : preIrrigationR rnd cells gs m dap zRoot zMin smt = some r) :
    ∀ y ∈ r.1, y.Inv ∧ ∃ x ∈ cells, y.c = x.c ∧ x.th ≤ y.th ∧ y.th ≤ max x.th x.c.thFC := by
  have hf := preIrrigationR_frame rnd cells gs m dap zRoot zMin smt r h
  intro y hy
  obtain ⟨x, hx, hc, hfc, -, -, hle, hth⟩ := gw_forall₂_mem_right hf hy
  have ix := hinv x hx
  have hcr := preIrrCrit_le_fc smt x.c h0 h100 (le_of_lt ix.wf.wp_fc)
  rcases hth with e | e
  · exact ⟨⟨hc ▸ ix.wf, by rw [hc, e]; exact ix.th_lo, by rw [hc, e]; exact ix.th_hi,
      by rw [hc, hfc]; exact ix.fc_lo, by rw [hc, hfc]; exact ix.fc_hi⟩,
      x, hx, hc, hle, by rw [e]; exact le_max_left _ _⟩
  · exact ⟨⟨hc ▸ ix.wf, by rw [hc]; exact le_trans ix.th_lo hle,
      by rw [hc, e]; exact le_trans hcr.2 ix.wf.fc_s,
      by rw [hc, hfc]; exact ix.fc_lo, by rw [hc, hfc]; exact ix.fc_hi⟩,
      x, hx, hc, hle, by rw [e]; exact le_trans hcr.2 (le_max_right _ _)⟩

/-- outside the growing season, in any other irrigation mode, or on any other day than the first
after planting: nothing happens. -/
theorem preIrrigationR_inactive (rnd : α → α) (cells : List (Cell α)) (gs : Bool) (m : Nat)
    (dap : Int) (zRoot zMin smt : α) (hna : gs = false ∨ m ≠ 4 ∨ dap ≠ 1) :
    preIrrigationR rnd cells gs m dap zRoot zMin smt = some (cells, 0) := by
  unfold preIrrigationR
  rcases hna with h | h
  · simp [h]
  · by_cases hg : gs = true <;> simp [hg, h]

/-- the Python `IndexError`: exactly when no compartment bottom reaches the rounded root depth. -/
theorem preIrrigationR_error_iff (rnd : α → α) (cells : List (Cell α)) (zRoot zMin smt : α) :
    preIrrigationR rnd cells true 4 1 zRoot zMin smt = none ↔
      firstGE (rnd (pmax zRoot zMin)) cells = none := by
  unfold preIrrigationR
  cases hk : firstGE (rnd (pmax zRoot zMin)) cells <;> simp [hk]

/-! ### non-vacuity: a concrete two-compartment call at `ℚ` -/

example :
    (preIrrigationR id [⟨gwExComp (1/10) (1/20), 1/10, 3/10, 0, 0⟩, ⟨gwExComp (1/5) (3/20), 1/10, 3/10, 0, 0⟩]
      true 4 1 (1/5) (1/10) 50).map (·.2) = some 10 := by
  have h1 : firstGE (id (pmax (1/5 : ℚ) (1/10)))
      [⟨gwExComp (1/10) (1/20), 1/10, 3/10, 0, 0⟩, ⟨gwExComp (1/5) (3/20), 1/10, 3/10, 0, 0⟩] = some (0+1) := by
    norm_num [firstGE, pmax, gwExComp]
  simp only [preIrrigationR, h1, preIrrLoop]
  norm_num [preIrrCrit, gwExComp]

end Aqua

section
open Aqua
#print axioms preIrrigationR_balance
#print axioms preIrrigationR_frame
#print axioms preIrrigationR_nonneg
#print axioms preIrrigationR_inv
end
