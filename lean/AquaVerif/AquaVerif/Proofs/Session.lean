import AquaVerif.Model.Session
import AquaVerif.Proofs.Clock
/-
Theorems about the API state machine `Aqua.Session` (`Model/Session.lean`).
Core Lean only (`simp`, `omega`, `split`, `decide`).
-/

namespace Aqua.Session
open Aqua.Clock

variable {c : Cfg} {ev : Ev}

/-! ### `update_time` / `_perform_timestep` with partial effects agree with the clock model -/

theorem updateTimeP_spec (c : Cfg) (s : St) :
    match updateTime c s with
    | .ok s' => updateTimeP c s = (s', false, none)
    | .error _ => (updateTimeP c s).2.2 ≠ none := by
  unfold updateTime updateTimeP
  by_cases h1 : s.finished = true
  · simp [h1]
  · simp only [h1]
    by_cases h2 : (s.harvestFlag && !c.offSeason) = true
    · simp only [h2, if_true]
      by_cases h3 : s.season < c.nSeasons - 1
      · simp only [h3, if_true]
        cases hp : pyGet c.planting (s.season + 1) with
        | error e => simp [bind, Except.bind]
        | ok p =>
          simp only [bind, Except.bind]
          by_cases h4 : p ≥ c.n
          · simp [h4]
          · by_cases h5 : p + 1 ≥ c.n
            · simp [h4, h5]
            · simp [h4, h5, pure, Except.pure]
      · simp [h3, pure, Except.pure]
    · simp only [h2]
      by_cases h4 : s.t + 1 ≥ c.n
      · simp [h4]
      · by_cases h5 : s.t + 1 + 1 ≥ c.n
        · simp [h4, h5]
        · simp only [h4, h5, if_false]
          by_cases h3 : s.season < c.nSeasons - 1
          · simp only [h3, if_true]
            cases hp : pyGet c.planting (s.season + 1) with
            | error e => simp [bind, Except.bind]
            | ok p =>
              simp only [bind, Except.bind]
              by_cases h6 : s.t + 1 = p
              · simp [h6, pure, Except.pure]
              · simp [h6, pure, Except.pure]
          · simp [h3, pure, Except.pure]

/-- the partial-effect version succeeds exactly when `Clock.updateTime` does, with its result -/
theorem updateTimeP_of_ok {s s' : St} (h : updateTime c s = .ok s') :
    updateTimeP c s = (s', false, none) := by
  have := updateTimeP_spec c s
  rw [h] at this; exact this

theorem updateTimeP_none {s s' : St} {d : Bool} (h : updateTimeP c s = (s', d, none)) :
    updateTime c s = .ok s' ∧ d = false := by
  have := updateTimeP_spec c s
  cases hu : updateTime c s with
  | error e => rw [hu] at this; simp [h] at this
  | ok s'' =>
    rw [hu] at this; simp only at this
    rw [h] at this
    simp only [Prod.mk.injEq] at this
    exact ⟨by rw [this.1], this.2.1⟩

theorem updateTimeP_finished (c : Cfg) (s : St) : (updateTimeP c s).1.finished = s.finished := by
  unfold updateTimeP
  dsimp only
  repeat' split
  all_goals first | rfl | simp [resetSeason]

/-- when `update_time` raises the model is not finished -/
theorem updateTimeP_some {s s' : St} {d : Bool} {e : Exc} (h : updateTimeP c s = (s', d, some e)) :
    s'.finished = false := by
  have h1 := updateTimeP_finished c s
  rw [h] at h1
  cases hf : s.finished with
  | false => rw [← hf]; exact h1
  | true =>
    unfold updateTimeP at h
    simp [hf] at h

/-- a successful `_perform_timestep` of the clock model is a successful one of the API object
(tables not yet DataFrames), which then converts the tables iff the model finished or
`__steps_are_finished` is set -/
theorem performP_of_perform {o : Obj} {s' : St} (saf : Bool) (hc : o.converted = false)
    (hd : o.desync = false) (h : perform c ev o.clock = .ok s') :
    performP c ev saf o = ({ clock := s', converted := s'.finished || saf, desync := false }, none) := by
  have hf := unfinished_of_perform_ok h
  unfold perform solution at h
  simp only [hf, Bool.false_eq_true, if_false] at h
  cases hs : seasonInfo c o.clock.season with
  | error e => rw [hs] at h; cases h
  | ok ph =>
    rw [hs] at h
    have h : updateTime c (checkFinished c (solCore ev o.clock ph)) = .ok s' := h
    unfold performP
    simp only [hd, Bool.false_eq_true, if_false, hs, hc, updateTimeP_of_ok h]

/-- conversely -/
theorem performP_none {o o' : Obj} {saf : Bool} (h : performP c ev saf o = (o', none)) :
    o.converted = false ∧ o.desync = false ∧ o'.desync = false ∧
    o'.converted = (o'.clock.finished || saf) ∧
    (o.clock.finished = false → perform c ev o.clock = .ok o'.clock) := by
  unfold performP at h
  cases hd : o.desync with
  | true => simp [hd] at h
  | false =>
    simp only [hd, Bool.false_eq_true, if_false] at h
    cases hs : seasonInfo c o.clock.season with
    | error e => simp [hs] at h
    | ok ph =>
      simp only [hs] at h
      cases hc : o.converted with
      | true => simp [hc] at h
      | false =>
        simp only [hc, Bool.false_eq_true, if_false] at h
        rcases hu : updateTimeP c (checkFinished c (solCore ev o.clock ph)) with ⟨s3, d, r⟩
        rw [hu] at h
        cases r with
        | some e => simp at h
        | none =>
          simp only [Prod.mk.injEq, and_true] at h
          subst h
          refine ⟨rfl, rfl, rfl, rfl, fun hf => ?_⟩
          unfold perform solution
          simp only [hf, Bool.false_eq_true, if_false, hs]
          exact (updateTimeP_none hu).1

/-- what an exception inside `_perform_timestep` leaves behind: the model is finished only if it
was before; the tables keep their kind, rows and summary -/
theorem performP_some {o o' : Obj} {saf : Bool} {e : Exc} (h : performP c ev saf o = (o', some e)) :
    (o'.clock.finished = true → o.clock.finished = true) ∧ o'.converted = o.converted := by
  unfold performP at h
  cases hd : o.desync with
  | true => simp [hd] at h; obtain ⟨rfl, _⟩ := h; exact ⟨id, rfl⟩
  | false =>
    simp only [hd, Bool.false_eq_true, if_false] at h
    cases hs : seasonInfo c o.clock.season with
    | error e => simp [hs] at h; obtain ⟨rfl, _⟩ := h; exact ⟨id, rfl⟩
    | ok ph =>
      simp only [hs] at h
      cases hc : o.converted with
      | true =>
        simp only [hc, if_true, Prod.mk.injEq] at h
        obtain ⟨rfl, _⟩ := h
        exact ⟨id, rfl⟩
      | false =>
        simp only [hc, Bool.false_eq_true, if_false] at h
        rcases hu : updateTimeP c (checkFinished c (solCore ev o.clock ph)) with ⟨s3, d, r⟩
        rw [hu] at h
        cases r with
        | none => simp at h
        | some e' =>
          simp only [Prod.mk.injEq] at h
          obtain ⟨rfl, _⟩ := h
          refine ⟨fun hf => ?_, rfl⟩
          have := updateTimeP_some hu
          simp only at hf
          rw [this] at hf; cases hf

/-- **a `_perform_timestep` on tables that are DataFrames** raises the table-write exception and
changes nothing but `dap`, `crop_mature`, `crop_dead` (the in-place update of `NewCond`) -/
theorem performP_converted {o : Obj} (saf : Bool) (hc : o.converted = true) (hd : o.desync = false)
    {ph : Option (Nat × Int)} (hs : seasonInfo c o.clock.season = .ok ph) :
    performP c ev saf o =
      ({ o with clock := { o.clock with dap := (solCore ev o.clock ph).dap,
                                        mature := (solCore ev o.clock ph).mature,
                                        dead := (solCore ev o.clock ph).dead } },
       some (if c.n = 3 then .tableKey else .tableWrite)) := by
  unfold performP
  simp only [hd, Bool.false_eq_true, if_false, hs, hc, if_true]

/-! ### Invariant of the API object -/

/-- a finished clock has DataFrame tables -/
def ObjOK (o : Obj) : Prop := o.clock.finished = true → o.converted = true

theorem performP_objOK {o : Obj} (saf : Bool) (h : ObjOK o) : ObjOK (performP c ev saf o).1 := by
  rcases hp : performP c ev saf o with ⟨o', r⟩
  cases r with
  | none =>
    obtain ⟨_, _, _, hc, _⟩ := performP_none hp
    intro hf
    show o'.converted = true
    rw [hc, hf]; rfl
  | some e =>
    obtain ⟨h1, h2⟩ := performP_some hp
    intro hf
    show o'.converted = true
    rw [h2]; exact h (h1 hf)

theorem init_unfinished {s0 : St} (h : Clock.init c = .ok s0) : s0.finished = false := by
  unfold Clock.init at h
  repeat' split at h
  all_goals first | (cases h; rfl) | cases h

theorem tillLoop_spec (saf : Bool) : ∀ (f : Nat) (o : Obj), ObjOK o →
    ObjOK (tillLoop c ev saf f o).1 ∧
    ((tillLoop c ev saf f o).2 = none ↔ (tillLoop c ev saf f o).1.clock.finished = true) := by
  intro f
  induction f with
  | zero =>
    intro o h
    unfold tillLoop
    cases hf : o.clock.finished with
    | true => simp [hf, h]
    | false => simp [hf, h]
  | succ f ih =>
    intro o h
    unfold tillLoop
    cases hf : o.clock.finished with
    | true => simp [hf, h]
    | false =>
      simp only [Bool.false_eq_true, if_false]
      rcases hp : performP c ev saf o with ⟨o', r⟩
      have hok : ObjOK o' := by have := performP_objOK (c := c) (ev := ev) saf h; rw [hp] at this; exact this
      cases r with
      | none => exact ih o' hok
      | some e =>
        refine ⟨hok, ?_⟩
        have := (performP_some hp).1
        simp only [reduceCtorEq, false_iff]
        intro hf'
        rw [this hf'] at hf; cases hf

theorem stepsLoop_none (po : Bool) (k : Nat) (saf : Bool) :
    stepsLoop c ev po (k + 1) saf none = (saf || (po && decide (k = 0)), none, .raised .attr) := rfl

/-- how the `for` loop ends on an initialised object -/
theorem stepsLoop_spec (po : Bool) : ∀ (k : Nat) (saf : Bool) (ob : Obj), ObjOK ob →
    ∃ ob', (stepsLoop c ev po k saf (some ob)).2.1 = some ob' ∧ ObjOK ob' ∧
      ((stepsLoop c ev po k saf (some ob)).2.2 = .finished → ob'.clock.finished = true) ∧
      ((stepsLoop c ev po k saf (some ob)).2.2 = .exhausted → 1 ≤ k → ob'.clock.finished = false) ∧
      (∀ e, (stepsLoop c ev po k saf (some ob)).2.2 = .raised e → ob'.clock.finished = true →
        ob.clock.finished = true) := by
  intro k
  induction k with
  | zero =>
    intro saf ob h
    exact ⟨ob, rfl, h, by simp [stepsLoop], by simp, by simp [stepsLoop]⟩
  | succ k ih =>
    intro saf ob h
    unfold stepsLoop
    simp only
    rcases hp : performP c ev (saf || (po && decide (k = 0))) ob with ⟨ob1, r⟩
    have hok : ObjOK ob1 := by
      have := performP_objOK (c := c) (ev := ev) (saf || (po && decide (k = 0))) h
      rw [hp] at this; exact this
    cases r with
    | some e =>
      exact ⟨ob1, rfl, hok, by simp, by simp, fun _ _ hf => (performP_some hp).1 hf⟩
    | none =>
      simp only
      cases hf1 : ob1.clock.finished with
      | true =>
        simp only [if_true]
        exact ⟨ob1, rfl, hok, fun _ => hf1, by simp, by simp⟩
      | false =>
        simp only [Bool.false_eq_true, if_false]
        obtain ⟨ob', h1, h2, h3, h4, h5⟩ := ih (saf || (po && decide (k = 0))) ob1 hok
        refine ⟨ob', h1, h2, h3, ?_, ?_⟩
        · intro he _
          cases k with
          | zero =>
            simp only [stepsLoop] at h1
            cases h1; exact hf1
          | succ k => exact h4 he (by omega)
        · intro e he hf
          have := h5 e he hf
          rw [this] at hf1; cases hf1

/-- **Invariant of every reachable API state.** -/
structure Inv (s : SSt) : Prop where
  /-- `__has_model_executed` implies that `_initialize` has succeeded once -/
  exec : s.executed = true → s.obj.isSome = true
  /-- finished clock ⇒ DataFrame tables, and the flags say "executed, finished" -/
  fin : ∀ o, s.obj = some o → ObjOK o ∧
    (o.clock.finished = true → s.hasFinished = true ∧ s.executed = true)

theorem inv_fresh : Inv fresh := ⟨by simp [fresh], by simp [fresh]⟩

theorem inv_initObj {s : SSt} (h : Inv s) : Inv (initObj c s).1 := by
  unfold initObj
  cases hc : Clock.init c with
  | error e => exact ⟨h.exec, h.fin⟩
  | ok k =>
    have hu := init_unfinished hc
    refine ⟨fun _ => rfl, ?_⟩
    intro o ho
    simp only [Option.some.injEq] at ho
    subst ho
    exact ⟨fun hf => by simp [hu] at hf, fun hf => by simp [hu] at hf⟩

theorem inv_runBody {s0 : SSt} (k : Int) (till po : Bool) (h : Inv s0) :
    Inv (runBody c ev k till po s0).1 := by
  unfold runBody
  cases till with
  | true =>
    simp only [if_true]
    cases ho : s0.obj with
    | none => exact h
    | some o =>
      simp only
      obtain ⟨hok, hfl⟩ := h.fin o ho
      obtain ⟨h1, h2⟩ := tillLoop_spec (c := c) (ev := ev) s0.stepsAreFinished (fuel c) o hok
      rcases ht : tillLoop c ev s0.stepsAreFinished (fuel c) o with ⟨o', r⟩
      rw [ht] at h1 h2
      cases r with
      | some e =>
        refine ⟨fun he => rfl, ?_⟩
        intro o2 ho2
        simp only [Option.some.injEq] at ho2
        subst ho2
        refine ⟨h1, fun hf => ?_⟩
        have := h2.mpr hf
        cases this
      | none =>
        refine ⟨fun he => rfl, ?_⟩
        intro o2 ho2
        simp only [Option.some.injEq] at ho2
        subst ho2
        exact ⟨h1, fun _ => ⟨rfl, rfl⟩⟩
  | false =>
    simp only [Bool.false_eq_true, if_false]
    by_cases hk : k < 1
    · simp only [hk, if_true]; exact h
    · simp only [hk, if_false]
      cases ho : s0.obj with
      | none =>
        obtain ⟨j, hj⟩ : ∃ j, k.toNat = j + 1 := ⟨k.toNat - 1, by omega⟩
        rw [hj, stepsLoop_none]
        refine ⟨fun he => ?_, fun o h2 => by simp at h2⟩
        have := h.exec he
        rw [ho] at this; cases this
      | some ob =>
        obtain ⟨hok, hfl⟩ := h.fin ob ho
        obtain ⟨ob', h1, h2, h3, h4, h5⟩ :=
          stepsLoop_spec (c := c) (ev := ev) po k.toNat s0.stepsAreFinished ob hok
        rcases hl : stepsLoop c ev po k.toNat s0.stepsAreFinished (some ob) with ⟨saf, o', e⟩
        rw [hl] at h1 h3 h4 h5
        simp only at h1 h3 h4 h5
        subst h1
        cases e with
        | raised e =>
          refine ⟨fun he => rfl, ?_⟩
          intro o2 ho2
          simp only [Option.some.injEq] at ho2
          subst ho2
          exact ⟨h2, fun hf => hfl (h5 e rfl hf)⟩
        | finished =>
          refine ⟨fun he => rfl, ?_⟩
          intro o2 ho2
          simp only [Option.some.injEq] at ho2
          subst ho2
          exact ⟨h2, fun _ => ⟨rfl, rfl⟩⟩
        | exhausted =>
          refine ⟨fun he => rfl, ?_⟩
          intro o2 ho2
          simp only [Option.some.injEq] at ho2
          subst ho2
          refine ⟨h2, fun hf => ?_⟩
          rw [h4 rfl (by omega)] at hf; cases hf

theorem inv_run {s : SSt} (k : Int) (till ini po : Bool) (h : Inv s) :
    Inv (run c ev k till ini po s).1 := by
  unfold run
  cases ini with
  | false => exact inv_runBody k till po h
  | true =>
    simp only [if_true]
    have hI := inv_initObj (c := c) h
    rcases hi : initObj c s with ⟨s1, r⟩
    rw [hi] at hI
    cases r with
    | some e => exact hI
    | none => exact inv_runBody k till po hI

theorem step_getter {op : Op} (hg : op.isGetter = true) (s : SSt) : (step c ev op s).1 = s := by
  cases op <;> first | rfl | simp [Op.isGetter] at hg

theorem inv_step (op : Op) {s : SSt} (h : Inv s) : Inv (step c ev op s).1 := by
  cases op with
  | run k till ini po => exact inv_run k till ini po h
  | _ => exact h

theorem inv_runOps : ∀ (ops : List Op) {s : SSt}, Inv s → Inv (runOps c ev ops s).1
  | [], _, h => h
  | op :: ops, _, h => inv_runOps ops (inv_step op h)

/-- every state of every session satisfies the invariant -/
theorem inv_session (ops : List Op) : Inv (session c ev ops).1 := inv_runOps ops inv_fresh

/-! ### 1. `finished_flag_correct` -/

theorem tillLoop_none (saf : Bool) : ∀ (f : Nat) (o o' : Obj),
    tillLoop c ev saf f o = (o', none) → o'.clock.finished = true := by
  intro f
  induction f with
  | zero =>
    intro o o' h
    unfold tillLoop at h
    cases hf : o.clock.finished with
    | true => simp [hf] at h; subst h; exact hf
    | false => simp [hf] at h
  | succ f ih =>
    intro o o' h
    unfold tillLoop at h
    cases hf : o.clock.finished with
    | true => simp [hf] at h; subst h; exact hf
    | false =>
      simp only [hf, Bool.false_eq_true, if_false] at h
      rcases hp : performP c ev saf o with ⟨o1, r⟩
      rw [hp] at h
      cases r with
      | none => exact ih o1 o' h
      | some e => simp at h

/-- the `for` loop ends `finished` only on a finished clock and `exhausted` (after at least one
iteration) only on an unfinished one — on an initialised object -/
theorem stepsLoop_end (po : Bool) : ∀ (k : Nat) (saf : Bool) (o : Option Obj) (saf' : Bool)
    (o' : Option Obj),
    (stepsLoop c ev po k saf o = (saf', o', .finished) →
      ∃ ob', o' = some ob' ∧ ob'.clock.finished = true) ∧
    (1 ≤ k → stepsLoop c ev po k saf o = (saf', o', .exhausted) →
      ∃ ob', o' = some ob' ∧ ob'.clock.finished = false) := by
  intro k
  induction k with
  | zero => intro saf o saf' o'; simp [stepsLoop]
  | succ k ih =>
    intro saf o saf' o'
    cases o with
    | none => simp [stepsLoop_none]
    | some ob =>
      unfold stepsLoop
      simp only
      rcases hp : performP c ev (saf || (po && decide (k = 0))) ob with ⟨ob1, r⟩
      cases r with
      | some e => simp
      | none =>
        simp only
        cases hf1 : ob1.clock.finished with
        | true =>
          simp only [if_true, Prod.mk.injEq, and_true, reduceCtorEq, and_false, false_imp_iff,
            implies_true]
          rintro ⟨_, rfl⟩
          exact ⟨ob1, rfl, hf1⟩
        | false =>
          simp only [Bool.false_eq_true, if_false]
          obtain ⟨h1, h2⟩ := ih (saf || (po && decide (k = 0))) (some ob1) saf' o'
          refine ⟨h1, fun _ => ?_⟩
          cases k with
          | zero =>
            simp only [stepsLoop, Prod.mk.injEq, and_true]
            rintro ⟨_, rfl⟩
            exact ⟨ob1, rfl, hf1⟩
          | succ k => exact h2 (by omega)

/-- **After a `run_model` call that returns, the two flags are right**: `has_model_executed` is
set and `has_model_finished` equals `model_is_finished` of the clock — from *any* state of the
object, whatever stale values the flags had. -/
theorem runBody_true {k : Int} {till po : Bool} {s0 s' : SSt}
    (h : runBody c ev k till po s0 = (s', .retTrue)) :
    s'.executed = true ∧ ∃ o, s'.obj = some o ∧ s'.hasFinished = o.clock.finished := by
  unfold runBody at h
  cases till with
  | true =>
    simp only [if_true] at h
    cases ho : s0.obj with
    | none => simp [ho] at h
    | some o =>
      simp only [ho] at h
      rcases ht : tillLoop c ev s0.stepsAreFinished (fuel c) o with ⟨o', r⟩
      rw [ht] at h
      cases r with
      | some e => simp at h
      | none =>
        simp only [Prod.mk.injEq, and_true] at h
        subst h
        exact ⟨rfl, o', rfl, (tillLoop_none _ _ _ _ ht).symm⟩
  | false =>
    simp only [Bool.false_eq_true, if_false] at h
    by_cases hk : k < 1
    · simp [hk] at h
    · simp only [hk, if_false] at h
      rcases hl : stepsLoop c ev po k.toNat s0.stepsAreFinished s0.obj with ⟨saf, o', e⟩
      rw [hl] at h
      obtain ⟨h1, h2⟩ := stepsLoop_end (c := c) (ev := ev) po k.toNat s0.stepsAreFinished s0.obj saf o'
      cases e with
      | raised e => simp at h
      | finished =>
        simp only [Prod.mk.injEq, and_true] at h
        subst h
        obtain ⟨ob', rfl, hf⟩ := h1 hl
        exact ⟨rfl, ob', rfl, hf.symm⟩
      | exhausted =>
        simp only [Prod.mk.injEq, and_true] at h
        subst h
        obtain ⟨ob', rfl, hf⟩ := h2 (by omega) hl
        exact ⟨rfl, ob', rfl, hf.symm⟩

theorem run_true {k : Int} {till ini po : Bool} {s s' : SSt}
    (h : run c ev k till ini po s = (s', .retTrue)) :
    s'.executed = true ∧ ∃ o, s'.obj = some o ∧ s'.hasFinished = o.clock.finished := by
  unfold run at h
  cases ini with
  | false => exact runBody_true h
  | true =>
    simp only [if_true] at h
    rcases hi : initObj c s with ⟨s1, r⟩
    rw [hi] at h
    cases r with
    | some e => simp at h
    | none => exact runBody_true h

theorem runOps_append (ops1 ops2 : List Op) (s : SSt) :
    runOps c ev (ops1 ++ ops2) s =
      ((runOps c ev ops2 (runOps c ev ops1 s).1).1,
       (runOps c ev ops1 s).2 ++ (runOps c ev ops2 (runOps c ev ops1 s).1).2) := by
  induction ops1 generalizing s with
  | nil => simp [runOps]
  | cons op ops ih => simp [runOps, ih]

/-- getters do not change the object -/
theorem runOps_getters : ∀ (gs : List Op), (∀ g ∈ gs, g.isGetter = true) → ∀ (s : SSt),
    (runOps c ev gs s).1 = s
  | [], _, _ => rfl
  | g :: gs, h, s => by
    simp only [runOps]
    rw [step_getter (h g (by simp))]
    exact runOps_getters gs (fun g' hg' => h g' (by simp [hg'])) s

/-- **1. `finished_flag_correct`.**  Take any session prefix `pre` (any calls, failing or not,
with or without re-initialisation), then a `run_model` call that returns, then any number of
getter calls.  The object is then exactly the state `s'` that call left, and
`get_additional_information` reports finished **iff** the clock is finished, and
`get_simulation_results` returns the summary table iff finished is reported (else `False`). -/
theorem finished_flag_correct (pre gs : List Op) (hg : ∀ g ∈ gs, g.isGetter = true)
    (k : Int) (till ini po : Bool) {s' : SSt}
    (hrun : step c ev (.run k till ini po) (session c ev pre).1 = (s', .retTrue)) :
    (session c ev (pre ++ .run k till ini po :: gs)).1 = s' ∧
    ∃ o, s'.obj = some o ∧ getInfo s' = .info o.clock.finished ∧
      getResults s' =
        (if o.clock.finished then .summary (finalStats o.clock.summary) else .retFalse) := by
  constructor
  · unfold session at hrun ⊢
    rw [runOps_append]
    simp only [runOps, hrun]
    exact runOps_getters gs hg s'
  · obtain ⟨he, o, ho, hf⟩ := run_true (show run c ev k till ini po _ = _ from hrun)
    refine ⟨o, ho, ?_, ?_⟩
    · simp [getInfo, he, hf]
    · unfold getResults
      simp only [he, if_true, hf, ho]

/-- **Stale-flag freedom**: a `run_model(num_steps=k, initialize_model=True)` that returns with the
clock unfinished reports unfinished and gives no results — even if an earlier run of the same
object finished (any `s`). -/
theorem stale_flag_free {k : Int} {ini po : Bool} {s s' : SSt} {o : Obj}
    (h : run c ev k false ini po s = (s', .retTrue)) (ho : s'.obj = some o)
    (hu : o.clock.finished = false) :
    getInfo s' = .info false ∧ getResults s' = .retFalse := by
  obtain ⟨he, o2, ho2, hf⟩ := run_true h
  rw [ho] at ho2; cases ho2
  simp [getInfo, getResults, he, hf, hu]

/-- In **every** state of every session (also after calls that raised): a finished clock is
reported finished, its summary is what `get_simulation_results` returns and its tables are
DataFrames.  (The converse fails after a call that raised — `stale_after_raise` below.) -/
theorem finished_clock_is_reported (ops : List Op) {o : Obj}
    (ho : (session c ev ops).1.obj = some o) (hf : o.clock.finished = true) :
    getInfo (session c ev ops).1 = .info true ∧
    getResults (session c ev ops).1 = .summary (finalStats o.clock.summary) ∧
    o.converted = true := by
  have hI := inv_session (c := c) (ev := ev) ops
  obtain ⟨hok, hfl⟩ := hI.fin o ho
  obtain ⟨h1, h2⟩ := hfl hf
  exact ⟨by simp [getInfo, h1, h2], by simp [getResults, h1, h2, ho], hok hf⟩

/-- `get_simulation_results` returns the summary table iff `get_additional_information` reports
finished (in every state of every session in which something has been run). -/
theorem results_iff_reported (ops : List Op) :
    (∃ rows, getResults (session c ev ops).1 = .summary rows) ↔
      getInfo (session c ev ops).1 = .info true := by
  have hI := inv_session (c := c) (ev := ev) ops
  generalize (session c ev ops).1 = s at hI
  unfold getResults getInfo
  cases he : s.executed with
  | false => simp
  | true =>
    have := hI.exec he
    cases ho : s.obj with
    | none => rw [ho] at this; cases this
    | some o => cases hf : s.hasFinished <;> simp

/-! ### 4. `getters_total` -/

/-- a `run_model` call either returns `True` or raises, and when it raises the two result flags
keep their (possibly stale) values -/
theorem runBody_cases (k : Int) (till po : Bool) (s0 : SSt) :
    (runBody c ev k till po s0).2 = .retTrue ∨
    (∃ e, (runBody c ev k till po s0).2 = .raised e) ∧
      (runBody c ev k till po s0).1.executed = s0.executed ∧
      (runBody c ev k till po s0).1.hasFinished = s0.hasFinished := by
  unfold runBody
  cases till with
  | true =>
    simp only [if_true]
    cases ho : s0.obj with
    | none => exact Or.inr ⟨⟨_, rfl⟩, rfl, rfl⟩
    | some o =>
      simp only
      rcases ht : tillLoop c ev s0.stepsAreFinished (fuel c) o with ⟨o', r⟩
      cases r with
      | some e => exact Or.inr ⟨⟨_, rfl⟩, rfl, rfl⟩
      | none => exact Or.inl rfl
  | false =>
    simp only [Bool.false_eq_true, if_false]
    by_cases hk : k < 1
    · simp [hk]
    · simp only [hk, if_false]
      rcases hl : stepsLoop c ev po k.toNat s0.stepsAreFinished s0.obj with ⟨saf, o', e⟩
      cases e with
      | raised e => exact Or.inr ⟨⟨_, rfl⟩, rfl, rfl⟩
      | finished => exact Or.inl rfl
      | exhausted => exact Or.inl rfl

/-- `_initialize` clears `__steps_are_finished` (also when it raises) and leaves the two result
flags alone -/
theorem initObj_flags (c : Cfg) (s : SSt) :
    (initObj c s).1.executed = s.executed ∧ (initObj c s).1.hasFinished = s.hasFinished ∧
    (initObj c s).1.stepsAreFinished = false := by
  unfold initObj
  cases Clock.init c <;> exact ⟨rfl, rfl, rfl⟩

theorem run_cases (k : Int) (till ini po : Bool) (s : SSt) :
    (run c ev k till ini po s).2 = .retTrue ∨
    (∃ e, (run c ev k till ini po s).2 = .raised e) ∧
      (run c ev k till ini po s).1.executed = s.executed ∧
      (run c ev k till ini po s).1.hasFinished = s.hasFinished := by
  unfold run
  cases ini with
  | false => exact runBody_cases k till po s
  | true =>
    simp only [if_true]
    obtain ⟨h1, h2, _⟩ := initObj_flags c s
    rcases hi : initObj c s with ⟨s0, r⟩
    rw [hi] at h1 h2
    cases r with
    | some e => exact Or.inr ⟨⟨_, rfl⟩, h1, h2⟩
    | none =>
      rcases runBody_cases (c := c) (ev := ev) k till po s0 with h | ⟨h3, h4, h5⟩
      · exact Or.inl h
      · exact Or.inr ⟨h3, by rw [h4, h1], by rw [h5, h2]⟩

/-- no getter observation is `retTrue` -/
theorem getter_not_true {op : Op} (hg : op.isGetter = true) (s : SSt) :
    (step c ev op s).2 ≠ .retTrue := by
  cases op with
  | run => simp [Op.isGetter] at hg
  | getResults =>
    simp only [step, getResults]
    repeat' split
    all_goals simp
  | getInfo => simp only [step, getInfo]; split <;> simp
  | _ =>
    simp only [step, getTable]
    repeat' split
    all_goals simp

theorem step_executed (op : Op) (s : SSt) :
    (step c ev op s).1.executed = true ↔ s.executed = true ∨ (step c ev op s).2 = .retTrue := by
  cases hg : op.isGetter with
  | true =>
    rw [step_getter hg]
    have := getter_not_true (c := c) (ev := ev) hg s
    simp [this]
  | false =>
    cases op with
    | run k till ini po =>
      simp only [step]
      rcases run_cases (c := c) (ev := ev) k till ini po s with h | ⟨⟨e, h1⟩, h2, _⟩
      · have := (run_true (c := c) (ev := ev) (k := k) (till := till) (ini := ini) (po := po)
          (s := s) (s' := (run c ev k till ini po s).1) (by rw [← h])).1
        simp [this, h]
      · rw [h2, h1]; simp
    | _ => simp [Op.isGetter] at hg

theorem runOps_executed : ∀ (ops : List Op) (s : SSt),
    (runOps c ev ops s).1.executed = true ↔
      s.executed = true ∨ Obs.retTrue ∈ (runOps c ev ops s).2
  | [], s => by simp [runOps]
  | op :: ops, s => by
    simp only [runOps, List.mem_cons]
    rw [runOps_executed ops, step_executed]
    constructor
    · rintro ((h | h) | h)
      · exact Or.inl h
      · exact Or.inr (Or.inl h.symm)
      · exact Or.inr (Or.inr h)
    · rintro (h | h | h)
      · exact Or.inl (Or.inl h)
      · exact Or.inl (Or.inr h.symm)
      · exact Or.inr h

/-- **4. `getters_total`.**  In every session on a new object: `has_model_executed` holds iff
some `run_model` call so far has returned (`True` is among the observations; only `run_model`
produces it); from then on **no getter raises**, and until then **every getter raises the
`ValueError`** "You cannot get results without running the model". -/
theorem getters_total (ops : List Op) :
    ((session c ev ops).1.executed = true ↔ Obs.retTrue ∈ (session c ev ops).2) ∧
    (Obs.retTrue ∈ (session c ev ops).2 → ∀ g : Op, g.isGetter = true → ∀ e,
      (step c ev g (session c ev ops).1).2 ≠ .raised e) ∧
    (Obs.retTrue ∉ (session c ev ops).2 → ∀ g : Op, g.isGetter = true →
      (step c ev g (session c ev ops).1).2 = .raised .noRun) := by
  have hI := inv_session (c := c) (ev := ev) ops
  have hE : (session c ev ops).1.executed = true ↔ Obs.retTrue ∈ (session c ev ops).2 := by
    unfold session
    rw [runOps_executed]; simp [fresh]
  refine ⟨hE, ?_, ?_⟩
  · intro ht g hg e
    have he := hE.mpr ht
    have hs := hI.exec he
    generalize (session c ev ops).1 = s at he hs
    cases ho : s.obj with
    | none => rw [ho] at hs; cases hs
    | some o =>
      cases g with
      | run => simp [Op.isGetter] at hg
      | getResults => simp only [step, getResults, he, ho, if_true]; split <;> simp
      | getInfo => simp [step, getInfo, he]
      | _ => simp [step, getTable, he, ho]
  · intro ht g hg
    have he : (session c ev ops).1.executed = false := by
      cases h : (session c ev ops).1.executed with
      | false => rfl
      | true => exact absurd (hE.mp h) ht
    generalize (session c ev ops).1 = s at he
    cases g with
    | run => simp [Op.isGetter] at hg
    | getResults => simp [step, getResults, he]
    | getInfo => simp [step, getInfo, he]
    | _ => simp [step, getTable, he]

/-! ### The loops of `run_model` on a well-behaved object are the loops of the clock model -/

/-- the API state in which a sequence of returning `run_model` calls (no `process_outputs`)
leaves an object whose clock is `st` -/
def ofClock (st : St) : SSt :=
  { stepsAreFinished := false, executed := true, hasFinished := st.finished,
    obj := some { clock := st, converted := st.finished, desync := false } }

theorem tillLoop_of_runTillF : ∀ (f : Nat) (o : Obj) (s' : St), o.converted = false →
    o.desync = false → o.clock.finished = false → runTillF c ev f o.clock = .ok s' →
    tillLoop c ev false f o = ({ clock := s', converted := true, desync := false }, none) := by
  intro f
  induction f with
  | zero => intro o s' _ _ hf h; simp [runTillF, hf] at h
  | succ f ih =>
    intro o s' hc hd hf h
    rw [runTillF_succ] at h
    simp only [hf, Bool.false_eq_true, if_false] at h
    cases hp : perform c ev o.clock with
    | error e => rw [hp] at h; cases h
    | ok s1 =>
      rw [hp] at h
      have h : runTillF c ev f s1 = .ok s' := h
      unfold tillLoop
      simp only [hf, Bool.false_eq_true, if_false, performP_of_perform false hc hd hp]
      cases hf1 : s1.finished with
      | true =>
        have : runTillF c ev f s1 = .ok s1 := by cases f <;> simp [runTillF, hf1]
        rw [this] at h; cases h
        cases f <;> simp [tillLoop, hf1]
      | false =>
        simp only [Bool.or_false]
        exact ih { clock := s1, converted := false, desync := false } s' rfl rfl hf1 h

theorem stepsLoop_of_runSteps : ∀ (k : Nat) (o : Obj) (s' : St), o.converted = false →
    o.desync = false → o.clock.finished = false → runSteps c ev k o.clock = .ok s' →
    stepsLoop c ev false k false (some o) =
      (false, some { clock := s', converted := s'.finished, desync := false },
       if s'.finished then .finished else .exhausted) := by
  intro k
  induction k with
  | zero =>
    intro o s' hc hd hf h
    simp only [runSteps_zero, Except.ok.injEq] at h
    subst h
    obtain ⟨k, cv, ds⟩ := o
    simp only at hc hd hf
    subst hc hd
    simp [stepsLoop, hf]
  | succ k ih =>
    intro o s' hc hd hf h
    rw [runSteps_succ] at h
    cases hp : perform c ev o.clock with
    | error e => rw [hp] at h; cases h
    | ok s1 =>
      rw [hp] at h
      simp only [Except.bind] at h
      unfold stepsLoop
      simp only [Bool.false_and, Bool.or_false, performP_of_perform false hc hd hp]
      cases hf1 : s1.finished with
      | true =>
        simp only [hf1, if_true, Except.ok.injEq] at h
        subst h
        simp [hf1]
      | false =>
        simp only [hf1, Bool.false_eq_true, if_false] at h
        simp only [Bool.false_eq_true, if_false]
        exact ih { clock := s1, converted := false, desync := false } s' rfl rfl hf1 h

theorem fuel_ge (c : Cfg) : c.n ≤ fuel c := by
  unfold fuel
  have : c.n * (c.planting.length + 2) = c.n * c.planting.length + c.n * 2 := Nat.mul_add ..
  omega

theorem reach_season_bounds (hw : WF c) {s : St} (hr : Reach c ev s) :
    -1 ≤ s.season ∧ s.season < c.nSeasons := by
  induction hr with
  | init hi => have := live_init hw hi; exact ⟨this.slo, this.shi⟩
  | @step s s' hr hp _ =>
    have hG := good_of_reach hw hr
    have hL := hG.live (unfinished_of_perform_ok hp)
    rw [perform_eq hw ev hL] at hp
    cases hp
    cases hf : finOf c ev s with
    | true => rw [stepT_fin c ev s hf]; exact ⟨hL.slo, hL.shi⟩
    | false =>
      have := (good_stepT hw ev hL hG.hist).live (by rw [stepT_finished]; exact hf)
      exact ⟨this.slo, this.shi⟩

/-- every `_perform_timestep` writes exactly one row of the daily tables -/
theorem perform_rows (hw : WF c) {s s' : St} (hr : Reach c ev s) (hp : perform c ev s = .ok s') :
    s'.rowsRev.length = s.rowsRev.length + 1 := by
  have hL := (good_of_reach hw hr).live (unfinished_of_perform_ok hp)
  rw [perform_eq hw ev hL] at hp
  cases hp
  rw [stepT_rows]; simp

/-- **One uninterrupted run** (`run_model(till_termination=True, initialize_model=True)`) on *any*
object — new or used, whatever its three flags, clock and tables — returns `True` and leaves
the state `ofClock sT`, `sT` the final clock of `Clock.runTill`. -/
theorem run_till_init (hw : WF c) (ev : Ev) {s₀ : St} (hi : Clock.init c = .ok s₀) :
    ∃ sT, runTill c ev s₀ = .ok sT ∧ sT.finished = true ∧ Reach c ev sT ∧
      ∀ (k : Int) (po : Bool) (s : SSt), run c ev k true true po s = (ofClock sT, .retTrue) := by
  obtain ⟨sT, hT, hfT, hrT⟩ := runTill_ok hw ev hi
  refine ⟨sT, hT, hfT, hrT, fun k po s => ?_⟩
  have h0 := (live_init hw hi).notFin
  have hT' := runTillF_mono c.n s₀ sT hT (fuel c) (fuel_ge c)
  have hl := tillLoop_of_runTillF (c := c) (ev := ev) (fuel c)
    { clock := s₀, converted := false, desync := false } sT rfl rfl h0 hT'
  unfold run initObj
  simp only [if_true, hi, runBody, hl, ofClock, hfT]

/-! ### 2. `session_partition` (C09 at API level) -/

/-- `s` agrees with `ofClock st` in the three flags and in everything of the object except the
per-season scratch values `dap`, `crop_mature`, `crop_dead` (which a failed call on a finished
object keeps updating in place) -/
structure VisOf (s : SSt) (st : St) : Prop where
  saf : s.stepsAreFinished = false
  exec : s.executed = true
  fin : s.hasFinished = st.finished
  obj : ∃ o, s.obj = some o ∧ o.converted = st.finished ∧ o.desync = false ∧
    o.clock.t = st.t ∧ o.clock.season = st.season ∧ o.clock.harvestFlag = st.harvestFlag ∧
    o.clock.finished = st.finished ∧ o.clock.rowsRev = st.rowsRev ∧
    o.clock.summaryRev = st.summaryRev

theorem visOf_ofClock (st : St) : VisOf (ofClock st) st :=
  ⟨rfl, rfl, rfl, _, rfl, rfl, rfl, rfl, rfl, rfl, rfl, rfl, rfl⟩

/-- all getters return the same on `VisOf`-equal states: same tables (kind, rows), same summary,
same information -/
theorem visOf_getters {s : SSt} {st : St} (h : VisOf s st) {g : Op} (hg : g.isGetter = true) :
    (step c ev g s).2 = (step c ev g (ofClock st)).2 := by
  obtain ⟨h1, h2, h3, o, ho, h4, h5, h6, h7, h8, h9, h10, h11⟩ := h
  cases g with
  | run => simp [Op.isGetter] at hg
  | getResults =>
    simp only [step, getResults, h2, h3, ho, ofClock, St.summary, h11, if_true]
    by_cases hf : st.finished = true <;> simp [hf]
  | getInfo => simp [step, getInfo, h2, h3, ofClock]
  | _ => simp [step, getTable, h2, ho, ofClock, h4, h10]

/-- the exception of the daily table write on DataFrames -/
def tw (c : Cfg) : Obs := .raised (if c.n = 3 then .tableKey else .tableWrite)

/-- **progress**: on an unfinished reachable clock with numpy tables and `__steps_are_finished`
clear, `run_model(num_steps=k ≥ 1, initialize_model=False)` returns `True` and leaves exactly
the state of the clock model's `runModel k` -/
theorem runBody_progress (hw : WF c) {st : St} (hr : Reach c ev st) (hf : st.finished = false)
    (k : Nat) (hk : 1 ≤ k) {s0 : SSt} (hs : s0.stepsAreFinished = false)
    (ho : s0.obj = some { clock := st, converted := false, desync := false }) :
    ∃ st', runModel c ev k st = .ok st' ∧ Reach c ev st' ∧
      runBody c ev k false false s0 = (ofClock st', .retTrue) := by
  obtain ⟨st', hm, hr'⟩ := runModel_ok_of_unfinished hw ev hr hf k hk
  refine ⟨st', hm, hr', ?_⟩
  have hl := stepsLoop_of_runSteps (c := c) (ev := ev) k
    { clock := st, converted := false, desync := false } st' rfl rfl hf (runModel_ok hm).2
  have e : ¬ ((k : Int) < 1) := by omega
  unfold runBody
  simp only [Bool.false_eq_true, if_false, e, Int.toNat_natCast, hs, ho, hl]
  cases hf' : st'.finished <;> simp [ofClock, hf']

/-- **calls after termination** (`num_steps ≥ 1`, `initialize_model=False`): raise the table-write
exception and perform *one more partial* solution step: nothing observable changes — flags, clock,
tables, summary stay (`VisOf`) — only `dap` / `crop_mature` / `crop_dead` are updated in place. -/
theorem run_after_termination (hw : WF c) {st : St} (hr : Reach c ev st)
    (hf : st.finished = true) {s : SSt} (hv : VisOf s st) (k : Nat) (hk : 1 ≤ k) :
    (run c ev k false false false s).2 = tw c ∧ VisOf (run c ev k false false false s).1 st := by
  obtain ⟨h1, h2, h3, o, ho, h4, h5, h6, h7, h8, h9, h10, h11⟩ := hv
  obtain ⟨j, rfl⟩ : ∃ j, k = j + 1 := ⟨k - 1, by omega⟩
  have hb := reach_season_bounds hw hr
  have hsi : seasonInfo c o.clock.season = .ok (phOf c o.clock.season) := by
    rw [h7]; exact seasonInfo_eq hw.2.2.1 hb.2
  have hp := performP_converted (c := c) (ev := ev) false (by rw [h4, hf]) h5 hsi
  have e : ¬ (((j + 1 : Nat) : Int) < 1) := by omega
  unfold run runBody
  simp only [Bool.false_eq_true, if_false, e, Int.toNat_natCast, h1, ho]
  unfold stepsLoop
  simp only [Bool.false_and, Bool.or_false, hp]
  exact ⟨rfl, rfl, h2, h3, _, rfl, h4, h5, h6, h7, h8, h9, h10, h11⟩

/-- the calls of a partition: `run_model(num_steps=k, initialize_model=False)` -/
def stepCall (k : Nat) : Op := .run k false false false

/-- bookkeeping for a sequence of step calls: after `a` requested steps and `post` calls made
after termination the object tracks the clock model -/
structure Tracks (c : Cfg) (ev : Ev) (s₀ : St) (a post : Nat) (s : SSt) (st : St) : Prop where
  steps : runSteps c ev a s₀ = .ok st
  reach : Reach c ev st
  vis : VisOf s st
  exact : post = 0 → s = ofClock st
  late : 0 < post → st.finished = true

theorem tracks_step (hw : WF c) {s₀ : St} (hi : Clock.init c = .ok s₀) {a post : Nat} {s : SSt}
    {st : St} (h : Tracks c ev s₀ a post s st) (k : Nat) (hk : 1 ≤ k) :
    (st.finished = false ∧ (step c ev (stepCall k) s).2 = .retTrue ∧
      ∃ st', Tracks c ev s₀ (a + k) post (step c ev (stepCall k) s).1 st') ∨
    (st.finished = true ∧ (step c ev (stepCall k) s).2 = tw c ∧
      Tracks c ev s₀ (a + k) (post + 1) (step c ev (stepCall k) s).1 st) := by
  obtain ⟨hst, hr, hv, hex, hl⟩ := h
  have h0 := (live_init hw hi).notFin
  cases hf : st.finished with
  | false =>
    left
    have hp0 : post = 0 := by
      cases post with
      | zero => rfl
      | succ p => have := hl (by omega); rw [hf] at this; cases this
    have hs := hex hp0
    subst hs
    obtain ⟨st', hm, hr', hb⟩ := runBody_progress (c := c) (ev := ev) hw hr hf k hk
      (s0 := ofClock st) rfl (by simp [ofClock, hf])
    have hrun : step c ev (stepCall k) (ofClock st) = (ofClock st', .retTrue) := by
      simp only [stepCall, step, run, Bool.false_eq_true, if_false]; exact hb
    refine ⟨rfl, by rw [hrun], st', ?_⟩
    rw [hrun]
    refine ⟨?_, hr', visOf_ofClock st', fun _ => rfl, fun hp => ?_⟩
    · rw [runSteps_add' hst hf]; exact (runModel_ok hm).2
    · omega
  | true =>
    right
    obtain ⟨h1, h2⟩ := run_after_termination (c := c) (ev := ev) hw hr hf hv k hk
    refine ⟨rfl, h1, ?_, hr, h2, fun hp => by omega, fun _ => hf⟩
    exact overshoot_stops k h0 hst hf

theorem tracks_calls (hw : WF c) {s₀ : St} (hi : Clock.init c = .ok s₀) :
    ∀ (ks : List Nat) (a post : Nat) (s : SSt) (st : St), Tracks c ev s₀ a post s st →
      (∀ k ∈ ks, 1 ≤ k) →
      ∃ m post' st', post ≤ post' ∧ (0 < post → m = 0) ∧
        Tracks c ev s₀ (a + ks.sum) post' (runOps c ev (ks.map stepCall) s).1 st' ∧
        (runOps c ev (ks.map stepCall) s).2 =
          List.replicate m .retTrue ++ List.replicate (post' - post) (tw c) := by
  intro ks
  induction ks with
  | nil =>
    intro a post s st h _
    exact ⟨0, post, st, Nat.le_refl _, fun _ => rfl, by simpa [runOps] using h, by simp [runOps]⟩
  | cons k ks ih =>
    intro a post s st h hks
    have hk := hks k (by simp)
    have hks' : ∀ k' ∈ ks, 1 ≤ k' := fun k' hk' => hks k' (by simp [hk'])
    simp only [List.map_cons, runOps, List.sum_cons]
    rcases tracks_step hw hi h k hk with ⟨hf, ho, st1, ht⟩ | ⟨hf, ho, ht⟩
    · have hp0 : post = 0 := by
        cases post with
        | zero => rfl
        | succ p => have := h.late (by omega); rw [hf] at this; cases this
      obtain ⟨m, post', st', h1, h2, h3, h4⟩ := ih (a + k) post _ st1 ht hks'
      refine ⟨m + 1, post', st', h1, fun hp => by omega, by rw [← Nat.add_assoc]; exact h3, ?_⟩
      rw [ho, h4, List.replicate_succ]; rfl
    · obtain ⟨m, post', st', h1, h2, h3, h4⟩ := ih (a + k) (post + 1) _ st ht hks'
      have hm := h2 (by omega)
      subst hm
      refine ⟨0, post', st', by omega, fun _ => rfl, by rw [← Nat.add_assoc]; exact h3, ?_⟩
      rw [ho, h4]
      have : post' - post = (post' - (post + 1)) + 1 := by omega
      rw [this, List.replicate_succ]; rfl

/-- **2. `session_partition`** (C09 at API level).  Well-formed clock, any oracle, a new object.
First call `run_model(num_steps=k₀)` (`initialize_model=True`), then any calls
`run_model(num_steps=kᵢ, initialize_model=False)`, all `kᵢ ≥ 1`, no `process_outputs`, with
`k₀ + Σkᵢ ≥ n_steps` (any bound on the length of the run).  Then, with `sT` the final clock of
the uninterrupted run (`Clock.runTill`) and `ofClock sT` the state one
`run_model(till_termination=True)` leaves (`run_till_init`):

* the observations are `m ≥ 1` times `True` followed by `p` times the table-write exception —
  the calls made after termination;
* the final state agrees with `ofClock sT` in flags, clock (`t`, season, finished, harvest flag),
  daily rows, summary, table kind (`VisOf`), hence all getters return the same
  (`visOf_getters`); if no call was made after termination (`p = 0`) it **is** `ofClock sT`;
* what the `p` late calls do: each raises and performs one partial solution step that updates
  `dap`/`crop_mature`/`crop_dead` in place and nothing else (`run_after_termination`). -/
theorem session_partition (hw : WF c) (ev : Ev) {s₀ : St} (hi : Clock.init c = .ok s₀)
    (k₀ : Nat) (ks : List Nat) (hk₀ : 1 ≤ k₀) (hks : ∀ k ∈ ks, 1 ≤ k)
    (htot : c.n ≤ k₀ + ks.sum) :
    ∃ sT m p, runTill c ev s₀ = .ok sT ∧ sT.finished = true ∧
      session c ev [.run 0 true true false] = (ofClock sT, [.retTrue]) ∧
      (session c ev (.run k₀ false true false :: ks.map stepCall)).2 =
        List.replicate (m + 1) .retTrue ++ List.replicate p (tw c) ∧
      VisOf (session c ev (.run k₀ false true false :: ks.map stepCall)).1 sT ∧
      (p = 0 → (session c ev (.run k₀ false true false :: ks.map stepCall)).1 = ofClock sT) := by
  obtain ⟨sT, hT, hfT, hrT, hrun⟩ := run_till_init hw ev hi
  have h0 := (live_init hw hi).notFin
  -- the first call
  obtain ⟨st1, hm1, hr1, hb1⟩ := runBody_progress (c := c) (ev := ev) hw (Reach.init hi) h0 k₀ hk₀
    (s0 := { fresh with obj := some { clock := s₀, converted := false, desync := false } })
    rfl rfl
  have hfirst : step c ev (.run k₀ false true false) fresh = (ofClock st1, .retTrue) := by
    simp only [step, run, if_true, initObj, hi]; exact hb1
  have ht1 : Tracks c ev s₀ k₀ 0 (ofClock st1) st1 :=
    ⟨(runModel_ok hm1).2, hr1, visOf_ofClock st1, fun _ => rfl, fun h => by omega⟩
  obtain ⟨m, p, stL, _, _, h3, h4⟩ := tracks_calls (c := c) (ev := ev) hw hi ks k₀ 0 _ st1 ht1 hks
  -- the total number of steps reaches the end
  obtain ⟨sE, hE1, hE2, hE3⟩ := terminates hw ev hi
  have hsT : sE = sT := by rw [hT] at hE2; cases hE2; rfl
  subst hsT
  have hlast : stL = sE := by
    obtain ⟨d, hd⟩ : ∃ d, k₀ + ks.sum = c.n + d := ⟨k₀ + ks.sum - c.n, by omega⟩
    have := overshoot_stops d h0 hE1 hE3
    rw [← hd, h3.steps] at this
    cases this; rfl
  refine ⟨sE, m, p, hT, hfT, ?_, ?_, ?_, ?_⟩
  · unfold session
    simp only [runOps, step]
    rw [hrun 0 false fresh]
  · unfold session
    simp only [runOps, hfirst, h4, Nat.sub_zero, List.replicate_succ]; rfl
  · unfold session
    simp only [runOps, hfirst]
    rw [← hlast]; exact h3.vis
  · intro hp
    unfold session
    simp only [runOps, hfirst]
    rw [← hlast]; exact h3.exact hp

/-! ### 3. `rerun_equals_first` (C11 at API level, modulo the opaque `_initialize`) -/

/-- `run_model` after `_initialize` looks at the object through `__steps_are_finished` and what
`_initialize` created only: the stale result flags of a used object have no influence -/
theorem runBody_congr (k : Int) (till po : Bool) {a b : SSt}
    (h1 : a.stepsAreFinished = b.stepsAreFinished) (h2 : a.obj = b.obj) :
    (runBody c ev k till po a).2 = (runBody c ev k till po b).2 ∧
    (runBody c ev k till po a).1.obj = (runBody c ev k till po b).1.obj ∧
    (runBody c ev k till po a).1.stepsAreFinished = (runBody c ev k till po b).1.stepsAreFinished ∧
    ((runBody c ev k till po a).2 = .retTrue →
      (runBody c ev k till po a).1 = (runBody c ev k till po b).1) := by
  obtain ⟨sa, ea, fa, oa⟩ := a
  obtain ⟨sb, eb, fb, ob⟩ := b
  simp only at h1 h2
  subst h1 h2
  unfold runBody
  cases till with
  | true =>
    simp only [if_true]
    cases oa with
    | none => exact ⟨rfl, rfl, rfl, fun h => by cases h⟩
    | some o =>
      simp only
      rcases tillLoop c ev sa (fuel c) o with ⟨o', r⟩
      cases r with
      | some e => exact ⟨rfl, rfl, rfl, fun h => by cases h⟩
      | none => exact ⟨rfl, rfl, rfl, fun _ => rfl⟩
  | false =>
    simp only [Bool.false_eq_true, if_false]
    by_cases hk : k < 1
    · simp [hk]
    · simp only [hk, if_false]
      rcases stepsLoop c ev po k.toNat sa oa with ⟨saf, o', e⟩
      cases e with
      | raised e => exact ⟨rfl, rfl, rfl, fun h => by cases h⟩
      | finished => exact ⟨rfl, rfl, rfl, fun _ => rfl⟩
      | exhausted => exact ⟨rfl, rfl, rfl, fun _ => rfl⟩

/-- **3. `rerun_equals_first`, general form** (any configuration, any arguments, **no premise**).
A `run_model(…, initialize_model=True)` on *any* used object `s` and on a new object: same
observation; if the call returns, the same state — hence every later call observes the same.
(`_initialize` is the opaque `Clock.init c`, the same on both; it clears
`__steps_are_finished`, and `run_model` does not read the stale result flags.) -/
theorem rerun_equals_first_general (k : Int) (till po : Bool) (s : SSt) :
    (run c ev k till true po s).2 = (run c ev k till true po fresh).2 ∧
    ((run c ev k till true po s).2 = .retTrue →
      (run c ev k till true po s).1 = (run c ev k till true po fresh).1) := by
  unfold run initObj
  simp only [if_true]
  cases hi : Clock.init c with
  | error e => exact ⟨rfl, fun h => by cases h⟩
  | ok s0 =>
    simp only
    obtain ⟨h1, _, _, h4⟩ := runBody_congr (c := c) (ev := ev) k till po
      (a := { stepsAreFinished := false, executed := s.executed, hasFinished := s.hasFinished,
              obj := some { clock := s0, converted := false, desync := false } })
      (b := { stepsAreFinished := false, executed := fresh.executed,
              hasFinished := fresh.hasFinished,
              obj := some { clock := s0, converted := false, desync := false } })
      rfl rfl
    exact ⟨h1, h4⟩

/-- without `process_outputs` a call does not change `__steps_are_finished` -/
theorem stepsLoop_saf : ∀ (k : Nat) (saf : Bool) (o : Option Obj),
    (stepsLoop c ev false k saf o).1 = saf := by
  intro k
  induction k with
  | zero => intro saf o; rfl
  | succ k ih =>
    intro saf o
    unfold stepsLoop
    simp only [Bool.false_and, Bool.or_false]
    cases o with
    | none => rfl
    | some ob =>
      simp only
      rcases performP c ev saf ob with ⟨ob1, r⟩
      cases r with
      | some e => rfl
      | none =>
        simp only
        split
        · rfl
        · exact ih saf (some ob1)

/-- **3. `rerun_equals_first`** (C11 at API level, no premise on the history).  Well-formed
clock.  After *any* session `pre` — runs cut short, finished runs, `process_outputs`, calls that
raised, getters — `run_model(till_termination=True, initialize_model=True)` followed by any
calls `rest` gives exactly the observations, and leaves exactly the state, it gives on a new
object. -/
theorem rerun_equals_first (hw : WF c) (ev : Ev) (pre rest : List Op) (k : Int) (po : Bool) :
    runOps c ev (.run k true true po :: rest) (session c ev pre).1 =
      session c ev (.run k true true po :: rest) := by
  obtain ⟨s₀, hi⟩ := init_ok hw
  obtain ⟨sT, _, _, _, hrun⟩ := run_till_init hw ev hi
  unfold session
  simp only [runOps, step]
  rw [hrun k po _, hrun k po fresh]

/-! ### 5. `harvest_does_not_stop_stepping` -/

theorem runTillF_rows_le (hw : WF c) : ∀ (f : Nat) (s sT : St), Reach c ev s →
    runTillF c ev f s = .ok sT → s.rowsRev.length ≤ sT.rowsRev.length := by
  intro f
  induction f with
  | zero =>
    intro s sT _ h
    unfold runTillF at h
    split at h
    · cases h; exact Nat.le_refl _
    · cases h
  | succ f ih =>
    intro s sT hr h
    rw [runTillF_succ] at h
    split at h
    · cases h; exact Nat.le_refl _
    · cases hp : perform c ev s with
      | error e => rw [hp] at h; cases h
      | ok s1 =>
        rw [hp] at h
        have := ih s1 sT (Reach.step hr hp) h
        have := perform_rows hw hr hp
        omega

/-- clock level: `k ≥ 1` requested steps from an unfinished state perform exactly
`min k d` days, `d` = the number of days the run to termination performs from there -/
theorem runSteps_days (hw : WF c) : ∀ (k f : Nat) (s sT : St), Reach c ev s →
    s.finished = false → runTillF c ev f s = .ok sT →
    ∃ s', runSteps c ev (k + 1) s = .ok s' ∧
      s'.rowsRev.length = s.rowsRev.length + min (k + 1) (sT.rowsRev.length - s.rowsRev.length) := by
  intro k
  induction k with
  | zero =>
    intro f s sT hr hf hT
    obtain ⟨f, rfl⟩ : ∃ g, f = g + 1 := by
      cases f with
      | zero => simp [runTillF, hf] at hT
      | succ g => exact ⟨g, rfl⟩
    rw [runTillF_succ] at hT
    simp only [hf, Bool.false_eq_true, if_false] at hT
    cases hp : perform c ev s with
    | error e => rw [hp] at hT; cases hT
    | ok s1 =>
      rw [hp] at hT
      have hT : runTillF c ev f s1 = .ok sT := hT
      have h1 := perform_rows hw hr hp
      have h2 := runTillF_rows_le hw f s1 sT (Reach.step hr hp) hT
      refine ⟨s1, ?_, by omega⟩
      rw [runSteps_succ, hp]
      simp only [Except.bind]
      split <;> rfl
  | succ k ih =>
    intro f s sT hr hf hT
    obtain ⟨f, rfl⟩ : ∃ g, f = g + 1 := by
      cases f with
      | zero => simp [runTillF, hf] at hT
      | succ g => exact ⟨g, rfl⟩
    rw [runTillF_succ] at hT
    simp only [hf, Bool.false_eq_true, if_false] at hT
    cases hp : perform c ev s with
    | error e => rw [hp] at hT; cases hT
    | ok s1 =>
      rw [hp] at hT
      have hT : runTillF c ev f s1 = .ok sT := hT
      have h1 := perform_rows hw hr hp
      have h2 := runTillF_rows_le hw f s1 sT (Reach.step hr hp) hT
      rw [runSteps_succ, hp]
      simp only [Except.bind]
      cases hf1 : s1.finished with
      | true =>
        have : runTillF c ev f s1 = .ok s1 := by cases f <;> simp [runTillF, hf1]
        rw [this] at hT
        have hs := Except.ok.inj hT
        subst hs
        exact ⟨s1, by simp, by omega⟩
      | false =>
        obtain ⟨s', h3, h4⟩ := ih f s1 sT (Reach.step hr hp) hf1 hT
        exact ⟨s', by simpa using h3, by omega⟩

/-- **5. `harvest_does_not_stop_stepping`.**  Well-formed clock, any oracle; an object in the
state `ofClock st` with `st` a reachable unfinished clock (what returning calls leave), `sT` the
clock the run to termination reaches from `st`.  Then `run_model(num_steps=k ≥ 1,
initialize_model=False)` returns `True` and performs **exactly `min k d` days**, `d` the number of
days to termination — one daily row each — with no condition on `harvest_flag`, maturity or
death of the days in between: a harvest inside the call does not end it. -/
theorem harvest_does_not_stop_stepping (hw : WF c) (ev : Ev) {st sT : St} (hr : Reach c ev st)
    (hf : st.finished = false) {f : Nat} (hT : runTillF c ev f st = .ok sT) (k : Nat)
    (hk : 1 ≤ k) :
    ∃ st', step c ev (stepCall k) (ofClock st) = (ofClock st', .retTrue) ∧
      st'.rowsRev.length =
        st.rowsRev.length + min k (sT.rowsRev.length - st.rowsRev.length) := by
  obtain ⟨j, rfl⟩ : ∃ j, k = j + 1 := ⟨k - 1, by omega⟩
  obtain ⟨s', h1, h2⟩ := runSteps_days hw j f st sT hr hf hT
  obtain ⟨st', hm, _, hb⟩ := runBody_progress (c := c) (ev := ev) hw hr hf (j + 1) hk
    (s0 := ofClock st) rfl (by simp [ofClock, hf])
  have : st' = s' := by
    have := (runModel_ok hm).2
    rw [h1] at this; cases this; rfl
  subst this
  refine ⟨st', ?_, h2⟩
  simp only [stepCall, step, run, Bool.false_eq_true, if_false]; exact hb

/-- the run to termination exists from every reachable state (fuel `n`) -/
theorem till_exists (hw : WF c) (ev : Ev) {st : St} (hr : Reach c ev st) :
    ∃ sT, runTillF c ev c.n st = .ok sT ∧ sT.finished = true :=
  runTillF_ok hw ev c.n st (good_of_reach hw hr) (fun _ => by omega)

/-! ### Non-vacuity: concrete sessions (`small`: 6-day window, one season, harvest on day 2;
`exCfg`/`exEv`: 40 days, three seasons, maturity on day 5, death on day 17) -/

/-- observations, the three flags, and `(t, model_is_finished, tables are DataFrames, rows written,
summary)` of the object -/
def view (r : SSt × List Obs) :
    List Obs × Bool × Bool × Bool × Option (Nat × Bool × Bool × Nat × List (Int × Nat)) :=
  (r.2, r.1.stepsAreFinished, r.1.executed, r.1.hasFinished,
   r.1.obj.map (fun o => (o.clock.t, o.clock.finished, o.converted, o.clock.rowsRev.length,
     o.clock.summary)))

example : WF small := by decide
example : WF exCfg := by decide

/-- 1: two steps (unfinished: `False`, no results), then to the end (finished, summary) -/
example : view (session small noEv [.run 2 false true false, .getInfo, .getResults,
      .run 0 true false false, .getInfo, .getResults]) =
    ([.retTrue, .info false, .retFalse, .retTrue, .info true, .summary [(0, 2)]],
     false, true, true, some (2, true, true, 3, [(0, 2)])) := by rfl

/-- 1, stale-flag freedom: a finished object, re-initialised and run for two steps, reports
unfinished and returns no results -/
example : view (session small noEv [.run 0 true true false, .getInfo,
      .run 2 false true false, .getInfo, .getResults]) =
    ([.retTrue, .info true, .retTrue, .info false, .retFalse],
     false, true, false, some (2, false, false, 2, [])) := by rfl

/-- 1, `finished_flag_correct` instantiated on that session -/
example := finished_flag_correct (c := small) (ev := noEv)
  [.run 0 true true false, .getInfo] [.getInfo, .getResults] (by decide) 2 false true false
  (s' := (session small noEv [.run 0 true true false, .getInfo, .run 2 false true false]).1) rfl

/-- **the converse of `finished_clock_is_reported` fails after a call that raised**
(`stale_after_raise`): `run_model(num_steps=0)` re-initialises the finished object *before* it
raises `ValueError`; the object then still reports finished and `get_simulation_results` returns
the **empty** summary of the new `Output`, while the clock is back at day 0, unfinished. -/
example : view (session small noEv [.run 0 true true false, .run 0 false true false, .getInfo,
      .getResults]) =
    ([.retTrue, .raised .numSteps, .info true, .summary []],
     false, true, true, some (0, false, false, 0, [])) := by rfl

/-- 2: 2 + 5 steps reach the end (3 days), a third call raises; same rows/summary as one run -/
example : view (session small noEv [.run 2 false true false, stepCall 5, stepCall 1]) =
    ([.retTrue, .retTrue, .raised .tableWrite], false, true, true,
     some (2, true, true, 3, [(0, 2)])) := by rfl
example : view (session small noEv [.run 0 true true false]) =
    ([.retTrue], false, true, true, some (2, true, true, 3, [(0, 2)])) := by rfl
example := session_partition (c := small) (by decide) noEv (s₀ := _) rfl 2 [5, 1] (by decide)
  (by decide) (by decide)

/-- 3: after `run_model(num_steps=1, process_outputs=True)` the re-run
`run_model(till_termination=True, initialize_model=True)` of the same object **succeeds** and
gives the state of a new object (`_initialize` clears `__steps_are_finished`; before repo commit
4f049e5 this session was `[True, raised tableWrite]`) -/
example : view (session small noEv [.run 1 false true true, .run 0 true true false]) =
    ([.retTrue, .retTrue], false, true, true, some (2, true, true, 3, [(0, 2)])) := by rfl
/-- … but **without** re-initialisation `process_outputs` leaves an object that cannot be
continued: the tables are DataFrames (hence `po = false` in `session_partition`) -/
example : view (session small noEv [.run 1 false true true, stepCall 1]) =
    ([.retTrue, .raised .tableWrite], true, true, false, some (1, false, true, 1, [])) := by rfl
/-- `_initialize` clears the flag *before* it can raise (one-day window: `IndexError`): the flag
set by the first call on the uninitialised object is gone -/
example : view (session oneDay noEv [.run 1 false false true]) =
    ([.raised .attr], true, false, false, none) := by rfl
example : view (session oneDay noEv [.run 1 false false true, .run 1 false true false]) =
    ([.raised .attr, .raised .index], false, false, false, none) := by rfl
example := rerun_equals_first (c := small) (by decide) noEv
  [.run 2 false true true, .getFlux, stepCall 5, .run 1 false true true, stepCall 1]
  [.getResults, .getInfo] 0 false

/-- 4: before any returning run every getter raises `ValueError`; `run_model(initialize_model=
False)` on a new object raises `AttributeError` and does not count as a run -/
example : view (session small noEv [.getInfo, .getFlux, .run 3 false false false,
      .run 0 true false false, .getResults]) =
    ([.raised .noRun, .raised .noRun, .raised .attr, .raised .attr, .raised .noRun],
     false, false, false, none) := by rfl
example := getters_total (c := small) (ev := noEv) [.run 2 false true false, .getInfo]

/-- 5: a 12-step call crosses two harvests (day 5: maturity, jump to the planting day 15;
day 17: death, jump to day 30) and performs 12 days; the whole run has 18 -/
example : view (session exCfg exEv [.run 12 false true false]) =
    ([.retTrue], false, true, false, some (33, false, false, 12, [(0, 5), (1, 17)])) := by rfl
example : view (session exCfg exEv [.run 0 true true false]) =
    ([.retTrue], false, true, true, some (38, true, true, 18, [(0, 5), (1, 17)])) := by rfl
example := harvest_does_not_stop_stepping (c := exCfg) (by decide) exEv
  (st := { t := 0, season := -1, dap := 0, mature := false, dead := false, harvestFlag := false,
           finished := false, rowsRev := [], summaryRev := [] })
  (Reach.init rfl) rfl (f := 40) (sT := _) rfl 12 (by decide)

end Aqua.Session
