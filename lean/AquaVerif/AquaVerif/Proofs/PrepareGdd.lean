import AquaVerif.Model.PrepareGdd
import AquaVerif.Proofs.Basic
import AquaVerif.Proofs.CropCalendar
import Mathlib.Algebra.Order.BigOperators.Group.List

/-
Lemmas about the `SwitchGDD` conversion (`Model/PrepareGdd.lean`).

A. `uniqLabels`, `iloc`: characterisations.
B. **totality** of `prepareGdd` (`prepareGdd_ok_iff`): success iff the `season` column exists, no
   row is unlabelled (NaN) and every season present has every calendar-day index in range.
C. per-season order: with non-negative daily growing degrees the per-season values keep the order
   of the calendar-day indexes (`seasonStages_mono`).
D. `np.mean` (`gddNpMean`) is the arithmetic mean, preserves pointwise order; hence the converted
   calendar keeps the order of the calendar-day indexes for `sum_fun = 'mean'`
   (`prepareGdd_mean_mono`) and for one season with `'median'`.  (Pointwise monotonicity of the
   median of more than one season is proved in `Proofs/PrepareGddOrder.lean`, not here.)
E. single season: converted value = cumulative growing degrees at the calendar-day index
   (`prepareGdd_single_season`).
F. the finding: `YldForm`, `FloweringCD` are not converted (`yldForm_unchanged`),
   `CalendarType = 2`, `YieldFormation` is the calendar-day `YldFormCD`.

No law of `F` (exp/log/pow/round) is assumed anywhere in this file; `toInt` is arbitrary.
-/

set_option linter.unusedSectionVars false
set_option linter.unusedVariables false
set_option linter.unusedSimpArgs false
namespace Aqua
variable {α : Type} [Field α] [LinearOrder α] [IsStrictOrderedRing α]

/-! ## A. labels and positional indexing -/

theorem mem_uniqLabels (l : List (Option Nat)) (y : Option Nat) : y ∈ uniqLabels l ↔ y ∈ l := by
  induction l with
  | nil => simp [uniqLabels]
  | cons x xs ih =>
    simp only [uniqLabels, List.mem_cons, List.mem_filter, ih, decide_eq_true_eq]
    constructor
    · rintro (h | ⟨h, _⟩)
      · exact Or.inl h
      · exact Or.inr h
    · rintro (h | h)
      · exact Or.inl h
      · by_cases hy : y = x
        · exact Or.inl hy
        · exact Or.inr ⟨h, hy⟩

/-- a Python position `i` is valid for a sequence of length `n` -/
def InRange (i : Int) (n : Nat) : Prop := (0 ≤ i ∧ i.toNat < n) ∨ (i < 0 ∧ i.natAbs ≤ n)

theorem iloc_isSome_iff {β : Type} (l : List β) (i : Int) : (iloc l i).isSome ↔ InRange i l.length := by
  unfold iloc InRange
  by_cases h : 0 ≤ i
  · simp only [h, if_true, true_and]
    have : ¬ i < 0 := not_lt.mpr h
    simp only [this, false_and, or_false]
    constructor
    · intro hs
      by_contra hn
      rw [List.getElem?_eq_none (not_lt.mp hn)] at hs
      simp at hs
    · intro hl
      rw [List.getElem?_eq_getElem hl]; simp
  · have hneg : i < 0 := not_le.mp h
    simp only [h, if_false, false_and, false_or, hneg, true_and]
    by_cases h2 : i.natAbs ≤ l.length
    · simp only [h2, if_true, iff_true]
      have hpos : 0 < i.natAbs := Int.natAbs_pos.mpr (ne_of_lt hneg)
      have : l.length - i.natAbs < l.length := by omega
      rw [List.getElem?_eq_getElem this]; simp
    · simp [h2]

theorem iloc_nil {β : Type} (i : Int) : iloc ([] : List β) i = none := by
  have := (iloc_isSome_iff ([] : List β) i).not
  cases h : iloc ([] : List β) i with
  | none => rfl
  | some v =>
    exfalso
    have h1 : InRange i 0 := (iloc_isSome_iff ([] : List β) i).mp (by simp [h])
    rcases h1 with ⟨_, h2⟩ | ⟨h2, h3⟩
    · omega
    · have : 0 < i.natAbs := Int.natAbs_pos.mpr (ne_of_lt h2)
      simp at h3; omega

/-- non-negative positions read in list order -/
theorem iloc_of_nonneg {β : Type} {l : List β} {i : Int} (h : 0 ≤ i) : iloc l i = l[i.toNat]? := by
  simp [iloc, h]

/-! ## B. totality -/

/-- all calendar-day indexes `prepare_gdd` uses are valid positions in a season of `n` rows -/
def StagesInRange (toInt : α → Int) (cropType : Nat) (s : GddStagesIn α) (n : Nat) : Prop :=
  InRange (toInt s.emergenceCD) n ∧ InRange (toInt s.canopy10PctCD) n ∧
  InRange (toInt s.maxRootingCD) n ∧ InRange (toInt s.maxCanopyCD) n ∧
  InRange (toInt s.canopyDevEndCD) n ∧ InRange (toInt s.senescenceCD) n ∧
  InRange (toInt s.maturityCD) n ∧ InRange (toInt s.hiStartCD) n ∧ InRange (toInt s.hiEndCD) n ∧
  (cropType = 3 → InRange (toInt s.floweringEndCD) n)

theorem seasonStages_isSome_iff (toInt : α → Int) (cropType : Nat) (s : GddStagesIn α)
    (cum : List α) :
    (seasonStages toInt cropType s cum).isSome ↔ StagesInRange toInt cropType s cum.length := by
  unfold StagesInRange
  simp only [← iloc_isSome_iff]
  unfold seasonStages
  cases iloc cum (toInt s.emergenceCD) <;> simp
  cases iloc cum (toInt s.canopy10PctCD) <;> simp
  cases iloc cum (toInt s.maxRootingCD) <;> simp
  cases iloc cum (toInt s.maxCanopyCD) <;> simp
  cases iloc cum (toInt s.canopyDevEndCD) <;> simp
  cases iloc cum (toInt s.senescenceCD) <;> simp
  cases iloc cum (toInt s.maturityCD) <;> simp
  cases iloc cum (toInt s.hiStartCD) <;> simp
  cases iloc cum (toInt s.hiEndCD) <;> simp
  by_cases h3 : cropType = 3
  · simp only [h3, if_true, true_imp_iff]
    cases iloc cum (toInt s.floweringEndCD) <;> simp
  · simp [h3]

theorem allSeasons_isSome_iff (toInt : α → Int) (cropType : Nat) (s : GddStagesIn α)
    (rows : List (Option Nat × α)) (ks : List (Option Nat)) :
    (allSeasons toInt cropType s rows ks).isSome ↔
      ∀ k ∈ ks, (seasonStages toInt cropType s (cumsum (seasonGdd rows k))).isSome := by
  induction ks with
  | nil => simp [allSeasons]
  | cons k ks ih =>
    simp only [allSeasons, List.forall_mem_cons]
    cases h1 : seasonStages toInt cropType s (cumsum (seasonGdd rows k)) with
    | none => simp
    | some v =>
      cases h2 : allSeasons toInt cropType s rows ks with
      | none => simp [h2] at ih; simpa using ih
      | some vs => simp [h2] at ih; simpa using ih

theorem allSeasons_length {toInt : α → Int} {cropType : Nat} {s : GddStagesIn α}
    {rows : List (Option Nat × α)} {ks : List (Option Nat)} {vs : List (GddStages α)}
    (h : allSeasons toInt cropType s rows ks = some vs) : vs.length = ks.length := by
  induction ks generalizing vs with
  | nil => simp [allSeasons] at h; subst h; rfl
  | cons k ks ih =>
    simp only [allSeasons] at h
    cases h1 : seasonStages toInt cropType s (cumsum (seasonGdd rows k)) with
    | none => simp [h1] at h
    | some v =>
      cases h2 : allSeasons toInt cropType s rows ks with
      | none => simp [h1, h2] at h
      | some ws =>
        simp [h1, h2] at h; subst h
        simp [ih h2]

/-- number of rows of season `k` -/
def seasonLen (rows : List (Option Nat × α)) (k : Nat) : Nat :=
  (seasonGdd rows (some k)).length

/-- **totality of `prepare_gdd`**: it returns iff the `season` column exists, no row of the window
is left unlabelled (an unlabelled row makes an empty "NaN season", whose first look-up raises
`IndexError`) and every calendar-day index is a valid position in every season present. -/
theorem prepareGdd_ok_iff (toInt : α → Int) (cropType : Nat) (hasCol : Bool) (sumFun : Nat)
    (s : GddStagesIn α) (old : GddStages α) (rows : List (Option Nat × α)) :
    (∃ g, prepareGdd toInt cropType hasCol sumFun s old rows = .ok g) ↔
      hasCol = true ∧ (∀ r ∈ rows, r.1 ≠ none) ∧
      (∀ k, some k ∈ rows.map (·.1) → StagesInRange toInt cropType s (seasonLen rows k)) := by
  have key : (allSeasons toInt cropType s rows (uniqLabels (rows.map (·.1)))).isSome ↔
      ((∀ r ∈ rows, r.1 ≠ none) ∧
       ∀ k, some k ∈ rows.map (·.1) → StagesInRange toInt cropType s (seasonLen rows k)) := by
    rw [allSeasons_isSome_iff]
    simp only [mem_uniqLabels, seasonStages_isSome_iff, cumsum_length]
    constructor
    · intro h
      refine ⟨?_, fun k hk => h (some k) hk⟩
      intro r hr hn
      have := h none (by rw [← hn]; exact List.mem_map_of_mem hr)
      have h0 : InRange (toInt s.emergenceCD) 0 := by simpa [seasonGdd] using this.1
      rcases h0 with ⟨_, h2⟩ | ⟨h2, h3⟩
      · omega
      · have : 0 < (toInt s.emergenceCD).natAbs := Int.natAbs_pos.mpr (ne_of_lt h2)
        omega
    · rintro ⟨hn, hk⟩ k hmem
      cases k with
      | none =>
        exfalso
        obtain ⟨r, hr, hr1⟩ := List.mem_map.mp hmem
        exact hn r hr hr1
      | some k => exact hk k hmem
  unfold prepareGdd
  cases hasCol with
  | false => simp
  | true =>
    simp only [Bool.not_true, Bool.false_eq_true, if_false, true_and]
    cases hall : allSeasons toInt cropType s rows (uniqLabels (rows.map (·.1))) with
    | none =>
      rw [hall] at key
      simp only [Option.isSome_none, Bool.false_eq_true, false_iff] at key
      simp only [reduceCtorEq, exists_false, false_iff]
      intro h; exact key ⟨h.1, h.2⟩
    | some vs =>
      rw [hall] at key
      have hk := key.mp (by simp)
      simp only [Except.ok.injEq, exists_eq', true_iff]
      exact ⟨hk.1, hk.2⟩

/-! ## C. per-season order -/

/-- the nine stages whose value is a cumulative-sum look-up -/
inductive Stage where
  | emergence | canopy10Pct | maxRooting | maxCanopy | canopyDevEnd | senescence | maturity
  | hiStart | hiEnd
  deriving DecidableEq, Repr

/-- calendar-day value of a stage -/
def Stage.cd (s : GddStagesIn α) : Stage → α
  | .emergence => s.emergenceCD | .canopy10Pct => s.canopy10PctCD | .maxRooting => s.maxRootingCD
  | .maxCanopy => s.maxCanopyCD | .canopyDevEnd => s.canopyDevEndCD
  | .senescence => s.senescenceCD | .maturity => s.maturityCD | .hiStart => s.hiStartCD
  | .hiEnd => s.hiEndCD

/-- thermal value of a stage -/
def Stage.val (g : GddStages α) : Stage → α
  | .emergence => g.emergence | .canopy10Pct => g.canopy10Pct | .maxRooting => g.maxRooting
  | .maxCanopy => g.maxCanopy | .canopyDevEnd => g.canopyDevEnd
  | .senescence => g.senescence | .maturity => g.maturity | .hiStart => g.hiStart
  | .hiEnd => g.hiEnd

/-- each per-season entry is the look-up at the stage's calendar-day index -/
theorem seasonStages_val {toInt : α → Int} {cropType : Nat} {s : GddStagesIn α} {cum : List α}
    {v : GddStages α} (h : seasonStages toInt cropType s cum = some v) (a : Stage) :
    iloc cum (toInt (a.cd s)) = some (a.val v) := by
  unfold seasonStages at h
  simp only [Option.bind_eq_some_iff] at h
  obtain ⟨e, he, c10, hc10, mr, hmr, mc, hmc, cde, hcde, sen, hsen, mat, hmat, his, hhis, hie,
    hhie, h⟩ := h
  by_cases h3 : cropType = 3
  · simp only [h3, if_true, Option.bind_eq_some_iff] at h
    obtain ⟨fe, hfe, h⟩ := h
    cases h
    cases a <;> simp [Stage.cd, Stage.val, *]
  · simp only [h3, if_false] at h
    cases h
    cases a <;> simp [Stage.cd, Stage.val, *]

/-- look-ups in a non-decreasing list at non-negative positions keep the order of the positions -/
theorem iloc_mono {l : List α} (hl : l.Pairwise (· ≤ ·)) {i j : Int} (hi : 0 ≤ i) (hij : i ≤ j)
    {x y : α} (hx : iloc l i = some x) (hy : iloc l j = some y) : x ≤ y := by
  rw [iloc_of_nonneg hi] at hx
  rw [iloc_of_nonneg (le_trans hi hij)] at hy
  obtain ⟨h1, rfl⟩ := List.getElem?_eq_some_iff.mp hx
  obtain ⟨h2, rfl⟩ := List.getElem?_eq_some_iff.mp hy
  have hle : i.toNat ≤ j.toNat := Int.toNat_le_toNat hij
  rcases Nat.lt_or_eq_of_le hle with hlt | heq
  · exact (List.pairwise_iff_getElem.mp hl) _ _ h1 h2 hlt
  · simp [heq]

/-- **within a season the thermal values keep the order of the calendar-day indexes** (daily
growing degrees non-negative, indexes non-negative) -/
theorem seasonStages_mono {toInt : α → Int} {cropType : Nat} {s : GddStagesIn α} {gdd : List α}
    {v : GddStages α} (hg : ∀ x ∈ gdd, 0 ≤ x)
    (h : seasonStages toInt cropType s (cumsum gdd) = some v) {a b : Stage}
    (ha : 0 ≤ toInt (a.cd s)) (hab : toInt (a.cd s) ≤ toInt (b.cd s)) : a.val v ≤ b.val v :=
  iloc_mono (cumsum_pairwise hg) ha hab (seasonStages_val h a) (seasonStages_val h b)

/-! ## D. summarising -/

theorem sumFrom_eq_sum (acc : α) (l : List α) : sumFrom acc l = acc + l.sum := by
  induction l generalizing acc with
  | nil => simp [sumFrom]
  | cons x xs ih => simp [sumFrom, ih, add_assoc]

/-- numpy's order of additions gives, over a field, the plain sum — proved here for fewer than
eight terms (plain left-to-right addition; the eight-lane case is not needed below) -/
theorem npSum_eq_sum_of_lt {l : List α} (h : l.length < 8) : npSum l = l.sum := by
  have hb : npSumBlock l = l.sum := by
    simp [npSumBlock, h, sumFrom_eq_sum]
  unfold npSum
  cases hn : l.length with
  | zero => simp [npSumAux, hb]
  | succ n =>
    have : l.length ≤ 128 := by omega
    simp [npSumAux, this, hb]

theorem gddNpMean_eq {l : List α} (h : l.length < 8) : gddNpMean l = l.sum / (l.length : α) := by
  simp [gddNpMean, npSum_eq_sum_of_lt h]

theorem gddNpMean_singleton (x : α) : gddNpMean [x] = x := by
  rw [gddNpMean_eq (by simp)]; simp

theorem gddNpMedian_singleton (x : α) : gddNpMedian [x] = x := by
  simp [gddNpMedian, sortAsc, insertAsc, gddNpMean_singleton]

/-- **`np.mean` preserves pointwise order** (fewer than eight values) -/
theorem gddNpMean_mono {a b : List α} (h : List.Forall₂ (· ≤ ·) a b) (hlen : a.length < 8) :
    gddNpMean a ≤ gddNpMean b := by
  rw [gddNpMean_eq hlen, gddNpMean_eq (h.length_eq ▸ hlen), h.length_eq]
  exact div_le_div_of_nonneg_right h.sum_le_sum (Nat.cast_nonneg _)

theorem forall₂_map_of_forall {β : Type} (vs : List β) (f g : β → α) (h : ∀ v ∈ vs, f v ≤ g v) :
    List.Forall₂ (· ≤ ·) (vs.map f) (vs.map g) := by
  induction vs with
  | nil => simp
  | cons v vs ih =>
    simp only [List.map_cons, List.forall₂_cons]
    exact ⟨h v (by simp), ih (fun w hw => h w (by simp [hw]))⟩

theorem allSeasons_mem {toInt : α → Int} {cropType : Nat} {s : GddStagesIn α}
    {rows : List (Option Nat × α)} {ks : List (Option Nat)} {vs : List (GddStages α)}
    (h : allSeasons toInt cropType s rows ks = some vs) :
    ∀ v ∈ vs, ∃ k ∈ ks, seasonStages toInt cropType s (cumsum (seasonGdd rows k)) = some v := by
  induction ks generalizing vs with
  | nil => simp [allSeasons] at h; subst h; simp
  | cons k ks ih =>
    simp only [allSeasons] at h
    cases h1 : seasonStages toInt cropType s (cumsum (seasonGdd rows k)) with
    | none => simp [h1] at h
    | some v =>
      cases h2 : allSeasons toInt cropType s rows ks with
      | none => simp [h1, h2] at h
      | some ws =>
        simp [h1, h2] at h; subst h
        intro w hw
        rcases List.mem_cons.mp hw with rfl | hw
        · exact ⟨k, by simp, h1⟩
        · obtain ⟨k', hk', hs⟩ := ih h2 w hw
          exact ⟨k', by simp [hk'], hs⟩

theorem seasonGdd_nonneg {rows : List (Option Nat × α)} (hg : ∀ r ∈ rows, 0 ≤ r.2)
    (k : Option Nat) : ∀ x ∈ seasonGdd rows k, 0 ≤ x := by
  cases k with
  | none => simp [seasonGdd]
  | some k =>
    intro x hx
    simp only [seasonGdd, List.mem_map, List.mem_filter] at hx
    obtain ⟨r, ⟨hr, _⟩, rfl⟩ := hx
    exact hg r hr

/-- what `prepare_gdd` stores for a look-up stage: the summary of the per-season look-ups -/
theorem prepareGdd_val {toInt : α → Int} {cropType : Nat} {hasCol : Bool} {sumFun : Nat}
    {s : GddStagesIn α} {old g : GddStages α} {rows : List (Option Nat × α)}
    (h : prepareGdd toInt cropType hasCol sumFun s old rows = .ok g) :
    ∃ vs, allSeasons toInt cropType s rows (uniqLabels (rows.map (·.1))) = some vs ∧
      ∀ a : Stage, a.val g = summarise sumFun (a.val old) (vs.map a.val) := by
  unfold prepareGdd at h
  cases hasCol with
  | false => simp at h
  | true =>
    simp only [Bool.not_true, Bool.false_eq_true, if_false] at h
    cases hall : allSeasons toInt cropType s rows (uniqLabels (rows.map (·.1))) with
    | none => simp [hall] at h
    | some vs =>
      simp only [hall] at h
      refine ⟨vs, rfl, ?_⟩
      cases h
      intro a
      cases a <;> simp [Stage.val, List.map_map, Function.comp_def]

/-- **thermal-calendar order (C05), `sum_fun = 'mean'`**: with non-negative daily growing degrees
the converted calendar keeps the order of the (non-negative) calendar-day indexes:
`int(aCD) ≤ int(bCD) → a ≤ b` (fewer than eight seasons) for any two of Emergence, Canopy10Pct, MaxRooting, MaxCanopy,
CanopyDevEnd, Senescence, Maturity, HIstart, HIend. -/
theorem prepareGdd_mean_mono {toInt : α → Int} {cropType : Nat} {hasCol : Bool}
    {s : GddStagesIn α} {old g : GddStages α} {rows : List (Option Nat × α)}
    (hg : ∀ r ∈ rows, 0 ≤ r.2) (hn : (uniqLabels (rows.map (·.1))).length < 8)
    (h : prepareGdd toInt cropType hasCol 0 s old rows = .ok g) {a b : Stage}
    (ha : 0 ≤ toInt (a.cd s)) (hab : toInt (a.cd s) ≤ toInt (b.cd s)) : a.val g ≤ b.val g := by
  obtain ⟨vs, hall, hv⟩ := prepareGdd_val h
  rw [hv a, hv b]
  simp only [summarise, if_true]
  refine gddNpMean_mono ?_ (by simpa [allSeasons_length hall] using hn)
  apply forall₂_map_of_forall
  intro v hvm
  obtain ⟨k, _, hs⟩ := allSeasons_mem hall v hvm
  exact seasonStages_mono (seasonGdd_nonneg hg k) hs ha hab

/-! ## E. a single season -/

/-- **one season**: the converted value of a stage is the cumulative growing degrees of that season
at the stage's calendar-day index, for `'mean'` and for `'median'` -/
theorem prepareGdd_single_season {toInt : α → Int} {cropType : Nat} {hasCol : Bool} {sumFun : Nat}
    {s : GddStagesIn α} {old g : GddStages α} {rows : List (Option Nat × α)} {k : Option Nat}
    (h : prepareGdd toInt cropType hasCol sumFun s old rows = .ok g)
    (hk : uniqLabels (rows.map (·.1)) = [k]) (hsf : sumFun = 0 ∨ sumFun = 1) (a : Stage) :
    iloc (cumsum (seasonGdd rows k)) (toInt (a.cd s)) = some (a.val g) := by
  obtain ⟨vs, hall, hv⟩ := prepareGdd_val h
  rw [hk] at hall
  simp only [allSeasons] at hall
  cases h1 : seasonStages toInt cropType s (cumsum (seasonGdd rows k)) with
  | none => simp [h1] at hall
  | some v =>
    simp [h1] at hall; subst hall
    rw [hv a, seasonStages_val h1 a]
    rcases hsf with rfl | rfl <;>
      simp [summarise, gddNpMean_singleton, gddNpMedian_singleton]

/-- hence, for one season, the order holds for `'median'` as well -/
theorem prepareGdd_single_season_mono {toInt : α → Int} {cropType : Nat} {hasCol : Bool}
    {sumFun : Nat} {s : GddStagesIn α} {old g : GddStages α} {rows : List (Option Nat × α)}
    {k : Option Nat} (hg : ∀ r ∈ rows, 0 ≤ r.2)
    (h : prepareGdd toInt cropType hasCol sumFun s old rows = .ok g)
    (hk : uniqLabels (rows.map (·.1)) = [k]) (hsf : sumFun = 0 ∨ sumFun = 1) {a b : Stage}
    (ha : 0 ≤ toInt (a.cd s)) (hab : toInt (a.cd s) ≤ toInt (b.cd s)) : a.val g ≤ b.val g :=
  iloc_mono (cumsum_pairwise (seasonGdd_nonneg hg k)) ha hab
    (prepareGdd_single_season h hk hsf a) (prepareGdd_single_season h hk hsf b)

/-! ## F. the entry point: what is *not* converted -/

section entry
variable {F : Fn α} {toInt : α → Int} {c : CalCDIn α} {gddMethod : Nat} {tbase tupp : α}
  {hasCol : Bool} {sumFun : Nat} {oldYF oldFD : α} {rows : List (Option Nat × α × α)}
  {r : CalSwitchOut α}

/-- **finding**: after the conversion `crop.YldForm` still holds the calendar-day input
(`prepare_gdd` sets an attribute called `YieldFormation` instead), and so does `FloweringCD`;
`CalendarType` is 2, so every later reader takes `YldForm` for growing degrees. -/
theorem yldForm_unchanged
    (h : calendarInitCDSwitch F toInt c gddMethod tbase tupp hasCol sumFun oldYF oldFD rows = .ok r) :
    r.cal.yldForm = c.yldFormCD ∧ r.cal.floweringCD = c.floweringCD ∧ r.calendarType = 2 ∧
    r.cal.hiEndCD = c.hiStartCD + c.yldFormCD := by
  unfold calendarInitCDSwitch at h
  cases h0 : calendarInitCD F { c with switchGDD := false } with
  | error e => simp [h0] at h
  | ok o =>
    simp only [h0] at h
    have hf := calendarInitCD_fields h0
    have hfl := calendarInitCD_floweringCD_kept h0
    cases hm : GddMethod.ofNat? gddMethod with
    | none => simp [hm] at h
    | some m =>
      simp only [hm] at h
      split at h
      · simp at h
      · cases h
        exact ⟨hf.2.2.2.1, hfl, rfl, hf.1⟩

/-- **thermal-calendar order of the converted calendar (feeds C05)**, `sum_fun = 'mean'`,
`Tbase ≤ Tupp` (daily growing degrees non-negative): the converted thresholds keep the order of
the calendar-day indexes they were read at. -/
theorem calendarInitCDSwitch_mean_order (htb : tbase ≤ tupp)
    (hn : (uniqLabels (rows.map (·.1))).length < 8)
    (h : calendarInitCDSwitch F toInt c gddMethod tbase tupp hasCol 0 oldYF oldFD rows = .ok r) :
    (0 ≤ toInt c.emergenceCD → toInt c.emergenceCD ≤ toInt r.cal.maxCanopyCD →
      r.cal.emergence ≤ r.cal.maxCanopy) ∧
    (0 ≤ toInt r.cal.maxCanopyCD → toInt r.cal.maxCanopyCD ≤ toInt c.senescenceCD →
      r.cal.maxCanopy ≤ r.cal.senescence) ∧
    (0 ≤ toInt c.emergenceCD → toInt c.emergenceCD ≤ toInt c.senescenceCD →
      r.cal.emergence ≤ r.cal.senescence) ∧
    (0 ≤ toInt c.senescenceCD → toInt c.senescenceCD ≤ toInt c.maturityCD →
      r.cal.senescence ≤ r.cal.maturity) ∧
    (0 ≤ toInt c.hiStartCD → toInt c.hiStartCD ≤ toInt r.cal.hiEndCD →
      r.cal.hiStart ≤ r.cal.hiEnd) ∧
    (0 ≤ toInt r.cal.hiEndCD → toInt r.cal.hiEndCD ≤ toInt c.maturityCD →
      r.cal.hiEnd ≤ r.cal.maturity) := by
  unfold calendarInitCDSwitch at h
  cases h0 : calendarInitCD F { c with switchGDD := false } with
  | error e => simp [h0] at h
  | ok o =>
    simp only [h0] at h
    cases hm : GddMethod.ofNat? gddMethod with
    | none => simp [hm] at h
    | some m =>
      simp only [hm] at h
      split at h
      · simp at h
      · rename_i g hg
        cases h
        have hnn : ∀ q ∈ rows.map (fun q => (q.1, gddDayInit m tbase tupp q.2.1 q.2.2)),
            0 ≤ q.2 := by
          intro q hq
          obtain ⟨q0, _, rfl⟩ := List.mem_map.mp hq
          exact (gddDayInit_range m htb q0.2.1 q0.2.2).1
        have hn' : (uniqLabels ((rows.map
            (fun q => (q.1, gddDayInit m tbase tupp q.2.1 q.2.2))).map (·.1))).length < 8 := by
          simpa [List.map_map, Function.comp_def] using hn
        refine ⟨fun h1 h2 => ?_, fun h1 h2 => ?_, fun h1 h2 => ?_, fun h1 h2 => ?_,
          fun h1 h2 => ?_, fun h1 h2 => ?_⟩
        · exact prepareGdd_mean_mono hnn hn' hg (a := .emergence) (b := .maxCanopy) h1 h2
        · exact prepareGdd_mean_mono hnn hn' hg (a := .maxCanopy) (b := .senescence) h1 h2
        · exact prepareGdd_mean_mono hnn hn' hg (a := .emergence) (b := .senescence) h1 h2
        · exact prepareGdd_mean_mono hnn hn' hg (a := .senescence) (b := .maturity) h1 h2
        · exact prepareGdd_mean_mono hnn hn' hg (a := .hiStart) (b := .hiEnd) h1 h2
        · exact prepareGdd_mean_mono hnn hn' hg (a := .hiEnd) (b := .maturity) h1 h2

end entry

/-- the per-season entries of `YieldFormation` are all the calendar-day length `HIend − HIstart`
read from the crop (not a thermal quantity) -/
theorem seasonStages_yieldFormation {toInt : α → Int} {cropType : Nat} {s : GddStagesIn α}
    {cum : List α} {v : GddStages α} (h : seasonStages toInt cropType s cum = some v) :
    v.yieldFormation = s.hiEnd - s.hiStart := by
  unfold seasonStages at h
  simp only [Option.bind_eq_some_iff] at h
  obtain ⟨e, he, c10, hc10, mr, hmr, mc, hmc, cde, hcde, sen, hsen, mat, hmat, his, hhis, hie,
    hhie, h⟩ := h
  by_cases h3 : cropType = 3
  · simp only [h3, if_true, Option.bind_eq_some_iff] at h
    obtain ⟨fe, hfe, h⟩ := h
    cases h; rfl
  · simp only [h3, if_false] at h
    cases h; rfl

/-! ## non-vacuity -/

/-- two seasons of three days, indexes 0 and 2: the hypotheses of `prepareGdd_mean_mono` hold and
the call succeeds -/
example :
    ∃ g, prepareGdd (α := ℚ) (fun x => x.num / (x.den : Int)) 1 true 0
      { emergenceCD := 0, canopy10PctCD := 1, maxRootingCD := 1, maxCanopyCD := 2,
        canopyDevEndCD := 2, senescenceCD := 2, maturityCD := 2, hiStartCD := 1, hiEndCD := 2,
        floweringEndCD := 0, hiStart := 1, hiEnd := 2 }
      { emergence := 0, canopy10Pct := 0, maxRooting := 0, maxCanopy := 0, canopyDevEnd := 0,
        senescence := 0, maturity := 0, hiStart := 0, hiEnd := 0, yieldFormation := 0,
        floweringEnd := 0, floweringDuration := 0 }
      [(some 1, 1), (some 1, 2), (some 1, 3), (some 2, 2), (some 2, 0), (some 2, 4)] = .ok g ∧
      g.emergence = 3 / 2 ∧ g.maturity = 6 ∧ g.yieldFormation = 1 := by
  refine ⟨_, rfl, ?_, ?_, ?_⟩ <;> norm_num [gddNpMean, npSum, npSumAux, npSumBlock, sumFrom, summarise]

#print axioms prepareGdd_ok_iff
#print axioms seasonStages_mono
#print axioms gddNpMean_mono
#print axioms prepareGdd_mean_mono
#print axioms prepareGdd_single_season
#print axioms prepareGdd_single_season_mono
#print axioms yldForm_unchanged
#print axioms calendarInitCDSwitch_mean_order
#print axioms seasonStages_yieldFormation

end Aqua
