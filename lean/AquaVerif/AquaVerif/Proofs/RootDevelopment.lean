import AquaVerif.Model.RootDevelopment
import AquaVerif.Proofs.Basic
import AquaVerif.Proofs.Response
/-
Lemmas about `Model/RootDevelopment.lean` for property C05.
-/

set_option linter.unusedSectionVars false
set_option linter.unusedVariables false
namespace Aqua
variable {α : Type} [Field α] [LinearOrder α] [IsStrictOrderedRing α]

/-! ## 1. The layer-limitation map -/

/-- layers with non-negative thickness and non-negative penetrability (where defined) -/
def LaysNN (ls : List (Lay α)) : Prop := ∀ l ∈ ls, 0 ≤ l.1 ∧ ∀ p, l.2 = some p → 0 ≤ p

/-- … and penetrability at most 100 % -/
def LaysLe100 (ls : List (Lay α)) : Prop := ∀ l ∈ ls, ∀ p, l.2 = some p → p ≤ 100

theorem LaysNN.tail {l : Lay α} {ls : List (Lay α)} (h : LaysNN (l :: ls)) : LaysNN ls :=
  fun x hx => h x (List.mem_cons_of_mem _ hx)

theorem LaysLe100.tail {l : Lay α} {ls : List (Lay α)} (h : LaysLe100 (l :: ls)) : LaysLe100 ls :=
  fun x hx => h x (List.mem_cons_of_mem _ hx)

private theorem pen_pos {pen : α} (hp : 0 ≤ pen) (h : ¬ (pen ≤ 0 ∧ 0 ≤ pen)) : 0 < pen / 100 := by
  have : 0 < pen := by
    rcases lt_or_eq_of_le hp with h1 | h1
    · exact h1
    · exact absurd ⟨h1 ▸ le_refl _, hp⟩ h
  positivity

/-- the loop never returns less than the depth `ZrAdj` it starts from -/
theorem limLoop_ge {rest : List (Lay α)} : ∀ {pen A R S D a : α},
    LaysNN rest → 0 ≤ pen → 0 ≤ R → D = S - A → (rest ≠ [] → 0 ≤ D) →
    limLoop pen rest A R S D = .ok a → A ≤ a := by
  induction rest with
  | nil =>
    intro pen A R S D a _ hp hR _ _ h
    simp only [limLoop] at h
    have := Except.ok.inj h
    have h2 : 0 ≤ R * (pen / 100) := by positivity
    linarith
  | cons nxt rest ih =>
    intro pen A R S D a hl hp hR hD hD0 h
    obtain ⟨dz', po⟩ := nxt
    simp only [limLoop] at h
    split_ifs at h with hc
    · have := Except.ok.inj h
      have h2 : 0 ≤ R * (pen / 100) := by positivity
      linarith
    · obtain ⟨hc1, hc2⟩ := not_or.mp hc
      have hc2 := not_le.mp hc2
      cases po with
      | none => simp at h
      | some p' =>
        simp only at h
        have hq : 0 < pen / 100 := pen_pos hp hc1
        have hD0' : 0 ≤ D := hD0 (by simp)
        have hR' : 0 ≤ R - D / (pen / 100) := by
          rw [sub_nonneg, div_le_iff₀ hq]; linarith [hc2]
        have hn := hl (dz', some p') (by simp)
        have := ih (hl.tail) (hn.2 p' rfl) hR' (by ring : dz' = S + dz' - S) (fun _ => hn.1) h
        linarith

/-- the loop is monotone in the remaining potential depth `ZrRemain` -/
theorem limLoop_mono {rest : List (Lay α)} : ∀ {pen A R1 R2 S D a b : α},
    LaysNN rest → 0 ≤ pen → D = S - A → R1 ≤ R2 →
    limLoop pen rest A R1 S D = .ok a → limLoop pen rest A R2 S D = .ok b → a ≤ b := by
  induction rest with
  | nil =>
    intro pen A R1 R2 S D a b _ hp _ hR h1 h2
    simp only [limLoop] at h1 h2
    have e1 := Except.ok.inj h1
    have e2 := Except.ok.inj h2
    have hq : 0 ≤ pen / 100 := by positivity
    have := mul_le_mul_of_nonneg_right hR hq
    linarith
  | cons nxt rest ih =>
    intro pen A R1 R2 S D a b hl hp hD hR h1 h2
    obtain ⟨dz', po⟩ := nxt
    simp only [limLoop] at h1 h2
    have hq0 : 0 ≤ pen / 100 := by positivity
    have hT := mul_le_mul_of_nonneg_right hR hq0
    have hn := hl (dz', po) (by simp)
    split_ifs at h1 with hc1
    · split_ifs at h2 with hc2
      · -- both stop
        have e1 := Except.ok.inj h1
        have e2 := Except.ok.inj h2
        linarith
      · -- the smaller depth stops in this layer, the larger one goes on
        obtain ⟨hc2a, hc2b⟩ := not_or.mp hc2
        have hc2b := not_le.mp hc2b
        rcases hc1 with hz | hs
        · exact absurd hz hc2a
        · cases po with
          | none => simp at h2
          | some p' =>
            simp only at h2
            have hq : 0 < pen / 100 := pen_pos hp hc2a
            have hR' : 0 ≤ R2 - D / (pen / 100) := by
              rw [sub_nonneg, div_le_iff₀ hq]; linarith
            have := limLoop_ge (hl.tail) (hn.2 p' rfl) hR' (by ring : dz' = S + dz' - S)
              (fun _ => hn.1) h2
            have e1 := Except.ok.inj h1
            linarith
    · obtain ⟨hc1a, hc1b⟩ := not_or.mp hc1
      have hc1b := not_le.mp hc1b
      split_ifs at h2 with hc2
      · -- impossible: the larger depth cannot stop where the smaller one goes on
        rcases hc2 with hz | hs
        · exact absurd hz hc1a
        · linarith
      · cases po with
        | none => simp at h2
        | some p' =>
          simp only at h1 h2
          have hR' : R1 - D / (pen / 100) ≤ R2 - D / (pen / 100) := by linarith
          exact ih (hl.tail) (hn.2 p' rfl) (by ring : dz' = S + dz' - S) hR' h1 h2

/-- with penetrabilities ≤ 100 % the loop returns at most `ZrAdj + ZrRemain` -/
theorem limLoop_le {rest : List (Lay α)} : ∀ {pen A R S D a : α},
    LaysNN rest → LaysLe100 rest → 0 ≤ pen → pen ≤ 100 → 0 ≤ R → D = S - A → (rest ≠ [] → 0 ≤ D) →
    limLoop pen rest A R S D = .ok a → a ≤ A + R := by
  induction rest with
  | nil =>
    intro pen A R S D a _ _ hp hp1 hR _ _ h
    simp only [limLoop] at h
    have := Except.ok.inj h
    have hq : pen / 100 ≤ 1 := by rw [div_le_one (by norm_num)]; exact hp1
    have := mul_le_mul_of_nonneg_left hq hR
    linarith
  | cons nxt rest ih =>
    intro pen A R S D a hl hl1 hp hp1 hR hD hD0 h
    obtain ⟨dz', po⟩ := nxt
    simp only [limLoop] at h
    have hq1 : pen / 100 ≤ 1 := by rw [div_le_one (by norm_num)]; exact hp1
    split_ifs at h with hc
    · have := Except.ok.inj h
      have := mul_le_mul_of_nonneg_left hq1 hR
      linarith
    · obtain ⟨hc1, hc2⟩ := not_or.mp hc
      have hc2 := not_le.mp hc2
      cases po with
      | none => simp at h
      | some p' =>
        simp only at h
        have hq : 0 < pen / 100 := pen_pos hp hc1
        have hD0' : 0 ≤ D := hD0 (by simp)
        have hR' : 0 ≤ R - D / (pen / 100) := by
          rw [sub_nonneg, div_le_iff₀ hq]; linarith
        have hn := hl (dz', some p') (by simp)
        have hn1 := hl1 (dz', some p') (by simp)
        have := ih (hl.tail) (hl1.tail) (hn.2 p' rfl) (hn1 p' rfl) hR'
          (by ring : dz' = S + dz' - S) (fun _ => hn.1) h
        have hDq : D ≤ D / (pen / 100) := by
          rw [le_div_iff₀ hq]
          have := mul_le_mul_of_nonneg_left hq1 hD0'
          linarith
        linarith

/-- nothing left to distribute: the loop returns `ZrAdj` -/
theorem limLoop_zero {rest : List (Lay α)} {pen A S D a : α} (hD : D = S - A)
    (hD0 : rest ≠ [] → 0 ≤ D) (h : limLoop pen rest A 0 S D = .ok a) : a = A := by
  cases rest with
  | nil =>
    simp only [limLoop] at h
    have := Except.ok.inj h
    rw [← this]; ring
  | cons nxt rest =>
    simp only [limLoop] at h
    have hD0' : 0 ≤ D := hD0 (by simp)
    have hs : A + 0 * (pen / 100) ≤ S := by rw [zero_mul, add_zero]; linarith
    rw [if_pos (Or.inr hs)] at h
    have := Except.ok.inj h
    rw [← this]; ring

/-! ### the skip loop -/

theorem limSkip_spec (F : Fn α) (zmin : α) : ∀ (rest : List (Lay α)) (cur : Lay α) (zs : α),
    (limSkip F zmin cur rest zs).1 ∈ cur :: rest ∧
    (∀ l ∈ (limSkip F zmin cur rest zs).2.1, l ∈ rest) ∧
    ((limSkip F zmin cur rest zs).2.1 ≠ [] → zmin < F.round2 (limSkip F zmin cur rest zs).2.2) := by
  intro rest
  induction rest with
  | nil => intro cur zs; simp [limSkip]
  | cons nxt rest ih =>
    intro cur zs
    simp only [limSkip]
    split_ifs with hc
    · obtain ⟨i1, i2, i3⟩ := ih nxt (zs + nxt.1)
      refine ⟨List.mem_cons_of_mem _ i1, fun l hl => List.mem_cons_of_mem _ (i2 l hl), i3⟩
    · exact ⟨by simp, fun l hl => hl, fun _ => not_le.mp hc⟩

/-- `Zmin` lies on the grid `round(·, 2)` rounds to: a depth that rounds to more than `Zmin` is at
least `Zmin`.  (True of the real `round2` whenever `Zmin` is a multiple of 0.01; for an arbitrary
`Zmin`, e.g. 0.299 with a first layer 0.296 m thick, the Python takes `deltaZ < 0`.) -/
def SkipOK (F : Fn α) (zmin : α) : Prop := ∀ x, zmin < F.round2 x → zmin ≤ x

/-! ### `limit` -/

/-- **Monotonicity of the layer limitation** in the potential depth. -/
theorem limit_mono {F : Fn α} {layers : List (Lay α)} {zmin z1 z2 a b : α} (hl : LaysNN layers)
    (hz : z1 ≤ z2) (h1 : limit F layers zmin z1 = .ok a) (h2 : limit F layers zmin z2 = .ok b) :
    a ≤ b := by
  cases layers with
  | nil => simp [limit] at h1
  | cons l0 rest =>
    simp only [limit] at h1 h2
    obtain ⟨i1, i2, i3⟩ := limSkip_spec F zmin rest l0 l0.1
    generalize limSkip F zmin l0 rest l0.1 = r at *
    obtain ⟨cur, rest', zs⟩ := r
    obtain ⟨dz, po⟩ := cur
    cases po with
    | none => simp at h1
    | some p =>
      simp only at h1 h2 i1 i2
      have hp : 0 ≤ p := (hl _ i1).2 p rfl
      have hl' : LaysNN rest' := fun l hl0 => hl l (List.mem_cons_of_mem _ (i2 l hl0))
      exact limLoop_mono hl' hp rfl (by linarith) h1 h2

/-- the limited depth never exceeds the potential depth (penetrabilities in `[0,100]`) -/
theorem limit_le {F : Fn α} {layers : List (Lay α)} {zmin z a : α} (hl : LaysNN layers)
    (hl1 : LaysLe100 layers) (hs : SkipOK F zmin) (hz : zmin ≤ z)
    (h : limit F layers zmin z = .ok a) : a ≤ z := by
  cases layers with
  | nil => simp [limit] at h
  | cons l0 rest =>
    simp only [limit] at h
    obtain ⟨i1, i2, i3⟩ := limSkip_spec F zmin rest l0 l0.1
    generalize limSkip F zmin l0 rest l0.1 = r at *
    obtain ⟨cur, rest', zs⟩ := r
    obtain ⟨dz, po⟩ := cur
    cases po with
    | none => simp at h
    | some p =>
      simp only at h i1 i2 i3
      have hp : 0 ≤ p := (hl _ i1).2 p rfl
      have hp1 : p ≤ 100 := hl1 _ i1 p rfl
      have hl' : LaysNN rest' := fun l hl0 => hl l (List.mem_cons_of_mem _ (i2 l hl0))
      have hl1' : LaysLe100 rest' := fun l hl0 => hl1 l (List.mem_cons_of_mem _ (i2 l hl0))
      have := limLoop_le hl' hl1' hp hp1 (by linarith : 0 ≤ z - zmin) rfl
        (fun hne => by have := hs _ (i3 hne); linarith) h
      linarith

/-- the limited depth is at least `Zmin` -/
theorem limit_ge_zmin {F : Fn α} {layers : List (Lay α)} {zmin z a : α} (hl : LaysNN layers)
    (hs : SkipOK F zmin) (hz : zmin ≤ z) (h : limit F layers zmin z = .ok a) : zmin ≤ a := by
  cases layers with
  | nil => simp [limit] at h
  | cons l0 rest =>
    simp only [limit] at h
    obtain ⟨i1, i2, i3⟩ := limSkip_spec F zmin rest l0 l0.1
    generalize limSkip F zmin l0 rest l0.1 = r at *
    obtain ⟨cur, rest', zs⟩ := r
    obtain ⟨dz, po⟩ := cur
    cases po with
    | none => simp at h
    | some p =>
      simp only at h i1 i2 i3
      have hp : 0 ≤ p := (hl _ i1).2 p rfl
      have hl' : LaysNN rest' := fun l hl0 => hl l (List.mem_cons_of_mem _ (i2 l hl0))
      exact limLoop_ge hl' hp (by linarith : 0 ≤ z - zmin) rfl
        (fun hne => by have := hs _ (i3 hne); linarith) h

/-- `lim Zmin = Zmin` -/
theorem limit_zmin {F : Fn α} {layers : List (Lay α)} {zmin a : α} (hs : SkipOK F zmin)
    (h : limit F layers zmin zmin = .ok a) : a = zmin := by
  cases layers with
  | nil => simp [limit] at h
  | cons l0 rest =>
    simp only [limit] at h
    obtain ⟨i1, i2, i3⟩ := limSkip_spec F zmin rest l0 l0.1
    generalize limSkip F zmin l0 rest l0.1 = r at *
    obtain ⟨cur, rest', zs⟩ := r
    obtain ⟨dz, po⟩ := cur
    cases po with
    | none => simp at h
    | some p =>
      simp only [sub_self] at h i3
      exact limLoop_zero rfl (fun hne => by have := hs _ (i3 hne); linarith) h

/-! ## 2. The potential rooting depth -/

/-- order laws of `x ** y` for a positive base and a positive exponent (the code evaluates the
power only at `X = (t − t0)/(tmax − t0) ∈ (0,1)`) -/
structure PowLaws (F : Fn α) : Prop where
  pow_nonneg : ∀ x y, 0 < x → 0 ≤ F.pow x y
  pow_le_one : ∀ x y, 0 < x → x ≤ 1 → 0 < y → F.pow x y ≤ 1
  pow_mono : ∀ x x' y, 0 < x → x ≤ x' → 0 < y → F.pow x y ≤ F.pow x' y

/-- crop parameters as every crop of the table has them -/
structure RdCrop.WF (C : RdCrop α) : Prop where
  zmin_nn : 0 ≤ C.zmin
  zmin_le : C.zmin ≤ C.zmax
  pct_le : C.pctZmin ≤ 100
  fshapeR_pos : 0 < C.fshapeR

theorem RdCrop.WF.zini_le {C : RdCrop α} (h : C.WF) : C.zini ≤ C.zmin := by
  unfold RdCrop.zini
  have : C.pctZmin / 100 ≤ 1 := by rw [div_le_one (by norm_num)]; exact h.pct_le
  have := mul_le_mul_of_nonneg_left this h.zmin_nn
  linarith

theorem zrRaw_mono {F : Fn α} (hP : PowLaws F) {C : RdCrop α} (h : C.WF) {t t' : α} (ht : t ≤ t') :
    C.zrRaw F t ≤ C.zrRaw F t' := by
  have hzi := h.zini_le
  have hzz : 0 ≤ C.zmax - C.zini := by linarith [h.zmin_le]
  have he : 0 < 1 / C.fshapeR := one_div_pos.mpr h.fshapeR_pos
  unfold RdCrop.zrRaw
  by_cases h1 : C.maxRooting ≤ t
  · rw [if_pos h1, if_pos (le_trans h1 ht)]
  · rw [if_neg h1]
    have h1' := not_le.mp h1
    by_cases h2 : t ≤ C.t0 F
    · rw [if_pos h2]
      by_cases h3 : C.maxRooting ≤ t'
      · rw [if_pos h3]; linarith [h.zmin_le]
      · rw [if_neg h3]
        by_cases h4 : t' ≤ C.t0 F
        · rw [if_pos h4]
        · rw [if_neg h4]
          have h3' := not_le.mp h3
          have h4' := not_lt.mp (not_lt.mpr (le_of_lt (not_le.mp h4)))
          have hx : 0 < (t' - C.t0 F) / (C.maxRooting - C.t0 F) := by
            apply div_pos <;> linarith [not_le.mp h4]
          have := mul_nonneg hzz (hP.pow_nonneg _ (1 / C.fshapeR) hx)
          simp only
          linarith
    · rw [if_neg h2]
      have h2' := not_le.mp h2
      have hden : 0 < C.maxRooting - C.t0 F := by linarith
      have hx0 : 0 < (t - C.t0 F) / (C.maxRooting - C.t0 F) := by
        apply div_pos <;> linarith
      by_cases h3 : C.maxRooting ≤ t'
      · rw [if_pos h3]
        have hx1 : (t - C.t0 F) / (C.maxRooting - C.t0 F) ≤ 1 := by
          rw [div_le_one hden]; linarith
        have := mul_le_mul_of_nonneg_left (hP.pow_le_one _ (1 / C.fshapeR) hx0 hx1 he) hzz
        simp only
        linarith
      · rw [if_neg h3, if_neg (by intro hh; exact h2 (le_trans ht hh))]
        have hxx : (t - C.t0 F) / (C.maxRooting - C.t0 F) ≤ (t' - C.t0 F) / (C.maxRooting - C.t0 F) :=
          div_le_div_of_nonneg_right (by linarith) hden.le
        have := mul_le_mul_of_nonneg_left (hP.pow_mono _ _ (1 / C.fshapeR) hx0 hxx he) hzz
        simp only
        linarith

theorem zrRaw_le_zmax {F : Fn α} (hP : PowLaws F) {C : RdCrop α} (h : C.WF) (t : α) :
    C.zrRaw F t ≤ C.zmax := by
  have := zrRaw_mono hP h (le_max_left t C.maxRooting)
  have e : C.zrRaw F (max t C.maxRooting) = C.zmax := by
    unfold RdCrop.zrRaw; rw [if_pos (le_max_right _ _)]
  rwa [e] at this

/-- **the potential depth is monotone in (adjusted) time** -/
theorem zrPot_mono {F : Fn α} (hP : PowLaws F) {C : RdCrop α} (h : C.WF) {t t' : α} (ht : t ≤ t') :
    C.zrPot F t ≤ C.zrPot F t' := by
  have := zrRaw_mono hP h ht
  unfold RdCrop.zrPot
  simp only
  split_ifs with h1 h2 h2
  · exact le_refl _
  · exact not_lt.mp h2
  · linarith
  · exact this

theorem zrPot_ge_zmin (F : Fn α) (C : RdCrop α) (t : α) : C.zmin ≤ C.zrPot F t := by
  unfold RdCrop.zrPot
  simp only
  split_ifs with h1
  · exact le_refl _
  · exact not_lt.mp h1

theorem zrPot_le_zmax {F : Fn α} (hP : PowLaws F) {C : RdCrop α} (h : C.WF) (t : α) :
    C.zrPot F t ≤ C.zmax := by
  have := zrRaw_le_zmax hP h t
  unfold RdCrop.zrPot
  simp only
  split_ifs with h1
  · exact h.zmin_le
  · exact this

/-! ## 3. The stress reductions multiply the expansion by a factor in `[0,1]` -/

theorem rdStomatal_range {F : Fn α} (hF : ExpOrdLaws F) (C : RdCrop α) {tr d : α} (h0 : 0 ≤ tr)
    (h1 : tr ≤ 1) (hd : 0 ≤ d) : 0 ≤ rdStomatal F C tr d ∧ rdStomatal F C tr d ≤ d := by
  unfold rdStomatal
  split_ifs with ha hb
  · exact ⟨mul_nonneg hd h0, by have := mul_le_mul_of_nonneg_left h1 hd; linarith⟩
  · have hne : C.fshapeEx ≠ 0 := ne_of_lt (not_le.mp hb)
    obtain ⟨r0, r1⟩ := expRatio_range hF hne h0 h1
    unfold expRatio at r0 r1
    exact ⟨mul_nonneg hd r0, by have := mul_le_mul_of_nonneg_left r1 hd; linarith⟩
  · exact ⟨hd, le_refl _⟩

theorem rdDryCell_range {F : Fn α} (hF : ExpOrdLaws F) {C : RdCrop α} (x : Cell α) {d : α}
    (hp : C.pUp1 < 1) (hw : C.fshapeW1 ≠ 0) (hx : x.c.thWP < x.c.thFC) (hd : 0 ≤ d) :
    0 ≤ (rdDryCell F C x d).1 ∧ (rdDryCell F C x d).1 ≤ d := by
  unfold rdDryCell
  simp only
  split_ifs with ha hb
  · exact ⟨le_refl _, hd⟩
  · -- partially inhibited: `Ks ∈ [0,1]`
    have hb' := not_le.mp hb
    have htaw : 0 < x.c.thFC - x.c.thWP := by linarith
    have hpz : 0 < 1 - (C.pUp1 + (1 - C.pUp1) / 2) := by linarith
    have hw1 : (x.c.thFC - x.th) / (x.c.thFC - x.c.thWP) < 1 := by
      rw [div_lt_one htaw]; linarith
    have hw0 : C.pUp1 + (1 - C.pUp1) / 2 < (x.c.thFC - x.th) / (x.c.thFC - x.c.thWP) := by
      rw [lt_div_iff₀ htaw]; linarith
    have hr0 : 0 ≤ (1 - (x.c.thFC - x.th) / (x.c.thFC - x.c.thWP)) /
        (1 - (C.pUp1 + (1 - C.pUp1) / 2)) := by
      apply div_nonneg <;> linarith
    have hr1 : (1 - (x.c.thFC - x.th) / (x.c.thFC - x.c.thWP)) /
        (1 - (C.pUp1 + (1 - C.pUp1) / 2)) ≤ 1 := by
      rw [div_le_one hpz]; linarith
    obtain ⟨k0, k1⟩ := ksShape_range hF hw (by linarith : 0 ≤ 1 - (1 - (x.c.thFC - x.th) /
      (x.c.thFC - x.c.thWP)) / (1 - (C.pUp1 + (1 - C.pUp1) / 2))) (by linarith)
    unfold ksShape at k0 k1
    exact ⟨mul_nonneg hd k0, by have := mul_le_mul_of_nonneg_left k1 hd; linarith⟩
  · exact ⟨hd, le_refl _⟩

theorem firstGECell_mem {z : α} {cells : List (Cell α)} {x : Cell α}
    (h : firstGECell z cells = some x) : x ∈ cells := by
  induction cells with
  | nil => simp [firstGECell] at h
  | cons y ys ih =>
    simp only [firstGECell] at h
    split_ifs at h with hc
    · simp only [Option.some.injEq] at h; simp [h]
    · exact List.mem_cons_of_mem _ (ih h)

theorem firstGECell_ge {z : α} {cells : List (Cell α)} {x : Cell α}
    (h : firstGECell z cells = some x) : z ≤ x.c.dzsum := by
  induction cells with
  | nil => simp [firstGECell] at h
  | cons y ys ih =>
    simp only [firstGECell] at h
    split_ifs at h with hc
    · simp only [Option.some.injEq] at h; rw [← h]; exact hc
    · exact ih h

theorem rdDry_range {F : Fn α} (hF : ExpOrdLaws F) {C : RdCrop α} {cells : List (Cell α)}
    {zInit d d' : α} {b : Nat} (hp : C.pUp1 < 1) (hw : C.fshapeW1 ≠ 0)
    (hx : ∀ x ∈ cells, x.c.thWP < x.c.thFC) (hd : 0 ≤ d)
    (h : rdDry F C cells zInit d = .ok (d', b)) : 0 ≤ d' ∧ d' ≤ d := by
  unfold rdDry at h
  split_ifs at h with hc
  · cases hf : firstGECell (zInit + d) cells with
    | none => rw [hf] at h; simp at h
    | some x =>
      rw [hf] at h
      simp only [Except.ok.injEq, Prod.mk.injEq] at h
      rw [← h.1]
      exact rdDryCell_range hF x hp hw (hx x (firstGECell_mem hf)) hd
  · simp only [Except.ok.injEq, Prod.mk.injEq] at h
    rw [← h.1]; exact ⟨hd, le_refl _⟩

/-- when the dry-front check is evaluated successfully the new root tip lies in the profile -/
theorem rdDry_tip_in_profile {F : Fn α} {C : RdCrop α} {cells : List (Cell α)} {zInit d d' : α}
    {b : Nat} (hd : 0.001 < d) (h : rdDry F C cells zInit d = .ok (d', b)) :
    ∃ x ∈ cells, zInit + d ≤ x.c.dzsum := by
  unfold rdDry at h
  rw [if_pos hd] at h
  cases hf : firstGECell (zInit + d) cells with
  | none => rw [hf] at h; simp at h
  | some x => exact ⟨x, firstGECell_mem hf, firstGECell_ge hf⟩

/-! ## 4. One day of root development -/

/-- what a successful in-season evaluation consists of -/
theorem rdSeason_ok {F : Fn α} {C : RdCrop α} {cells : List (Cell α)}
    {tAdj tOld zInit trRatio cc ccNS tPot zGW : α} {germ : Bool} {wt : Nat} {out : RdOut α}
    (h : rdSeason F C cells tAdj tOld zInit trRatio cc ccNS germ tPot zGW wt = .ok out) :
    ∃ d0 b0 d2 b2, rdDZr0 F C (layersOf cells) (C.zrPot F tOld) (C.zrPot F tAdj) = .ok (d0, b0) ∧
      rdDry F C cells zInit (rdStomatal F C trRatio d0) = .ok (d2, b2) ∧
      out.dZr0 = d0 ∧ out.zrPot = C.zrPot F tAdj ∧ out.zInit = zInit ∧
      (out.dZr = d2 ∨ out.dZr = 0) ∧ (germ = false → out.dZr = 0) ∧
      out.zRoot = (rdGwCap C wt zGW (zInit + out.dZr)).1 := by
  unfold rdSeason at h
  by_cases hz : (C.fshapeR ≤ 0 ∧ 0 ≤ C.fshapeR) ∧ (C.mid F tOld ∨ C.mid F tAdj)
  · rw [if_pos hz] at h; simp at h
  rw [if_neg hz] at h
  simp only at h
  cases hd : rdDZr0 F C (layersOf cells) (C.zrPot F tOld) (C.zrPot F tAdj) with
  | error e => rw [hd] at h; simp at h
  | ok v =>
    obtain ⟨d0, b0⟩ := v
    rw [hd] at h
    simp only at h
    cases hy : rdDry F C cells zInit (rdStomatal F C trRatio d0) with
    | error e => rw [hy] at h; simp at h
    | ok w =>
      obtain ⟨d2, b2⟩ := w
      rw [hy] at h
      simp only at h
      cases hr : rdRCor C (C.zrIsNp F tAdj) (zInit + if germ = true then
          if decide (cc ≤ 0 ∧ 0.5 < ccNS) = true then 0 else d2 else 0) (C.zrPot F tAdj) trRatio tPot with
      | error e => rw [hr] at h; simp at h
      | ok u =>
        obtain ⟨rc, b3⟩ := u
        rw [hr] at h
        simp only [Except.ok.injEq] at h
        refine ⟨d0, b0, d2, b2, rfl, hy, ?_, ?_, ?_, ?_, ?_, ?_⟩ <;> rw [← h] <;> simp only
        · cases germ
          · right; simp
          · by_cases hs : cc ≤ 0 ∧ 0.5 < ccNS
            · right; simp [hs]
            · left; simp [hs]
        · intro hg; simp [hg]

/-- the expansion before the stress reductions is non-negative: the potential depth grows with
time and the layer limitation is monotone -/
theorem rdDZr0_nonneg {F : Fn α} (hP : PowLaws F) {C : RdCrop α} (hC : C.WF)
    {layers : List (Lay α)} (hl : LaysNN layers) {tOld tAdj d : α} {b : Nat} (ht : tOld ≤ tAdj)
    (h : rdDZr0 F C layers (C.zrPot F tOld) (C.zrPot F tAdj) = .ok (d, b)) : 0 ≤ d := by
  have hm := zrPot_mono hP hC ht
  unfold rdDZr0 at h
  by_cases hc : C.zmin < C.zrPot F tAdj
  · rw [if_pos hc] at h
    cases h1 : limit F layers C.zmin (C.zrPot F tOld) with
    | error e => rw [h1] at h; simp at h
    | ok a =>
      rw [h1] at h
      cases h2 : limit F layers C.zmin (C.zrPot F tAdj) with
      | error e => rw [h2] at h; simp at h
      | ok b' =>
        rw [h2] at h
        simp only [Except.ok.injEq, Prod.mk.injEq] at h
        have := limit_mono hl hm h1 h2
        linarith [h.1]
  · rw [if_neg hc] at h
    simp only [Except.ok.injEq, Prod.mk.injEq] at h
    linarith [h.1]

/-! ### the water-table cap -/

theorem rdGwCap_of_no_cap (C : RdCrop α) {wt : Nat} {zGW z : α}
    (h : ¬ (wt = 1 ∧ 0 < zGW ∧ zGW < z)) : (rdGwCap C wt zGW z).1 = z := by
  unfold rdGwCap
  split_ifs with h1 h2 h3
  · exact absurd ⟨h1.1, h1.2, h2⟩ h
  · exact absurd ⟨h1.1, h1.2, h2⟩ h
  · rfl
  · rfl

theorem rdGwCap_of_cap (C : RdCrop α) {wt : Nat} {zGW z : α} (h1 : wt = 1) (h2 : 0 < zGW)
    (h3 : zGW < z) : (rdGwCap C wt zGW z).1 = max zGW C.zmin := by
  unfold rdGwCap
  rw [if_pos ⟨h1, h2⟩, if_pos h3]
  split_ifs with h4
  · exact (max_eq_right h4.le).symm
  · exact (max_eq_left (not_lt.mp h4)).symm

theorem rdGwCap_le_gw (C : RdCrop α) {wt : Nat} {zGW z : α} (h1 : wt = 1) (h2 : 0 < zGW)
    (h3 : C.zmin ≤ zGW) : (rdGwCap C wt zGW z).1 ≤ zGW := by
  unfold rdGwCap
  rw [if_pos ⟨h1, h2⟩]
  split_ifs with h4 h5
  · exact absurd h5 (not_lt.mpr h3)
  · exact le_refl _
  · exact not_lt.mp h4

theorem rdGwCap_le (C : RdCrop α) {wt : Nat} {zGW z : α} (hz : C.zmin ≤ z) :
    (rdGwCap C wt zGW z).1 ≤ z := by
  unfold rdGwCap
  split_ifs with h1 h2 h3
  · exact hz
  · exact h2.le
  · exact le_refl _
  · exact le_refl _

theorem rdGwCap_ge_zmin (C : RdCrop α) {wt : Nat} {zGW z : α} (hz : C.zmin ≤ z) :
    C.zmin ≤ (rdGwCap C wt zGW z).1 := by
  unfold rdGwCap
  split_ifs with h1 h2 h3
  · exact le_refl _
  · exact not_lt.mp h3
  · exact hz
  · exact hz

/-! ### from `rootDevelopment` to `rdSeason` -/

/-- `Zroot_init` after the day-1 reset -/
def zInitOf (C : RdCrop α) (dap zRoot : α) : α := if dap ≤ 1 ∧ 1 ≤ dap then C.zmin else zRoot

/-- `tAdj` -/
def rdTAdj (C : RdCrop α) (dap dcd gddCum dgdd : α) : α :=
  if C.calendarType = 1 then dap - dcd else gddCum - dgdd

/-- `tOld` -/
def rdTOld (C : RdCrop α) (dap dcd gddCum dgdd gdd : α) : α :=
  if C.calendarType = 1 then dap - dcd - 1 else gddCum - dgdd - gdd

theorem zInitOf_day1 (C : RdCrop α) (zRoot : α) : zInitOf C 1 zRoot = C.zmin := by
  unfold zInitOf; rw [if_pos ⟨le_refl _, le_refl _⟩]

theorem zInitOf_later (C : RdCrop α) {dap : α} (zRoot : α) (h : dap ≠ 1) :
    zInitOf C dap zRoot = zRoot := by
  unfold zInitOf; rw [if_neg (fun hh => h (le_antisymm hh.1 hh.2))]

/-- while the delay counters stand still, tomorrow's `tOld` is today's `tAdj` -/
theorem rdTOld_next (C : RdCrop α) (dap dcd gddCum dgdd gdd' : α) :
    rdTOld C (dap + 1) dcd (gddCum + gdd') dgdd gdd' = rdTAdj C dap dcd gddCum dgdd := by
  unfold rdTOld rdTAdj; split_ifs <;> ring

theorem rdTOld_le (C : RdCrop α) (dap dcd gddCum dgdd : α) {gdd : α} (hg : 0 ≤ gdd) :
    rdTOld C dap dcd gddCum dgdd gdd ≤ rdTAdj C dap dcd gddCum dgdd := by
  unfold rdTOld rdTAdj; split_ifs <;> linarith

theorem rootDevelopment_season {F : Fn α} {C : RdCrop α} {cells : List (Cell α)}
    {dap zRoot dcd gddCum dgdd tr cc ccNS rCor tPot zGW gdd : α} {germ : Bool} {wt : Nat}
    {out : RdOut α}
    (h : rootDevelopment F C cells dap zRoot dcd gddCum dgdd tr cc ccNS germ rCor tPot zGW gdd true wt
      = .ok out) :
    rdSeason F C cells (rdTAdj C dap dcd gddCum dgdd) (rdTOld C dap dcd gddCum dgdd gdd)
      (zInitOf C dap zRoot) tr cc ccNS germ tPot zGW wt = .ok out := by
  unfold rootDevelopment at h
  simp only [if_true] at h
  unfold rdTAdj rdTOld zInitOf
  by_cases h1 : C.calendarType = 1
  · rw [if_pos h1] at h; rw [if_pos h1, if_pos h1]; exact h
  · rw [if_neg h1] at h; rw [if_neg h1, if_neg h1]
    by_cases h2 : C.calendarType = 2
    · rw [if_pos h2] at h; exact h
    · rw [if_neg h2] at h; simp at h

/-! ## 5. The C05 lemmas -/

/-- **(1)** outside the growing season the rooting depth is zero (and `rCor` is left alone). -/
theorem zroot_offseason {F : Fn α} {C : RdCrop α} {cells : List (Cell α)}
    {dap zRoot dcd gddCum dgdd tr cc ccNS rCor tPot zGW gdd : α} {germ : Bool} {wt : Nat}
    {out : RdOut α}
    (h : rootDevelopment F C cells dap zRoot dcd gddCum dgdd tr cc ccNS germ rCor tPot zGW gdd false wt
      = .ok out) : out.zRoot = 0 ∧ out.rCor = rCor := by
  unfold rootDevelopment at h
  simp only [Bool.false_eq_true, if_false, Except.ok.injEq] at h
  rw [← h]; exact ⟨rfl, rfl⟩

/-- outside the growing season the function never raises -/
theorem rootDevelopment_offseason_ok (F : Fn α) (C : RdCrop α) (cells : List (Cell α))
    (dap zRoot dcd gddCum dgdd tr cc ccNS rCor tPot zGW gdd : α) (germ : Bool) (wt : Nat) :
    ∃ out, rootDevelopment F C cells dap zRoot dcd gddCum dgdd tr cc ccNS germ rCor tPot zGW gdd
      false wt = .ok out := by
  unfold rootDevelopment; simp

/-- premises under which the daily expansion is non-negative -/
structure RdHyp (F : Fn α) (C : RdCrop α) (cells : List (Cell α)) (tr gdd : α) : Prop where
  pow : PowLaws F
  exp : ExpOrdLaws F
  crop : C.WF
  lays : LaysNN (layersOf cells)
  tr0 : 0 ≤ tr
  tr1 : tr ≤ 1
  gdd0 : 0 ≤ gdd
  pUp1 : C.pUp1 < 1
  fw1 : C.fshapeW1 ≠ 0
  cellsWF : ∀ x ∈ cells, x.c.thWP < x.c.thFC

/-- **(2)** the expansion of the day is non-negative, before (`dZr0`) and after (`dZr`) the stress
reductions, and the reductions only reduce. -/
theorem dZr_nonneg {F : Fn α} {C : RdCrop α} {cells : List (Cell α)}
    {dap zRoot dcd gddCum dgdd tr cc ccNS rCor tPot zGW gdd : α} {germ : Bool} {wt : Nat}
    {out : RdOut α} (H : RdHyp F C cells tr gdd)
    (h : rootDevelopment F C cells dap zRoot dcd gddCum dgdd tr cc ccNS germ rCor tPot zGW gdd true wt
      = .ok out) : 0 ≤ out.dZr0 ∧ 0 ≤ out.dZr ∧ out.dZr ≤ out.dZr0 := by
  obtain ⟨d0, b0, d2, b2, hd, hy, e0, _, _, e3, _, _⟩ := rdSeason_ok (rootDevelopment_season h)
  have h0 : 0 ≤ d0 := rdDZr0_nonneg H.pow H.crop H.lays (rdTOld_le C dap dcd gddCum dgdd H.gdd0) hd
  obtain ⟨s0, s1⟩ := rdStomatal_range H.exp C H.tr0 H.tr1 h0
  obtain ⟨y0, y1⟩ := rdDry_range H.exp H.pUp1 H.fw1 H.cellsWF s0 hy
  rw [e0]
  refine ⟨h0, ?_, ?_⟩
  · rcases e3 with e | e <;> rw [e]; exact y0
  · rcases e3 with e | e <;> rw [e]
    · linarith
    · exact h0

/-- **(3)** in season the rooting depth does not shrink below `Zroot_init` (`Zmin` on day 1,
yesterday's depth afterwards) unless the water-table cap applies, in which case it is
`max zGW Zmin`. -/
theorem zroot_nonshrinking {F : Fn α} {C : RdCrop α} {cells : List (Cell α)}
    {dap zRoot dcd gddCum dgdd tr cc ccNS rCor tPot zGW gdd : α} {germ : Bool} {wt : Nat}
    {out : RdOut α} (H : RdHyp F C cells tr gdd)
    (h : rootDevelopment F C cells dap zRoot dcd gddCum dgdd tr cc ccNS germ rCor tPot zGW gdd true wt
      = .ok out) :
    out.zInit = zInitOf C dap zRoot ∧
    (¬ (wt = 1 ∧ 0 < zGW ∧ zGW < out.zInit + out.dZr) →
      out.zRoot = out.zInit + out.dZr ∧ out.zInit ≤ out.zRoot) ∧
    ((wt = 1 ∧ 0 < zGW ∧ zGW < out.zInit + out.dZr) → out.zRoot = max zGW C.zmin) := by
  obtain ⟨_, hnn, _⟩ := dZr_nonneg H h
  obtain ⟨d0, b0, d2, b2, hd, hy, e0, _, e2, e3, _, e5⟩ := rdSeason_ok (rootDevelopment_season h)
  rw [e2] at *
  refine ⟨rfl, fun hc => ?_, fun hc => ?_⟩
  · rw [e5, rdGwCap_of_no_cap C hc]
    exact ⟨rfl, by linarith⟩
  · rw [e5, rdGwCap_of_cap C hc.1 hc.2.1 hc.2.2]

/-- **(5)** the roots never reach below a present water table that is not shallower than `Zmin`.
(No premise on the crop, the soil or the laws of `F`.) -/
theorem zroot_le_gw {F : Fn α} {C : RdCrop α} {cells : List (Cell α)}
    {dap zRoot dcd gddCum dgdd tr cc ccNS rCor tPot zGW gdd : α} {germ : Bool} {wt : Nat}
    {out : RdOut α}
    (h : rootDevelopment F C cells dap zRoot dcd gddCum dgdd tr cc ccNS germ rCor tPot zGW gdd true wt
      = .ok out) (hwt : wt = 1) (hgw : 0 < zGW) (hz : C.zmin ≤ zGW) : out.zRoot ≤ zGW := by
  obtain ⟨d0, b0, d2, b2, _, _, _, _, _, _, _, e5⟩ := rdSeason_ok (rootDevelopment_season h)
  rw [e5]; exact rdGwCap_le_gw C hwt hgw hz

/-- with a water table shallower than `Zmin` the roots are held at `Zmin` at most … -/
theorem zroot_le_zmin_of_shallow_gw {F : Fn α} {C : RdCrop α} {cells : List (Cell α)}
    {dap zRoot dcd gddCum dgdd tr cc ccNS rCor tPot zGW gdd : α} {germ : Bool} {wt : Nat}
    {out : RdOut α} (H : RdHyp F C cells tr gdd)
    (h : rootDevelopment F C cells dap zRoot dcd gddCum dgdd tr cc ccNS germ rCor tPot zGW gdd true wt
      = .ok out) (hwt : wt = 1) (hgw : 0 < zGW) (hz : zGW < C.zmin)
    (hi : C.zmin ≤ zInitOf C dap zRoot) : out.zRoot = C.zmin := by
  obtain ⟨e2, _, hcap⟩ := zroot_nonshrinking H h
  obtain ⟨_, hnn, _⟩ := dZr_nonneg H h
  rw [hcap ⟨hwt, hgw, by rw [e2]; linarith⟩]
  exact max_eq_right hz.le

/-- **(4a)** in season the rooting depth is at least `Zmin`, provided it was on entry
(on day 1 it is reset to `Zmin`, see `zroot_ge_zmin_day1`). -/
theorem zroot_ge_zmin {F : Fn α} {C : RdCrop α} {cells : List (Cell α)}
    {dap zRoot dcd gddCum dgdd tr cc ccNS rCor tPot zGW gdd : α} {germ : Bool} {wt : Nat}
    {out : RdOut α} (H : RdHyp F C cells tr gdd)
    (h : rootDevelopment F C cells dap zRoot dcd gddCum dgdd tr cc ccNS germ rCor tPot zGW gdd true wt
      = .ok out) (hi : C.zmin ≤ zInitOf C dap zRoot) : C.zmin ≤ out.zRoot := by
  obtain ⟨_, hnn, _⟩ := dZr_nonneg H h
  obtain ⟨d0, b0, d2, b2, _, _, _, _, e2, _, _, e5⟩ := rdSeason_ok (rootDevelopment_season h)
  rw [e5]
  exact rdGwCap_ge_zmin C (by linarith)

theorem zroot_ge_zmin_day1 {F : Fn α} {C : RdCrop α} {cells : List (Cell α)}
    {zRoot dcd gddCum dgdd tr cc ccNS rCor tPot zGW gdd : α} {germ : Bool} {wt : Nat}
    {out : RdOut α} (H : RdHyp F C cells tr gdd)
    (h : rootDevelopment F C cells 1 zRoot dcd gddCum dgdd tr cc ccNS germ rCor tPot zGW gdd true wt
      = .ok out) : C.zmin ≤ out.zRoot :=
  zroot_ge_zmin H h (by rw [zInitOf_day1])

/-! ### (4b) the inductive invariant: the roots are never deeper than the limited potential depth -/

/-- `z` is at most the potential depth at time `t`, and at most its layer-limited value
(whenever the limitation evaluates) -/
def RdInv (F : Fn α) (C : RdCrop α) (layers : List (Lay α)) (z t : α) : Prop :=
  z ≤ C.zrPot F t ∧ ∀ a, limit F layers C.zmin (C.zrPot F t) = .ok a → z ≤ a

theorem RdInv.anti {F : Fn α} {C : RdCrop α} {layers : List (Lay α)} {z z' t : α}
    (h : RdInv F C layers z t) (hz : z' ≤ z) : RdInv F C layers z' t :=
  ⟨le_trans hz h.1, fun a ha => le_trans hz (h.2 a ha)⟩

/-- `Zmin` satisfies the invariant at every time (day 1; days without germination) -/
theorem rdInv_zmin {F : Fn α} {C : RdCrop α} {layers : List (Lay α)} (hl : LaysNN layers)
    (hs : SkipOK F C.zmin) (t : α) : RdInv F C layers C.zmin t :=
  ⟨zrPot_ge_zmin F C t, fun a ha => limit_ge_zmin hl hs (zrPot_ge_zmin F C t) ha⟩

theorem rdSeason_dZr {F : Fn α} {C : RdCrop α} {cells : List (Cell α)}
    {tAdj tOld zInit tr cc ccNS tPot zGW gdd : α} {germ : Bool} {wt : Nat} {out : RdOut α}
    (H : RdHyp F C cells tr gdd) (ht : tOld ≤ tAdj)
    (h : rdSeason F C cells tAdj tOld zInit tr cc ccNS germ tPot zGW wt = .ok out) :
    0 ≤ out.dZr0 ∧ 0 ≤ out.dZr ∧ out.dZr ≤ out.dZr0 := by
  obtain ⟨d0, b0, d2, b2, hd, hy, e0, _, _, e3, _, _⟩ := rdSeason_ok h
  have h0 : 0 ≤ d0 := rdDZr0_nonneg H.pow H.crop H.lays ht hd
  obtain ⟨s0, s1⟩ := rdStomatal_range H.exp C H.tr0 H.tr1 h0
  obtain ⟨y0, y1⟩ := rdDry_range H.exp H.pUp1 H.fw1 H.cellsWF s0 hy
  rw [e0]
  refine ⟨h0, ?_, ?_⟩
  · rcases e3 with e | e <;> rw [e]; exact y0
  · rcases e3 with e | e <;> rw [e]
    · linarith
    · exact h0

/-- one day preserves the invariant (stated for the depth before the water-table cap) -/
theorem rdSeason_inv {F : Fn α} {C : RdCrop α} {cells : List (Cell α)}
    {tAdj tOld zInit tr cc ccNS tPot zGW gdd : α} {germ : Bool} {wt : Nat} {out : RdOut α}
    (H : RdHyp F C cells tr gdd) (hl1 : LaysLe100 (layersOf cells)) (hs : SkipOK F C.zmin)
    (ht : tOld ≤ tAdj)
    (h : rdSeason F C cells tAdj tOld zInit tr cc ccNS germ tPot zGW wt = .ok out)
    (hi : RdInv F C (layersOf cells) zInit tOld) :
    RdInv F C (layersOf cells) (zInit + out.dZr) tAdj := by
  obtain ⟨q0, q1, q2⟩ := rdSeason_dZr H ht h
  obtain ⟨d0, b0, d2, b2, hd, _, e0, _, _, _, _, _⟩ := rdSeason_ok h
  rw [e0] at q0 q2
  have hm := zrPot_mono H.pow H.crop ht
  unfold rdDZr0 at hd
  by_cases hc : C.zmin < C.zrPot F tAdj
  · rw [if_pos hc] at hd
    cases h1 : limit F (layersOf cells) C.zmin (C.zrPot F tOld) with
    | error e => rw [h1] at hd; simp at hd
    | ok a =>
      rw [h1] at hd
      cases h2 : limit F (layersOf cells) C.zmin (C.zrPot F tAdj) with
      | error e => rw [h2] at hd; simp at hd
      | ok b =>
        rw [h2] at hd
        simp only [Except.ok.injEq, Prod.mk.injEq] at hd
        have ha := hi.2 a h1
        have hb := limit_le H.lays hl1 hs hc.le h2
        have hzb : zInit + out.dZr ≤ b := by linarith [hd.1]
        refine ⟨le_trans hzb hb, fun b' hb' => ?_⟩
        have : b' = b := by rw [h2] at hb'; exact (Except.ok.inj hb').symm
        rw [this]; exact hzb
  · rw [if_neg hc] at hd
    simp only [Except.ok.injEq, Prod.mk.injEq] at hd
    have e1 : C.zrPot F tAdj = C.zmin := le_antisymm (not_lt.mp hc) (zrPot_ge_zmin F C tAdj)
    have e2 : C.zrPot F tOld = C.zrPot F tAdj :=
      le_antisymm hm (by rw [e1]; exact zrPot_ge_zmin F C tOld)
    have ez : out.dZr = 0 := le_antisymm (by linarith [hd.1]) q1
    rw [ez, add_zero]
    unfold RdInv at hi ⊢
    rw [← e2]
    exact hi

/-- **(4b)** if the rooting depth on entry satisfies the invariant (at yesterday's adjusted time)
and is at least `Zmin`, then today's depth is at most `Zmax`, and satisfies the invariant at
today's adjusted time. -/
theorem zroot_le_zmax {F : Fn α} {C : RdCrop α} {cells : List (Cell α)}
    {dap zRoot dcd gddCum dgdd tr cc ccNS rCor tPot zGW gdd : α} {germ : Bool} {wt : Nat}
    {out : RdOut α} (H : RdHyp F C cells tr gdd) (hl1 : LaysLe100 (layersOf cells))
    (hs : SkipOK F C.zmin)
    (h : rootDevelopment F C cells dap zRoot dcd gddCum dgdd tr cc ccNS germ rCor tPot zGW gdd true wt
      = .ok out)
    (hi : RdInv F C (layersOf cells) (zInitOf C dap zRoot) (rdTOld C dap dcd gddCum dgdd gdd))
    (hz : C.zmin ≤ zInitOf C dap zRoot) :
    out.zRoot ≤ C.zmax ∧ out.zRoot ≤ out.zrPot ∧
      RdInv F C (layersOf cells) out.zRoot (rdTAdj C dap dcd gddCum dgdd) := by
  have hs' := rootDevelopment_season h
  have hinv := rdSeason_inv H hl1 hs (rdTOld_le C dap dcd gddCum dgdd H.gdd0) hs' hi
  obtain ⟨_, q1, _⟩ := dZr_nonneg H h
  obtain ⟨d0, b0, d2, b2, _, _, _, e1, _, _, _, e5⟩ := rdSeason_ok hs'
  have hle : out.zRoot ≤ zInitOf C dap zRoot + out.dZr := by
    rw [e5]; exact rdGwCap_le C (by linarith)
  have hinv' := hinv.anti hle
  exact ⟨le_trans hinv'.1 (zrPot_le_zmax H.pow H.crop _), by rw [e1]; exact hinv'.1, hinv'⟩

/-- on the first day of a season the rooting depth lies in `[Zmin, Zmax]` whatever it was before -/
theorem zroot_range_day1 {F : Fn α} {C : RdCrop α} {cells : List (Cell α)}
    {zRoot dcd gddCum dgdd tr cc ccNS rCor tPot zGW gdd : α} {germ : Bool} {wt : Nat}
    {out : RdOut α} (H : RdHyp F C cells tr gdd) (hl1 : LaysLe100 (layersOf cells))
    (hs : SkipOK F C.zmin)
    (h : rootDevelopment F C cells 1 zRoot dcd gddCum dgdd tr cc ccNS germ rCor tPot zGW gdd true wt
      = .ok out) : C.zmin ≤ out.zRoot ∧ out.zRoot ≤ C.zmax :=
  ⟨zroot_ge_zmin_day1 H h,
   (zroot_le_zmax H hl1 hs h (by rw [zInitOf_day1]; exact rdInv_zmin H.lays hs _)
      (by rw [zInitOf_day1])).1⟩

/-- while the crop has not germinated the rooting depth stays where it was (before the cap) -/
theorem zroot_no_germination {F : Fn α} {C : RdCrop α} {cells : List (Cell α)}
    {dap zRoot dcd gddCum dgdd tr cc ccNS rCor tPot zGW gdd : α} {wt : Nat} {out : RdOut α}
    (h : rootDevelopment F C cells dap zRoot dcd gddCum dgdd tr cc ccNS false rCor tPot zGW gdd true wt
      = .ok out) : out.dZr = 0 ∧ out.zRoot = (rdGwCap C wt zGW (zInitOf C dap zRoot)).1 := by
  obtain ⟨d0, b0, d2, b2, _, _, _, _, _, _, e4, e5⟩ := rdSeason_ok (rootDevelopment_season h)
  have := e4 rfl
  rw [this, add_zero] at e5
  exact ⟨this, e5⟩

/-! ## 6. The layers of a profile: the premises `LaysNN`, `LaysLe100` from facts about compartments -/

/-- all elements non-negative -/
def AllNN (l : List α) : Prop := ∀ x ∈ l, 0 ≤ x

theorem sumFrom_nonneg : ∀ (xs : List α) {acc : α}, 0 ≤ acc → AllNN xs → 0 ≤ sumFrom acc xs := by
  intro xs
  induction xs with
  | nil => intro acc h _; exact h
  | cons x xs ih =>
    intro acc h hx
    simp only [sumFrom]
    exact ih (add_nonneg h (hx x (by simp))) (fun y hy => hx y (List.mem_cons_of_mem _ hy))

theorem zipWith_add_nonneg : ∀ (r xs : List α), AllNN r → AllNN xs →
    AllNN (List.zipWith (· + ·) r xs) := by
  intro r
  induction r with
  | nil => intro xs _ _; simp [AllNN]
  | cons a r ih =>
    intro xs hr hx
    cases xs with
    | nil => simp [AllNN]
    | cons b xs =>
      intro y hy
      simp only [List.zipWith_cons_cons, List.mem_cons] at hy
      rcases hy with hy | hy
      · rw [hy]; exact add_nonneg (hr a (by simp)) (hx b (by simp))
      · exact ih xs (fun z hz => hr z (List.mem_cons_of_mem _ hz))
          (fun z hz => hx z (List.mem_cons_of_mem _ hz)) y hy

theorem AllNN.take {l : List α} (h : AllNN l) (n : Nat) : AllNN (l.take n) :=
  fun x hx => h x (List.mem_of_mem_take hx)

theorem AllNN.drop {l : List α} (h : AllNN l) (n : Nat) : AllNN (l.drop n) :=
  fun x hx => h x (List.mem_of_mem_drop hx)

theorem lanes8_nonneg : ∀ (fuel : Nat) (r xs : List α), AllNN r → AllNN xs →
    AllNN (lanes8 fuel r xs) := by
  intro fuel
  induction fuel with
  | zero => intro r xs hr _; simpa [lanes8] using hr
  | succ n ih =>
    intro r xs hr hx
    simp only [lanes8]
    split_ifs with hc
    · exact hr
    · exact ih _ _ (zipWith_add_nonneg _ _ hr (hx.take 8)) (hx.drop 8)

theorem npSumBlock_nonneg {a : List α} (h : AllNN a) : 0 ≤ npSumBlock a := by
  unfold npSumBlock
  split_ifs with hc
  · exact sumFrom_nonneg a (le_refl _) h
  · simp only
    have hl := lanes8_nonneg a.length (a.take 8)
      ((a.take (a.length - a.length % 8)).drop 8) (h.take 8) ((h.take _).drop 8)
    split
    · rename_i r0 r1 r2 r3 r4 r5 r6 r7 heq
      rw [heq] at hl
      have g : ∀ x, x ∈ [r0, r1, r2, r3, r4, r5, r6, r7] → 0 ≤ x := hl
      have h0 := g r0 (by simp)
      have h1 := g r1 (by simp)
      have h2 := g r2 (by simp)
      have h3 := g r3 (by simp)
      have h4 := g r4 (by simp)
      have h5 := g r5 (by simp)
      have h6 := g r6 (by simp)
      have h7 := g r7 (by simp)
      exact sumFrom_nonneg _ (by linarith) (h.drop _)
    · exact le_refl _

theorem npSumAux_nonneg : ∀ (fuel : Nat) {a : List α}, AllNN a → 0 ≤ npSumAux fuel a := by
  intro fuel
  induction fuel with
  | zero => intro a h; simp only [npSumAux]; exact npSumBlock_nonneg h
  | succ n ih =>
    intro a h
    simp only [npSumAux]
    split_ifs with hc
    · exact npSumBlock_nonneg h
    · exact add_nonneg (ih (h.take _)) (ih (h.drop _))

/-- numpy's pairwise sum of non-negative numbers is non-negative -/
theorem npSum_nonneg {a : List α} (h : AllNN a) : 0 ≤ npSum a := by
  unfold npSum
  have := npSumAux_nonneg a.length h
  linarith

theorem layerOf_pen_mem {i : Nat} {cells : List (Cell α)} {p : α}
    (h : (layerOf i cells).2 = some p) : ∃ x ∈ cells, x.c.pen = p := by
  unfold layerOf at h
  simp only [Option.map_eq_some_iff] at h
  obtain ⟨x, hx, hp⟩ := h
  have := List.mem_of_mem_head? hx
  exact ⟨x, (List.mem_filter.mp this).1, hp⟩

theorem mem_layersOf {cells : List (Cell α)} {l : Lay α} (h : l ∈ layersOf cells) :
    ∃ i, l = layerOf i cells := by
  unfold layersOf at h
  obtain ⟨k, _, hk⟩ := List.mem_map.mp h
  exact ⟨k + 1, hk.symm⟩

/-- compartments with non-negative thickness and penetrability give `LaysNN` -/
theorem laysNN_layersOf {cells : List (Cell α)}
    (h : ∀ x ∈ cells, 0 ≤ x.c.dz ∧ 0 ≤ x.c.pen) : LaysNN (layersOf cells) := by
  intro l hl
  obtain ⟨i, rfl⟩ := mem_layersOf hl
  constructor
  · unfold layerOf
    simp only
    apply npSum_nonneg
    intro y hy
    obtain ⟨x, hx, rfl⟩ := List.mem_map.mp hy
    exact (h x (List.mem_filter.mp hx).1).1
  · intro p hp
    obtain ⟨x, hx, rfl⟩ := layerOf_pen_mem hp
    exact (h x hx).2

/-- penetrabilities of at most 100 % give `LaysLe100` -/
theorem laysLe100_layersOf {cells : List (Cell α)} (h : ∀ x ∈ cells, x.c.pen ≤ 100) :
    LaysLe100 (layersOf cells) := by
  intro l hl p hp
  obtain ⟨i, rfl⟩ := mem_layersOf hl
  obtain ⟨x, hx, rfl⟩ := layerOf_pen_mem hp
  exact h x hx

#print axioms laysNN_layersOf
#print axioms zroot_offseason
#print axioms limit_mono
#print axioms zrPot_mono
#print axioms dZr_nonneg
#print axioms zroot_nonshrinking
#print axioms zroot_le_gw
#print axioms zroot_ge_zmin
#print axioms zroot_le_zmax
#print axioms zroot_range_day1

end Aqua
