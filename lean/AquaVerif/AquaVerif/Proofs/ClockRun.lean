import AquaVerif.Model.Clock
/-
C09 for the clock model: step-wise execution equals one uninterrupted run.
Pure consequences of the shape of `run_model`; valid for *every* configuration and oracle
(no `Valid` needed).  Core Lean only.
-/

namespace Aqua.Clock

variable {c : Cfg} {ev : Ev}

/-- A `_perform_timestep` on a finished model raises (the tables are DataFrames by then). -/
theorem perform_finished {s : St} (h : s.finished = true) :
    perform c ev s = .error .finished := by
  simp [perform, h]

/-- Conversely a successful `_perform_timestep` started from an unfinished model. -/
theorem unfinished_of_perform_ok {s s' : St} (h : perform c ev s = .ok s') :
    s.finished = false := by
  cases hf : s.finished with
  | false => rfl
  | true => rw [perform_finished hf] at h; cases h

@[simp] theorem runSteps_zero (s : St) : runSteps c ev 0 s = .ok s := rfl

theorem runSteps_succ (k : Nat) (s : St) :
    runSteps c ev (k + 1) s =
      (perform c ev s).bind (fun s' => if s'.finished then .ok s' else runSteps c ev k s') := rfl

theorem runTillF_succ (f : Nat) (s : St) :
    runTillF c ev (f + 1) s =
      if s.finished then .ok s else (perform c ev s).bind (runTillF c ev f) := rfl

/-- **C09, composition of step counts.** `run_model(num_steps=a+b)` on an unfinished model is
`run_model(num_steps=a)` followed — unless that call ended the simulation — by
`run_model(num_steps=b)`. -/
theorem runSteps_add (a b : Nat) (s : St) (hs : s.finished = false) :
    runSteps c ev (a + b) s =
      (runSteps c ev a s).bind (fun s' => if s'.finished then .ok s' else runSteps c ev b s') := by
  induction a generalizing s with
  | zero => simp [Except.bind, hs]
  | succ a ih =>
    have e : a + 1 + b = (a + b) + 1 := by omega
    rw [e, runSteps_succ, runSteps_succ]
    cases hp : perform c ev s with
    | error e => simp [Except.bind]
    | ok s1 =>
      simp only [Except.bind]
      cases hf : s1.finished with
      | true => simp [hf]
      | false =>
        have := ih s1 hf
        simp only [Except.bind] at this
        simpa [hf] using this

/-- `runSteps_add` in the form of the task: as long as the first call did not finish the
simulation, two calls equal one call with the sum of the step counts. -/
theorem runSteps_add' {a b : Nat} {s s1 : St} (h1 : runSteps c ev a s = .ok s1)
    (hf : s1.finished = false) :
    runSteps c ev (a + b) s = runSteps c ev b s1 := by
  cases hs : s.finished with
  | false => rw [runSteps_add a b s hs, h1]; simp [Except.bind, hf]
  | true =>
    cases a with
    | zero => simp at h1; subst h1; simp
    | succ a => rw [runSteps_succ, perform_finished hs] at h1; cases h1

/-- **A step count that overshoots the end stops at termination**: if `a` steps finish the
simulation, any larger step count gives the same state. -/
theorem overshoot_stops {a : Nat} (b : Nat) {s s1 : St} (hs : s.finished = false)
    (h1 : runSteps c ev a s = .ok s1) (hf : s1.finished = true) :
    runSteps c ev (a + b) s = .ok s1 := by
  rw [runSteps_add a b s hs, h1]; simp [Except.bind, hf]

/-- … but a *further call* on a finished model raises (it performs one more
`_perform_timestep` before looking at `model_is_finished`). -/
theorem runModel_finished {s : St} (k : Nat) (hs : s.finished = true) :
    runModel c ev k s = .error (if k < 1 then .numSteps else .finished) := by
  unfold runModel
  split
  · rfl
  · cases k with
    | zero => omega
    | succ k => rw [runSteps_succ, perform_finished hs]; rfl

theorem runModel_ok {k : Nat} {s s' : St} (h : runModel c ev k s = .ok s') :
    1 ≤ k ∧ runSteps c ev k s = .ok s' := by
  unfold runModel at h
  split at h
  · cases h
  · exact ⟨by omega, h⟩

/-- steps that end finished are reproduced by the `while` loop with enough fuel -/
theorem tillF_of_steps_finished : ∀ (k : Nat) (s s' : St), runSteps c ev k s = .ok s' →
    s'.finished = true → ∀ f, k ≤ f → runTillF c ev f s = .ok s' := by
  intro k
  induction k with
  | zero =>
    intro s s' h hf f _
    simp at h; subst h
    cases f <;> simp [runTillF, hf]
  | succ k ih =>
    intro s s' h hf f hkf
    obtain ⟨f, rfl⟩ : ∃ g, f = g + 1 := ⟨f - 1, by omega⟩
    rw [runSteps_succ] at h
    cases hp : perform c ev s with
    | error e => rw [hp] at h; cases h
    | ok s1 =>
      have hs := unfinished_of_perform_ok hp
      rw [hp] at h
      simp only [Except.bind] at h
      rw [runTillF_succ]; simp only [hs, hp, Except.bind]
      cases hf1 : s1.finished with
      | true =>
        simp [hf1] at h; subst h
        cases f <;> simp [runTillF, hf1]
      | false =>
        simp [hf1] at h
        simpa using ih s1 s' h hf f (by omega)

/-- steps that end unfinished are a prefix of the `while` loop -/
theorem tillF_of_steps_unfinished : ∀ (k : Nat) (s s1 : St), runSteps c ev k s = .ok s1 →
    s1.finished = false → ∀ f, runTillF c ev (k + f) s = runTillF c ev f s1 := by
  intro k
  induction k with
  | zero => intro s s1 h _ f; simp at h; subst h; simp
  | succ k ih =>
    intro s s1 h hf f
    rw [runSteps_succ] at h
    cases hp : perform c ev s with
    | error e => rw [hp] at h; cases h
    | ok s2 =>
      have hs := unfinished_of_perform_ok hp
      rw [hp] at h
      simp only [Except.bind] at h
      have e : k + 1 + f = (k + f) + 1 := by omega
      rw [e, runTillF_succ]; simp only [hs, hp, Except.bind]
      cases hf2 : s2.finished with
      | true => simp [hf2] at h; subst h; rw [hf2] at hf; cases hf
      | false =>
        simp [hf2] at h
        simpa using ih s2 s1 h hf f

/-- more fuel does not change a successful `while` loop -/
theorem runTillF_mono : ∀ (f : Nat) (s s' : St), runTillF c ev f s = .ok s' →
    ∀ g, f ≤ g → runTillF c ev g s = .ok s' := by
  intro f
  induction f with
  | zero =>
    intro s s' h g _
    cases hf : s.finished with
    | false => simp [runTillF, hf] at h
    | true =>
      simp [runTillF, hf] at h; subst h
      cases g <;> simp [runTillF, hf]
  | succ f ih =>
    intro s s' h g hg
    obtain ⟨g, rfl⟩ : ∃ g', g = g' + 1 := ⟨g - 1, by omega⟩
    rw [runTillF_succ] at h ⊢
    cases hf : s.finished with
    | true => simpa [hf] using h
    | false =>
      simp only [hf] at h ⊢
      cases hp : perform c ev s with
      | error e => rw [hp] at h; cases h
      | ok s1 =>
        rw [hp] at h; simp only [Except.bind] at h ⊢
        exact ih s1 s' h g (by omega)

theorem runTillF_finished : ∀ (f : Nat) (s s' : St), runTillF c ev f s = .ok s' →
    s'.finished = true := by
  intro f
  induction f with
  | zero =>
    intro s s' h
    cases hf : s.finished with
    | false => simp [runTillF, hf] at h
    | true => simp [runTillF, hf] at h; subst h; exact hf
  | succ f ih =>
    intro s s' h
    rw [runTillF_succ] at h
    cases hf : s.finished with
    | true => simp [hf] at h; subst h; exact hf
    | false =>
      simp only [hf] at h
      cases hp : perform c ev s with
      | error e => rw [hp] at h; cases h
      | ok s1 => rw [hp] at h; exact ih s1 s' h

/-- **C09, any sequence of calls.** If a sequence of `run_model(num_steps=kᵢ)` calls succeeds
and leaves the model finished, then the `while` loop of `run_model(till_termination=True)`,
given enough fuel, produces exactly the same state (clock, daily rows, summary). -/
theorem calls_eq_tillF : ∀ (ks : List Nat) (s₀ s : St), runCalls c ev ks s₀ = .ok s →
    s.finished = true → ∃ f, ∀ g, f ≤ g → runTillF c ev g s₀ = .ok s := by
  intro ks
  induction ks with
  | nil =>
    intro s₀ s h hf
    simp [runCalls] at h; subst h
    exact ⟨0, fun g _ => by cases g <;> simp [runTillF, hf]⟩
  | cons k ks ih =>
    intro s₀ s h hf
    simp only [runCalls] at h
    cases h1 : runModel c ev k s₀ with
    | error e => rw [h1] at h; cases h
    | ok s1 =>
      rw [h1] at h
      have h : runCalls c ev ks s1 = .ok s := h
      obtain ⟨_, hst⟩ := runModel_ok h1
      cases hf1 : s1.finished with
      | true =>
        -- no further call can have been made
        cases ks with
        | nil =>
          simp [runCalls] at h; subst h
          exact ⟨k, fun g hg => tillF_of_steps_finished k s₀ s1 hst hf1 g hg⟩
        | cons k2 ks =>
          simp only [runCalls] at h
          rw [runModel_finished k2 hf1] at h; cases h
      | false =>
        obtain ⟨f, hfu⟩ := ih s1 s h hf
        refine ⟨k + f, fun g hg => ?_⟩
        obtain ⟨d, rfl⟩ : ∃ d, g = k + d := ⟨g - k, by omega⟩
        rw [tillF_of_steps_unfinished k s₀ s1 hst hf1 d]
        exact hfu d (by omega)

/-- Two successful `while` loops from the same state agree, whatever their fuel. -/
theorem runTillF_unique {f g : Nat} {s a b : St} (ha : runTillF c ev f s = .ok a)
    (hb : runTillF c ev g s = .ok b) : a = b := by
  have h1 := runTillF_mono f s a ha (max f g) (Nat.le_max_left _ _)
  have h2 := runTillF_mono g s b hb (max f g) (Nat.le_max_right _ _)
  rw [h1] at h2; cases h2; rfl

/-- **C09 (main form).** Whenever the uninterrupted run `runTill` (fuel `n`) succeeds — which it
does for every valid configuration, `Proofs/Clock.lean: runTill_ok` — any successful sequence of
calls that ends finished yields exactly its state. -/
theorem calls_eq_till_of_ok {ks : List Nat} {s₀ s sT : St} (hT : runTill c ev s₀ = .ok sT)
    (h : runCalls c ev ks s₀ = .ok s) (hf : s.finished = true) : s = sT := by
  obtain ⟨f, hfu⟩ := calls_eq_tillF ks s₀ s h hf
  exact runTillF_unique (hfu f (Nat.le_refl _)) hT

/-- the model reports itself unfinished until then: every intermediate call result of a
successful sequence, except possibly the last, is unfinished -/
theorem runCalls_cons_unfinished {k k2 : Nat} {ks : List Nat} {s₀ s1 s : St}
    (_h1 : runModel c ev k s₀ = .ok s1) (h : runCalls c ev (k2 :: ks) s1 = .ok s) :
    s1.finished = false := by
  cases hf1 : s1.finished with
  | false => rfl
  | true =>
    simp only [runCalls] at h
    rw [runModel_finished k2 hf1] at h; cases h

end Aqua.Clock
