import AquaVerif.Model.GwSeries
import AquaVerif.Proofs.InitWC
/-
Lemmas about the groundwater series (`Model/GwSeries.lean`).
-/

set_option linter.unusedSectionVars false
set_option linter.unusedVariables false
namespace Aqua
variable {α : Type} [Field α] [LinearOrder α] [IsStrictOrderedRing α]

/-! ## "Constant" -/

theorem gwConstAt_post (i : Int) (post : List (Int × α)) (cur : Option α)
    (h : ∀ q ∈ post, i < q.1) : gwConstAt i false post cur = cur := by
  induction post generalizing cur with
  | nil => rfl
  | cons q qs ih =>
    obtain ⟨d, v⟩ := q
    have hd : ¬ (d ≤ i) := by have := h (d, v) (by simp); simp at this; omega
    simp only [gwConstAt, hd, Bool.false_eq_true, false_and, or_self, if_false]
    exact ih cur (fun q hq => h q (List.mem_cons_of_mem _ hq))

/-- **gw_constant** (step function): on day `i` the depth is that of the last row (in the given
order) dated on or before `i`, provided all later rows are dated after `i`. -/
theorem gw_constant (i : Int) (first : Bool) (pre post : List (Int × α)) (d : Int) (v : α)
    (cur : Option α) (hd : d ≤ i) (hpost : ∀ q ∈ post, i < q.1) :
    gwConstAt i first (pre ++ (d, v) :: post) cur = some v := by
  induction pre generalizing first cur with
  | nil =>
    simp only [List.nil_append, gwConstAt, hd, true_or, if_true]
    exact gwConstAt_post i post (some v) hpost
  | cons q qs ih =>
    obtain ⟨d', v'⟩ := q
    simp only [List.cons_append, gwConstAt]
    exact ih false _

/-- **gw_constant, before the first date**: the first row's depth also holds on all days before
its date (and on every day until a later row takes over). -/
theorem gw_constant_first (i : Int) (d0 : Int) (v0 : α) (rest : List (Int × α)) (cur : Option α)
    (hrest : ∀ q ∈ rest, i < q.1) :
    gwConstAt i true ((d0, v0) :: rest) cur = some v0 := by
  have : d0 ≤ i ∨ (true = true ∧ i ≤ d0) := by
    rcases Int.le_total d0 i with h | h
    · exact Or.inl h
    · exact Or.inr ⟨rfl, h⟩
  unfold gwConstAt
  rw [if_pos this]
  exact gwConstAt_post i rest (some v0) hrest

/-- the "Constant" series never contains `NaN` (given at least one row). -/
theorem gw_constant_no_nan (i : Int) (p : Int × α) (rest : List (Int × α)) (cur : Option α) :
    ∃ v, gwConstAt i true (p :: rest) cur = some v := by
  obtain ⟨d0, v0⟩ := p
  have h0 : d0 ≤ i ∨ (true = true ∧ i ≤ d0) := by
    rcases Int.le_total d0 i with h | h
    · exact Or.inl h
    · exact Or.inr ⟨rfl, h⟩
  unfold gwConstAt
  rw [if_pos h0]
  have : ∀ (rest : List (Int × α)) (v : α), ∃ w, gwConstAt i false rest (some v) = some w := by
    intro rest
    induction rest with
    | nil => intro v; exact ⟨v, rfl⟩
    | cons q qs ih =>
      intro v
      obtain ⟨d, w⟩ := q
      simp only [gwConstAt]
      split
      · exact ih w
      · exact ih v
  exact this rest v0

theorem gwConstant_getElem (n : Nat) (obs : List (Int × α)) (i : Nat) (h : i < n) :
    (gwConstant n obs)[i]? = some (gwConstAt (Int.ofNat i) true obs none) := by
  simp [gwConstant, h]

/-- a single observation: the depth is constant over the whole simulation (whatever the method). -/
theorem gw_single (n : Nat) (me : GwMethod) (d : Int) (v : α) :
    gwSeries n me [(d, v)] = .ok (List.replicate n (some v)) := rfl

/-- whole-series form of **gw_constant** for two observations `(d₁,v₁)`, `(d₂,v₂)`, `d₁ < d₂`:
`v₁` strictly before `d₂`, `v₂` from `d₂` on. -/
theorem gw_constant_two (n : Nat) (d1 d2 : Int) (v1 v2 : α) (i : Nat) (hi : i < n) :
    ∃ zs, gwSeries n .constant [(d1, v1), (d2, v2)] = .ok zs ∧
      zs[i]? = some (some (if d2 ≤ Int.ofNat i then v2 else v1)) := by
  refine ⟨gwConstant n [(d1, v1), (d2, v2)], rfl, ?_⟩
  rw [gwConstant_getElem n _ i hi]
  by_cases h2 : d2 ≤ Int.ofNat i
  · simp only [h2, if_true]
    exact congrArg some (gw_constant (Int.ofNat i) true [(d1, v1)] [] d2 v2 none h2 (by simp))
  · simp only [h2, if_false]
    exact congrArg some (gw_constant_first (Int.ofNat i) d1 v1 [(d2, v2)] none
      (by intro q hq; simp at hq; subst hq; simpa using h2))

/-! ## "Variable" -/

theorem fillGaps_length (pts : List (α × α)) (k : Nat) (seen : Bool) (s : List (Option α)) :
    (fillGaps pts k seen s).length = s.length := by
  induction s generalizing k seen with
  | nil => rfl
  | cons x xs ih => cases x <;> simp [fillGaps, ih]

/-- observed entries are kept exactly. -/
theorem fillGaps_some (pts : List (α × α)) (k : Nat) (seen : Bool) (s : List (Option α)) (i : Nat)
    (v : α) (h : s[i]? = some (some v)) : (fillGaps pts k seen s)[i]? = some (some v) := by
  induction s generalizing k seen i with
  | nil => simp at h
  | cons x xs ih =>
    cases i with
    | zero =>
      simp only [List.getElem?_cons_zero, Option.some.injEq] at h
      subst h; simp [fillGaps]
    | succ i =>
      simp only [List.getElem?_cons_succ] at h
      cases x <;> simp only [fillGaps, List.getElem?_cons_succ] <;> exact ih _ _ i h

/-- days before the first observation stay `NaN`. -/
theorem fillGaps_leading (pts : List (α × α)) (k : Nat) (s : List (Option α)) (i : Nat)
    (h : ∀ j, j ≤ i → s[j]? = some none) : (fillGaps pts k false s)[i]? = some none := by
  induction s generalizing k i with
  | nil => have := h 0 (Nat.zero_le _); simp at this
  | cons x xs ih =>
    have h0 := h 0 (Nat.zero_le _)
    simp only [List.getElem?_cons_zero, Option.some.injEq] at h0
    subst h0
    cases i with
    | zero => simp [fillGaps]
    | succ i =>
      simp only [fillGaps, List.getElem?_cons_succ]
      exact ih (k + 1) i (fun j hj => by simpa using h (j + 1) (by omega))

/-- a missing day after some observation is `np.interp` of its position over the observed
positions. -/
theorem fillGaps_gap (pts : List (α × α)) (k : Nat) (seen : Bool) (s : List (Option α)) (i : Nat)
    (h : s[i]? = some none)
    (hseen : seen = true ∨ ∃ j, j < i ∧ ∃ v, s[j]? = some (some v)) :
    (fillGaps pts k seen s)[i]? = some (interp (((k + i : Nat) : α)) pts) := by
  induction s generalizing k seen i with
  | nil => simp at h
  | cons x xs ih =>
    cases i with
    | zero =>
      simp only [List.getElem?_cons_zero, Option.some.injEq] at h
      subst h
      have hs : seen = true := by
        rcases hseen with hs | ⟨j, hj, _⟩
        · exact hs
        · omega
      simp [fillGaps, hs]
    | succ i =>
      simp only [List.getElem?_cons_succ] at h
      have e : k + (i + 1) = k + 1 + i := by omega
      rw [e]
      cases x with
      | some w =>
        simp only [fillGaps, List.getElem?_cons_succ]
        exact ih (k + 1) true i h (Or.inl rfl)
      | none =>
        simp only [fillGaps, List.getElem?_cons_succ]
        apply ih (k + 1) seen i h
        rcases hseen with hs | ⟨j, hj, v, hv⟩
        · exact Or.inl hs
        · cases j with
          | zero => simp at hv
          | succ j => exact Or.inr ⟨j, by omega, v, by simpa using hv⟩

theorem validPts_append (k : Nat) (s1 s2 : List (Option α)) :
    validPts k (s1 ++ s2) = validPts k s1 ++ validPts (k + s1.length) s2 := by
  induction s1 generalizing k with
  | nil => simp [validPts]
  | cons x xs ih =>
    cases x with
    | none => simp only [List.cons_append, validPts, ih, List.length_cons]; congr 2; omega
    | some v =>
      simp only [List.cons_append, validPts, ih, List.length_cons]
      congr 3; omega

theorem validPts_nones (k m : Nat) : validPts k (List.replicate m (none : Option α)) = [] := by
  induction m generalizing k with
  | zero => rfl
  | succ m ih => simp [List.replicate_succ, validPts, ih]

theorem validPts_pos (k : Nat) (s : List (Option α)) :
    ∀ p ∈ validPts k s, ∃ j : Nat, j < k + s.length ∧ p.1 = (j : α) := by
  induction s generalizing k with
  | nil => simp [validPts]
  | cons x xs ih =>
    intro p hp
    cases x with
    | none =>
      simp only [validPts] at hp
      obtain ⟨j, hj, e⟩ := ih (k + 1) p hp
      exact ⟨j, by simp only [List.length_cons]; omega, e⟩
    | some v =>
      simp only [validPts, List.mem_cons] at hp
      rcases hp with rfl | hp
      · exact ⟨k, by simp only [List.length_cons]; omega, rfl⟩
      · obtain ⟨j, hj, e⟩ := ih (k + 1) p hp
        exact ⟨j, by simp only [List.length_cons]; omega, e⟩

/-- **gw_variable_between** (series form): if the placed series has an observation `va`, then `m`
missing days, then an observation `vb`, the `t`-th missing day (0-based) gets the value on the
straight line in the *index position*: `va + (vb − va)·(t+1)/(m+1)`. -/
theorem fillGaps_between (s1 s2 : List (Option α)) (va vb : α) (m t : Nat) (ht : t < m) :
    (fillGaps (validPts 0 (s1 ++ some va :: (List.replicate m none ++ some vb :: s2))) 0 false
        (s1 ++ some va :: (List.replicate m none ++ some vb :: s2)))[s1.length + 1 + t]? =
      some (some ((vb - va) / ((m : α) + 1) * ((t : α) + 1) + va)) := by
  set s := s1 ++ some va :: (List.replicate m none ++ some vb :: s2) with hs
  have hget : s[s1.length + 1 + t]? = some none := by
    rw [hs, List.getElem?_append_right (by omega)]
    have : s1.length + 1 + t - s1.length = t + 1 := by omega
    rw [this, List.getElem?_cons_succ, List.getElem?_append_left (by simpa using ht)]
    simp [ht]
  have hprev : ∃ j, j < s1.length + 1 + t ∧ ∃ v, s[j]? = some (some v) :=
    ⟨s1.length, by omega, va, by rw [hs]; simp⟩
  rw [fillGaps_gap _ 0 false s _ hget (Or.inr hprev)]
  have hv : validPts 0 s = validPts 0 s1 ++
      ((s1.length : α), va) :: (((s1.length + 1 + m : Nat) : α), vb) ::
        validPts (s1.length + 1 + m + 1) s2 := by
    rw [hs, validPts_append]
    simp only [Nat.zero_add, validPts]
    rw [validPts_append, validPts_nones]
    simp only [List.nil_append, List.length_replicate, validPts]
  rw [hv]
  have hpre : ∀ p ∈ validPts 0 s1, p.1 ≤ (((0 + (s1.length + 1 + t) : Nat)) : α) := by
    intro p hp
    obtain ⟨j, hj, e⟩ := validPts_pos 0 s1 p hp
    rw [e]; exact_mod_cast (by omega : j ≤ 0 + (s1.length + 1 + t))
  rw [interp_between _ _ _ ((s1.length : α), va) (((s1.length + 1 + m : Nat) : α), vb) hpre
    (by simp only; exact_mod_cast (by omega : s1.length ≤ 0 + (s1.length + 1 + t)))
    (by simp only; exact_mod_cast (by omega : 0 + (s1.length + 1 + t) < s1.length + 1 + m))]
  have hnot : ¬ ((((0 + (s1.length + 1 + t) : Nat)) : α) ≤ (s1.length : α)) := by
    rw [not_le]; exact_mod_cast (by omega : s1.length < 0 + (s1.length + 1 + t))
  simp only [hnot, if_false]
  congr 2
  push_cast
  have h1 : ((s1.length : α) + 1 + (m : α) - (s1.length : α)) = (m : α) + 1 := by ring
  have h2 : ((0 : α) + ((s1.length : α) + 1 + (t : α)) - (s1.length : α)) = (t : α) + 1 := by ring
  rw [h1, h2]

theorem setAt_length (k : Nat) (v : α) (base : List (Option α)) :
    (setAt k v base).length = base.length := by
  induction base generalizing k with
  | nil => cases k <;> simp [setAt]
  | cons x xs ih => cases k <;> simp [setAt, ih]

theorem setAt_get (k : Nat) (v : α) (base : List (Option α)) (j : Nat) (hk : k < base.length) :
    (setAt k v base)[j]? = if j = k then some (some v) else base[j]? := by
  induction base generalizing k j with
  | nil => simp at hk
  | cons x xs ih =>
    cases k with
    | zero =>
      cases j with
      | zero => simp [setAt]
      | succ j => simp [setAt]
    | succ k =>
      cases j with
      | zero => simp [setAt]
      | succ j =>
        simp only [setAt, List.getElem?_cons_succ, ih k j (by simpa using hk)]
        simp

theorem placeObs_length (n : Nat) (obs : List (Int × α)) (base : List (Option α))
    (extra : List (Int × α)) : (placeObs n obs (base, extra)).1.length = base.length := by
  induction obs generalizing base extra with
  | nil => rfl
  | cons q qs ih =>
    obtain ⟨d, v⟩ := q
    simp only [placeObs]
    split
    · rw [ih, setAt_length]
    · rw [ih]

theorem placeObs_other (n : Nat) (obs : List (Int × α)) (base : List (Option α))
    (extra : List (Int × α)) (j : Nat) (hlen : base.length = n)
    (h : ∀ q ∈ obs, q.1 ≠ Int.ofNat j) :
    (placeObs n obs (base, extra)).1[j]? = base[j]? := by
  induction obs generalizing base extra with
  | nil => rfl
  | cons q qs ih =>
    obtain ⟨d, v⟩ := q
    have hq : d ≠ Int.ofNat j := h (d, v) (by simp)
    simp only [placeObs]
    split
    · rename_i hr
      rw [ih _ _ (by rw [setAt_length, hlen]) (fun q hq' => h q (List.mem_cons_of_mem _ hq'))]
      rw [setAt_get _ _ _ _ (by omega)]
      have : j ≠ d.toNat := by
        intro e; apply hq; rw [e]; exact (Int.toNat_of_nonneg hr.1).symm
      simp [this]
    · exact ih _ _ hlen (fun q hq' => h q (List.mem_cons_of_mem _ hq'))

/-- **gw_variable_at_obs**: on an observation day inside the simulation the series has exactly the
observed depth (of the last row carrying that date). -/
theorem gw_variable_at_obs (n : Nat) (pre post : List (Int × α)) (d : Nat) (v : α) (hd : d < n)
    (hpost : ∀ q ∈ post, q.1 ≠ Int.ofNat d) :
    (gwVariable n (pre ++ (Int.ofNat d, v) :: post))[d]? = some (some v) := by
  unfold gwVariable
  simp only []
  apply fillGaps_some
  -- the placed series
  have key : ∀ (pre : List (Int × α)) (base : List (Option α)) (extra : List (Int × α)),
      base.length = n →
      (placeObs n (pre ++ (Int.ofNat d, v) :: post) (base, extra)).1[d]? = some (some v) := by
    intro pre
    induction pre with
    | nil =>
      intro base extra hlen
      have hr : (0 : Int) ≤ Int.ofNat d ∧ Int.ofNat d < (n : Int) := ⟨by simp, by simpa using hd⟩
      simp only [List.nil_append, placeObs, hr, and_self, if_true]
      rw [placeObs_other n post _ extra d (by rw [setAt_length, hlen]) hpost]
      rw [setAt_get _ _ _ _ (by simp; omega)]
      simp
    | cons q qs ih =>
      intro base extra hlen
      obtain ⟨d', v'⟩ := q
      simp only [List.cons_append, placeObs]
      split
      · exact ih _ _ (by rw [setAt_length, hlen])
      · exact ih _ _ hlen
  have hl := placeObs_length n (pre ++ (Int.ofNat d, v) :: post) (List.replicate n none) []
  rw [List.getElem?_append_left (by rw [hl]; simpa using hd)]
  exact key pre _ _ (by simp)

/-! ## Non-vacuity (concrete series over ℚ) -/

/-- observations on day 1 (1 m) and day 3 (2 m) of a 5-day run: `NaN` on day 0, linear on day 2,
last value held on day 4. -/
example : gwVariable 5 [((1 : Int), (1 : ℚ)), (3, 2)] = [none, some 1, some (3 / 2), some 2, some 2] := by
  have h3 : Int.toNat 3 = 3 := rfl
  have h1 : Int.toNat 1 = 1 := rfl
  norm_num [gwVariable, placeObs, setAt, List.replicate, fillGaps, validPts, interp, interpGo, h3, h1]

/-- an observation dated before the start is appended *after the last day* (series of length 4
for a 3-day run) — the defect described in `Model/GwSeries.lean`. -/
example : gwVariable 3 [((-2 : Int), (1 : ℚ)), (1, 2)] = [none, some 2, some (3 / 2), some 1] := by
  have h1 : Int.toNat 1 = 1 := rfl
  norm_num [gwVariable, placeObs, setAt, setExtra, List.replicate, fillGaps, validPts, interp,
    interpGo, h1]

example : gwConstant 4 [((1 : Int), (1 : ℚ)), (3, 2)] = [some 1, some 1, some 1, some 2] := by
  simp [gwConstant, List.range, List.range.loop, gwConstAt]

end Aqua
