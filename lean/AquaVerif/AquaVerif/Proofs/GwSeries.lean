import AquaVerif.Model.GwSeries
import AquaVerif.Proofs.InitWC
/-
Lemmas about the groundwater series (`Model/GwSeries.lean`).
-/

set_option linter.unusedSectionVars false
set_option linter.unusedVariables false
namespace Aqua
variable {α : Type} [Field α] [LinearOrder α] [IsStrictOrderedRing α]

/-! ## "Constant" -/

theorem gwConstAt_post (i : Int) (post : List (Int × α)) (cur : Option α)
    (h : ∀ q ∈ post, i < q.1) : gwConstAt i false post cur = cur := by
  induction post generalizing cur with
  | nil => rfl
  | cons q qs ih =>
    obtain ⟨d, v⟩ := q
    have hd : ¬ (d ≤ i) := by have := h (d, v) (by simp); simp at this; omega
    simp only [gwConstAt, hd, Bool.false_eq_true, false_and, or_self, if_false]
    exact ih cur (fun q hq => h q (List.mem_cons_of_mem _ hq))

/-- **gw_constant** (step function): on day `i` the depth is that of the last row (in the given
order) dated on or before `i`, provided all later rows are dated after `i`. -/
theorem gw_constant (i : Int) (first : Bool) (pre post : List (Int × α)) (d : Int) (v : α)
    (cur : Option α) (hd : d ≤ i) (hpost : ∀ q ∈ post, i < q.1) :
    gwConstAt i first (pre ++ (d, v) :: post) cur = some v := by
  induction pre generalizing first cur with
  | nil =>
    simp only [List.nil_append, gwConstAt, hd, true_or, if_true]
    exact gwConstAt_post i post (some v) hpost
  | cons q qs ih =>
    obtain ⟨d', v'⟩ := q
    simp only [List.cons_append, gwConstAt]
    exact ih false _

/-- **gw_constant, before the first date**: the first row's depth also holds on all days before
its date (and on every day until a later row takes over). -/
theorem gw_constant_first (i : Int) (d0 : Int) (v0 : α) (rest : List (Int × α)) (cur : Option α)
    (hrest : ∀ q ∈ rest, i < q.1) :
    gwConstAt i true ((d0, v0) :: rest) cur = some v0 := by
  have : d0 ≤ i ∨ (true = true ∧ i ≤ d0) := by
    rcases Int.le_total d0 i with h | h
    · exact Or.inl h
    · exact Or.inr ⟨rfl, h⟩
  unfold gwConstAt
  rw [if_pos this]
  exact gwConstAt_post i rest (some v0) hrest

/-- the "Constant" series never contains `NaN` (given at least one row). -/
theorem gw_constant_no_nan (i : Int) (p : Int × α) (rest : List (Int × α)) (cur : Option α) :
    ∃ v, gwConstAt i true (p :: rest) cur = some v := by
  obtain ⟨d0, v0⟩ := p
  have h0 : d0 ≤ i ∨ (true = true ∧ i ≤ d0) := by
    rcases Int.le_total d0 i with h | h
    · exact Or.inl h
    · exact Or.inr ⟨rfl, h⟩
  unfold gwConstAt
  rw [if_pos h0]
  have : ∀ (rest : List (Int × α)) (v : α), ∃ w, gwConstAt i false rest (some v) = some w := by
    intro rest
    induction rest with
    | nil => intro v; exact ⟨v, rfl⟩
    | cons q qs ih =>
      intro v
      obtain ⟨d, w⟩ := q
      simp only [gwConstAt]
      split
      · exact ih w
      · exact ih v
  exact this rest v0

theorem gwConstant_getElem (n : Nat) (obs : List (Int × α)) (i : Nat) (h : i < n) :
    (gwConstant n obs)[i]? = some (gwConstAt (Int.ofNat i) true obs none) := by
  simp [gwConstant, h]

/-- a single observation: the depth is constant over the whole simulation (whatever the method). -/
theorem gw_single (n : Nat) (me : GwMethod) (d : Int) (v : α) :
    gwSeries n me [(d, v)] = .ok (List.replicate n (some v)) := rfl

/-- whole-series form of **gw_constant** for two observations `(d₁,v₁)`, `(d₂,v₂)`, `d₁ < d₂`:
`v₁` strictly before `d₂`, `v₂` from `d₂` on. -/
theorem gw_constant_two (n : Nat) (d1 d2 : Int) (v1 v2 : α) (i : Nat) (hi : i < n) :
    ∃ zs, gwSeries n .constant [(d1, v1), (d2, v2)] = .ok zs ∧
      zs[i]? = some (some (if d2 ≤ Int.ofNat i then v2 else v1)) := by
  refine ⟨gwConstant n [(d1, v1), (d2, v2)], rfl, ?_⟩
  rw [gwConstant_getElem n _ i hi]
  by_cases h2 : d2 ≤ Int.ofNat i
  · simp only [h2, if_true]
    exact congrArg some (gw_constant (Int.ofNat i) true [(d1, v1)] [] d2 v2 none h2 (by simp))
  · simp only [h2, if_false]
    exact congrArg some (gw_constant_first (Int.ofNat i) d1 v1 [(d2, v2)] none
      (by intro q hq; simp at hq; subst hq; simpa using h2))

/-! ## "Variable"

The series is `gwVarAt i (sortByDate (dedupLast obs))` on day `i`: de-duplicate (last row of a date
wins), sort by date, interpolate linearly in time; `none` (`NaN`) before the first observation, the
last depth after the last one. -/

/-! ### `dedupLast` -/

/-- every row kept by `dedupLast` is a row of the table. -/
theorem dedupLast_subset (obs : List (Int × α)) : ∀ q ∈ dedupLast obs, q ∈ obs := by
  induction obs with
  | nil => intro q hq; simp [dedupLast] at hq
  | cons p rest ih =>
    obtain ⟨d, v⟩ := p
    intro q hq
    unfold dedupLast at hq
    split at hq
    · exact List.mem_cons_of_mem _ (ih q hq)
    · rcases List.mem_cons.mp hq with rfl | hq
      · exact List.mem_cons_self
      · exact List.mem_cons_of_mem _ (ih q hq)

/-- every date of the table survives `dedupLast`. -/
theorem dedupLast_date_mem (obs : List (Int × α)) :
    ∀ q ∈ obs, ∃ q' ∈ dedupLast obs, q'.1 = q.1 := by
  induction obs with
  | nil => intro q hq; simp at hq
  | cons p rest ih =>
    obtain ⟨d, v⟩ := p
    intro q hq
    by_cases hany : rest.any (fun q => decide (q.1 = d)) = true
    · have e : dedupLast ((d, v) :: rest) = dedupLast rest := by simp only [dedupLast, hany, if_true]
      rw [e]
      rcases List.mem_cons.mp hq with rfl | hq
      · obtain ⟨r, hr, hrd⟩ := List.any_eq_true.mp hany
        obtain ⟨q', hq', e'⟩ := ih r hr
        exact ⟨q', hq', by rw [e']; simpa using hrd⟩
      · exact ih q hq
    · have e : dedupLast ((d, v) :: rest) = (d, v) :: dedupLast rest := by
        simp only [dedupLast, hany, if_false, Bool.false_eq_true]
      rw [e]
      rcases List.mem_cons.mp hq with rfl | hq
      · exact ⟨(d, v), List.mem_cons_self, rfl⟩
      · obtain ⟨q', hq', e'⟩ := ih q hq
        exact ⟨q', List.mem_cons_of_mem _ hq', e'⟩

/-- after `dedupLast` the dates are pairwise distinct. -/
theorem dedupLast_pairwise (obs : List (Int × α)) :
    (dedupLast obs).Pairwise (fun a b => a.1 ≠ b.1) := by
  induction obs with
  | nil => simp [dedupLast]
  | cons p rest ih =>
    obtain ⟨d, v⟩ := p
    unfold dedupLast
    split
    · exact ih
    · rename_i hany
      refine List.pairwise_cons.mpr ⟨?_, ih⟩
      intro q hq hdq
      apply hany
      exact List.any_eq_true.mpr ⟨q, dedupLast_subset rest q hq, by simpa using hdq.symm⟩

/-- **the last row of a date wins**: `(d, v)` is kept exactly when it is a row of the table that no
later row with the same date follows. -/
theorem dedupLast_mem_iff (obs : List (Int × α)) (d : Int) (v : α) :
    (d, v) ∈ dedupLast obs ↔
      ∃ pre post, obs = pre ++ (d, v) :: post ∧ ∀ q ∈ post, q.1 ≠ d := by
  induction obs with
  | nil => simp [dedupLast]
  | cons p rest ih =>
    obtain ⟨d', v'⟩ := p
    by_cases hany : rest.any (fun q => decide (q.1 = d')) = true
    · have e : dedupLast ((d', v') :: rest) = dedupLast rest := by
        simp only [dedupLast, hany, if_true]
      rw [e, ih]
      constructor
      · rintro ⟨pre, post, rfl, hpost⟩
        exact ⟨(d', v') :: pre, post, rfl, hpost⟩
      · rintro ⟨pre, post, hobs, hpost⟩
        cases pre with
        | nil =>
          cases hobs
          obtain ⟨r, hr, hrd⟩ := List.any_eq_true.mp hany
          exact absurd (hpost r hr) (by simpa using hrd)
        | cons p' pre' =>
          simp only [List.cons_append, List.cons.injEq] at hobs
          exact ⟨pre', post, hobs.2, hpost⟩
    · have e : dedupLast ((d', v') :: rest) = (d', v') :: dedupLast rest := by
        simp only [dedupLast, hany, if_false, Bool.false_eq_true]
      rw [e, List.mem_cons, ih]
      constructor
      · rintro (h | ⟨pre, post, rfl, hpost⟩)
        · simp only [Prod.mk.injEq] at h
          obtain ⟨rfl, rfl⟩ := h
          refine ⟨[], rest, rfl, ?_⟩
          intro q hq hqd
          exact hany (List.any_eq_true.mpr ⟨q, hq, by simpa using hqd⟩)
        · exact ⟨(d', v') :: pre, post, rfl, hpost⟩
      · rintro ⟨pre, post, hobs, hpost⟩
        cases pre with
        | nil =>
          cases hobs
          exact Or.inl rfl
        | cons p' pre' =>
          simp only [List.cons_append, List.cons.injEq] at hobs
          exact Or.inr ⟨pre', post, hobs.2, hpost⟩

theorem dedupLast_mem_of_last (pre post : List (Int × α)) (d : Int) (v : α)
    (hpost : ∀ q ∈ post, q.1 ≠ d) : (d, v) ∈ dedupLast (pre ++ (d, v) :: post) :=
  (dedupLast_mem_iff _ d v).mpr ⟨pre, post, rfl, hpost⟩

/-- a table whose dates are already distinct is left alone. -/
theorem dedupLast_of_distinct (obs : List (Int × α)) (h : obs.Pairwise (fun a b => a.1 ≠ b.1)) :
    dedupLast obs = obs := by
  induction obs with
  | nil => rfl
  | cons p rest ih =>
    obtain ⟨d, v⟩ := p
    obtain ⟨h1, h2⟩ := List.pairwise_cons.mp h
    have hany : ¬ (rest.any (fun q => decide (q.1 = d)) = true) := by
      intro hany
      obtain ⟨r, hr, hrd⟩ := List.any_eq_true.mp hany
      have hrd' : r.1 = d := by simpa using hrd
      exact h1 r hr hrd'.symm
    simp only [dedupLast, hany, if_false, Bool.false_eq_true, ih h2]

/-! ### `sortByDate` -/

theorem insertByDate_perm (p : Int × α) (l : List (Int × α)) :
    (insertByDate p l).Perm (p :: l) := by
  induction l with
  | nil => exact List.Perm.refl _
  | cons q qs ih =>
    unfold insertByDate
    split
    · exact List.Perm.refl _
    · exact ((List.Perm.cons q ih).trans (List.Perm.swap p q qs))

/-- `sortByDate` only reorders the rows. -/
theorem sortByDate_perm (l : List (Int × α)) : (sortByDate l).Perm l := by
  induction l with
  | nil => exact List.Perm.refl _
  | cons p ps ih =>
    show (insertByDate p (sortByDate ps)).Perm (p :: ps)
    exact (insertByDate_perm p _).trans (List.Perm.cons p ih)

theorem sortByDate_mem (l : List (Int × α)) (q : Int × α) : q ∈ sortByDate l ↔ q ∈ l :=
  (sortByDate_perm l).mem_iff

theorem insertByDate_sorted (p : Int × α) (l : List (Int × α))
    (h : l.Pairwise (fun a b => a.1 ≤ b.1)) :
    (insertByDate p l).Pairwise (fun a b => a.1 ≤ b.1) := by
  induction l with
  | nil => simp [insertByDate]
  | cons q qs ih =>
    obtain ⟨h1, h2⟩ := List.pairwise_cons.mp h
    unfold insertByDate
    split
    · rename_i hpq
      refine List.pairwise_cons.mpr ⟨?_, h⟩
      intro r hr
      rcases List.mem_cons.mp hr with rfl | hr
      · exact hpq
      · exact Int.le_trans hpq (h1 r hr)
    · rename_i hpq
      refine List.pairwise_cons.mpr ⟨?_, ih h2⟩
      intro r hr
      rcases List.mem_cons.mp ((insertByDate_perm p qs).mem_iff.mp hr) with rfl | hr
      · omega
      · exact h1 r hr

/-- the result of `sortByDate` is in date order. -/
theorem sortByDate_sorted (l : List (Int × α)) :
    (sortByDate l).Pairwise (fun a b => a.1 ≤ b.1) := by
  induction l with
  | nil => simp [sortByDate]
  | cons p ps ih => exact insertByDate_sorted p _ ih

/-- with distinct dates the result of `sortByDate` is strictly increasing in date. -/
theorem sortByDate_strict (l : List (Int × α)) (h : l.Pairwise (fun a b => a.1 ≠ b.1)) :
    (sortByDate l).Pairwise (fun a b => a.1 < b.1) := by
  have hne : (sortByDate l).Pairwise (fun a b => a.1 ≠ b.1) :=
    ((sortByDate_perm l).pairwise_iff (fun {x y} (hxy : x.1 ≠ y.1) => hxy.symm)).mpr h
  exact ((sortByDate_sorted l).and hne).imp (fun {a b} hab => by omega)

/-- the interpolation points of the "Variable" series are strictly increasing in date. -/
theorem gwPts_strict (obs : List (Int × α)) :
    (sortByDate (dedupLast obs)).Pairwise (fun a b => a.1 < b.1) :=
  sortByDate_strict _ (dedupLast_pairwise obs)

/-- a strictly date-increasing list is its own sort. -/
theorem sortByDate_of_strict (l : List (Int × α)) (h : l.Pairwise (fun a b => a.1 < b.1)) :
    sortByDate l = l := by
  refine List.Perm.eq_of_pairwise (le := fun a b => a.1 < b.1) ?_
    (sortByDate_strict l (h.imp (fun {a b} hab => by omega))) h (sortByDate_perm l)
  intro a b _ _ h1 h2; omega

/-- the interpolation points do not depend on the order of the rows of a table with distinct
dates. -/
theorem sortByDate_perm_eq (l l' : List (Int × α)) (hp : l.Perm l')
    (h : l.Pairwise (fun a b => a.1 ≠ b.1)) : sortByDate l = sortByDate l' := by
  have h' : l'.Pairwise (fun a b => a.1 ≠ b.1) :=
    (hp.pairwise_iff (fun {x y} (hxy : x.1 ≠ y.1) => hxy.symm)).mp h
  refine List.Perm.eq_of_pairwise (le := fun a b => a.1 < b.1) ?_
    (sortByDate_strict l h) (sortByDate_strict l' h')
    ((sortByDate_perm l).trans (hp.trans (sortByDate_perm l').symm))
  intro a b _ _ h1 h2; omega

/-! ### `gwVarGo` / `gwVarAt` on a strictly date-increasing list -/

/-- the model's `Nat` cast of a non-negative day difference is the `Int` cast. -/
theorem natCast_toNat (x : Int) (h : 0 ≤ x) : ((x.toNat : Nat) : α) = ((x : Int) : α) := by
  rw [← Int.cast_natCast, Int.toNat_of_nonneg h]

/-- rows dated on or before `i` are walked over. -/
theorem gwVarGo_skip (i : Int) (lo p : Int × α) (pre rest : List (Int × α))
    (hpre : ∀ q ∈ pre, q.1 ≤ i) (hp : p.1 ≤ i) :
    gwVarGo i lo (pre ++ p :: rest) = gwVarGo i p rest := by
  induction pre generalizing lo with
  | nil => simp only [List.nil_append, gwVarGo, hp, if_true]
  | cons q qs ih =>
    have hq : q.1 ≤ i := hpre q List.mem_cons_self
    simp only [List.cons_append, gwVarGo, hq, if_true]
    exact ih q (fun r hr => hpre r (List.mem_cons_of_mem _ hr))

/-- the straight line through `lo` and the next row, when that row is dated after `i`. -/
theorem gwVarGo_line (i : Int) (lo p : Int × α) (ps : List (Int × α)) (hlo : lo.1 ≤ i)
    (hp : i < p.1) :
    gwVarGo i lo (p :: ps) =
      (p.2 - lo.2) / ((p.1 - lo.1 : Int) : α) * ((i - lo.1 : Int) : α) + lo.2 := by
  have h : ¬ (p.1 ≤ i) := by omega
  simp only [gwVarGo, h, if_false]
  rw [natCast_toNat _ (by omega), natCast_toNat _ (by omega)]

theorem gwVarAt_nil (i : Int) : gwVarAt i ([] : List (Int × α)) = none := rfl

/-- **`NaN` before the first observation.** -/
theorem gwVarAt_before_first (i : Int) (p : Int × α) (ps : List (Int × α)) (h : i < p.1) :
    gwVarAt i (p :: ps) = none := by
  simp only [gwVarAt, h, if_true]

/-- a value exactly from the first observation's date on. -/
theorem gwVarAt_isSome_iff (i : Int) (p : Int × α) (ps : List (Int × α)) :
    (gwVarAt i (p :: ps)).isSome = true ↔ p.1 ≤ i := by
  by_cases h : i < p.1
  · simp only [gwVarAt, h, if_true, Option.isSome_none, Bool.false_eq_true, false_iff]; omega
  · simp only [gwVarAt, h, if_false, Option.isSome_some, true_iff]; omega

theorem gwVarAt_eq_none_iff (i : Int) (p : Int × α) (ps : List (Int × α)) :
    gwVarAt i (p :: ps) = none ↔ i < p.1 := by
  by_cases h : i < p.1
  · simp [gwVarAt, h]
  · simp [gwVarAt, h]

/-- from the date of a row on, the walk restarts at that row. -/
theorem gwVarAt_split (i : Int) (pre rest : List (Int × α)) (p : Int × α)
    (hs : (pre ++ p :: rest).Pairwise (fun a b => a.1 < b.1)) (hp : p.1 ≤ i) :
    gwVarAt i (pre ++ p :: rest) = some (gwVarGo i p rest) := by
  have hlt : ∀ q ∈ pre, q.1 < p.1 := fun q hq =>
    (List.pairwise_append.mp hs).2.2 q hq p List.mem_cons_self
  cases pre with
  | nil =>
    have h : ¬ (i < p.1) := by omega
    simp only [List.nil_append, gwVarAt, h, if_false]
  | cons q qs =>
    have hq := hlt q List.mem_cons_self
    have h : ¬ (i < q.1) := by omega
    simp only [List.cons_append, gwVarAt, h, if_false]
    rw [gwVarGo_skip i q p qs rest
      (fun r hr => by have := hlt r (List.mem_cons_of_mem _ hr); omega) hp]

/-- **exactly the observed depth on an observation date.** -/
theorem gwVarAt_at_obs (pre post : List (Int × α)) (d : Int) (v : α)
    (hs : (pre ++ (d, v) :: post).Pairwise (fun a b => a.1 < b.1)) :
    gwVarAt d (pre ++ (d, v) :: post) = some v := by
  rw [gwVarAt_split d pre post (d, v) hs (Int.le_refl d)]
  cases post with
  | nil => rfl
  | cons p ps =>
    have hp : d < p.1 :=
      (List.pairwise_cons.mp (List.pairwise_append.mp hs).2.1).1 p List.mem_cons_self
    rw [gwVarGo_line d (d, v) p ps (Int.le_refl d) hp]
    simp

/-- **on the straight line in time between two neighbouring observations.** -/
theorem gwVarAt_between (i : Int) (pre post : List (Int × α)) (d0 d1 : Int) (v0 v1 : α)
    (hs : (pre ++ (d0, v0) :: (d1, v1) :: post).Pairwise (fun a b => a.1 < b.1))
    (h0 : d0 ≤ i) (h1 : i < d1) :
    gwVarAt i (pre ++ (d0, v0) :: (d1, v1) :: post) =
      some ((v1 - v0) / ((d1 - d0 : Int) : α) * ((i - d0 : Int) : α) + v0) := by
  rw [gwVarAt_split i pre _ (d0, v0) hs h0, gwVarGo_line i (d0, v0) (d1, v1) post h0 h1]

/-- the same line written with the time fraction `(i − d0)/(d1 − d0)`. -/
theorem gw_line_eq (i d0 d1 : Int) (v0 v1 : α) (h : d0 < d1) :
    (v1 - v0) / ((d1 - d0 : Int) : α) * ((i - d0 : Int) : α) + v0 =
      v0 + ((i : α) - (d0 : α)) / ((d1 : α) - (d0 : α)) * (v1 - v0) := by
  have hd : ((d1 : α) - (d0 : α)) ≠ 0 := by
    have : (d0 : α) < (d1 : α) := by exact_mod_cast h
    exact ne_of_gt (by linarith)
  push_cast
  field_simp
  ring

/-- the interpolated depth lies between the two neighbouring observed depths. -/
theorem gw_line_bounds (i d0 d1 : Int) (v0 v1 : α) (h0 : d0 ≤ i) (h1 : i < d1) :
    min v0 v1 ≤ (v1 - v0) / ((d1 - d0 : Int) : α) * ((i - d0 : Int) : α) + v0 ∧
      (v1 - v0) / ((d1 - d0 : Int) : α) * ((i - d0 : Int) : α) + v0 ≤ max v0 v1 := by
  have ha : ((d0 : Int) : α) ≤ ((i : Int) : α) := by exact_mod_cast h0
  have hb : ((i : Int) : α) < ((d1 : Int) : α) := by exact_mod_cast h1
  have := interp_between_bounds ((i : Int) : α) (((d0 : Int) : α), v0) (((d1 : Int) : α), v1) ha hb
  simpa only [Int.cast_sub] using this

theorem gwVarAt_between_bounds (i : Int) (pre post : List (Int × α)) (d0 d1 : Int) (v0 v1 : α)
    (hs : (pre ++ (d0, v0) :: (d1, v1) :: post).Pairwise (fun a b => a.1 < b.1))
    (h0 : d0 ≤ i) (h1 : i < d1) :
    ∃ z, gwVarAt i (pre ++ (d0, v0) :: (d1, v1) :: post) = some z ∧
      min v0 v1 ≤ z ∧ z ≤ max v0 v1 :=
  ⟨_, gwVarAt_between i pre post d0 d1 v0 v1 hs h0 h1, gw_line_bounds i d0 d1 v0 v1 h0 h1⟩

/-- **the last depth from the last observation on.** -/
theorem gwVarAt_after_last (i : Int) (pre : List (Int × α)) (d : Int) (v : α)
    (hs : (pre ++ [(d, v)]).Pairwise (fun a b => a.1 < b.1)) (hd : d ≤ i) :
    gwVarAt i (pre ++ [(d, v)]) = some v := by
  rw [gwVarAt_split i pre [] (d, v) hs hd]; rfl

/-- in a strictly date-increasing list two rows with no date strictly between them are
neighbours. -/
theorem adjacent_of_no_between (pts : List (Int × α)) (a b : Int × α)
    (hs : pts.Pairwise (fun a b => a.1 < b.1)) (ha : a ∈ pts) (hb : b ∈ pts) (hab : a.1 < b.1)
    (hno : ∀ q ∈ pts, ¬ (a.1 < q.1 ∧ q.1 < b.1)) :
    ∃ pre post, pts = pre ++ a :: b :: post := by
  obtain ⟨pre, rest, rfl⟩ := List.append_of_mem ha
  obtain ⟨_, hrest, hcross⟩ := List.pairwise_append.mp hs
  obtain ⟨harest, hrest'⟩ := List.pairwise_cons.mp hrest
  have hbrest : b ∈ rest := by
    rcases List.mem_append.mp hb with hb | hb
    · have := hcross b hb a List.mem_cons_self; omega
    · rcases List.mem_cons.mp hb with rfl | hb
      · omega
      · exact hb
  cases rest with
  | nil => simp at hbrest
  | cons c post =>
    have hac : a.1 < c.1 := harest c List.mem_cons_self
    rcases List.mem_cons.mp hbrest with rfl | hbpost
    · exact ⟨pre, post, rfl⟩
    · have hcb : c.1 < b.1 := (List.pairwise_cons.mp hrest').1 b hbpost
      exact absurd ⟨hac, hcb⟩
        (hno c (List.mem_append_right _ (List.mem_cons_of_mem _ List.mem_cons_self)))

/-! ### shift invariance -/

/-- moving every date by `k` days -/
def shiftDates (k : Int) (l : List (Int × α)) : List (Int × α) := l.map (fun q => (q.1 + k, q.2))

theorem gwVarGo_shift (i k : Int) (lo : Int × α) (ps : List (Int × α)) :
    gwVarGo (i + k) (lo.1 + k, lo.2) (shiftDates k ps) = gwVarGo i lo ps := by
  induction ps generalizing lo with
  | nil => rfl
  | cons p ps ih =>
    simp only [shiftDates, List.map_cons, gwVarGo]
    have e1 : (p.1 + k ≤ i + k) ↔ p.1 ≤ i := by omega
    have e2 : p.1 + k - (lo.1 + k) = p.1 - lo.1 := by omega
    have e3 : i + k - (lo.1 + k) = i - lo.1 := by omega
    simp only [e1, e2, e3]
    split
    · exact ih p
    · rfl

/-- **shift invariance**: shifting all dates and the day by the same offset gives the same depth. -/
theorem gwVarAt_shift (i k : Int) (pts : List (Int × α)) :
    gwVarAt (i + k) (shiftDates k pts) = gwVarAt i pts := by
  cases pts with
  | nil => rfl
  | cons p ps =>
    simp only [shiftDates, List.map_cons, gwVarAt]
    have e1 : (i + k < p.1 + k) ↔ i < p.1 := by omega
    simp only [e1]
    split
    · rfl
    · exact congrArg some (gwVarGo_shift i k p ps)

theorem dedupLast_shift (k : Int) (obs : List (Int × α)) :
    dedupLast (shiftDates k obs) = shiftDates k (dedupLast obs) := by
  induction obs with
  | nil => rfl
  | cons p rest ih =>
    have hany : (shiftDates k rest).any (fun q => decide (q.1 = p.1 + k)) =
        rest.any (fun q => decide (q.1 = p.1)) := by
      simp only [shiftDates, List.any_map]
      congr 1
      funext q
      simp only [Function.comp]
      by_cases h : q.1 = p.1
      · simp [h]
      · have : ¬ (q.1 + k = p.1 + k) := by omega
        simp [h, this]
    have ih' : dedupLast (List.map (fun q => (q.1 + k, q.2)) rest) =
        shiftDates k (dedupLast rest) := ih
    simp only [shiftDates] at hany
    simp only [shiftDates, List.map_cons, dedupLast, hany, ih']
    split <;> simp

theorem insertByDate_shift (k : Int) (p : Int × α) (l : List (Int × α)) :
    insertByDate (p.1 + k, p.2) (shiftDates k l) = shiftDates k (insertByDate p l) := by
  induction l with
  | nil => rfl
  | cons q qs ih =>
    have e : (p.1 + k ≤ q.1 + k) ↔ p.1 ≤ q.1 := by omega
    have ih' : insertByDate (p.1 + k, p.2) (List.map (fun q => (q.1 + k, q.2)) qs) =
        shiftDates k (insertByDate p qs) := ih
    simp only [shiftDates, List.map_cons, insertByDate, e, ih']
    split <;> simp

theorem sortByDate_shift (k : Int) (l : List (Int × α)) :
    sortByDate (shiftDates k l) = shiftDates k (sortByDate l) := by
  induction l with
  | nil => rfl
  | cons p ps ih =>
    show insertByDate (p.1 + k, p.2) (sortByDate (shiftDates k ps)) =
      shiftDates k (insertByDate p (sortByDate ps))
    rw [ih, insertByDate_shift]

/-! ### the series -/

theorem gwVariable_length (n : Nat) (obs : List (Int × α)) : (gwVariable n obs).length = n := by
  simp [gwVariable]

theorem gwVariable_getElem (n : Nat) (obs : List (Int × α)) (i : Nat) (h : i < n) :
    (gwVariable n obs)[i]? = some (gwVarAt (Int.ofNat i) (sortByDate (dedupLast obs))) := by
  simp [gwVariable, h]

/-- **independence of the window**: extending (or shortening) the simulation does not change the
series on the days covered by both. -/
theorem gw_variable_window_independent (n m : Nat) (obs : List (Int × α)) (i : Nat) (hn : i < n)
    (hm : i < m) : (gwVariable n obs)[i]? = (gwVariable m obs)[i]? := by
  rw [gwVariable_getElem n obs i hn, gwVariable_getElem m obs i hm]

/-- … as lists: the shorter series is a prefix of the longer one. -/
theorem gw_variable_take (n m : Nat) (obs : List (Int × α)) (h : n ≤ m) :
    (gwVariable m obs).take n = gwVariable n obs := by
  apply List.ext_getElem?
  intro i
  by_cases hi : i < n
  · rw [List.getElem?_take_of_lt hi]
    exact gw_variable_window_independent m n obs i (by omega) hi
  · rw [List.getElem?_eq_none (by rw [List.length_take, gwVariable_length]; omega),
      List.getElem?_eq_none (by rw [gwVariable_length]; omega)]

/-- **gw_variable_at_obs**: on an observation day inside the simulation the series has exactly the
observed depth (of the last row carrying that date). -/
theorem gw_variable_at_obs (n : Nat) (pre post : List (Int × α)) (d : Nat) (v : α) (hd : d < n)
    (hpost : ∀ q ∈ post, q.1 ≠ Int.ofNat d) :
    (gwVariable n (pre ++ (Int.ofNat d, v) :: post))[d]? = some (some v) := by
  rw [gwVariable_getElem n _ d hd]
  have hm := (sortByDate_mem _ _).mpr (dedupLast_mem_of_last pre post (Int.ofNat d) v hpost)
  obtain ⟨s, t, e⟩ := List.append_of_mem hm
  have hs := gwPts_strict (pre ++ (Int.ofNat d, v) :: post)
  rw [e] at hs ⊢
  rw [gwVarAt_at_obs s t (Int.ofNat d) v hs]

/-- **between two consecutive observations** (rows kept by `dedupLast`; no observation date strictly
between `d0` and `d1`), for a simulation day `i` with `d0 ≤ i < d1`: the depth is on the straight
line in time through the two — wherever `d0` and `d1` lie relative to the simulated period. -/
theorem gw_variable_between_of_mem (n : Nat) (obs : List (Int × α)) (d0 d1 : Int) (v0 v1 : α)
    (i : Nat) (hi : i < n) (hm0 : (d0, v0) ∈ dedupLast obs) (hm1 : (d1, v1) ∈ dedupLast obs)
    (hno : ∀ q ∈ obs, ¬ (d0 < q.1 ∧ q.1 < d1)) (h0 : d0 ≤ Int.ofNat i) (h1 : Int.ofNat i < d1) :
    (gwVariable n obs)[i]? =
      some (some ((v1 - v0) / ((d1 - d0 : Int) : α) * ((Int.ofNat i - d0 : Int) : α) + v0)) := by
  rw [gwVariable_getElem n _ i hi]
  have hs := gwPts_strict obs
  obtain ⟨pre, post, e⟩ := adjacent_of_no_between (sortByDate (dedupLast obs)) (d0, v0) (d1, v1) hs
    ((sortByDate_mem _ _).mpr hm0) ((sortByDate_mem _ _).mpr hm1) (by show d0 < d1; omega)
    (fun q hq => hno q (dedupLast_subset obs q ((sortByDate_mem _ _).mp hq)))
  rw [e] at hs ⊢
  rw [gwVarAt_between (Int.ofNat i) pre post d0 d1 v0 v1 hs h0 h1]

/-- the same with the two rows given by their position in the table (each being the last row of
its date). -/
theorem gw_variable_between (n : Nat) (obs pre0 post0 pre1 post1 : List (Int × α)) (d0 d1 : Int)
    (v0 v1 : α) (i : Nat) (hi : i < n)
    (e0 : obs = pre0 ++ (d0, v0) :: post0) (hpost0 : ∀ q ∈ post0, q.1 ≠ d0)
    (e1 : obs = pre1 ++ (d1, v1) :: post1) (hpost1 : ∀ q ∈ post1, q.1 ≠ d1)
    (hno : ∀ q ∈ obs, ¬ (d0 < q.1 ∧ q.1 < d1)) (h0 : d0 ≤ Int.ofNat i) (h1 : Int.ofNat i < d1) :
    (gwVariable n obs)[i]? =
      some (some ((v1 - v0) / ((d1 - d0 : Int) : α) * ((Int.ofNat i - d0 : Int) : α) + v0)) :=
  gw_variable_between_of_mem n obs d0 d1 v0 v1 i hi
    ((dedupLast_mem_iff obs d0 v0).mpr ⟨pre0, post0, e0, hpost0⟩)
    ((dedupLast_mem_iff obs d1 v1).mpr ⟨pre1, post1, e1, hpost1⟩) hno h0 h1

/-- … and that depth lies between the two observed depths. -/
theorem gw_variable_between_bounds (n : Nat) (obs pre0 post0 pre1 post1 : List (Int × α))
    (d0 d1 : Int) (v0 v1 : α) (i : Nat) (hi : i < n)
    (e0 : obs = pre0 ++ (d0, v0) :: post0) (hpost0 : ∀ q ∈ post0, q.1 ≠ d0)
    (e1 : obs = pre1 ++ (d1, v1) :: post1) (hpost1 : ∀ q ∈ post1, q.1 ≠ d1)
    (hno : ∀ q ∈ obs, ¬ (d0 < q.1 ∧ q.1 < d1)) (h0 : d0 ≤ Int.ofNat i) (h1 : Int.ofNat i < d1) :
    ∃ z, (gwVariable n obs)[i]? = some (some z) ∧ min v0 v1 ≤ z ∧ z ≤ max v0 v1 :=
  ⟨_, gw_variable_between n obs pre0 post0 pre1 post1 d0 d1 v0 v1 i hi e0 hpost0 e1 hpost1 hno h0 h1,
    gw_line_bounds (Int.ofNat i) d0 d1 v0 v1 h0 h1⟩

/-- **`NaN` exactly before the first observation**: day `i` has a depth iff some observation is
dated on or before it. -/
theorem gw_variable_isSome_iff (n : Nat) (obs : List (Int × α)) (i : Nat) (hi : i < n) :
    (∃ z, (gwVariable n obs)[i]? = some (some z)) ↔ ∃ q ∈ obs, q.1 ≤ Int.ofNat i := by
  rw [gwVariable_getElem n _ i hi]
  have hs := gwPts_strict obs
  cases hpts : sortByDate (dedupLast obs) with
  | nil =>
    constructor
    · rintro ⟨z, hz⟩; simp [gwVarAt] at hz
    · rintro ⟨q, hq, _⟩
      obtain ⟨q', hq', _⟩ := dedupLast_date_mem obs q hq
      have := (sortByDate_mem _ _).mpr hq'
      rw [hpts] at this; simp at this
  | cons p ps =>
    rw [hpts] at hs
    have hp : p ∈ obs := dedupLast_subset obs p ((sortByDate_mem _ _).mp (by rw [hpts]; simp))
    constructor
    · rintro ⟨z, hz⟩
      refine ⟨p, hp, ?_⟩
      have : (gwVarAt (Int.ofNat i) (p :: ps)).isSome = true := by
        simp only [Option.some.injEq] at hz; rw [hz]; rfl
      exact (gwVarAt_isSome_iff _ p ps).mp this
    · rintro ⟨q, hq, hqi⟩
      obtain ⟨q', hq', e'⟩ := dedupLast_date_mem obs q hq
      have hq'' : q' ∈ p :: ps := by rw [← hpts]; exact (sortByDate_mem _ _).mpr hq'
      have hpq : p.1 ≤ q'.1 := by
        rcases List.mem_cons.mp hq'' with rfl | h
        · exact Int.le_refl _
        · exact Int.le_of_lt ((List.pairwise_cons.mp hs).1 q' h)
      have hpi : p.1 ≤ Int.ofNat i := by omega
      have hsome := (gwVarAt_isSome_iff (Int.ofNat i) p ps).mpr hpi
      obtain ⟨z, hz⟩ := Option.isSome_iff_exists.mp hsome
      exact ⟨z, by rw [hz]⟩

/-- `NaN` on every simulation day before the first observation. -/
theorem gw_variable_before_first (n : Nat) (obs : List (Int × α)) (i : Nat) (hi : i < n)
    (h : ∀ q ∈ obs, Int.ofNat i < q.1) : (gwVariable n obs)[i]? = some none := by
  have hnot : ¬ ∃ z, (gwVariable n obs)[i]? = some (some z) := by
    rw [gw_variable_isSome_iff n obs i hi]
    rintro ⟨q, hq, hqi⟩
    have := h q hq; omega
  rw [gwVariable_getElem n _ i hi] at hnot ⊢
  cases hv : gwVarAt (Int.ofNat i) (sortByDate (dedupLast obs)) with
  | none => rfl
  | some z => exact absurd ⟨z, by rw [hv]⟩ hnot

/-- **the last depth after the last observation**: from the latest observation date on, the series
holds the depth of (the last row of) that date. -/
theorem gw_variable_after_last (n : Nat) (pre post : List (Int × α)) (d : Int) (v : α) (i : Nat)
    (hi : i < n) (hpost : ∀ q ∈ post, q.1 ≠ d)
    (hlast : ∀ q ∈ pre ++ (d, v) :: post, q.1 ≤ d) (hd : d ≤ Int.ofNat i) :
    (gwVariable n (pre ++ (d, v) :: post))[i]? = some (some v) := by
  rw [gwVariable_getElem n _ i hi]
  have hm := (sortByDate_mem _ _).mpr (dedupLast_mem_of_last pre post d v hpost)
  obtain ⟨s, t, e⟩ := List.append_of_mem hm
  have hs := gwPts_strict (pre ++ (d, v) :: post)
  have ht : t = [] := by
    cases t with
    | nil => rfl
    | cons c t' =>
      exfalso
      have hc : c ∈ sortByDate (dedupLast (pre ++ (d, v) :: post)) := by rw [e]; simp
      have hc' := hlast c (dedupLast_subset _ c ((sortByDate_mem _ _).mp hc))
      rw [e] at hs
      have : d < c.1 :=
        (List.pairwise_cons.mp (List.pairwise_append.mp hs).2.1).1 c List.mem_cons_self
      omega
  subst ht
  rw [e] at hs ⊢
  rw [gwVarAt_after_last (Int.ofNat i) s d v hs hd]

/-- **the order of the rows does not matter** for a table with distinct dates. -/
theorem gw_variable_perm (n : Nat) (obs obs' : List (Int × α)) (hp : obs.Perm obs')
    (h : obs.Pairwise (fun a b => a.1 ≠ b.1)) : gwVariable n obs = gwVariable n obs' := by
  have h' : obs'.Pairwise (fun a b => a.1 ≠ b.1) :=
    (hp.pairwise_iff (fun {x y} (hxy : x.1 ≠ y.1) => hxy.symm)).mp h
  unfold gwVariable
  simp only [dedupLast_of_distinct obs h, dedupLast_of_distinct obs' h',
    sortByDate_perm_eq obs obs' hp h]

/-- **shift invariance of the series**: if the simulation starts `k` days later (all observation
dates, counted from the start, decrease by `k`), the series is the old one from day `k` on. -/
theorem gw_variable_shift (n k : Nat) (obs : List (Int × α)) (i : Nat) (hi : i < n) :
    (gwVariable n (shiftDates (-(k : Int)) obs))[i]? = (gwVariable (n + k) obs)[i + k]? := by
  rw [gwVariable_getElem n _ i hi, gwVariable_getElem (n + k) _ (i + k) (by omega)]
  rw [dedupLast_shift, sortByDate_shift]
  have e : Int.ofNat i = Int.ofNat (i + k) + (-(k : Int)) := by
    simp only [Int.ofNat_eq_natCast, Int.natCast_add]; omega
  rw [e, gwVarAt_shift]

/-! ## Non-vacuity (concrete series over ℚ) -/

/-- observations on day 1 (1 m) and day 3 (2 m) of a 5-day run: `NaN` on day 0, linear on day 2,
last value held on day 4. -/
example : gwVariable 5 [((1 : Int), (1 : ℚ)), (3, 2)] =
    [none, some 1, some (3 / 2), some 2, some 2] := by
  decide +kernel

/-- one observation 10 days before the start, one on day 5, one 9 days after the last day of an
11-day run: straight lines in time through all three. -/
example : gwVariable 11 [((-10 : Int), (1 : ℚ)), (5, 5/2), (20, 4)] =
    [some 2, some (21/10), some (11/5), some (23/10), some (12/5), some (5/2), some (13/5),
     some (27/10), some (14/5), some (29/10), some 3] := by
  decide +kernel

/-- `NaN` before the first observation, the last depth after the last one. -/
example : gwVariable 11 [((3 : Int), (1 : ℚ)), (7, 2)] =
    [none, none, none, some 1, some (5/4), some (3/2), some (7/4), some 2, some 2, some 2,
     some 2] := by
  decide +kernel

/-- rows out of date order and a repeated date (the later row, 3 m, wins). -/
example : gwVariable 5 [((4 : Int), (3 : ℚ)), (0, 1), (4, 2), (2, 5), (2, 3)] =
    [some 1, some 2, some 3, some (5/2), some 2] := by
  decide +kernel

/-- the hypotheses of `gw_variable_between` are satisfiable with `d0 < 0` and `d1 ≥ n`. -/
example : (gwVariable 3 [((7 : Int), (4 : ℚ)), (-2, 1)])[1]? =
    some (some ((4 - 1) / ((7 - (-2) : Int) : ℚ) * ((Int.ofNat 1 - (-2) : Int) : ℚ) + 1)) :=
  gw_variable_between 3 _ [((7 : Int), (4 : ℚ))] [] [] [((-2 : Int), (1 : ℚ))] (-2) 7 1 4 1
    (by decide) rfl (by simp) rfl (by simp) (by simp) (by decide) (by decide)

example : gwConstant 4 [((1 : Int), (1 : ℚ)), (3, 2)] = [some 1, some 1, some 1, some 2] := by
  simp [gwConstant, List.range, List.range.loop, gwConstAt]

end Aqua
