import AquaVerif.Proofs.PrepareGddTotal
/-
`prepare_gdd` and "no look-ahead" (property C14).

Each converted stage threshold is the mean / median, over ALL seasons in the window
`pl_date … time_span[-1]`, of the cumulative growing degrees at the stage's calendar-day position.
Hence extending the end of the simulation (appending the rows of a further season) changes the
thresholds used from the FIRST season on: for `SwitchGDD == 1` crops the initial state depends on
future weather by design.

  * `switchGdd_extension_changes_thresholds` — machine-checked witness over ℚ: the restriction of
    the no-look-ahead property to calendar-day crops is NECESSARY;
  * `prepareGdd_congr_seasons` — positive counterpart: the conversion depends on the rows only
    through the list of distinct labels and the per-season degree lists;
  * `cumsum_append_getElem?`, `prepareGdd_single_season_prefix` — within ONE season, appending
    rows of the same season leaves every threshold read at a non-negative position unchanged.
-/

namespace Aqua

/-! ## 1. the witness -/

/-- calendar-day positions 0, 1, 2, 3 -/
def lookaheadStages : GddStagesIn ℚ :=
  { emergenceCD := 0, canopy10PctCD := 1, maxRootingCD := 2, maxCanopyCD := 3,
    canopyDevEndCD := 3, senescenceCD := 3, maturityCD := 3, hiStartCD := 1, hiEndCD := 2,
    floweringEndCD := 2, hiStart := 1, hiEnd := 2 }

/-- previous attribute values (irrelevant for `'mean'`) -/
def lookaheadOld : GddStages ℚ :=
  { emergence := 0, canopy10Pct := 0, maxRooting := 0, maxCanopy := 0, canopyDevEnd := 0,
    senescence := 0, maturity := 0, hiStart := 0, hiEnd := 0, yieldFormation := 0,
    floweringEnd := 0, floweringDuration := 0 }

/-- season 0: four days of 1 degree-day -/
def lookaheadRows₁ : List (Option Nat × ℚ) := [(some 0, 1), (some 0, 1), (some 0, 1), (some 0, 1)]
/-- season 1: four days of 3 degree-days -/
def lookaheadExt : List (Option Nat × ℚ) := [(some 1, 3), (some 1, 3), (some 1, 3), (some 1, 3)]

/-- **look-ahead by design**: appending the rows of a further season to the window changes the
converted emergence threshold (1 → 2 degree-days), which is used from the first season on. -/
theorem switchGdd_extension_changes_thresholds :
    ∃ (rows₁ ext : List (Option Nat × ℚ)) (g₁ g₂ : GddStages ℚ),
      prepareGdd Rat.floor 2 true 0 lookaheadStages lookaheadOld rows₁ = .ok g₁ ∧
      prepareGdd Rat.floor 2 true 0 lookaheadStages lookaheadOld (rows₁ ++ ext) = .ok g₂ ∧
      g₁.emergence ≠ g₂.emergence := by
  refine ⟨lookaheadRows₁, lookaheadExt, _, _, rfl, rfl, ?_⟩
  norm_num [gddNpMean, npSum, npSumAux, npSumBlock, sumFrom, summarise]

/-! ## 2. the conversion sees the per-season degree lists only -/

variable {α : Type} [Field α] [LinearOrder α] [IsStrictOrderedRing α]

omit [LinearOrder α] [IsStrictOrderedRing α] in
theorem allSeasons_congr (toInt : α → Int) (cropType : Nat) (s : GddStagesIn α)
    {rows rows' : List (Option Nat × α)} (hs : ∀ k, seasonGdd rows k = seasonGdd rows' k)
    (ks : List (Option Nat)) :
    allSeasons toInt cropType s rows ks = allSeasons toInt cropType s rows' ks := by
  induction ks with
  | nil => rfl
  | cons k ks ih => simp only [allSeasons, hs k, ih]

omit [IsStrictOrderedRing α] in
/-- **seasons only**: two windows with the same distinct labels (in order of first appearance) and
the same degree list for every label give the same conversion — result or error. -/
theorem prepareGdd_congr_seasons (toInt : α → Int) (cropType : Nat) (hasCol : Bool) (sumFun : Nat)
    (s : GddStagesIn α) (old : GddStages α) {rows rows' : List (Option Nat × α)}
    (hl : uniqLabels (rows.map (·.1)) = uniqLabels (rows'.map (·.1)))
    (hs : ∀ k, seasonGdd rows k = seasonGdd rows' k) :
    prepareGdd toInt cropType hasCol sumFun s old rows =
      prepareGdd toInt cropType hasCol sumFun s old rows' := by
  unfold prepareGdd
  rw [hl, allSeasons_congr toInt cropType s hs]

/-! ## 3. one season: appended rows touch later positions only -/

omit [LinearOrder α] [IsStrictOrderedRing α] in
theorem cumsumFrom_append (acc : α) (a b : List α) :
    ∃ t, cumsumFrom acc (a ++ b) = cumsumFrom acc a ++ t := by
  induction a generalizing acc with
  | nil => exact ⟨cumsumFrom acc b, by simp [cumsumFrom]⟩
  | cons x xs ih =>
    obtain ⟨t, ht⟩ := ih (acc + x)
    exact ⟨t, by simp [cumsumFrom, ht]⟩

/-- the running sums of a list are a prefix of the running sums of every extension -/
theorem cumsum_append_getElem? (a b : List α) {i : Nat} {v : α} (h : (cumsum a)[i]? = some v) :
    (cumsum (a ++ b))[i]? = some v := by
  rw [cumsum_eq_cumsumFrom_zero] at h ⊢
  obtain ⟨t, ht⟩ := cumsumFrom_append 0 a b
  rw [ht]
  obtain ⟨hi, _⟩ := List.getElem?_eq_some_iff.mp h
  rw [List.getElem?_append_left hi]; exact h

theorem uniqLabels_const {l : List (Option Nat)} {c : Option Nat} (h : ∀ x ∈ l, x = c)
    (hne : l ≠ []) : uniqLabels l = [c] := by
  cases l with
  | nil => exact absurd rfl hne
  | cons x xs =>
    have hx : x = c := h x (by simp)
    subst hx
    simp only [uniqLabels, List.cons.injEq, true_and, List.filter_eq_nil_iff]
    intro y hy
    have : y = x := h y (by simp [(mem_uniqLabels xs y).mp hy])
    simp [this]

/-- **within one season**: if all rows of the window and all appended rows carry the same season
label, every threshold read at a non-negative calendar-day position (necessarily inside the shorter
window, since its conversion succeeded) is unchanged by the extension. -/
theorem prepareGdd_single_season_prefix {toInt : α → Int} {cropType : Nat} {hasCol : Bool}
    {sumFun : Nat} {s : GddStagesIn α} {old g₁ g₂ : GddStages α}
    {rows₁ ext : List (Option Nat × α)} {k : Nat}
    (h₁ : prepareGdd toInt cropType hasCol sumFun s old rows₁ = .ok g₁)
    (h₂ : prepareGdd toInt cropType hasCol sumFun s old (rows₁ ++ ext) = .ok g₂)
    (hne : rows₁ ≠ [])
    (hk₁ : ∀ r ∈ rows₁, r.1 = some k) (hk₂ : ∀ r ∈ ext, r.1 = some k)
    (hsf : sumFun = 0 ∨ sumFun = 1) (a : Stage) (ha : 0 ≤ toInt (a.cd s)) :
    a.val g₂ = a.val g₁ := by
  have hu₁ : uniqLabels (rows₁.map (·.1)) = [some k] :=
    uniqLabels_const (by simpa using hk₁) (by simpa using hne)
  have hu₂ : uniqLabels ((rows₁ ++ ext).map (·.1)) = [some k] := by
    apply uniqLabels_const
    · intro x hx
      simp only [List.map_append, List.mem_append, List.mem_map] at hx
      rcases hx with ⟨r, hr, rfl⟩ | ⟨r, hr, rfl⟩
      · exact hk₁ r hr
      · exact hk₂ r hr
    · simpa using fun h => absurd h hne
  have e₁ := prepareGdd_single_season h₁ hu₁ hsf a
  have e₂ := prepareGdd_single_season h₂ hu₂ hsf a
  rw [iloc_of_nonneg ha] at e₁ e₂
  have hsplit : seasonGdd (rows₁ ++ ext) (some k) =
      seasonGdd rows₁ (some k) ++ seasonGdd ext (some k) := by
    simp [seasonGdd, List.filter_append]
  rw [hsplit, cumsum_append_getElem? _ _ e₁] at e₂
  exact (Option.some.inj e₂).symm

end Aqua

#print axioms Aqua.switchGdd_extension_changes_thresholds
#print axioms Aqua.prepareGdd_congr_seasons
#print axioms Aqua.cumsum_append_getElem?
#print axioms Aqua.prepareGdd_single_season_prefix
