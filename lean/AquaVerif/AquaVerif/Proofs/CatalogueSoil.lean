import AquaVerif.Generated.SoilTable
import AquaVerif.Proofs.SoilBuild
import AquaVerif.Proofs.InitWC
import AquaVerif.Proofs.RunClosed

/-
Work package R, part 2 (**soil side**): the fields of `CfgOK` about the initial profile, for a
profile produced by the model of the profile builder (`soilProfile`, `Model/SoilBuild.lean`) from
layers satisfying the table obligation (in particular the built-in soils of
`Generated/SoilTable.lean`) and an initial water content produced by `initWC`
(`Model/InitWC.lean`, `Layer` method).

A. **the builder**: thicknesses stay positive under the deepening loop (`deepen_pos`); the profile
   rows carry the geometry of `SoilOut.geo` in metres (`GeoMatch`); every layer number is assigned
   by exactly one `add_layer` call (`assign_consistent`, new — the `Good` invariant of
   `Proofs/SoilBuild.lean` does not say it), hence the compartments of one layer share their
   hydraulic values (`soilProfile_layerFn`); compartment well-formedness (`Comp.WF`) from the
   specification of the layers (`SpecOK`).
B. **the initial water content**: `initWC` with the `Layer` method returns one value per
   compartment; with every layer named by a data point whose value lies within
   `[th_dry, th_s]` of that layer (`Prop` type: `WP`/`FC`/`SAT`; `Pct` type: `0 ≤ pct`,
   `wp + pct/100·(fc − wp) ≤ s`; `Num` type: the number itself) the result satisfies `ThiniOK`,
   without water table and with one (`F.round3` the identity, as for `realFn`: adjusted field
   capacity within `[th_fc, th_s]`, saturation below the table).
C. **the cells**: `initCells comps th fcAdj`, and for them `cells0` (`DrainPre`), `geom`
   (`TrGeom 0`), `aer0`, `pen`, `layers` (`TrLayersOK`), `thini` (`ThiniOK`): `soilInit_ok`.
-/

set_option linter.unusedSectionVars false
set_option linter.unusedVariables false
set_option linter.unusedSimpArgs false
namespace Aqua
open Aqua.Generated

/-! ## A. the builder -/

/-! ### A1. thicknesses stay positive -/

theorem deepenStep_pos (dz dz' : List Nat) (h : deepenStep dz = some dz')
    (hp : ∀ d ∈ dz, 0 < d) : ∀ d ∈ dz', 0 < d := by
  rcases deepenStep_spec dz dz' h with ⟨pre, d, post, rfl, rfl, _, _⟩ | ⟨_, pre, d, rfl, rfl⟩
  · intro x hx
    simp only [List.mem_append, List.mem_cons] at hx hp
    rcases hx with hx | rfl | hx
    · exact hp x (Or.inl hx)
    · omega
    · exact hp x (Or.inr (Or.inr hx))
  · intro x hx
    simp only [List.mem_append, List.mem_cons, List.not_mem_nil, or_false] at hx hp
    rcases hx with hx | rfl
    · exact hp x (Or.inl hx)
    · omega

theorem deepen_pos (more : Nat → Bool) (fuel : Nat) (dz dz' : List Nat) (k k' : Nat)
    (h : deepen more fuel dz k = .ok (dz', k')) (hp : ∀ d ∈ dz, 0 < d) : ∀ d ∈ dz', 0 < d := by
  induction fuel generalizing dz k with
  | zero =>
    unfold deepen at h
    by_cases hm : more (sumNat dz) = true
    · simp [hm] at h
    · simp only [hm, Bool.false_eq_true, if_false, Except.ok.injEq, Prod.mk.injEq] at h
      obtain ⟨rfl, _⟩ := h
      exact hp
  | succ fuel ih =>
    unfold deepen at h
    by_cases hm : more (sumNat dz) = true
    · simp only [hm, if_true] at h
      cases hb : deepenStep dz with
      | none => simp [hb] at h
      | some dz1 =>
        simp only [hb] at h
        exact ih dz1 (k + 1) h (deepenStep_pos dz dz1 hb hp)
    · simp only [hm, Bool.false_eq_true, if_false, Except.ok.injEq, Prod.mk.injEq] at h
      obtain ⟨rfl, _⟩ := h
      exact hp

/-! ### A2. every layer number is assigned by one `add_layer` call -/

/-- no two entries of the column carry the same layer number with different call indices -/
def AsgConsistent (col : List Asg) : Prop :=
  ∀ l c c', some (l, c) ∈ col → some (l, c') ∈ col → c = c'

theorem mem_zipAsg (f : Nat → Asg → Asg) : ∀ (ss : List Nat) (col : List Asg) (x : Asg),
    x ∈ zipAsg f ss col → ∃ s a, a ∈ col ∧ x = f s a
  | [], _, x, h => by simp [zipAsg] at h
  | _ :: _, [], x, h => by simp [zipAsg] at h
  | s :: ss, a :: as, x, h => by
    simp only [zipAsg, List.mem_cons] at h
    rcases h with rfl | h
    · exact ⟨s, a, by simp, rfl⟩
    · obtain ⟨s', a', ha, e⟩ := mem_zipAsg f ss as x h
      exact ⟨s', a', List.mem_cons_of_mem _ ha, e⟩

theorem Good.num_le {j k : Nat} {col : List Asg} (h : Good j k col) :
    ∀ l c, some (l, c) ∈ col → l ≤ k := by
  intro l c hm
  have hs := h.stair
  have : l ∈ nums col := by
    unfold nums
    exact List.mem_filterMap.mpr ⟨some (l, c), hm, rfl⟩
  exact (hs.mem l this).2.1

/-- a call that writes `(k+1, call)` into unassigned rows of a column whose numbers are `≤ k` -/
theorem zipAsg_consistent (p : Nat → Bool) (k call : Nat) (ss : List Nat) (col : List Asg)
    (hc : AsgConsistent col) (hle : ∀ l c, some (l, c) ∈ col → l ≤ k) :
    AsgConsistent (zipAsg (fun s a => if p s && a.isNone then some (k + 1, call) else a) ss col) := by
  intro l c c' h1 h2
  obtain ⟨s1, a1, ha1, e1⟩ := mem_zipAsg _ ss col _ h1
  obtain ⟨s2, a2, ha2, e2⟩ := mem_zipAsg _ ss col _ h2
  try dsimp only at e1 e2
  by_cases q1 : (p s1 && a1.isNone) = true
  · rw [if_pos q1] at e1
    simp only [Option.some.injEq, Prod.mk.injEq] at e1
    by_cases q2 : (p s2 && a2.isNone) = true
    · rw [if_pos q2] at e2
      simp only [Option.some.injEq, Prod.mk.injEq] at e2
      rw [e1.2, e2.2]
    · rw [if_neg q2] at e2
      have := hle l c' (e2 ▸ ha2)
      omega
  · rw [if_neg q1] at e1
    by_cases q2 : (p s2 && a2.isNone) = true
    · rw [if_pos q2] at e2
      simp only [Option.some.injEq, Prod.mk.injEq] at e2
      have := hle l c (e1 ▸ ha1)
      omega
    · rw [if_neg q2] at e2
      exact hc l c c' (e1 ▸ ha1) (e2 ▸ ha2)

theorem zipAsg_first_consistent (p : Nat → Bool) (call : Nat) (ss : List Nat) (n : Nat) :
    AsgConsistent (zipAsg (fun s a => if p s then some (1, call) else a) ss
      (List.replicate n none)) := by
  intro l c c' h1 h2
  obtain ⟨s1, a1, ha1, e1⟩ := mem_zipAsg _ ss _ _ h1
  obtain ⟨s2, a2, ha2, e2⟩ := mem_zipAsg _ ss _ _ h2
  have n1 : a1 = none := (List.mem_replicate.mp ha1).2
  have n2 : a2 = none := (List.mem_replicate.mp ha2).2
  subst n1 n2
  try dsimp only at e1 e2
  split_ifs at e1 e2
  · simp only [Option.some.injEq, Prod.mk.injEq] at e1 e2
    rw [e1.2, e2.2]

theorem addLayer_consistent {τ : Type} (ge1 : τ → Nat → Bool) (ge2 : τ → Nat → Nat → Bool)
    (ss : List Nat) (col col' : List Asg) (k call : Nat) (t : τ) (hg : Good 0 k col)
    (hc : AsgConsistent col) (h : addLayer ge1 ge2 ss col call t = .ok col') :
    AsgConsistent col' := by
  unfold addLayer at h
  simp only [hg.numAssigned] at h
  by_cases hk : k = 0
  · subst hk
    simp only [Nat.zero_add, if_true, Except.ok.injEq] at h
    rw [← h, hg.zero_zero]
    exact zipAsg_first_consistent _ call ss _
  · have hk' : ¬ (k + 1 = 1) := by omega
    simp only [hk', if_false, Nat.add_sub_cancel] at h
    split at h
    · cases h
    · rename_i last _
      simp only [Except.ok.injEq] at h
      rw [← h]
      exact zipAsg_consistent _ k call ss col hc hg.num_le

theorem addLayers_consistent {τ : Type} (ge1 : τ → Nat → Bool) (ge2 : τ → Nat → Nat → Bool)
    (h1 : ∀ t, Anti (ge1 t)) (h2 : ∀ t l, Anti (ge2 t l))
    (ss : List Nat) (hs : Mono ss) (ts : List τ) :
    ∀ (col col' : List Asg) (k call : Nat), col.length = ss.length → Good 0 k col →
      AsgConsistent col → addLayers ge1 ge2 ss col call ts = .ok col' → AsgConsistent col' := by
  induction ts with
  | nil =>
    intro col col' k call _ _ hc h
    simp only [addLayers, Except.ok.injEq] at h
    rw [← h]; exact hc
  | cons t ts ih =>
    intro col col' k call hl hg hc h
    obtain ⟨col1, e1, l1, g1⟩ := addLayer_good ge1 ge2 h1 h2 ss hs col hl k call t hg
    have c1 := addLayer_consistent ge1 ge2 ss col col1 k call t hg hc e1
    simp only [addLayers, e1] at h
    rcases g1 with g | g
    · exact ih col1 col' k (call + 1) l1 g c1 h
    · exact ih col1 col' (k + 1) (call + 1) l1 g c1 h

theorem mem_ffillFrom : ∀ (col : List Asg) (prev x : Asg), x ∈ ffillFrom prev col →
    x = prev ∨ x ∈ col
  | [], _, x, h => by simp [ffillFrom] at h
  | a :: as, prev, x, h => by
    cases a with
    | some y =>
      simp only [ffillFrom, List.mem_cons] at h
      rcases h with rfl | h
      · right; simp
      · rcases mem_ffillFrom as (some y) x h with e | e
        · right; rw [e]; simp
        · right; exact List.mem_cons_of_mem _ e
    | none =>
      simp only [ffillFrom, List.mem_cons] at h
      rcases h with rfl | h
      · left; rfl
      · rcases mem_ffillFrom as prev x h with e | e
        · left; exact e
        · right; exact List.mem_cons_of_mem _ e

theorem mem_allSome : ∀ (col : List Asg) (r : List (Nat × Nat)), allSome col = .ok r →
    ∀ x ∈ r, some x ∈ col
  | [], r, h => by simp only [allSome, Except.ok.injEq] at h; subst h; simp
  | none :: as, r, h => by simp [allSome] at h
  | some y :: as, r, h => by
    simp only [allSome] at h
    split at h
    · cases h
    · rename_i r' hr
      simp only [Except.ok.injEq] at h
      subst h
      intro x hx
      simp only [List.mem_cons] at hx
      rcases hx with rfl | hx
      · simp
      · exact List.mem_cons_of_mem _ (mem_allSome as r' hr x hx)

/-- **in the assignment `add_layer`+`fill_nan` returns, a layer number determines the call that
assigned it** (non-decreasing bottoms, antitone comparisons) -/
theorem assign_consistent {τ : Type} (ge1 : τ → Nat → Bool) (ge2 : τ → Nat → Nat → Bool)
    (h1 : ∀ t, Anti (ge1 t)) (h2 : ∀ t l, Anti (ge2 t l)) (ss : List Nat) (hs : Mono ss)
    (ts : List τ) (r : List (Nat × Nat)) (h : assignLayersG ge1 ge2 ss ts = .ok r) :
    ∀ l c c', (l, c) ∈ r → (l, c') ∈ r → c = c' := by
  unfold assignLayersG at h
  have hn : (ss.map (fun _ => (none : Asg))) = List.replicate ss.length none := by
    induction ss with
    | nil => rfl
    | cons s ss ih => simp [List.replicate_succ]
  split at h
  · cases h
  · rename_i col hcol
    have hc0 : AsgConsistent (ss.map (fun _ => (none : Asg))) := by
      intro l c c' hm _
      rw [hn] at hm
      have := (List.mem_replicate.mp hm).2
      cases this
    have hc := addLayers_consistent ge1 ge2 h1 h2 ss hs ts _ col 0 0 (by simp)
      (by rw [hn]; exact Good.nones 0 _) hc0 hcol
    intro l c c' m1 m2
    have a1 := mem_allSome _ r h _ m1
    have a2 := mem_allSome _ r h _ m2
    rcases mem_ffillFrom col none _ a1 with e | e
    · cases e
    · rcases mem_ffillFrom col none _ a2 with e' | e'
      · cases e'
      · exact hc l c c' e e'

variable {α : Type} [Field α] [LinearOrder α] [IsStrictOrderedRing α]

/-! ### A3. geometry of the profile rows -/

/-- the profile rows carry `dz`, `dzsum` of the geometry, in metres (row by row; the rows may be
fewer than the geometry entries) -/
def GeoMatch : List (Comp α) → List GComp → Prop
  | [], _ => True
  | c :: cs, g :: gs => c.dz = cmToM g.dz ∧ c.dzsum = cmToM g.dzsum ∧ GeoMatch cs gs
  | _ :: _, [] => False

theorem mkComps_geoMatch {τ : Type} (F : Fn α) (specs : List (LayerSpec α τ)) :
    ∀ (geo : List GComp) (lay : List (Nat × Nat)) (cs : List (Comp α)),
      mkComps F specs geo lay = .ok cs → GeoMatch cs geo
  | [], _, cs, h => by
    simp only [mkComps, Except.ok.injEq] at h; subst h; trivial
  | _ :: _, [], cs, h => by
    simp only [mkComps, Except.ok.injEq] at h; subst h; trivial
  | g :: gs, (l, k) :: ls, cs, h => by
    simp only [mkComps] at h
    cases hs : nthSpec specs k with
    | none => simp [hs] at h
    | some sp =>
      simp only [hs] at h
      cases hr : mkComps F specs gs ls with
      | error e => simp [hr] at h
      | ok r =>
        simp only [hr, Except.ok.injEq] at h
        subst h
        exact ⟨rfl, rfl, mkComps_geoMatch F specs gs ls r hr⟩

theorem addCR_geoMatch (F : Fn α) (all : List (Comp α)) :
    ∀ (cs cs' : List (Comp α)) (geo : List GComp), addCR F all cs = some cs' →
      GeoMatch cs geo → GeoMatch cs' geo
  | [], cs', _, h, _ => by simp only [addCR, Option.some.injEq] at h; subst h; trivial
  | c :: cs, cs', [], _, hm => hm.elim
  | c :: cs, cs', g :: gs, h, hm => by
    simp only [addCR] at h
    split at h
    · cases h
    · split at h
      · cases h
      · rename_i r hr
        simp only [Option.some.injEq] at h
        subst h
        exact ⟨hm.1, hm.2.1, addCR_geoMatch F all cs r gs hr hm.2.2⟩

/-- the rows of a successfully built profile carry the final geometry, whose `dzsum` is the
running sum of thicknesses that are all positive when the given ones are -/
theorem soilProfile_geoMatch {τ : Type} (F : Fn α) (ge1 : τ → Nat → Bool)
    (ge2 : τ → Nat → Nat → Bool) (more : Nat → Bool) (fuel : Nat) (dz : List Nat)
    (specs : List (LayerSpec α τ)) (wt adjRew calcCN : Bool) (rew zSurf cn zTopArg : α)
    (o : SoilOut α) (hp : ∀ d ∈ dz, 0 < d)
    (h : soilProfile F ge1 ge2 more fuel dz specs wt adjRew calcCN rew zSurf cn zTopArg = .ok o) :
    GeoMatch o.comps o.geo ∧ o.geo.map (·.dzsum) = prefixSums 0 (o.geo.map (·.dz)) ∧
      ∀ g ∈ o.geo, 0 < g.dz := by
  have hgeo := (soilProfile_geometry F ge1 ge2 more fuel dz specs wt adjRew calcCN rew zSurf cn
    zTopArg o h).2.2.1
  unfold soilProfile at h
  split at h
  · cases h
  · rename_i d0 ds
    simp only [] at h
    split at h
    · cases h
    · split at h
      · cases h
      · rename_i dz' k hd
        have hpos := deepen_pos more _ _ dz' 0 k hd hp
        obtain ⟨_, r2, _⟩ := deepen_reaches more _ _ dz' 0 k hd
        have hlen : (buildGeometry (d0 :: ds)).length = dz'.length := by
          rw [r2]; exact buildGeoFrom_length 0 _
        have hr := refreshFrom_dzsum 0 (buildGeometry (d0 :: ds)) dz' hlen
        split at h
        · cases h
        · rename_i comps0 hc0
          have hm0 := mkComps_geoMatch F specs _ _ comps0 hc0
          split at h
          · cases h
          · rename_i comps hcomps
            have hm : GeoMatch comps (refreshFrom 0 (buildGeometry (d0 :: ds)) dz') := by
              by_cases hw : wt = true
              · simp only [hw, if_true] at hcomps
                exact addCR_geoMatch F comps0 comps0 comps _ hcomps hm0
              · simp only [hw, Bool.false_eq_true, if_false, Option.some.injEq] at hcomps
                subst hcomps; exact hm0
            split at h
            · cases h
            · split at h
              · cases h
              · simp only [Except.ok.injEq] at h
                subst h
                refine ⟨hm, hgeo, ?_⟩
                intro g hg
                have : g.dz ∈ (refreshFrom 0 (buildGeometry (d0 :: ds)) dz').map (·.dz) :=
                  List.mem_map_of_mem hg
                rw [hr.2] at this
                exact hpos _ this

/-! ### A4. the specification of the layers -/

/-- what the arguments of one `add_layer` call have to satisfy (`add_layer` validates nothing):
`0 < wp < fc < s`, `0 ≤ Ksat`, `0 ≤ penetrability ≤ 100` -/
def SpecOK {τ : Type} (sp : LayerSpec α τ) : Prop :=
  0 < sp.wp ∧ sp.wp < sp.fc ∧ sp.fc < sp.s ∧ 0 ≤ sp.ksat ∧ 0 ≤ sp.pen ∧ sp.pen ≤ 100

theorem nthSpec_mem {τ : Type} : ∀ (specs : List (LayerSpec α τ)) (k : Nat) (sp : LayerSpec α τ),
    nthSpec specs k = some sp → sp ∈ specs
  | [], _, _, h => by simp [nthSpec] at h
  | x :: _, 0, sp, h => by simp only [nthSpec, Option.some.injEq] at h; subst h; simp
  | _ :: xs, n + 1, sp, h => by
    simp only [nthSpec] at h
    exact List.mem_cons_of_mem _ (nthSpec_mem xs n sp h)

theorem hydMatch_mem {τ : Type} (F : Fn α) (specs : List (LayerSpec α τ)) :
    ∀ (cs : List (Comp α)) (lay : List (Nat × Nat)), HydMatch F specs cs lay →
      ∀ c ∈ cs, ∃ lk ∈ lay, CompOf F specs c lk
  | [], _, _, c, hc => by simp at hc
  | _ :: _, [], h, _, _ => h.elim
  | c0 :: cs, lk :: ls, h, c, hc => by
    simp only [List.mem_cons] at hc
    rcases hc with rfl | hc
    · exact ⟨lk, by simp, h.1⟩
    · obtain ⟨lk', hl, hco⟩ := hydMatch_mem F specs cs ls h.2 c hc
      exact ⟨lk', List.mem_cons_of_mem _ hl, hco⟩

/-- a compartment captured by a call with `SpecOK` arguments -/
theorem compOf_facts {τ : Type} (F : Fn α) (specs : List (LayerSpec α τ)) (c : Comp α)
    (lk : Nat × Nat) (h : CompOf F specs c lk) (hspec : ∀ sp ∈ specs, SpecOK sp) :
    0 ≤ c.thDry ∧ c.thDry ≤ c.thWP ∧ c.thWP < c.thFC ∧ c.thFC < c.thS ∧ 0 ≤ c.tau ∧ c.tau ≤ 1 ∧
      0 ≤ c.ksat ∧ 0 ≤ c.pen ∧ c.pen ≤ 100 := by
  obtain ⟨_, sp, hsp, e1, e2, e3, e4, e5, e6, e7⟩ := h
  obtain ⟨p1, p2, p3, p4, p5, p6⟩ := hspec sp (nthSpec_mem specs lk.2 sp hsp)
  have ht := tauOf_bounds F sp.ksat
  rw [e1, e2, e3, e4, e5, e6, e7]
  exact ⟨by linarith, by linarith, p2, p3, ht.1, ht.2, p4, p5, p6⟩

/-- the layer functions of a profile: wilting point, field capacity, saturation by layer number -/
structure LayerFn (cs : List (Comp α)) (wp fc s : Nat → α) : Prop where
  wp : ∀ c ∈ cs, c.thWP = wp c.layer
  fc : ∀ c ∈ cs, c.thFC = fc c.layer
  s : ∀ c ∈ cs, c.thS = s c.layer

/-- the call that assigned layer `l` -/
def callOf (lay : List (Nat × Nat)) (l : Nat) : Option Nat :=
  (lay.find? (fun lk => lk.1 == l)).map Prod.snd

theorem callOf_eq {lay : List (Nat × Nat)} (hc : ∀ l c c', (l, c) ∈ lay → (l, c') ∈ lay → c = c')
    {l k : Nat} (h : (l, k) ∈ lay) : callOf lay l = some k := by
  unfold callOf
  cases hf : lay.find? (fun lk => lk.1 == l) with
  | none =>
    have := List.find?_eq_none.mp hf (l, k) h
    simp at this
  | some x =>
    have hm := List.mem_of_find?_eq_some hf
    have hx := List.find?_some hf
    simp only [beq_iff_eq] at hx
    obtain ⟨x1, x2⟩ := x
    simp only at hx
    subst hx
    simp only [Option.map_some, Option.some.injEq]
    exact hc _ _ _ hm h

/-- **the compartments of one layer share their hydraulic values**, every compartment is
well-formed (`SpecOK` layers, positive thicknesses), the layer numbers climb from 1 -/
theorem soilProfile_facts {τ : Type} (F : Fn α) (ge1 : τ → Nat → Bool)
    (ge2 : τ → Nat → Nat → Bool) (h1 : ∀ t, Anti (ge1 t)) (h2 : ∀ t l, Anti (ge2 t l))
    (more : Nat → Bool) (fuel : Nat) (dz : List Nat)
    (specs : List (LayerSpec α τ)) (wt adjRew calcCN : Bool) (rew zSurf cn zTopArg : α)
    (o : SoilOut α) (hspec : ∀ sp ∈ specs, SpecOK sp)
    (h : soilProfile F ge1 ge2 more fuel dz specs wt adjRew calcCN rew zSurf cn zTopArg = .ok o) :
    (∃ wp fc s : Nat → α, LayerFn o.comps wp fc s) ∧
    (∀ c ∈ o.comps, 0 ≤ c.thDry ∧ c.thDry ≤ c.thWP ∧ c.thWP < c.thFC ∧ c.thFC < c.thS ∧
      0 ≤ c.tau ∧ c.tau ≤ 1 ∧ 0 ≤ c.ksat ∧ 0 ≤ c.pen ∧ c.pen ≤ 100) ∧
    ∃ lay k, HydMatch F specs o.comps lay ∧ Stair 0 k (lay.map Prod.fst) := by
  obtain ⟨lay, hlay, _, hm⟩ := deepen_keeps_layers F ge1 ge2 more fuel dz specs wt adjRew calcCN rew
    zSurf cn zTopArg o h
  have hmono : Mono ((buildGeometry dz).map (·.dzsum)) := by
    simp only [buildGeometry]; rw [buildGeoFrom_dzsum]; exact prefixSums_mono 0 dz
  have hcons := assign_consistent ge1 ge2 h1 h2 _ hmono _ lay hlay
  obtain ⟨_, k, hst⟩ := layers_contiguous_general ge1 ge2 h1 h2 _ hmono _ lay hlay
  have hmem := hydMatch_mem F specs o.comps lay hm
  refine ⟨?_, ?_, lay, k, hm, hst⟩
  · let spOf : Nat → Option (LayerSpec α τ) := fun l => (callOf lay l).bind (nthSpec specs)
    refine ⟨fun l => match spOf l with | some sp => sp.wp | none => 0,
      fun l => match spOf l with | some sp => sp.fc | none => 0,
      fun l => match spOf l with | some sp => sp.s | none => 0, ?_, ?_, ?_⟩
    all_goals
      intro c hc
      obtain ⟨lk, hl, hl1, sp, hsp, e1, e2, e3, _⟩ := hmem c hc
      have hco : callOf lay c.layer = some lk.2 := by
        apply callOf_eq hcons
        rw [hl1]; exact hl
      have : spOf c.layer = some sp := by
        show (callOf lay c.layer).bind (nthSpec specs) = some sp
        rw [hco]; exact hsp
      simp only [this]
      assumption
  · intro c hc
    obtain ⟨lk, _, hco⟩ := hmem c hc
    exact compOf_facts F specs c lk hco hspec

/-! ### A5. the built-in soils -/

/-- the table obligation strengthened by what `DrainPre` needs beyond `LayerOK`: `th_fc < th_s`
strictly -/
def LayerOK' (l : BLayer) : Prop := LayerOK l ∧ l.fc < l.s

instance (l : BLayer) : Decidable (LayerOK' l) := by unfold LayerOK'; infer_instance

/-- every layer of the built-in soils, as the repository builds them now, satisfies it -/
theorem builtinLayersGen_ok' : ∀ l ∈ builtinLayersGen, LayerOK' l := by
  intro l hl
  refine ⟨builtinLayersGen_ok l hl, ?_⟩
  revert l
  simp only [builtinLayersGen, List.mem_cons, List.not_mem_nil, or_false, forall_eq_or_imp,
    forall_eq]
  norm_num

/-- the `add_layer` arguments of a table layer (thickness in cm as given; penetrability 100 as in
every built-in soil of `soil.py`) -/
def BLayer.toSpec (l : BLayer) (thickCm : Nat) : LayerSpec α Nat :=
  { thick := thickCm, wp := (l.wp : α), fc := (l.fc : α), s := (l.s : α), ksat := (l.ksat : α),
    pen := 100 }

theorem specOK_of_layerOK' {l : BLayer} (h : LayerOK' l) (thickCm : Nat) :
    SpecOK (l.toSpec thickCm : LayerSpec α Nat) := by
  obtain ⟨⟨h1, h2, h3, h4, h5, h6, h7, h8, h9⟩, h10⟩ := h
  have hwp : (0 : ℚ) < l.wp := lt_trans h1 h2
  refine ⟨?_, ?_, ?_, ?_, ?_, ?_⟩
  · show (0 : α) < ((l.wp : ℚ) : α); exact_mod_cast hwp
  · show ((l.wp : ℚ) : α) < ((l.fc : ℚ) : α); exact_mod_cast h3
  · show ((l.fc : ℚ) : α) < ((l.s : ℚ) : α); exact_mod_cast h10
  · show (0 : α) ≤ ((l.ksat : ℚ) : α); exact_mod_cast h8.le
  · show (0 : α) ≤ 100; norm_num
  · show (100 : α) ≤ 100; exact le_refl _

/-- hence the layers of every built-in soil satisfy `SpecOK` -/
theorem specOK_of_builtin {l : BLayer} (h : l ∈ builtinLayersGen) (thickCm : Nat) :
    SpecOK (l.toSpec thickCm : LayerSpec α Nat) :=
  specOK_of_layerOK' (builtinLayersGen_ok' l h) thickCm


/-! ## B. the initial water content (`Layer` method) -/

section iwc
variable {α : Type} [Field α] [LinearOrder α] [IsStrictOrderedRing α]

/-- one value per compartment, within `[th_dry, th_s]` -/
def ThBound (cs : List (Comp α)) (vs : List α) : Prop :=
  List.Forall₂ (fun c v => c.thDry ≤ v ∧ v ≤ c.thS) cs vs

/-- one value per compartment, within `[th_fc, th_s]` -/
def FcBound (cs : List (Comp α)) (vs : List α) : Prop :=
  List.Forall₂ (fun c v => c.thFC ≤ v ∧ v ≤ c.thS) cs vs

theorem ThBound.thiniOK : ∀ {cs : List (Comp α)} {vs : List α}, ThBound cs vs → ThiniOK cs vs
  | [], [], _ => trivial
  | c :: cs, v :: vs, h => by
    cases h with
    | cons h1 h2 => exact ⟨h1.1, h1.2, ThBound.thiniOK h2⟩

theorem FcBound.thBound {cs : List (Comp α)} {vs : List α} (h : FcBound cs vs)
    (hwf : ∀ c ∈ cs, c.thDry ≤ c.thFC) : ThBound cs vs := by
  induction h with
  | nil => exact List.Forall₂.nil
  | @cons c v cs vs h1 _ ih =>
    exact List.Forall₂.cons ⟨le_trans (hwf c (by simp)) h1.1, h1.2⟩
      (ih (fun c' hc' => hwf c' (List.mem_cons_of_mem _ hc')))

theorem forall₂_map_self {β : Type} (R : Comp α → β → Prop) (f : Comp α → β) :
    ∀ cs : List (Comp α), (∀ c ∈ cs, R c (f c)) → List.Forall₂ R cs (cs.map f)
  | [], _ => List.Forall₂.nil
  | c :: cs, h => List.Forall₂.cons (h c (by simp))
      (forall₂_map_self R f cs (fun c' hc' => h c' (List.mem_cons_of_mem _ hc')))

/-- the data points, as (layer, value) pairs: every compartment's layer is named, and every value
lies within the limits of the compartments of the layer it names -/
structure PointsOK (cs : List (Comp α)) (lv : List (Nat × α)) : Prop where
  named : ∀ c ∈ cs, ∃ p ∈ lv, p.1 = c.layer
  bound : ∀ p ∈ lv, ∀ c ∈ cs, c.layer = p.1 → c.thDry ≤ p.2 ∧ p.2 ≤ c.thS

theorem layerValue_bounds (l : Nat) (lo hi : α) : ∀ (lv : List (Nat × α)) (d : α),
    (∀ p ∈ lv, p.1 = l → lo ≤ p.2 ∧ p.2 ≤ hi) → ((∃ p ∈ lv, p.1 = l) ∨ (lo ≤ d ∧ d ≤ hi)) →
      lo ≤ layerValue l lv d ∧ layerValue l lv d ≤ hi
  | [], d, _, hd => by
    rcases hd with ⟨p, hp, _⟩ | hd
    · simp at hp
    · simpa [layerValue] using hd
  | (l', v) :: rest, d, hb, hd => by
    simp only [layerValue]
    apply layerValue_bounds l lo hi rest
    · exact fun p hp => hb p (List.mem_cons_of_mem _ hp)
    · by_cases e : l = l'
      · right
        simp only [e, beq_self_eq_true, if_true]
        exact hb (l', v) (by simp) e.symm
      · have e' : (l == l') = false := by simpa using e
        simp only [e', Bool.false_eq_true, if_false]
        rcases hd with ⟨p, hp, hl⟩ | hd
        · simp only [List.mem_cons] at hp
          rcases hp with rfl | hp
          · exact absurd hl.symm e
          · exact Or.inl ⟨p, hp, hl⟩
        · exact Or.inr hd

theorem pointsOK_thBound {cs : List (Comp α)} {lv : List (Nat × α)} (h : PointsOK cs lv) :
    ThBound cs (cs.map (fun c => layerValue c.layer lv 0)) := by
  apply forall₂_map_self
  intro c hc
  exact layerValue_bounds c.layer c.thDry c.thS lv 0
    (fun p hp hl => h.bound p hp c hc hl.symm) (Or.inl (h.named c hc))

/-- the pairs `pointValues` produces: layer of the point, value of the point -/
theorem pointValues_pairs (ty : WcType) (me : WcMethod) (cs : List (Comp α)) :
    ∀ (pts : List (WcPoint α)) (vals : List α), pointValues ty me cs pts = .ok vals →
      (∀ q ∈ (pts.map (·.lay)).zip vals, ∃ p ∈ pts, p.lay = q.1 ∧ pointValue ty me cs p = .ok q.2) ∧
      (∀ p ∈ pts, ∃ q ∈ (pts.map (·.lay)).zip vals, q.1 = p.lay)
  | [], vals, h => by
    simp only [pointValues, Except.ok.injEq] at h
    subst h
    simp
  | p :: ps, vals, h => by
    simp only [pointValues] at h
    cases hv : pointValue ty me cs p with
    | error e => simp [hv] at h
    | ok v =>
      simp only [hv] at h
      cases hvs : pointValues ty me cs ps with
      | error e => simp [hvs] at h
      | ok vs =>
        simp only [hvs, Except.ok.injEq] at h
        subst h
        obtain ⟨i1, i2⟩ := pointValues_pairs ty me cs ps vs hvs
        constructor
        · intro q hq
          simp only [List.map_cons, List.zip_cons_cons, List.mem_cons] at hq
          rcases hq with rfl | hq
          · exact ⟨p, by simp, rfl, hv⟩
          · obtain ⟨p', hp', e⟩ := i1 q hq
            exact ⟨p', List.mem_cons_of_mem _ hp', e⟩
        · intro p' hp'
          simp only [List.mem_cons] at hp'
          rcases hp' with rfl | hp'
          · exact ⟨(p'.lay, v), by simp, rfl⟩
          · obtain ⟨q, hq, e⟩ := i2 p' hp'
            exact ⟨q, by simp [hq], e⟩

/-- **what a `Layer` specification has to satisfy, point by point**:
`Prop`: one of `WP`, `FC`, `SAT`; `Pct`: `0 ≤ pct` and `wp + pct/100·(fc − wp) ≤ s` (in particular
`0 ≤ pct ≤ 100`); `Num`: the number within `[th_dry, th_s]` of the layer -/
def PointSpecOK (cs : List (Comp α)) (wp fc s : Nat → α) (ty : WcType) (p : WcPoint α) : Prop :=
  match ty with
  | .prop => p.prop ≠ .other
  | .pct => 0 ≤ p.num ∧ wp p.lay + p.num / 100 * (fc p.lay - wp p.lay) ≤ s p.lay
  | .num => ∀ c ∈ cs, c.layer = p.lay → c.thDry ≤ p.num ∧ p.num ≤ c.thS

theorem pointSpecOK_pct_of_le_100 (cs : List (Comp α)) {wp fc s : Nat → α} {p : WcPoint α}
    (h0 : 0 ≤ p.num) (h1 : p.num ≤ 100) (hwf : wp p.lay ≤ fc p.lay) (hfs : fc p.lay ≤ s p.lay) :
    PointSpecOK cs wp fc s .pct p := by
  refine ⟨h0, ?_⟩
  have hq : p.num / 100 ≤ 1 := by rw [div_le_one (by norm_num)]; exact h1
  have := mul_le_mul_of_nonneg_right hq (sub_nonneg.mpr hwf)
  linarith

/-- the (layer, value) pairs of a specification satisfying `PointSpecOK` that names every layer -/
theorem pointsOK_of_spec {cs : List (Comp α)} {wp fc s : Nat → α} (hL : LayerFn cs wp fc s)
    (hwf : ∀ c ∈ cs, c.thDry ≤ c.thWP ∧ c.thWP ≤ c.thFC ∧ c.thFC ≤ c.thS) (ty : WcType)
    (pts : List (WcPoint α)) (vals : List α)
    (hnamed : ∀ c ∈ cs, ∃ p ∈ pts, p.lay = c.layer)
    (hspec : ∀ p ∈ pts, PointSpecOK cs wp fc s ty p)
    (hv : pointValues ty .layer cs pts = .ok vals) :
    PointsOK cs ((pts.map (·.lay)).zip vals) := by
  obtain ⟨i1, i2⟩ := pointValues_pairs ty .layer cs pts vals hv
  constructor
  · intro c hc
    obtain ⟨p, hp, e⟩ := hnamed c hc
    obtain ⟨q, hq, e'⟩ := i2 p hp
    exact ⟨q, hq, by rw [e', e]⟩
  · intro q hq c hc hl
    obtain ⟨p, hp, e, hval⟩ := i1 q hq
    have hs := hspec p hp
    obtain ⟨w1, w2, w3⟩ := hwf c hc
    have hlay : c.layer = p.lay := by rw [hl, e]
    have hrow : hydRow p.lay cs = some (wp p.lay, fc p.lay, s p.lay) :=
      hydRow_const p.lay cs _ _ _ ⟨c, hc, hlay⟩ (fun c' hc' hl' => by
        rw [hL.wp c' hc', hL.fc c' hc', hL.s c' hc', hl']
        exact ⟨rfl, rfl, rfl⟩)
    have ewp : c.thWP = wp p.lay := by rw [hL.wp c hc, hlay]
    have efc : c.thFC = fc p.lay := by rw [hL.fc c hc, hlay]
    have es : c.thS = s p.lay := by rw [hL.s c hc, hlay]
    cases ty with
    | num =>
      rw [pointValue_num] at hval
      rw [← Except.ok.inj hval]
      exact hs c hc hlay
    | pct =>
      rw [pointValue_layer_pct cs p _ _ _ hrow] at hval
      rw [← Except.ok.inj hval]
      obtain ⟨s1, s2⟩ := hs
      have hq0 : 0 ≤ p.num / 100 := div_nonneg s1 (by norm_num)
      have hwf' : wp p.lay ≤ fc p.lay := by rw [← ewp, ← efc]; exact w2
      have := mul_nonneg hq0 (sub_nonneg.mpr hwf')
      have hw1 : c.thDry ≤ wp p.lay := by rw [← ewp]; exact w1
      constructor
      · linarith
      · rw [es]; exact s2
    | prop =>
      rw [pointValue_layer_prop cs p _ _ _ hrow] at hval
      rw [← Except.ok.inj hval]
      have hs' : p.prop ≠ .other := hs
      cases hpp : p.prop with
      | sat => simp only; rw [← es]; exact ⟨by linarith, le_refl _⟩
      | fc => simp only; rw [← efc]; exact ⟨by linarith, w3⟩
      | wp => simp only; rw [← ewp]; exact ⟨w1, by linarith⟩
      | other => exact absurd hpp hs'

/-! ### the adjusted field capacity with a water table -/

theorem xmaxOf_pos {F : Fn α} (hF : ∀ x, 0 < F.exp x) (fc : α) : 0 < xmaxOf F fc := by
  unfold xmaxOf
  split_ifs
  · exact one_pos
  · norm_num
  · exact div_pos (hF _) (by norm_num)

theorem fcAdjUp_bound {F : Fn α} (hF : ∀ x, 0 < F.exp x) (hS : PowSqLaw F) (zgw : α) :
    ∀ rs : List (Comp α), (∀ c ∈ rs, c.thFC ≤ c.thS) →
      List.Forall₂ (fun c v => c.thFC ≤ v ∧ v ≤ c.thS) rs (fcAdjUp F zgw rs)
  | [], _ => List.Forall₂.nil
  | c :: above, hwf => by
    have hc := hwf c (by simp)
    have habove : ∀ c' ∈ above, c'.thFC ≤ c'.thS := fun c' h' => hwf c' (List.mem_cons_of_mem _ h')
    simp only [fcAdjUp, hS.pow_two]
    split_ifs with h1 h2 h3
    · exact List.Forall₂.cons ⟨le_refl _, hc⟩
        (forall₂_map_self _ _ above (fun c' h' => ⟨le_refl _, habove c' h'⟩))
    · exact List.Forall₂.cons ⟨le_refl _, hc⟩ (fcAdjUp_bound hF hS zgw above habove)
    · exact List.Forall₂.cons ⟨hc, le_refl _⟩ (fcAdjUp_bound hF hS zgw above habove)
    · refine List.Forall₂.cons ?_ (fcAdjUp_bound hF hS zgw above habove)
      rw [not_or, not_lt, not_le] at h1
      rw [not_le] at h2 h3
      have hx := xmaxOf_pos hF c.thFC
      set xm := xmaxOf F c.thFC with hxm
      set t := c.zMid - (zgw - xm) with ht
      have t0 : 0 < t := by rw [ht]; linarith [h1.2]
      have t1 : t < xm := by rw [ht]; linarith
      have hxx : 0 < xm * xm := mul_pos hx hx
      have htt : t * t ≤ xm * xm := mul_self_le_mul_self t0.le t1.le
      have hr0 : 0 ≤ (c.thS - c.thFC) / (xm * xm) * (t * t) :=
        mul_nonneg (div_nonneg (by linarith) hxx.le) (mul_self_nonneg t)
      have hr1 : (c.thS - c.thFC) / (xm * xm) * (t * t) ≤ c.thS - c.thFC := by
        rw [div_mul_eq_mul_div, div_le_iff₀ hxx]
        exact mul_le_mul_of_nonneg_left htt (by linarith)
      constructor <;> linarith

theorem fcAdjInit_bound {F : Fn α} (wt : Bool)
    (hR : wt = true → (∀ x, F.round3 x = x) ∧ (∀ x, 0 < F.exp x) ∧ PowSqLaw F) (zgw : α) (cs : List (Comp α))
    (hwf : ∀ c ∈ cs, c.thFC ≤ c.thS) : FcBound cs (fcAdjInit F wt zgw cs) := by
  unfold fcAdjInit FcBound
  cases wt with
  | false =>
    simp only [Bool.false_eq_true, if_false]
    exact forall₂_map_self _ _ cs (fun c hc => ⟨le_refl _, hwf c hc⟩)
  | true =>
    obtain ⟨r3, hexp, hsq⟩ := hR rfl
    simp only [if_true]
    have hid : ((fcAdjUp F zgw cs.reverse).reverse).map F.round3 =
        (fcAdjUp F zgw cs.reverse).reverse := by
      rw [List.map_congr_left (fun x _ => r3 x), List.map_id']
    rw [hid]
    have := fcAdjUp_bound hexp hsq zgw cs.reverse (fun c hc => hwf c (List.mem_reverse.mp hc))
    have h2 := List.rel_reverse this
    rwa [List.reverse_reverse] at h2

/-- saturation below the water table keeps per-compartment bounds whose upper end is `th_s` -/
theorem saturateFrom_bound (lo : Comp α → α) {all : List (Comp α)} {wp fc s : Nat → α}
    (hL : LayerFn all wp fc s) (hlo : ∀ c ∈ all, lo c ≤ c.thS) :
    ∀ (n : Nat) (cs : List (Comp α)) (ts : List α), (∀ c ∈ cs, c ∈ all) →
      List.Forall₂ (fun c v => lo c ≤ v ∧ v ≤ c.thS) cs ts →
      List.Forall₂ (fun c v => lo c ≤ v ∧ v ≤ c.thS) cs (saturateFrom n all cs ts)
  | _, [], [], _, _ => by cases ‹Nat› <;> exact List.Forall₂.nil
  | 0, c :: cs, t :: ts, hm, h => by
    cases h with
    | cons h1 h2 =>
      simp only [saturateFrom]
      have hc := hm c (by simp)
      have e : layerMean c.layer (·.thS) all = c.thS :=
        layerMean_const c.layer _ all c.thS ⟨c, hc, rfl⟩ (fun c' hc' hl' => by
          rw [hL.s c' hc', hL.s c hc, hl'])
      rw [e]
      exact List.Forall₂.cons ⟨hlo c hc, le_refl _⟩
        (saturateFrom_bound lo hL hlo 0 cs ts (fun c' h' => hm c' (List.mem_cons_of_mem _ h')) h2)
  | n + 1, c :: cs, t :: ts, hm, h => by
    cases h with
    | cons h1 h2 =>
      simp only [saturateFrom]
      exact List.Forall₂.cons h1
        (saturateFrom_bound lo hL hlo n cs ts (fun c' h' => hm c' (List.mem_cons_of_mem _ h')) h2)

/-- **`initWC`, `Layer` method: the initial water content lies within `[th_dry, th_s]` and the
initial adjusted field capacity within `[th_fc, th_s]`, one value per compartment** — without
water table and with one -/
theorem initWC_layer_bounds {F : Fn α} {cs : List (Comp α)} {wp fc s : Nat → α} (wt : Bool)
    (zgw zSoil : α) (ty : WcType) (pts : List (WcPoint α)) (o : InitOut α)
    (hL : LayerFn cs wp fc s)
    (hwf : ∀ c ∈ cs, c.thDry ≤ c.thWP ∧ c.thWP ≤ c.thFC ∧ c.thFC ≤ c.thS)
    (hR : wt = true → (∀ x, F.round3 x = x) ∧ (∀ x, 0 < F.exp x) ∧ PowSqLaw F)
    (hnamed : ∀ c ∈ cs, ∃ p ∈ pts, p.lay = c.layer)
    (hspec : ∀ p ∈ pts, PointSpecOK cs wp fc s ty p)
    (h : initWC F cs wt zgw zSoil ty .layer pts = .ok o) :
    ThBound cs o.th ∧ FcBound cs o.fcAdjInit := by
  have hfs : ∀ c ∈ cs, c.thFC ≤ c.thS := fun c hc => (hwf c hc).2.2
  have hdf : ∀ c ∈ cs, c.thDry ≤ c.thFC := fun c hc => le_trans (hwf c hc).1 (hwf c hc).2.1
  have hfcI := fcAdjInit_bound wt hR zgw cs hfs
  unfold initWC at h
  cases hv : pointValues ty .layer cs pts with
  | error e => simp [hv] at h
  | ok vals =>
    have hP := pointsOK_of_spec hL hwf ty pts vals hnamed hspec hv
    have hth0 : ThBound cs (fillLayers cs ((pts.map (·.lay)).zip vals) (cs.map (fun _ => 0))) := by
      rw [fillLayers_eq _ _ _ (by simp), zipWith_map_const]
      exact pointsOK_thBound hP
    simp only [hv] at h
    split at h
    · cases h
    · rename_i al _
      have hth1 : ThBound cs (if al = true then fcAdjInit F wt zgw cs else
          fillLayers cs ((pts.map (·.lay)).zip vals) (cs.map (fun _ => 0))) := by
        split_ifs
        · exact hfcI.thBound hdf
        · exact hth0
      split at h
      · split at h
        · cases h
        · rename_i idx _
          simp only [Except.ok.injEq] at h
          subst h
          simp only
          refine ⟨saturateFrom_bound (·.thDry) hL (fun c hc => le_trans (hdf c hc) (hfs c hc)) idx cs _
            (fun c hc => hc) hth1, ?_⟩
          split_ifs with hal
          · exact saturateFrom_bound (·.thFC) hL hfs idx cs _ (fun c hc => hc) hfcI
          · exact hfcI
      · simp only [Except.ok.injEq] at h
        subst h
        exact ⟨hth1, hfcI⟩

end iwc

/-! ## C. the cells of the initial state -/

section cells
variable {α : Type} [Field α] [LinearOrder α] [IsStrictOrderedRing α]

/-- the cells `_initialize` leaves: profile row, `InitCond.th`, `InitCond.th_fc_Adj`, no flux,
`aer_days_comp = 0` -/
def initCells : List (Comp α) → List α → List α → List (Cell α)
  | c :: cs, t :: ts, f :: fs =>
    { c := c, th := t, fcAdj := f, flux := 0, aer := 0 } :: initCells cs ts fs
  | _, _, _ => []

/-- `dzsum` is the running sum of positive thicknesses (on profile rows) -/
def CompGeom : α → List (Comp α) → Prop
  | _, [] => True
  | top, c :: cs => 0 < c.dz ∧ c.dzsum = top + c.dz ∧ CompGeom c.dzsum cs

theorem cmToM_add (a b : Nat) : (cmToM (a + b) : α) = cmToM a + cmToM b := by
  unfold cmToM; push_cast; ring

theorem cmToM_pos {a : Nat} (h : 0 < a) : (0 : α) < cmToM a := by
  unfold cmToM
  exact div_pos (by exact_mod_cast h) (by norm_num)

theorem cmToM_nonneg (a : Nat) : (0 : α) ≤ cmToM a := by
  unfold cmToM
  exact div_nonneg (Nat.cast_nonneg a) (by norm_num)

theorem geoMatch_compGeom : ∀ (cs : List (Comp α)) (gs : List GComp) (acc : Nat),
    GeoMatch cs gs → gs.map (·.dzsum) = prefixSums acc (gs.map (·.dz)) → (∀ g ∈ gs, 0 < g.dz) →
      CompGeom (cmToM acc) cs
  | [], _, _, _, _, _ => trivial
  | _ :: _, [], _, h, _, _ => h.elim
  | c :: cs, g :: gs, acc, h, hs, hp => by
    obtain ⟨e1, e2, h3⟩ := h
    simp only [List.map_cons, prefixSums, List.cons.injEq] at hs
    obtain ⟨s1, s2⟩ := hs
    refine ⟨?_, ?_, ?_⟩
    · rw [e1]; exact cmToM_pos (hp g (by simp))
    · rw [e2, e1, s1]; exact cmToM_add _ _
    · rw [e2, s1]
      exact geoMatch_compGeom cs gs (acc + g.dz) h3 s2 (fun g' h' => hp g' (List.mem_cons_of_mem _ h'))

theorem compGeom_dzsum_nonneg : ∀ (cs : List (Comp α)) (top : α), 0 ≤ top → CompGeom top cs →
    ∀ c ∈ cs, 0 < c.dz ∧ 0 ≤ c.dzsum
  | [], _, _, _, c, hc => by simp at hc
  | c0 :: cs, top, ht, ⟨g1, g2, g3⟩, c, hc => by
    have h0 : 0 ≤ c0.dzsum := by rw [g2]; linarith
    simp only [List.mem_cons] at hc
    rcases hc with rfl | hc
    · exact ⟨g1, h0⟩
    · exact compGeom_dzsum_nonneg cs c0.dzsum h0 g3 c hc

/-- layer numbers climbing from `pl` (never below 1) -/
def LayersUp : Nat → List Nat → Prop
  | _, [] => True
  | pl, l :: ls => pl ≤ l ∧ 1 ≤ l ∧ LayersUp l ls

theorem Stair.layersUp {j k : Nat} {L : List Nat} (h : Stair j k L) : LayersUp j L := by
  induction h with
  | nil => trivial
  | same h1 _ ih => exact ⟨le_refl _, h1, ih⟩
  | next _ ih => exact ⟨by omega, by omega, ih⟩

theorem hydMatch_layersUp {τ : Type} (F : Fn α) (specs : List (LayerSpec α τ)) :
    ∀ (cs : List (Comp α)) (lay : List (Nat × Nat)) (pl : Nat), HydMatch F specs cs lay →
      LayersUp pl (lay.map Prod.fst) → LayersUp pl (cs.map (·.layer))
  | [], _, _, _, _ => trivial
  | _ :: _, [], _, h, _ => h.elim
  | c :: cs, lk :: ls, pl, h, hu => by
    obtain ⟨u1, u2, u3⟩ := hu
    have e : c.layer = lk.1 := h.1.1
    simp only [List.map_cons]
    rw [e]
    exact ⟨u1, u2, hydMatch_layersUp F specs cs ls lk.1 h.2 u3⟩

section lists
variable {cs : List (Comp α)} {th fcA : List α}

theorem initCells_comps : ∀ {cs : List (Comp α)} {th fcA : List α}, ThBound cs th → FcBound cs fcA →
    (initCells cs th fcA).map (·.c) = cs
  | [], [], [], _, _ => rfl
  | c :: cs, t :: ts, f :: fs, h1, h2 => by
    cases h1 with
    | cons a1 a2 =>
      cases h2 with
      | cons b1 b2 =>
        simp only [initCells, List.map_cons, initCells_comps a2 b2]

theorem initCells_drainPre : ∀ {cs : List (Comp α)} {th fcA : List α}, ThBound cs th →
    FcBound cs fcA → (∀ c ∈ cs, c.WF ∧ 0 ≤ c.dzsum ∧ c.thFC < c.thS) →
    ∀ x ∈ initCells cs th fcA, DrainPre x
  | [], [], [], _, _, _, x, hx => by simp [initCells] at hx
  | c :: cs, t :: ts, f :: fs, h1, h2, hw, x, hx => by
    cases h1 with
    | cons a1 a2 =>
      cases h2 with
      | cons b1 b2 =>
        simp only [initCells, List.mem_cons] at hx
        rcases hx with rfl | hx
        · obtain ⟨w1, w2, w3⟩ := hw c (by simp)
          exact ⟨⟨w1, a1.1, a1.2, b1.1, b1.2⟩, w2, w3⟩
        · exact initCells_drainPre a2 b2 (fun c' h' => hw c' (List.mem_cons_of_mem _ h')) x hx

theorem initCells_aer : ∀ (cs : List (Comp α)) (th fcA : List α),
    ∀ x ∈ initCells cs th fcA, x.aer = 0 ∧ x.c ∈ cs
  | [], _, _, x, hx => by simp [initCells] at hx
  | _ :: _, [], _, x, hx => by simp [initCells] at hx
  | _ :: _, _ :: _, [], x, hx => by simp [initCells] at hx
  | c :: cs, t :: ts, f :: fs, x, hx => by
    simp only [initCells, List.mem_cons] at hx
    rcases hx with rfl | hx
    · exact ⟨rfl, by simp⟩
    · obtain ⟨a, b⟩ := initCells_aer cs ts fs x hx
      exact ⟨a, List.mem_cons_of_mem _ b⟩

theorem initCells_geom : ∀ (cs : List (Comp α)) (th fcA : List α) (top : α), CompGeom top cs →
    TrGeom top (initCells cs th fcA)
  | [], _, _, _, _ => by simp only [initCells]; trivial
  | _ :: _, [], _, _, _ => by simp only [initCells]; trivial
  | _ :: _, _ :: _, [], _, _ => by simp only [initCells]; trivial
  | c :: cs, t :: ts, f :: fs, top, ⟨g1, g2, g3⟩ => by
    simp only [initCells]
    exact ⟨g1, g2, initCells_geom cs ts fs c.dzsum g3⟩

theorem initCells_layers (wp fc : Nat → α) : ∀ (cs : List (Comp α)) (th fcA : List α) (pl : Nat),
    LayersUp pl (cs.map (·.layer)) → (∀ c ∈ cs, c.thWP = wp c.layer ∧ c.thFC = fc c.layer) →
    TrLayersOK wp fc pl (initCells cs th fcA)
  | [], _, _, _, _, _ => by simp only [initCells]; trivial
  | _ :: _, [], _, _, _, _ => by simp only [initCells]; trivial
  | _ :: _, _ :: _, [], _, _, _ => by simp only [initCells]; trivial
  | c :: cs, t :: ts, f :: fs, pl, ⟨u1, u2, u3⟩, hl => by
    simp only [initCells]
    obtain ⟨e1, e2⟩ := hl c (by simp)
    exact ⟨u1, u2, e1, e2,
      initCells_layers wp fc cs ts fs c.layer u3 (fun c' h' => hl c' (List.mem_cons_of_mem _ h'))⟩

end lists

/-- **the fields of `CfgOK` about the initial profile**, for cells `initCells so.comps o.th
o.fcAdjInit` built from a profile of the builder (positive thicknesses, `SpecOK` layers, antitone
comparisons) and an initial water content of `initWC` (`Layer` method, every layer named,
`PointSpecOK`): `cells0`, `geom`, `aer0`, `pen`, `layers`, `thini` (for `thini := o.th`) -/
structure SoilInitOK (cells : List (Cell α)) (thini : List α) : Prop where
  cells0 : ∀ x ∈ cells, DrainPre x
  geom : TrGeom 0 cells
  aer0 : ∀ x ∈ cells, 0 ≤ x.aer
  pen : ∀ x ∈ cells, 0 ≤ x.c.pen ∧ x.c.pen ≤ 100
  layers : ∃ wp fc : Nat → α, TrLayersOK wp fc 0 cells
  thini : ThiniOK (cells.map (·.c)) thini

theorem soilInit_ok {τ : Type} (F : Fn α) (ge1 : τ → Nat → Bool) (ge2 : τ → Nat → Nat → Bool)
    (h1 : ∀ t, Anti (ge1 t)) (h2 : ∀ t l, Anti (ge2 t l)) (more : Nat → Bool) (fuel : Nat)
    (dz : List Nat) (specs : List (LayerSpec α τ)) (wt adjRew calcCN : Bool)
    (rew zSurf cn zTopArg : α) (so : SoilOut α) (zgw zSoil : α) (ty : WcType)
    (pts : List (WcPoint α)) (o : InitOut α)
    (hdz : ∀ d ∈ dz, 0 < d) (hspecs : ∀ sp ∈ specs, SpecOK sp)
    (hR : wt = true → (∀ x, F.round3 x = x) ∧ (∀ x, 0 < F.exp x) ∧ PowSqLaw F)
    (hs : soilProfile F ge1 ge2 more fuel dz specs wt adjRew calcCN rew zSurf cn zTopArg = .ok so)
    (hi : initWC F so.comps wt zgw zSoil ty .layer pts = .ok o)
    (hnamed : ∀ c ∈ so.comps, ∃ p ∈ pts, p.lay = c.layer)
    (hpts : ∀ wp fc s : Nat → α, LayerFn so.comps wp fc s →
      ∀ p ∈ pts, PointSpecOK so.comps wp fc s ty p) :
    SoilInitOK (initCells so.comps o.th o.fcAdjInit) o.th := by
  obtain ⟨⟨wp, fc, s, hL⟩, hfacts, lay, k, hm, hst⟩ := soilProfile_facts F ge1 ge2 h1 h2 more fuel dz
    specs wt adjRew calcCN rew zSurf cn zTopArg so hspecs hs
  obtain ⟨hgm, hsum, hpos⟩ := soilProfile_geoMatch F ge1 ge2 more fuel dz specs wt adjRew calcCN rew
    zSurf cn zTopArg so hdz hs
  have hcg : CompGeom (0 : α) so.comps := by
    have := geoMatch_compGeom so.comps so.geo 0 hgm hsum hpos
    simpa [cmToM] using this
  have hgeo := compGeom_dzsum_nonneg so.comps 0 (le_refl _) hcg
  have hwf : ∀ c ∈ so.comps, c.thDry ≤ c.thWP ∧ c.thWP ≤ c.thFC ∧ c.thFC ≤ c.thS :=
    fun c hc => by
      obtain ⟨_, f2, f3, f4, _⟩ := hfacts c hc
      exact ⟨f2, f3.le, f4.le⟩
  obtain ⟨hth, hfc⟩ := initWC_layer_bounds wt zgw zSoil ty pts o hL hwf hR hnamed
    (hpts wp fc s hL) hi
  have hcomps := initCells_comps hth hfc
  refine
    { cells0 := initCells_drainPre hth hfc (fun c hc => ?_)
      geom := initCells_geom _ _ _ 0 hcg
      aer0 := fun x hx => by rw [(initCells_aer _ _ _ x hx).1]
      pen := fun x hx => by
        obtain ⟨_, _, _, _, _, _, _, f8, f9⟩ := hfacts x.c (initCells_aer _ _ _ x hx).2
        exact ⟨f8, f9⟩
      layers := ⟨wp, fc, initCells_layers wp fc _ _ _ 0
        (hydMatch_layersUp F specs _ lay 0 hm hst.layersUp)
        (fun c hc => ⟨hL.wp c hc, hL.fc c hc⟩)⟩
      thini := by rw [hcomps]; exact hth.thiniOK }
  obtain ⟨f1, f2, f3, f4, f5, f6, f7, _⟩ := hfacts c hc
  exact ⟨⟨(hgeo c hc).1, f1, f2, f3, f4.le, f5, f6, f7⟩, (hgeo c hc).2, f4⟩

end cells

/-! ## D. totality without a water table (used for the non-vacuity example) -/

section totality
variable {α : Type} [Field α] [LinearOrder α] [IsStrictOrderedRing α]

theorem mkComps_ok {τ : Type} (F : Fn α) (specs : List (LayerSpec α τ)) :
    ∀ (geo : List GComp) (lay : List (Nat × Nat)), geo.length = lay.length →
      (∀ lk ∈ lay, (nthSpec specs lk.2).isSome = true) →
      ∃ cs, mkComps F specs geo lay = .ok cs ∧ cs.map (·.layer) = lay.map Prod.fst
  | [], [], _, _ => ⟨[], rfl, rfl⟩
  | [], _ :: _, h, _ => by simp at h
  | _ :: _, [], h, _ => by simp at h
  | g :: gs, (l, k) :: ls, h, hs => by
    obtain ⟨r, hr, e⟩ := mkComps_ok F specs gs ls (by simpa using h)
      (fun lk hlk => hs lk (List.mem_cons_of_mem _ hlk))
    have := hs (l, k) (by simp)
    cases hsp : nthSpec specs k with
    | none => simp only at this; rw [hsp] at this; cases this
    | some sp =>
      have hmk : mkComps F specs (g :: gs) ((l, k) :: ls) = .ok
          ({ dz := (toMetres g : GeoM α).dz, dzsum := (toMetres g : GeoM α).dzsum,
             zMid := (toMetres g : GeoM α).zMid, thS := sp.s, thFC := sp.fc, thWP := sp.wp,
             thDry := sp.wp / 2, tau := tauOf F sp.ksat, ksat := sp.ksat, pen := sp.pen, aCR := 0,
             bCR := 0, layer := l } :: r) := by
        simp only [mkComps, hsp, hr]
      exact ⟨_, hmk, by simp only [List.map_cons, e]⟩

/-- the builder succeeds without a water table and with a given curve number as soon as the layer
assignment, the deepening loop and the row construction do -/
theorem soilProfile_ok_noWT {τ : Type} (F : Fn α) (ge1 : τ → Nat → Bool)
    (ge2 : τ → Nat → Nat → Bool) (more : Nat → Bool) (fuel : Nat) (d0 : Nat) (ds : List Nat)
    (specs : List (LayerSpec α τ)) (adjRew : Bool) (rew zSurf cn zTopArg : α)
    (lay : List (Nat × Nat)) (dz' : List Nat) (k : Nat) (cs0 : List (Comp α))
    (hl : assignLayersG ge1 ge2 ((buildGeometry (d0 :: ds)).map (·.dzsum)) (specs.map (·.thick))
      = .ok lay)
    (hd : deepen more fuel (d0 :: ds) 0 = .ok (dz', k))
    (hm : mkComps F specs (refreshFrom 0 (buildGeometry (d0 :: ds)) dz') lay = .ok cs0)
    (hne : cs0 ≠ []) :
    ∃ so, soilProfile F ge1 ge2 more fuel (d0 :: ds) specs false adjRew false rew zSurf cn zTopArg
      = .ok so ∧ so.comps = cs0 := by
  cases cs0 with
  | nil => exact absurd rfl hne
  | cons c0 rest =>
    unfold soilProfile
    simp only [hl, hd, hm, Bool.false_eq_true, if_false, cnOf]
    exact ⟨_, rfl, rfl⟩

theorem pointValues_layer_ok (ty : WcType) (cs : List (Comp α)) :
    ∀ pts : List (WcPoint α), (∀ p ∈ pts, ∃ c ∈ cs, c.layer = p.lay) →
      ∃ vals, pointValues ty .layer cs pts = .ok vals
  | [], _ => ⟨[], rfl⟩
  | p :: ps, h => by
    obtain ⟨vs, hvs⟩ := pointValues_layer_ok ty cs ps (fun q hq => h q (List.mem_cons_of_mem _ hq))
    obtain ⟨c, hc, hl⟩ := h p (by simp)
    have hany : cs.any (fun c => c.layer == p.lay) = true :=
      List.any_eq_true.mpr ⟨c, hc, by simpa using hl⟩
    have hv : ∃ v, pointValue ty .layer cs p = .ok v := by
      cases ty with
      | num => exact ⟨_, rfl⟩
      | pct => simp only [pointValue, hydRow, hany, if_true]; exact ⟨_, rfl⟩
      | prop => simp only [pointValue, hydRow, hany, if_true]; exact ⟨_, rfl⟩
    obtain ⟨v, hv⟩ := hv
    exact ⟨v :: vs, by simp only [pointValues, hv, hvs]⟩

/-- `initWC` succeeds for the `Layer` method without a water table when every data point names a
layer of the profile -/
theorem initWC_layer_ok_noWT (F : Fn α) (cs : List (Comp α)) (zgw zSoil : α) (ty : WcType)
    (pts : List (WcPoint α)) (h : ∀ p ∈ pts, ∃ c ∈ cs, c.layer = p.lay) :
    ∃ o, initWC F cs false zgw zSoil ty .layer pts = .ok o := by
  obtain ⟨vals, hv⟩ := pointValues_layer_ok ty cs pts h
  unfold initWC
  simp only [hv, wtInSoil, Bool.false_and, Bool.false_eq_true, if_false]
  exact ⟨_, rfl⟩

end totality

end Aqua

section AxiomAudit
open Aqua
#print axioms deepen_pos
#print axioms assign_consistent
#print axioms soilProfile_geoMatch
#print axioms soilProfile_facts
#print axioms builtinLayersGen_ok'
#print axioms specOK_of_builtin
#print axioms pointsOK_of_spec
#print axioms fcAdjInit_bound
#print axioms initWC_layer_bounds
#print axioms soilInit_ok
#print axioms soilProfile_ok_noWT
#print axioms initWC_layer_ok_noWT
end AxiomAudit
