import AquaVerif.Model.Infiltration
import AquaVerif.Proofs.Basic
/-
Lemmas about the model of `infiltration` (`Model/Infiltration.lean`) at an arbitrary linearly
ordered field.  No law about `F.exp` / `F.log` is needed anywhere: the Python caps `theta0`
explicitly.
-/

set_option linter.unusedSectionVars false
set_option linter.unusedVariables false
namespace Aqua
variable {α : Type} [Field α] [LinearOrder α] [IsStrictOrderedRing α]

/-! ### frame: the part of a cell infiltration never touches -/

/-- parameters + adjusted field capacity + aeration counter of a cell -/
def Cell.par (x : Cell α) : Comp α × α × α := (x.c, x.fcAdj, x.aer)

/-! ### the surface split -/

theorem overtop_toStore (t p z : α) (b : Nat) : (overtop t p z b).toStore = t := by
  unfold overtop; split_ifs <;> rfl

theorem overtop_lost (t p z : α) (b : Nat) : (overtop t p z b).lost = 0 := by
  unfold overtop; split_ifs <;> rfl

theorem overtop_sum (t p z : α) (b : Nat) :
    (overtop t p z b).runoffIni + (overtop t p z b).pond = p := by
  unfold overtop; split_ifs <;> simp

theorem overtop_bounds (t p z : α) (b : Nat) (hp : 0 ≤ p) (hz : 0 ≤ z) :
    0 ≤ (overtop t p z b).runoffIni ∧ 0 ≤ (overtop t p z b).pond ∧ (overtop t p z b).pond ≤ z ∧
    (0 < (overtop t p z b).runoffIni → (overtop t p z b).pond = z) := by
  unfold overtop; split_ifs with h
  · exact ⟨by simp only []; linarith, by simpa using hz, by simp, fun _ => by simp⟩
  · simp only []; exact ⟨le_refl _, hp, not_lt.mp h, fun h0 => absurd h0 (lt_irrefl _)⟩

/-- inversion of a successful surface split into its five branches; the last two (the no-bunds
block) are taken without bunds *and* with bunds not higher than 1 mm -/
theorem infSurface_cases {k? : Option α} {pond infl zBund : α} {bunds : Bool} {s : Surf α}
    (h : infSurface k? pond infl bunds zBund = .ok s) :
    (bunds = true ∧ 0.001 < zBund ∧ 0 < infl + pond ∧ ∃ k, k? = some k ∧ k < infl + pond ∧
        s = overtop k (infl + pond - k) zBund 1) ∨
    (bunds = true ∧ 0.001 < zBund ∧ 0 < infl + pond ∧ ∃ k, k? = some k ∧ ¬ k < infl + pond ∧
        s = overtop (infl + pond) 0 zBund 2) ∨
    (bunds = true ∧ 0.001 < zBund ∧ ¬ 0 < infl + pond ∧
        s = { toStore := 0, runoffIni := 0, pond := pond, lost := infl, branch := 5 }) ∨
    ((bunds = false ∨ zBund ≤ 0.001) ∧ ∃ k, k? = some k ∧ k < infl ∧
        s = { toStore := k, runoffIni := infl - k + pond, pond := 0, lost := 0,
              branch := if bunds then 8 else 6 }) ∨
    ((bunds = false ∨ zBund ≤ 0.001) ∧ ∃ k, k? = some k ∧ ¬ k < infl ∧
        s = { toStore := infl, runoffIni := 0 + pond, pond := 0, lost := 0,
              branch := (if bunds then 8 else 6) + 1 }) := by
  unfold infSurface at h
  by_cases h1 : bunds = true ∧ (0.001 : α) < zBund
  · simp only [h1, and_self, if_true] at h
    by_cases h3 : 0 < infl + pond
    · simp only [h3, if_true] at h
      cases k? with
      | none => simp at h
      | some k =>
        simp only [] at h
        by_cases h4 : k < infl + pond
        · simp only [h4, if_true] at h
          injection h with h
          exact Or.inl ⟨h1.1, h1.2, h3, k, rfl, h4, h.symm⟩
        · simp only [h4, if_false] at h
          injection h with h
          exact Or.inr (Or.inl ⟨h1.1, h1.2, h3, k, rfl, h4, h.symm⟩)
    · simp only [h3, if_false] at h
      injection h with h
      exact Or.inr (Or.inr (Or.inl ⟨h1.1, h1.2, h3, h.symm⟩))
  · rw [if_neg h1] at h
    by_cases h2 : bunds = false ∨ zBund ≤ 0.001
    · rw [if_pos h2] at h
      unfold noBunds at h
      cases k? with
      | none => simp at h
      | some k =>
        simp only [] at h
        by_cases h4 : k < infl
        · simp only [h4, if_true] at h
          injection h with h
          exact Or.inr (Or.inr (Or.inr (Or.inl ⟨h2, k, rfl, h4, h.symm⟩)))
        · simp only [h4, if_false] at h
          injection h with h
          exact Or.inr (Or.inr (Or.inr (Or.inr ⟨h2, k, rfl, h4, h.symm⟩)))
    · rw [if_neg h2] at h
      simp at h

/-- in an ordered field one of the two guards always holds: the `UnboundLocalError` of the
unfixed code (and the `NaN` corner of the `Float` run) does not exist -/
theorem infSurface_ne_unbound (k? : Option α) (pond infl zBund : α) (bunds : Bool) :
    infSurface k? pond infl bunds zBund ≠ .error "E:unbound" := by
  unfold infSurface
  by_cases h1 : bunds = true ∧ (0.001 : α) < zBund
  · simp only [h1, and_self, if_true]
    split_ifs
    · cases k? with
      | none => simp
      | some k => simp only []; split_ifs <;> simp
    · simp
  · rw [if_neg h1]
    have h2 : bunds = false ∨ zBund ≤ 0.001 := by
      cases bunds
      · exact Or.inl rfl
      · exact Or.inr (not_lt.mp (fun hz => h1 ⟨rfl, hz⟩))
    rw [if_pos h2]
    unfold noBunds
    cases k? with
    | none => simp
    | some k => simp only []; split_ifs <;> simp

/-- water balance of the surface split (with the ghost `lost`) -/
theorem infSurface_balance {k? : Option α} {pond infl zBund : α} {bunds : Bool} {s : Surf α}
    (h : infSurface k? pond infl bunds zBund = .ok s) :
    s.toStore + s.runoffIni + s.pond = infl + pond - s.lost := by
  rcases infSurface_cases h with ⟨_, _, _, k, _, _, rfl⟩ | ⟨_, _, _, k, _, _, rfl⟩ | ⟨_, _, _, rfl⟩ |
    ⟨_, k, _, _, rfl⟩ | ⟨_, k, _, _, rfl⟩
  · have := overtop_sum k (infl + pond - k) zBund 1
    rw [overtop_toStore, overtop_lost]; linear_combination this
  · have := overtop_sum (infl + pond) 0 zBund 2
    rw [overtop_toStore, overtop_lost]; linear_combination this
  · simp
  · simp only []; ring
  · simp only []; ring

/-! ### one compartment of the main loop -/

theorem infTheta_le (F : Fn α) (x : Cell α) (ts : α) (h : x.fcAdj ≤ x.c.thS) :
    (infTheta F x ts).1 ≤ x.c.thS := by
  unfold infTheta; simp only []
  split_ifs <;> simp only [] <;> first | exact le_refl _ | exact h | exact not_lt.mp ‹_›

theorem infTheta_snd_nonneg (F : Fn α) (x : Cell α) (ts : α) (hts : 0 ≤ ts) (hdz : 0 < x.c.dz)
    (htau : 0 ≤ x.c.tau) (hfs : x.c.thFC ≤ x.c.thS) : 0 ≤ (infTheta F x ts).2 := by
  have h0 : 0 ≤ ts / (1000 * x.c.dz) := div_nonneg hts (by positivity)
  have hS : 0 ≤ x.c.tau * (x.c.thS - x.c.thFC) := mul_nonneg htau (sub_nonneg.mpr hfs)
  unfold infTheta; simp only []
  split_ifs <;> simp only [] <;> first | exact h0 | exact hS | exact le_refl _

theorem infDrainmax_nonneg (x : Cell α) (d : α) (hd : 0 ≤ d) (hdz : 0 < x.c.dz)
    (htau : 0 ≤ x.c.tau) (hfs : x.c.thFC ≤ x.c.thS) (hk : 0 ≤ x.c.ksat)
    (hfl : x.flux ≤ x.c.ksat) : 0 ≤ infDrainmax x d := by
  unfold infDrainmax; simp only []
  split_ifs
  · linarith
  · have hS : 0 ≤ x.c.tau * (x.c.thS - x.c.thFC) := mul_nonneg htau (sub_nonneg.mpr hfs)
    have : 0 ≤ x.c.ksat / (x.c.tau * (x.c.thS - x.c.thFC) * 1000 * x.c.dz) :=
      div_nonneg hk (by positivity)
    positivity

theorem infStore_water (x : Cell α) (th0 ts : α) (hdz : 0 < x.c.dz) :
    1000 * (infStore x th0 ts).1 * x.c.dz + (infStore x th0 ts).2 = 1000 * x.th * x.c.dz + ts := by
  have hne : x.c.dz ≠ 0 := ne_of_gt hdz
  unfold infStore; simp only []
  split_ifs <;> simp only [] <;> field_simp <;> ring

theorem infStore_bounds (x : Cell α) (th0 ts : α) (hdz : 0 < x.c.dz) (hts : 0 ≤ ts) :
    x.th ≤ (infStore x th0 ts).1 ∧ 0 ≤ (infStore x th0 ts).2 ∧ (infStore x th0 ts).2 ≤ ts ∧
    (x.th ≤ x.c.thS → th0 ≤ x.c.thS → (infStore x th0 ts).1 ≤ x.c.thS) := by
  have h0 : 0 ≤ ts / (1000 * x.c.dz) := div_nonneg hts (by positivity)
  unfold infStore; simp only []
  split_ifs with h1 h2
  · simp only []
    have hpos : 0 < x.th + ts / (1000 * x.c.dz) - th0 := sub_pos.mpr h2
    have e1 : (x.th + ts / (1000 * x.c.dz) - th0) * 1000 * x.c.dz
        = ts - (th0 - x.th) * 1000 * x.c.dz := by
      have hne : x.c.dz ≠ 0 := ne_of_gt hdz
      field_simp; ring
    refine ⟨by linarith, by positivity, ?_, fun _ h => h⟩
    rw [e1]
    have : 0 ≤ (th0 - x.th) * 1000 * x.c.dz := by
      have := h1.le; positivity
    linarith
  · simp only []
    exact ⟨by linarith, le_refl _, hts, fun _ h => le_trans (not_lt.mp h2) h⟩
  · simp only []
    exact ⟨le_refl _, hts, le_refl _, fun h _ => h⟩

theorem infCell_par (F : Fn α) (x : Cell α) (ts : α) : (infCell F x ts).1.par = x.par := rfl

theorem infCell_c (F : Fn α) (x : Cell α) (ts : α) : (infCell F x ts).1.c = x.c := rfl

theorem infCell_water (F : Fn α) (x : Cell α) (ts : α) (hdz : 0 < x.c.dz) :
    (infCell F x ts).1.water + (infCell F x ts).2.1 + (infCell F x ts).2.2 = x.water + ts := by
  have := infStore_water x (infTheta F x ts).1 ts hdz
  simp only [infCell, Cell.water]
  linear_combination this

theorem infCell_excess_nonneg (F : Fn α) (x : Cell α) (ts : α) : 0 ≤ (infCell F x ts).2.2 := by
  simp only [infCell]
  split_ifs with h
  · exact le_refl _
  · exact not_lt.mp h

/-- `ToStore'' + excess = ToStore'`, which is between 0 and `ToStore` -/
theorem infCell_sum_le (F : Fn α) (x : Cell α) (ts : α) (hdz : 0 < x.c.dz) (hts : 0 ≤ ts) :
    (infCell F x ts).2.1 + (infCell F x ts).2.2 ≤ ts := by
  have := (infStore_bounds x (infTheta F x ts).1 ts hdz hts).2.2.1
  simp only [infCell]
  linarith

theorem infCell_ts_nonneg (F : Fn α) (x : Cell α) (ts : α) (hts : 0 ≤ ts) (hwf : x.c.WF)
    (hfl : x.flux ≤ x.c.ksat) : 0 ≤ (infCell F x ts).2.1 := by
  have hb := (infStore_bounds x (infTheta F x ts).1 ts hwf.dz_pos hts).2.1
  have hd := infDrainmax_nonneg x (infTheta F x ts).2
    (infTheta_snd_nonneg F x ts hts hwf.dz_pos hwf.tau_nn hwf.fc_s) hwf.dz_pos hwf.tau_nn hwf.fc_s
    hwf.ksat_nn hfl
  simp only [infCell]
  split_ifs with h
  · linarith
  · linarith

theorem infCell_inv (F : Fn α) (x : Cell α) (ts : α) (hts : 0 ≤ ts) (hx : x.Inv) :
    (infCell F x ts).1.Inv := by
  have hb := infStore_bounds x (infTheta F x ts).1 ts hx.wf.dz_pos hts
  have ht := infTheta_le F x ts hx.fc_hi
  exact ⟨hx.wf, le_trans hx.th_lo hb.1, hb.2.2.2 hx.th_hi ht, hx.fc_lo, hx.fc_hi⟩

/-! ### the back-up loop -/

theorem backUp_par (vis : List (Cell α)) (e : α) :
    (backUp vis e).1.map Cell.par = vis.map Cell.par := by
  induction vis generalizing e with
  | nil => rfl
  | cons c above ih =>
    by_cases h1 : 0 < e
    · by_cases h2 : c.c.thS < c.th + e / (c.c.dz * 1000)
      · simp only [backUp, h1, h2, if_true, List.map_cons, ih]; rfl
      · simp only [backUp, h1, h2, if_true, if_false, List.map_cons]; rfl
    · simp only [backUp, h1, if_false]

/-- conservation in the back-up loop: what is not stored above comes out at the surface -/
theorem backUp_storage (vis : List (Cell α)) (e : α) (hdz : ∀ c ∈ vis, 0 < c.c.dz) :
    storage (backUp vis e).1 + (backUp vis e).2 = storage vis + e := by
  induction vis generalizing e with
  | nil => simp [backUp]
  | cons c above ih =>
    rw [List.forall_mem_cons] at hdz
    have hne : c.c.dz ≠ 0 := ne_of_gt hdz.1
    by_cases h1 : 0 < e
    · by_cases h2 : c.c.thS < c.th + e / (c.c.dz * 1000)
      · simp only [backUp, h1, h2, if_true, storage_cons, Cell.water]
        have i1 := ih ((c.th + e / (c.c.dz * 1000) - c.c.thS) * 1000 * c.c.dz) hdz.2
        have e1 : (c.th + e / (c.c.dz * 1000) - c.c.thS) * 1000 * c.c.dz
            = c.th * 1000 * c.c.dz + e - c.c.thS * 1000 * c.c.dz := by field_simp
        linear_combination i1 + e1
      · simp only [backUp, h1, h2, if_true, if_false, storage_cons, Cell.water]
        field_simp; ring
    · simp only [backUp, h1, if_false]

/-- the excess arriving at the surface is never negative (so `if excess > 0: Runoff += excess`
drops nothing) -/
theorem backUp_rest_nonneg (vis : List (Cell α)) (e : α) (hdz : ∀ c ∈ vis, 0 < c.c.dz)
    (he : 0 ≤ e) : 0 ≤ (backUp vis e).2 := by
  induction vis generalizing e with
  | nil => simpa [backUp] using he
  | cons c above ih =>
    rw [List.forall_mem_cons] at hdz
    by_cases h1 : 0 < e
    · by_cases h2 : c.c.thS < c.th + e / (c.c.dz * 1000)
      · simp only [backUp, h1, h2, if_true]
        apply ih _ hdz.2
        have : 0 < c.th + e / (c.c.dz * 1000) - c.c.thS := sub_pos.mpr h2
        have := hdz.1
        positivity
      · simp only [backUp, h1, h2, if_true, if_false]; exact le_refl _
    · simp only [backUp, h1, if_false]; exact he

/-- with `th ≤ th_s` above, no more comes out at the surface than was pushed up -/
theorem backUp_rest_le (vis : List (Cell α)) (e : α)
    (hv : ∀ c ∈ vis, 0 < c.c.dz ∧ c.th ≤ c.c.thS) (he : 0 ≤ e) : (backUp vis e).2 ≤ e := by
  induction vis generalizing e with
  | nil => simp [backUp]
  | cons c above ih =>
    rw [List.forall_mem_cons] at hv
    have hne : c.c.dz ≠ 0 := ne_of_gt hv.1.1
    by_cases h1 : 0 < e
    · by_cases h2 : c.c.thS < c.th + e / (c.c.dz * 1000)
      · simp only [backUp, h1, h2, if_true]
        have e1 : (c.th + e / (c.c.dz * 1000) - c.c.thS) * 1000 * c.c.dz
            = e - (c.c.thS - c.th) * 1000 * c.c.dz := by field_simp; ring
        have hpos : 0 ≤ (c.th + e / (c.c.dz * 1000) - c.c.thS) * 1000 * c.c.dz := by
          have : 0 < c.th + e / (c.c.dz * 1000) - c.c.thS := sub_pos.mpr h2
          have := hv.1.1
          positivity
        have i1 := ih _ hv.2 hpos
        have : 0 ≤ (c.c.thS - c.th) * 1000 * c.c.dz := by
          have := sub_nonneg.mpr hv.1.2
          have := hv.1.1
          positivity
        linarith
      · simp only [backUp, h1, h2, if_true, if_false]; exact he
    · simp only [backUp, h1, if_false]; exact le_refl _

theorem backUp_inv (vis : List (Cell α)) (e : α) (hv : ∀ c ∈ vis, c.Inv) :
    ∀ c ∈ (backUp vis e).1, c.Inv := by
  induction vis generalizing e with
  | nil => simp [backUp]
  | cons c above ih =>
    rw [List.forall_mem_cons] at hv
    by_cases h1 : 0 < e
    · by_cases h2 : c.c.thS < c.th + e / (c.c.dz * 1000)
      · simp only [backUp, h1, h2, if_true]
        rw [List.forall_mem_cons]
        exact ⟨⟨hv.1.wf, le_trans hv.1.th_lo hv.1.th_hi, le_refl _, hv.1.fc_lo, hv.1.fc_hi⟩,
          ih _ hv.2⟩
      · simp only [backUp, h1, h2, if_true, if_false]
        rw [List.forall_mem_cons]
        refine ⟨⟨hv.1.wf, ?_, not_lt.mp h2, hv.1.fc_lo, hv.1.fc_hi⟩, hv.2⟩
        have : 0 ≤ e / (c.c.dz * 1000) := by
          have := hv.1.wf.dz_pos
          positivity
        exact le_trans hv.1.th_lo (by simpa using this)
    · simp only [backUp, h1, if_false]
      rw [List.forall_mem_cons]; exact hv

/-! ### the main loop -/

theorem forall_par_of_map_eq {l l' : List (Cell α)} (h : l'.map Cell.par = l.map Cell.par)
    (P : Comp α × α × α → Prop) (hl : ∀ c ∈ l, P c.par) : ∀ c ∈ l', P c.par := by
  intro c hc
  have : c.par ∈ l.map Cell.par := h ▸ List.mem_map_of_mem hc
  obtain ⟨d, hd, hdc⟩ := List.mem_map.mp this
  exact hdc ▸ hl d hd

theorem backUp_dz (vis : List (Cell α)) (e : α) (hdz : ∀ c ∈ vis, 0 < c.c.dz) :
    ∀ c ∈ (backUp vis e).1, 0 < c.c.dz :=
  forall_par_of_map_eq (backUp_par vis e) (fun p => 0 < p.1.dz) hdz

theorem infLoop_par (F : Fn α) (rest vis : List (Cell α)) (ts ro : α) :
    (infLoop F rest vis ts ro).1.map Cell.par = vis.reverse.map Cell.par ++ rest.map Cell.par := by
  induction rest generalizing vis ts ro with
  | nil => simp [infLoop]
  | cons x rest ih =>
    by_cases h1 : 0 < ts
    · by_cases h2 : 0 < (infCell F x ts).2.2
      · simp only [infLoop, h1, h2, if_true]
        rw [ih, List.map_reverse, backUp_par]
        simp [infCell_par]
      · simp only [infLoop, h1, h2, if_true, if_false]
        rw [ih]
        simp [infCell_par]
    · simp only [infLoop, h1, if_false, List.map_append]

/-- conservation in the main loop -/
theorem infLoop_storage (F : Fn α) (rest vis : List (Cell α)) (ts ro : α)
    (hr : ∀ c ∈ rest, 0 < c.c.dz) (hv : ∀ c ∈ vis, 0 < c.c.dz) :
    storage (infLoop F rest vis ts ro).1 + (infLoop F rest vis ts ro).2.1
      + (infLoop F rest vis ts ro).2.2 = storage vis + storage rest + ts + ro := by
  induction rest generalizing vis ts ro with
  | nil => simp [infLoop, storage_reverse]
  | cons x rest ih =>
    rw [List.forall_mem_cons] at hr
    by_cases h1 : 0 < ts
    · have hw := infCell_water F x ts hr.1
      by_cases h2 : 0 < (infCell F x ts).2.2
      · have hv' : ∀ c ∈ (infCell F x ts).1 :: vis, 0 < c.c.dz := by
          rw [List.forall_mem_cons]; exact ⟨hr.1, hv⟩
        have hb := backUp_storage _ (infCell F x ts).2.2 hv'
        have hn := backUp_rest_nonneg _ (infCell F x ts).2.2 hv' h2.le
        have hro : (if 0 < (backUp ((infCell F x ts).1 :: vis) (infCell F x ts).2.2).2
            then ro + (backUp ((infCell F x ts).1 :: vis) (infCell F x ts).2.2).2 else ro)
            = ro + (backUp ((infCell F x ts).1 :: vis) (infCell F x ts).2.2).2 := by
          split_ifs with h3
          · rfl
          · have : (backUp ((infCell F x ts).1 :: vis) (infCell F x ts).2.2).2 = 0 :=
              le_antisymm (not_lt.mp h3) hn
            rw [this, add_zero]
        simp only [infLoop, h1, h2, if_true]
        rw [hro, ih _ _ _ hr.2 (backUp_dz _ _ hv')]
        rw [storage_cons] at hb ⊢
        linear_combination hb + hw
      · simp only [infLoop, h1, h2, if_true, if_false]
        have hv' : ∀ c ∈ (infCell F x ts).1 :: vis, 0 < c.c.dz := by
          rw [List.forall_mem_cons]; exact ⟨hr.1, hv⟩
        have h0 : (infCell F x ts).2.2 = 0 :=
          le_antisymm (not_lt.mp h2) (infCell_excess_nonneg F x ts)
        rw [ih _ _ _ hr.2 hv']
        simp only [storage_cons]
        linear_combination hw - h0
    · simp only [infLoop, h1, if_false, storage_append, storage_reverse]

/-- runoff accumulated in the loop is non-negative -/
theorem infLoop_ro_nonneg (F : Fn α) (rest vis : List (Cell α)) (ts ro : α) (hro : 0 ≤ ro) :
    0 ≤ (infLoop F rest vis ts ro).2.2 := by
  induction rest generalizing vis ts ro with
  | nil => simpa [infLoop] using hro
  | cons x rest ih =>
    by_cases h1 : 0 < ts
    · by_cases h2 : 0 < (infCell F x ts).2.2
      · simp only [infLoop, h1, h2, if_true]
        apply ih
        split_ifs with h3
        · linarith
        · exact hro
      · simp only [infLoop, h1, h2, if_true, if_false]
        exact ih _ _ _ hro
    · simpa only [infLoop, h1, if_false] using hro

/-- the loop keeps `Cell.Inv` -/
theorem infLoop_inv (F : Fn α) (rest vis : List (Cell α)) (ts ro : α)
    (hr : ∀ c ∈ rest, c.Inv) (hv : ∀ c ∈ vis, c.Inv) :
    ∀ c ∈ (infLoop F rest vis ts ro).1, c.Inv := by
  induction rest generalizing vis ts ro with
  | nil => simpa [infLoop] using hv
  | cons x rest ih =>
    rw [List.forall_mem_cons] at hr
    by_cases h1 : 0 < ts
    · have hx := infCell_inv F x ts h1.le hr.1
      have hv' : ∀ c ∈ (infCell F x ts).1 :: vis, c.Inv := by
        rw [List.forall_mem_cons]; exact ⟨hx, hv⟩
      by_cases h2 : 0 < (infCell F x ts).2.2
      · simp only [infLoop, h1, h2, if_true]
        exact ih _ _ _ hr.2 (backUp_inv _ _ hv')
      · simp only [infLoop, h1, h2, if_true, if_false]
        exact ih _ _ _ hr.2 hv'
    · simp only [infLoop, h1, if_false]
      intro c hc
      rcases List.mem_append.mp hc with hc | hc
      · exact hv c (List.mem_reverse.mp hc)
      · rcases List.mem_cons.mp hc with rfl | hc
        · exact hr.1
        · exact hr.2 c hc

/-- the water leaving at the bottom is non-negative when `FluxOut ≤ Ksat` on entry -/
theorem infLoop_ts_nonneg (F : Fn α) (rest vis : List (Cell α)) (ts ro : α)
    (hr : ∀ c ∈ rest, c.c.WF ∧ c.flux ≤ c.c.ksat) (hts : 0 ≤ ts) :
    0 ≤ (infLoop F rest vis ts ro).2.1 := by
  induction rest generalizing vis ts ro with
  | nil => simpa [infLoop] using hts
  | cons x rest ih =>
    rw [List.forall_mem_cons] at hr
    by_cases h1 : 0 < ts
    · have hx := infCell_ts_nonneg F x ts hts hr.1.1 hr.1.2
      by_cases h2 : 0 < (infCell F x ts).2.2
      · simp only [infLoop, h1, h2, if_true]
        exact ih _ _ _ hr.2 hx
      · simp only [infLoop, h1, h2, if_true, if_false]
        exact ih _ _ _ hr.2 hx
    · simpa only [infLoop, h1, if_false] using hts

/-- what leaves the loop (bottom + surface) is at most what entered -/
theorem infLoop_sum_le (F : Fn α) (rest vis : List (Cell α)) (ts ro : α)
    (hr : ∀ c ∈ rest, c.Inv) (hv : ∀ c ∈ vis, c.Inv) :
    (infLoop F rest vis ts ro).2.1 + (infLoop F rest vis ts ro).2.2 ≤ ts + ro := by
  induction rest generalizing vis ts ro with
  | nil => simp [infLoop]
  | cons x rest ih =>
    rw [List.forall_mem_cons] at hr
    by_cases h1 : 0 < ts
    · have hx := infCell_inv F x ts h1.le hr.1
      have hs := infCell_sum_le F x ts hr.1.wf.dz_pos h1.le
      have hv' : ∀ c ∈ (infCell F x ts).1 :: vis, c.Inv := by
        rw [List.forall_mem_cons]; exact ⟨hx, hv⟩
      by_cases h2 : 0 < (infCell F x ts).2.2
      · have hle := backUp_rest_le _ (infCell F x ts).2.2
          (fun c hc => ⟨(hv' c hc).wf.dz_pos, (hv' c hc).th_hi⟩) h2.le
        simp only [infLoop, h1, h2, if_true]
        refine le_trans (ih _ _ _ hr.2 (backUp_inv _ _ hv')) ?_
        split_ifs with h3
        · linarith
        · linarith
      · simp only [infLoop, h1, h2, if_true, if_false]
        refine le_trans (ih _ _ _ hr.2 hv') ?_
        have := infCell_excess_nonneg F x ts
        linarith
    · simp only [infLoop, h1, if_false]; exact le_refl _

/-! ### `infRun` = the loop guarded by `if ToStore > 0` -/

theorem infRun_par (F : Fn α) (cells : List (Cell α)) (t : α) :
    (infRun F cells t).1.map Cell.par = cells.map Cell.par := by
  unfold infRun; split_ifs
  · rw [infLoop_par]; simp
  · rfl

theorem infRun_storage (F : Fn α) (cells : List (Cell α)) (t : α)
    (hdz : ∀ c ∈ cells, 0 < c.c.dz) :
    storage (infRun F cells t).1 + (infRun F cells t).2.1 + (infRun F cells t).2.2
      = storage cells + (if 0 < t then t else 0) := by
  unfold infRun; split_ifs
  · rw [infLoop_storage F cells [] t 0 hdz (by simp)]; simp
  · simp

theorem infRun_ro_nonneg (F : Fn α) (cells : List (Cell α)) (t : α) :
    0 ≤ (infRun F cells t).2.2 := by
  unfold infRun; split_ifs
  · exact infLoop_ro_nonneg F cells [] t 0 (le_refl _)
  · exact le_refl _

theorem infRun_inv (F : Fn α) (cells : List (Cell α)) (t : α) (hc : ∀ c ∈ cells, c.Inv) :
    ∀ c ∈ (infRun F cells t).1, c.Inv := by
  unfold infRun; split_ifs
  · exact infLoop_inv F cells [] t 0 hc (by simp)
  · exact hc

theorem infRun_ts_nonneg (F : Fn α) (cells : List (Cell α)) (t : α)
    (hc : ∀ c ∈ cells, c.c.WF ∧ c.flux ≤ c.c.ksat) : 0 ≤ (infRun F cells t).2.1 := by
  unfold infRun; split_ifs with h
  · exact infLoop_ts_nonneg F cells [] t 0 hc h.le
  · exact le_refl _

theorem infRun_sum_le (F : Fn α) (cells : List (Cell α)) (t : α) (hc : ∀ c ∈ cells, c.Inv)
    (ht : 0 ≤ t) : (infRun F cells t).2.1 + (infRun F cells t).2.2 ≤ t := by
  unfold infRun; split_ifs with h
  · simpa using infLoop_sum_le F cells [] t 0 hc (by simp)
  · simpa using ht

theorem infRun_of_not_pos (F : Fn α) (cells : List (Cell α)) (t : α) (ht : ¬ 0 < t) :
    infRun F cells t = (cells, 0, 0) := by
  unfold infRun; rw [if_neg ht]

/-! ### bund re-storage of backed-up water -/

theorem bundRestore_sum (p1 ri r1 z : α) (b : Bool) :
    (bundRestore p1 ri r1 b z).1 + (bundRestore p1 ri r1 b z).2 = p1 + r1 := by
  unfold bundRestore; simp only []
  split_ifs <;> simp only [] <;> ring

theorem bundRestore_bounds (p1 ri r1 z : α) (b : Bool) (hr : ri ≤ r1) :
    (0 ≤ p1 → 0 ≤ (bundRestore p1 ri r1 b z).1) ∧
    (p1 ≤ z → p1 ≤ (bundRestore p1 ri r1 b z).1) ∧ ri ≤ (bundRestore p1 ri r1 b z).2 ∧
    (p1 ≤ z → (bundRestore p1 ri r1 b z).2 ≤ r1) ∧ (p1 ≤ z → (bundRestore p1 ri r1 b z).1 ≤ z) ∧
    (b = true → 0.001 < z → ri < (bundRestore p1 ri r1 b z).2 → (bundRestore p1 ri r1 b z).1 = z) ∧
    (b = false ∨ z ≤ 0.001 →
      (bundRestore p1 ri r1 b z).1 = p1 ∧ (bundRestore p1 ri r1 b z).2 = r1) := by
  have hno : (b = false ∨ z ≤ 0.001) → ¬ (ri < r1 ∧ b = true ∧ 0.001 < z) := by
    rintro (hb | hz) ⟨-, hb', hz'⟩
    · rw [hb] at hb'; simp at hb'
    · exact absurd hz' (not_lt.mpr hz)
  unfold bundRestore; simp only []
  split_ifs with h1 h2
  · simp only []
    have hz0 : (0:α) ≤ z := le_trans (by norm_num) h1.2.2.le
    refine ⟨fun _ => hz0, fun h => h, by linarith, fun _ => by linarith, fun _ => le_refl _,
      fun _ _ _ => by simp, fun hb => absurd h1 (hno hb)⟩
  · simp only []
    refine ⟨fun h => by linarith, fun _ => by linarith, le_refl _, fun _ => hr, fun _ => not_lt.mp h2,
      fun _ _ h => absurd h (lt_irrefl _), fun hb => absurd h1 (hno hb)⟩
  · simp only []
    refine ⟨fun h => h, fun _ => le_refl _, hr, fun _ => le_refl _, fun h => h, ?_, fun _ => by simp⟩
    intro hb hz hlt
    exact absurd ⟨hlt, hb, hz⟩ h1

/-! ### numerical facts about the surface split -/

theorem infSurface_facts {k? : Option α} {pond infl zBund : α} {bunds : Bool} {s : Surf α}
    (h : infSurface k? pond infl bunds zBund = .ok s) (hI : 0 ≤ infl) (hp : 0 ≤ pond)
    (hk : ∀ k, k? = some k → 0 ≤ k) :
    s.lost = 0 ∧ 0 ≤ s.toStore ∧ 0 ≤ s.runoffIni ∧ 0 ≤ s.pond ∧
    (bunds = true → 0.001 < zBund → (pond ≤ zBund → s.pond ≤ zBund) ∧
        (0 < s.runoffIni → s.pond = zBund)) ∧
    (bunds = false ∨ zBund ≤ 0.001 → s.pond = 0) ∧
    (infl = 0 → pond = 0 → s.toStore = 0 ∧ s.runoffIni = 0 ∧ s.pond = 0) := by
  have hno : bunds = true → 0.001 < zBund → ¬ (bunds = false ∨ zBund ≤ 0.001) := by
    rintro hb hz (hb' | hz')
    · rw [hb] at hb'; simp at hb'
    · exact absurd hz (not_lt.mpr hz')
  rcases infSurface_cases h with ⟨hb, hz, h3, k, hk?, h4, rfl⟩ | ⟨hb, hz, h3, k, hk?, h4, rfl⟩ |
    ⟨hb, hz, h3, rfl⟩ | ⟨hb, k, hk?, h4, rfl⟩ | ⟨hb, k, hk?, h4, rfl⟩
  · have hz0 : 0 ≤ zBund := le_trans (by norm_num) hz.le
    have ho := overtop_bounds k (infl + pond - k) zBund 1 (by linarith) hz0
    rw [overtop_toStore, overtop_lost]
    refine ⟨rfl, hk k hk?, ho.1, ho.2.1, fun _ _ => ⟨fun _ => ho.2.2.1, ho.2.2.2⟩,
      fun hb' => absurd hb' (hno hb hz), ?_⟩
    intro h1 h2; exfalso; rw [h1, h2] at h3; simp at h3
  · have hz0 : 0 ≤ zBund := le_trans (by norm_num) hz.le
    have ho := overtop_bounds (infl + pond) 0 zBund 2 (le_refl _) hz0
    rw [overtop_toStore, overtop_lost]
    refine ⟨rfl, h3.le, ho.1, ho.2.1, fun _ _ => ⟨fun _ => ho.2.2.1, ho.2.2.2⟩,
      fun hb' => absurd hb' (hno hb hz), ?_⟩
    intro h1 h2; exfalso; rw [h1, h2] at h3; simp at h3
  · have h3' := not_lt.mp h3
    have hI0 : infl = 0 := le_antisymm (by linarith) hI
    simp only []
    refine ⟨hI0, le_refl _, le_refl _, hp,
      fun _ _ => ⟨fun h => h, fun h => absurd h (lt_irrefl _)⟩,
      fun hb' => absurd hb' (hno hb hz), fun _ h2 => ⟨by simp, by simp, h2⟩⟩
  · simp only []
    refine ⟨by simp, hk k hk?, by linarith, le_refl _, fun hb' hz' => absurd hb (hno hb' hz'),
      fun _ => by simp, ?_⟩
    intro h1 _; exfalso; have := hk k hk?; rw [h1] at h4; exact absurd h4 (not_lt.mpr this)
  · simp only []
    refine ⟨by simp, hI, by linarith, le_refl _, fun hb' hz' => absurd hb (hno hb' hz'),
      fun _ => by simp, ?_⟩
    intro h1 h2; exact ⟨h1, by rw [h2]; simp, by simp⟩

/-! ### the entry point -/

/-- inversion of a successful call -/
theorem infiltration_ok {F : Fn α} {cells : List (Cell α)} {pond infl irr appEff zBund dp0 ro0 : α}
    {bunds gs : Bool} {out : InfOut α}
    (h : infiltration F cells pond infl irr appEff bunds zBund dp0 ro0 gs = .ok out) :
    0 ≤ infIntake infl irr appEff gs ∧
    ∃ s, infSurface (cells.head?.map (·.c.ksat)) pond (infIntake infl irr appEff gs) bunds zBund
          = .ok s ∧
      out = infFinish F cells s (infIntake infl irr appEff gs) bunds zBund dp0 ro0 := by
  unfold infiltration at h
  simp only [] at h
  by_cases h0 : 0 ≤ infIntake infl irr appEff gs
  · simp only [h0, if_true] at h
    refine ⟨h0, ?_⟩
    cases hs : infSurface (cells.head?.map (·.c.ksat)) pond (infIntake infl irr appEff gs)
      bunds zBund with
    | error e => rw [hs] at h; simp at h
    | ok s =>
      rw [hs] at h
      simp only [] at h
      injection h with h
      exact ⟨s, rfl, h.symm⟩
  · simp only [h0, if_false] at h
    simp at h

theorem infIntake_eq (infl irr appEff : α) (gs : Bool) :
    infIntake infl irr appEff gs = pmax infl 0 + (if gs then irr * (appEff / 100) else 0) := by
  unfold infIntake; cases gs <;> simp

theorem head_ksat_nonneg {cells : List (Cell α)} (hk : ∀ c ∈ cells, 0 ≤ c.c.ksat) :
    ∀ k, cells.head?.map (·.c.ksat) = some k → 0 ≤ k := by
  intro k hk?
  cases cells with
  | nil => simp at hk?
  | cons c cs =>
    simp at hk?
    rw [← hk?]; exact hk c (by simp)

section main
variable {F : Fn α} {cells : List (Cell α)} {pond infl irr appEff zBund dp0 ro0 : α}
  {bunds gs : Bool} {out : InfOut α}

/-- **Water balance** (exact, with the ghost `lost`): soil water + ponded water change by the
reported infiltration minus this process's deep percolation, minus what the code drops. -/
theorem infiltration_balance_lost
    (h : infiltration F cells pond infl irr appEff bunds zBund dp0 ro0 gs = .ok out)
    (hdz : ∀ c ∈ cells, 0 < c.c.dz) :
    storage out.cells + out.pond + (out.deepPerc - dp0)
      = storage cells + pond + out.infl - out.lost := by
  obtain ⟨_, s, hs, rfl⟩ := infiltration_ok h
  have hS := infSurface_balance hs
  have hR := infRun_storage F cells s.toStore hdz
  have hB := bundRestore_sum s.pond s.runoffIni ((infRun F cells s.toStore).2.2 + s.runoffIni)
    zBund bunds
  simp only [infFinish]
  by_cases ht : 0 < s.toStore
  · simp only [ht, if_true] at hR ⊢
    linear_combination hS + hR + hB
  · simp only [ht, if_false] at hR ⊢
    linear_combination hS + hR + hB

/-- nothing is dropped when the incoming ponding depth and `Ksat` are non-negative -/
theorem infiltration_lost_eq_zero
    (h : infiltration F cells pond infl irr appEff bunds zBund dp0 ro0 gs = .ok out)
    (hp : 0 ≤ pond) (hk : ∀ c ∈ cells, 0 ≤ c.c.ksat) : out.lost = 0 := by
  obtain ⟨hI, s, hs, rfl⟩ := infiltration_ok h
  obtain ⟨hl, ht, -⟩ := infSurface_facts hs hI hp (head_ksat_nonneg hk)
  simp only [infFinish, hl]
  split_ifs with h1
  · simp
  · rw [le_antisymm (not_lt.mp h1) ht]; simp

/-- **1. Water balance** in the requested form. -/
theorem infiltration_balance
    (h : infiltration F cells pond infl irr appEff bunds zBund dp0 ro0 gs = .ok out)
    (hdz : ∀ c ∈ cells, 0 < c.c.dz) (hp : 0 ≤ pond) (hk : ∀ c ∈ cells, 0 ≤ c.c.ksat) :
    storage out.cells + out.pond + (out.deepPerc - dp0) = storage cells + pond + out.infl := by
  rw [infiltration_balance_lost h hdz, infiltration_lost_eq_zero h hp hk, sub_zero]

/-- **2. Partition** of the day's intake into reported infiltration and new runoff. -/
theorem infiltration_partition
    (h : infiltration F cells pond infl irr appEff bunds zBund dp0 ro0 gs = .ok out) :
    out.infl + (out.runoffTot - ro0) = pmax infl 0 + (if gs then irr * (appEff / 100) else 0) := by
  obtain ⟨_, s, hs, rfl⟩ := infiltration_ok h
  rw [← infIntake_eq]
  simp only [infFinish]
  ring

/-- the ghost `inflIn` is the intake, and it is non-negative on success (the Python `assert`) -/
theorem infiltration_inflIn
    (h : infiltration F cells pond infl irr appEff bunds zBund dp0 ro0 gs = .ok out) :
    out.inflIn = pmax infl 0 + (if gs then irr * (appEff / 100) else 0) ∧ 0 ≤ out.inflIn := by
  obtain ⟨hI, s, hs, rfl⟩ := infiltration_ok h
  rw [← infIntake_eq]
  exact ⟨rfl, hI⟩

/-- **3. Frame**: parameters, adjusted field capacity and aeration counters are untouched. -/
theorem infiltration_frame_par
    (h : infiltration F cells pond infl irr appEff bunds zBund dp0 ro0 gs = .ok out) :
    out.cells.map Cell.par = cells.map Cell.par := by
  obtain ⟨_, s, hs, rfl⟩ := infiltration_ok h
  exact infRun_par F cells s.toStore

theorem infiltration_frame
    (h : infiltration F cells pond infl irr appEff bunds zBund dp0 ro0 gs = .ok out) :
    out.cells.length = cells.length ∧ out.cells.map (·.c) = cells.map (·.c) ∧
    out.cells.map (·.fcAdj) = cells.map (·.fcAdj) ∧ out.cells.map (·.aer) = cells.map (·.aer) := by
  have hp := infiltration_frame_par h
  refine ⟨?_, ?_, ?_, ?_⟩
  · simpa using congrArg List.length hp
  · simpa [List.map_map, Function.comp_def, Cell.par] using congrArg (List.map (·.1)) hp
  · simpa [List.map_map, Function.comp_def, Cell.par] using congrArg (List.map (·.2.1)) hp
  · simpa [List.map_map, Function.comp_def, Cell.par] using congrArg (List.map (·.2.2)) hp

/-- **4a. Runoff produced by this process is non-negative.** -/
theorem infiltration_runoff_nonneg
    (h : infiltration F cells pond infl irr appEff bunds zBund dp0 ro0 gs = .ok out)
    (hp : 0 ≤ pond) (hk : ∀ c ∈ cells, 0 ≤ c.c.ksat) : 0 ≤ out.runoffTot - ro0 := by
  obtain ⟨hI, s, hs, rfl⟩ := infiltration_ok h
  obtain ⟨-, -, hri, -⟩ := infSurface_facts hs hI hp (head_ksat_nonneg hk)
  have hro := infRun_ro_nonneg F cells s.toStore
  have hb := (bundRestore_bounds s.pond s.runoffIni ((infRun F cells s.toStore).2.2 + s.runoffIni)
    zBund bunds (by linarith)).2.2.1
  simp only [infFinish]
  linarith

/-- **4b. … and at most the day's intake plus the water that was ponded.**
Needs `FluxOut ≤ Ksat` on entry (otherwise `drainmax < 0` and the loop sends more up than came
in) and `th ≤ th_s` (otherwise the back-up loop expels pre-existing water). -/
theorem infiltration_runoff_le
    (h : infiltration F cells pond infl irr appEff bunds zBund dp0 ro0 gs = .ok out)
    (hinv : ∀ c ∈ cells, c.Inv) (hfl : ∀ c ∈ cells, c.flux ≤ c.c.ksat) (hp : 0 ≤ pond) :
    out.runoffTot - ro0 ≤ out.inflIn + pond := by
  obtain ⟨hI, s, hs, rfl⟩ := infiltration_ok h
  have hk : ∀ c ∈ cells, 0 ≤ c.c.ksat := fun c hc => (hinv c hc).wf.ksat_nn
  obtain ⟨hl, hT, hri, hsp, -⟩ := infSurface_facts hs hI hp (head_ksat_nonneg hk)
  have hS := infSurface_balance hs
  have hro := infRun_ro_nonneg F cells s.toStore
  have hsum := infRun_sum_le F cells s.toStore hinv hT
  have hts := infRun_ts_nonneg F cells s.toStore (fun c hc => ⟨(hinv c hc).wf, hfl c hc⟩)
  have hB := bundRestore_sum s.pond s.runoffIni ((infRun F cells s.toStore).2.2 + s.runoffIni)
    zBund bunds
  have hb := (bundRestore_bounds s.pond s.runoffIni ((infRun F cells s.toStore).2.2 + s.runoffIni)
    zBund bunds (by linarith)).1 hsp
  simp only [infFinish]
  rw [hl] at hS
  linarith

/-- **4c. Negative reported infiltration** only happens when the no-bunds block runs (no bunds,
or bunds not higher than 1 mm) and ponded water is released, and is bounded by that water. -/
theorem infiltration_infl_neg
    (h : infiltration F cells pond infl irr appEff bunds zBund dp0 ro0 gs = .ok out)
    (hinv : ∀ c ∈ cells, c.Inv) (hfl : ∀ c ∈ cells, c.flux ≤ c.c.ksat) (hp : 0 ≤ pond)
    (hpz : bunds = true → 0.001 < zBund → pond ≤ zBund) (hneg : out.infl < 0) :
    (bunds = false ∨ zBund ≤ 0.001) ∧ 0 < pond ∧ -out.infl ≤ pond := by
  have hub := infiltration_runoff_le h hinv hfl hp
  obtain ⟨hI, s, hs, rfl⟩ := infiltration_ok h
  have hk : ∀ c ∈ cells, 0 ≤ c.c.ksat := fun c hc => (hinv c hc).wf.ksat_nn
  obtain ⟨hl, hT, hri, hsp, hbt, -⟩ := infSurface_facts hs hI hp (head_ksat_nonneg hk)
  have hS := infSurface_balance hs
  have hro := infRun_ro_nonneg F cells s.toStore
  have hsum := infRun_sum_le F cells s.toStore hinv hT
  have hts := infRun_ts_nonneg F cells s.toStore (fun c hc => ⟨(hinv c hc).wf, hfl c hc⟩)
  have hB := bundRestore_sum s.pond s.runoffIni ((infRun F cells s.toStore).2.2 + s.runoffIni)
    zBund bunds
  obtain ⟨-, b2, b3, -, b5, b6, -⟩ := bundRestore_bounds s.pond s.runoffIni
    ((infRun F cells s.toStore).2.2 + s.runoffIni) zBund bunds (by linarith)
  simp only [infFinish] at hub hneg ⊢
  rw [hl] at hS
  refine ⟨?_, by linarith, by linarith⟩
  by_contra hcon
  have hb : bunds = true := by
    cases bunds
    · exact absurd (Or.inl rfl) hcon
    · rfl
  have hz : 0.001 < zBund := not_le.mp (fun hz => hcon (Or.inr hz))
  obtain ⟨hle, hfull⟩ := hbt hb hz
  have hle := hle (hpz hb hz)
  have h1 : (bundRestore s.pond s.runoffIni ((infRun F cells s.toStore).2.2 + s.runoffIni)
      bunds zBund).1 = zBund := by
    by_cases hlt : s.runoffIni < (bundRestore s.pond s.runoffIni
        ((infRun F cells s.toStore).2.2 + s.runoffIni) bunds zBund).2
    · exact b6 hb hz hlt
    · have : 0 < s.runoffIni := by linarith [not_lt.mp hlt]
      have hfull := hfull this
      exact le_antisymm (b5 hle) (by have := b2 hle; linarith)
  have := hpz hb hz
  linarith

/-- **4d. Dry day**: no intake and nothing ponded → nothing happens. -/
theorem infiltration_dry
    (h : infiltration F cells pond infl irr appEff bunds zBund dp0 ro0 gs = .ok out)
    (hk : ∀ c ∈ cells, 0 ≤ c.c.ksat)
    (hI0 : pmax infl 0 + (if gs then irr * (appEff / 100) else 0) = 0) (hp0 : pond = 0) :
    out.infl = 0 ∧ out.runoffTot = ro0 ∧ out.cells = cells ∧ out.pond = 0 ∧ out.deepPerc = dp0 := by
  obtain ⟨hI, s, hs, rfl⟩ := infiltration_ok h
  rw [← infIntake_eq] at hI0
  obtain ⟨-, -, -, -, -, -, hz⟩ := infSurface_facts hs hI (le_of_eq hp0.symm) (head_ksat_nonneg hk)
  obtain ⟨hT, hri, hsp⟩ := hz hI0 hp0
  simp only [infFinish, hT, hri, hsp, hI0, infRun_of_not_pos F cells 0 (lt_irrefl _)]
  simp [bundRestore]

/-- **5. Invariant**: `Cell.Inv` is preserved; the ponding depth stays in `[0, zBund]` with bunds
and is 0 without bunds or with bunds not higher than 1 mm. -/
theorem infiltration_inv
    (h : infiltration F cells pond infl irr appEff bunds zBund dp0 ro0 gs = .ok out)
    (hinv : ∀ c ∈ cells, c.Inv) (hp : 0 ≤ pond) :
    (∀ c ∈ out.cells, c.Inv) ∧ 0 ≤ out.pond ∧ (bunds = true → pond ≤ zBund → out.pond ≤ zBund) ∧
    (bunds = false ∨ zBund ≤ 0.001 → out.pond = 0) := by
  obtain ⟨hI, s, hs, rfl⟩ := infiltration_ok h
  have hk : ∀ c ∈ cells, 0 ≤ c.c.ksat := fun c hc => (hinv c hc).wf.ksat_nn
  obtain ⟨-, -, hri, hsp, hbt, hbf, -⟩ := infSurface_facts hs hI hp (head_ksat_nonneg hk)
  have hro := infRun_ro_nonneg F cells s.toStore
  obtain ⟨b1, -, -, -, b5, -, b7⟩ := bundRestore_bounds s.pond s.runoffIni
    ((infRun F cells s.toStore).2.2 + s.runoffIni) zBund bunds (by linarith)
  simp only [infFinish]
  refine ⟨infRun_inv F cells s.toStore hinv, b1 hsp, ?_, fun hb => by rw [(b7 hb).1, hbf hb]⟩
  intro hb hpz
  by_cases hz : 0.001 < zBund
  · exact b5 ((hbt hb hz).1 hpz)
  · have hlow : bunds = false ∨ zBund ≤ 0.001 := Or.inr (not_lt.mp hz)
    rw [(b7 hlow).1, hbf hlow]; linarith

/-- **6. Deep percolation added by this process is non-negative** when `FluxOut ≤ Ksat` on entry. -/
theorem infiltration_deepPerc_nonneg
    (h : infiltration F cells pond infl irr appEff bunds zBund dp0 ro0 gs = .ok out)
    (hc : ∀ c ∈ cells, c.c.WF ∧ c.flux ≤ c.c.ksat) : 0 ≤ out.deepPerc - dp0 := by
  obtain ⟨hI, s, hs, rfl⟩ := infiltration_ok h
  have := infRun_ts_nonneg F cells s.toStore hc
  simp only [infFinish]
  linarith

/-! ### success / failure -/

/-- everything but the ghost branch id -/
def InfOut.noBranch (o : InfOut α) : InfOut α := { o with branch := 0 }

/-- **Bunds not higher than 1 mm behave exactly like no bunds** (all outputs and ghosts except
the branch id coincide; errors coincide).  This replaces the `UnboundLocalError` of the unfixed
code. -/
theorem infiltration_low_bund (F : Fn α) (cells : List (Cell α))
    (pond infl irr appEff zBund dp0 ro0 : α) (gs : Bool) (hz : zBund ≤ 0.001) :
    (infiltration F cells pond infl irr appEff true zBund dp0 ro0 gs).map InfOut.noBranch
      = (infiltration F cells pond infl irr appEff false zBund dp0 ro0 gs).map InfOut.noBranch := by
  have hnz : ¬ (0.001 : α) < zBund := not_lt.mpr hz
  unfold infiltration
  simp only []
  by_cases h0 : 0 ≤ infIntake infl irr appEff gs
  · simp only [h0, if_true, infSurface, hnz, hz, and_false, if_false, or_true, if_true,
      Bool.false_eq_true, noBunds]
    cases cells.head?.map (·.c.ksat) with
    | none => rfl
    | some k =>
      simp only []
      by_cases h4 : k < infIntake infl irr appEff gs
      · simp [h4, Except.map, InfOut.noBranch, infFinish, bundRestore, hnz]
      · simp [h4, Except.map, InfOut.noBranch, infFinish, bundRestore, hnz]
  · simp only [h0, if_false]

/-- the model never reports `E:unbound` in an ordered field -/
theorem infiltration_ne_unbound (F : Fn α) (cells : List (Cell α))
    (pond infl irr appEff zBund dp0 ro0 : α) (bunds gs : Bool) :
    infiltration F cells pond infl irr appEff bunds zBund dp0 ro0 gs ≠ .error "E:unbound" := by
  unfold infiltration
  simp only []
  split_ifs
  · have := infSurface_ne_unbound (cells.head?.map (·.c.ksat)) pond
      (infIntake infl irr appEff gs) zBund bunds
    cases hs : infSurface (cells.head?.map (·.c.ksat)) pond (infIntake infl irr appEff gs)
      bunds zBund with
    | error e => rw [hs] at this; simpa using this
    | ok s => simp
  · simp

/-- On a non-empty profile with a non-negative irrigation term the call succeeds. -/
theorem infiltration_isOk (F : Fn α) (c : Cell α) (cs : List (Cell α))
    (pond infl irr appEff zBund dp0 ro0 : α) (bunds gs : Bool)
    (hirr : gs = true → 0 ≤ irr * (appEff / 100)) :
    ∃ out, infiltration F (c :: cs) pond infl irr appEff bunds zBund dp0 ro0 gs = .ok out := by
  have hI : 0 ≤ infIntake infl irr appEff gs := by
    rw [infIntake_eq, pmax_eq]
    have : (0:α) ≤ max infl 0 := le_max_right _ _
    cases gs
    · simp
    · have := hirr rfl; simp only [if_true]; linarith
  unfold infiltration
  simp only [hI, if_true, List.head?_cons, Option.map_some, infSurface, noBunds]
  by_cases h1 : bunds = true ∧ (0.001 : α) < zBund
  · simp only [h1, and_self, if_true]
    split_ifs <;> exact ⟨_, rfl⟩
  · have h2 : bunds = false ∨ zBund ≤ 0.001 := by
      cases bunds
      · exact Or.inl rfl
      · exact Or.inr (not_lt.mp (fun hz => h1 ⟨rfl, hz⟩))
    rw [if_neg h1, if_pos h2]
    split_ifs <;> exact ⟨_, rfl⟩

end main

/-! ### non-vacuity: the hypotheses of the lemmas above are jointly satisfiable -/

section nonvacuous

/-- a loam-like compartment over `ℚ` -/
def exComp : Comp ℚ :=
  { dz := 0.1, dzsum := 0.1, zMid := 0.05, thS := 0.46, thFC := 0.31, thWP := 0.15, thDry := 0.075,
    tau := 0.76, ksat := 500, pen := 100, aCR := 0, bCR := 0, layer := 1 }

def exCell : Cell ℚ := { c := exComp, th := 0.31, fcAdj := 0.31, flux := 0, aer := 0 }

def exFn : Fn ℚ :=
  { exp := id, log := id, log10 := id, pow := fun x y => if y = 2 then x * x else x, round0 := id,
    round2 := id, round3 := id, round4 := id, pyRound2 := id }

theorem exCell_inv : exCell.Inv := by
  refine ⟨⟨?_, ?_, ?_, ?_, ?_, ?_, ?_, ?_⟩, ?_, ?_, ?_, ?_⟩ <;> norm_num [exCell, exComp]

/-- a successful call (rain 30 mm + irrigation, bunds of 100 mm, 20 mm ponded) whose inputs
satisfy every hypothesis used above -/
example : ∃ out, infiltration exFn [exCell, exCell] 20 30 10 90 true 100 0 0 true = .ok out ∧
    (∀ c ∈ [exCell, exCell], c.Inv) ∧ (∀ c ∈ [exCell, exCell], c.flux ≤ c.c.ksat) ∧
    (0:ℚ) ≤ 20 ∧ ((20:ℚ) ≤ 100) := by
  obtain ⟨out, h⟩ := infiltration_isOk exFn exCell [exCell] 20 30 10 90 100 0 0 true true
    (fun _ => by norm_num)
  refine ⟨out, h, ?_, ?_, by norm_num, by norm_num⟩
  · intro c hc; simp at hc; rw [hc]; exact exCell_inv
  · intro c hc; simp at hc; rw [hc]; norm_num [exCell, exComp]

end nonvacuous

#print axioms infiltration_balance_lost
#print axioms infiltration_lost_eq_zero
#print axioms infiltration_balance
#print axioms infiltration_partition
#print axioms infiltration_inflIn
#print axioms infiltration_frame
#print axioms infiltration_runoff_nonneg
#print axioms infiltration_runoff_le
#print axioms infiltration_infl_neg
#print axioms infiltration_dry
#print axioms infiltration_inv
#print axioms infiltration_deepPerc_nonneg
#print axioms infiltration_low_bund
#print axioms infiltration_ne_unbound
#print axioms infiltration_isOk
#print axioms backUp_storage
#print axioms infLoop_storage

end Aqua
