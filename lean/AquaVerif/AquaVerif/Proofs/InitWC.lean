import AquaVerif.Model.InitWC
import AquaVerif.Proofs.PowSq
/-
Lemmas about the initial water content (`Model/InitWC.lean`), property C18 (second half).
-/

set_option linter.unusedSectionVars false
set_option linter.unusedVariables false
namespace Aqua
variable {α : Type} [Field α] [LinearOrder α] [IsStrictOrderedRing α]

/-! ## Per-layer means (`groupby("Layer").mean()`) -/

/-- in exact arithmetic the Kahan compensation vanishes: the compensated sum is the sum. -/
theorem kahan_exact (s : α) (xs : List α) : kahan s 0 xs = s + xs.sum := by
  induction xs generalizing s with
  | nil => simp [kahan]
  | cons v vs ih =>
    simp only [kahan, sub_zero]
    have hc : (s + v - s - v : α) = 0 := by ring
    simp only [hc, le_refl, if_true]
    rw [ih]; simp [add_assoc]

theorem kmean_const (x : α) (xs : List α) (hne : xs ≠ []) (h : ∀ y ∈ xs, y = x) : kmean xs = x := by
  unfold kmean
  rw [kahan_exact]
  have hs : xs.sum = (xs.length : α) * x := by
    clear hne
    induction xs with
    | nil => simp
    | cons y ys ih =>
      have hy : y = x := h y (by simp)
      have := ih (fun z hz => h z (List.mem_cons_of_mem _ hz))
      simp only [List.sum_cons, List.length_cons, this, hy]
      push_cast; ring
  have hn : (xs.length : α) ≠ 0 := by
    have : xs.length ≠ 0 := by simpa using hne
    exact_mod_cast this
  rw [hs, zero_add]
  field_simp

/-- the hydrology table gives back the layer's own value whenever all compartments of the layer
share it (which the builder guarantees, `deepen_keeps_layers`). -/
theorem layerMean_const (l : Nat) (f : Comp α → α) (cs : List (Comp α)) (v : α)
    (hex : ∃ c ∈ cs, c.layer = l) (h : ∀ c ∈ cs, c.layer = l → f c = v) :
    layerMean l f cs = v := by
  unfold layerMean layerVals
  apply kmean_const
  · obtain ⟨c, hc, hl⟩ := hex
    intro hnil
    have : f c ∈ (cs.filter (fun c => c.layer == l)).map f :=
      List.mem_map.mpr ⟨c, List.mem_filter.mpr ⟨hc, by simpa using hl⟩, rfl⟩
    rw [hnil] at this; simp at this
  · intro y hy
    obtain ⟨c, hc, rfl⟩ := List.mem_map.mp hy
    have := List.mem_filter.mp hc
    exact h c this.1 (by simpa using this.2)

/-! ## `Layer` method -/

/-- the value the data points give to layer `l`: the **last** point naming `l` wins, `d` if none. -/
def layerValue (l : Nat) : List (Nat × α) → α → α
  | [], d => d
  | (l', v) :: rest, d => layerValue l rest (if l == l' then v else d)

theorem zipWith_keep (cs : List (Comp α)) (th : List α) (h : th.length = cs.length) :
    List.zipWith (fun (_ : Comp α) (t : α) => t) cs th = th := by
  induction cs generalizing th with
  | nil => cases th with
    | nil => rfl
    | cons t ts => simp at h
  | cons c cs ih =>
    cases th with
    | nil => simp at h
    | cons t ts => simp only [List.zipWith_cons_cons, ih ts (by simpa using h)]

theorem zipWith_comp (f g : Comp α → α → α) (cs : List (Comp α)) (th : List α) :
    List.zipWith f cs (List.zipWith g cs th) = List.zipWith (fun c t => f c (g c t)) cs th := by
  induction cs generalizing th with
  | nil => rfl
  | cons c cs ih =>
    cases th with
    | nil => rfl
    | cons t ts => simp only [List.zipWith_cons_cons, ih]

theorem zipWith_map_const (g : Comp α → α → α) (d : α) (cs : List (Comp α)) :
    List.zipWith g cs (cs.map (fun _ => d)) = cs.map (fun c => g c d) := by
  induction cs with
  | nil => rfl
  | cons c cs ih => simp only [List.map_cons, List.zipWith_cons_cons, ih]

theorem fillLayers_eq (cs : List (Comp α)) (pts : List (Nat × α)) (th : List α)
    (hlen : th.length = cs.length) :
    fillLayers cs pts th = List.zipWith (fun c t => layerValue c.layer pts t) cs th := by
  induction pts generalizing th with
  | nil =>
    simp only [fillLayers, layerValue]
    exact (zipWith_keep cs th hlen).symm
  | cons p rest ih =>
    obtain ⟨l, v⟩ := p
    simp only [fillLayers]
    rw [ih _ (by simp [hlen]), zipWith_comp]
    rfl

/-- `Prop`/`Pct`/`Num` value of one `Layer` data point. -/
theorem pointValue_layer_prop (cs : List (Comp α)) (p : WcPoint α) (wp fc s : α)
    (h : hydRow p.lay cs = some (wp, fc, s)) :
    pointValue .prop .layer cs p = .ok (match p.prop with
      | .sat => s | .fc => fc | .wp => wp | .other => 0) := by
  simp only [pointValue, h]
  cases p.prop <;> rfl

theorem pointValue_layer_pct (cs : List (Comp α)) (p : WcPoint α) (wp fc s : α)
    (h : hydRow p.lay cs = some (wp, fc, s)) :
    pointValue .pct .layer cs p = .ok (wp + p.num / 100 * (fc - wp)) := by
  simp [pointValue, h]

theorem pointValue_num (me : WcMethod) (cs : List (Comp α)) (p : WcPoint α) :
    pointValue .num me cs p = .ok p.num := rfl

/-- the hydrology row of a layer whose compartments share their hydraulic values -/
theorem hydRow_const (l : Nat) (cs : List (Comp α)) (wp fc s : α)
    (hex : ∃ c ∈ cs, c.layer = l)
    (h : ∀ c ∈ cs, c.layer = l → c.thWP = wp ∧ c.thFC = fc ∧ c.thS = s) :
    hydRow l cs = some (wp, fc, s) := by
  unfold hydRow
  have hany : cs.any (fun c => c.layer == l) = true := by
    obtain ⟨c, hc, hl⟩ := hex
    exact List.any_eq_true.mpr ⟨c, hc, by simpa using hl⟩
  simp only [hany, if_true]
  rw [layerMean_const l _ cs wp hex (fun c hc hl => (h c hc hl).1),
      layerMean_const l _ cs fc hex (fun c hc hl => (h c hc hl).2.1),
      layerMean_const l _ cs s hex (fun c hc hl => (h c hc hl).2.2)]

/-- **iwc_layer**: with the `Layer` method and no water table, every compartment receives the value
of its layer's data point (the last one naming the layer; 0 when none does — the implementation
starts from zeros). -/
theorem iwc_layer (F : Fn α) (cs : List (Comp α)) (zgw zSoil : α) (ty : WcType)
    (pts : List (WcPoint α)) (vals : List α) (o : InitOut α)
    (hv : pointValues ty .layer cs pts = .ok vals)
    (h : initWC F cs false zgw zSoil ty .layer pts = .ok o) :
    o.th = cs.map (fun c => layerValue c.layer ((pts.map (·.lay)).zip vals) 0) ∧
      o.wtInSoil = false ∧ o.fcAdjInit = cs.map (·.thFC) := by
  unfold initWC at h
  simp only [hv, wtInSoil, Bool.false_and, Bool.false_eq_true, if_false, fcAdjInit,
    Except.ok.injEq] at h
  subst h
  refine ⟨?_, rfl, rfl⟩
  rw [fillLayers_eq _ _ _ (by simp)]
  exact zipWith_map_const _ 0 cs

/-- **iwc_layer, one layer spelled out**: if all compartments of layer `l` share
(θ_wp, θ_fc, θ_s) and `l` is named by exactly the data point `p` (`Prop` type), every compartment of
layer `l` starts at the requested property. -/
theorem iwc_layer_prop (F : Fn α) (cs : List (Comp α)) (zgw zSoil : α) (p : WcPoint α)
    (wp fc s : α) (o : InitOut α)
    (hex : ∃ c ∈ cs, c.layer = p.lay)
    (hconst : ∀ c ∈ cs, c.layer = p.lay → c.thWP = wp ∧ c.thFC = fc ∧ c.thS = s)
    (h : initWC F cs false zgw zSoil .prop .layer [p] = .ok o) :
    o.th = cs.map (fun c => if c.layer = p.lay then
      (match p.prop with | .sat => s | .fc => fc | .wp => wp | .other => 0) else 0) := by
  have hr := hydRow_const p.lay cs wp fc s hex hconst
  have hv : pointValues .prop .layer cs [p] = .ok [match p.prop with
      | .sat => s | .fc => fc | .wp => wp | .other => 0] := by
    simp only [pointValues, pointValue_layer_prop cs p wp fc s hr]
  rw [(iwc_layer F cs zgw zSoil .prop [p] _ o hv h).1]
  apply List.map_congr_left
  intro c _
  simp only [List.map_cons, List.map_nil, List.zip_cons_cons, List.zip_nil_right, layerValue]
  by_cases hl : c.layer = p.lay <;> simp [hl]

/-- the same for a percentage of the available water: `θ = θ_wp + pct/100·(θ_fc − θ_wp)`. -/
theorem iwc_layer_pct (F : Fn α) (cs : List (Comp α)) (zgw zSoil : α) (p : WcPoint α)
    (wp fc s : α) (o : InitOut α)
    (hex : ∃ c ∈ cs, c.layer = p.lay)
    (hconst : ∀ c ∈ cs, c.layer = p.lay → c.thWP = wp ∧ c.thFC = fc ∧ c.thS = s)
    (h : initWC F cs false zgw zSoil .pct .layer [p] = .ok o) :
    o.th = cs.map (fun c => if c.layer = p.lay then wp + p.num / 100 * (fc - wp) else 0) := by
  have hr := hydRow_const p.lay cs wp fc s hex hconst
  have hv : pointValues .pct .layer cs [p] = .ok [wp + p.num / 100 * (fc - wp)] := by
    simp only [pointValues, pointValue_layer_pct cs p wp fc s hr]
  rw [(iwc_layer F cs zgw zSoil .pct [p] _ o hv h).1]
  apply List.map_congr_left
  intro c _
  simp only [List.map_cons, List.map_nil, List.zip_cons_cons, List.zip_nil_right, layerValue]
  by_cases hl : c.layer = p.lay <;> simp [hl]

/-! ## `np.interp` -/

theorem interp_left (x : α) (p : α × α) (ps : List (α × α)) (h : x < p.1) :
    interp x (p :: ps) = some p.2 := by
  simp [interp, h]

theorem interpGo_skip (x : α) (lo : α × α) (pre : List (α × α)) (rest : List (α × α))
    (a : α × α) (h : ∀ p ∈ pre ++ [a], p.1 ≤ x) :
    interpGo x lo (pre ++ a :: rest) = interpGo x a rest := by
  induction pre generalizing lo with
  | nil => simp [interpGo, h a (by simp)]
  | cons q qs ih =>
    have hq : q.1 ≤ x := h q (by simp)
    simp only [List.cons_append, interpGo, hq, if_true]
    exact ih q (fun p hp => h p (by simp at hp ⊢; tauto))

/-- **interp_between**: between two consecutive data points the result is the straight line through
them (numpy's formula `slope·(x − x_lo) + y_lo`), exactly `y_lo` at `x = x_lo`. -/
theorem interp_between (x : α) (pre post : List (α × α)) (a b : α × α)
    (hpre : ∀ p ∈ pre, p.1 ≤ x) (ha : a.1 ≤ x) (hb : x < b.1) :
    interp x (pre ++ a :: b :: post) =
      some (if x ≤ a.1 then a.2 else (b.2 - a.2) / (b.1 - a.1) * (x - a.1) + a.2) := by
  have hnb : ¬ (b.1 ≤ x) := not_le.mpr hb
  cases pre with
  | nil =>
    have : ¬ (x < a.1) := not_lt.mpr ha
    simp only [List.nil_append, interp, this, if_false, interpGo, hnb, ha, true_and]
  | cons q qs =>
    have hq : ¬ (x < q.1) := not_lt.mpr (hpre q (by simp))
    simp only [List.cons_append, interp, hq, if_false]
    rw [interpGo_skip x q qs (b :: post) a (by
      intro p hp; simp at hp; rcases hp with hp | rfl
      · exact hpre p (by simp [hp])
      · exact ha)]
    simp only [interpGo, hnb, if_false, ha, true_and]

/-- **interp_at_points**: at a data point (followed by a strictly larger one) the value is the
data value. -/
theorem interp_at_point (pre post : List (α × α)) (a b : α × α)
    (hpre : ∀ p ∈ pre, p.1 ≤ a.1) (hb : a.1 < b.1) :
    interp a.1 (pre ++ a :: b :: post) = some a.2 := by
  rw [interp_between a.1 pre post a b hpre (le_refl _) hb]; simp

/-- right of (or at) the last data point the last value is held. -/
theorem interp_right (x : α) (pre : List (α × α)) (a : α × α)
    (hpre : ∀ p ∈ pre, p.1 ≤ x) (ha : a.1 ≤ x) :
    interp x (pre ++ [a]) = some a.2 := by
  cases pre with
  | nil =>
    have : ¬ (x < a.1) := not_lt.mpr ha
    simp [interp, this, interpGo]
  | cons q qs =>
    have hq : ¬ (x < q.1) := not_lt.mpr (hpre q (by simp))
    simp only [List.cons_append, interp, hq, if_false]
    rw [interpGo_skip x q qs [] a (by
      intro p hp; simp at hp; rcases hp with hp | rfl
      · exact hpre p (by simp [hp])
      · exact ha)]
    simp [interpGo]

/-- the straight line stays between the two data values (so the interpolated water content stays
within the range of the given values). -/
theorem interp_between_bounds (x : α) (a b : α × α) (ha : a.1 ≤ x) (hb : x < b.1) :
    min a.2 b.2 ≤ (b.2 - a.2) / (b.1 - a.1) * (x - a.1) + a.2 ∧
    (b.2 - a.2) / (b.1 - a.1) * (x - a.1) + a.2 ≤ max a.2 b.2 := by
  have hd : 0 < b.1 - a.1 := by linarith
  set t := (x - a.1) / (b.1 - a.1) with ht
  have ht0 : 0 ≤ t := div_nonneg (by linarith) hd.le
  have ht1 : t ≤ 1 := by rw [ht, div_le_one hd]; linarith
  have e : (b.2 - a.2) / (b.1 - a.1) * (x - a.1) + a.2 = a.2 + t * (b.2 - a.2) := by
    rw [ht]; field_simp; ring
  rw [e]
  rcases le_total a.2 b.2 with h | h
  · rw [min_eq_left h, max_eq_right h]
    constructor <;> nlinarith
  · rw [min_eq_right h, max_eq_left h]
    constructor <;> nlinarith

/-! ## `Depth` method -/

/-- **iwc_depth_is_interp**: with the `Depth` method and no water table, the initial water content
of every compartment is `np.interp` of the (padded) data points at the compartment mid-depth
computed from `dzsum` (`comp_mid`, the geometrically correct one). -/
theorem iwc_depth_is_interp (F : Fn α) (cs : List (Comp α)) (zgw zSoil : α) (ty : WcType)
    (pts : List (WcPoint α)) (o : InitOut α)
    (h : initWC F cs false zgw zSoil ty .depth pts = .ok o) :
    ∃ vals padded, pointValues ty .depth cs pts = .ok vals ∧
      padPoints zSoil ((pts.map (·.depth)).zip vals) = some padded ∧
      o.th.map some = (compMid cs).map (fun x => interp x padded) := by
  unfold initWC at h
  cases hv : pointValues ty .depth cs pts with
  | error e => simp [hv] at h
  | ok vals =>
    simp only [hv] at h
    cases hp : padPoints zSoil ((pts.map (·.depth)).zip vals) with
    | none => simp [hp] at h
    | some padded =>
      simp only [hp] at h
      cases hi : interpAll padded (compMid cs) with
      | none => simp [hi] at h
      | some th =>
        simp only [hi, wtInSoil, Bool.false_and, Bool.false_eq_true, if_false,
          Except.ok.injEq] at h
        subst h
        refine ⟨vals, padded, rfl, hp, ?_⟩
        simp only []
        generalize compMid cs = xs at hi
        induction xs generalizing th with
        | nil => simp only [interpAll, Option.some.injEq] at hi; subst hi; rfl
        | cons x xs ih =>
          simp only [interpAll] at hi
          cases hx : interp x padded with
          | none => simp [hx] at hi
          | some v =>
            simp only [hx] at hi
            cases hr : interpAll padded xs with
            | none => simp [hr] at hi
            | some r =>
              simp only [hr, Option.map_some, Option.some.injEq] at hi
              subst hi
              simp [hx, ih r hr]

/-- the padding: a zero point carrying the first value when the first depth is positive, an end
point at the profile bottom carrying the last value when the last depth is above it — so the
interpolation is constant above the first and below the last data point. -/
theorem padPoints_single (zSoil d v : α) (hd : 0 < d) (hz : d < zSoil) :
    padPoints zSoil [(d, v)] = some [(0, v), (d, v), (zSoil, v)] := by
  simp [padPoints, hd, lastD, hz]

/-! ## Non-vacuity (a concrete 3-compartment, 2-layer profile over ℚ) -/

example : interp (3 / 2 : ℚ) [(0, 1), (1, 2), (2, 4)] = some 3 := by
  norm_num [interp, interpGo]

private def idF : Fn ℚ :=
  ⟨id, id, id, fun x y => if y = 2 then x * x else x, id, id, id, id, id⟩
private def c1 : Comp ℚ := ⟨1/10, 1/10, 1/20, 1/2, 3/10, 1/10, 1/20, 3/4, 500, 100, 0, 0, 1⟩
private def c2 : Comp ℚ := ⟨1/10, 2/10, 3/20, 1/2, 3/10, 1/10, 1/20, 3/4, 500, 100, 0, 0, 1⟩
private def c3 : Comp ℚ := ⟨1/10, 3/10, 5/20, 46/100, 31/100, 15/100, 3/40, 3/4, 500, 100, 0, 0, 2⟩

example : PowSqLaw idF := ⟨fun x => by simp [idF]⟩

/-- layer 1 at field capacity, layer 2 at saturation -/
example : (initWC idF [c1, c2, c3] false 0 (3/10) .prop .layer
    [⟨1, 0, 0, .fc⟩, ⟨2, 0, 0, .sat⟩]).toOption.map (·.th) = some [3/10, 3/10, 46/100] := by
  norm_num [initWC, pointValues, pointValue, hydRow, layerMean, layerVals, kmean, kahan, c1, c2, c3,
    fcAdjInit, wtInSoil, fillLayers, Except.toOption]

/-- 50 % of the available water in layer 1, layer 2 not named → 0 (below air-dry!) -/
example : (initWC idF [c1, c2, c3] false 0 (3/10) .pct .layer
    [⟨1, 0, 50, .other⟩]).toOption.map (·.th) = some [1/5, 1/5, 0] := by
  norm_num [initWC, pointValues, pointValue, hydRow, layerMean, layerVals, kmean, kahan, c1, c2, c3,
    fcAdjInit, wtInSoil, fillLayers, Except.toOption]

end Aqua
