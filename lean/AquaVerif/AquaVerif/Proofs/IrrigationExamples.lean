import AquaVerif.Proofs.Irrigation
import AquaVerif.Proofs.GrowthStage
import AquaVerif.Proofs.RootZone
import Mathlib.Algebra.Order.Field.Rat
/-
Non-vacuity: concrete successful calls over `ℚ` (identity rounding) that satisfy the hypotheses
of the lemmas of `Proofs/Irrigation.lean`, one per irrigation method, evaluated by the kernel.
One 1 m compartment with θ = 0.2, FC = 0.3, WP = 0.1 (TAW = 200 mm, Dr = 100 mm),
ETpot = 2 mm → Depletion = 102 mm.
-/

namespace Aqua.IrrEx
open Aqua

def idFn : Fn ℚ := ⟨id, id, id, fun x y => if y = 2 then x * x else x, id, id, id, id, id⟩
def c1 : Comp ℚ :=
  { dz := 1, dzsum := 1, zMid := 1/2, thS := 1/2, thFC := 3/10, thWP := 1/10,
    thDry := 1/20, tau := 1/2, ksat := 500, pen := 100, aCR := 0, bCR := 0, layer := 1 }
def cell1 : Cell ℚ := { c := c1, th := 2/10, fcAdj := 3/10, flux := 0, aer := 0 }
/-- a profile above field capacity (AbvFc branch) -/
def cellWet : Cell ℚ := { c := c1, th := 4/10, fcAdj := 3/10, flux := 0, aer := 0 }
def P (m : Nat) : IrrParams ℚ :=
  { method := m, smt := fun i => if i.val = 1 then 60 else 40, appEff := 80, maxIrr := 25,
    interval := 3, depth := 7, maxSeason := 100 }

/-- `(Depletion, TAW, IrrCum, Irr)` of a call, `none` on error -/
def res (r : Except IrrErr (IrrOut ℚ)) : Option (ℚ × ℚ × ℚ × ℚ) :=
  match r with
  | .ok o => some (o.depletion, o.taw, o.irrCum, o.irr)
  | .error _ => none

/-- the call used below: stage 2, `IrrCum`, DAP, schedule value free -/
def call (m : Nat) (cells : List (Cell ℚ)) (irrCum : ℚ) (dap : Nat) (sched : Option ℚ)
    (gs : Bool) : Except IrrErr (IrrOut ℚ) :=
  irrigation idFn (P m) cells 2 irrCum 1 1 1 dap sched (3/10) 5 1 gs 0 0

-- method 2, day 4 = 1 + 3: fires; gross = min 25 (102·1.2) = 25; cap 100 binds at IrrCum 90
theorem ex_interval_cap : res (call 2 [cell1] 90 4 none true) = some (102, 200, 100, 10) := by
  decide +kernel
-- method 2, day 5: nothing
theorem ex_interval_off : res (call 2 [cell1] 0 5 none true) = some (102, 200, 0, 0) := by
  decide +kernel
-- method 1, stage 2 → SMT[1] = 60: 102/200 > 1 − 0.6 → fires
theorem ex_smt_fire : res (call 1 [cell1] 0 4 none true) = some (102, 200, 25, 25) := by
  decide +kernel
-- method 1 on day 1: stage forced to 1 → SMT[0] = 40: 0.51 > 0.6 fails → nothing
theorem ex_smt_day1 : res (call 1 [cell1] 0 1 none true) = some (102, 200, 0, 0) := by
  decide +kernel
-- method 3: scheduled 30 mm limited to MaxIrr = 25; scheduled 0 → 0; missing day → error
theorem ex_sched : res (call 3 [cell1] 0 4 (some 30) true) = some (102, 200, 25, 25) := by
  decide +kernel
theorem ex_sched0 : res (call 3 [cell1] 0 4 (some 0) true) = some (102, 200, 0, 0) := by
  decide +kernel
theorem ex_sched_missing : res (call 3 [cell1] 0 4 none true) = none := by decide +kernel
theorem ex_sched_neg : res (call 3 [cell1] 0 4 (some (-1)) true) = none := by decide +kernel
-- method 5: constant 7 mm
theorem ex_const : res (call 5 [cell1] 10 4 none true) = some (102, 200, 17, 7) := by
  decide +kernel
-- methods 0 and 4: nothing; unknown method: error; off season: all zero
theorem ex_rainfed : res (call 0 [cell1] 10 4 none true) = some (102, 200, 10, 0) := by
  decide +kernel
theorem ex_net : res (call 4 [cell1] 10 4 none true) = some (102, 200, 10, 0) := by
  decide +kernel
theorem ex_unknown : res (call 6 [cell1] 10 4 none true) = none := by decide +kernel
theorem ex_off : res (call 2 [cell1] 10 4 none false) = some (0, 0, 0, 0) := by decide +kernel
-- wet profile: AbvFc = 100 mm → Depletion = −100 + 2 − 100 = −198, nothing applied
theorem ex_wet : res (call 2 [cellWet] 0 4 none true) = some (-198, 200, 0, 0) := by
  decide +kernel

-- schedule re-indexing: window of 5 days from day 10; day 9 and 20 are dropped; duplicates fail
theorem ex_reindex :
    scheduleReindex [((12 : Int), (25 : ℚ)), (9, 5), (10, 40), (20, 7)] 10 5
      = some [40, 0, 25, 0, 0] := by decide +kernel
theorem ex_reindex_dup :
    scheduleReindex [((12 : Int), (25 : ℚ)), (9, 5), (12, 40)] 10 5 = none := by decide +kernel

-- growth stage: thresholds 10 / 50 / 100 days
theorem ex_stage :
    (growthStage 1 (12 : ℚ) 0 0 0 10 50 100 true 0, growthStage 1 (10 : ℚ) 0 0 0 10 50 100 true 0,
     growthStage 2 (12 : ℚ) 0 300 100 10 50 100 true 0, growthStage 3 (12 : ℚ) 0 0 0 10 50 100 true 0,
     growthStage 1 (12 : ℚ) 0 0 0 10 50 100 false 3)
    = (some 2, some 1, some 4, none, some 0) := by decide +kernel

end Aqua.IrrEx

open Aqua in
#print axioms IrrEx.ex_interval_cap
#print axioms Aqua.irr_nonneg
#print axioms Aqua.irr_offseason
#print axioms Aqua.irr_rainfed
#print axioms Aqua.irr_net
#print axioms Aqua.irr_le_max
#print axioms Aqua.irr_cum_step
#print axioms Aqua.irr_season_cap
#print axioms Aqua.irr_zero_of_cum_above
#print axioms Aqua.irr_interval
#print axioms Aqua.irr_interval_nat
#print axioms Aqua.irr_interval_amount
#print axioms Aqua.irr_interval_amount'
#print axioms Aqua.irr_schedule_exact
#print axioms Aqua.irr_schedule_zero
#print axioms Aqua.irr_constant
#print axioms Aqua.irr_smt
#print axioms Aqua.nothing_off_schedule
#print axioms Aqua.scheduleReindex_isSome_iff
#print axioms Aqua.schedule_entry_cases
#print axioms Aqua.rootZoneWater_ranges
#print axioms Aqua.growthStage_inseason
#print axioms Aqua.stageOf_mono
#print axioms Aqua.stageOf_eq_iff
