import AquaVerif.Proofs.RunClosed
import AquaVerif.Proofs.RunClosedTr
import AquaVerif.Proofs.RunClosedRw
import AquaVerif.Proofs.RunClosedEs

/-
Non-vacuity of `Proofs/RunClosed.lean` over `ℚ`, and the counter-example behind the `trPot`
residual.

* `Fq2` is `DayExample.Fq` with a *strictly* monotone `exp` (`1/(1−x)` for `x ≤ 0`, `1+x` above):
  `ExpOrdLaws` asks for strict monotonicity, which the piecewise-constant `exp` of `Fq` lacks.
* `cfgE wt` is `RunExample.cfgq` with the water-table flag `wt` and a simulation window of 14 days
  (so that a run gets past emergence: canopy, roots and transpiration become positive).
* `cfgOK_E : CfgOK Fq2 Tq (cfgE wt)` for every `wt`, in particular for `cfgq`'s own water table
  (`wt = 1`); `cfgOK_q : CfgOK Fq2 Tq cfgq` (the configuration of `Proofs/Run.lean` itself);
  `weatherOK_E`.
* `reach10`: ten `_perform_timestep`s succeed from the initial state, with and without the water
  table; every simulated day satisfies `Residual` (`residual10`): without a table `ResidualW` is
  trivially true (`residualW_of_no_table`), with the table it is checked by computation.
* `closed_example`: the final theorems of `Proofs/RunClosed.lean` apply to that run.
* `cfgTrOK_E`, `cfgRwOK_E`, `cfgEsOK_E`: the further configuration premises of
  `Proofs/RunClosedTr.lean`, `RunClosedRw.lean`, `RunClosedEs.lean` hold for `cfgE wt`;
  `closed_tr_example`; `crop_closed_example` / `flux_closed_example`: for **every** reachable state
  of **every** run of `cfgE 0` (no water table) the C05 envelope, `ccx_act ≤ CCx`, `0 ≤ Es ≤ EsPot`,
  `0 ≤ Tr ≤ TrPot`, … hold with no hypothesis about computed values at all.
* `trPot_gt_trPotNS`: a canopy state inside the crop envelope for which the potential
  transpiration exceeds the no-stress potential transpiration — `TrPot ≤ TrPot_NS` (hence
  `DayCropOK.tr`, and `B ≤ B_NS`) is not a consequence of the envelope.
-/

set_option linter.unusedSectionVars false
set_option linter.unusedVariables false
set_option linter.unusedSimpArgs false
namespace Aqua
namespace RunClosedExample
open DayExample FullDayExample RunExample

/-- `Fq` with a strictly monotone `exp` -/
def Fq2 : Fn ℚ := { Fq with exp := fun x => if x ≤ 0 then 1 / (1 - x) else 1 + x }

theorem Fq2_expOrd : ExpOrdLaws Fq2 := by
  refine ⟨fun x => ?_, ?_, fun x y hxy => ?_⟩
  · simp only [Fq2]
    split_ifs with h
    · apply div_pos one_pos; linarith
    · linarith [not_le.mp h]
  · simp [Fq2]
  · simp only [Fq2]
    by_cases hx : x ≤ 0
    · by_cases hy : y ≤ 0
      · rw [if_pos hx, if_pos hy]
        apply one_div_lt_one_div_of_lt <;> linarith
      · rw [if_pos hx, if_neg hy]
        have : 1 / (1 - x) ≤ 1 := by
          rw [div_le_one (by linarith)]; linarith
        linarith [not_le.mp hy]
    · have hy : ¬ y ≤ 0 := by linarith [not_le.mp hx]
      rw [if_neg hx, if_neg hy]; linarith

theorem fnOK_q : FnOK Fq2 Tq :=
  { expOrd := Fq2_expOrd
    pow := ⟨fun x y hx => by simp only [Fq2, Fq]; split_ifs <;> nlinarith,
      fun x y hx h1 _ => by simp only [Fq2, Fq]; split_ifs <;> nlinarith,
      fun x x' y hx h _ => by simp only [Fq2, Fq]; split_ifs <;> nlinarith⟩
    powNN := ⟨fun x y hx => by simp only [Fq2, Fq]; split_ifs <;> nlinarith⟩
    powSq := ⟨fun x => by simp [Fq2, Fq]⟩
    sin := ⟨fun x => by simp [Tq], fun x => by simp [Tq]⟩ }

/-- `cfgq` with water-table flag `wt` and a window of 14 days -/
def cfgE (wt : Nat) : RunCfg ℚ :=
  { cfgq with W0 := { Wq with waterTable := wt },
              clock := { cfgq.clock with n := 14, harvest := [20] } }

theorem cropOK_q : CropOK Fq2 Tq cropq' :=
  { sxTop := by norm_num [cropq', Wq, cropq]
    sxBot := by norm_num [cropq', Wq, cropq]
    rdPos := fun z hz => by
      have : (0.2 : ℚ) ≤ z := hz
      simp only [Fq2, Fq, id]; linarith
    lagAer := fun n hn => by
      have h3 : (natNum n : ℚ) < 3 := hn
      show (natNum n : ℚ) + 1 ≤ 3
      rw [natNum_eq_cast] at h3 ⊢
      have : n < 3 := by exact_mod_cast h3
      have : n + 1 ≤ 3 := by omega
      exact_mod_cast this
    ccx0 := by norm_num [cropq', cxq, ccq]
    temp := by norm_num [cropq', cxq]
    ccStep := fun dt h1 _ => by
      have e : dt = 1 := h1 rfl
      subst e
      exact ⟨by norm_num [cropq', cxq, ccq], by norm_num [cropq', cxq, ccq], by norm_num,
        by simp only [cropq', cxq, ccq, Fq2]; norm_num⟩
    rdWF := by constructor <;> norm_num [cropq', cxq, rdq]
    zminPos := by norm_num [cropq', cxq, rdq]
    rdSxTop := by norm_num [cropq', cxq, rdq]
    rdSxBot := by norm_num [cropq', cxq, rdq]
    pUp1 := by norm_num [cropq', cxq, rdq]
    fw1 := by norm_num [cropq', cxq, rdq]
    skip := fun x hx => by simpa [Fq2, Fq] using hx.le
    post := by constructor <;> norm_num [cropq', cxq, hiq]
    build := by
      refine ⟨Or.inr (Or.inr rfl), ?_, ?_, ?_, ?_⟩ <;> norm_num [cropq', cxq, hiq]
    fsh := fun i _ => by norm_num [cropq', cxq, hikq]
    cap := by norm_num [cropq', cxq, hiq]
    leafy := fun h => by simp [cropq', cxq, hiq] at h
    hiStart := rfl
    wpy0 := by norm_num [cropq', cxq, bioq]
    wpy1 := by norm_num [cropq', cxq, bioq]
    wp := by norm_num [cropq', cxq, bioq] }

/-- the fallow filler crop after `Aer := 5`, `Zmin := 0.3` -/
theorem cropOK_fallow : CropOK Fq2 Tq (fallowAdjust cropq') :=
  { cropOK_q with
    sxTop := cropOK_q.sxTop
    sxBot := cropOK_q.sxBot
    rdPos := fun z hz => by
      have : (0.3 : ℚ) ≤ z := hz
      simp only [Fq2, Fq, id]; linarith
    lagAer := cropOK_q.lagAer }

theorem cropOf_E (wt : Nat) (season : Int) : CropOK Fq2 Tq (cropOf (cfgE wt) season) := by
  unfold cropOf
  split_ifs
  · exact cropOK_q
  · exact cropOK_fallow

theorem cropOf_q (season : Int) : CropOK Fq2 Tq (cropOf cfgq season) := by
  unfold cropOf
  split_ifs
  · exact cropOK_q
  · exact cropOK_fallow

theorem gw_q : GwRoundLaws Fq2 ∧ GwRoundSign Fq2 :=
  ⟨⟨fun x => by simp [Fq2, Fq]⟩, ⟨fun x h => by simpa [Fq2, Fq] using h⟩⟩

theorem layers_q : TrLayersOK (fun _ => (0.1 : ℚ)) (fun _ => 0.3) 0 cellsq := by
  simp only [cellsq, TrLayersOK, cq]; norm_num

theorem thini_q : ThiniOK (cellsq.map (·.c)) [0.2, 0.25, 0.35, 0.3] := by
  simp only [cellsq, List.map_cons, List.map_nil, ThiniOK, cq]
  norm_num

/-- the initial state of `cfgq` is inside the crop envelope -/
theorem init_q (P : DayParams ℚ) (hP : P.cx = cxq) : CropInv Fq2 P cfgq.init := by
  obtain ⟨W, fm, z, cx⟩ := P
  simp only at hP
  subst hP
  refine ⟨⟨?_, ?_, ?_, ?_, ?_, ?_, ?_, ?_, ?_⟩, ⟨?_, ?_, ?_⟩,
    ⟨?_, ?_, ?_, ?_, ?_, ?_, ?_, ?_, ?_, ?_⟩, ⟨?_, ?_⟩⟩
  all_goals simp only [cfgq, stq, cxq, ccq, hiq]
  any_goals norm_num
  · intro q _ hq
    exact hiref_nonneg Fq2 _ q true (by norm_num) (by norm_num) (le_trans (by norm_num) hq)

theorem cfgOK_E (wt : Nat) : CfgOK Fq2 Tq (cfgE wt) :=
  { fn := fnOK_q
    gw := fun _ => gw_q
    cells0 := cells_pre
    geom := dayTrPre.geom
    aer0 := dayTrPre.aer
    pen := fun x hx => by
      simp only [cfgE, cfgq, stq, cellsq, List.mem_cons, List.not_mem_nil, or_false] at hx
      rcases hx with rfl | rfl | rfl | rfl <;> norm_num [cq]
    layers := fun _ => ⟨fun _ => 0.1, fun _ => 0.3, layers_q⟩
    pond0 := by norm_num [cfgE, cfgq, stq]
    thini := thini_q
    smt := fun h => by simp [cfgE, cfgq, Wq] at h
    smtF := fun h => by simp [cfgE, cfgq, Wq] at h
    bundWater := le_refl _
    crop := cropOf_E wt
    season0 := by show (-1 : Int) ≤ 0; decide
    init := init_q _ rfl
    rCor0 := by norm_num [cfgE, cfgq, stq] }

/-- **the configuration of `Proofs/Run.lean` satisfies `CfgOK`** (for the laws-satisfying `Fq2`) -/
theorem cfgOK_q : CfgOK Fq2 Tq cfgq :=
  { fn := fnOK_q
    gw := fun _ => gw_q
    cells0 := cells_pre
    geom := dayTrPre.geom
    aer0 := dayTrPre.aer
    pen := (cfgOK_E 1).pen
    layers := fun _ => ⟨fun _ => 0.1, fun _ => 0.3, layers_q⟩
    pond0 := by norm_num [cfgq, stq]
    thini := thini_q
    smt := fun h => by simp [cfgq, Wq] at h
    smtF := fun h => by simp [cfgq, Wq] at h
    bundWater := le_refl _
    crop := cropOf_q
    season0 := by show (-1 : Int) ≤ 0; decide
    init := init_q _ rfl
    rCor0 := by norm_num [cfgq, stq] }

/-- at `ET0 = 5` the `ET0` adjustment of the thresholds vanishes; the lower threshold clips to 1 -/
theorem hiOrd_q (tes : ℚ) (i : Fin 4) :
    wsUp Fq2 hikq.pUp hikq.etAdj hikq.beta tes 5 true i ≤ wsLo Fq2 hikq.pLo hikq.etAdj 5 i := by
  have h1 : wsLo Fq2 hikq.pLo hikq.etAdj 5 i = 1 := by
    unfold wsLo
    have e : (if hikq.etAdj = true ∧ i.val < 3 then etAdjust Fq2 (hikq.pLo i) 5 else hikq.pLo i)
        = 1 := by
      split_ifs <;> simp [etAdjust, hikq]
    rw [e]
    exact clip01_of_mem zero_le_one (le_refl _)
  rw [h1]
  unfold wsUp
  exact (clip01_range _).2

theorem weatherOK_E (wt : Nat) : WeatherOK Fq2 (cfgE wt) :=
  { et0 := fun t => by norm_num [cfgE, cfgq]
    hiOrd := fun t season tes i => by
      have : (cropOf (cfgE wt) season).cx.hik = hikq := by
        unfold cropOf; split_ifs <;> rfl
      rw [this]
      exact hiOrd_q tes i }

theorem weatherOK_q : WeatherOK Fq2 cfgq :=
  { et0 := fun t => by norm_num [cfgq]
    hiOrd := fun t season tes i => by
      have : (cropOf cfgq season).cx.hik = hikq := by
        unfold cropOf; split_ifs <;> rfl
      rw [this]
      exact hiOrd_q tes i }

/-! ### a run of ten days -/

/-- what is checked by computation on the ten simulated days: growing-season days with no early
senescence pending, `0 ≤ TrPot ≤ TrPot_NS`, no overshoot of capillary rise; the last day has
positive canopy cover, deepening roots and positive transpiration -/
def check10 (wt : Nat) : Bool :=
  match runInit (cfgE wt) with
  | .error _ => false
  | .ok s0 =>
    match runStepsR Fq2 Tq (cfgE wt) 10 s0 with
    | .ok s => decide (s.t = 10 ∧ s.season = 0 ∧ s.day.dap = 10 ∧ s.daysRev.length = 10 ∧
        0 < s.day.cc ∧ 0.2 < s.day.zRoot ∧
        s.daysRev.all (fun d => decide (d.D.gs = true ∧ d.st.tEarlySen ≤ 0 ∧ 0 ≤ d.r.flux.trPot ∧
          d.r.flux.trPot ≤ d.r.water.trPotNS ∧
          d.r.water.crCells.all (fun y => decide (y.th ≤ y.c.thS)) = true)) = true ∧
        (s.daysRev.head?.map (fun d => decide (0 < d.r.flux.tr))) = some true)
    | .error _ => false

theorem check10_0 : check10 0 = true := by decide +kernel
theorem check10_1 : check10 1 = true := by decide +kernel

/-- ten successful `_perform_timestep`s; every simulated day satisfies `Residual` -/
theorem reach10 (wt : Nat) (hc : check10 wt = true) :
    ∃ s, RunReach Fq2 Tq (cfgE wt) s ∧ s.t = 10 ∧ s.daysRev.length = 10 ∧ 0 < s.day.cc ∧
      (∀ d ∈ s.daysRev, Residual d) ∧ ∃ d ∈ s.daysRev, 0 < d.r.flux.tr := by
  unfold check10 at hc
  cases h0 : runInit (cfgE wt) with
  | error e => rw [h0] at hc; simp at hc
  | ok s0 =>
    rw [h0] at hc
    simp only at hc
    cases h1 : runStepsR Fq2 Tq (cfgE wt) 10 s0 with
    | error e => rw [h1] at hc; simp at hc
    | ok s =>
      rw [h1] at hc
      simp only [decide_eq_true_eq, List.all_eq_true] at hc
      obtain ⟨a1, _, _, a4, a5, _, a7, a8⟩ := hc
      refine ⟨s, runReach_runSteps 10 (RunReach.init h0) h1, a1, a4, a5, fun d hd => ?_, ?_⟩
      · obtain ⟨_, b2, b3, b4, b5⟩ := a7 d hd
        exact ⟨fun _ => b5, fun hrw => by
            obtain ⟨_, _, _, _, _, hpos⟩ := hrw
            exact absurd hpos (not_lt.mpr b2),
          fun _ => ⟨b3, b4⟩⟩
      · cases hh : s.daysRev with
        | nil => rw [hh] at a8; simp at a8
        | cons d rest =>
          rw [hh] at a8
          simp only [List.head?_cons, Option.map_some, Option.some.injEq, decide_eq_true_eq] at a8
          exact ⟨d, List.mem_cons_self, a8⟩

/-- **the closed theorems apply**: on the ten-day run without water table (no capillary-rise
residual: `ResidualW` holds by `residualW_of_no_table`) and with it, the state is within the
limits, the balance closed on every simulated day and the crop envelope holds -/
theorem closed_example (wt : Nat) (hc : check10 wt = true) :
    ∃ s, RunReach Fq2 Tq (cfgE wt) s ∧ s.daysRev.length = 10 ∧ 0 < s.day.cc ∧
      RunInvAll Fq2 (cfgE wt) s ∧
      (∀ d ∈ s.daysRev, (∀ y ∈ d.r.state.cells, y.Inv) ∧
        storage d.r.state.cells + d.r.state.pond =
          storage d.st.cells + d.st.pond + d.r.flux.infl + d.r.water.preIrr + d.r.water.irrNet
            + d.r.water.crAdded + d.r.flux.gwIn - d.r.flux.deepPerc - d.r.flux.es - d.r.flux.tr ∧
        CropInv Fq2 d.P d.r.state) := by
  obtain ⟨s, hr, _, hlen, hcc, hR, _⟩ := reach10 wt hc
  have hRW : ∀ d ∈ s.daysRev, ResidualW d := fun d hd => (hR d hd).cr
  obtain ⟨hall, hdays⟩ := run_invAll (cfgOK_E wt) (weatherOK_E wt) hr hR
  have h1 := run_inv_closed (cfgOK_E wt) hr hRW
  have h2 := run_closes_closed (cfgOK_E wt) hr hRW
  exact ⟨s, hr, hlen, hcc, hall, fun d hd => ⟨(h1.2 d hd).2.1, h2 d hd, (hdays d hd).2⟩⟩

example := closed_example 0 check10_0
example := closed_example 1 check10_1

/-- without a water table the water residual of every day of every run is trivially true -/
example {s : RunState ℚ} (hr : RunReach Fq2 Tq (cfgE 0) s) :
    WaterInv (cfgE 0) s ∧ (∀ x ∈ s.day.cells, 0 ≤ x.aer) ∧ 0 ≤ s.day.rCor :=
  run_inv_closed_no_table (cfgOK_E 0) (by decide) hr

/-! ### the premises for `0 ≤ TrPot` (`Proofs/RunClosedTr.lean`) -/

theorem trCropOK_q : TrCropOK Fq2 cropq' 10 :=
  { kcb := by norm_num [cropq', Wq, cropq]
    fage := by norm_num [cropq', Wq, cropq]
    aged := by norm_num [cropq', Wq, cropq, cxq, ccq]
    ccx1 := by norm_num [cropq', cxq, ccq]
    ksCold := ksCold_of_no_cold_stress rfl }

theorem trCropOK_fallow : TrCropOK Fq2 (fallowAdjust cropq') 10 :=
  { kcb := trCropOK_q.kcb, fage := trCropOK_q.fage, aged := trCropOK_q.aged,
    ccx1 := trCropOK_q.ccx1, ksCold := ksCold_of_no_cold_stress rfl }

/-- seasons of at most 21 days, maximum canopy after 60: the canopy age stays below `A = 10` -/
theorem cfgTrOK_E (wt : Nat) : CfgTrOK Fq2 (cfgE wt) 10 :=
  { wf := by
      show Clock.WF { n := 14, planting := [0], harvest := [20], offSeason := false, season0 := 0 }
      decide
    initOK := ⟨rfl, rfl, rfl, rfl⟩
    crop := fun season => by
      unfold cropOf
      split_ifs
      · exact trCropOK_q
      · exact trCropOK_fallow
    age := fun k dap h => by
      have h21 : (dap : Int) ≤ 21 := by
        cases k with
        | zero => simpa [cfgE, cfgq, Clock.Cfg.hv, Clock.Cfg.pl] using h
        | succ k =>
          have : (dap : Int) ≤ 1 := by simpa [cfgE, cfgq, Clock.Cfg.hv, Clock.Cfg.pl] using h
          omega
      have h21' : (natNum dap : ℚ) ≤ 21 := by
        rw [natNum_eq_cast]; exact_mod_cast h21
      show (natNum dap : ℚ) - 60 ≤ 10
      linarith
    co2 := fun season h => by
      have : (369 : ℚ) < 369 := h
      exact absurd this (lt_irrefl _)
    A0 := by norm_num
    ageDays0 := by norm_num [cfgE, cfgq, stq]
    delayed0 := by norm_num [cfgE, cfgq, stq]
    ccxW0 := le_refl _
    ccxW1 := by
      show (0 : ℚ) ≤ 0.9
      norm_num }

/-- **C04 (transpiration) and the C05 envelope on the ten-day run with only the capillary-rise
and rewatering residual** -/
theorem closed_tr_example (wt : Nat) (hc : check10 wt = true) :
    ∃ s, RunReach Fq2 Tq (cfgE wt) s ∧ s.daysRev.length = 10 ∧
      CropEnv Fq2 (paramsOf (cfgE wt) s.season false) s.day ∧
      (∀ d ∈ s.daysRev, 0 ≤ d.r.flux.trPot ∧ 0 ≤ d.r.flux.tr ∧ d.r.flux.tr ≤ d.r.flux.trPot) ∧
      ∃ d ∈ s.daysRev, 0 < d.r.flux.tr := by
  obtain ⟨s, hr, _, hlen, _, hR, hpos⟩ := reach10 wt hc
  have hRC : ∀ d ∈ s.daysRev, ResidualC d := fun d hd => ⟨(hR d hd).cr, (hR d hd).rw⟩
  obtain ⟨⟨_, henv, _⟩, _⟩ :=
    run_cropEnv_closed_tr (cfgOK_E wt) (cfgTrOK_E wt) (weatherOK_E wt) hr hRC
  exact ⟨s, hr, hlen, henv,
    run_tr_bounds_closed (cfgOK_E wt) (cfgTrOK_E wt) (weatherOK_E wt) hr hRC, hpos⟩

example := closed_tr_example 0 check10_0

/-! ### the premises for the rewatering cap (`Proofs/RunClosedRw.lean`) -/

theorem cfgRwOK_E (wt : Nat) : CfgRwOK Fq2 (cfgE wt) :=
  { devEnd := fun season => by
      have : (cropOf (cfgE wt) season).cx.cc = ccq := by
        unfold cropOf; split_ifs <;> rfl
      rw [this]; norm_num [ccq]
    init := Or.inl (le_refl _) }

/-- **without a water table, every reachable state of every run of `cfgE 0` is inside the C05
envelope, with `0 ≤ Tr ≤ TrPot` and `ccx_act ≤ CCx` on every simulated day — no hypothesis about
computed values at all** -/
theorem crop_closed_example {s : RunState ℚ} (hr : RunReach Fq2 Tq (cfgE 0) s) :
    CropEnv Fq2 (paramsOf (cfgE 0) s.season false) s.day ∧
      ∀ d ∈ s.daysRev, CropEnv Fq2 d.P d.st ∧ CropEnv Fq2 d.P d.r.state ∧
        d.r.state.ccxAct ≤ d.P.cx.cc.ccx ∧ 0 ≤ d.r.flux.trPot ∧
        (d.D.gs = true → d.st.hi ≤ d.r.state.hi ∧ d.st.biomass ≤ d.r.state.biomass ∧
          0 ≤ d.r.flux.tr ∧ d.r.flux.tr ≤ d.r.flux.trPot) :=
  run_crop_closed_no_table (cfgOK_E 0) (cfgTrOK_E 0) (cfgRwOK_E 0) (weatherOK_E 0) (by decide) hr

/-! ### the premises for `0 ≤ EsPot` (`Proofs/RunClosedEs.lean`) -/

theorem cfgEsOK_E (wt : Nat) : CfgEsOK (cfgE wt) :=
  { kex := by norm_num [cfgE, Wq]
    fwcc0 := by norm_num [cfgE, Wq]
    fwcc1 := by norm_num [cfgE, Wq]
    mulch := fun h => by simp [cfgE, cfgq, fmq] at h
    mulchF := fun h => by simp [cfgE, cfgq, fmq] at h
    wet := fun _ => by norm_num [cfgE, cfgq]
    wetF := fun _ => by norm_num [cfgE, cfgq] }

/-- **C04 and the bund part of C03 on every simulated day of every run of `cfgE 0`** — no
hypothesis about computed values -/
theorem flux_closed_example {s : RunState ℚ} (hr : RunReach Fq2 Tq (cfgE 0) s) :
    ∀ d ∈ s.daysRev,
      (0 ≤ d.r.flux.esPot ∧ 0 ≤ d.r.flux.es ∧ d.r.flux.es ≤ d.r.flux.esPot) ∧
      (0 ≤ d.r.flux.trPot ∧ 0 ≤ d.r.flux.tr ∧ d.r.flux.tr ≤ d.r.flux.trPot) ∧
      (0 ≤ d.r.flux.deepPerc ∧ 0 ≤ d.r.flux.cr ∧ 0 ≤ d.r.flux.gwIn ∧ 0 ≤ d.r.water.irr ∧
        (d.P.W.irr.method ≠ 4 → 0 ≤ d.r.flux.irrDay)) ∧
      (0 ≤ d.r.state.pond ∧
        (d.P.fm.bunds = false ∨ d.P.fm.zBund ≤ 0.001 → d.r.state.pond = 0) ∧
        (d.P.fm.bunds = true → d.st.pond ≤ d.P.fm.zBund → d.r.state.pond ≤ d.P.fm.zBund)) :=
  run_flux_closed (cfgOK_E 0) (cfgTrOK_E 0) (cfgRwOK_E 0) (cfgEsOK_E 0) (weatherOK_E 0) hr
    (fun d hd => by
      obtain ⟨season, hP⟩ := run_days_params hr d hd
      exact residualW_of_no_table (by
        rw [hP]
        show (0 : Nat) ≠ 1
        decide))

/-! ### `TrPot ≤ TrPot_NS` is not a consequence of the crop envelope -/

/-- a crop with `CCx = 0.99`, 40 days after maximum canopy -/
def cropT : TrCrop ℚ := { cropq with fage := 0.3, maxCanopyCD := 60 }

/-- a canopy state inside the envelope: `cc = 0.97 ≤ cc_ns = 0.99 ≤ CCx`, `ccx_w = 0.97 ≤
ccx_w_ns = 0.99`, both adjusted covers at their cap 1 (`1.72c − c² + 0.3c³ > 1` for `c ≥ 0.97`) -/
def stT : TrState ℚ :=
  { dap := 100, delayedCds := 0, ageDaysNS := 39, ageDays := 39, ccxWNS := 0.99, ccxW := 0.97,
    ccAdjNS := 1, ccNS := 0.99, ccAdj := 1, cc := 0.97, ccPrev := 0.97, pond := 0,
    daySubmerged := 0, zRoot := 0.5, tEarlySen := 0, aerDays := 0, rCor := 1, irrNetCum := 0,
    trRatio := 1, tPot := 4, depletion := 0, taw := 0 }

/-- **`TrPot > TrPot_NS`** for that state: the canopy-ageing reduction
`(age − 5)·fage/100·CCxW` of the crop coefficient is larger for the larger no-stress canopy, and
with both adjusted covers capped at 1 nothing compensates.  (`TrPot = 4.99075`,
`TrPot_NS = 4.98025` at `ET0 = 5`.) -/
theorem trPot_gt_trPotNS :
    ∃ pot, trPotential Fq cropT stT 5 369 369 10 = .ok pot ∧ 0 ≤ pot.trPotNS ∧
      pot.trPotNS < pot.trPot0 ∧ stT.cc ≤ stT.ccNS ∧ stT.ccxW ≤ stT.ccxWNS ∧
      stT.ccAdj = microAdv Fq stT.cc ∧ stT.ccAdjNS = microAdv Fq stT.ccNS := by
  have h : (match trPotential Fq cropT stT 5 369 369 10 with
      | .ok pot => decide (0 ≤ pot.trPotNS ∧ pot.trPotNS < pot.trPot0)
      | .error _ => false) = true := by decide +kernel
  cases hp : trPotential Fq cropT stT 5 369 369 10 with
  | error e => rw [hp] at h; simp at h
  | ok pot =>
    rw [hp] at h
    simp only [decide_eq_true_eq] at h
    refine ⟨pot, rfl, h.1, h.2, by norm_num [stT], by norm_num [stT], ?_, ?_⟩
    · simp only [stT, microAdv, microAdvPoly, Fq]; norm_num
    · simp only [stT, microAdv, microAdvPoly, Fq]; norm_num

end RunClosedExample
end Aqua

#print axioms Aqua.RunClosedExample.cfgOK_q
#print axioms Aqua.RunClosedExample.cfgOK_E
#print axioms Aqua.RunClosedExample.weatherOK_q
#print axioms Aqua.RunClosedExample.reach10
#print axioms Aqua.RunClosedExample.closed_example
#print axioms Aqua.RunClosedExample.trPot_gt_trPotNS
#print axioms Aqua.RunClosedExample.cfgTrOK_E
#print axioms Aqua.RunClosedExample.closed_tr_example
#print axioms Aqua.RunClosedExample.crop_closed_example
#print axioms Aqua.RunClosedExample.flux_closed_example
