import AquaVerif.Proofs.RunLiftSum
import AquaVerif.Proofs.RunClosedExample

/-
Work package Y: **non-vacuity of `Proofs/RunLift*.lean` on the `ℚ` examples**, including the run
with fallow days after the harvest under the same season counter (`harvest_date_is_fallow`).

* `cfgE wt` (`Proofs/RunClosedExample.lean`: the configuration of `Proofs/Run.lean` with water-table
  flag `wt`, 14-day window) satisfies the new configuration premises `CfgSurfOK`, `RainOK`,
  `BundOK`, `IrrCapOK`; `lift10` instantiates the C02 / C13 / C19 theorems on its ten-day run
  (20 mm of rain at curve number 72 and 10 mm of constant-depth irrigation every day, water table
  at 1 m); `lift_no_table`: without a water table they hold for **every** reachable state of
  **every** run, no hypothesis about computed values.
* `cfgS`: the same with a 3-day season (`harvest = [3]`): the run of three days finishes with one
  summary row `(season 0, step 2, IrrTot 30)`; `summary_example` instantiates the C06 theorems:
  `30 = 10 + 10 + 10`.
* `cfgP`: two seasons, **off-season simulated**: the summary row of season 0 is written on step 2
  (the day before the latest harvest date) with `IrrTot = 30`; the harvest date itself (step 3,
  same season counter) is a fallow day — `growing_season = False`, `dap = 0`, no irrigation — so
  the sum of the daily column over *all* rows of season 0 is the seasonal total
  (`harvest_date_is_fallow`).  Before repository commit d260679 (growing-season test
  `harvest_date >= step_start_time`) step 3 was a growing day with 10 mm of irrigation and this
  file held the counter-example `post_harvest_irrigation` (sum 40 ≠ 30).
-/

set_option linter.unusedSectionVars false
set_option linter.unusedVariables false
set_option linter.unusedSimpArgs false
namespace Aqua
namespace RunLiftExample
open DayExample FullDayExample RunExample RunClosedExample Aqua.Clock

/-! ### the configuration premises -/

theorem cnOK_q : CnOK Fq2 Wq.soil fmq :=
  { plain := fun _ => by norm_num [cn0Of, Wq, fmq]
    adj := fun h => by simp [Wq] at h }

/-- non-vacuity of the antecedent-moisture branch of `CnOK`: curve number 40 with `Fq2`
(`pow x 2 = x·x`, `pow x 3 = x`: `CNbot ≈ 14.3`, `CNtop ≈ 59.8`, rounding = identity) -/
theorem cnOK_adj : CnOK Fq2 { Wq.soil with cn := 40, adjCN := true } fmq :=
  { plain := fun h => by simp at h
    adj := fun _ wt h0 h1 => by
      have e : cn0Of ({ Wq.soil with cn := 40, adjCN := true } : SoilW ℚ) fmq = 40 := by
        norm_num [cn0Of, fmq]
      rw [e]
      have b : cnBounds Fq2 (40 : ℚ) = (1.4 / 127 + 0.507 * 40 - 0.00374 * (40 * 40) + 0.0000867 * 40,
          5.6 / 127 + 2.33 * 40 - 0.0209 * (40 * 40) + 0.000076 * 40) := by
        simp only [cnBounds, Fq2, Fq, id]
        norm_num
      rw [b]
      simp only [Fq2, Fq, id]
      constructor <;> nlinarith }

theorem surfOK_E (wt : Nat) : CfgSurfOK Fq2 (cfgE wt) := ⟨cnOK_q, cnOK_q, fnOK_q.powSq⟩

theorem rainOK_E (wt : Nat) : RainOK (cfgE wt) := ⟨fun t => by norm_num [cfgE, cfgq]⟩

theorem bundOK_E (wt : Nat) : BundOK (cfgE wt) :=
  { same := fun h _ => by
      have : fmq.bunds = true := h.1
      simp [fmq] at this
    init := fun g h => by
      have : fmq.bunds = true := by
        cases g <;> exact h.1
      simp [fmq] at this }

theorem irrCapOK_E (wt : Nat) : IrrCapOK (cfgE wt) :=
  { maxSeason := fun season => by
      unfold irrSetOf
      split_ifs <;> norm_num [cfgE, cfgq, Wq]
    init := by
      show (0 : ℚ) ≤ 1000
      norm_num }

theorem appEff_E (wt : Nat) (season : Int) :
    0 ≤ (irrSetOf (cfgE wt) season).irr.appEff ∧ (irrSetOf (cfgE wt) season).irr.appEff ≤ 100 := by
  unfold irrSetOf
  split_ifs <;> norm_num [cfgE, cfgq, Wq]

theorem maxIrr_E (wt : Nat) (season : Int) : 0 ≤ (irrSetOf (cfgE wt) season).irr.maxIrr := by
  unfold irrSetOf
  split_ifs <;> norm_num [cfgE, cfgq, Wq]

/-! ### C02, C13, C19 on the ten-day run with the water table -/

/-- what the lifted theorems say of one recorded day of a run of `cfgE wt` -/
def DayFacts (d : DayRec ℚ) : Prop :=
  d.r.flux.infl + d.r.flux.runoff = 20 + irrApplied d.P.W d.D.water d.r.water ∧
  0 ≤ d.r.flux.runoff ∧ d.r.flux.runoff ≤ 20 + d.r.water.irr + d.st.pond ∧
  (d.r.flux.infl < 0 → 0 < d.st.pond ∧ -d.r.flux.infl ≤ d.st.pond) ∧
  (d.D.gs = true → d.r.water.irr = irrCap 1000 d.st.irrCum (pmax 0 (pmin 25 10))) ∧
  (d.D.gs = false → d.r.water.irr = 0) ∧
  0 ≤ d.r.water.irr ∧ d.r.water.irr ≤ 25 ∧ d.r.state.irrCum ≤ 1000

section
variable {wt : Nat} {s : RunState ℚ}

theorem dayFacts_E (hr : RunReach Fq2 Tq (cfgE wt) s) (hRW : ∀ d ∈ s.daysRev, ResidualW d) :
    ∀ d ∈ s.daysRev, DayFacts d := by
  have hC := cfgOK_E wt
  have hS := surfOK_E wt
  have hW := rainOK_E wt
  intro d hd
  have c1 := run_partition hS hW hr d hd
  have c2 := run_runoff_bounds hC hS hW hr hRW d hd
  have c3 := run_runoff_le_supply hC hS hW (appEff_E wt) hr hRW d hd
  have c4 := run_negative_infiltration hC (cfgTrOK_E wt) (cfgRwOK_E wt) (cfgEsOK_E wt)
    (weatherOK_E wt) (bundOK_E wt) hr hRW d hd
  have c5 := run_irr_constant hr d hd
  have c6 := run_irr_daily_max (maxIrr_E wt) hr d hd
  have c7 := ((run_season_cap (irrCapOK_E wt) hr).2 d hd).2
  have c8 := run_irr_none hr d hd
  have hse : (0 : Int) ≤ d.D.season := (run_season_ge hr).2 d hd
  have hset : irrSetOf (cfgE wt) d.D.season = (cfgE wt).irr := by
    unfold irrSetOf; rw [if_pos hse]
  rw [hset] at c5 c6 c7
  refine ⟨c1, c2.1, c3, fun hneg => (c4 hneg).2, fun hg => c5 hg rfl, fun hg => c8 (Or.inl hg),
    c6.1, c6.2, c7⟩

end

/-- the ten-day run of `cfgE 1` (water table at 1 m): on every simulated day rain and irrigation
are fully partitioned, runoff is within its bounds, irrigation is the constant depth (capped) and
at most the daily maximum, the seasonal counter is within its cap, the reported table depth is the
configured one, the adjusted field capacity is within its limits, every compartment centred at or
below the table is saturated, capillary rise is non-negative — ten days, positive transpiration
on one of them -/
theorem lift10 :
    ∃ s, RunReach Fq2 Tq (cfgE 1) s ∧ s.daysRev.length = 10 ∧
      (∀ d ∈ s.daysRev, DayFacts d ∧ d.r.flux.zGW = 1 ∧
        (∀ y ∈ d.r.state.cells, y.c.thFC ≤ y.fcAdj ∧ y.fcAdj ≤ y.c.thS) ∧
        (∀ y ∈ d.r.state.cells, 1 ≤ y.c.zMid → y.th = y.c.thS) ∧
        (∀ y ∈ d.r.water.crCells, ∃ x ∈ d.r.trace.f.cells, y.c = x.c ∧ y.fcAdj = x.fcAdj ∧
          x.th ≤ y.th ∧ y.th ≤ max x.th (x.fcAdj + 1 / 20000)) ∧
        0 ≤ d.r.flux.cr) ∧
      ∃ d ∈ s.daysRev, 0 < d.r.flux.tr := by
  obtain ⟨s, hr, _, hlen, _, hR, hpos⟩ := reach10 1 check10_1
  have hRW : ∀ d ∈ s.daysRev, ResidualW d := fun d hd => (hR d hd).cr
  have hC := cfgOK_E 1
  refine ⟨s, hr, hlen, fun d hd => ?_, hpos⟩
  obtain ⟨g1, _⟩ := (run_gw_depth hr d hd).1 rfl
  obtain ⟨k1, k2, _⟩ := run_gw_capillary_slack hC hr hRW rfl d hd
  exact ⟨dayFacts_E hr hRW d hd, g1, run_gw_fcAdj hC hr hRW rfl d hd,
    run_gw_saturated hC hr hRW rfl d hd, k1, k2⟩

/-- **without a water table, on every simulated day of every run of `cfgE 0`** — no hypothesis
about computed values at all -/
theorem lift_no_table {s : RunState ℚ} (hr : RunReach Fq2 Tq (cfgE 0) s) :
    ∀ d ∈ s.daysRev, DayFacts d ∧ d.r.flux.cr = 0 ∧ d.r.flux.gwIn = 0 ∧ d.r.flux.zGW = 0 := by
  have hRW : ∀ d ∈ s.daysRev, ResidualW d := fun d hd =>
    residualW_of_no_table (by rw [(run_dayCfg hr d hd).waterTable]; decide)
  intro d hd
  obtain ⟨a, _, c, _⟩ := run_gw_none (cfgOK_E 0) hr (by decide) d hd
  exact ⟨dayFacts_E hr hRW d hd, a, c, ((run_gw_depth hr d hd).2 (by decide)).1⟩

/-! ### C06: a three-day season with its summary row -/

/-- `cfgq` with a window of 8 days and the latest harvest date on day 3 -/
def cfgS : RunCfg ℚ :=
  { cfgq with clock := { n := 8, planting := [0], harvest := [3], offSeason := false,
                         season0 := 0 } }

theorem validS : Valid cfgS.clock := by
  show Valid { n := 8, planting := [0], harvest := [3], offSeason := false, season0 := 0 }
  decide

theorem initOK_S : InitOK cfgS := ⟨rfl, rfl, rfl, rfl⟩
theorem initIrr0_S : InitIrr0 cfgS := ⟨rfl, rfl⟩

/-- three days: the third one (step 2) is the day before the harvest date; the run finishes with
one summary row -/
def checkS : Bool :=
  match runInit cfgS with
  | .error _ => false
  | .ok s0 =>
    match runStepsR Fq2 Tq cfgS 3 s0 with
    | .ok s => decide (s.finished = true ∧ s.daysRev.length = 3 ∧
        s.summaryTable.map (fun x => (x.season, x.tsc, x.irrTot)) = [(0, 2, 30)] ∧
        s.fluxTable.map (fun f => (f.season, f.tsc, f.irrDay)) = [(0, 0, 10), (0, 1, 10), (0, 2, 10)])
    | .error _ => false

theorem checkS_true : checkS = true := by decide +kernel

/-- **the C06 theorems on a run with a summary row**: the row `(season 0, step 2)` reports
`IrrTot = 30`, which is the sum `10 + 10 + 10` of the irrigation column over the three days of
the season (all its rows; equally the rows up to the harvest step), and repeats the yields of the `crop_growth` row of step 2 -/
theorem summary_example :
    ∃ s, RunReach Fq2 Tq cfgS s ∧ s.summaryTable.length = 1 ∧
      (∀ x ∈ s.summaryTable, x.season = 0 ∧ x.tsc = 2 ∧ x.irrTot = 30 ∧
        x.irrTot = ((s.fluxTable.filter (fun f => decide (f.season = x.season))).map
          (·.irrDay)).sum ∧
        x.irrTot = ((s.fluxTable.filter
          (fun f => decide (f.season = x.season) && decide (f.tsc ≤ x.tsc))).map (·.irrDay)).sum ∧
        x.irrTot ≤ 1000 ∧
        ∃ g ∈ s.growthTable, g.season = x.season ∧ g.tsc = x.tsc ∧ x.dryYield = g.dryYield ∧
          x.freshYield = g.freshYield ∧ x.yieldPot = g.yieldPot) ∧
      (s.summaryTable.map (·.season)).Pairwise (· < ·) := by
  have hc := checkS_true
  unfold checkS at hc
  cases h0 : runInit cfgS with
  | error e => rw [h0] at hc; simp at hc
  | ok s0 =>
    rw [h0] at hc
    simp only at hc
    cases h1 : runStepsR Fq2 Tq cfgS 3 s0 with
    | error e => rw [h1] at hc; simp at hc
    | ok s =>
      rw [h1] at hc
      simp only [decide_eq_true_eq] at hc
      obtain ⟨_, _, a3, _⟩ := hc
      have hr : RunReach Fq2 Tq cfgS s := runReach_runSteps 3 (RunReach.init h0) h1
      have hK : IrrCapOK cfgS :=
        { maxSeason := fun season => by
            unfold irrSetOf
            split_ifs <;> norm_num [cfgS, cfgq, Wq]
          init := by
            show (0 : ℚ) ≤ 1000
            norm_num }
      have hlen : s.summaryTable.length = 1 := by
        have := congrArg List.length a3
        simpa using this
      refine ⟨s, hr, hlen, fun x hx => ?_, run_summary_rows validS.wf initOK_S hr⟩
      have hmem : (x.season, x.tsc, x.irrTot) ∈
          s.summaryTable.map (fun x => (x.season, x.tsc, x.irrTot)) := List.mem_map_of_mem hx
      rw [a3] at hmem
      simp only [List.mem_singleton, Prod.mk.injEq] at hmem
      obtain ⟨e1, e2, e3⟩ := hmem
      exact ⟨e1, e2, e3, run_summary_irrigation validS initOK_S initIrr0_S hr x hx,
        run_summary_irrigation_upto validS initOK_S initIrr0_S hr x hx,
        run_summary_total_le_max validS initOK_S hK (by decide) hr x hx,
        run_summary_yields hr x hx⟩

/-! ### the fallow days after the summary row (off-season simulated) -/

/-- two seasons (planting on days 0 and 6, latest harvest dates on days 3 and 9), off-season
simulated -/
def cfgP : RunCfg ℚ :=
  { cfgq with clock := { n := 12, planting := [0, 6], harvest := [3, 9], offSeason := true,
                         season0 := 0 } }

theorem validP : Valid cfgP.clock := by
  show Valid { n := 12, planting := [0, 6], harvest := [3, 9], offSeason := true, season0 := 0 }
  decide

theorem initOK_P : InitOK cfgP := ⟨rfl, rfl, rfl, rfl⟩
theorem initIrr0_P : InitIrr0 cfgP := ⟨rfl, rfl⟩

def checkP : Bool :=
  match runInit cfgP with
  | .error _ => false
  | .ok s0 =>
    match runStepsR Fq2 Tq cfgP 5 s0 with
    | .ok s => decide (s.finished = false ∧
        s.summaryTable.map (fun x => (x.season, x.tsc, x.irrTot)) = [(0, 2, 30)] ∧
        s.fluxTable.map (fun f => (f.season, f.tsc, f.dap, f.irrDay)) =
          [(0, 0, 1, 10), (0, 1, 2, 10), (0, 2, 3, 10), (0, 3, 0, 0), (0, 4, 0, 0)] ∧
        s.storageTable.map (·.gs) = [true, true, true, false, false])
    | .error _ => false

theorem checkP_true : checkP = true := by decide +kernel

/-- **with the off-season simulated, the latest harvest date is a fallow day of the season whose
summary row has just been written**: the summary row of season 0 is written on step 2 (the day
before the latest harvest date 3) with `IrrTot = 30`; steps 3 and 4 — same season counter — have
`growing_season = False`, `dap = 0` and no irrigation, so the sum of the daily irrigation column
over *all* rows of season 0 is `30`, the seasonal total (`run_summary_irrigation`, instantiated
for this `Valid` configuration; `run_no_growing_day_after_harvest` for the two fallow days).
Before repository commit d260679 step 3 was a growing day with 10 mm of irrigation (sum 40). -/
theorem harvest_date_is_fallow :
    ∃ s, RunReach Fq2 Tq cfgP s ∧ Valid cfgP.clock ∧
      (∃ x ∈ s.summaryTable, x.season = 0 ∧ x.tsc = 2 ∧ x.irrTot = 30) ∧
      s.fluxTable.map (fun f => (f.season, f.tsc, f.dap, f.irrDay)) =
        [(0, 0, 1, 10), (0, 1, 2, 10), (0, 2, 3, 10), (0, 3, 0, 0), (0, 4, 0, 0)] ∧
      s.storageTable.map (·.gs) = [true, true, true, false, false] ∧
      ((s.fluxTable.filter (fun f => decide (f.season = 0))).map (·.irrDay)).sum = 30 ∧
      (∀ x ∈ s.summaryTable,
        x.irrTot = ((s.fluxTable.filter (fun f => decide (f.season = x.season))).map
          (·.irrDay)).sum) ∧
      (∀ x ∈ s.summaryTable, ∀ d ∈ s.daysRev, d.D.season = x.season → x.tsc < d.D.tsc →
        FallowDay d) ∧
      (∃ d ∈ s.daysRev, d.D.season = 0 ∧ 2 < d.D.tsc) := by
  have hc := checkP_true
  unfold checkP at hc
  cases h0 : runInit cfgP with
  | error e => rw [h0] at hc; simp at hc
  | ok s0 =>
    rw [h0] at hc
    simp only at hc
    cases h1 : runStepsR Fq2 Tq cfgP 5 s0 with
    | error e => rw [h1] at hc; simp at hc
    | ok s =>
      rw [h1] at hc
      simp only [decide_eq_true_eq] at hc
      obtain ⟨_, a2, a3, a4⟩ := hc
      have hr : RunReach Fq2 Tq cfgP s := runReach_runSteps 5 (RunReach.init h0) h1
      have hsum : ((s.fluxTable.filter (fun f => decide (f.season = 0))).map (·.irrDay)).sum
          = 30 := by
        have e : (s.fluxTable.filter (fun f => decide (f.season = 0))).map (·.irrDay) =
            ((s.fluxTable.map (fun f => (f.season, f.tsc, f.dap, f.irrDay))).filter
              (fun p => decide (p.1 = 0))).map (fun p => p.2.2.2) := by
          rw [List.filter_map, List.map_map]
          rfl
        rw [e, a3]
        norm_num [List.filter]
      refine ⟨s, hr, validP, ?_, a3, a4, hsum,
        run_summary_irrigation validP initOK_P initIrr0_P hr,
        run_no_growing_day_after_harvest validP.wf initOK_P hr, ?_⟩
      · cases hs : s.summaryTable with
        | nil => rw [hs] at a2; simp at a2
        | cons x rest =>
          rw [hs] at a2
          simp only [List.map_cons, List.cons.injEq, Prod.mk.injEq] at a2
          exact ⟨x, List.mem_cons_self, a2.1.1, a2.1.2.1, a2.1.2.2⟩
      · -- the fallow day of step 3 exists among the recorded days
        have hmem : ((0 : Int), 3, 0, (0 : ℚ)) ∈
            s.fluxTable.map (fun f => (f.season, f.tsc, f.dap, f.irrDay)) := by
          rw [a3]; simp
        obtain ⟨f, hf, hfe⟩ := List.mem_map.mp hmem
        obtain ⟨d, hd, rfl⟩ := mem_fluxTable.mp hf
        obtain ⟨e1, e2, _⟩ := fullDay_row_keys (run_days hr d hd)
        simp only [Prod.mk.injEq] at hfe
        refine ⟨d, hd, by rw [← e2]; exact hfe.1, ?_⟩
        rw [← e1, hfe.2.1]
        decide

end RunLiftExample
end Aqua

#print axioms Aqua.RunLiftExample.cnOK_adj
#print axioms Aqua.RunLiftExample.lift10
#print axioms Aqua.RunLiftExample.lift_no_table
#print axioms Aqua.RunLiftExample.summary_example
#print axioms Aqua.RunLiftExample.harvest_date_is_fallow
