import AquaVerif.Model.CanopyCover
import AquaVerif.Proofs.Response
import AquaVerif.Proofs.PowSq
/-
Lemmas about `canopy_cover` (property C05): off-season zeros, the cap of the micro-advection
adjustment, `CC ≤ CC_NS`, and the range of the actual / potential canopy cover.
-/

set_option linter.unusedSectionVars false
set_option linter.unusedVariables false
namespace Aqua
variable {α : Type} [Field α] [LinearOrder α] [IsStrictOrderedRing α]

/-! ## shape of the result -/

/-- in season the result is `ccSeason` for the time pair of the crop's calendar type and *some*
water status `(dr, taw)` (the one `root_zone_water` yields). -/
theorem canopyCover_season {F : Fn α} {crop : CcCrop α} {cells : List (Cell α)} {zTop : α}
    {st out : CcState α} {gdd et0 : α}
    (h : canopyCover F crop cells zTop st gdd et0 true = .ok out) :
    ∃ dr taw dt t, ccTime crop st gdd = some (dt, t) ∧ out = ccSeason F crop st dr taw et0 dt t := by
  unfold canopyCover at h
  simp only [if_true] at h
  split at h
  · cases h
  · rename_i rz _
    split at h
    · cases h
    · rename_i dt t ht
      injection h with h
      exact ⟨_, _, dt, t, ht, h.symm⟩

theorem canopyCover_offseason {F : Fn α} {crop : CcCrop α} {cells : List (Cell α)} {zTop : α}
    {st : CcState α} {gdd et0 : α} :
    canopyCover F crop cells zTop st gdd et0 false = .ok (ccOffSeason { st with ccPrev := st.cc }) := by
  unfold canopyCover; simp

/-! ## 1. outside a growing season the canopy is zero -/

theorem cc_offseason {F : Fn α} {crop : CcCrop α} {cells : List (Cell α)} {zTop : α}
    {st out : CcState α} {gdd et0 : α} {gs : Bool} (hgs : gs = false)
    (h : canopyCover F crop cells zTop st gdd et0 gs = .ok out) :
    out.cc = 0 ∧ out.ccNS = 0 ∧ out.ccAdj = 0 ∧ out.ccAdjNS = 0 := by
  subst hgs
  rw [canopyCover_offseason] at h
  injection h with h
  subst h
  exact ⟨rfl, rfl, rfl, rfl⟩

/-- … and so are the season maxima kept for the withered-canopy bookkeeping. -/
theorem cc_offseason_maxima {F : Fn α} {crop : CcCrop α} {cells : List (Cell α)} {zTop : α}
    {st out : CcState α} {gdd et0 : α} {gs : Bool} (hgs : gs = false)
    (h : canopyCover F crop cells zTop st gdd et0 gs = .ok out) :
    out.ccxW = 0 ∧ out.ccxAct = 0 ∧ out.ccxWNS = 0 ∧ out.ccxActNS = 0 ∧ out.ccPrev = st.cc := by
  subst hgs
  rw [canopyCover_offseason] at h
  injection h with h
  subst h
  exact ⟨rfl, rfl, rfl, rfl, rfl⟩

/-- the call never fails outside a growing season -/
theorem canopyCover_offseason_ok (F : Fn α) (crop : CcCrop α) (cells : List (Cell α)) (zTop : α)
    (st : CcState α) (gdd et0 : α) :
    ∃ out, canopyCover F crop cells zTop st gdd et0 false = .ok out :=
  ⟨_, canopyCover_offseason⟩

/-! ## 2. the micro-advection adjustment -/

theorem microAdv_le_one (F : Fn α) (c : α) : microAdv F c ≤ 1 := by
  unfold microAdv
  simp only []
  split_ifs with h
  · exact le_refl _
  · exact not_lt.mp h

/-- the only fact about `x ** 3` that the sign of the adjusted cover needs -/
structure PowCubeNonneg (F : Fn α) : Prop where
  pow3_nonneg : ∀ x : α, 0 ≤ x → 0 ≤ F.pow x 3

theorem microAdv_nonneg {F : Fn α} (hS : PowSqLaw F) (hP : PowCubeNonneg F) {c : α} (h0 : 0 ≤ c)
    (h1 : c ≤ 1) : 0 ≤ microAdv F c := by
  unfold microAdv microAdvPoly
  simp only [hS.pow_two]
  have hp := hP.pow3_nonneg c h0
  split_ifs with h
  · exact zero_le_one
  · nlinarith [mul_nonneg h0 (sub_nonneg.mpr h1)]

/-- with the exact cube the capped polynomial is `min 1 (1.72c − c² + 0.3c³)` -/
theorem microAdv_eq_of_cube {F : Fn α} (hS : PowSqLaw F) (hc : ∀ x : α, F.pow x 3 = x * x * x)
    (c : α) : microAdv F c = min 1 (1.72 * c - c * c + 0.3 * (c * c * c)) := by
  unfold microAdv microAdvPoly
  simp only [hc, hS.pow_two]
  split_ifs with h
  · exact (min_eq_left h.le).symm
  · exact (min_eq_right (not_lt.mp h)).symm

theorem ccSeason_ccAdj (F : Fn α) (crop : CcCrop α) (s0 : CcState α) (dr taw et0 dt t : α) :
    (ccSeason F crop s0 dr taw et0 dt t).ccAdj = microAdv F (ccSeason F crop s0 dr taw et0 dt t).cc ∧
    (ccSeason F crop s0 dr taw et0 dt t).ccAdjNS =
      microAdv F (ccSeason F crop s0 dr taw et0 dt t).ccNS :=
  ⟨rfl, rfl⟩

/-- the adjusted covers never exceed 1 (the cap), in and off season -/
theorem ccadj_le_one {F : Fn α} {crop : CcCrop α} {cells : List (Cell α)} {zTop : α}
    {st out : CcState α} {gdd et0 : α} {gs : Bool}
    (h : canopyCover F crop cells zTop st gdd et0 gs = .ok out) :
    out.ccAdj ≤ 1 ∧ out.ccAdjNS ≤ 1 := by
  cases gs
  · obtain ⟨_, _, h3, h4⟩ := cc_offseason rfl h
    rw [h3, h4]; exact ⟨zero_le_one, zero_le_one⟩
  · obtain ⟨dr, taw, dt, t, _, rfl⟩ := canopyCover_season h
    obtain ⟨e1, e2⟩ := ccSeason_ccAdj F crop st dr taw et0 dt t
    rw [e1, e2]
    exact ⟨microAdv_le_one _ _, microAdv_le_one _ _⟩

/-- the adjusted covers are non-negative when the covers are fractions -/
theorem ccadj_nonneg {F : Fn α} (hS : PowSqLaw F) (hP : PowCubeNonneg F) {crop : CcCrop α} {cells : List (Cell α)}
    {zTop : α} {st out : CcState α} {gdd et0 : α} {gs : Bool}
    (h : canopyCover F crop cells zTop st gdd et0 gs = .ok out) :
    (0 ≤ out.cc → out.cc ≤ 1 → 0 ≤ out.ccAdj) ∧ (0 ≤ out.ccNS → out.ccNS ≤ 1 → 0 ≤ out.ccAdjNS) := by
  cases gs
  · obtain ⟨_, _, h3, h4⟩ := cc_offseason rfl h
    rw [h3, h4]; exact ⟨fun _ _ => le_refl _, fun _ _ => le_refl _⟩
  · obtain ⟨dr, taw, dt, t, _, rfl⟩ := canopyCover_season h
    obtain ⟨e1, e2⟩ := ccSeason_ccAdj F crop st dr taw et0 dt t
    rw [e1, e2]
    exact ⟨fun a b => microAdv_nonneg hS hP a b, fun a b => microAdv_nonneg hS hP a b⟩

/-! ## 3. the actual canopy never exceeds the potential one -/

theorem ccFixup_cc (crop : CcCrop α) (s : CcState α) (t : α) : (ccFixup crop s t).cc = s.cc := by
  unfold ccFixup; split_ifs <;> rfl

theorem ccFixup_ccNS (crop : CcCrop α) (s : CcState α) (t : α) :
    (ccFixup crop s t).ccNS = max s.ccNS s.cc := by
  unfold ccFixup
  split_ifs with h1 h2
  · exact (max_eq_right h1.le).symm
  · exact (max_eq_right h1.le).symm
  · exact (max_eq_left (not_lt.mp h1)).symm

/-- the state handed to the final fix-up (after potential, actual, senescence) -/
def ccBeforeFixup (F : Fn α) (crop : CcCrop α) (s0 : CcState α) (dr taw et0 dt t : α) : CcState α :=
  let ws (tes : α) (betaFlag : Bool) : Ksw α :=
    waterStress F crop.pUp crop.pLo crop.fshW crop.etAdj crop.beta tes dr taw et0 betaFlag
  let ksw := ws s0.tEarlySen true
  ccSenescence F crop s0
    (ccActual F crop s0 (ccPotential F crop s0 { s0 with ccPrev := s0.cc } dt t) ksw.exp dt t)
    ksw.sen (fun tes => (ws tes false).sen) dt t

theorem ccSeason_cc (F : Fn α) (crop : CcCrop α) (s0 : CcState α) (dr taw et0 dt t : α) :
    (ccSeason F crop s0 dr taw et0 dt t).cc = (ccBeforeFixup F crop s0 dr taw et0 dt t).cc := by
  show (ccFixup crop _ t).cc = _
  rw [ccFixup_cc]; rfl

theorem ccSeason_ccNS (F : Fn α) (crop : CcCrop α) (s0 : CcState α) (dr taw et0 dt t : α) :
    (ccSeason F crop s0 dr taw et0 dt t).ccNS =
      max (ccBeforeFixup F crop s0 dr taw et0 dt t).ccNS (ccBeforeFixup F crop s0 dr taw et0 dt t).cc := by
  show (ccFixup crop _ t).ccNS = _
  rw [ccFixup_ccNS]; rfl

/-- in season `canopy_cover ≤ canopy_cover_ns` on return — unconditionally (no premise on the
crop or the previous state): it is enforced by the final fix-up. -/
theorem cc_le_ns {F : Fn α} {crop : CcCrop α} {cells : List (Cell α)} {zTop : α}
    {st out : CcState α} {gdd et0 : α}
    (h : canopyCover F crop cells zTop st gdd et0 true = .ok out) :
    out.cc ≤ out.ccNS := by
  obtain ⟨dr, taw, dt, t, _, rfl⟩ := canopyCover_season h
  rw [ccSeason_cc, ccSeason_ccNS]
  exact le_max_right _ _

/-- … and also off season (both are zero) -/
theorem cc_le_ns_always {F : Fn α} {crop : CcCrop α} {cells : List (Cell α)} {zTop : α}
    {st out : CcState α} {gdd et0 : α} {gs : Bool}
    (h : canopyCover F crop cells zTop st gdd et0 gs = .ok out) :
    out.cc ≤ out.ccNS := by
  cases gs
  · obtain ⟨h1, h2, _, _⟩ := cc_offseason rfl h
    rw [h1, h2]
  · exact cc_le_ns h

/-! ## 4./5. range of the canopy covers

Every value assigned to `canopy_cover` / `canopy_cover_ns` is one of
* `0`, a copy of the previous value, a `min` with the previous value;
* `cc_development(…, "Growth", …)` — never above its `CCx` argument (the explicit cap), never
  below 0 (the final clipping): no law about `exp` is needed;
* `cc_development(…, "Decline", …)` for a non-negative elapsed time — within `[0, CCx argument]`
  (`exp` monotone);
* the *unclipped* first-day growth `CC0adj · exp(CGC · dtCC)` — bounded by `CCx` only under the
  explicit premise `CC0 · exp(CGC · dtCC) ≤ CCx` (`CcParams.step`);
* the rewatering re-parameterisation `update_CCx_CDC` — its `CCXadj` may exceed `CCx`, but the new
  cover is at most the previous one (`rewater_le`).
-/

theorem ccGrowth_le_ccx (F : Fn α) (cco ccx cgc dt : α) : ccGrowth F cco ccx cgc dt ≤ ccx := by
  unfold ccGrowth
  dsimp only
  split_ifs with h1 h2 h3
  all_goals first | exact le_refl _ | exact not_lt.mp ‹_›

/-- growth mode: within `[0, CCx]` as soon as `0 ≤ CCx` — all other arguments arbitrary -/
theorem growth_mem (F : Fn α) (cco cgc cdc dt ccx0 : α) {ccx B : α} (h0 : 0 ≤ ccx) (hB : ccx ≤ B) :
    0 ≤ ccDevelopment F cco ccx cgc cdc dt .growth ccx0 ∧
      ccDevelopment F cco ccx cgc cdc dt .growth ccx0 ≤ B :=
  ⟨(ccDevelopment_range01 F cco ccx cgc cdc dt .growth ccx0).1,
   le_trans (clipCC_le (ccGrowth_le_ccx F cco ccx cgc dt) h0) hB⟩

/-- decline mode from `x` (`CCx = CCx0 = x`): within `[0, B]` for any `B ≥ max x 0` -/
theorem decline_mem {F : Fn α} (hF : ExpOrdLaws F) (cco cgc : α) {x cdc' dt' B : α}
    (hcdc : ¬ x < 0.001 → 0 ≤ cdc') (hdt : 0 ≤ dt') (hx : x ≤ B) (hB : 0 ≤ B) :
    0 ≤ ccDevelopment F cco x cgc cdc' dt' .decline x ∧
      ccDevelopment F cco x cgc cdc' dt' .decline x ≤ B := by
  refine ⟨(ccDevelopment_range01 F cco x cgc cdc' dt' .decline x).1, ?_⟩
  by_cases h : x < 0.001
  · show clipCC (ccDecline F x cdc' dt' x) ≤ B
    unfold ccDecline
    rw [if_pos h]
    exact clipCC_le hB hB
  · rw [not_lt] at h
    have hx0 : (0:α) ≤ x := le_trans (by norm_num) h
    exact le_trans (ccDevelopment_decline_range hF cco cgc (hcdc (not_lt.mpr h)) (by linarith) hx0 hdt).2 hx

theorem adjustCCx_mem (F : Fn α) (ccPrev cco cgc cdc dt tSum devEnd : α) {ccx : α} (h0 : 0 ≤ ccx) :
    0 ≤ adjustCCx F ccPrev cco ccx cgc cdc dt tSum devEnd ccx ∧
      adjustCCx F ccPrev cco ccx cgc cdc dt tSum devEnd ccx ≤ ccx := by
  unfold adjustCCx
  dsimp only
  split_ifs with h
  · exact growth_mem F _ _ _ _ _ h0 (le_refl _)
  · exact ⟨le_refl _, h0⟩

/-- rewatering in the late season: whatever `CCXadj` is, the new canopy cover is at most the
previous one (`p`).  Needs: `exp` monotone, `0 ≤ p`, `0 ≤ CDC`, `0 ≤ CCx`, `0 ≤ dtCC`. -/
theorem rewater_le {F : Fn α} (hF : ExpOrdLaws F) (cco cgc : α) {p cdc ccx dt t sen : α}
    (hp : 0 ≤ p) (hcdc : 0 ≤ cdc) (hccx : 0 ≤ ccx) (hdt : 0 ≤ dt) :
    ccDevelopment F cco (updateCCxCDC F p cdc ccx (t - dt - sen)).1 cgc
      (updateCCxCDC F p cdc ccx (t - dt - sen)).2 (t - sen) .decline
      (updateCCxCDC F p cdc ccx (t - dt - sen)).1 ≤ p := by
  show clipCC _ ≤ p
  apply clipCC_le _ hp
  simp only [updateCCxCDC]
  generalize hk : (cdc * 3.33) / (ccx + 2.29) = k
  generalize hD : 1 - 0.05 * (F.exp ((t - dt - sen) * k) - 1) = D
  generalize hX : p / D = X
  have hc229 : 0 < ccx + 2.29 := by linarith [show (0:α) < 2.29 by norm_num]
  have hk0 : 0 ≤ k := by rw [← hk]; positivity
  unfold ccDecline
  split_ifs with h
  · exact hp
  · rw [not_lt] at h
    have hXpos : 0 < X := lt_of_lt_of_le (by norm_num) h
    have hDpos : 0 < D := by
      by_contra hc
      rw [not_lt] at hc
      have : X ≤ 0 := by rw [← hX]; exact div_nonpos_of_nonneg_of_nonpos hp hc
      linarith
    have hX229 : 0 < X + 2.29 := by linarith [show (0:α) < 2.29 by norm_num]
    have harg : (t - sen) * (cdc * ((X + 2.29) / (ccx + 2.29))) * 3.33 * ((X + 2.29) / (X + 2.29)) /
        (X + 2.29) = (t - sen) * k := by
      rw [← hk]; field_simp
    rw [harg]
    have hle : (t - dt - sen) * k ≤ (t - sen) * k := by nlinarith
    have he := hF.exp_le hle
    have hN : 1 - 0.05 * (F.exp ((t - sen) * k) - 1) ≤ D := by rw [← hD]; linarith
    calc X * (1 - 0.05 * (F.exp ((t - sen) * k) - 1)) ≤ X * D :=
          mul_le_mul_of_nonneg_left hN hXpos.le
      _ = p := by rw [← hX]; field_simp

/-- premises on the crop parameters and the day's time step `dtCC` (`1`, or the day's `gdd`) -/
structure CcParams (F : Fn α) (crop : CcCrop α) (dt : α) : Prop where
  cc0_nonneg : 0 ≤ crop.cc0
  cdc_nonneg : 0 ≤ crop.cdc
  dt_nonneg : 0 ≤ dt
  /-- one day of unrestricted exponential growth from `CC0` stays below `CCx` (this value is
  assigned to the canopy cover *without* any clipping) -/
  step : crop.cc0 * F.exp (crop.cgc * dt) ≤ crop.ccx

theorem CcParams.ccx_nonneg {F : Fn α} (hF : ExpOrdLaws F) {crop : CcCrop α} {dt : α}
    (hp : CcParams F crop dt) : 0 ≤ crop.ccx :=
  le_trans (mul_nonneg hp.cc0_nonneg (hF.exp_pos _).le) hp.step

theorem ccDie_range (s0 s : CcState α) {B : α} (h0 : 0 ≤ s.cc) (hB : s.cc ≤ B) :
    0 ≤ (ccDie s0 s).cc ∧ (ccDie s0 s).cc ≤ B := by
  unfold ccDie
  split_ifs
  · exact ⟨le_refl _, le_trans h0 hB⟩
  · exact ⟨h0, hB⟩

theorem ccDie_frame (s0 s : CcState α) :
    (ccDie s0 s).cc0Adj = s.cc0Adj ∧ (ccDie s0 s).ccxAct = s.ccxAct ∧ (ccDie s0 s).ccNS = s.ccNS ∧
      (ccDie s0 s).ccxActNS = s.ccxActNS := by
  unfold ccDie
  split_ifs <;> exact ⟨rfl, rfl, rfl, rfl⟩

theorem ccDie_cc_le (s0 s : CcState α) (h0 : 0 ≤ s.cc) : (ccDie s0 s).cc ≤ s.cc :=
  (ccDie_range s0 s h0 (le_refl _)).2

/-- the water-stress adjusted growth block -/
theorem ccGrowing_range (F : Fn α) (crop : CcCrop α) (s0 s : CcState α) (kswExp dt t : α)
    (hccx : 0 ≤ crop.ccx) (h0 : 0 ≤ s0.cc) (h1 : s0.cc ≤ crop.ccx)
    (ha0 : 0 ≤ s.cc0Adj) (ha1 : s.cc0Adj ≤ crop.cc0) :
    0 ≤ (ccGrowing F crop s0 s kswExp dt t).1.cc ∧ (ccGrowing F crop s0 s kswExp dt t).1.cc ≤ crop.ccx ∧
    0 ≤ (ccGrowing F crop s0 s kswExp dt t).1.cc0Adj ∧
    (ccGrowing F crop s0 s kswExp dt t).1.cc0Adj ≤ crop.cc0 ∧
    (ccGrowing F crop s0 s kswExp dt t).1.ccxAct = s.ccxAct := by
  have hc0 : 0 ≤ crop.cc0 := le_trans ha0 ha1
  unfold ccGrowing
  dsimp only
  split_ifs with c1 c2 c3 c4 c5 c6
  · exact ⟨h0, h1, ha0, ha1, rfl⟩
  · obtain ⟨a, b⟩ := growth_mem F crop.cc0 crop.cgc crop.cdc (t - crop.emergence) crop.ccx hccx (le_refl _)
    exact ⟨a, b, ha0, ha1, rfl⟩
  · obtain ⟨x0, x1⟩ := adjustCCx_mem F s0.cc s.cc0Adj (crop.cgc * kswExp) crop.cdc dt t
      crop.canopyDevEnd hccx
    obtain ⟨a, b⟩ := growth_mem F s.cc0Adj (crop.cgc * kswExp) crop.cdc
      (ccRequiredTime F s0.cc s.cc0Adj
        (adjustCCx F s0.cc s.cc0Adj crop.ccx (crop.cgc * kswExp) crop.cdc dt t crop.canopyDevEnd crop.ccx)
        (crop.cgc * kswExp) crop.cdc .cgc + dt) crop.ccx x0 x1
    exact ⟨a, b, ha0, ha1, rfl⟩
  · exact ⟨h0, h1, ha0, ha1, rfl⟩
  · exact ⟨h0, h1, hc0, le_refl _, rfl⟩
  · exact ⟨h0, h1, h0, le_trans (not_lt.mp c6) ha1, rfl⟩
  · obtain ⟨a, b⟩ := growth_mem F crop.cc0 crop.cgc crop.cdc (t - crop.emergence) crop.ccx hccx (le_refl _)
    exact ⟨a, b, hc0, le_refl _, rfl⟩

/-- range invariant of the fields the "actual canopy" blocks read and write; `B` bounds the cover
and the season maximum `ccx_act` (`B = CCx` when the previous `ccx_act` is in range) -/
structure CcRng (crop : CcCrop α) (B : α) (s : CcState α) : Prop where
  cc0 : 0 ≤ s.cc
  ccB : s.cc ≤ B
  adj0 : 0 ≤ s.cc0Adj
  adj1 : s.cc0Adj ≤ crop.cc0
  actB : s.ccxAct ≤ B

/-- the potential-canopy fields are not touched -/
def NSFrame (s s' : CcState α) : Prop := s'.ccNS = s.ccNS ∧ s'.ccxActNS = s.ccxActNS

theorem NSFrame.refl (s : CcState α) : NSFrame s s := ⟨rfl, rfl⟩
theorem NSFrame.trans {a b c : CcState α} (h1 : NSFrame a b) (h2 : NSFrame b c) : NSFrame a c :=
  ⟨h2.1.trans h1.1, h2.2.trans h1.2⟩

theorem ccDie_rng {crop : CcCrop α} {B : α} (s0 : CcState α) {s : CcState α} (h : CcRng crop B s) :
    CcRng crop B (ccDie s0 s) := by
  obtain ⟨a, b⟩ := ccDie_range s0 s h.cc0 h.ccB
  obtain ⟨e1, e2, _, _⟩ := ccDie_frame s0 s
  exact ⟨a, b, by rw [e1]; exact h.adj0, by rw [e1]; exact h.adj1, by rw [e2]; exact h.actB⟩

theorem ccDie_ns (s0 s : CcState α) : NSFrame s (ccDie s0 s) :=
  ⟨(ccDie_frame s0 s).2.2.1, (ccDie_frame s0 s).2.2.2⟩

theorem ccSmall_rng {F : Fn α} (hF : ExpOrdLaws F) {crop : CcCrop α} {dt : α}
    (hp : CcParams F crop dt) (s0 : CcState α) (t : α) {B : α} {s : CcState α}
    (hB : crop.ccx ≤ B) (h : CcRng crop B s) : CcRng crop B (ccSmall F crop s0 s dt t).1 := by
  have hccx := hp.ccx_nonneg hF
  unfold ccSmall
  by_cases c1 : s0.protectedSeed = true
  · rw [if_pos c1]
    obtain ⟨a, b⟩ := growth_mem F crop.cc0 crop.cgc crop.cdc (t - crop.emergence) crop.ccx hccx hB
    exact ⟨a, b, h.adj0, h.adj1, h.actB⟩
  · rw [if_neg c1]
    have a : 0 ≤ s.cc0Adj * F.exp (crop.cgc * dt) := mul_nonneg h.adj0 (hF.exp_pos _).le
    have b : s.cc0Adj * F.exp (crop.cgc * dt) ≤ crop.ccx :=
      le_trans (mul_le_mul_of_nonneg_right h.adj1 (hF.exp_pos _).le) hp.step
    exact ⟨a, le_trans b hB, h.adj0, h.adj1, h.actB⟩

theorem ccSmall_ns (F : Fn α) (crop : CcCrop α) (s0 s : CcState α) (dt t : α) :
    NSFrame s (ccSmall F crop s0 s dt t).1 := by
  unfold ccSmall
  by_cases c1 : s0.protectedSeed = true
  · rw [if_pos c1]; exact ⟨rfl, rfl⟩
  · rw [if_neg c1]; exact ⟨rfl, rfl⟩

theorem ccGrowing_rng (F : Fn α) {crop : CcCrop α} (s0 : CcState α) (kswExp dt t : α) {B : α}
    {s : CcState α} (hccx : 0 ≤ crop.ccx) (hB : crop.ccx ≤ B) (h0 : 0 ≤ s0.cc)
    (h1 : s0.cc ≤ crop.ccx) (h : CcRng crop B s) :
    CcRng crop B (ccGrowing F crop s0 s kswExp dt t).1 := by
  obtain ⟨a, b, c, d, e⟩ := ccGrowing_range F crop s0 s kswExp dt t hccx h0 h1 h.adj0 h.adj1
  exact ⟨a, le_trans b hB, c, d, by rw [e]; exact h.actB⟩

theorem ccGrowing_ns (F : Fn α) (crop : CcCrop α) (s0 s : CcState α) (kswExp dt t : α) :
    NSFrame s (ccGrowing F crop s0 s kswExp dt t).1 := by
  unfold ccGrowing; dsimp only; split_ifs <;> exact ⟨rfl, rfl⟩

theorem ccRaiseAct_rng {crop : CcCrop α} {B : α} (s0 : CcState α) {s : CcState α}
    (h : CcRng crop B s) : CcRng crop B (ccRaiseAct s0 s) := by
  unfold ccRaiseAct
  split_ifs
  · exact ⟨h.cc0, h.ccB, h.adj0, h.adj1, h.ccB⟩
  · exact h

theorem ccRaiseAct_ns (s0 s : CcState α) : NSFrame s (ccRaiseAct s0 s) := by
  unfold ccRaiseAct; split_ifs <;> exact ⟨rfl, rfl⟩

theorem ccLate_rng {F : Fn α} (hF : ExpOrdLaws F) {crop : CcCrop α} {dt : α}
    (hp : CcParams F crop dt) {t B : α} {s : CcState α} (hB : crop.ccx ≤ B)
    (ht : ¬ t < crop.senescence) (h : CcRng crop B s) : CcRng crop B (ccLate F crop s t) := by
  have hccx := hp.ccx_nonneg hF
  have hB0 : 0 ≤ B := le_trans hccx hB
  unfold ccLate
  dsimp only
  have hcdc : ¬ s.ccxAct < 0.001 → 0 ≤ crop.cdc * ((s.ccxAct + 2.29) / (crop.ccx + 2.29)) := by
    intro hx
    rw [not_lt] at hx
    have h1 : (0:α) ≤ s.ccxAct + 2.29 := by linarith [show (0:α) < 0.001 by norm_num]
    have h2 : (0:α) ≤ crop.ccx + 2.29 := by linarith
    exact mul_nonneg hp.cdc_nonneg (div_nonneg h1 h2)
  obtain ⟨a, b⟩ := decline_mem hF s.cc0Adj crop.cgc hcdc (sub_nonneg.mpr (not_lt.mp ht)) h.actB hB0
  exact ⟨a, b, h.adj0, h.adj1, h.actB⟩

theorem ccLate_ns (F : Fn α) (crop : CcCrop α) (s : CcState α) (t : α) :
    NSFrame s (ccLate F crop s t) := ⟨rfl, rfl⟩

/-- the "actual canopy" block keeps the range invariant -/
theorem ccActual_rng {F : Fn α} (hF : ExpOrdLaws F) {crop : CcCrop α} {dt : α}
    (hp : CcParams F crop dt) (s0 : CcState α) (kswExp t : α) {B : α} {s : CcState α}
    (hB : crop.ccx ≤ B) (h0 : 0 ≤ s0.cc) (h1 : s0.cc ≤ crop.ccx) (h : CcRng crop B s) :
    CcRng crop B (ccActual F crop s0 s kswExp dt t) := by
  have hccx := hp.ccx_nonneg hF
  have hB0 : 0 ≤ B := le_trans hccx hB
  unfold ccActual ccActualB
  by_cases o1 : ccOutside F crop t
  · rw [if_pos o1]
    exact ⟨le_refl _, hB0, hp.cc0_nonneg, le_refl _, h.actB⟩
  · rw [if_neg o1]
    by_cases d1 : t < crop.canopyDevEnd
    · rw [if_pos d1]
      dsimp only
      by_cases g1 : s0.cc ≤ s.cc0Adj ∨ (s0.protectedSeed = true ∧ s0.cc ≤ 1.25 * s.cc0Adj)
      · rw [if_pos g1]
        exact ccRaiseAct_rng s0 (ccSmall_rng hF hp s0 t hB h)
      · rw [if_neg g1]
        exact ccRaiseAct_rng s0 (ccGrowing_rng F s0 kswExp dt t hccx hB h0 h1 h)
    · rw [if_neg d1]
      by_cases d2 : crop.canopyDevEnd < t
      · rw [if_pos d2]
        dsimp only
        by_cases m1 : t < crop.senescence
        · rw [if_pos m1]
          apply ccDie_rng
          apply ccRaiseAct_rng
          exact ⟨h0, le_trans h1 hB, h.adj0, h.adj1, h.actB⟩
        · rw [if_neg m1]
          exact ccDie_rng s0 (ccLate_rng hF hp hB m1 h)
      · rw [if_neg d2]
        exact h

theorem ccActual_ns (F : Fn α) (crop : CcCrop α) (s0 s : CcState α) (kswExp dt t : α) :
    NSFrame s (ccActual F crop s0 s kswExp dt t) := by
  unfold ccActual ccActualB
  by_cases o1 : ccOutside F crop t
  · rw [if_pos o1]
    exact ⟨rfl, rfl⟩
  · rw [if_neg o1]
    by_cases d1 : t < crop.canopyDevEnd
    · rw [if_pos d1]
      dsimp only
      by_cases g1 : s0.cc ≤ s.cc0Adj ∨ (s0.protectedSeed = true ∧ s0.cc ≤ 1.25 * s.cc0Adj)
      · rw [if_pos g1]
        exact (ccSmall_ns F crop s0 s dt t).trans (ccRaiseAct_ns _ _)
      · rw [if_neg g1]
        exact (ccGrowing_ns F crop s0 s kswExp dt t).trans (ccRaiseAct_ns _ _)
    · rw [if_neg d1]
      by_cases d2 : crop.canopyDevEnd < t
      · rw [if_pos d2]
        dsimp only
        by_cases m1 : t < crop.senescence
        · rw [if_pos m1]
          exact (NSFrame.trans (b := { s with cc := s0.cc }) ⟨rfl, rfl⟩ (ccRaiseAct_ns _ _)).trans
            (ccDie_ns _ _)
        · rw [if_neg m1]
          exact (ccLate_ns F crop s t).trans (ccDie_ns _ _)
      · rw [if_neg d2]
        exact NSFrame.refl s

/-! ### the early-senescence block -/

/-- `CcRng` without the bound on `ccx_act` (which the rewatering branch does not keep) -/
structure CcRngW (crop : CcCrop α) (B : α) (s : CcState α) : Prop where
  cc0 : 0 ≤ s.cc
  ccB : s.cc ≤ B
  adj0 : 0 ≤ s.cc0Adj
  adj1 : s.cc0Adj ≤ crop.cc0

theorem CcRng.toW {crop : CcCrop α} {B : α} {s : CcState α} (h : CcRng crop B s) :
    CcRngW crop B s := ⟨h.cc0, h.ccB, h.adj0, h.adj1⟩

theorem ccDie_rngW {crop : CcCrop α} {B : α} (s0 : CcState α) {s : CcState α}
    (h : CcRngW crop B s) : CcRngW crop B (ccDie s0 s) := by
  obtain ⟨a, b⟩ := ccDie_range s0 s h.cc0 h.ccB
  obtain ⟨e1, _, _, _⟩ := ccDie_frame s0 s
  exact ⟨a, b, by rw [e1]; exact h.adj0, by rw [e1]; exact h.adj1⟩

theorem ccSenValue_nonneg (F : Fn α) (p x cdcAdj dt : α) : 0 ≤ ccSenValue F p x cdcAdj dt := by
  unfold ccSenValue
  by_cases h : x < 0.001
  · rw [if_pos h]
  · rw [if_neg h]
    dsimp only
    split_ifs with h2
    · exact le_refl _
    · exact not_lt.mp h2

/-- early senescence: the new cover is within `[0, previous cover]` before `Senescence`, within
`[0, cover of the "actual" block]` after it; `ccx_act` and `cc0_adj` stay in range.  No law about
`exp`, `log`, `pow` is needed: `CCsen` is clamped at 0 and only ever lowers the cover. -/
theorem ccEarlySen_rng (F : Fn α) {crop : CcCrop α} (s0 : CcState α) (sen2 dt t : α) {B : α}
    {s : CcState α} (hc0 : 0 ≤ crop.cc0) (hB : crop.ccx ≤ B) (h0 : 0 ≤ s0.cc)
    (h1 : s0.cc ≤ crop.ccx) (h : CcRng crop B s) :
    CcRng crop B (ccEarlySen F crop s0 s sen2 dt t) := by
  unfold ccEarlySen
  dsimp only
  have hv := ccSenValue_nonneg F s0.cc s.ccxEarlySen (ccSenCdc F crop sen2) dt
  generalize ccSenValue F s0.cc s.ccxEarlySen (ccSenCdc F crop sen2) dt = v at hv
  apply ccDie_rng
  by_cases c1 : t < crop.senescence
  · rw [if_pos c1]
    have hccx : 0 ≤ crop.ccx := le_trans h0 h1
    have hw : 0 ≤ (if crop.ccx < v then crop.ccx else v) := by split_ifs <;> assumption
    generalize (if crop.ccx < v then crop.ccx else v) = w at hw
    have hcc : 0 ≤ (if s0.cc < w then s0.cc else w) ∧ (if s0.cc < w then s0.cc else w) ≤ s0.cc := by
      split_ifs with c2
      · exact ⟨h0, le_refl _⟩
      · exact ⟨hw, not_lt.mp c2⟩
    generalize (if s0.cc < w then s0.cc else w) = c at hcc
    have hcB : c ≤ B := le_trans hcc.2 (le_trans h1 hB)
    refine ⟨hcc.1, hcB, ?_, ?_, hcB⟩
    · show 0 ≤ (if c < crop.cc0 then c else crop.cc0)
      split_ifs
      · exact hcc.1
      · exact hc0
    · show (if c < crop.cc0 then c else crop.cc0) ≤ crop.cc0
      split_ifs with c3
      · exact c3.le
      · exact le_refl _
  · rw [if_neg c1]
    by_cases c2 : v < s.cc
    · rw [if_pos c2]
      exact ⟨hv, le_trans c2.le h.ccB, h.adj0, h.adj1, h.actB⟩
    · rw [if_neg c2]
      exact h

theorem ccEarlySen_ns (F : Fn α) (crop : CcCrop α) (s0 s : CcState α) (sen2 dt t : α) :
    NSFrame s (ccEarlySen F crop s0 s sen2 dt t) := by
  unfold ccEarlySen
  dsimp only
  refine NSFrame.trans ?_ (ccDie_ns _ _)
  by_cases c1 : t < crop.senescence
  · rw [if_pos c1]; exact ⟨rfl, rfl⟩
  · rw [if_neg c1]
    split_ifs <;> exact ⟨rfl, rfl⟩

theorem ccSenStress_rng (F : Fn α) {crop : CcCrop α} (s0 : CcState α) (sen2 : α → α) (dt t : α)
    {B : α} {s : CcState α} (hc0 : 0 ≤ crop.cc0) (hB : crop.ccx ≤ B) (h0 : 0 ≤ s0.cc)
    (h1 : s0.cc ≤ crop.ccx) (h : CcRng crop B s) :
    CcRng crop B (ccSenStress F crop s0 s sen2 dt t) := by
  unfold ccSenStress
  dsimp only
  apply ccEarlySen_rng F s0 _ dt t hc0 hB h0 h1
  split_ifs <;> exact ⟨h.cc0, h.ccB, h.adj0, h.adj1, h.actB⟩

theorem ccSenStress_ns (F : Fn α) (crop : CcCrop α) (s0 s : CcState α) (sen2 : α → α) (dt t : α) :
    NSFrame s (ccSenStress F crop s0 s sen2 dt t) := by
  unfold ccSenStress
  dsimp only
  refine NSFrame.trans ?_ (ccEarlySen_ns F crop s0 _ _ dt t)
  split_ifs <;> exact ⟨rfl, rfl⟩

/-- rewatering: cover within `[0, previous cover]`; `cc0_adj` untouched; `ccx_act := CCXadj` is
**not** bounded by `CCx` in general -/
theorem ccRewater_rngW {F : Fn α} (hF : ExpOrdLaws F) {crop : CcCrop α} {dt : α}
    (hp : CcParams F crop dt) (s0 : CcState α) (t : α) {B : α} {s : CcState α}
    (hB : crop.ccx ≤ B) (h0 : 0 ≤ s0.cc) (h1 : s0.cc ≤ crop.ccx) (h : CcRngW crop B s) :
    CcRngW crop B (ccRewater F crop s0 s dt t) := by
  unfold ccRewater
  dsimp only
  apply ccDie_rngW
  have hle := rewater_le hF s.cc0Adj crop.cgc (t := t) (sen := crop.senescence) h0 hp.cdc_nonneg
    (hp.ccx_nonneg hF) hp.dt_nonneg
  exact ⟨(ccDevelopment_range01 F s.cc0Adj
      (updateCCxCDC F s0.cc crop.cdc crop.ccx (t - dt - crop.senescence)).1 crop.cgc
      (updateCCxCDC F s0.cc crop.cdc crop.ccx (t - dt - crop.senescence)).2 (t - crop.senescence)
      .decline (updateCCxCDC F s0.cc crop.cdc crop.ccx (t - dt - crop.senescence)).1).1,
    le_trans hle (le_trans h1 hB), h.adj0, h.adj1⟩

theorem ccRewater_ns (F : Fn α) (crop : CcCrop α) (s0 s : CcState α) (dt t : α) :
    NSFrame s (ccRewater F crop s0 s dt t) := by
  unfold ccRewater
  dsimp only
  exact NSFrame.trans ⟨rfl, rfl⟩ (ccDie_ns _ _)

theorem ccSenNoStress_rngW {F : Fn α} (hF : ExpOrdLaws F) {crop : CcCrop α} {dt : α}
    (hp : CcParams F crop dt) (s0 : CcState α) (t : α) {B : α} {s : CcState α}
    (hB : crop.ccx ≤ B) (h0 : 0 ≤ s0.cc) (h1 : s0.cc ≤ crop.ccx) (h : CcRng crop B s) :
    CcRngW crop B (ccSenNoStress F crop s0 s dt t) ∧
      (¬ (crop.senescence < t ∧ 0 < s0.tEarlySen) → (ccSenNoStress F crop s0 s dt t).ccxAct ≤ B) := by
  unfold ccSenNoStress
  dsimp only
  by_cases c : crop.senescence < t ∧ 0 < s0.tEarlySen
  · rw [if_pos c]
    have hw : CcRngW crop B { s with prematSenes := false } := ⟨h.cc0, h.ccB, h.adj0, h.adj1⟩
    obtain ⟨a, b, c', d⟩ := ccRewater_rngW hF hp s0 t hB h0 h1 hw
    exact ⟨⟨a, b, c', d⟩, fun hn => absurd c hn⟩
  · rw [if_neg c]
    exact ⟨⟨h.cc0, h.ccB, h.adj0, h.adj1⟩, fun _ => h.actB⟩

theorem ccSenNoStress_ns (F : Fn α) (crop : CcCrop α) (s0 s : CcState α) (dt t : α) :
    NSFrame s (ccSenNoStress F crop s0 s dt t) := by
  unfold ccSenNoStress
  dsimp only
  by_cases c : crop.senescence < t ∧ 0 < s0.tEarlySen
  · rw [if_pos c]
    obtain ⟨a, b⟩ := ccRewater_ns F crop s0 { s with prematSenes := false } dt t
    exact ⟨a, b⟩
  · rw [if_neg c]; exact ⟨rfl, rfl⟩

theorem ccRaiseW_frame (s0 s : CcState α) :
    (ccRaiseW s0 s).cc = s.cc ∧ (ccRaiseW s0 s).cc0Adj = s.cc0Adj ∧
      (ccRaiseW s0 s).ccxAct = s.ccxAct ∧ NSFrame s (ccRaiseW s0 s) := by
  unfold ccRaiseW
  split_ifs <;> exact ⟨rfl, rfl, rfl, rfl, rfl⟩

/-- the whole senescence block: cover and `cc0_adj` stay in range; `ccx_act` stays below `B`
unless the rewatering branch is taken (`Senescence < tCCadj` and a running early senescence) -/
theorem ccSenescence_rng {F : Fn α} (hF : ExpOrdLaws F) {crop : CcCrop α} {dt : α}
    (hp : CcParams F crop dt) (s0 : CcState α) (kswSen : α) (sen2 : α → α) (t : α) {B : α}
    {s : CcState α} (hB : crop.ccx ≤ B) (h0 : 0 ≤ s0.cc) (h1 : s0.cc ≤ crop.ccx)
    (h : CcRng crop B s) :
    CcRngW crop B (ccSenescence F crop s0 s kswSen sen2 dt t) ∧
      (¬ (crop.senescence < t ∧ 0 < s0.tEarlySen) →
        (ccSenescence F crop s0 s kswSen sen2 dt t).ccxAct ≤ B) := by
  unfold ccSenescence
  by_cases e1 : crop.emergence ≤ t
  · rw [if_pos e1]
    by_cases e2 : t < crop.senescence ∨ 0 < s0.tEarlySen
    · rw [if_pos e2]
      by_cases e3 : kswSen < 1 ∧ s0.protectedSeed = false
      · rw [if_pos e3]
        have hs := ccSenStress_rng F s0 sen2 dt t hp.cc0_nonneg hB h0 h1 h
        obtain ⟨f1, f2, f3, _⟩ := ccRaiseW_frame s0 (ccSenStress F crop s0 s sen2 dt t)
        refine ⟨⟨by rw [f1]; exact hs.cc0, by rw [f1]; exact hs.ccB, by rw [f2]; exact hs.adj0,
          by rw [f2]; exact hs.adj1⟩, fun _ => by rw [f3]; exact hs.actB⟩
      · rw [if_neg e3]
        obtain ⟨hs, hx⟩ := ccSenNoStress_rngW hF hp s0 t hB h0 h1 h
        obtain ⟨f1, f2, f3, _⟩ := ccRaiseW_frame s0 (ccSenNoStress F crop s0 s dt t)
        refine ⟨⟨by rw [f1]; exact hs.cc0, by rw [f1]; exact hs.ccB, by rw [f2]; exact hs.adj0,
          by rw [f2]; exact hs.adj1⟩, fun hn => by rw [f3]; exact hx hn⟩
    · rw [if_neg e2]
      exact ⟨h.toW, fun _ => h.actB⟩
  · rw [if_neg e1]
    exact ⟨h.toW, fun _ => h.actB⟩

theorem ccSenescence_ns (F : Fn α) (crop : CcCrop α) (s0 s : CcState α) (kswSen : α)
    (sen2 : α → α) (dt t : α) : NSFrame s (ccSenescence F crop s0 s kswSen sen2 dt t) := by
  unfold ccSenescence
  by_cases e1 : crop.emergence ≤ t
  · rw [if_pos e1]
    by_cases e2 : t < crop.senescence ∨ 0 < s0.tEarlySen
    · rw [if_pos e2]
      by_cases e3 : kswSen < 1 ∧ s0.protectedSeed = false
      · rw [if_pos e3]
        exact (ccSenStress_ns F crop s0 s sen2 dt t).trans (ccRaiseW_frame s0 _).2.2.2
      · rw [if_neg e3]
        exact (ccSenNoStress_ns F crop s0 s dt t).trans (ccRaiseW_frame s0 _).2.2.2
    · rw [if_neg e2]; exact NSFrame.refl s
  · rw [if_neg e1]; exact NSFrame.refl s

/-! ### the potential (no-stress) canopy block -/

/-- range invariant of the potential-canopy fields -/
structure NsRng (crop : CcCrop α) (s : CcState α) : Prop where
  ns0 : 0 ≤ s.ccNS
  ns1 : s.ccNS ≤ crop.ccx
  actNS : s.ccxActNS ≤ crop.ccx

theorem ccPotential_frame (F : Fn α) (crop : CcCrop α) (s0 s : CcState α) (dt t : α) :
    (ccPotential F crop s0 s dt t).cc = s.cc ∧ (ccPotential F crop s0 s dt t).cc0Adj = s.cc0Adj ∧
      (ccPotential F crop s0 s dt t).ccxAct = s.ccxAct := by
  unfold ccPotential
  dsimp only
  split_ifs <;> exact ⟨rfl, rfl, rfl⟩

theorem ccPotential_rng (F : Fn α) {crop : CcCrop α} (s0 : CcState α) (dt t : α) {B : α}
    {s : CcState α} (h : CcRng crop B s) : CcRng crop B (ccPotential F crop s0 s dt t) := by
  obtain ⟨e1, e2, e3⟩ := ccPotential_frame F crop s0 s dt t
  exact ⟨by rw [e1]; exact h.cc0, by rw [e1]; exact h.ccB, by rw [e2]; exact h.adj0,
    by rw [e2]; exact h.adj1, by rw [e3]; exact h.actB⟩

theorem ccPotential_ns {F : Fn α} (hF : ExpOrdLaws F) {crop : CcCrop α} {dt : α}
    (hp : CcParams F crop dt) (s0 : CcState α) (t : α) {s : CcState α}
    (h0 : 0 ≤ s0.ccNS) (h1 : s0.ccNS ≤ crop.ccx) (h : NsRng crop s) :
    NsRng crop (ccPotential F crop s0 s dt t) := by
  have hccx := hp.ccx_nonneg hF
  unfold ccPotential
  by_cases o1 : ccOutside F crop t
  · rw [if_pos o1]
    exact ⟨le_refl _, hccx, h.actNS⟩
  · rw [if_neg o1]
    by_cases d1 : t < crop.canopyDevEnd
    · rw [if_pos d1]
      dsimp only
      by_cases g1 : s0.ccNS ≤ crop.cc0
      · rw [if_pos g1]
        have a : 0 ≤ crop.cc0 * F.exp (crop.cgc * dt) := mul_nonneg hp.cc0_nonneg (hF.exp_pos _).le
        exact ⟨a, hp.step, hp.step⟩
      · rw [if_neg g1]
        obtain ⟨a, b⟩ := growth_mem F crop.cc0 crop.cgc crop.cdc (t - crop.emergence) crop.ccx
          (ccx := 0.98 * crop.ccx) (B := crop.ccx) (by linarith) (by linarith)
        exact ⟨a, b, b⟩
    · rw [if_neg d1]
      by_cases d2 : crop.canopyDevEnd < t
      · rw [if_pos d2]
        dsimp only
        by_cases m1 : t < crop.senescence
        · rw [if_pos m1]
          exact ⟨h0, h1, h1⟩
        · rw [if_neg m1]
          obtain ⟨a, b⟩ := decline_mem hF crop.cc0 crop.cgc (x := s.ccxActNS) (cdc' := crop.cdc)
            (fun _ => hp.cdc_nonneg) (sub_nonneg.mpr (not_lt.mp m1)) h.actNS hccx
          exact ⟨a, b, h.actNS⟩
      · rw [if_neg d2]
        exact h

/-! ### the final fix-up -/

theorem ccFixup_frame (crop : CcCrop α) (s : CcState α) (t : α) :
    (ccFixup crop s t).cc0Adj = s.cc0Adj ∧ (ccFixup crop s t).ccxAct = s.ccxAct := by
  unfold ccFixup
  split_ifs <;> exact ⟨rfl, rfl⟩

theorem ccFixup_ccxActNS_le (crop : CcCrop α) (s : CcState α) (t : α) {B : α}
    (h1 : s.ccxActNS ≤ B) (h2 : s.cc ≤ B) : (ccFixup crop s t).ccxActNS ≤ B := by
  unfold ccFixup
  split_ifs
  · exact h2
  · exact h1
  · exact h1

/-! ### the in-season body -/

theorem ccSeason_frame (F : Fn α) (crop : CcCrop α) (s0 : CcState α) (dr taw et0 dt t : α) :
    (ccSeason F crop s0 dr taw et0 dt t).cc0Adj = (ccBeforeFixup F crop s0 dr taw et0 dt t).cc0Adj ∧
    (ccSeason F crop s0 dr taw et0 dt t).ccxAct = (ccBeforeFixup F crop s0 dr taw et0 dt t).ccxAct := by
  constructor
  · show (ccFixup crop _ t).cc0Adj = _
    rw [(ccFixup_frame _ _ _).1]; rfl
  · show (ccFixup crop _ t).ccxAct = _
    rw [(ccFixup_frame _ _ _).2]; rfl

/-- premises on the state at entry, actual canopy -/
structure CcPre (crop : CcCrop α) (s : CcState α) : Prop where
  cc0 : 0 ≤ s.cc
  cc1 : s.cc ≤ crop.ccx
  adj0 : 0 ≤ s.cc0Adj
  adj1 : s.cc0Adj ≤ crop.cc0

theorem ccBeforeFixup_rng {F : Fn α} (hF : ExpOrdLaws F) {crop : CcCrop α} {dt : α}
    (hp : CcParams F crop dt) {s0 : CcState α} (dr taw et0 t : α) {B : α}
    (hB : crop.ccx ≤ B) (hx : s0.ccxAct ≤ B) (h : CcPre crop s0) :
    CcRngW crop B (ccBeforeFixup F crop s0 dr taw et0 dt t) ∧
      (¬ (crop.senescence < t ∧ 0 < s0.tEarlySen) →
        (ccBeforeFixup F crop s0 dr taw et0 dt t).ccxAct ≤ B) := by
  unfold ccBeforeFixup
  dsimp only
  have r0 : CcRng crop B { s0 with ccPrev := s0.cc } :=
    ⟨h.cc0, le_trans h.cc1 hB, h.adj0, h.adj1, hx⟩
  have r1 := ccPotential_rng F s0 dt t r0
  have r2 := ccActual_rng hF hp s0
    (waterStress F crop.pUp crop.pLo crop.fshW crop.etAdj crop.beta s0.tEarlySen dr taw et0 true).exp
    t hB h.cc0 h.cc1 r1
  exact ccSenescence_rng hF hp s0 _ _ t hB h.cc0 h.cc1 r2

theorem ccBeforeFixup_ns {F : Fn α} (hF : ExpOrdLaws F) {crop : CcCrop α} {dt : α}
    (hp : CcParams F crop dt) {s0 : CcState α} (dr taw et0 t : α) (h : NsRng crop s0) :
    NsRng crop (ccBeforeFixup F crop s0 dr taw et0 dt t) := by
  unfold ccBeforeFixup
  dsimp only
  have r0 : NsRng crop { s0 with ccPrev := s0.cc } := ⟨h.ns0, h.ns1, h.actNS⟩
  have r1 := ccPotential_ns hF hp s0 t h.ns0 h.ns1 r0
  have f := (ccActual_ns F crop s0 (ccPotential F crop s0 { s0 with ccPrev := s0.cc } dt t)
    (waterStress F crop.pUp crop.pLo crop.fshW crop.etAdj crop.beta s0.tEarlySen dr taw et0 true).exp
    dt t).trans (ccSenescence_ns F crop s0 _
      (waterStress F crop.pUp crop.pLo crop.fshW crop.etAdj crop.beta s0.tEarlySen dr taw et0 true).sen
      (fun tes => (waterStress F crop.pUp crop.pLo crop.fshW crop.etAdj crop.beta tes dr taw et0
        false).sen) dt t)
  exact ⟨by rw [f.1]; exact r1.ns0, by rw [f.1]; exact r1.ns1, by rw [f.2]; exact r1.actNS⟩

/-- general form: without any premise on the previous `ccx_act` the cover is bounded by
`max CCx ccx_act` (the late-season decline starts from `ccx_act`). -/
theorem ccSeason_cc_le_max {F : Fn α} (hF : ExpOrdLaws F) {crop : CcCrop α} {dt : α}
    (hp : CcParams F crop dt) {s0 : CcState α} (dr taw et0 t : α) (h : CcPre crop s0) :
    0 ≤ (ccSeason F crop s0 dr taw et0 dt t).cc ∧
      (ccSeason F crop s0 dr taw et0 dt t).cc ≤ max crop.ccx s0.ccxAct := by
  rw [ccSeason_cc]
  obtain ⟨r, _⟩ := ccBeforeFixup_rng hF hp dr taw et0 t (le_max_left crop.ccx s0.ccxAct)
    (le_max_right _ _) h
  exact ⟨r.cc0, r.ccB⟩

/-- the in-season step keeps `0 ≤ CC ≤ CCx`, `0 ≤ CC0adj ≤ CC0`; it keeps `ccx_act ≤ CCx` except
through the rewatering branch -/
theorem ccSeason_cc_range {F : Fn α} (hF : ExpOrdLaws F) {crop : CcCrop α} {dt : α}
    (hp : CcParams F crop dt) {s0 : CcState α} (dr taw et0 t : α) (h : CcPre crop s0)
    (hx : s0.ccxAct ≤ crop.ccx) :
    CcPre crop (ccSeason F crop s0 dr taw et0 dt t) ∧
      (¬ (crop.senescence < t ∧ 0 < s0.tEarlySen) →
        (ccSeason F crop s0 dr taw et0 dt t).ccxAct ≤ crop.ccx) := by
  obtain ⟨r, rx⟩ := ccBeforeFixup_rng hF hp dr taw et0 t (le_refl crop.ccx) hx h
  obtain ⟨e1, e2⟩ := ccSeason_frame F crop s0 dr taw et0 dt t
  refine ⟨⟨?_, ?_, ?_, ?_⟩, ?_⟩
  · rw [ccSeason_cc]; exact r.cc0
  · rw [ccSeason_cc]; exact r.ccB
  · rw [e1]; exact r.adj0
  · rw [e1]; exact r.adj1
  · intro hn; rw [e2]; exact rx hn

/-- the in-season step keeps `0 ≤ CC_NS ≤ CCx` and `ccx_act_ns ≤ CCx` -/
theorem ccSeason_ccns_range {F : Fn α} (hF : ExpOrdLaws F) {crop : CcCrop α} {dt : α}
    (hp : CcParams F crop dt) {s0 : CcState α} (dr taw et0 t : α) (h : CcPre crop s0)
    (hx : s0.ccxAct ≤ crop.ccx) (hn : NsRng crop s0) :
    NsRng crop (ccSeason F crop s0 dr taw et0 dt t) := by
  obtain ⟨r, _⟩ := ccBeforeFixup_rng hF hp dr taw et0 t (le_refl crop.ccx) hx h
  have n := ccBeforeFixup_ns hF hp dr taw et0 t hn
  refine ⟨?_, ?_, ?_⟩
  · rw [ccSeason_ccNS]; exact le_trans n.ns0 (le_max_left _ _)
  · rw [ccSeason_ccNS]; exact max_le n.ns1 r.ccB
  · show (ccFixup crop _ t).ccxActNS ≤ crop.ccx
    exact ccFixup_ccxActNS_le crop _ t n.actNS r.ccB

/-! ### `canopy_cover` -/

/-- the crop/time-step premises for whichever time pair the crop's calendar type selects -/
def CcParamsFor (F : Fn α) (crop : CcCrop α) (st : CcState α) (gdd : α) : Prop :=
  ∀ dt t, ccTime crop st gdd = some (dt, t) → CcParams F crop dt

/-- sufficient: the premises for `dtCC = 1` (calendar-day crops) and `dtCC = gdd` (GDD crops) -/
theorem ccParamsFor_of {F : Fn α} {crop : CcCrop α} (st : CcState α) {gdd : α}
    (h1 : crop.calendarType = 1 → CcParams F crop 1)
    (h2 : crop.calendarType = 2 → CcParams F crop gdd) : CcParamsFor F crop st gdd := by
  intro dt t ht
  unfold ccTime at ht
  split_ifs at ht with c1 c2
  · injection ht with ht; injection ht with e1 e2; rw [← e1]; exact h1 c1
  · injection ht with ht; injection ht with e1 e2; rw [← e1]; exact h2 c2

/-- **4.** in season `0 ≤ canopy_cover ≤ CCx`, under
* `ExpOrdLaws F` (`exp` positive, `exp 0 = 1`, strictly monotone),
* `CcParams`: `0 ≤ CC0`, `0 ≤ CDC`, `0 ≤ dtCC`, `CC0·exp(CGC·dtCC) ≤ CCx`,
* previous state: `0 ≤ CC ≤ CCx`, `0 ≤ CC0adj ≤ CC0`, `ccx_act ≤ CCx`.
`CC0adj` stays in range as well. -/
theorem cc_range {F : Fn α} (hF : ExpOrdLaws F) {crop : CcCrop α} {cells : List (Cell α)}
    {zTop : α} {st out : CcState α} {gdd et0 : α} (hp : CcParamsFor F crop st gdd)
    (hpre : CcPre crop st) (hx : st.ccxAct ≤ crop.ccx)
    (h : canopyCover F crop cells zTop st gdd et0 true = .ok out) :
    0 ≤ out.cc ∧ out.cc ≤ crop.ccx ∧ 0 ≤ out.cc0Adj ∧ out.cc0Adj ≤ crop.cc0 := by
  obtain ⟨dr, taw, dt, t, ht, rfl⟩ := canopyCover_season h
  obtain ⟨r, _⟩ := ccSeason_cc_range hF (hp dt t ht) dr taw et0 t hpre hx
  exact ⟨r.cc0, r.cc1, r.adj0, r.adj1⟩

/-- without the premise on `ccx_act`: `canopy_cover ≤ max CCx ccx_act` -/
theorem cc_le_max {F : Fn α} (hF : ExpOrdLaws F) {crop : CcCrop α} {cells : List (Cell α)}
    {zTop : α} {st out : CcState α} {gdd et0 : α} (hp : CcParamsFor F crop st gdd)
    (hpre : CcPre crop st)
    (h : canopyCover F crop cells zTop st gdd et0 true = .ok out) :
    0 ≤ out.cc ∧ out.cc ≤ max crop.ccx st.ccxAct := by
  obtain ⟨dr, taw, dt, t, ht, rfl⟩ := canopyCover_season h
  exact ccSeason_cc_le_max hF (hp dt t ht) dr taw et0 t hpre

/-- `ccx_act ≤ CCx` is kept on every path except the late-season rewatering (`Senescence < tCCadj`
with a running early-senescence counter), where `ccx_act := CCXadj` of `update_CCx_CDC` -/
theorem ccxact_le_of_no_rewatering {F : Fn α} (hF : ExpOrdLaws F) {crop : CcCrop α}
    {cells : List (Cell α)} {zTop : α} {st out : CcState α} {gdd et0 : α}
    (hp : CcParamsFor F crop st gdd) (hpre : CcPre crop st) (hx : st.ccxAct ≤ crop.ccx)
    (hno : ∀ dt t, ccTime crop st gdd = some (dt, t) → ¬ (crop.senescence < t ∧ 0 < st.tEarlySen))
    (h : canopyCover F crop cells zTop st gdd et0 true = .ok out) :
    out.ccxAct ≤ crop.ccx := by
  obtain ⟨dr, taw, dt, t, ht, rfl⟩ := canopyCover_season h
  exact (ccSeason_cc_range hF (hp dt t ht) dr taw et0 t hpre hx).2 (hno dt t ht)

/-- **5.** in season `0 ≤ canopy_cover_ns ≤ CCx` (and `ccx_act_ns ≤ CCx` is kept), under the
premises of `cc_range` (the final fix-up copies the actual cover) plus the previous
`0 ≤ CC_NS ≤ CCx`, `ccx_act_ns ≤ CCx`. -/
theorem ccns_range {F : Fn α} (hF : ExpOrdLaws F) {crop : CcCrop α} {cells : List (Cell α)}
    {zTop : α} {st out : CcState α} {gdd et0 : α} (hp : CcParamsFor F crop st gdd)
    (hpre : CcPre crop st) (hx : st.ccxAct ≤ crop.ccx) (hns : NsRng crop st)
    (h : canopyCover F crop cells zTop st gdd et0 true = .ok out) :
    0 ≤ out.ccNS ∧ out.ccNS ≤ crop.ccx ∧ out.ccxActNS ≤ crop.ccx := by
  obtain ⟨dr, taw, dt, t, ht, rfl⟩ := canopyCover_season h
  obtain ⟨a, b, c⟩ := ccSeason_ccns_range hF (hp dt t ht) dr taw et0 t hpre hx hns
  exact ⟨a, b, c⟩

/-- C05 in one statement, in and off season: `0 ≤ CC ≤ CC_NS ≤ CCx`, and all four covers are 0
outside a growing season.  (`0 ≤ CCx` is only needed off season.) -/
theorem cc_c05 {F : Fn α} (hF : ExpOrdLaws F) {crop : CcCrop α} {cells : List (Cell α)}
    {zTop : α} {st out : CcState α} {gdd et0 : α} {gs : Bool} (hccx : 0 ≤ crop.ccx)
    (hp : CcParamsFor F crop st gdd) (hpre : CcPre crop st) (hx : st.ccxAct ≤ crop.ccx)
    (hns : NsRng crop st)
    (h : canopyCover F crop cells zTop st gdd et0 gs = .ok out) :
    0 ≤ out.cc ∧ out.cc ≤ out.ccNS ∧ out.ccNS ≤ crop.ccx ∧ out.ccAdj ≤ 1 ∧ out.ccAdjNS ≤ 1 ∧
      (gs = false → out.cc = 0 ∧ out.ccNS = 0 ∧ out.ccAdj = 0 ∧ out.ccAdjNS = 0) := by
  obtain ⟨a1, a2⟩ := ccadj_le_one h
  cases gs
  · obtain ⟨h1, h2, h3, h4⟩ := cc_offseason rfl h
    exact ⟨by rw [h1], by rw [h1, h2], by rw [h2]; exact hccx, a1, a2, fun _ => ⟨h1, h2, h3, h4⟩⟩
  · obtain ⟨c0, _, _, _⟩ := cc_range hF hp hpre hx h
    obtain ⟨_, n1, _⟩ := ccns_range hF hp hpre hx hns h
    exact ⟨c0, cc_le_ns h, n1, a1, a2, fun hf => by cases hf⟩

end Aqua
