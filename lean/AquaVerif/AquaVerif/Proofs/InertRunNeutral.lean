import AquaVerif.Proofs.InertRun
/-
Work package X, part 5 — **neutral settings at run level**: equalities of runs between *different
switch settings*.

Field management (`run_sim_fm`):
* `run_mulch_neutral`, `run_fallow_mulch_neutral` — mulches on with cover 0 % or factor 0 ≡ mulches
  off;
* `run_low_bund`, `run_fallow_low_bund` — bunds lower than 1 mm ≡ no bunds (strictly lower: see
  the finding in `Proofs/InertRunExample.lean`);
* `run_cnAdj_zero`, `run_fallow_cnAdj_zero` — curve-number adjustment of 0 % ≡ no adjustment.

Irrigation (`run_sim_irr`; the right-hand configuration is `rainfed cfg`, the same record with
`IrrMethod = 0` — by `run_inert` every other rain-fed record gives the same run):
* `run_depth0_rainfed` — constant depth (method 5) with depth 0;
* `run_zero_schedule_rainfed` — schedule (method 3) with every entry 0 ("empty schedule":
  `read_irrigation_management` fills the days without an event with 0);
* `run_maxIrr0_rainfed` — `MaxIrr = 0` under methods 1, 2, 3, 5;
* `run_maxSeason0_rainfed` — `MaxIrrSeason = 0` under methods 1, 2, 3, 5.  The equality covers the
  daily tables **and** the summary (its `IrrTot` is the seasonal counter, which stays where it
  was).
The last two need that the strategy itself does not raise (`NoIrrError`: an interval of 0 days, a
missing or negative schedule entry raise in Python whatever the maxima — the rain-fed run does not)
and the run invariants `growth_stage ≤ 4` (so that `SMT[stage − 1]` exists) and, for the seasonal
maximum, `0 ≤ irr_cum`; both hold initially by premise and are preserved (`irrInv_day`,
`irrInv_reset`).
-/

set_option linter.unusedSectionVars false
set_option linter.unusedVariables false
namespace Aqua
variable {α : Type} [Field α] [LinearOrder α] [IsStrictOrderedRing α]

/-! ## 1. field management -/

section fm
variable {F : Fn α} {T : TrigFn α} {cfg : RunCfg α}

/-- two configurations that differ in the field-management records only -/
theorem runSim_fm {fm' ffm' : FieldMngt α} (h1 : FmSim F cfg.fm fm')
    (h2 : FmSim F cfg.fallowFm ffm') :
    RunSim F T (fun _ => True) cfg { cfg with fm := fm', fallowFm := ffm' } :=
  { clock := rfl, waterTable := rfl, soil := rfl, evapTimeSteps := rfl, simOffSeason := rfl,
    co2Ref := rfl, zGerm := rfl, seasonCrop := fun _ => rfl, fallowCrop := rfl,
    co2Cur := fun _ => rfl, weather := fun _ => rfl, zgw := fun _ _ => rfl, thini := fun _ => rfl,
    pond0 := fun _ => resetPond_of_fmSim (F := F) (cfg' := { cfg with fm := fm', fallowFm := ffm' })
      h1 (fun _ _ => rfl),
    irr := fun st t gs _ => IrrSim.refl F gs _ _ _ _ _ _,
    fm := h1, fallowFm := h2,
    invDay := fun _ _ _ _ _ _ _ => trivial, invReset := fun _ _ _ => trivial }

theorem run_sim_fm {fm' ffm' : FieldMngt α} (h1 : FmSim F cfg.fm fm')
    (h2 : FmSim F cfg.fallowFm ffm') (k : Nat) (s : RunState α) :
    (runModel F T { cfg with fm := fm', fallowFm := ffm' } k s).map RunState.view =
      (runModel F T cfg k s).map RunState.view :=
  run_sim (runSim_fm h1 h2) k trivial

/-- **mulches with 0 % cover or a zero mulch factor ≡ no mulches** (season record) -/
theorem run_mulch_neutral (h0 : cfg.fm.mulchPct = 0 ∨ cfg.fm.fMulch = 0) (k : Nat)
    (s : RunState α) :
    (runModel F T { cfg with fm := { cfg.fm with mulches := false } } k s).map RunState.view =
      (runModel F T cfg k s).map RunState.view :=
  run_sim_fm (fmSim_mulch_neutral F cfg.fm h0) (FmSim.refl F cfg.fallowFm) k s

/-- … (fallow record) -/
theorem run_fallow_mulch_neutral (h0 : cfg.fallowFm.mulchPct = 0 ∨ cfg.fallowFm.fMulch = 0)
    (k : Nat) (s : RunState α) :
    (runModel F T { cfg with fallowFm := { cfg.fallowFm with mulches := false } } k s).map
        RunState.view =
      (runModel F T cfg k s).map RunState.view :=
  run_sim_fm (FmSim.refl F cfg.fm) (fmSim_mulch_neutral F cfg.fallowFm h0) k s

/-- **bunds lower than 1 mm ≡ no bunds** (season record; also the surface storage restored at a
season start is 0 in both) -/
theorem run_low_bund (hz : cfg.fm.zBund < 0.001) (k : Nat) (s : RunState α) :
    (runModel F T { cfg with fm := { cfg.fm with bunds := false } } k s).map RunState.view =
      (runModel F T cfg k s).map RunState.view :=
  run_sim_fm (fmSim_low_bund F cfg.fm hz) (FmSim.refl F cfg.fallowFm) k s

/-- … (fallow record) -/
theorem run_fallow_low_bund (hz : cfg.fallowFm.zBund < 0.001) (k : Nat) (s : RunState α) :
    (runModel F T { cfg with fallowFm := { cfg.fallowFm with bunds := false } } k s).map
        RunState.view =
      (runModel F T cfg k s).map RunState.view :=
  run_sim_fm (FmSim.refl F cfg.fm) (fmSim_low_bund F cfg.fallowFm hz) k s

/-- **a curve-number adjustment of 0 % ≡ no adjustment** (season record) -/
theorem run_cnAdj_zero (h0 : cfg.fm.cnAdjPct = 0) (k : Nat) (s : RunState α) :
    (runModel F T { cfg with fm := { cfg.fm with cnAdj := false } } k s).map RunState.view =
      (runModel F T cfg k s).map RunState.view :=
  run_sim_fm (fmSim_cnAdj_zero F cfg.fm h0) (FmSim.refl F cfg.fallowFm) k s

/-- … (fallow record) -/
theorem run_fallow_cnAdj_zero (h0 : cfg.fallowFm.cnAdjPct = 0) (k : Nat) (s : RunState α) :
    (runModel F T { cfg with fallowFm := { cfg.fallowFm with cnAdj := false } } k s).map
        RunState.view =
      (runModel F T cfg k s).map RunState.view :=
  run_sim_fm (FmSim.refl F cfg.fm) (fmSim_cnAdj_zero F cfg.fallowFm h0) k s

end fm

/-! ## 2. irrigation: the invariants -/

/-- what the neutral irrigation settings need of the state object -/
structure IrrInv (st : DayState' α) : Prop where
  irrCum : 0 ≤ st.irrCum
  stage : st.growthStage ≤ 4

theorem irrInv_day {F : Fn α} {T : TrigFn α} {P : DayParams α} {st : DayState' α} {D : DayIn' α}
    {r : DayResult α} (hI : IrrInv st) (h : fullDay F T P st D = .ok r) : IrrInv r.state := by
  obtain ⟨hs, hr⟩ := fullDay_ok h
  have e1 : r.state.irrCum = r.trace.i.irrCum := by rw [hr]; rfl
  have e2 : r.state.growthStage = r.trace.gst := by rw [hr]; rfl
  refine ⟨?_, ?_⟩
  · rw [e1]
    have hi := hs.water.hi
    cases hg : D.gs with
    | false =>
      have hg' : D.water.gs = false := hg
      rw [hg'] at hi
      exact le_of_eq (irr_offseason hi).2.1.symm
    | true =>
      have hg' : D.water.gs = true := hg
      rw [hg'] at hi
      exact le_trans hI.irrCum (irr_cum_mono hi)
  · rw [e2]
    have hg := hs.hgst
    cases hgs : D.gs with
    | false =>
      rw [hgs, growthStage_offseason] at hg
      simp only [Option.some.injEq] at hg
      omega
    | true =>
      rw [hgs] at hg
      exact (growthStage_inseason _ _ _ _ _ _ _ _ _ _ hg).2.1

theorem irrInv_reset (cfg : RunCfg α) (crop : CropParams α) (st : DayState' α) :
    IrrInv (resetState cfg crop st) :=
  ⟨le_refl _, Nat.zero_le _⟩

/-! ## 3. irrigation: when the demand is capped to nothing -/

/-- the `if/elif` chain over the method does not raise, for the growth stage `stg` and the schedule
entry `s`: a known method, a positive interval (method 2), a non-negative schedule entry
(method 3), a growth stage with a threshold (method 1) -/
structure NoIrrError (I : IrrParams α) (s : Option α) (stg : Nat) : Prop where
  method : I.method ≤ 5
  stage : I.method = 1 → stg ≤ 4
  interval : I.method = 2 → I.interval ≠ 0
  sched : I.method = 3 → ∃ v, s = some v ∧ 0 ≤ v

theorem irrDemand_ok {I : IrrParams α} {s : Option α} {stg : Nat} (h : NoIrrError I s stg)
    (dap : Nat) (dep taw : α) :
    ∃ x n, irrDemand I (if dap = 1 then 1 else stg) dep taw dap s = .ok (x, n) := by
  by_cases h0 : I.method = 0
  · exact ⟨0, 0, irrDemand_rainfed I _ dep taw dap s h0⟩
  by_cases h1 : I.method = 1
  · have hs : (if dap = 1 then 1 else stg) ≤ 4 := by
      have := h.stage h1
      split_ifs <;> omega
    obtain ⟨i, hi⟩ : ∃ i, smtIndex (if dap = 1 then 1 else stg) = some i := by
      generalize (if dap = 1 then 1 else stg) = q at hs
      match q, hs with
      | 0, _ => exact ⟨_, rfl⟩
      | 1, _ => exact ⟨_, rfl⟩
      | 2, _ => exact ⟨_, rfl⟩
      | 3, _ => exact ⟨_, rfl⟩
      | 4, _ => exact ⟨_, rfl⟩
    rw [irrDemand_smt I _ dep taw dap s h1, hi]
    simp only []
    split_ifs <;> exact ⟨_, _, rfl⟩
  by_cases h2 : I.method = 2
  · rw [irrDemand_interval I _ dep taw dap s h2, if_neg (h.interval h2)]
    split_ifs <;> exact ⟨_, _, rfl⟩
  by_cases h3 : I.method = 3
  · obtain ⟨v, hv, hv0⟩ := h.sched h3
    rw [irrDemand_schedule I _ dep taw dap s h3, hv]
    simp only [hv0, if_true]
    exact ⟨_, _, rfl⟩
  by_cases h4 : I.method = 4
  · exact ⟨0, 0, irrDemand_net I _ dep taw dap s h4⟩
  by_cases h5 : I.method = 5
  · exact ⟨_, _, irrDemand_constant I _ dep taw dap s h5⟩
  have := h.method
  omega

theorem pmax0_eq_zero_of_nonpos (x : α) (hx : x ≤ 0) : pmax 0 x = 0 := by
  rw [pmax_eq]; exact max_eq_left hx

theorem irrCap_zero_season (c y : α) (hc : 0 ≤ c) (hy : 0 ≤ y) : irrCap 0 c y = 0 := by
  rw [irrCap_eq]
  split_ifs with h
  · exact max_eq_left (by linarith)
  · linarith [not_lt.mp h]

/-- `MaxIrr = 0`: whatever the strategy asks for is cut to 0 -/
theorem zeroDemand_maxIrr0 {I : IrrParams α} {s : Option α} {stg : Nat} (irrCum : α)
    (h : NoIrrError I s stg) (hx : I.maxIrr = 0) : ZeroDemand I s stg irrCum := by
  intro dap dep taw
  obtain ⟨x, n, hd⟩ := irrDemand_ok h dap dep taw
  refine ⟨x, n, hd, ?_⟩
  have hle := irrDemand_le_max I _ _ _ _ _ x n (by rw [hx]) hd
  rw [hx] at hle
  rw [pmax0_eq_zero_of_nonpos x hle, irrCap_zero]

/-- `MaxIrrSeason = 0` with a non-negative counter: the seasonal cap leaves nothing -/
theorem zeroDemand_maxSeason0 {I : IrrParams α} {s : Option α} {stg : Nat} {irrCum : α}
    (h : NoIrrError I s stg) (hs : I.maxSeason = 0) (hc : 0 ≤ irrCum) :
    ZeroDemand I s stg irrCum := by
  intro dap dep taw
  obtain ⟨x, n, hd⟩ := irrDemand_ok h dap dep taw
  refine ⟨x, n, hd, ?_⟩
  rw [hs]
  exact irrCap_zero_season _ _ hc (by rw [pmax_eq]; exact le_max_left _ _)

/-- constant depth 0 -/
theorem zeroDemand_depth0 {I : IrrParams α} (s : Option α) (stg : Nat) (irrCum : α)
    (hm : I.method = 5) (hd : I.depth = 0) : ZeroDemand I s stg irrCum := by
  intro dap dep taw
  refine ⟨_, _, irrDemand_constant I _ dep taw dap s hm, ?_⟩
  rw [hd, pmax0_pmin_nonpos _ _ (le_refl _), irrCap_zero]

/-- a schedule entry of 0 -/
theorem zeroDemand_sched0 {I : IrrParams α} (stg : Nat) (irrCum : α) (hm : I.method = 3) :
    ZeroDemand I (some 0) stg irrCum := by
  intro dap dep taw
  refine ⟨pmin I.maxIrr 0, 1, ?_, ?_⟩
  · rw [irrDemand_schedule I _ dep taw dap _ hm]
    simp
  · rw [pmax0_pmin_nonpos _ _ (le_refl _), irrCap_zero]

/-! ## 4. irrigation: the runs -/

/-- the same irrigation record under rain-fed management (`IrrMethod = 0`) -/
def IrrSet.rainfed (I : IrrSet α) : IrrSet α := { I with irr := { I.irr with method := 0 } }

/-- the configuration with its (season) irrigation record switched to rain-fed -/
def RunCfg.rainfed (cfg : RunCfg α) : RunCfg α := { cfg with irr := cfg.irr.rainfed }

section irr
variable {F : Fn α} {T : TrigFn α} {cfg : RunCfg α}

/-- two configurations that differ in the season's irrigation record only -/
theorem runSim_irr {Inv : DayState' α → Prop} {I' : IrrSet α}
    (h : ∀ st t gs, Inv st →
      IrrSim F gs st.growthStage st.irrCum cfg.irr.irr cfg.irr.netIrrSMT cfg.irr.wetSurf
        (cfg.irr.sched t) I'.irr I'.netIrrSMT I'.wetSurf (I'.sched t))
    (hday : ∀ season gs st D r, Inv st → fullDay F T (paramsOf cfg season gs) st D = .ok r →
      Inv r.state)
    (hreset : ∀ crop st, Inv st → Inv (resetState cfg crop st)) :
    RunSim F T Inv cfg { cfg with irr := I' } :=
  { clock := rfl, waterTable := rfl, soil := rfl, evapTimeSteps := rfl, simOffSeason := rfl,
    co2Ref := rfl, zGerm := rfl, seasonCrop := fun _ => rfl, fallowCrop := rfl,
    co2Cur := fun _ => rfl, weather := fun _ => rfl, zgw := fun _ _ => rfl, thini := fun _ => rfl,
    pond0 := fun _ => rfl, irr := h, fm := FmSim.refl F _, fallowFm := FmSim.refl F _,
    invDay := hday, invReset := hreset }

/-- **a strategy whose demand is always capped to nothing ≡ rain-fed**, on every state satisfying
`Inv` -/
theorem runSim_rainfed_of_zero {Inv : DayState' α → Prop} (h4 : cfg.irr.irr.method ≠ 4)
    (hz : ∀ st t, Inv st → ZeroDemand cfg.irr.irr (cfg.irr.sched t) st.growthStage st.irrCum)
    (hday : ∀ season gs st D r, Inv st → fullDay F T (paramsOf cfg season gs) st D = .ok r →
      Inv r.state)
    (hreset : ∀ crop st, Inv st → Inv (resetState cfg crop st)) :
    RunSim F T Inv cfg cfg.rainfed :=
  runSim_irr (I' := cfg.irr.rainfed)
    (fun st t gs hI => irrSim_of_zero F gs _ _
      (fun _ => ⟨fun h => by simp [IrrSet.rainfed] at h, fun h => absurd h h4⟩)
      (fun _ h => absurd h h4) (fun _ => hz st t hI)
      (fun _ => zeroDemand_rainfed_net _ _ _ _ (Or.inl rfl)))
    hday hreset

/-- **irrigation method 5 with depth 0 ≡ rain-fed** -/
theorem run_depth0_rainfed (hm : cfg.irr.irr.method = 5) (hd : cfg.irr.irr.depth = 0) (k : Nat)
    (s : RunState α) :
    (runModel F T cfg.rainfed k s).map RunState.view = (runModel F T cfg k s).map RunState.view :=
  run_sim (Inv := fun _ => True)
    (runSim_rainfed_of_zero (by rw [hm]; decide)
      (fun st t _ => zeroDemand_depth0 _ _ _ hm hd) (fun _ _ _ _ _ _ _ => trivial)
      (fun _ _ _ => trivial)) k trivial

/-- **irrigation method 3 with an all-zero ("empty") schedule ≡ rain-fed** -/
theorem run_zero_schedule_rainfed (hm : cfg.irr.irr.method = 3)
    (hs : ∀ t, cfg.irr.sched t = some 0) (k : Nat) (s : RunState α) :
    (runModel F T cfg.rainfed k s).map RunState.view = (runModel F T cfg k s).map RunState.view :=
  run_sim (Inv := fun _ => True)
    (runSim_rainfed_of_zero (by rw [hm]; decide)
      (fun st t _ => by rw [hs t]; exact zeroDemand_sched0 _ _ hm) (fun _ _ _ _ _ _ _ => trivial)
      (fun _ _ _ => trivial)) k trivial

/-- the strategy of the configuration never raises (on states with `growth_stage ≤ 4`) -/
structure CfgNoIrrError (cfg : RunCfg α) : Prop where
  method : cfg.irr.irr.method ≤ 5
  notNet : cfg.irr.irr.method ≠ 4
  interval : cfg.irr.irr.method = 2 → cfg.irr.irr.interval ≠ 0
  sched : cfg.irr.irr.method = 3 → ∀ t, ∃ v, cfg.irr.sched t = some v ∧ 0 ≤ v

theorem CfgNoIrrError.day (h : CfgNoIrrError cfg) (t : Nat) {stg : Nat} (hs : stg ≤ 4) :
    NoIrrError cfg.irr.irr (cfg.irr.sched t) stg :=
  ⟨h.method, fun _ => hs, h.interval, fun h3 => h.sched h3 t⟩

/-- **`MaxIrr = 0` ≡ rain-fed**, for a strategy that does not raise and a state object with
`growth_stage ≤ 4`, `0 ≤ irr_cum` -/
theorem run_maxIrr0_rainfed (he : CfgNoIrrError cfg) (hx : cfg.irr.irr.maxIrr = 0) (k : Nat)
    {s : RunState α} (hI : IrrInv s.day) :
    (runModel F T cfg.rainfed k s).map RunState.view = (runModel F T cfg k s).map RunState.view :=
  run_sim (Inv := IrrInv)
    (runSim_rainfed_of_zero he.notNet
      (fun st t hst => zeroDemand_maxIrr0 _ (he.day t hst.stage) hx)
      (fun _ _ _ _ _ hst h => irrInv_day hst h) (fun crop st _ => irrInv_reset cfg crop st)) k hI

/-- **`MaxIrrSeason = 0` ≡ rain-fed** — daily tables, state and summary (with its seasonal
irrigation total) -/
theorem run_maxSeason0_rainfed (he : CfgNoIrrError cfg) (hx : cfg.irr.irr.maxSeason = 0) (k : Nat)
    {s : RunState α} (hI : IrrInv s.day) :
    (runModel F T cfg.rainfed k s).map RunState.view = (runModel F T cfg k s).map RunState.view :=
  run_sim (Inv := IrrInv)
    (runSim_rainfed_of_zero he.notNet
      (fun st t hst => zeroDemand_maxSeason0 (he.day t hst.stage) hx hst.irrCum)
      (fun _ _ _ _ _ hst h => irrInv_day hst h) (fun crop st _ => irrInv_reset cfg crop st)) k hI

/-- the summary rows (hence `IrrTot`) of the two runs of `run_maxSeason0_rainfed` coincide -/
theorem run_maxSeason0_summary (he : CfgNoIrrError cfg) (hx : cfg.irr.irr.maxSeason = 0) {k : Nat}
    {s r : RunState α} (hI : IrrInv s.day) (hr : runModel F T cfg k s = .ok r) :
    ∃ r', runModel F T cfg.rainfed k s = .ok r' ∧ r'.summaryTable = r.summaryTable ∧
      r'.fluxTable = r.fluxTable ∧ r'.growthTable = r.growthTable ∧
      r'.storageTable = r.storageTable ∧ r'.day = r.day := by
  have := run_maxSeason0_rainfed (F := F) (T := T) he hx k hI
  rw [hr] at this
  cases hr' : runModel F T cfg.rainfed k s with
  | error e => rw [hr'] at this; simp [Except.map] at this
  | ok r' =>
    rw [hr'] at this
    obtain ⟨a, b, c, d, e, _⟩ := view_tables (s := r) (s' := r') (by simpa [Except.map] using this)
    exact ⟨r', rfl, d, b, c, a, e⟩

end irr
end Aqua
