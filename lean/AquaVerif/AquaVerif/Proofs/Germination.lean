import AquaVerif.Model.Germination
import AquaVerif.Proofs.Basic
/-
Lemmas about `Model/Germination.lean`.  No law about `F.round3` is needed.
-/

set_option linter.unusedSectionVars false
set_option linter.unusedVariables false
namespace Aqua
variable {α : Type} [Field α] [LinearOrder α] [IsStrictOrderedRing α]

/-- outside the growing season the germination state is reset, whatever it was, and the function
never raises. -/
theorem germination_offseason (F : Fn α) (s : GermState α) (zGerm : α) (cells : List (Cell α))
    (germThr : α) (sown : Bool) (gdd : α) :
    ∃ out, germination F s zGerm cells germThr sown gdd false = .ok out ∧
      out.s.germination = false ∧ out.s.protectedSeed = false ∧ out.s.delayedCds = 0 ∧
      out.s.delayedGdds = 0 := by
  unfold germination
  simp

/-- a germinated crop stays germinated and nothing else changes (in season); never raises. -/
theorem germination_already (F : Fn α) {s : GermState α} (zGerm : α) (cells : List (Cell α))
    (germThr : α) (sown : Bool) (gdd : α) (hg : s.germination = true) :
    ∃ out, germination F s zGerm cells germThr sown gdd true = .ok out ∧ out.s = s := by
  unfold germination
  simp [hg]

/-- the germination loop raises exactly when the germination depth is below the profile -/
theorem germLoop_isSome_iff (F : Fn α) (zGerm : α) : ∀ (cells : List (Cell α)) (a : GermAcc α),
    (germLoop F zGerm cells a).isSome ↔ ∃ x ∈ cells, zGerm ≤ x.c.dzsum := by
  intro cells
  induction cells with
  | nil => intro a; simp [germLoop]
  | cons x xs ih =>
    intro a
    simp only [germLoop]
    split_ifs with hc
    · simp only [Option.isSome_some, true_iff]; exact ⟨x, by simp, hc⟩
    · rw [ih]
      constructor
      · rintro ⟨y, hy, h⟩; exact ⟨y, List.mem_cons_of_mem _ hy, h⟩
      · rintro ⟨y, hy, h⟩
        rcases List.mem_cons.mp hy with rfl | hy'
        · exact absurd h hc
        · exact ⟨y, hy', h⟩

/-- one in-season day of a crop that has not germinated: either it germinates (the delay counters
stand still, seed protection follows the planting method) or both delay counters advance. -/
theorem germination_step {F : Fn α} {s : GermState α} {zGerm : α} {cells : List (Cell α)}
    {germThr : α} {sown : Bool} {gdd : α} {out : GermOut α} (hg : s.germination = false)
    (h : germination F s zGerm cells germThr sown gdd true = .ok out) :
    (out.s.germination = true ∧ out.s.protectedSeed = sown ∧ out.s.delayedCds = s.delayedCds ∧
        out.s.delayedGdds = s.delayedGdds ∧ germThr ≤ out.wcProp) ∨
    (out.s.germination = false ∧ out.s.protectedSeed = false ∧
        out.s.delayedCds = s.delayedCds + 1 ∧ out.s.delayedGdds = s.delayedGdds + gdd ∧
        out.wcProp < germThr) := by
  unfold germination at h
  simp only [hg, if_true, Bool.false_eq_true, if_false] at h
  cases hl : germLoop F zGerm cells { wr := 0, fc := 0, wp := 0 } with
  | none => rw [hl] at h; simp at h
  | some a =>
    rw [hl] at h
    simp only at h
    split_ifs at h with hc
    · left
      simp only [Except.ok.injEq] at h
      rw [← h]; exact ⟨rfl, rfl, rfl, rfl, hc⟩
    · right
      simp only [Except.ok.injEq] at h
      rw [← h]; exact ⟨rfl, rfl, rfl, rfl, not_le.mp hc⟩

/-- in season the delay counters never decrease (for `gdd ≥ 0`), the germination flag never
falls back, and a protected seed has germinated. -/
theorem germination_season_facts {F : Fn α} {s : GermState α} {zGerm : α} {cells : List (Cell α)}
    {germThr : α} {sown : Bool} {gdd : α} {out : GermOut α} (hgdd : 0 ≤ gdd)
    (h : germination F s zGerm cells germThr sown gdd true = .ok out) :
    s.delayedCds ≤ out.s.delayedCds ∧ s.delayedGdds ≤ out.s.delayedGdds ∧
    (s.germination = true → out.s.germination = true) ∧
    ((s.protectedSeed = true → s.germination = true) →
      (out.s.protectedSeed = true → out.s.germination = true)) := by
  rcases Bool.eq_false_or_eq_true s.germination with hg | hg
  · obtain ⟨o, ho, hs⟩ := germination_already F zGerm cells germThr sown gdd hg
    rw [ho] at h
    have := Except.ok.inj h
    rw [← this, hs]
    exact ⟨le_refl _, le_refl _, fun _ => hg, fun hp => hp⟩
  · rcases germination_step hg h with ⟨a, b, c, d, _⟩ | ⟨a, b, c, d, _⟩
    · rw [c, d, a]; exact ⟨le_refl _, le_refl _, fun _ => rfl, fun _ _ => rfl⟩
    · rw [c, d, b]
      refine ⟨by linarith, by linarith, fun hh => by rw [hg] at hh; simp at hh,
        fun _ hh => by simp at hh⟩

/-- the delay counters stay non-negative -/
theorem germination_delays_nonneg {F : Fn α} {s : GermState α} {zGerm : α} {cells : List (Cell α)}
    {germThr : α} {sown : Bool} {gdd : α} {gs : Bool} {out : GermOut α} (hgdd : 0 ≤ gdd)
    (h1 : 0 ≤ s.delayedCds) (h2 : 0 ≤ s.delayedGdds)
    (h : germination F s zGerm cells germThr sown gdd gs = .ok out) :
    0 ≤ out.s.delayedCds ∧ 0 ≤ out.s.delayedGdds := by
  cases gs with
  | false =>
    obtain ⟨o, ho, _, _, c, d⟩ := germination_offseason F s zGerm cells germThr sown gdd
    rw [ho] at h
    have := Except.ok.inj h
    rw [← this, c, d]; exact ⟨le_refl _, le_refl _⟩
  | true =>
    obtain ⟨a, b, _, _⟩ := germination_season_facts hgdd h
    exact ⟨le_trans h1 a, le_trans h2 b⟩

/-- the proportional water content lies in `[0,1]` when the stored water lies between the
wilting-point and the field-capacity storage of the germination layer -/
theorem germWcProp_range {a : GermAcc α} (h0 : a.wp ≤ a.wr) (h1 : a.wr ≤ a.fc) (h2 : a.wp < a.fc)
    (hw : 0 ≤ a.wr) : 0 ≤ germWcProp a ∧ germWcProp a ≤ 1 := by
  unfold germWcProp
  simp only
  rw [if_neg (not_lt.mpr hw)]
  have hden : 0 < a.fc - a.wp := by linarith
  have r0 : 0 ≤ (a.fc - a.wr) / (a.fc - a.wp) := div_nonneg (by linarith) hden.le
  have r1 : (a.fc - a.wr) / (a.fc - a.wp) ≤ 1 := by rw [div_le_one hden]; linarith
  constructor <;> linarith

#print axioms germination_offseason
#print axioms germination_step
#print axioms germination_season_facts

end Aqua
