import AquaVerif.Proofs.Inert
import AquaVerif.Proofs.Day
/-
Work package X, part 1 — the **process-level lemmas** that `Proofs/Inert.lean` lacks, in the form
the call sites of `DaySim` need:

* `pre_irrigation`, `transpiration`: `NetIrrSMT` is read only under net irrigation, the method only
  through the test `IrrMethod == 4`;
* `irrigation`: off season nothing is read; under rain-fed / net irrigation not even
  `MaxIrrSeason`; a strategy whose demand is capped to 0 returns what the rain-fed call returns;
* `infiltration`: `AppEff` is not read off season or when nothing was applied; bund height without
  bunds;
* `soil_evaporation`: the five parameters that enter only the refresh test and the mulch / wetting
  adjustment (`Mulches`, `fMulch`, `MulchPct`, `WetSurf`, `IrrMethod`) — one master lemma
  (`soilEvaporation_withAdj`) and the value lemma for the adjustment (`esPotAdjust_value`);
* `rainfall_partition`: the curve-number percentage also when runoff is inhibited or bunds stand.
-/

set_option linter.unusedSectionVars false
set_option linter.unusedVariables false
namespace Aqua
variable {α : Type} [Field α] [LinearOrder α] [IsStrictOrderedRing α]

def IrrOut.noBranch (o : IrrOut α) : IrrOut α := { o with branch := 0 }

/-! ## `pre_irrigation`, `transpiration` -/

theorem preIrrigationT_method_congr (F : Fn α) (np : Bool) (cells : List (Cell α)) (gs : Bool)
    (m m' : Nat) (dap : Int) (zRoot zMin smt smt' : α)
    (h4 : gs = true → (m' = 4 ↔ m = 4)) (hs : gs = true → m = 4 → smt' = smt) :
    preIrrigationT F np cells gs m' dap zRoot zMin smt' =
      preIrrigationT F np cells gs m dap zRoot zMin smt := by
  unfold preIrrigationT preIrrigationR
  cases gs with
  | false => rfl
  | true =>
    by_cases hm : m = 4
    · have hm' := (h4 rfl).mpr hm
      rw [hs rfl hm, hm, hm']
    · have hm' : m' ≠ 4 := mt (h4 rfl).mp hm
      simp [hm, hm']

theorem transpiration_method_congr (F : Fn α) (cells : List (Cell α)) (nComp : Nat) (zTop : α)
    (crop : TrCrop α) (m m' : Nat) (smt smt' : α) (st : TrState α) (et0 cur ref : α) (gs : Bool)
    (gdd : α) (h4 : gs = true → (m' = 4 ↔ m = 4)) (hs : gs = true → m = 4 → smt' = smt) :
    transpiration F cells nComp zTop crop m' smt' st et0 cur ref gs gdd =
      transpiration F cells nComp zTop crop m smt st et0 cur ref gs gdd := by
  cases gs with
  | false => rfl
  | true =>
    by_cases hm : m = 4
    · have hm' := (h4 rfl).mpr hm
      rw [hs rfl hm, hm, hm']
    · have hm' : m' ≠ 4 := mt (h4 rfl).mp hm
      unfold transpiration
      simp only [if_true]
      cases trPotential F crop st et0 cur ref gdd with
      | error e => rfl
      | ok pot =>
        simp only []
        cases trSurface crop.lagAer nComp cells st.pond st.daySubmerged pot.trPot0 with
        | error e => rfl
        | ok sf =>
          simp only []
          cases rootZoneWater F sf.cells st.zRoot zTop crop.zMin crop.aer with
          | none => rfl
          | some rz =>
            simp only []
            unfold trCore trNetIrr trPotRzOf trLoopPOf
            simp [hm, hm']

/-! ## `irrigation` -/

section irr
variable (F : Fn α) (cells : List (Cell α)) (st : Nat) (irrCum ePot tPot zRoot : α) (dap : Nat)
  (zMin aer zTop : α) (rain runoff : α)

/-- off season nothing of the irrigation record is read (up to the ghost branch id, which records
the sign of `MaxIrrSeason`) -/
theorem irrigation_offseason_noBranch (P P' : IrrParams α) (sched sched' : Option α) :
    (irrigation F P' cells st irrCum ePot tPot zRoot dap sched' zMin aer zTop false rain runoff).map
        IrrOut.noBranch =
      (irrigation F P cells st irrCum ePot tPot zRoot dap sched zMin aer zTop false rain runoff).map
        IrrOut.noBranch := by
  unfold irrigation
  simp [Except.map, IrrOut.noBranch, irrFinish, irrCap_zero]

/-- the in-season call when the strategy's demand is capped to nothing -/
theorem irrigation_of_zero {P : IrrParams α} {sched : Option α}
    (hd : ∀ dep taw, ∃ x n, irrDemand P (if dap = 1 then 1 else st) dep taw dap sched = .ok (x, n) ∧
      irrCap P.maxSeason irrCum (pmax 0 x) = 0) :
    (irrigation F P cells st irrCum ePot tPot zRoot dap sched zMin aer zTop true rain runoff).map
        IrrOut.noBranch =
      match rootZoneWater F cells zRoot zTop zMin aer with
      | none => .error .rootZone
      | some rz => .ok { depletion := irrDepletion rz ePot tPot zRoot zMin rain runoff,
                         taw := rz.tawRz, irrCum := irrCum, irr := 0, branch := 0 } := by
  unfold irrigation
  simp only [if_true]
  cases rootZoneWater F cells zRoot zTop zMin aer with
  | none => rfl
  | some rz =>
    simp only []
    obtain ⟨x, n, h1, h2⟩ := hd (irrDepletion rz ePot tPot zRoot zMin rain runoff) rz.tawRz
    rw [h1]
    simp [Except.map, IrrOut.noBranch, irrFinish, h2]

/-- a successful call whose demand is capped to nothing applies nothing -/
theorem irr_zero_of_zero {P : IrrParams α} {sched : Option α} {gs : Bool} {out : IrrOut α}
    (h : irrigation F P cells st irrCum ePot tPot zRoot dap sched zMin aer zTop gs rain runoff
      = .ok out)
    (hd : gs = true → ∀ dep taw, ∃ x n,
      irrDemand P (if dap = 1 then 1 else st) dep taw dap sched = .ok (x, n) ∧
      irrCap P.maxSeason irrCum (pmax 0 x) = 0) : out.irr = 0 := by
  cases gs with
  | false => exact (irr_offseason h).1
  | true =>
    obtain ⟨rz, irr0, fired, -, -, -, hdm, hi, -⟩ := irrigation_spec h
    obtain ⟨x, n, h1, h2⟩ := hd rfl out.depletion out.taw
    rw [h1] at hdm
    simp only [Except.ok.injEq, Prod.mk.injEq] at hdm
    rw [hi, ← hdm.1, h2]

/-- **two calls whose demands are both capped to nothing agree** (in and off season), whatever
their methods and other parameters -/
theorem irrigation_noBranch_of_zero {P P' : IrrParams α} {sched sched' : Option α} (gs : Bool)
    (hd : gs = true → ∀ dep taw, ∃ x n,
      irrDemand P (if dap = 1 then 1 else st) dep taw dap sched = .ok (x, n) ∧
      irrCap P.maxSeason irrCum (pmax 0 x) = 0)
    (hd' : gs = true → ∀ dep taw, ∃ x n,
      irrDemand P' (if dap = 1 then 1 else st) dep taw dap sched' = .ok (x, n) ∧
      irrCap P'.maxSeason irrCum (pmax 0 x) = 0) :
    (irrigation F P' cells st irrCum ePot tPot zRoot dap sched' zMin aer zTop gs rain runoff).map
        IrrOut.noBranch =
      (irrigation F P cells st irrCum ePot tPot zRoot dap sched zMin aer zTop gs rain runoff).map
        IrrOut.noBranch := by
  cases gs with
  | false =>
    exact irrigation_offseason_noBranch F cells st irrCum ePot tPot zRoot dap zMin aer zTop
      rain runoff P P' sched sched'
  | true =>
    rw [irrigation_of_zero F cells st irrCum ePot tPot zRoot dap zMin aer zTop rain runoff (hd rfl),
      irrigation_of_zero F cells st irrCum ePot tPot zRoot dap zMin aer zTop rain runoff (hd' rfl)]

theorem pmax0_zero' : pmax (0 : α) 0 = 0 := by rw [pmax_eq]; exact max_self _

/-- rain-fed and net irrigation: the demand is 0 whatever the other parameters, `MaxIrrSeason`
included -/
theorem irrDemand_zero_rainfed_net (P : IrrParams α) (stage : Nat) (sched : Option α)
    (h04 : P.method = 0 ∨ P.method = 4) (dep taw : α) :
    ∃ x n, irrDemand P stage dep taw dap sched = .ok (x, n) ∧
      irrCap P.maxSeason irrCum (pmax 0 x) = 0 := by
  refine ⟨0, 0, ?_, by rw [pmax0_zero', irrCap_zero]⟩
  rcases h04 with h | h
  · exact irrDemand_rainfed P stage dep taw dap sched h
  · exact irrDemand_net P stage dep taw dap sched h

end irr

/-! ## `infiltration` -/

/-- the application efficiency is read only in the growing season and only when something was
applied -/
theorem infiltration_appEff_inert' (F : Fn α) (cells : List (Cell α))
    (pond infl irr appEff appEff' zBund dp0 ro0 : α) (bunds gs : Bool)
    (h : gs = false ∨ irr = 0 ∨ appEff' = appEff) :
    infiltration F cells pond infl irr appEff' bunds zBund dp0 ro0 gs =
      infiltration F cells pond infl irr appEff bunds zBund dp0 ro0 gs := by
  rcases h with h | h | h
  · subst h
    have e : infIntake infl irr appEff' false = infIntake infl irr appEff false := rfl
    unfold infiltration
    simp only [e]
  · subst h
    exact infiltration_appEff_inert F cells pond infl appEff' appEff zBund dp0 ro0 bunds gs
  · rw [h]

/-! ## `rainfall_partition` -/

/-- the curve-number percentage is read only when runoff is neither inhibited nor held back by
bunds -/
theorem rainPartition_cn_inert (F : Fn α) (p : α) (cells : List (Cell α)) (daySub : Nat)
    (srInhb bunds : Bool) (zBund pct pct' soilCN : α) (adjCN : Bool) (zCN : α)
    (h : (srInhb = false → (bunds = false ∨ zBund < 0.001) → pct' = pct)) :
    rainPartition F p cells daySub srInhb bunds zBund pct' soilCN adjCN zCN =
      rainPartition F p cells daySub srInhb bunds zBund pct soilCN adjCN zCN := by
  by_cases hc : srInhb = false ∧ (bunds = false ∨ zBund < 0.001)
  · rw [h hc.1 hc.2]
  · unfold rainPartition
    rw [if_neg hc, if_neg hc]

/-! ## `soil_evaporation`: the five parameters of the refresh test and the adjustment -/

/-- the five parameters that enter only `evapRefresh` and `esPotAdjust` replaced -/
@[reducible] def EvapParams.withAdj (P : EvapParams α) (m : Bool) (f p w : α) (im : Nat) :
    EvapParams α :=
  { P with mulches := m, fMulch := f, mulchPct := p, wetSurf := w, irrMethod := im }

section evap
variable (F : Fn α) (P : EvapParams α) (m : Bool) (f p w : α) (im : Nat)

theorem expandLoop_withAdj (ws : α) (cells : List (Cell α)) :
    ∀ (fuel : Nat) (z wr wc : α),
      expandLoop (P.withAdj m f p w im) ws cells fuel z wr wc =
        expandLoop P ws cells fuel z wr wc := by
  intro fuel
  induction fuel with
  | zero => intro z wr wc; rfl
  | succ n ih =>
    intro z wr wc
    show (if wr < wc ∧ z < P.zMax then
        (match evapLayerWater cells (z + 0.001) with
          | Except.error e => Except.error e
          | Except.ok x => expandLoop (P.withAdj m f p w im) ws cells n (z + 0.001)
              (wRelOf P ws x) (wCheckOf P (z + 0.001)))
        else Except.ok (z, wr)) = _
    simp only [ih]
    rfl

theorem stage2Step_withAdj (ws edt : α) (st : SubSt α) :
    stage2Step F (P.withAdj m f p w im) ws edt st = stage2Step F P ws edt st := by
  unfold stage2Step
  simp only [expandLoop_withAdj]
  rfl

theorem stage2Loop_withAdj (ws edt : α) :
    ∀ (n : Nat) (st : SubSt α),
      stage2Loop F (P.withAdj m f p w im) ws edt n st = stage2Loop F P ws edt n st := by
  intro n
  induction n with
  | zero => intro st; rfl
  | succ n ih =>
    intro st
    simp only [stage2Loop, stage2Step_withAdj, ih]

theorem evapStage2_withAdj (g : Stg α) :
    evapStage2 F (P.withAdj m f p w im) g = evapStage2 F P g := by
  unfold evapStage2
  simp only [stage2Loop_withAdj]

theorem evapTail_withAdj (S : EvapState α) (cells : List (Cell α)) (s1 : EvapSurf α) (b01 : Nat)
    (e : α) (b2 : Nat) :
    evapTail F (P.withAdj m f p w im) S cells s1 b01 e b2 = evapTail F P S cells s1 b01 e b2 := by
  unfold evapTail
  have e1 : ∀ e pond s, pondEvap (P.withAdj m f p w im) e pond s = pondEvap P e pond s :=
    fun _ _ _ => rfl
  have e2 : ∀ cells s e a, evapStage1 F (P.withAdj m f p w im) cells s e a =
      evapStage1 F P cells s e a := fun _ _ _ _ => rfl
  simp only [e1, e2, evapStage2_withAdj]

/-- **master lemma**: if the refresh of the surface layer and the *value* of the adjusted potential
evaporation are the same under the replaced parameters, so is the whole result up to the ghost
branch mask -/
theorem soilEvaporation_withAdj (S : EvapState α) (cells : List (Cell α)) (D : EvapDay α)
    (hr : ∀ s, (evapRefresh (P.withAdj m f p w im) D s).1 = (evapRefresh P D s).1)
    (ha : ∀ e, (esPotAdjust (P.withAdj m f p w im) S D e).1 = (esPotAdjust P S D e).1) :
    (soilEvaporation F (P.withAdj m f p w im) S cells D).map EvapOut.noBranch =
      (soilEvaporation F P S cells D).map EvapOut.noBranch := by
  rw [soilEvaporation_eq_tail, soilEvaporation_eq_tail]
  have e1 : ∀ cells tsc dap s, evapReinit F (P.withAdj m f p w im) cells tsc dap s =
      evapReinit F P cells tsc dap s := fun _ _ _ _ => rfl
  have e2 : esPotBase F (P.withAdj m f p w im) S D = esPotBase F P S D := rfl
  simp only [e1, e2, evapTail_withAdj]
  cases evapReinit F P cells D.tsc S.dap
      { wSurf := S.wSurf, evapZ := S.evapZ, stage2 := S.stage2, wStage2 := S.wStage2 } with
  | error e => rfl
  | ok sb =>
    obtain ⟨s0, b0⟩ := sb
    cases esPotBase F P S D with
    | error e => rfl
    | ok eb =>
      obtain ⟨e, b⟩ := eb
      simp only [ha, hr]
      exact evapTail_noBranch F P S cells _ _ _ _ _ _

end evap

/-- the refresh test reads the method only through `IrrMethod ≠ 4`, and only after an
application -/
theorem evapRefresh_method (P : EvapParams α) (m : Bool) (f p w : α) (im : Nat) (D : EvapDay α)
    (s : EvapSurf α) (h : D.irr ≤ 0 ∨ (im = 4 ↔ P.irrMethod = 4)) :
    (evapRefresh (P.withAdj m f p w im) D s).1 = (evapRefresh P D s).1 := by
  unfold evapRefresh
  rcases h with h | h
  · have h0 : ¬ 0 < D.irr := not_lt.mpr h
    simp [h0]
  · by_cases h4 : P.irrMethod = 4
    · simp [h4, h.mpr h4]
    · simp [h4, mt h.mp h4]

/-- the factor the mulch adjustment multiplies the potential evaporation with -/
def mulchFactor (mulches : Bool) (fMulch mulchPct : α) : α :=
  if mulches then 1 - fMulch * (mulchPct / 100) else 1

/-- **value of the adjusted potential evaporation**: it depends on the mulch parameters only
through the mulch factor, on `WetSurf` and the method only after an application under a method
other than net irrigation -/
theorem esPotAdjust_value (P : EvapParams α) (m : Bool) (f p w : α) (im : Nat) (S : EvapState α)
    (D : EvapDay α) (e : α)
    (hmul : mulchFactor m f p = mulchFactor P.mulches P.fMulch P.mulchPct)
    (hwet : D.irr ≤ 0 ∨ ((im = 4 ↔ P.irrMethod = 4) ∧ (P.irrMethod ≠ 4 → w = P.wetSurf))) :
    (esPotAdjust (P.withAdj m f p w im) S D e).1 = (esPotAdjust P S D e).1 := by
  have h1 : (if (decide (S.pond < 0.000001) && m) = true then e * (1 - f * (p / 100)) else e) =
      (if (decide (S.pond < 0.000001) && P.mulches) = true
        then e * (1 - P.fMulch * (P.mulchPct / 100)) else e) := by
    by_cases hp : S.pond < 0.000001
    · have e1 : (if (decide (S.pond < 0.000001) && m) = true then e * (1 - f * (p / 100)) else e) =
          e * mulchFactor m f p := by
        unfold mulchFactor; cases m <;> simp [hp]
      have e2 : (if (decide (S.pond < 0.000001) && P.mulches) = true
            then e * (1 - P.fMulch * (P.mulchPct / 100)) else e) =
          e * mulchFactor P.mulches P.fMulch P.mulchPct := by
        unfold mulchFactor; cases P.mulches <;> simp [hp]
      rw [e1, e2, hmul]
    · simp [hp]
  have h2 : (if (decide (0 < D.irr ∧ im ≠ 4) && !decide (1 < D.rain ∨ 0 < S.pond)) = true
        then e * (w / 100) else e) =
      (if (decide (0 < D.irr ∧ P.irrMethod ≠ 4) && !decide (1 < D.rain ∨ 0 < S.pond)) = true
        then e * (P.wetSurf / 100) else e) := by
    rcases hwet with h | ⟨h, hw⟩
    · have h0 : ¬ 0 < D.irr := not_lt.mpr h
      simp [h0]
    · by_cases h4 : P.irrMethod = 4
      · simp [h4, h.mpr h4]
      · simp [h4, mt h.mp h4, hw h4]
  unfold esPotAdjust
  simp only []
  rw [h1, h2]

end Aqua
